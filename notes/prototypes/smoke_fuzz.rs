use bevy::prelude::*;
use bevy::ecs::system::SystemParam;
use bevy_cobweb::prelude::*;
use std::sync::Mutex;
use std::collections::HashMap;

// ---------------- logging ----------------
#[derive(Debug, Clone)]
enum L { Run{sys: usize, n: u32, b: Option<u32>, e: Option<(Entity,u32)>, s: Option<u32>, i: Option<Entity>, m: Option<Entity>, r: Option<Entity>, d: Option<Entity>}, Drop(u32), DropSys(usize) }
static RUNS: std::sync::atomic::AtomicUsize = std::sync::atomic::AtomicUsize::new(0);
static READS: std::sync::atomic::AtomicUsize = std::sync::atomic::AtomicUsize::new(0);
static DROPS: std::sync::atomic::AtomicUsize = std::sync::atomic::AtomicUsize::new(0);
static KINDS: Mutex<std::collections::BTreeMap<String,u32>> = Mutex::new(std::collections::BTreeMap::new());
static GLOG: Mutex<Vec<L>> = Mutex::new(Vec::new());
fn glog(l: L){ match &l { L::Run{b,e,s,..} => { RUNS.fetch_add(1, std::sync::atomic::Ordering::Relaxed); if b.is_some()||e.is_some()||s.is_some() { READS.fetch_add(1, std::sync::atomic::Ordering::Relaxed); } } L::Drop(_) => { DROPS.fetch_add(1, std::sync::atomic::Ordering::Relaxed); } _ => {} } GLOG.lock().unwrap().push(l); }
fn gtake() -> Vec<L> { std::mem::take(&mut *GLOG.lock().unwrap()) }

pub struct Payload(pub u32);
impl Drop for Payload { fn drop(&mut self){ glog(L::Drop(self.0)); } }
pub struct Ev(pub Payload);
#[derive(PartialEq, Clone, Debug)] pub struct Cp(pub u32);
impl ReactComponent for Cp {}
struct Canary(usize);
impl Drop for Canary { fn drop(&mut self){ glog(L::DropSys(self.0)); } }

#[derive(SystemParam)]
pub struct Readers<'w, 's> {
    b: BroadcastEvent<'w, 's, Ev>, e: EntityEvent<'w, 's, Ev>, s: SystemEvent<'w, 's, Ev>,
    i: InsertionEvent<'w, 's, Cp>, m: MutationEvent<'w, 's, Cp>, r: RemovalEvent<'w, 's, Cp>, d: DespawnEvent<'w>,
}

// ---------------- program ----------------
#[derive(Clone, Debug)]
enum Act { Run(usize), Sev(usize,u32), Bc(u32), Ee(usize,u32), DespSys(usize), DespEnt(usize), Mutate(usize), Insert(usize), Remove(usize), Revoke(usize) }
#[derive(Clone, Debug)]
enum Trig { Bc, Ee(usize), Aee, Mut, Emut(usize), Rem, Erem(usize), Ins, Dsp(usize) }
#[derive(Clone, Debug)]
struct Prog { nsys: usize, nent: usize, scripts: Vec<Vec<Vec<Act>>>, regs: Vec<(usize, u8, Vec<Trig>)>, top: Vec<Vec<Act>> }

#[derive(Resource)]
struct Ctx { prog: Prog, sys: Vec<SystemCommand>, ent: Vec<Entity>, toks: Vec<Option<RevokeToken>> }

struct Rng(u64);
impl Rng { fn next(&mut self) -> u64 { self.0 = self.0.wrapping_add(0x9E3779B97F4A7C15); let mut z = self.0; z = (z ^ (z >> 30)).wrapping_mul(0xBF58476D1CE4E5B9); z = (z ^ (z >> 27)).wrapping_mul(0x94D049BB133111EB); z ^ (z >> 31) }
  fn below(&mut self, n: usize) -> usize { (self.next() % n as u64) as usize } }

fn gen(rng: &mut Rng, pid: &mut u32) -> Prog {
    let nsys = 2 + rng.below(4); let nent = 1 + rng.below(3);
    let mut act = |rng: &mut Rng, pid: &mut u32| -> Act {
        match rng.below(20) {
            0..=3 => Act::Run(rng.below(nsys)),
            4..=8 => { *pid += 1; Act::Sev(rng.below(nsys), *pid) }
            9..=11 => { *pid += 1; Act::Bc(*pid) }
            12..=13 => { *pid += 1; Act::Ee(rng.below(nent), *pid) }
            14 => Act::DespSys(rng.below(nsys)),
            15 => Act::DespEnt(rng.below(nent)),
            16 => Act::Mutate(rng.below(nent)),
            17 => Act::Insert(rng.below(nent)),
            18 => Act::Remove(rng.below(nent)),
            _ => Act::Revoke(rng.below(4)),
        }
    };
    let mut scripts = vec![];
    for _ in 0..nsys { let nruns = rng.below(4); let mut v = vec![]; for _ in 0..nruns { let na = rng.below(5); v.push((0..na).map(|_| act(rng, pid)).collect()); } scripts.push(v); }
    let mut regs = vec![];
    for _ in 0..(1 + rng.below(5)) {
        let s = rng.below(nsys); let mode = rng.below(3) as u8;
        let nt = rng.below(4);
        let ts = (0..nt).map(|_| match rng.below(9) { 0 => Trig::Bc, 1 => Trig::Ee(rng.below(nent)), 2 => Trig::Aee, 3 => Trig::Mut, 4 => Trig::Emut(rng.below(nent)), 5 => Trig::Rem, 6 => Trig::Erem(rng.below(nent)), 7 => Trig::Ins, _ => Trig::Dsp(rng.below(nent)) }).collect();
        regs.push((s, mode, ts));
    }
    let top = (0..(1 + rng.below(3))).map(|_| { let na = 1 + rng.below(4); (0..na).map(|_| act(rng, pid)).collect() }).collect();
    Prog { nsys, nent, scripts, regs, top }
}

fn do_act(a: &Act, c: &mut Commands, ctx: &Ctx, q: &mut Query<&mut React<Cp>>) {
    match *a {
        Act::Run(s) => c.queue(ctx.sys[s]),
        Act::Sev(s, p) => c.send_system_event(ctx.sys[s], Ev(Payload(p))),
        Act::Bc(p) => c.react().broadcast(Ev(Payload(p))),
        Act::Ee(e, p) => c.react().entity_event(ctx.ent[e], Ev(Payload(p))),
        Act::DespSys(s) => { if let Some(mut ec) = c.get_entity(*ctx.sys[s]) { ec.despawn(); } }
        Act::DespEnt(e) => { if let Some(mut ec) = c.get_entity(ctx.ent[e]) { ec.despawn(); } }
        Act::Mutate(e) => { if let Ok(mut r) = q.get_mut(ctx.ent[e]) { r.get_mut(c).0 += 1; } }
        Act::Insert(e) => c.react().insert(ctx.ent[e], Cp(0)),
        Act::Remove(e) => { if let Some(mut ec) = c.get_entity(ctx.ent[e]) { ec.remove::<React<Cp>>(); } }
        Act::Revoke(t) => { if let Some(Some(tok)) = ctx.toks.get(t) { c.react().revoke(tok.clone()); } }
    }
}

fn make_sys(id: usize) -> impl FnMut(Commands, Local<u32>, Readers, Res<Ctx>, Query<&mut React<Cp>>) + Send + Sync + 'static {
    let canary = Canary(id);
    move |mut c: Commands, mut n: Local<u32>, mut rd: Readers, ctx: Res<Ctx>, mut q: Query<&mut React<Cp>>| {
        let _ = &canary; *n += 1;
        let b = rd.b.try_read().ok().map(|e| e.0.0);
        let e = rd.e.try_read().ok().map(|(t,e)| (t, e.0.0));
        let taken = rd.s.take().ok();
        let s = taken.as_ref().map(|e| e.0.0);
        glog(L::Run{ sys: id, n: *n, b, e, s, i: rd.i.get().ok(), m: rd.m.get().ok(), r: rd.r.get().ok(), d: rd.d.get().ok() });
        let again = rd.s.take().is_ok();
        assert!(!again, "system event taken twice");
        if let Some(script) = ctx.prog.scripts[id].get((*n - 1) as usize) {
            for a in script { do_act(a, &mut c, &ctx, &mut q); }
        }
        drop(taken);
    }
}

fn register(rc: &mut ReactCommands, ctx_ent: &Vec<Entity>, s: SystemCommand, mode: ReactorMode, ts: &Vec<Trig>) -> Option<RevokeToken> {
    // register each trigger separately is wrong for tokens; build bundles of size up to 3 by matching
    macro_rules! t { ($t:expr) => { match $t { Trig::Bc => 0, _ => 1 } } }
    let _ = t!(&Trig::Bc);
    // naive: one `with` per trigger for Persistent; for ref-counted modes use only the first up-to-3 triggers as one bundle via dynamic dispatch
    fn one(rc: &mut ReactCommands, ent: &Vec<Entity>, s: SystemCommand, mode: ReactorMode, t: &Trig) -> Option<RevokeToken> {
        match *t {
            Trig::Bc => rc.with(broadcast::<Ev>(), s, mode), Trig::Ee(e) => rc.with(entity_event::<Ev>(ent[e]), s, mode),
            Trig::Aee => rc.with(any_entity_event::<Ev>(), s, mode), Trig::Mut => rc.with(mutation::<Cp>(), s, mode),
            Trig::Emut(e) => rc.with(entity_mutation::<Cp>(ent[e]), s, mode), Trig::Rem => rc.with(removal::<Cp>(), s, mode),
            Trig::Erem(e) => rc.with(entity_removal::<Cp>(ent[e]), s, mode), Trig::Ins => rc.with(insertion::<Cp>(), s, mode),
            Trig::Dsp(e) => rc.with(despawn(ent[e]), s, mode),
        }
    }
    fn two(rc: &mut ReactCommands, ent: &Vec<Entity>, s: SystemCommand, mode: ReactorMode, a: &Trig, b: &Trig) -> Option<RevokeToken> {
        // limited combos: (x, Bc) and (x, Dsp)
        macro_rules! with2 { ($x:expr) => { match *b { Trig::Dsp(e) => rc.with(($x, despawn(ent[e])), s, mode), Trig::Emut(e) => rc.with(($x, entity_mutation::<Cp>(ent[e])), s, mode), Trig::Ee(e) => rc.with(($x, entity_event::<Ev>(ent[e])), s, mode), _ => rc.with(($x, broadcast::<Ev>()), s, mode) } } }
        match *a {
            Trig::Bc => with2!(broadcast::<Ev>()), Trig::Ee(e) => with2!(entity_event::<Ev>(ent[e])), Trig::Aee => with2!(any_entity_event::<Ev>()),
            Trig::Mut => with2!(mutation::<Cp>()), Trig::Emut(e) => with2!(entity_mutation::<Cp>(ent[e])), Trig::Rem => with2!(removal::<Cp>()),
            Trig::Erem(e) => with2!(entity_removal::<Cp>(ent[e])), Trig::Ins => with2!(insertion::<Cp>()), Trig::Dsp(e) => with2!(despawn(ent[e])),
        }
    }
    match ts.len() { 0 => rc.with((), s, mode), 1 => one(rc, ctx_ent, s, mode, &ts[0]), _ => two(rc, ctx_ent, s, mode, &ts[0], &ts[1]) }
}

fn run_prog(prog: &Prog) -> Result<(), String> {
    let _ = gtake();
    let mut app = App::new();
    app.add_plugins(ReactPlugin);
    let w = app.world_mut();
    let sys: Vec<SystemCommand> = (0..prog.nsys).map(|i| w.spawn_system_command(make_sys(i))).collect();
    let ent: Vec<Entity> = (0..prog.nent).map(|_| w.spawn_empty().id()).collect();
    for e in &ent { let e = *e; w.react(|rc| rc.insert(e, Cp(0))); }
    let mut toks = vec![];
    let mut refcounted = std::collections::HashSet::new();
    for (s, mode, ts) in &prog.regs {
        let mode = match mode { 0 => ReactorMode::Persistent, 1 => ReactorMode::Cleanup, _ => ReactorMode::Revokable };
        // single_call discipline: a system gets at most one ref-counted registration, and then no other
        let mode = if refcounted.contains(s) { continue } else { mode };
        if mode != ReactorMode::Persistent { refcounted.insert(*s); }
        let sc = sys[*s]; let entc = ent.clone();
        let tok = w.react(|rc| register(rc, &entc, sc, mode, ts));
        toks.push(tok);
    }
    w.insert_resource(Ctx{ prog: prog.clone(), sys: sys.clone(), ent: ent.clone(), toks });
    let mut sent: HashMap<u32, &'static str> = HashMap::new();
    fn collect(a: &Act, sent: &mut HashMap<u32, &'static str>) { match *a { Act::Sev(_,p) => { sent.insert(p, "sev"); } Act::Bc(p) => { sent.insert(p, "bc"); } Act::Ee(_,p) => { sent.insert(p, "ee"); } _ => {} } }
    for top in &prog.top {
        let top = top.clone();
        let before = gtake(); let _ = before;
        let res = std::panic::catch_unwind(std::panic::AssertUnwindSafe(|| {
            w.syscall(top.clone(), |In(top): In<Vec<Act>>, mut c: Commands, ctx: Res<Ctx>, mut q: Query<&mut React<Cp>>| { for a in &top { do_act(a, &mut c, &ctx, &mut q); } });
        }));
        if res.is_err() { return Err("panic".into()); }
        let log = gtake();
        // oracle: quiescent snapshot
        let snap = bevy_cobweb::react::verif::snapshot(w);
        if !snap.starts_with("counter=0 buffered=0 ev=(false, 0) se=(false, 0) er=(false, 0) de=(false, 0, false)") || !snap.contains("taken=0") || !snap.contains("data_entities=0") {
            return Err(format!("not quiescent: {snap}"));
        }
        // oracle: payloads created in this op are dropped exactly once within it; readers consistent
        let mut created: HashMap<u32, &'static str> = HashMap::new();
        for a in &top { collect(a, &mut created); }
        // payloads created by scripts executed in this op
        for l in &log { if let L::Run{sys, n, ..} = l { if let Some(sc) = prog.scripts[*sys].get((*n-1) as usize) { for a in sc { collect(a, &mut created); } } } }
        let mut drops: HashMap<u32, u32> = HashMap::new();
        let mut runno: HashMap<usize, u32> = HashMap::new();
        let mut dropped_at: HashMap<u32, usize> = HashMap::new();
        for (pos, l) in log.iter().enumerate() {
            match l {
                L::Drop(p) => { *drops.entry(*p).or_default() += 1; dropped_at.insert(*p, pos); }
                L::Run{sys, n, b, e, s, i, m, r, d} => {
                    let cnt = [b.is_some(), e.is_some(), s.is_some(), i.is_some(), m.is_some(), r.is_some(), d.is_some()].iter().filter(|x| **x).count();
                    if cnt > 1 { return Err(format!("several readers non-empty: {l:?}")); }
                    for p in [*b, e.map(|x| x.1), *s].into_iter().flatten() {
                        if dropped_at.contains_key(&p) { return Err(format!("read after drop p{p}")); }
                        let kind = created.get(&p).or(sent.get(&p)).copied().unwrap_or("?");
                        let ok = (b.is_some() && kind == "bc") || (e.is_some() && kind == "ee") || (s.is_some() && kind == "sev");
                        if !ok { return Err(format!("payload kind mismatch p{p} {kind} {l:?}")); }
                    }
                    let _ = (sys, n);
                }
                _ => {}
            }
        }
        let _ = &mut runno;
        for (p, _) in &created { let c = drops.get(p).copied().unwrap_or(0); if c != 1 { return Err(format!("payload p{p} dropped {c} times in its tree; log={log:?}")); } }
        for (p, c) in &drops { if !created.contains_key(p) { return Err(format!("late drop of p{p} x{c}")); } }
        sent.extend(created);
    }
    // Local monotone per system across whole program: re-run quickly? (checked inline below)
    Ok(())
}

fn main(){
    let seed: u64 = std::env::args().nth(1).and_then(|s| s.parse().ok()).unwrap_or(1);
    let n: usize = std::env::args().nth(2).and_then(|s| s.parse().ok()).unwrap_or(2000);
    std::panic::set_hook(Box::new(|_| {}));
    let mut rng = Rng(seed); let mut pid = 0u32; let mut fails = 0;
    let mut stats = (0usize, 0usize);
    for k in 0..n {
        let prog = gen(&mut rng, &mut pid);
        match run_prog(&prog) { Ok(()) => { stats.0 += 1; } Err(e) => { fails += 1; stats.1 += 1; { let key: String = e.split(":").next().unwrap_or("").to_string(); let seen = KINDS.lock().unwrap().entry(key.clone()).and_modify(|c| *c += 1).or_insert(1).clone(); if seen <= 1 { println!("FAIL #{k}: {}\n  prog={prog:?}", &e[..e.len().min(400)]); } } } }
    }
    println!("kinds {:?}", KINDS.lock().unwrap()); println!("done ok={} fail={} runs={} reads={} drops={}", stats.0, stats.1, RUNS.load(std::sync::atomic::Ordering::Relaxed), READS.load(std::sync::atomic::Ordering::Relaxed), DROPS.load(std::sync::atomic::Ordering::Relaxed));
}
