use bevy::prelude::*;
use bevy::ecs::system::SystemParam;
use bevy_cobweb::prelude::*;
use std::sync::Mutex;
use std::collections::BTreeMap;

#[derive(Debug, Clone, PartialEq, Eq, PartialOrd, Ord)]
enum Obs { Bc(u32), Ee(usize,u32), Ins(usize), Mut(usize), Rem(usize), Dsp(usize), None }
static RUNS: Mutex<Vec<(usize, Obs)>> = Mutex::new(Vec::new());
static DROPS: Mutex<Vec<usize>> = Mutex::new(Vec::new());

pub struct Ev(pub u32);
#[derive(PartialEq, Clone, Debug)] pub struct Cp(pub u32);
impl ReactComponent for Cp {}
struct Canary(usize);
impl Drop for Canary { fn drop(&mut self){ DROPS.lock().unwrap().push(self.0); } }

#[derive(SystemParam)]
pub struct Readers<'w, 's> {
    b: BroadcastEvent<'w, 's, Ev>, e: EntityEvent<'w, 's, Ev>,
    i: InsertionEvent<'w, 's, Cp>, m: MutationEvent<'w, 's, Cp>, r: RemovalEvent<'w, 's, Cp>, d: DespawnEvent<'w>,
}
#[derive(Resource)] struct Ents(Vec<Entity>);
fn eidx(ents: &Ents, e: Entity) -> usize { ents.0.iter().position(|x| *x == e).unwrap_or(99) }

fn make_sys(id: usize) -> impl FnMut(Readers, Res<Ents>) + Send + Sync + 'static {
    let canary = Canary(id);
    move |rd: Readers, ents: Res<Ents>| {
        let _ = &canary;
        let mut obs = vec![];
        if let Ok(e) = rd.b.try_read() { obs.push(Obs::Bc(e.0)); }
        if let Ok((t, e)) = rd.e.try_read() { obs.push(Obs::Ee(eidx(&ents, t), e.0)); }
        if let Ok(e) = rd.i.get() { obs.push(Obs::Ins(eidx(&ents, e))); }
        if let Ok(e) = rd.m.get() { obs.push(Obs::Mut(eidx(&ents, e))); }
        if let Ok(e) = rd.r.get() { obs.push(Obs::Rem(eidx(&ents, e))); }
        if let Ok(e) = rd.d.get() { obs.push(Obs::Dsp(eidx(&ents, e))); }
        assert!(obs.len() <= 1, "several readers {obs:?}");
        RUNS.lock().unwrap().push((id, obs.pop().unwrap_or(Obs::None)));
    }
}

#[derive(Clone, Copy, Debug, PartialEq, Eq)]
enum Trig { Bc, Ee(usize), Aee, Mut, Emut(usize), Rem, Erem(usize), Ins, Eins(usize), Dsp(usize) }
impl Trig { fn ent(&self) -> Option<usize> { match *self { Trig::Ee(e)|Trig::Emut(e)|Trig::Erem(e)|Trig::Eins(e)|Trig::Dsp(e) => Some(e), _ => None } }
            fn scoped(&self) -> bool { matches!(self, Trig::Ee(_)|Trig::Emut(_)|Trig::Erem(_)|Trig::Eins(_)) } }
#[derive(Clone, Debug)]
enum Op { Reg{call: usize, sys: usize, mode: u8, ts: Vec<Trig>}, Revoke(usize), Bc(u32), Ee(usize,u32), Mutate(usize), Insert(usize), Remove(usize), DespEnt(usize), DespSys(usize), Nop }

struct Rng(u64);
impl Rng { fn next(&mut self) -> u64 { self.0 = self.0.wrapping_add(0x9E3779B97F4A7C15); let mut z = self.0; z = (z ^ (z >> 30)).wrapping_mul(0xBF58476D1CE4E5B9); z = (z ^ (z >> 27)).wrapping_mul(0x94D049BB133111EB); z ^ (z >> 31) }
  fn below(&mut self, n: usize) -> usize { (self.next() % n as u64) as usize } }

fn reg1(rc: &mut ReactCommands, ent: &Vec<Entity>, s: SystemCommand, mode: ReactorMode, t: Trig) -> Option<RevokeToken> {
    match t {
        Trig::Bc => rc.with(broadcast::<Ev>(), s, mode), Trig::Ee(e) => rc.with(entity_event::<Ev>(ent[e]), s, mode),
        Trig::Aee => rc.with(any_entity_event::<Ev>(), s, mode), Trig::Mut => rc.with(mutation::<Cp>(), s, mode),
        Trig::Emut(e) => rc.with(entity_mutation::<Cp>(ent[e]), s, mode), Trig::Rem => rc.with(removal::<Cp>(), s, mode),
        Trig::Erem(e) => rc.with(entity_removal::<Cp>(ent[e]), s, mode), Trig::Ins => rc.with(insertion::<Cp>(), s, mode),
        Trig::Eins(e) => rc.with(entity_insertion::<Cp>(ent[e]), s, mode), Trig::Dsp(e) => rc.with(despawn(ent[e]), s, mode),
    }
}
fn reg2(rc: &mut ReactCommands, ent: &Vec<Entity>, s: SystemCommand, mode: ReactorMode, a: Trig, b: Trig) -> Option<RevokeToken> {
    macro_rules! second { ($x:expr) => { match b {
        Trig::Bc => rc.with(($x, broadcast::<Ev>()), s, mode), Trig::Ee(e) => rc.with(($x, entity_event::<Ev>(ent[e])), s, mode),
        Trig::Aee => rc.with(($x, any_entity_event::<Ev>()), s, mode), Trig::Mut => rc.with(($x, mutation::<Cp>()), s, mode),
        Trig::Emut(e) => rc.with(($x, entity_mutation::<Cp>(ent[e])), s, mode), Trig::Rem => rc.with(($x, removal::<Cp>()), s, mode),
        Trig::Erem(e) => rc.with(($x, entity_removal::<Cp>(ent[e])), s, mode), Trig::Ins => rc.with(($x, insertion::<Cp>()), s, mode),
        Trig::Eins(e) => rc.with(($x, entity_insertion::<Cp>(ent[e])), s, mode), Trig::Dsp(e) => rc.with(($x, despawn(ent[e])), s, mode) } } }
    match a {
        Trig::Bc => second!(broadcast::<Ev>()), Trig::Ee(e) => second!(entity_event::<Ev>(ent[e])), Trig::Aee => second!(any_entity_event::<Ev>()),
        Trig::Mut => second!(mutation::<Cp>()), Trig::Emut(e) => second!(entity_mutation::<Cp>(ent[e])), Trig::Rem => second!(removal::<Cp>()),
        Trig::Erem(e) => second!(entity_removal::<Cp>(ent[e])), Trig::Ins => second!(insertion::<Cp>()), Trig::Eins(e) => second!(entity_insertion::<Cp>(ent[e])),
        Trig::Dsp(e) => second!(despawn(ent[e])),
    }
}

// ---------- shadow model ----------
#[derive(Clone, Debug)]
struct Reg { call: usize, sys: usize, t: Trig, rc: bool }
struct Shadow { regs: Vec<Reg>, sys_alive: Vec<bool>, ent_alive: Vec<bool>, comp: Vec<bool>, rc_call: BTreeMap<usize, usize> /* sys -> its single ref-counted call */, calls: Vec<(usize, Vec<Trig>)>, tracked_removal: bool, pending_rem: Vec<usize> }

fn run_one(rng: &mut Rng, nops: usize, allow_dups: bool) -> Result<(), String> {
    RUNS.lock().unwrap().clear(); DROPS.lock().unwrap().clear();
    let nsys = 2 + rng.below(3); let nent = 1 + rng.below(3);
    let mut app = App::new(); app.add_plugins(ReactPlugin);
    let w = app.world_mut();
    let sys: Vec<SystemCommand> = (0..nsys).map(|i| w.spawn_system_command(make_sys(i))).collect();
    let ent: Vec<Entity> = (0..nent).map(|_| w.spawn_empty().id()).collect();
    w.insert_resource(Ents(ent.clone()));
    let mut sh = Shadow{ regs: vec![], sys_alive: vec![true; nsys], ent_alive: vec![true; nent], comp: vec![false; nent], rc_call: BTreeMap::new(), calls: vec![], tracked_removal: false, pending_rem: vec![] };
    let mut toks: Vec<Option<RevokeToken>> = vec![];
    let mut pid = 0u32; let mut history = vec![];
    for _ in 0..nops {
        let op = match rng.below(14) {
            0..=3 => { let s = rng.below(nsys); let mode = rng.below(3) as u8;
                let nt = 1 + rng.below(2);
                let ts: Vec<Trig> = (0..nt).map(|_| match rng.below(10) { 0 => Trig::Bc, 1 => Trig::Ee(rng.below(nent)), 2 => Trig::Aee, 3 => Trig::Mut, 4 => Trig::Emut(rng.below(nent)), 5 => Trig::Rem, 6 => Trig::Erem(rng.below(nent)), 7 => Trig::Ins, 8 => Trig::Eins(rng.below(nent)), _ => Trig::Dsp(rng.below(nent)) }).collect();
                // discipline: a system is either persistent-only or has exactly one ref-counted call
                let has_any = sh.calls.iter().any(|(cs, _)| *cs == s);
                let mode = if sh.rc_call.contains_key(&s) { 255 } else if mode != 0 && has_any { 0 } else { mode };
                if mode == 255 { Op::Nop } else {
                    // optionally forbid duplicates of (sys,trigger) across calls
                    if !allow_dups && ts.iter().any(|t| sh.regs.iter().any(|r| r.sys == s && r.t == *t)) { Op::Nop }
                    else if !allow_dups && ts.len() == 2 && ts[0] == ts[1] { Op::Nop }
                    else { Op::Reg{ call: sh.calls.len(), sys: s, mode, ts } } } }
            4 => if toks.is_empty() { Op::Nop } else { Op::Revoke(rng.below(toks.len())) },
            5..=6 => { pid += 1; Op::Bc(pid) }
            7 => { pid += 1; Op::Ee(rng.below(nent), pid) }
            8 => Op::Mutate(rng.below(nent)),
            9 => Op::Insert(rng.below(nent)),
            10 => Op::Remove(rng.below(nent)),
            11 => Op::DespEnt(rng.below(nent)),
            12 => Op::DespSys(rng.below(nsys)),
            _ => Op::Nop,
        };
        history.push(op.clone());
        let mut expect: Vec<(usize, Obs)> = vec![];
        let push_runs = |sh: &Shadow, expect: &mut Vec<(usize, Obs)>, pred: &dyn Fn(&Trig) -> bool, obs: Obs| {
            for r in &sh.regs { if pred(&r.t) && sh.sys_alive[r.sys] { expect.push((r.sys, obs.clone())); } } };
        match &op {
            Op::Nop => {}
            Op::Reg{call, sys: s, mode, ts} => {
                let m = match mode { 0 => ReactorMode::Persistent, 1 => ReactorMode::Cleanup, _ => ReactorMode::Revokable };
                let sc = sys[*s]; let entc = ent.clone(); let tsc = ts.clone();
                let tok = w.react(|rc| if tsc.len() == 1 { reg1(rc, &entc, sc, m, tsc[0]) } else { reg2(rc, &entc, sc, m, tsc[0], tsc[1]) });
                toks.push(tok);
                sh.calls.push((*s, ts.clone()));
                if *mode != 0 { sh.rc_call.insert(*s, *call); }
                for t in ts { if matches!(t, Trig::Rem | Trig::Erem(_)) { sh.tracked_removal = true; }
                    if let Some(e) = t.ent() { if !sh.ent_alive[e] { continue; } }
                    sh.regs.push(Reg{ call: *call, sys: *s, t: *t, rc: *mode != 0 }); }
            }
            Op::Revoke(k) => { if let Some(tok) = toks[*k].clone() { w.react(|rc| rc.revoke(tok));
                let (s, ts) = sh.calls[*k].clone();
                for t in ts { if t.scoped() { sh.regs.retain(|r| !(r.sys == s && r.t == t)); }
                              else if let Some(pos) = sh.regs.iter().position(|r| r.sys == s && r.t == t) { sh.regs.remove(pos); } } } }
            Op::Bc(p) => { let p = *p; push_runs(&sh, &mut expect, &|t| *t == Trig::Bc, Obs::Bc(p)); w.react(|rc| rc.broadcast(Ev(p))); }
            Op::Ee(e, p) => { let (e, p) = (*e, *p); let alive = sh.ent_alive[e];
                push_runs(&sh, &mut expect, &|t| (alive && *t == Trig::Ee(e)) || *t == Trig::Aee, Obs::Ee(e, p)); let en = ent[e]; w.react(|rc| rc.entity_event(en, Ev(p))); }
            Op::Mutate(e) => { let e = *e; if sh.ent_alive[e] && sh.comp[e] {
                push_runs(&sh, &mut expect, &|t| *t == Trig::Emut(e) || *t == Trig::Mut, Obs::Mut(e));
                w.syscall(ent[e], |In(e): In<Entity>, mut c: Commands, mut q: Query<&mut React<Cp>>| { q.get_mut(e).unwrap().get_mut(&mut c).0 += 1; }); } }
            Op::Insert(e) => { let e = *e; if sh.ent_alive[e] { sh.comp[e] = true;
                push_runs(&sh, &mut expect, &|t| *t == Trig::Eins(e) || *t == Trig::Ins, Obs::Ins(e)); }
                let en = ent[e]; w.react(|rc| rc.insert(en, Cp(0))); }
            Op::Remove(e) => { let e = *e; if sh.ent_alive[e] { if sh.comp[e] { sh.comp[e] = false; sh.pending_rem.push(e); } w.entity_mut(ent[e]).remove::<React<Cp>>(); } }
            Op::DespEnt(e) => { let e = *e; if sh.ent_alive[e] { sh.ent_alive[e] = false;
                if sh.comp[e] { sh.comp[e] = false; sh.pending_rem.push(e); }
                w.despawn(ent[e]); } }
            Op::DespSys(s) => { if sh.sys_alive[*s] { sh.sys_alive[*s] = false; w.despawn(*sys[*s]); } }
        }
        // GC + poll (as Last would do)
        garbage_collect_entities(w);
        // removal reactions: only if the removal reader exists (tracked); events before tracking are still buffered (cursor 0)
        if sh.tracked_removal { for e in std::mem::take(&mut sh.pending_rem) {
            let alive = sh.ent_alive[e];
            push_runs(&sh, &mut expect, &|t| (alive && *t == Trig::Erem(e)) || *t == Trig::Rem, Obs::Rem(e)); } }
        // despawn reactions + loss of entity-scoped registrations
        for e in 0..nent { if !sh.ent_alive[e] {
            push_runs(&sh, &mut expect, &|t| *t == Trig::Dsp(e), Obs::Dsp(e));
            sh.regs.retain(|r| r.t.ent() != Some(e)); } }
        schedule_removal_and_despawn_reactors(w);
        garbage_collect_entities(w);
        // lifetime: ref-counted system dies when its call has no regs left
        for (s, call) in sh.rc_call.clone() { if sh.sys_alive[s] && !sh.regs.iter().any(|r| r.call == call) { sh.sys_alive[s] = false; } }
        // compare runs (multiset)
        let mut got = std::mem::take(&mut *RUNS.lock().unwrap()); got.sort(); expect.sort();
        if got != expect { return Err(format!("runs differ after {op:?}\n  got    {got:?}\n  expect {expect:?}\n  hist {history:?}")); }
        for s in 0..nsys { let alive = w.get_entity(*sys[s]).is_ok(); if alive != sh.sys_alive[s] { return Err(format!("sys{s} alive={alive} expected {} after {op:?}\n hist {history:?}", sh.sys_alive[s])); } }
        let snap = bevy_cobweb::react::verif::snapshot(w);
        if !snap.starts_with("counter=0 buffered=0 ev=(false, 0) se=(false, 0) er=(false, 0) de=(false, 0, false)") { return Err(format!("not quiescent {snap}")); }
    }
    // canaries: dropped exactly for dead systems
    let drops = DROPS.lock().unwrap().clone();
    for s in 0..nsys { let n = drops.iter().filter(|d| **d == s).count(); let want = if sh.sys_alive[s] { 0 } else { 1 }; if n != want { return Err(format!("canary sys{s} dropped {n} want {want}")); } }
    Ok(())
}

fn main(){
    let seed: u64 = std::env::args().nth(1).and_then(|s| s.parse().ok()).unwrap_or(1);
    let n: usize = std::env::args().nth(2).and_then(|s| s.parse().ok()).unwrap_or(2000);
    let dups: bool = std::env::args().nth(3).map(|s| s == "dups").unwrap_or(false);
    std::panic::set_hook(Box::new(|_| {}));
    let mut rng = Rng(seed); let (mut ok, mut fail) = (0, 0);
    for k in 0..n {
        let r = std::panic::catch_unwind(std::panic::AssertUnwindSafe(|| run_one(&mut rng, 12, dups)));
        match r { Ok(Ok(())) => ok += 1, Ok(Err(e)) => { fail += 1; if fail <= 3 { println!("FAIL #{k}: {}", &e[..e.len().min(1500)]); } } Err(_) => { fail += 1; if fail <= 3 { println!("PANIC #{k}"); } } }
    }
    println!("done ok={ok} fail={fail}");
}
