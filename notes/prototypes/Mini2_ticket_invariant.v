From Coq Require Import List Arith Lia Bool Permutation.
Import ListNotations.

(* Miniature of the tracker discipline after the ticket fix:
   EventCommand.apply = prepare(ticket, sys, payload); runner(setup = start ticket, cleanup = end);
   postponed commands keep their ticket; abort = setup; cleanup.
   Mini C03: a run reads exactly the payload of the command that caused it (manual runs read nothing).
   Mini C05: every payload is released exactly once, at the cleanup/abort of its own command. *)

Inductive cb := Dead | Taken | Idle (runno : nat).
Inductive action := ARun (t : nat) | AEvent (t p : nat) | ADespawn (t : nat).

Record buffered := { b_t : nat; b_su : option nat (* ticket *); b_cid : nat }.

Inductive ev :=
| EvCmd (cid t : nat) (cause : option nat)
| EvPostpone (cid : nat) | EvAbort (cid : nat)
| EvRunStart (cid t runno : nat) (read : option nat)
| EvRelease (cid : nat) (p : nat)          (* framework lets go of payload p while cleaning up command cid *)
| EvRunEnd (cid : nat).

Record st := {
  counter : nat; buffer : list buffered; store : nat -> cb; log : list ev; cidc : nat;
  tick : nat; prepared : list (nat * nat * nat);   (* ticket, sys, payload *)
  reacting : option nat }.

Definition upd (f : nat -> cb) (t : nat) (v : cb) : nat -> cb := fun x => if Nat.eqb x t then v else f x.

Definition set_store s f := {| counter := counter s; buffer := buffer s; store := f; log := log s; cidc := cidc s; tick := tick s; prepared := prepared s; reacting := reacting s |}.
Definition set_counter s c := {| counter := c; buffer := buffer s; store := store s; log := log s; cidc := cidc s; tick := tick s; prepared := prepared s; reacting := reacting s |}.
Definition set_buffer s b := {| counter := counter s; buffer := b; store := store s; log := log s; cidc := cidc s; tick := tick s; prepared := prepared s; reacting := reacting s |}.
Definition add_log s e := {| counter := counter s; buffer := buffer s; store := store s; log := log s ++ [e]; cidc := cidc s; tick := tick s; prepared := prepared s; reacting := reacting s |}.
Definition set_prepared s l := {| counter := counter s; buffer := buffer s; store := store s; log := log s; cidc := cidc s; tick := tick s; prepared := l; reacting := reacting s |}.
Definition set_reacting s r := {| counter := counter s; buffer := buffer s; store := store s; log := log s; cidc := cidc s; tick := tick s; prepared := prepared s; reacting := r |}.
Definition bump_cid s := {| counter := counter s; buffer := buffer s; store := store s; log := log s; cidc := S (cidc s); tick := tick s; prepared := prepared s; reacting := reacting s |}.
Definition bump_tick s := {| counter := counter s; buffer := buffer s; store := store s; log := log s; cidc := cidc s; tick := S (tick s); prepared := prepared s; reacting := reacting s |}.

(* tracker: remove the entry with this ticket *)
Fixpoint take_ticket (tk : nat) (l : list (nat * nat * nat)) : option (nat * list (nat * nat * nat)) :=
  match l with
  | [] => None
  | (k, t, p) :: r =>
      if Nat.eqb k tk then Some (p, r)
      else match take_ticket tk r with Some (q, r') => Some (q, (k, t, p) :: r') | None => None end
  end.

(* setup: start ticket -> reacting := payload ; default: nothing *)
Definition run_setup (su : option nat) (s : st) : option st :=
  match su with
  | None => Some s
  | Some tk => match take_ticket tk (prepared s) with
               | Some (p, r) => Some (set_reacting (set_prepared s r) (Some p))
               | None => None      (* debug_assert!(false): Stuck *)
               end
  end.

(* cleanup: end -> reacting := None and release the payload (the data entity is despawned) *)
Definition run_cleanup (cid : nat) (s : st) : st :=
  match reacting s with
  | Some p => add_log (set_reacting s None) (EvRelease cid p)
  | None => s
  end.

Section Prog.
Variable script : nat -> nat -> list action.

Inductive instr :=
| IAct (a : action) | IActs (l : list action)
| IRunner (t : nat) (su : option nat) (cid : nat)
| IReplay (t : nat) (pending kept : list buffered)
| IDiscard.

Inductive res := Ok (s : st) | OutOfFuel | Stuck.
Definition bind (r : res) (k : st -> res) : res := match r with Ok s => k s | OutOfFuel => OutOfFuel | Stuck => Stuck end.

Definition abort (su : option nat) (cid : nat) (s : st) : res :=
  match run_setup su s with
  | Some s => Ok (add_log (run_cleanup cid s) (EvAbort cid))
  | None => Stuck
  end.

Fixpoint exec (fuel : nat) (i : instr) (s : st) {struct fuel} : res :=
  match fuel with
  | O => OutOfFuel
  | S f =>
    match i with
    | IAct (ADespawn t) => Ok (set_store s (upd (store s) t Dead))
    | IAct (ARun t) =>
        let cid := cidc s in
        exec f (IRunner t None cid) (add_log (bump_cid s) (EvCmd cid t None))
    | IAct (AEvent t p) =>
        let cid := cidc s in let tk := tick s in
        let s := bump_tick (bump_cid s) in
        let s := set_prepared s (prepared s ++ [(tk, t, p)]) in
        exec f (IRunner t (Some tk) cid) (add_log s (EvCmd cid t (Some p)))
    | IActs [] => Ok s
    | IActs (a :: l) => bind (exec f (IAct a) s) (fun s => exec f (IActs l) s)
    | IRunner t su cid =>
        let idx := counter s in
        match store s t with
        | Dead => abort su cid s
        | Taken =>
            if Nat.eqb idx 0 then abort su cid s
            else Ok (add_log (set_buffer s (buffer s ++ [{| b_t := t; b_su := su; b_cid := cid |}])) (EvPostpone cid))
        | Idle n =>
            let s := set_counter (set_store s (upd (store s) t Taken)) (S (counter s)) in
            match run_setup su s with
            | None => Stuck
            | Some s =>
              let s := add_log s (EvRunStart cid t n (reacting s)) in     (* body samples the reader *)
              let s := run_cleanup cid s in                              (* cleanup before apply_deferred *)
              bind (exec f (IActs (script t n)) s) (fun s =>
              let s := match store s t with
                       | Taken => set_store s (upd (store s) t (Idle (S n)))
                       | _ => s end in
              let s := add_log s (EvRunEnd cid) in
              let q := buffer s in
              let s := set_buffer s [] in
              bind (exec f (IReplay t q []) s) (fun s =>
              if Nat.eqb idx 0 then bind (exec f IDiscard s) (fun s => Ok (set_counter s 0))
              else Ok s))
            end
        end
    | IReplay t [] kept => Ok (set_buffer s (buffer s ++ kept))
    | IReplay t (b :: pending) kept =>
        if Nat.eqb (b_t b) t then
          bind (exec f (IRunner (b_t b) (b_su b) (b_cid b)) s) (fun s => exec f (IReplay t pending kept) s)
        else exec f (IReplay t pending (kept ++ [b])) s
    | IDiscard =>
        match buffer s with
        | [] => Ok s
        | b :: rest => bind (abort (b_su b) (b_cid b) (set_buffer s rest)) (fun s => exec f IDiscard s)
        end
    end
  end.

(* ---------------- specification vocabulary over the log ---------------- *)

Fixpoint cause_of (cid : nat) (l : list ev) : option (option nat) :=
  match l with
  | [] => None
  | EvCmd c _ ca :: r => if Nat.eqb c cid then Some ca else cause_of cid r
  | _ :: r => cause_of cid r
  end.

(* mini C03 on a log: every run read exactly the cause of its command *)
Definition reads_ok (l : list ev) : Prop :=
  forall cid t n r, In (EvRunStart cid t n r) l -> cause_of cid l = Some r.

(* mini C05 on a log: releases are by the owning command and of its own payload *)
Definition releases_ok (l : list ev) : Prop :=
  forall cid p, In (EvRelease cid p) l -> cause_of cid l = Some (Some p).

(* ---------------- invariant ---------------- *)

Definition ticket_ok (l : list ev) (prep : list (nat * nat * nat)) (b : buffered) : Prop :=
  match b_su b with
  | None => cause_of (b_cid b) l = Some None
  | Some tk => exists p, In (tk, b_t b, p) prep /\ cause_of (b_cid b) l = Some (Some p)
  end.

Definition tickets (prep : list (nat * nat * nat)) := map (fun e => fst (fst e)) prep.
Definition su_tickets (bs : list buffered) := flat_map (fun b => match b_su b with Some k => [k] | None => [] end) bs.

(* everything except the flag; [all] = every command that still owes a setup/cleanup *)
Definition RestL (all : list buffered) (s : st) : Prop :=
  NoDup (tickets (prepared s)) /\
  (forall k, In k (tickets (prepared s)) -> k < tick s) /\
  Permutation (tickets (prepared s)) (su_tickets all) /\
  (forall b, In b all -> ticket_ok (log s) (prepared s) b /\ b_cid b < cidc s) /\
  (forall cid, cidc s <= cid -> cause_of cid (log s) = None) /\
  reads_ok (log s) /\ releases_ok (log s).

Definition TInvL (all : list buffered) (s : st) : Prop := reacting s = None /\ RestL all s.
Definition TInv (H F : list buffered) (s : st) : Prop := TInvL (F ++ buffer s ++ H) s.
Definition Rest (H : list buffered) (s : st) : Prop := RestL (buffer s ++ H) s.

Definition is_cmd (e : ev) : bool := match e with EvCmd _ _ _ => true | _ => false end.

Lemma cause_of_app cid l1 l2 :
  cause_of cid (l1 ++ l2) = match cause_of cid l1 with Some c => Some c | None => cause_of cid l2 end.
Proof.
  induction l1 as [|e l1 IH]; cbn; auto.
  destruct e; auto. destruct (Nat.eqb cid0 cid); auto.
Qed.

Lemma cause_of_snoc_other cid l e : is_cmd e = false -> cause_of cid (l ++ [e]) = cause_of cid l.
Proof. intros He. rewrite cause_of_app. destruct (cause_of cid l); auto. destruct e; cbn in *; auto. discriminate. Qed.

Lemma cause_of_mono cid l l2 c : cause_of cid l = Some c -> cause_of cid (l ++ l2) = Some c.
Proof. intros H. now rewrite cause_of_app, H. Qed.

Lemma reads_ok_snoc l e :
  reads_ok l ->
  (forall cid t n r, e = EvRunStart cid t n r -> cause_of cid l = Some r) ->
  reads_ok (l ++ [e]).
Proof.
  intros Hl He cid t n r Hin. apply in_app_or in Hin. destruct Hin as [Hin|[E|[]]].
  - apply cause_of_mono. eapply Hl; eauto.
  - apply cause_of_mono. eapply He; eauto.
Qed.

Lemma releases_ok_snoc l e :
  releases_ok l ->
  (forall cid p, e = EvRelease cid p -> cause_of cid l = Some (Some p)) ->
  releases_ok (l ++ [e]).
Proof.
  intros Hl He cid p Hin. apply in_app_or in Hin. destruct Hin as [Hin|[E|[]]].
  - apply cause_of_mono. eapply Hl; eauto.
  - apply cause_of_mono. eapply He; eauto.
Qed.

Lemma take_ticket_spec tk prep :
  NoDup (tickets prep) ->
  forall t p, In (tk, t, p) prep ->
  exists r, take_ticket tk prep = Some (p, r) /\
            Permutation (tickets prep) (tk :: tickets r) /\
            (forall e, In e r -> In e prep) /\
            (forall k t' p', In (k, t', p') prep -> k <> tk -> In (k, t', p') r).
Proof.
  induction prep as [|[[k t0] p0] prep IH]; intros ND t p Hin; [destruct Hin|].
  cbn in ND. inversion ND as [|? ? Hn ND']; subst. cbn [take_ticket].
  destruct (Nat.eqb_spec k tk) as [->|Hne].
  - destruct Hin as [E|Hin].
    + inversion E; subst. exists prep. repeat split; auto.
      * intros e He. now right.
      * intros k t' p' [E'|Hi] Hk; [inversion E'; congruence|auto].
    + exfalso. apply Hn. unfold tickets. apply in_map_iff. exists (tk, t, p). auto.
  - destruct Hin as [E|Hin]; [inversion E; congruence|].
    destruct (IH ND' _ _ Hin) as (r & Ht & Hp & Hs & Ho). rewrite Ht.
    exists ((k, t0, p0) :: r). repeat split.
    + cbn. rewrite Hp. apply perm_swap.
    + intros e [<-|He]; [now left|right; auto].
    + intros k' t' p' [E'|Hi] Hk; [left; auto|right; eauto].
Qed.

Lemma su_tickets_app l1 l2 : su_tickets (l1 ++ l2) = su_tickets l1 ++ su_tickets l2.
Proof. unfold su_tickets. apply flat_map_app. Qed.


Lemma in_su_tickets b l k : In b l -> b_su b = Some k -> In k (su_tickets l).
Proof. intros Hb Hk. unfold su_tickets. apply in_flat_map. exists b. split; auto. rewrite Hk. now left. Qed.

Lemma RestL_perm all all' s : Permutation all all' -> RestL all s -> RestL all' s.
Proof.
  intros P (ND & Bd & Pm & Tk & Fr & Rd & Rl).
  split; [exact ND|split; [exact Bd|split; [|split; [|split; [exact Fr|split; [exact Rd|exact Rl]]]]]].
  - rewrite Pm. unfold su_tickets. now rewrite P.
  - intros b Hb. apply Tk. eapply Permutation_in; [apply Permutation_sym|]; eauto.
Qed.

Lemma TInvL_perm all all' s : Permutation all all' -> TInvL all s -> TInvL all' s.
Proof. intros P [R0 R]. split; auto. eapply RestL_perm; eauto. Qed.

Lemma setup_ok rest b s :
  TInvL (b :: rest) s ->
  exists s1, run_setup (b_su b) s = Some s1 /\
    RestL rest s1 /\ cause_of (b_cid b) (log s1) = Some (reacting s1) /\
    log s1 = log s /\ buffer s1 = buffer s /\ store s1 = store s /\ counter s1 = counter s /\ cidc s1 = cidc s.
Proof.
  intros (R0 & ND & Bd & Pm & Tk & Fr & Rd & Rl).
  assert (Hb : ticket_ok (log s) (prepared s) b /\ b_cid b < cidc s) by (apply Tk; now left).
  destruct Hb as [Hb Hc]. unfold ticket_ok in Hb. unfold run_setup.
  destruct (b_su b) as [tk|] eqn:Esu.
  - destruct Hb as (p & Hin & Hca).
    destruct (take_ticket_spec tk _ ND _ _ Hin) as (r & Ht & Hp & Hs & Ho). rewrite Ht.
    eexists. split; [reflexivity|]. cbn.
    assert (Pm' : Permutation (tk :: tickets r) (tk :: su_tickets rest)).
    { rewrite <- Hp, Pm. cbn. rewrite Esu. cbn. reflexivity. }
    apply Permutation_cons_inv in Pm'.
    assert (NDr : NoDup (tk :: tickets r)) by (eapply Permutation_NoDup; eauto).
    inversion NDr as [|? ? Hnt NDr']; subst.
    split; [|cbn; repeat split; auto].
    unfold RestL; cbn. split; [exact NDr'|]. split; [|split; [exact Pm'|split; [|split; [exact Fr|split; [exact Rd|exact Rl]]]]].
    + intros k Hk. apply Bd. eapply Permutation_in; [apply Permutation_sym, Hp|]. now right.
    + intros b' Hb'. destruct (Tk b' (or_intror Hb')) as [Hok Hcid]. split; auto.
      unfold ticket_ok in *. destruct (b_su b') as [k|] eqn:Ek; auto.
      destruct Hok as (p' & Hin' & Hc'). exists p'. split; auto. apply Ho; auto.
      intros ->. apply Hnt. eapply Permutation_in; [apply Permutation_sym, Pm'|].
      eapply in_su_tickets; eauto.
  - eexists. split; [reflexivity|]. rewrite R0.
    assert (Pm' : Permutation (tickets (prepared s)) (su_tickets rest)).
    { rewrite Pm. cbn. rewrite Esu. reflexivity. }
    split; [|repeat split; auto].
    unfold RestL. split; [exact ND|split; [exact Bd|split; [exact Pm'|split; [|split; [exact Fr|split; [exact Rd|exact Rl]]]]]].
    intros b' Hb'. apply Tk. now right.
Qed.

Lemma RestL_snoc all s e :
  is_cmd e = false ->
  (forall cid t n r, e = EvRunStart cid t n r -> cause_of cid (log s) = Some r) ->
  (forall cid p, e = EvRelease cid p -> cause_of cid (log s) = Some (Some p)) ->
  RestL all s -> RestL all (add_log s e).
Proof.
  intros Hc Hr Hl (ND & Bd & Pm & Tk & Fr & Rd & Rl). unfold RestL. cbn.
  split; [exact ND|split; [exact Bd|split; [exact Pm|split; [|split; [|split]]]]].
  - intros b Hb. destruct (Tk b Hb) as [Hok Hcid]. split; auto.
    unfold ticket_ok in *. destruct (b_su b).
    + destruct Hok as (p & Hi & Hca). exists p. split; auto. now apply cause_of_mono.
    + now apply cause_of_mono.
  - intros cid Hcid. rewrite cause_of_snoc_other; auto.
  - apply reads_ok_snoc; auto.
  - apply releases_ok_snoc; auto.
Qed.

Lemma cleanup_ok all cid s :
  RestL all s -> cause_of cid (log s) = Some (reacting s) ->
  TInvL all (run_cleanup cid s) /\
  buffer (run_cleanup cid s) = buffer s /\ store (run_cleanup cid s) = store s /\ counter (run_cleanup cid s) = counter s.
Proof.
  intros R Hc. unfold run_cleanup. destruct (reacting s) as [p|] eqn:Er.
  - cbn. split; [|repeat split; auto]. split; [reflexivity|].
    apply (RestL_snoc all (set_reacting s None)); cbn; auto; try discriminate.
    intros c q E. inversion E; subst. exact Hc.
  - split; [|repeat split; auto]. split; [exact Er|exact R].
Qed.

Lemma abort_ok rest b s :
  TInvL (b :: rest) s ->
  exists s2, abort (b_su b) (b_cid b) s = Ok s2 /\ TInvL rest s2 /\
     store s2 = store s /\ counter s2 = counter s /\ buffer s2 = buffer s.
Proof.
  intros HI. destruct (setup_ok _ _ _ HI) as (s1 & Hs & R & Hc & Hl & Hb & Hst & Hct & Hci).
  unfold abort. rewrite Hs.
  destruct (cleanup_ok rest (b_cid b) s1 R Hc) as ((Rn & R') & Hb' & Hst' & Hct').
  eexists. split; [reflexivity|]. split; [|cbn; repeat split; congruence].
  split; [exact Rn|]. apply RestL_snoc; cbn; auto; discriminate.
Qed.

(* drawing a fresh command id (and ticket) *)
Lemma new_cmd_ok all s t su (prep' : list (nat*nat*nat)) ca :
  TInvL all s ->
  (su = None /\ ca = None /\ prep' = prepared s \/
   exists p, su = Some (tick s) /\ ca = Some p /\ prep' = prepared s ++ [(tick s, t, p)]) ->
  forall s0, log s0 = log s ++ [EvCmd (cidc s) t ca] -> cidc s0 = S (cidc s) ->
     prepared s0 = prep' -> reacting s0 = reacting s ->
     (tick s0 = match su with Some _ => S (tick s) | None => tick s end) ->
  TInvL ({| b_t := t; b_su := su; b_cid := cidc s |} :: all) s0.
Proof.
  intros (R0 & ND & Bd & Pm & Tk & Fr & Rd & Rl) Hsu s0 Hl Hc Hp Hr Htk.
  assert (Hca : cause_of (cidc s) (log s0) = Some ca).
  { rewrite Hl, cause_of_app, Fr by lia. cbn. now rewrite Nat.eqb_refl. }
  assert (Hmono : forall c x, cause_of c (log s) = Some x -> cause_of c (log s0) = Some x).
  { intros. rewrite Hl. now apply cause_of_mono. }
  assert (Hfr : forall cid, cidc s0 <= cid -> cause_of cid (log s0) = None).
  { intros cid Hle. rewrite Hl, cause_of_app, Fr by lia. cbn. destruct (Nat.eqb_spec (cidc s) cid); auto. lia. }
  assert (Hrd : reads_ok (log s0)) by (rewrite Hl; apply reads_ok_snoc; auto; discriminate).
  assert (Hrl : releases_ok (log s0)) by (rewrite Hl; apply releases_ok_snoc; auto; discriminate).
  split; [congruence|].
  destruct Hsu as [(-> & -> & ->)|(p & -> & -> & ->)].
  - unfold RestL, ticket_ok. rewrite Hp, Htk.
    split; [exact ND|split; [exact Bd|split; [exact Pm|split; [|split; [exact Hfr|split; [exact Hrd|exact Hrl]]]]]].
    intros b [<-|Hb]; cbn.
    + split; [|lia]. unfold ticket_ok; cbn. exact Hca.
    + destruct (Tk b Hb) as [Hok Hcid]. split; [|lia].
      unfold ticket_ok in *. destruct (b_su b).
      * destruct Hok as (q & Hi & Hq). exists q. split; auto.
      * auto.
  - unfold RestL, ticket_ok. rewrite Hp, Htk.
    assert (Ht : tickets (prepared s ++ [(tick s, t, p)]) = tickets (prepared s) ++ [tick s]).
    { unfold tickets. now rewrite map_app. }
    rewrite Ht.
    split; [|split; [|split; [|split; [|split; [exact Hfr|split; [exact Hrd|exact Hrl]]]]]].
    + eapply Permutation_NoDup; [apply Permutation_cons_append|]. constructor; auto.
      intros Hi. apply Bd in Hi. lia.
    + intros k Hk. apply in_app_or in Hk. destruct Hk as [Hk|[<-|[]]]; [apply Bd in Hk|]; lia.
    + cbn. rewrite <- Permutation_cons_append. now constructor.
    + intros b [<-|Hb]; cbn.
      * split; [|lia]. unfold ticket_ok; cbn. exists p. split; auto. apply in_or_app. right. now left.
      * destruct (Tk b Hb) as [Hok Hcid]. split; [|lia].
        unfold ticket_ok in *. destruct (b_su b).
        -- destruct Hok as (q & Hi & Hq). exists q. split; auto. apply in_or_app. now left.
        -- auto.
Qed.

Definition TPre (i : instr) (H : list buffered) (s : st) : Prop :=
  match i with
  | IRunner t su cid => TInv H [{| b_t := t; b_su := su; b_cid := cid |}] s
  | IReplay t pending kept => TInv (pending ++ kept ++ H) [] s
  | _ => TInv H [] s
  end.

Definition TPost (H : list buffered) (r : res) : Prop :=
  match r with Ok s' => TInv H [] s' | OutOfFuel => True | Stuck => False end.

Lemma bind_post H1 H r k :
  TPost H1 r -> (forall s, TInv H1 [] s -> TPost H (k s)) -> TPost H (bind r k).
Proof. destruct r; cbn; auto. Qed.

Lemma exec_ticket : forall fuel i H s, TPre i H s -> TPost H (exec fuel i s).
Proof.
  induction fuel as [|f IH]; intros i H s HP; [exact I|].
  destruct i as [a|l|t su cid|t pending kept|]; cbn [exec]; cbn [TPre] in HP.
  - destruct a as [t|t p|t].
    + apply IH. cbn [TPre]. unfold TInv in *. cbn [app] in *.
      eapply (new_cmd_ok _ s t None _ None HP); cbn; auto.
    + apply IH. cbn [TPre]. unfold TInv in *. cbn [app] in *.
      eapply (new_cmd_ok _ s t (Some (tick s)) _ (Some p) HP); cbn; eauto.
    + exact HP.
  - destruct l as [|a l]; [exact HP|].
    apply (bind_post H); [apply IH; exact HP|]. intros s1 HI1. apply IH. exact HI1.
  - unfold TInv in HP. cbn [app] in HP.
    destruct (store s t) as [| |n] eqn:Est.
    + destruct (abort_ok _ _ _ HP) as (s2 & Ha & HI & _ & _ & Hb). cbn in Ha. rewrite Ha. cbn.
      unfold TInv. cbn [app]. now rewrite Hb.
    + destruct (Nat.eqb (counter s) 0).
      * destruct (abort_ok _ _ _ HP) as (s2 & Ha & HI & _ & _ & Hb). cbn in Ha. rewrite Ha. cbn.
        unfold TInv. cbn [app]. now rewrite Hb.
      * cbn. unfold TInv. cbn [app]. cbn.
        destruct HP as [R0 R]. split; [exact R0|].
        apply (RestL_snoc _ (set_buffer s _)); cbn; auto; try discriminate.
        eapply RestL_perm; [|exact R].
        rewrite <- app_assoc. cbn. apply Permutation_middle.
    + (* run *)
      set (s0 := set_counter (set_store s (upd (store s) t Taken)) (S (counter s))).
      assert (HP0 : TInvL ({| b_t := t; b_su := su; b_cid := cid |} :: buffer s0 ++ H) s0) by exact HP.
      destruct (setup_ok _ _ _ HP0) as (s1 & Hs & R & Hc & Hl & Hb & Hst & Hct & Hci). cbn in Hs. rewrite Hs.
      cbn in Hc.
      assert (R1 : RestL (buffer s0 ++ H) (add_log s1 (EvRunStart cid t n (reacting s1)))).
      { apply RestL_snoc; [reflexivity| |discriminate|exact R]. intros c t' n' r E. inversion E; subst. exact Hc. }
      destruct (cleanup_ok _ cid _ R1) as (HI2 & Hb2 & _ & _).
      { cbn. now apply cause_of_mono. }
      set (s2 := run_cleanup cid (add_log s1 (EvRunStart cid t n (reacting s1)))) in *.
      apply (bind_post H).
      { apply IH. cbn [TPre]. unfold TInv. cbn [app]. rewrite Hb2. cbn. rewrite Hb. exact HI2. }
      intros s3 HI3.
      set (s4 := match store s3 t with Taken => set_store s3 (upd (store s3) t (Idle (S n))) | _ => s3 end).
      assert (HI4 : TInv H [] s4) by (unfold s4; destruct (store s3 t); exact HI3).
      apply (bind_post H).
      { apply IH. cbn [TPre]. unfold TInv in *. cbn [app] in *. cbn.
        destruct HI4 as [R0 R4]. split; [exact R0|].
        apply (RestL_snoc _ (set_buffer s4 [])); cbn; auto; try discriminate. }
      intros s5 HI5.
      destruct (Nat.eqb (counter s) 0).
      * apply (bind_post H); [apply IH; exact HI5|]. intros s6 HI6. exact HI6.
      * exact HI5.
  - destruct pending as [|b pending].
    + cbn. unfold TInv in *. cbn [app] in *. cbn. now rewrite <- app_assoc.
    + destruct (Nat.eqb (b_t b) t).
      * apply (bind_post (pending ++ kept ++ H)).
        { apply IH. cbn [TPre]. unfold TInv in *. cbn [app] in *.
          eapply TInvL_perm; [|exact HP]. destruct b; cbn. apply Permutation_sym, Permutation_middle. }
        intros s1 HI1. apply IH. exact HI1.
      * apply IH. cbn [TPre]. unfold TInv in *. cbn [app] in *.
        eapply TInvL_perm; [|exact HP].
        apply Permutation_app_head.
        replace (pending ++ (kept ++ [b]) ++ H) with ((pending ++ kept) ++ b :: H)
          by (rewrite <- !app_assoc; reflexivity).
        replace (pending ++ kept ++ H) with ((pending ++ kept) ++ H) by (rewrite <- app_assoc; reflexivity).
        apply Permutation_middle.
  - destruct (buffer s) as [|b rest] eqn:Eb; [exact HP|].
    unfold TInv in HP. cbn [app] in HP. rewrite Eb in HP. cbn [app] in HP.
    assert (HP' : TInvL (b :: rest ++ H) (set_buffer s rest)) by exact HP.
    destruct (abort_ok _ _ _ HP') as (s2 & Ha & HI & _ & _ & Hb). rewrite Ha. cbn [bind].
    apply IH. cbn [TPre]. unfold TInv. cbn [app]. rewrite Hb. exact HI.
Qed.

End Prog.

(* mini C03 / C05(a) / "never Stuck" for every program, every fuel, from a pristine state *)
Definition pristine (st0 : nat -> cb) : st :=
  {| counter := 0; buffer := []; store := st0; log := []; cidc := 0; tick := 0; prepared := []; reacting := None |}.

Lemma pristine_inv st0 : TInv [] [] (pristine st0).
Proof.
  unfold TInv, TInvL, RestL. cbn.
  split; [reflexivity|]. split; [constructor|]. split; [intros k []|]. split; [constructor|].
  split; [intros b []|]. split; [reflexivity|]. split; [intros ? ? ? ? []|intros ? ? []].
Qed.

Theorem mini_reads_ok script fuel l st0 :
  match exec script fuel (IActs l) (pristine st0) with
  | Ok s' => reads_ok (log s') /\ releases_ok (log s') /\ reacting s' = None
  | OutOfFuel => True
  | Stuck => False
  end.
Proof.
  pose proof (exec_ticket script fuel (IActs l) [] (pristine st0) (pristine_inv st0)) as HT.
  destruct (exec script fuel (IActs l) (pristine st0)) as [s'| |]; cbn in *; auto.
  destruct HT as (R0 & _ & _ & _ & _ & _ & Rd & Rl); auto.
Qed.
Print Assumptions mini_reads_ok.
