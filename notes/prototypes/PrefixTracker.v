From Coq Require Import List Arith.
Import ListNotations.

(* The pinned commit's tracker discipline: start = first entry with this system id, removed by swap_remove. *)
Definition entry := (nat * nat)%type.              (* system, payload *)

Fixpoint position (sys : nat) (l : list entry) : option nat :=
  match l with
  | [] => None
  | (s, _) :: r => if Nat.eqb s sys then Some 0 else option_map S (position sys r)
  end.

(* Vec::swap_remove(pos): remove element pos, move the last element into its place *)
Definition swap_remove (pos : nat) (l : list entry) : option (entry * list entry) :=
  match nth_error l pos with
  | None => None
  | Some x =>
      let n := length l in
      if Nat.eqb pos (n - 1) then Some (x, firstn pos l)
      else match nth_error l (n - 1) with
           | Some last => Some (x, firstn pos l ++ [last] ++ firstn (n - 1 - S pos) (skipn (S pos) l))
           | None => None
           end
  end.

Definition start_first_match (sys : nat) (l : list entry) : option (nat * list entry) :=
  match position sys l with
  | None => None
  | Some pos => match swap_remove pos l with Some ((_, p), r) => Some (p, r) | None => None end
  end.

Fixpoint starts (sys : nat) (k : nat) (l : list entry) : list nat :=
  match k with
  | O => []
  | S k => match start_first_match sys l with Some (p, r) => p :: starts sys k r | None => [] end
  end.

(* E1: four system events 1,2,3,4 prepared for system 7 while it is busy, then replayed in order *)
Example prefix_tracker_refuted :
  starts 7 4 [(7,1); (7,2); (7,3); (7,4)] = [1; 4; 3; 2].
Proof. vm_compute. reflexivity. Qed.

(* the order-preserving variant would be right for this witness ... *)
Fixpoint remove_first (sys : nat) (l : list entry) : option (nat * list entry) :=
  match l with
  | [] => None
  | (s, p) :: r => if Nat.eqb s sys then Some (p, r)
                   else match remove_first sys r with Some (q, r') => Some (q, (s, p) :: r') | None => None end
  end.
Fixpoint starts' (sys k : nat) (l : list entry) : list nat :=
  match k with O => [] | S k => match remove_first sys l with Some (p, r) => p :: starts' sys k r | None => [] end end.
Example remove_variant_E1 : starts' 7 4 [(7,1); (7,2); (7,3); (7,4)] = [1; 2; 3; 4].
Proof. reflexivity. Qed.
(* ... but not for E3: commands are replayed depth-first (1, then 3 which was sent by the replay of 1, then 2)
   while the list is FIFO (1,2,3): the replay of command 3 is handed payload 2. *)
Example remove_variant_E3 :
  (* prepared after run 1: [1;2]; replay cmd1 -> takes 1; during it event 3 is prepared -> [2;3];
     replay cmd3 (nested, first) -> takes ... *)
  let l1 := [(7,1); (7,2)] in
  match remove_first 7 l1 with
  | Some (p1, r1) => match remove_first 7 (r1 ++ [(7,3)]) with
                     | Some (p_for_cmd3, _) => (p1, p_for_cmd3)
                     | None => (0,0) end
  | None => (0,0) end = (1, 2).
Proof. reflexivity. Qed.
