From Coq Require Import List Arith Lia Bool.
Import ListNotations.

(* ---- miniature of syscommand_runner: storage take/reinsert, counter, buffer, replay, root discard ---- *)

Inductive cb := Dead | Taken | Idle (runno : nat).

Inductive action := ARun (t : nat) | ADespawn (t : nat).

Record buffered := { b_t : nat; b_cid : nat }.

Inductive ev :=
| EvCmd (cid t : nat) | EvPostpone (cid : nat) | EvAbort (cid : nat)
| EvRunStart (cid t runno : nat) | EvRunEnd (cid : nat).

Record st := {
  counter : nat; buffer : list buffered; store : nat -> cb; log : list ev; cidc : nat }.

Definition upd (f : nat -> cb) (t : nat) (v : cb) : nat -> cb :=
  fun x => if Nat.eqb x t then v else f x.

Definition set_store s f := {| counter := counter s; buffer := buffer s; store := f; log := log s; cidc := cidc s |}.
Definition set_counter s c := {| counter := c; buffer := buffer s; store := store s; log := log s; cidc := cidc s |}.
Definition set_buffer s b := {| counter := counter s; buffer := b; store := store s; log := log s; cidc := cidc s |}.
Definition add_log s e := {| counter := counter s; buffer := buffer s; store := store s; log := log s ++ [e]; cidc := cidc s |}.
Definition fresh_cid s := (cidc s, {| counter := counter s; buffer := buffer s; store := store s; log := log s; cidc := S (cidc s) |}).

Section Prog.
Variable script : nat -> nat -> list action.   (* system -> run number -> actions *)

Inductive instr :=
| IAct (a : action)
| IActs (l : list action)
| IRunner (t cid : nat)
| IReplay (t : nat) (pending kept : list buffered)
| IDiscard.

Inductive res := Ok (s : st) | OutOfFuel.

Definition bind (r : res) (k : st -> res) : res :=
  match r with Ok s => k s | OutOfFuel => OutOfFuel end.

Fixpoint exec (fuel : nat) (i : instr) (s : st) {struct fuel} : res :=
  match fuel with
  | O => OutOfFuel
  | S f =>
    match i with
    | IAct (ADespawn t) => Ok (set_store s (upd (store s) t Dead))
    | IAct (ARun t) =>
        let (cid, s) := fresh_cid s in
        exec f (IRunner t cid) (add_log s (EvCmd cid t))
    | IActs [] => Ok s
    | IActs (a :: l) => bind (exec f (IAct a) s) (fun s => exec f (IActs l) s)
    | IRunner t cid =>
        let idx := counter s in
        match store s t with
        | Dead => Ok (add_log s (EvAbort cid))
        | Taken =>
            if Nat.eqb idx 0 then Ok (add_log s (EvAbort cid))
            else Ok (add_log (set_buffer s (buffer s ++ [{| b_t := t; b_cid := cid |}])) (EvPostpone cid))
        | Idle n =>
            let s := set_counter (set_store s (upd (store s) t Taken)) (S (counter s)) in
            let s := add_log s (EvRunStart cid t n) in
            bind (exec f (IActs (script t n)) s) (fun s =>
            let s := match store s t with
                     | Taken => set_store s (upd (store s) t (Idle (S n)))
                     | _ => s end in
            let s := add_log s (EvRunEnd cid) in
            let q := buffer s in
            let s := set_buffer s [] in
            bind (exec f (IReplay t q []) s) (fun s =>
            if Nat.eqb idx 0 then
              bind (exec f IDiscard s) (fun s => Ok (set_counter s 0))
            else Ok s))
        end
    | IReplay t [] kept => Ok (set_buffer s (buffer s ++ kept))
    | IReplay t (b :: pending) kept =>
        if Nat.eqb (b_t b) t then
          bind (exec f (IRunner (b_t b) (b_cid b)) s) (fun s => exec f (IReplay t pending kept) s)
        else exec f (IReplay t pending (kept ++ [b])) s
    | IDiscard =>
        match buffer s with
        | [] => Ok s
        | b :: rest => exec f IDiscard (add_log (set_buffer s rest) (EvAbort (b_cid b)))
        end
    end
  end.


(* ---- invariant with ghost context A = systems whose runner frame is below us ---- *)

Definition held_ok (A : list nat) (l : list buffered) := forall b, In b l -> In (b_t b) A.

Definition InvCore (A : list nat) (s : st) : Prop :=
  (forall t, store s t = Taken -> In t A) /\
  (forall t, In t A -> store s t = Taken \/ store s t = Dead) /\
  (A <> [] -> counter s >= 1).

Definition Inv (A : list nat) (s : st) : Prop :=
  InvCore A s /\ held_ok A (buffer s) /\ (counter s = 0 -> buffer s = []).

Definition Pre (i : instr) (A : list nat) (s : st) : Prop :=
  match i with
  | IReplay t pending kept =>
      InvCore A s /\ held_ok A (buffer s) /\ held_ok (t :: A) pending /\ held_ok A kept /\ counter s >= 1
  | IDiscard => Inv A s /\ A = [] /\ counter s >= 1
  | _ => Inv A s
  end.

Definition Post (i : instr) (A : list nat) (s s' : st) : Prop :=
  Inv A s' /\ (counter s >= 1 -> counter s' >= 1) /\ (counter s = 0 -> counter s' = 0).

Lemma upd_same f t v : upd f t v t = v.
Proof. unfold upd. now rewrite Nat.eqb_refl. Qed.
Lemma upd_other f t v x : x <> t -> upd f t v x = f x.
Proof. unfold upd. intros H. destruct (Nat.eqb_spec x t); congruence. Qed.

Lemma held_ok_app A l1 l2 : held_ok A l1 -> held_ok A l2 -> held_ok A (l1 ++ l2).
Proof. intros H1 H2 b Hb. apply in_app_or in Hb. destruct Hb; auto. Qed.

Lemma held_ok_nil A : held_ok A [].
Proof. intros b []. Qed.

Lemma exec_sound : forall fuel i A s s',
  exec fuel i s = Ok s' -> Pre i A s -> Post i A s s'.
Proof.
  induction fuel as [|f IH]; intros i A s s' E HP; [discriminate|].
  destruct i as [a|l|t cid|t pending kept|]; cbn [exec] in E; cbn [Pre] in HP.
  - (* IAct *)
    destruct a as [t|t].
    + cbn in E. apply (IH (IRunner t (cidc s)) A) in E.
      * exact E.
      * destruct HP as ((H1&H2&H3)&H4&H5). split; [split; [|split]|split]; cbn; auto.
    + inversion E; subst; clear E. destruct HP as ((H1&H2&H3)&H4&H5).
      split; [split; [split; [|split]|split]|split]; cbn; auto.
      * intros x Hx. destruct (Nat.eq_dec x t) as [->|Hn]; [rewrite upd_same in Hx; discriminate|].
        rewrite upd_other in Hx by auto. auto.
      * intros x Hx. destruct (Nat.eq_dec x t) as [->|Hn]; [rewrite upd_same; auto|].
        rewrite upd_other by auto. auto.
  - (* IActs *)
    destruct l as [|a l].
    + inversion E; subst. split; [exact HP|split; auto].
    + unfold bind in E. destruct (exec f (IAct a) s) as [s1|] eqn:E1; [|discriminate].
      apply (IH _ A) in E1; [|exact HP]. destruct E1 as (I1&C1&C0).
      apply (IH _ A) in E; [|exact I1]. destruct E as (I2&D1&D0).
      split; [exact I2|split; auto].
  - (* IRunner *)
    destruct HP as ((H1&H2&H3)&H4&H5).
    destruct (store s t) as [| |n] eqn:Est.
    + inversion E; subst; clear E. split; [split; [split; [|split]|split]|split]; cbn; auto.
    + destruct (Nat.eqb_spec (counter s) 0) as [Hz|Hnz].
      * inversion E; subst; clear E. split; [split; [split; [|split]|split]|split]; cbn; auto.
      * inversion E; subst; clear E. split; [split; [split; [|split]|split]|split]; cbn; auto.
        -- apply held_ok_app; auto. intros b [<-|[]]. cbn. auto.
        -- intros; lia.
    + (* Idle: the real run *)
      assert (HtA : ~ In t A). { intros Hin. destruct (H2 _ Hin); congruence. }
      unfold bind in E.
      match type of E with context [exec f (IActs ?sc) ?s0] =>
        destruct (exec f (IActs sc) s0) as [s1|] eqn:E1; [|discriminate] end.
      apply (IH _ (t :: A)) in E1.
      2:{ cbn [Pre]. split; [split; [|split]|split]; cbn.
          - intros x Hx. destruct (Nat.eq_dec x t) as [->|Hn]; [now left|].
            rewrite upd_other in Hx by auto. right; auto.
          - intros x [<-|Hx]; [rewrite upd_same; auto|].
            destruct (Nat.eq_dec x t) as [->|Hn]; [rewrite upd_same; auto|]. rewrite upd_other by auto. auto.
          - intros _. lia.
          - intros b Hb. right. auto.
          - intros Hc. lia. }
      destruct E1 as (((J1&J2&J3)&J4&J5)&K1&K0). cbn in K1, K0.
      set (s2 := match store s1 t with Taken => set_store s1 (upd (store s1) t (Idle (S n))) | _ => s1 end) in E.
      assert (Hs2c : counter s2 = counter s1) by (unfold s2; destruct (store s1 t); reflexivity).
      assert (Hs2b : buffer s2 = buffer s1) by (unfold s2; destruct (store s1 t); reflexivity).
      assert (Hc1 : counter s1 >= 1) by (apply K1; lia).
      assert (Hcore : InvCore A s2 /\ store s2 t <> Taken).
      { unfold s2. destruct (store s1 t) eqn:Es1.
        - split; [|congruence]. split; [|split].
          + intros x Hx. destruct (J1 _ Hx) as [<-|]; [congruence|auto].
          + intros x Hx. apply J2. now right.
          + intros _. lia.
        - split; [|cbn; rewrite upd_same; congruence]. split; [|split]; cbn.
          + intros x Hx. destruct (Nat.eq_dec x t) as [->|Hn]; [rewrite upd_same in Hx; discriminate|].
            rewrite upd_other in Hx by auto. destruct (J1 _ Hx) as [<-|]; [congruence|auto].
          + intros x Hx. assert (x <> t) by (intros ->; auto). rewrite upd_other by auto. apply J2. now right.
          + intros _. lia.
        - exfalso. destruct (J2 t (or_introl eq_refl)); congruence. }
      destruct Hcore as (Hcore & Hnt).
      match type of E with context [exec f (IReplay t ?q []) ?s0] =>
        destruct (exec f (IReplay t q []) s0) as [s3|] eqn:E3; [|discriminate] end.
      apply (IH _ A) in E3.
      2:{ cbn [Pre]. destruct Hcore as (C1&C2&C3).
          split; [split; [|split]|split; [|split; [|split]]]; cbn; auto.
          - apply held_ok_nil.
          - intros b Hb. rewrite Hs2b in Hb. apply J4 in Hb. exact Hb.
          - apply held_ok_nil.
          - lia. }
      destruct E3 as (I3&L1&L0). cbn in L1, L0.
      destruct (Nat.eqb_spec (counter s) 0) as [Hz|Hnz].
      * destruct (exec f IDiscard s3) as [s4|] eqn:E4; [|discriminate].
        assert (HA : A = []). { destruct A; auto. exfalso. assert (counter s >= 1) by (apply H3; discriminate). lia. }
        apply (IH _ A) in E4.
        2:{ cbn [Pre]. split; [exact I3|split; auto]. apply L1. lia. }
        destruct E4 as (((M1&M2&M3)&M4&M5)&N1&N0).
        inversion E; subst s'; clear E. subst A.
        split; [split; [split; [|split]|split]|split]; cbn; auto.
        -- intros Hne. congruence.
        -- intros _. destruct (buffer s4) as [|b ?]; auto. exfalso. apply (M4 b). now left.
        -- intros; lia.
      * inversion E; subst s'; clear E. split; [exact I3|split].
        -- intros _. apply L1. lia.
        -- intros Hc. lia.
  - (* IReplay *)
    destruct HP as ((H1&H2&H3)&Hb&Hp&Hk&Hc).
    destruct pending as [|b pending].
    + inversion E; subst; clear E.
      split; [split; [split; [|split]|split]|split]; cbn; auto.
      * apply held_ok_app; auto.
      * intros; lia.
    + destruct (Nat.eqb_spec (b_t b) t) as [Heq|Hne].
      * unfold bind in E.
        destruct (exec f (IRunner (b_t b) (b_cid b)) s) as [s1|] eqn:E1; [|discriminate].
        apply (IH _ A) in E1.
        2:{ cbn [Pre]. split; [split; [|split]|split]; auto. intros; lia. }
        destruct E1 as (((J1&J2&J3)&J4&J5)&K1&K0).
        apply (IH _ A) in E.
        2:{ cbn [Pre]. split; [split; [|split]|split; [|split; [|split]]]; auto.
            - intros b' Hb'. apply Hp. now right. }
        destruct E as (I2&D1&D0). split; [exact I2|split; auto].
      * apply (IH _ A) in E.
        2:{ cbn [Pre]. split; [split; [|split]|split; [|split; [|split]]]; auto.
            - intros b' Hb'. apply Hp. now right.
            - apply held_ok_app; auto. intros b' [<-|[]].
              destruct (Hp b (or_introl eq_refl)) as [Heq|]; auto. congruence. }
        destruct E as (I2&D1&D0). split; [exact I2|split; auto].
  - (* IDiscard *)
    destruct HP as (((H1&H2&H3)&H4&H5)&HA&Hc). subst A.
    destruct (buffer s) as [|b rest] eqn:Eb.
    + inversion E; subst; clear E. split; [|split; auto].
      split; [split; [|split]|split]; auto. rewrite Eb. apply held_ok_nil.
    + exfalso. apply (H4 b). now left.
Qed.

(* ================= exactly-once (mini C02): log-based invariant with held entries ================= *)
Require Import Permutation.

Definition is_res (cid : nat) (e : ev) : bool :=
  match e with EvRunStart c _ _ => Nat.eqb c cid | EvAbort c => Nat.eqb c cid | _ => false end.
Definition resolved (cid : nat) (l : list ev) : nat := length (filter (is_res cid) l).

Lemma resolved_app cid l1 l2 : resolved cid (l1 ++ l2) = resolved cid l1 + resolved cid l2.
Proof. unfold resolved. now rewrite filter_app, app_length. Qed.

(* all = in-flight ++ pending command ids *)
Definition LInvL (all : list nat) (l : list ev) (c : nat) : Prop :=
  NoDup all /\
  (forall cid, In cid all -> resolved cid l = 0 /\ cid < c) /\
  (forall cid, cid < c -> ~ In cid all -> resolved cid l = 1) /\
  (forall cid, c <= cid -> resolved cid l = 0).

Lemma LInvL_perm all all' l c : Permutation all all' -> LInvL all l c -> LInvL all' l c.
Proof.
  intros P (N&H1&H2&H3). split; [|split; [|split]]; auto.
  - eapply Permutation_NoDup; eauto.
  - intros cid Hi. apply H1. eapply Permutation_in; [apply Permutation_sym|]; eauto.
  - intros cid Hc Hn. apply H2; auto. intros Hi. apply Hn. eapply Permutation_in; eauto.
Qed.

Definition cids (l : list buffered) := map b_cid l.
Lemma cids_middle l1 b l2 : Permutation (cids (l1 ++ b :: l2)) (b_cid b :: cids (l1 ++ l2)).
Proof. unfold cids. rewrite !map_app. cbn. apply Permutation_sym, Permutation_middle. Qed.

Definition LInv (H : list buffered) (F : list nat) (s : st) : Prop :=
  LInvL (F ++ cids (buffer s ++ H)) (log s) (cidc s).

Definition LPre (i : instr) (H : list buffered) (s : st) : Prop :=
  match i with
  | IRunner t cid => LInv H [cid] s
  | IReplay t pending kept => LInv (pending ++ kept ++ H) [] s
  | _ => LInv H [] s
  end.

(* resolving an in-flight id by logging one event *)
Lemma resolve_head cid rest l c e :
  is_res cid e = true -> (forall x, x <> cid -> is_res x e = false) ->
  LInvL (cid :: rest) l c -> LInvL rest (l ++ [e]) c.
Proof.
  intros He Ho (N&H1&H2&H3). inversion N as [|? ? Hn N']; subst.
  split; [|split; [|split]]; auto.
  - intros x Hx. assert (x <> cid) by (intros ->; auto).
    destruct (H1 x (or_intror Hx)) as [R L]. split; auto.
    rewrite resolved_app, R. unfold resolved. cbn. now rewrite Ho.
  - intros x Hc Hx. rewrite resolved_app. destruct (Nat.eq_dec x cid) as [->|Hne].
    + destruct (H1 cid (or_introl eq_refl)) as [R _]. rewrite R. unfold resolved. cbn. now rewrite He.
    + rewrite H2; auto. 2:{ intros [->|]; auto. } unfold resolved. cbn. now rewrite Ho.
  - intros x Hx. rewrite resolved_app, H3 by auto.
    destruct (Nat.eq_dec x cid) as [->|Hne].
    + destruct (H1 cid (or_introl eq_refl)). lia.
    + unfold resolved. cbn. now rewrite Ho.
Qed.

(* logging an event that resolves nothing *)
Lemma log_neutral all l c e : (forall x, is_res x e = false) -> LInvL all l c -> LInvL all (l ++ [e]) c.
Proof.
  intros Hn (N&H1&H2&H3).
  assert (R : forall x, resolved x (l ++ [e]) = resolved x l).
  { intros x. rewrite resolved_app. unfold resolved at 2. cbn. rewrite Hn. cbn. lia. }
  split; [|split; [|split]]; auto; intros x; rewrite R; auto.
Qed.

Lemma is_res_start cid t n x : x <> cid -> is_res x (EvRunStart cid t n) = false.
Proof. intros. cbn. destruct (Nat.eqb_spec cid x); congruence. Qed.
Lemma is_res_abort cid x : x <> cid -> is_res x (EvAbort cid) = false.
Proof. intros. cbn. destruct (Nat.eqb_spec cid x); congruence. Qed.

Lemma exec_once : forall fuel i H s s',
  exec fuel i s = Ok s' -> LPre i H s -> LInv H [] s'.
Proof.
  induction fuel as [|f IH]; intros i H s s' E HP; [discriminate|].
  destruct i as [a|l|t cid|t pending kept|]; cbn [exec] in E; cbn [LPre] in HP.
  - destruct a as [t|t].
    + cbn in E. apply (IH _ H) in E; auto. cbn [LPre]. unfold LInv in *. cbn.
      apply log_neutral; [intros; reflexivity|].
      destruct HP as (N&H1&H2&H3). cbn in *.
      split; [|split; [|split]].
      * constructor; auto. intros Hi. apply H1 in Hi. lia.
      * intros x [<-|Hx]; [split; [apply H3|]; lia|]. destruct (H1 _ Hx). split; auto.
      * intros x Hx Hn. apply H2; [|intros Hi; apply Hn; now right].
        destruct (Nat.eq_dec x (cidc s)) as [->|]; [exfalso; apply Hn; now left|lia].
      * intros x Hx. apply H3. lia.
    + inversion E; subst. exact HP.
  - destruct l as [|a l].
    + inversion E; subst. exact HP.
    + unfold bind in E. destruct (exec f (IAct a) s) as [s1|] eqn:E1; [|discriminate].
      apply (IH _ H) in E1; [|exact HP]. apply (IH _ H) in E; auto.
  - destruct (store s t) as [| |n] eqn:Est.
    + inversion E; subst; clear E. unfold LInv in *. cbn in *.
      eapply resolve_head; [| |exact HP]; cbn; [apply Nat.eqb_refl|intros; now apply is_res_abort].
    + destruct (Nat.eqb_spec (counter s) 0).
      * inversion E; subst; clear E. unfold LInv in *. cbn in *.
        eapply resolve_head; [| |exact HP]; cbn; [apply Nat.eqb_refl|intros; now apply is_res_abort].
      * inversion E; subst; clear E. unfold LInv in *. cbn in *.
        apply log_neutral; [intros; reflexivity|].
        rewrite <- app_assoc. cbn [app].
        eapply LInvL_perm; [|exact HP]. apply Permutation_sym. apply (cids_middle (buffer s) {| b_t := t; b_cid := cid |} H).
    + unfold bind in E.
      match type of E with context [exec f (IActs ?sc) ?s0] =>
        destruct (exec f (IActs sc) s0) as [s1|] eqn:E1; [|discriminate] end.
      apply (IH _ H) in E1.
      2:{ cbn [LPre]. unfold LInv in *. cbn in *.
          eapply resolve_head; [| |exact HP]; cbn; [apply Nat.eqb_refl|intros; now apply (is_res_start cid t n)]. }
      set (s2 := match store s1 t with Taken => set_store s1 (upd (store s1) t (Idle (S n))) | _ => s1 end) in E.
      assert (L2 : LInv H [] s2) by (unfold s2; destruct (store s1 t); exact E1).
      match type of E with context [exec f (IReplay t ?q []) ?s0] =>
        destruct (exec f (IReplay t q []) s0) as [s3|] eqn:E3; [|discriminate] end.
      apply (IH _ H) in E3.
      2:{ cbn [LPre]. unfold LInv in *. cbn in *. apply log_neutral; [intros; reflexivity|]. exact L2. }
      destruct (Nat.eqb (counter s) 0).
      * destruct (exec f IDiscard s3) as [s4|] eqn:E4; [|discriminate].
        apply (IH _ H) in E4; [|exact E3]. inversion E; subst. exact E4.
      * inversion E; subst. exact E3.
  - destruct pending as [|b pending].
    + inversion E; subst; clear E. unfold LInv in *. cbn in *. now rewrite <- app_assoc.
    + destruct (Nat.eqb (b_t b) t).
      * unfold bind in E.
        destruct (exec f (IRunner (b_t b) (b_cid b)) s) as [s1|] eqn:E1; [|discriminate].
        apply (IH _ (pending ++ kept ++ H)) in E1.
        2:{ cbn [LPre]. unfold LInv in *. cbn in *. eapply LInvL_perm; [|exact HP].
            apply cids_middle. }
        apply (IH _ H) in E; auto.
      * apply (IH _ H) in E; auto. cbn [LPre]. unfold LInv in *. cbn in *.
        eapply LInvL_perm; [|exact HP].
        etransitivity; [apply cids_middle|].
        replace (buffer s ++ pending ++ (kept ++ [b]) ++ H) with ((buffer s ++ pending ++ kept) ++ b :: H)
          by (rewrite <- !app_assoc; cbn; reflexivity).
        replace (buffer s ++ pending ++ kept ++ H) with ((buffer s ++ pending ++ kept) ++ H)
          by (now rewrite <- !app_assoc).
        apply Permutation_sym, cids_middle.
  - destruct (buffer s) as [|b rest] eqn:Eb.
    + inversion E; subst. exact HP.
    + apply (IH _ H) in E; auto. cbn [LPre]. unfold LInv in *. cbn in *. rewrite Eb in HP. cbn in HP.
      eapply resolve_head; [| |exact HP]; cbn; [apply Nat.eqb_refl|intros; now apply is_res_abort].
Qed.

(* ================= ordering core (mini C09/C12): old buffer entries are never disturbed ================= *)

Definition old (c0 : nat) (l : list buffered) : list buffered := filter (fun b => Nat.ltb (b_cid b) c0) l.
Definition others (t : nat) (l : list buffered) : list buffered := filter (fun b => negb (Nat.eqb (b_t b) t)) l.

Arguments old : simpl never.
Arguments others : simpl never.

Lemma old_nil c0 : old c0 [] = [].
Proof. reflexivity. Qed.

Lemma others_cons_eq t b l : b_t b = t -> others t (b :: l) = others t l.
Proof. intros E. unfold others. cbn [filter]. destruct (Nat.eqb_spec (b_t b) t); [reflexivity|congruence]. Qed.
Lemma others_cons_ne t b l : b_t b <> t -> others t (b :: l) = b :: others t l.
Proof. intros E. unfold others. cbn [filter]. destruct (Nat.eqb_spec (b_t b) t); [congruence|reflexivity]. Qed.
Lemma old_cons c0 b l : old c0 (b :: l) = old c0 [b] ++ old c0 l.
Proof. unfold old. cbn [filter]. destruct (Nat.ltb (b_cid b) c0); reflexivity. Qed.

Lemma old_app c0 l1 l2 : old c0 (l1 ++ l2) = old c0 l1 ++ old c0 l2.
Proof. apply filter_app. Qed.

Lemma others_id A t l : held_ok A l -> ~ In t A -> others t l = l.
Proof.
  intros Hh Ht. unfold others. induction l as [|b l IH]; [reflexivity|].
  assert (Hb : In (b_t b) A) by (apply Hh; now left).
  cbn [filter]. destruct (Nat.eqb_spec (b_t b) t) as [E|E]; [exfalso; congruence|].
  cbn [negb]. f_equal. apply IH. intros x Hx. apply Hh. now right.
Qed.

Lemma old_others c0 t l : old c0 (others t l) = others t (old c0 l).
Proof.
  unfold old, others in *. induction l as [|b l IH]; [reflexivity|].
  cbn [filter]. destruct (negb (Nat.eqb (b_t b) t)) eqn:E1; destruct (Nat.ltb (b_cid b) c0) eqn:E2;
    cbn [filter]; rewrite ?E1, ?E2; rewrite ?IH; reflexivity.
Qed.

Lemma held_ok_old A c0 l : held_ok A l -> held_ok A (old c0 l).
Proof. intros H b Hb. apply filter_In in Hb. apply H. tauto. Qed.

Definition OPost (i : instr) (c0 : nat) (s s' : st) : Prop :=
  cidc s <= cidc s' /\
  match i with
  | IRunner t cid =>
      old c0 (buffer s') =
      old c0 (buffer s) ++ old c0 (match store s t with
                                   | Taken => if Nat.eqb (counter s) 0 then [] else [{| b_t := t; b_cid := cid |}]
                                   | _ => [] end)
  | IReplay t pending kept => old c0 (buffer s') = old c0 (buffer s) ++ old c0 kept ++ old c0 (others t pending)
  | _ => old c0 (buffer s') = old c0 (buffer s)
  end.

Lemma exec_old : forall fuel i A s s' c0,
  exec fuel i s = Ok s' -> Pre i A s -> c0 <= cidc s ->
  match i with IReplay t _ _ => ~ In t A | _ => True end ->
  OPost i c0 s s'.
Proof.
  induction fuel as [|f IH]; intros i A s s' c0 E HP Hc0 Hx; [discriminate|].
  pose proof (exec_sound _ _ _ _ _ E HP) as HPost.
  destruct i as [a|l|t cid|t pending kept|]; cbn [exec] in E; cbn [Pre] in HP.
  - destruct a as [t|t].
    + cbn in E. apply (IH _ A _ _ c0) in E; cbn; auto.
      * destruct E as [Hm Ho]. cbn [cidc add_log buffer store counter] in *. split; [lia|].
        rewrite Ho.
        assert (Hnew : Nat.ltb (cidc s) c0 = false) by (apply Nat.ltb_ge; lia).
        destruct (store s t); try (rewrite old_nil; now rewrite app_nil_r).
        destruct (Nat.eqb (counter s) 0); [rewrite old_nil; now rewrite app_nil_r|]. unfold old at 2; cbn [filter b_cid]; rewrite Hnew; now rewrite app_nil_r.
    + inversion E; subst. split; cbn; auto.
  - destruct l as [|a l].
    + inversion E; subst. split; auto.
    + unfold bind in E. destruct (exec f (IAct a) s) as [s1|] eqn:E1; [|discriminate].
      pose proof (exec_sound _ _ _ _ _ E1 HP) as (I1&_&_).
      apply (IH _ A _ _ c0) in E1; auto. destruct E1 as [M1 O1].
      apply (IH _ A _ _ c0) in E; auto; [|lia]. destruct E as [M2 O2].
      split; [lia|congruence].
  - destruct HP as ((H1&H2&H3)&H4&H5).
    destruct (store s t) as [| |n] eqn:Est.
    + inversion E; subst; clear E. split; cbn [cidc add_log buffer]; auto. rewrite Est, old_nil. now rewrite app_nil_r.
    + destruct (Nat.eqb (counter s) 0) eqn:Ez.
      * inversion E; subst; clear E. split; cbn [cidc add_log buffer]; auto. rewrite Est, Ez, old_nil. now rewrite app_nil_r.
      * inversion E; subst; clear E. split; cbn [cidc add_log buffer set_buffer]; auto. rewrite Est, Ez. now rewrite old_app.
    + assert (HtA : ~ In t A). { intros Hin. destruct (H2 _ Hin); congruence. }
      unfold bind in E.
      match type of E with context [exec f (IActs ?sc) ?s0] =>
        destruct (exec f (IActs sc) s0) as [s1|] eqn:E1; [|discriminate] end.
      assert (PreBody : Pre (IActs (script t n)) (t :: A)
                (add_log (set_counter (set_store s (upd (store s) t Taken)) (S (counter s))) (EvRunStart cid t n))).
      { cbn [Pre]. split; [split; [|split]|split]; cbn.
        - intros x Hx'. destruct (Nat.eq_dec x t) as [->|Hn]; [now left|].
          rewrite upd_other in Hx' by auto. right; auto.
        - intros x [<-|Hx']; [rewrite upd_same; auto|].
          destruct (Nat.eq_dec x t) as [->|Hn]; [rewrite upd_same; auto|]. rewrite upd_other by auto. auto.
        - intros _. lia.
        - intros b Hb. right. auto.
        - intros Hc. lia. }
      pose proof (exec_sound _ _ _ _ _ E1 PreBody) as (((J1&J2&J3)&J4&J5)&K1&K0). cbn in K1, K0.
      apply (IH _ (t :: A) _ _ c0) in E1; auto. destruct E1 as [M1 O1]. cbn [buffer set_buffer set_counter set_store add_log cidc] in M1, O1.
      set (s2 := match store s1 t with Taken => set_store s1 (upd (store s1) t (Idle (S n))) | _ => s1 end) in E.
      assert (Hs2c : counter s2 = counter s1) by (unfold s2; destruct (store s1 t); reflexivity).
      assert (Hs2b : buffer s2 = buffer s1) by (unfold s2; destruct (store s1 t); reflexivity).
      assert (Hs2i : cidc s2 = cidc s1) by (unfold s2; destruct (store s1 t); reflexivity).
      assert (Hc1 : counter s1 >= 1) by (apply K1; lia).
      assert (Hcore : InvCore A s2).
      { unfold s2. destruct (store s1 t) eqn:Es1.
        - split; [|split].
          + intros x Hx'. destruct (J1 _ Hx') as [<-|]; [congruence|auto].
          + intros x Hx'. apply J2. now right.
          + intros _. lia.
        - split; [|split]; cbn.
          + intros x Hx'. destruct (Nat.eq_dec x t) as [->|Hn]; [rewrite upd_same in Hx'; discriminate|].
            rewrite upd_other in Hx' by auto. destruct (J1 _ Hx') as [<-|]; [congruence|auto].
          + intros x Hx'. assert (x <> t) by (intros ->; auto). rewrite upd_other by auto. apply J2. now right.
          + intros _. lia.
        - exfalso. destruct (J2 t (or_introl eq_refl)); congruence. }
      match type of E with context [exec f (IReplay t ?q []) ?s0] =>
        destruct (exec f (IReplay t q []) s0) as [s3|] eqn:E3; [|discriminate] end.
      assert (PreRep : Pre (IReplay t (buffer (add_log s2 (EvRunEnd cid))) []) A (set_buffer (add_log s2 (EvRunEnd cid)) [])).
      { cbn [Pre]. destruct Hcore as (C1&C2&C3).
        split; [split; [|split]|split; [|split; [|split]]]; cbn; auto.
        - apply held_ok_nil.
        - intros b Hb. rewrite Hs2b in Hb. apply J4 in Hb. exact Hb.
        - apply held_ok_nil.
        - lia. }
      pose proof (exec_sound _ _ _ _ _ E3 PreRep) as (I3&L1&L0). cbn in L1, L0.
      apply (IH _ A _ _ c0) in E3; auto; [|cbn; lia].
      destruct E3 as [M3 O3]. cbn [buffer set_buffer add_log cidc] in M3, O3. rewrite Hs2b in O3.
      assert (Hfin : old c0 (buffer s3) = old c0 (buffer s)).
      { rewrite O3. cbn [app]. rewrite old_others, O1.
        apply others_id with (A := A); auto. apply held_ok_old. exact H4. }
      destruct (Nat.eqb_spec (counter s) 0) as [Hz|Hnz].
      * destruct (exec f IDiscard s3) as [s4|] eqn:E4; [|discriminate].
        assert (HA : A = []). { destruct A; auto. exfalso. assert (counter s >= 1) by (apply H3; discriminate). lia. }
        assert (PreD : Pre IDiscard A s3). { cbn [Pre]. split; [exact I3|split; auto]. apply L1. lia. }
        apply (IH _ A _ _ c0) in E4; auto; [|lia]. destruct E4 as [M4 O4].
        inversion E; subst s'; clear E. split; [cbn [cidc set_counter]; lia|].
        cbn [buffer set_counter]. rewrite Est, old_nil, app_nil_r. congruence.
      * inversion E; subst s'; clear E. split; [lia|]. rewrite Est, old_nil, app_nil_r. exact Hfin.
  - destruct HP as ((H1&H2&H3)&Hb&Hp&Hk&Hc).
    destruct pending as [|b pending].
    + inversion E; subst; clear E. split; cbn; auto. rewrite old_app. now rewrite app_nil_r.
    + destruct (Nat.eqb_spec (b_t b) t) as [Heq|Hne].
      * unfold bind in E.
        destruct (exec f (IRunner (b_t b) (b_cid b)) s) as [s1|] eqn:E1; [|discriminate].
        assert (PreR : Pre (IRunner (b_t b) (b_cid b)) A s).
        { cbn [Pre]. split; [split; [|split]|split]; auto. intros; lia. }
        pose proof (exec_sound _ _ _ _ _ E1 PreR) as (((J1&J2&J3)&J4&J5)&K1&K0).
        apply (IH _ A _ _ c0) in E1; auto. destruct E1 as [M1 O1].
        assert (Hnt : store s (b_t b) <> Taken). { rewrite Heq. intros Ht. apply Hx. auto. }
        assert (O1' : old c0 (buffer s1) = old c0 (buffer s)).
        { rewrite O1. destruct (store s (b_t b)); try congruence; now rewrite app_nil_r. }
        apply (IH _ A _ _ c0) in E; auto; [|cbn [Pre]|lia].
        -- destruct E as [M2 O2]. split; [lia|]. rewrite O2, O1'. now rewrite others_cons_eq.
        -- split; [split; [|split]|split; [|split; [|split]]]; auto;
             try (intros b' Hb'; apply Hp; now right); try (apply K1; lia).
      * apply (IH _ A _ _ c0) in E; auto.
        -- destruct E as [M2 O2]. split; [lia|]. rewrite O2. rewrite others_cons_ne by auto.
           rewrite old_app, (old_cons c0 b (others t pending)). rewrite <- !app_assoc. reflexivity.
        -- cbn [Pre]. split; [split; [|split]|split; [|split; [|split]]]; auto.
           ++ intros b' Hb'. apply Hp. now right.
           ++ apply held_ok_app; auto. intros b' [<-|[]].
              destruct (Hp b (or_introl eq_refl)) as [Heq|]; auto. congruence.
  - destruct HP as (((H1&H2&H3)&H4&H5)&HA&Hc). subst A.
    destruct (buffer s) as [|b rest] eqn:Eb.
    + inversion E; subst; clear E. split; auto.
    + exfalso. apply (H4 b). now left.
Qed.

End Prog.

(* corollary: a top-level flush from a pristine state ends pristine (mini C11) *)
Lemma top_quiescent script fuel l s s' :
  exec script fuel (IActs l) s = Ok s' ->
  counter s = 0 -> buffer s = [] -> (forall t, store s t <> Taken) ->
  counter s' = 0 /\ buffer s' = [] /\ (forall t, store s' t <> Taken).
Proof.
  intros E Hc Hb Hs.
  apply (exec_sound script _ _ []) in E.
  - destruct E as (((J1&J2&J3)&J4&J5)&K1&K0).
    assert (Hc' : counter s' = 0) by auto.
    split; [exact Hc'|split; [auto|]].
    intros t Ht. apply J1 in Ht. destruct Ht.
  - cbn. split; [split; [|split]|split].
    + intros t Ht. exfalso. eapply Hs; eauto.
    + intros t [].
    + congruence.
    + rewrite Hb. intros b [].
    + auto.
Qed.
Print Assumptions top_quiescent.

(* mini C02: after a top-level flush from a pristine state, every command ever reached was resolved
   (run or aborted) exactly once, nothing is pending, bookkeeping is reset. *)
Theorem mini_exactly_once script fuel l s s' :
  exec script fuel (IActs l) s = Ok s' ->
  counter s = 0 -> buffer s = [] -> (forall t, store s t <> Taken) ->
  (forall cid, cid < cidc s -> resolved cid (log s) = 1) -> (forall cid, cidc s <= cid -> resolved cid (log s) = 0) ->
  forall cid, cid < cidc s' -> resolved cid (log s') = 1.
Proof.
  intros E Hc Hb Hs H1 H0 cid Hcid.
  pose proof (top_quiescent _ _ _ _ _ E Hc Hb Hs) as (_ & Hb' & _).
  apply (exec_once script _ _ []) in E.
  - destruct E as (_ & _ & R & _). apply R; auto. rewrite Hb'. cbn. auto.
  - cbn. unfold LInv, LInvL. rewrite Hb. cbn. split; [constructor|split; [intros ? []|split]]; auto.
Qed.
Print Assumptions mini_exactly_once.
