use bevy::prelude::*;
use bevy::ecs::system::{SystemParam, SystemState};
use bevy_cobweb::prelude::*;
use std::sync::Mutex;
static GLOG: Mutex<Vec<String>> = Mutex::new(Vec::new());
fn glog(s: String){ GLOG.lock().unwrap().push(s); }
fn gtake() -> Vec<String> { std::mem::take(&mut *GLOG.lock().unwrap()) }

pub struct Payload(pub u32);
impl Drop for Payload { fn drop(&mut self){ glog(format!("drop p{}", self.0)); } }
pub struct Ev<const N: usize>(pub Payload);
#[derive(PartialEq, Clone, Debug)] pub struct Cp<const N: usize>(pub u32);
impl<const N: usize> ReactComponent for Cp<N> {}
#[derive(PartialEq, Clone, Debug, Default)] pub struct Rs<const N: usize>(pub u32);
impl<const N: usize> ReactResource for Rs<N> {}

#[derive(SystemParam)]
pub struct Readers<'w, 's> {
    b0: BroadcastEvent<'w, 's, Ev<0>>, b1: BroadcastEvent<'w, 's, Ev<1>>,
    e0: EntityEvent<'w, 's, Ev<0>>, e1: EntityEvent<'w, 's, Ev<1>>,
    s0: SystemEvent<'w, 's, Ev<0>>, s1: SystemEvent<'w, 's, Ev<1>>,
    i0: InsertionEvent<'w, 's, Cp<0>>, i1: InsertionEvent<'w, 's, Cp<1>>,
    m0: MutationEvent<'w, 's, Cp<0>>, m1: MutationEvent<'w, 's, Cp<1>>,
    r0: RemovalEvent<'w, 's, Cp<0>>, r1: RemovalEvent<'w, 's, Cp<1>>,
    d: DespawnEvent<'w>,
}
impl<'w, 's> Readers<'w, 's> {
    fn sample(&mut self) -> String {
        format!("b0={:?} b1={:?} e0={:?} e1={:?} s0={:?} s1={:?} i0={:?} i1={:?} m0={:?} m1={:?} r0={:?} r1={:?} d={:?}",
            self.b0.try_read().ok().map(|e| e.0.0), self.b1.try_read().ok().map(|e| e.0.0),
            self.e0.try_read().ok().map(|(t,e)| (t, e.0.0)), self.e1.try_read().ok().map(|(t,e)| (t, e.0.0)),
            self.s0.take().ok().map(|e| e.0.0), self.s1.take().ok().map(|e| e.0.0),
            self.i0.get().ok(), self.i1.get().ok(), self.m0.get().ok(), self.m1.get().ok(),
            self.r0.get().ok(), self.r1.get().ok(), self.d.get().ok())
    }
}
#[derive(SystemParam)]
pub struct Access<'w, 's> {
    c0: Query<'w, 's, &'static mut React<Cp<0>>>, c1: Query<'w, 's, &'static mut React<Cp<1>>>,
    r0: ReactResMut<'w, Rs<0>>, r1: ReactResMut<'w, Rs<1>>,
}
struct Canary(u32);
impl Drop for Canary { fn drop(&mut self){ glog(format!("dropsys {}", self.0)); } }

fn make_plain(id: u32) -> impl FnMut(Commands, Local<u32>, Readers, Access) + Send + Sync + 'static {
    let canary = Canary(id); let mut captured = 0u32;
    move |mut c: Commands, mut n: Local<u32>, mut rd: Readers, mut acc: Access| {
        let _ = &canary; *n += 1; captured += 1;
        glog(format!("run sys{} n={} cap={} {}", id, *n, captured, rd.sample()));
        if id == 1 && *n == 1 { acc.r0.get_mut(&mut c).0 += 1; c.react().broadcast(Ev::<0>(Payload(5))); let _ = acc.c0.iter_mut().count(); let _ = acc.c1.iter().count(); let _ = &acc.r1; }
    }
}
fn make_excl(id: u32) -> impl FnMut(&mut World, Local<Option<SystemState<Readers<'static,'static>>>>) + Send + Sync + 'static {
    let canary = Canary(id);
    move |world: &mut World, mut st: Local<Option<SystemState<Readers>>>| {
        let _ = &canary;
        if st.is_none() { *st = Some(SystemState::new(world)); }
        let s = st.as_mut().unwrap();
        let mut rd = s.get_mut(world);
        let sample = rd.sample();
        glog(format!("run excl{} {}", id, sample));
    }
}
fn main(){
    let mut app = App::new();
    app.add_plugins(ReactPlugin);
    let w = app.world_mut();
    w.insert_react_resource(Rs::<0>(0)); w.insert_react_resource(Rs::<1>(0));
    let s1 = w.spawn_system_command(make_plain(1));
    let s2 = w.spawn_system_command(make_plain(2));
    let x3 = w.spawn_system_command(make_excl(3));
    w.react(|rc| { rc.with(broadcast::<Ev<0>>(), s2, ReactorMode::Persistent); rc.with((broadcast::<Ev<0>>(), resource_mutation::<Rs<0>>()), x3, ReactorMode::Persistent); });
    w.commands().queue(s1); w.flush();
    w.send_system_event(s2, Ev::<1>(Payload(9)));
    w.despawn(*s2);
    for l in gtake() { println!("{l}"); }
}
