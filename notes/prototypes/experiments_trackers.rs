use bevy::prelude::*;
use bevy_cobweb::prelude::*;
#[derive(Resource, Default, Deref, DerefMut)]
struct Log(Vec<String>);
#[derive(Resource, Default)]
struct Saved(Vec<SystemCommand>);
#[derive(ReactComponent, PartialEq, Clone, Debug)]
struct A(u32);
fn newapp() -> App { let mut app = App::new(); app.add_plugins(ReactPlugin).init_resource::<Log>().init_resource::<Saved>(); app }
fn e1() {
    let mut app = newapp(); let w = app.world_mut();
    let s = w.spawn_system_command(|mut ev: SystemEvent<u32>, mut log: ResMut<Log>, saved: Res<Saved>, mut c: Commands, mut n: Local<u32>| {
        *n += 1;
        match ev.take() { Ok(v) => log.push(format!("S got {v} (run {})", *n)),
            Err(_) => { let s = saved.0[0]; for i in 1..=4u32 { c.send_system_event(s, i); } } }
    });
    w.resource_mut::<Saved>().0.push(s); w.commands().queue(s); w.flush();
    println!("E1 {:?}", w.resource::<Log>().0);
}
fn e3() {
    let mut app = newapp(); let w = app.world_mut();
    let s = w.spawn_system_command(|mut ev: SystemEvent<u32>, mut log: ResMut<Log>, saved: Res<Saved>, mut c: Commands, mut n: Local<u32>| {
        *n += 1; let se = ev.take().ok(); log.push(format!("S run{} sys={:?}", *n, se));
        let s = saved.0[0];
        if *n == 1 { c.send_system_event(s, 1u32); c.send_system_event(s, 2u32); }
        if *n == 2 { c.send_system_event(s, 3u32); }
    });
    w.resource_mut::<Saved>().0.push(s); w.commands().queue(s); w.flush();
    println!("E3 {:?}", w.resource::<Log>().0);
}
fn e3c() {
    let mut app = newapp(); let w = app.world_mut();
    let e = w.spawn_empty().id();
    w.react(|rc| rc.insert(e, A(0)));
    let s = w.spawn_system_command(move |ee: EntityEvent<u32>, m: MutationEvent<A>, ins: InsertionEvent<A>, mut log: ResMut<Log>, mut c: Commands, mut n: Local<u32>, mut q: Query<&mut React<A>>| {
        *n += 1;
        log.push(format!("S run{} ee={:?} mut={:?} ins={:?}", *n, ee.try_read().ok().map(|(_,v)|*v), m.get().ok().is_some(), ins.get().ok().is_some()));
        if *n == 1 { c.react().entity_event(e, 5u32); q.get_mut(e).unwrap().get_mut(&mut c).0 += 1; c.react().entity_event(e, 6u32); }
    });
    w.react(|rc| rc.with((entity_event::<u32>(e), entity_mutation::<A>(e)), s, ReactorMode::Persistent));
    w.commands().queue(s); w.flush();
    println!("E3c {:?}", w.resource::<Log>().0);
}
fn e4() {
    let mut app = newapp(); let w = app.world_mut();
    w.react(|rc| rc.on_persistent(insertion::<A>(), |ev: InsertionEvent<A>, mut log: ResMut<Log>| { log.push(format!("insertion reactor ran for {:?}", ev.get().ok())); }));
    let e = w.spawn_empty().id();
    w.syscall(e, |In(e): In<Entity>, mut c: Commands| { c.entity(e).despawn(); c.react().insert(e, A(1)); });
    println!("E4 alive={} {:?}", w.get_entity(e).is_ok(), w.resource::<Log>().0);
}
fn main(){ e1(); e3(); e3c(); e4(); }
