(* Syscall.v — standalone model of the syscall family (src/ecs/{syscall,named_syscall,spawned_syscall}.rs).
   A call takes the cached system out of the world (resource / map node / entity component), runs it (Local += 1,
   output = f(input, Local)), applies the commands the system queued — which may call again — and puts it back. *)
From Cobweb Require Export Base.

(* the calls a test system is told to queue as commands are part of its input *)
Inductive call :=
| KSys (id t v : N) (nested : list call)             (* syscall(world, input, sysfn::<t>) *)
| KNamed (id name t v : N) (nested : list call)      (* named_syscall(world, name, input, sysfn::<t>) *)
| KSpawned (id sid v : N) (nested : list call)       (* spawned_syscall(world, sid, input) *)
| KSpawn (id sid t : N)                              (* spawn_system(world, sysfn::<t>) *)
| KDespawn (id sid : N)                              (* world.despawn(sid) *)
| KNamedDirect (id name t v : N) (nested : list call). (* named_syscall_direct(world, SysName(name, sysfn::<t>), input) *)

Inductive skey := SkSys (t : N) | SkNamed (name t : N) | SkSpawned (sid : N).
Definition skey_eqb (a b : skey) : bool :=
  match a, b with
  | SkSys x, SkSys y => N.eqb x y
  | SkNamed n x, SkNamed m y => N.eqb n m && N.eqb x y
  | SkSpawned x, SkSpawned y => N.eqb x y
  | _, _ => false
  end.

Inductive sev :=
| SBody (id : N) (k : skey) (t v local : N)          (* the system body ran: its Local after the increment *)
| SRet (id : N) (out : option N).                    (* the call returned Ok(out) / Err *)

Record sst := mkSst {
  s_sys : list (N * N);                        (* InitializedSystem<..sysfn::<t>> resource: t -> Local *)
  s_named : list (N * N * option N);           (* IdMappedSystems: (name, t) -> node (None while taken) *)
  s_spawned : list (N * (N * option N));       (* SpawnedSystem component: sid -> (t, Some Local | None while running) *)
  s_log : list sev;
  (* ghost: keys whose system is currently taken out of the world, and whether a call ever started on such a key
     (same-key re-entrancy, which the crate documents as losing the inner state) or a spawned id was ever reused *)
  s_busy : list skey;
  s_reent : bool;
  s_ever : list N;
}.
Definition sst_init : sst := mkSst [] [] [] [] [] false [].
Definition slog (e : sev) (s : sst) : sst := mkSst (s_sys s) (s_named s) (s_spawned s) (s_log s ++ [e]) (s_busy s) (s_reent s) (s_ever s).
Definition is_busy (k : skey) (s : sst) : bool := existsb (skey_eqb k) (s_busy s).
Definition enter (k : skey) (s : sst) : sst :=
  mkSst (s_sys s) (s_named s) (s_spawned s) (s_log s) (k :: s_busy s) (s_reent s || is_busy k s) (s_ever s).
Fixpoint remove_key (k : skey) (l : list skey) : list skey :=
  match l with [] => [] | x :: r => if skey_eqb k x then r else x :: remove_key k r end.
Definition leave (k : skey) (s : sst) : sst :=
  mkSst (s_sys s) (s_named s) (s_spawned s) (s_log s) (remove_key k (s_busy s)) (s_reent s) (s_ever s).
Definition output (v local : N) : N := v * 100 + local.

Definition set_sys (x : list (N * N)) (s : sst) := mkSst x (s_named s) (s_spawned s) (s_log s) (s_busy s) (s_reent s) (s_ever s).
Definition set_named (x : list (N * N * option N)) (s : sst) := mkSst (s_sys s) x (s_spawned s) (s_log s) (s_busy s) (s_reent s) (s_ever s).
Definition set_spawned (x : list (N * (N * option N))) (s : sst) := mkSst (s_sys s) (s_named s) x (s_log s) (s_busy s) (s_reent s) (s_ever s).

(* syscall.rs:27-55: remove_resource, (init), run + apply_deferred, insert_resource *)
Definition sys_local (t : N) (s : sst) : N := match alookup t (s_sys s) with Some l => l | None => 0 end.
Definition begin_sys (id t v : N) (s : sst) : sst :=
  slog (SBody id (SkSys t) t v (sys_local t s + 1)) (enter (SkSys t) (set_sys (aremove t (s_sys s)) s)).
Definition end_sys (id t v l : N) (s : sst) : sst :=
  slog (SRet id (Some (output v (l + 1)))) (leave (SkSys t) (set_sys (aset t (l + 1) (s_sys s)) s)).

(* named_syscall.rs:9-48: node.take(), (init), run, apply_deferred, node.replace / insert *)
Definition named_local (name t : N) (s : sst) : N := match alookup2 name t (s_named s) with Some (Some l) => l | _ => 0 end.
Definition begin_named (id name t v : N) (s : sst) : sst :=
  let s' := match alookup2 name t (s_named s) with Some _ => set_named (aset2 name t None (s_named s)) s | None => s end in
  slog (SBody id (SkNamed name t) t v (named_local name t s + 1)) (enter (SkNamed name t) s').
Definition end_named (id name t v l : N) (s : sst) : sst :=
  slog (SRet id (Some (output v (l + 1)))) (leave (SkNamed name t) (set_named (aset2 name t (Some (l + 1)) (s_named s)) s)).

(* spawned_syscall.rs:77-95 *)
Definition begin_spawned (id sid t v l : N) (s : sst) : sst :=
  slog (SBody id (SkSpawned sid) t v (l + 1)) (enter (SkSpawned sid) (set_spawned (aset sid (t, None) (s_spawned s)) s)).
Definition end_spawned (id sid t v l : N) (s : sst) : sst :=
  (* put the callback back unless the entity is gone *)
  let s' := match alookup sid (s_spawned s) with Some _ => set_spawned (aset sid (t, Some (l + 1)) (s_spawned s)) s | None => s end in
  slog (SRet id (Some (output v (l + 1)))) (leave (SkSpawned sid) s').
Definition do_spawn (sid t : N) (s : sst) : sst :=
  if ahas sid (s_spawned s) then s
  else mkSst (s_sys s) (s_named s) (s_spawned s ++ [(sid, (t, Some 0))]) (s_log s) (s_busy s) (s_reent s || memN sid (s_ever s)) (sid :: s_ever s).

Fixpoint run_calls (fuel : nat) (cs : list call) (s : sst) : sst :=
  match fuel with
  | O => s
  | S f =>
    match cs with
    | [] => s
    | c :: rest =>
      run_calls f rest
        match c with
        | KSys id t v nested => end_sys id t v (sys_local t s) (run_calls f nested (begin_sys id t v s))
        | KNamed id name t v nested => end_named id name t v (named_local name t s) (run_calls f nested (begin_named id name t v s))
        | KSpawned id sid v nested =>
            match alookup sid (s_spawned s) with
            | None => slog (SRet id None) s                          (* entity or component missing *)
            | Some (t, None) => slog (SRet id None) s                (* recursive call: the system is running *)
            | Some (t, Some l) => end_spawned id sid t v l (run_calls f nested (begin_spawned id sid t v l s))
            end
        | KSpawn id sid t => do_spawn sid t s
        | KDespawn id sid => set_spawned (aremove sid (s_spawned s)) s
        | KNamedDirect id name t v nested =>
            (* named_syscall.rs:104-146: Err unless the node exists and holds its system; then exactly named_syscall *)
            match alookup2 name t (s_named s) with
            | Some (Some _) => end_named id name t v (named_local name t s) (run_calls f nested (begin_named id name t v s))
            | _ => slog (SRet id None) s
            end
        end
    end
  end.

Definition run_case (fuel : nat) (cs : list call) : list sev := s_log (run_calls fuel cs sst_init).
