(* AutoDespawn.v — standalone model of src/ecs/auto_despawn.rs: AutoDespawnSignal = Arc<Inner>, Drop of the last
   clone sends the entity on a channel, garbage_collect_entities drains it and despawn_recursive()s what still exists.
   Every op sequence stands for one interleaving of the threads holding clones with the main thread: the drop of a
   clone is split in two steps (atomic decrement; send if it was the last) so that a collection may fall in between. *)
From Cobweb Require Export Base.

Record ad := mkAd {
  a_alive : list ent;
  a_parent : list (N * ent);            (* child -> parent (Parent component) *)
  a_sigs : list (N * (ent * N));        (* live Arcs: signal -> (entity, strong count >= 1) *)
  a_sending : list (N * ent);           (* Arcs whose count reached 0 and whose Drop has not sent yet *)
  a_sent : list (N * ent);              (* ghost: signals that have sent *)
  a_chan : list ent;                    (* the collector's channel *)
}.

Inductive aop :=
| OSpawn (e : ent) | OPrepare (g : N) (e : ent) | OClone (g : N) | ODropBegin (g : N) | ODropEnd (g : N)
| OGc | ODespawn (e : ent) | ODespawnRec (e : ent) | OSetParent (e p : ent).

Definition ad_init : ad := mkAd [] [] [] [] [] [].
Definition ad_alive (e : ent) (s : ad) : bool := memN e (a_alive s).

(* x is e or descends from e through parents that are still alive (Children lists of live entities) *)
Fixpoint reaches (fuel : nat) (x e : ent) (s : ad) : bool :=
  N.eqb x e ||
  match fuel with
  | O => false
  | S f => match alookup x (a_parent s) with
           | Some p => ad_alive p s && reaches f p e s
           | None => false end
  end.
Definition depth (s : ad) : nat := length (a_alive s).

(* despawn_recursive(e): e and everything below it *)
Definition kill_tree (e : ent) (s : ad) : ad :=
  mkAd (filter (fun x => negb (reaches (depth s) x e s)) (a_alive s)) (aremove e (a_parent s)) (a_sigs s) (a_sending s) (a_sent s) (a_chan s).
(* despawn(e): e only; its children are orphaned *)
Definition kill_one (e : ent) (s : ad) : ad :=
  mkAd (removeN e (a_alive s)) (aremove e (a_parent s)) (a_sigs s) (a_sending s) (a_sent s) (a_chan s).

(* garbage_collect_entities: while let Some(entity) = try_recv() { get_entity_mut(entity).ok().map(despawn_recursive) } *)
Fixpoint gc_list (ch : list ent) (s : ad) : ad :=
  match ch with
  | [] => s
  | e :: r => gc_list r (if ad_alive e s then kill_tree e s else s)
  end.
Definition gc (s : ad) : ad :=
  let s' := gc_list (a_chan s) s in mkAd (a_alive s') (a_parent s') (a_sigs s') (a_sending s') (a_sent s') [].

Definition ad_step (s : ad) (o : aop) : ad :=
  match o with
  | OSpawn e => if ad_alive e s then s else mkAd (a_alive s ++ [e]) (a_parent s) (a_sigs s) (a_sending s) (a_sent s) (a_chan s)
  | OPrepare g e =>
      (* AutoDespawner::prepare: a fresh Arc with count 1 (no check that the entity exists) *)
      if ahas g (a_sigs s) || ahas g (a_sending s) || ahas g (a_sent s) then s
      else mkAd (a_alive s) (a_parent s) (a_sigs s ++ [(g, (e, 1))]) (a_sending s) (a_sent s) (a_chan s)
  | OClone g =>
      match alookup g (a_sigs s) with
      | Some (e, n) => mkAd (a_alive s) (a_parent s) (aset g (e, n + 1) (a_sigs s)) (a_sending s) (a_sent s) (a_chan s)
      | None => s end
  | ODropBegin g =>
      match alookup g (a_sigs s) with
      | Some (e, n) =>
          if N.leb n 1 then mkAd (a_alive s) (a_parent s) (aremove g (a_sigs s)) (a_sending s ++ [(g, e)]) (a_sent s) (a_chan s)
          else mkAd (a_alive s) (a_parent s) (aset g (e, n - 1) (a_sigs s)) (a_sending s) (a_sent s) (a_chan s)
      | None => s end
  | ODropEnd g =>
      match alookup g (a_sending s) with
      | Some e => mkAd (a_alive s) (a_parent s) (a_sigs s) (aremove g (a_sending s)) (a_sent s ++ [(g, e)]) (a_chan s ++ [e])
      | None => s end
  | OGc => gc s
  | ODespawn e => if ad_alive e s then kill_one e s else s
  | ODespawnRec e => if ad_alive e s then kill_tree e s else s
  | OSetParent e p =>
      (* set_parent on live entities, refusing cycles *)
      if ad_alive e s && ad_alive p s && negb (reaches (depth s) p e s) then
        mkAd (a_alive s) (aset e p (a_parent s)) (a_sigs s) (a_sending s) (a_sent s) (a_chan s)
      else s
  end.

Definition ad_run (ops : list aop) : ad := fold_left ad_step ops ad_init.
(* trace for the correspondence check: the live entities after every operation *)
Fixpoint ad_trace (ops : list aop) (s : ad) : list (list ent) :=
  match ops with [] => [] | o :: r => let s' := ad_step s o in a_alive s' :: ad_trace r s' end.
