(* Extract.v — extraction of the executable model to OCaml. ExtrOcamlBasic only: bool, option, list, prod, unit,
   sumbool map to OCaml natives; N / positive / nat stay Coq datatypes. No Extract Constant / Extract Inductive here. *)
From Cobweb Require Import Machine AutoDespawn Syscall.
Require Import ExtrOcamlBasic.
Extraction "../model/model.ml" run init_world ad_trace ad_init run_case.
