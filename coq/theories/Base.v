(* Base.v — identifiers, association lists, basic datatypes shared by the whole model.
   Plain Coq stdlib only (List, N, Bool) so that extraction needs ExtrOcamlBasic alone. *)
From Coq Require Export List NArith Bool Arith Lia.
Export ListNotations.
Open Scope N_scope.

Definition ent := N.

(* ---------- association lists (model of HashMap / component storage: only looked up by key) ---------- *)
Section Assoc.
  Context {V : Type}.
  Fixpoint alookup (k : N) (l : list (N * V)) : option V :=
    match l with
    | [] => None
    | (k', v) :: r => if N.eqb k k' then Some v else alookup k r
    end.
  Fixpoint aremove (k : N) (l : list (N * V)) : list (N * V) :=
    match l with
    | [] => []
    | (k', v) :: r => if N.eqb k k' then aremove k r else (k', v) :: aremove k r
    end.
  (* insert-or-replace, keeping the position of an existing key *)
  Fixpoint aset (k : N) (v : V) (l : list (N * V)) : list (N * V) :=
    match l with
    | [] => [(k, v)]
    | (k', v') :: r => if N.eqb k k' then (k, v) :: r else (k', v') :: aset k v r
    end.
  (* update only if the key is present *)
  Fixpoint aupd (k : N) (v : V) (l : list (N * V)) : list (N * V) :=
    match l with
    | [] => []
    | (k', v') :: r => if N.eqb k k' then (k, v) :: r else (k', v') :: aupd k v r
    end.
  Definition ahas (k : N) (l : list (N * V)) : bool :=
    match alookup k l with Some _ => true | None => false end.
End Assoc.

(* two-key association lists *)
Section Assoc2.
  Context {V : Type}.
  Fixpoint alookup2 (a b : N) (l : list (N * N * V)) : option V :=
    match l with
    | [] => None
    | (a', b', v) :: r => if N.eqb a a' && N.eqb b b' then Some v else alookup2 a b r
    end.
  Fixpoint aremove2 (a b : N) (l : list (N * N * V)) : list (N * N * V) :=
    match l with
    | [] => []
    | (a', b', v) :: r => if N.eqb a a' && N.eqb b b' then aremove2 a b r else (a', b', v) :: aremove2 a b r
    end.
  Fixpoint aset2 (a b : N) (v : V) (l : list (N * N * V)) : list (N * N * V) :=
    match l with
    | [] => [(a, b, v)]
    | (a', b', v') :: r => if N.eqb a a' && N.eqb b b' then (a, b, v) :: r else (a', b', v') :: aset2 a b v r
    end.
End Assoc2.

Fixpoint memN (x : N) (l : list N) : bool :=
  match l with [] => false | y :: r => N.eqb x y || memN x r end.
Fixpoint removeN (x : N) (l : list N) : list N :=
  match l with [] => [] | y :: r => if N.eqb x y then removeN x r else y :: removeN x r end.

(* ---------- reactor vocabulary (src/react/utils.rs) ---------- *)
Inductive mode := Persistent | Cleanup | Revokable.

(* ReactorHandle: Persistent(sys) | AutoDespawn(signal); the signal id names one Arc *)
Inductive handle := HPersist (s : ent) | HAuto (g : N) (s : ent).
Definition handle_sys (h : handle) : ent := match h with HPersist s => s | HAuto _ s => s end.

(* EntityReactionType *)
Inductive ertype := RIns (c : N) | RMut (c : N) | RRem (c : N) | REvent (ty : N).
Definition ertype_eqb (a b : ertype) : bool :=
  match a, b with
  | RIns x, RIns y | RMut x, RMut y | RRem x, RRem y | REvent x, REvent y => N.eqb x y
  | _, _ => false
  end.
(* TypeId::of::<()>() used by entity events in the entity-reaction tracker *)
Definition UNIT_TY : N := 999.

(* ReactorType = one per trigger kind (the 11 trigger constructors) *)
Inductive trigger :=
| TBroadcast (ty : N) | TEntityEvent (ty : N) (e : ent) | TAnyEntityEvent (ty : N) | TResource (r : N)
| TIns (c : N) | TMut (c : N) | TRem (c : N)
| TEIns (c : N) (e : ent) | TEMut (c : N) (e : ent) | TERem (c : N) (e : ent)
| TDespawn (e : ent).

Definition trigger_entity (t : trigger) : option ent :=
  match t with
  | TEntityEvent _ e | TEIns _ e | TEMut _ e | TERem _ e | TDespawn e => Some e
  | _ => None
  end.

(* RevokeToken = (reactor types, system id) *)
Definition token := (list trigger * ent)%type.

(* ---------- option / result helpers ---------- *)
Inductive result (A : Type) := Ok (a : A) | OutOfFuel | Stuck (why : N).
Arguments Ok {A}. Arguments OutOfFuel {A}. Arguments Stuck {A}.
Definition bind {A B} (r : result A) (k : A -> result B) : result B :=
  match r with Ok a => k a | OutOfFuel => OutOfFuel | Stuck w => Stuck w end.
Notation "'do' x <- r ; k" := (bind r (fun x => k)) (at level 200, x ident, r at level 100, k at level 200).
