(* World.v — the state of mini-Bevy + bevy_cobweb and every non-recursive ("primitive") operation on it.
   One Gallina definition per Rust function; the Rust file:line is given in a comment (pinned commit + fix commits). *)
From Cobweb Require Export Base.
From RecordUpdate Require Export RecordUpdate.
Export RecordSetNotations.

(* ---------- event payload storage (data entities) ---------- *)
Inductive ddata :=
| DBroadcast (ty p cnt : N)                     (* (DataEntityCounter(cnt), BroadcastEventData<ty>(p)) *)
| DEntityEvent (ty : N) (target : ent) (p cnt : N)
| DSysEvent (ty : N) (p : option N).            (* SystemEventData<ty>{ data: Option } *)

(* ---------- the four access trackers (ticket-keyed after the fix) ---------- *)
Record trk (A : Type) := mkTrk { reacting : bool; cur : A; prepared : list (N * ent * A) }.
Arguments mkTrk {A}. Arguments reacting {A}. Arguments cur {A}. Arguments prepared {A}.

(* ---------- log ---------- *)
Inductive occ := OSys (s run idx : N) | OTop (op idx : N).
Inductive retval := RNone | RVal (v : N) | ROk.

Record sample := mkSample {
  sm_b : list (N * N);              (* BroadcastEvent<ty> = p *)
  sm_e : list (N * ent * N);        (* EntityEvent<ty> = (target, p) *)
  sm_s : list (N * N);              (* SystemEvent<ty>.take() = p (first take) *)
  sm_i : list (N * ent); sm_m : list (N * ent); sm_r : list (N * ent);
  sm_d : option ent;
  sm_l : option (ent * option N);   (* EntityLocal (X systems only): (source, data or missing) *)
}.

Record snapshot := mkSnap {
  sn_counter : N; sn_buffered : N;
  sn_ev : bool * N; sn_se : bool * N; sn_er : bool * N; sn_de : bool * N * bool;
  sn_systems : N; sn_taken : N; sn_ereactors : N; sn_data : N;
  sn_tables : list N; sn_keys : list N; sn_dead : N;
  sn_alive : list N; sn_xlocal : list (N * ent);
}.

(* what one command parks in / claims from the trackers (ghost bookkeeping for C03) *)
Inductive pitem := PiSe (d : ent) | PiEr (src : ent) (rt : ertype) | PiDe (src : ent) | PiEv (d : ent).
Definition pitem_eqb (a b : pitem) : bool :=
  match a, b with
  | PiSe x, PiSe y | PiDe x, PiDe y | PiEv x, PiEv y => N.eqb x y
  | PiEr x r, PiEr y r' => N.eqb x y && ertype_eqb r r'
  | _, _ => false
  end.
Fixpoint pitems_eqb (a b : list pitem) : bool :=
  match a, b with [], [] => true | x :: a', y :: b' => pitem_eqb x y && pitems_eqb a' b' | _, _ => false end.

Inductive ev :=
| EvMark (o : occ)
| EvRun (s : ent) (runno captured : N) (sm : sample)
| EvRet (o : occ) (v : retval)
| EvDrop (p : N)
| EvDropSys (s : ent)
| EvEnter (s : ent) (ticket idx : N)
| EvPost (s : ent) (ticket : N)
| EvAbort (s : ent) (ticket why : N)          (* why: 0 dead, 1 nostorage, 2 rootmissing *)
| EvStart (s : ent) (ticket : N)
| EvEnd (s : ent) (ticket : N) (reinserted : bool)
| EvDiscard (s : ent) (ticket : N)
| EvExit (s : ent) (ticket : N)
| EvTop (i : N) (sn : snapshot)
(* ghost events (not produced by the implementation; erased by the projections) *)
| EvSetup (ticket : N) | EvCleanup (ticket : N)
| EvTrigger (kind key : N) (e : ent) (targets : list ent)
| EvGone (e : ent).

(* ---------- systems ---------- *)
Inductive syskind := Plain | Excl.
Record sysdecl := mkSys { sd_id : N; sd_kind : syskind; sd_err : bool; sd_take : bool; sd_x : option N }.

(* state of one callback: Local run counter, captured counter, once-wrapper flag *)
(* cb_live: the harness canary captured by the system closure has not been dropped yet *)
Record cbrec := mkCb { cb_once : option token; cb_runno : N; cb_captured : N; cb_taken : bool; cb_live : bool }.

(* setup / cleanup function pointers (src/react/commands.rs) *)
Inductive setup := SuDefault | SuSysEvent (k : N) | SuEntity (k : N) | SuDespawn (k : N) | SuEntityEvent (k : N) | SuBroadcast (k : N).
Inductive cleanup := ClDefault | ClSysEvent | ClEntity | ClDespawn | ClEntityEvent | ClBroadcast.
Definition setup_ticket (su : setup) : N :=
  match su with SuDefault => 0 | SuSysEvent k | SuEntity k | SuDespawn k | SuEntityEvent k | SuBroadcast k => k end.

Record buffered := mkBuf { b_sys : ent; b_setup : setup; b_cleanup : cleanup }.

(* ---------- the world ---------- *)
Record world := mkWorld {
  (* mini-Bevy *)
  alive : list ent;
  comps : list (N * N * N);                         (* React<C>: (cty, entity) -> value *)
  storage : list (N * bool);                        (* SystemCommandStorage: entity -> callback present? *)
  cbs : list (N * cbrec);                           (* the boxed callbacks, by system entity *)
  ereactors : list (N * list (ertype * handle));    (* EntityReactors component *)
  dtrackers : list ent;                             (* DespawnTracker component *)
  dataents : list (N * ddata);
  xlocals : list (N * N * N);                       (* EntityWorldLocal<X>: (x, entity) -> data *)
  resvals : list (N * N);                           (* ReactRes<R> values *)
  removed : list (N * (ent * N * N));               (* RemovedComponents<React<C>>: cty -> (entity, seq, generation) *)
  removed_seq : N; generation : N;
  next_ent : N;
  (* AutoDespawner: Arc counts and channel *)
  sigs : list (N * (ent * N)); next_sig : N; gc_chan : list ent;
  (* ReactCache *)
  comp_tbl : list (N * (list handle * list handle * list handle));
  desp_tbl : list (N * list handle);
  any_tbl : list (N * list handle);
  res_tbl : list (N * list handle);
  bc_tbl : list (N * list handle);
  removal_checkers : list (N * N);                  (* (cty, reader cursor) in installation order *)
  despawn_chan : list ent;
  (* runner bookkeeping *)
  counter : N; buffer : list buffered; ticket_ctr : N;
  tr_ev : trk ent; tr_se : trk ent; tr_er : trk (ent * ent * ertype); tr_de : trk (ent * option handle);
  (* harness-level name binding *)
  bound : list N; tokens : list (N * token);
  spawned : list N;                                 (* ghost: system entities whose storage was ever installed *)
  g_prep : list (N * ent * list pitem);             (* ghost: (ticket, system, entries parked) per command, in issue order *)
  g_claim : list (N * ent * list pitem);            (* ghost: (ticket, system, entries claimed) per successful setup *)
  g_runs : list (ent * N * N);                      (* ghost: (system, Local, captured counter) logged by every body, in order *)
  g_oruns : list ent;                               (* ghost: one entry per run of the inner system of a `once` wrapper *)
  g_auto : list ent;                                (* ghost: entities for which an auto-despawn signal was ever prepared *)
  g_sdrops : list ent;                              (* ghost: one entry per drop of a live system state (boxed callback) *)
  g_dprep : list ent;                               (* ghost: target of every applied command that draws no ticket (plain system command, resource reaction) *)
  (* observation *)
  log : list ev;
}.
#[export] Instance eta_world : Settable _ := settable! mkWorld
  <alive; comps; storage; cbs; ereactors; dtrackers; dataents; xlocals; resvals; removed; removed_seq; generation; next_ent;
   sigs; next_sig; gc_chan; comp_tbl; desp_tbl; any_tbl; res_tbl; bc_tbl; removal_checkers; despawn_chan;
   counter; buffer; ticket_ctr; tr_ev; tr_se; tr_er; tr_de; bound; tokens; spawned; g_prep; g_claim; g_runs; g_oruns; g_auto; g_sdrops; g_dprep; log>.

Definition FIRST_INTERNAL : N := 1000000.
Definition PLACEHOLDER : N := 500000.

Definition empty_trk {A} (d : A) : trk A := mkTrk false d [].

Definition init_world : world := {|
  alive := []; comps := []; storage := []; cbs := []; ereactors := []; dtrackers := []; dataents := [];
  xlocals := []; resvals := []; removed := []; removed_seq := 0; generation := 0; next_ent := FIRST_INTERNAL;
  sigs := []; next_sig := 0; gc_chan := [];
  comp_tbl := []; desp_tbl := []; any_tbl := []; res_tbl := []; bc_tbl := []; removal_checkers := []; despawn_chan := [];
  counter := 0; buffer := []; ticket_ctr := 0;
  tr_ev := empty_trk 0; tr_se := empty_trk 0; tr_er := empty_trk (0, 0, RIns UNIT_TY); tr_de := empty_trk (0, None);
  bound := []; tokens := []; spawned := []; g_prep := []; g_claim := []; g_runs := []; g_oruns := []; g_auto := []; g_sdrops := []; g_dprep := []; log := [] |}.

Definition emit (e : ev) (w : world) : world := w <| log ::= fun l => l ++ [e] |>.
Definition note_claim (k : N) (s : ent) (items : list pitem) (w : world) : world := w <| g_claim ::= fun l => l ++ [(k, s, items)] |>.
Definition note_run (s : ent) (runno captured : N) (once : bool) (w : world) : world :=
  w <| g_runs ::= fun l => l ++ [(s, runno, captured)] |> <| g_oruns ::= fun l => if once then l ++ [s] else l |>.
Definition note_prep (k : N) (s : ent) (items : list pitem) (w : world) : world := w <| g_prep ::= fun l => l ++ [(k, s, items)] |>.
Definition is_alive (e : ent) (w : world) : bool := memN e (alive w).

(* ---------- Arc<AutoDespawnSignalInner> (src/ecs/auto_despawn.rs:12-37) ---------- *)
Definition sig_new (e : ent) (w : world) : N * world :=
  let g := next_sig w in (g, w <| next_sig := g + 1 |> <| sigs ::= fun l => l ++ [(g, (e, 1))] |> <| g_auto ::= cons e |>).
Definition sig_clone (g : N) (w : world) : world :=
  match alookup g (sigs w) with
  | Some (e, n) => w <| sigs := aset g (e, n + 1) (sigs w) |>
  | None => w
  end.
(* drop one clone; the last drop sends the entity on the collector's channel *)
Definition sig_drop (g : N) (w : world) : world :=
  match alookup g (sigs w) with
  | Some (e, n) =>
      if N.leb n 1 then w <| sigs := aremove g (sigs w) |> <| gc_chan ::= fun c => c ++ [e] |>
      else w <| sigs := aset g (e, n - 1) (sigs w) |>
  | None => w
  end.
Definition handle_clone (h : handle) (w : world) : world :=
  match h with HPersist _ => w | HAuto g _ => sig_clone g w end.
Definition handle_drop (h : handle) (w : world) : world :=
  match h with HPersist _ => w | HAuto g _ => sig_drop g w end.
Fixpoint handles_drop (hs : list handle) (w : world) : world :=
  match hs with [] => w | h :: r => handles_drop r (handle_drop h w) end.

(* ---------- despawn of one entity: every component is dropped (Bevy World::despawn) ---------- *)
Definition drop_ddata (d : ddata) (w : world) : world :=
  match d with
  | DBroadcast _ p _ => emit (EvDrop p) w
  | DEntityEvent _ _ p _ => emit (EvDrop p) w
  | DSysEvent _ (Some p) => emit (EvDrop p) w
  | DSysEvent _ None => w
  end.

Fixpoint comps_of (e : ent) (l : list (N * N * N)) : list N :=
  match l with
  | [] => []
  | (c, e', _) :: r => if N.eqb e e' then c :: comps_of e r else comps_of e r
  end.
Fixpoint comps_without (e : ent) (l : list (N * N * N)) : list (N * N * N) :=
  match l with
  | [] => []
  | (c, e', v) :: r => if N.eqb e e' then comps_without e r else (c, e', v) :: comps_without e r
  end.
Fixpoint xlocals_without (e : ent) (l : list (N * N * N)) : list (N * N * N) :=
  match l with
  | [] => []
  | (x, e', v) :: r => if N.eqb e e' then xlocals_without e r else (x, e', v) :: xlocals_without e r
  end.

Definition push_removed (c : N) (e : ent) (w : world) : world :=
  w <| removed ::= fun l => l ++ [(c, (e, removed_seq w, generation w))] |> <| removed_seq ::= N.succ |>.
Fixpoint push_removed_all (cs : list N) (e : ent) (w : world) : world :=
  match cs with [] => w | c :: r => push_removed_all r e (push_removed c e w) end.

(* dropping a boxed callback drops what its closure captured (the harness canary logs it) *)
Definition drop_callback (t : ent) (w : world) : world :=
  match alookup t (cbs w) with
  | Some cb => let w := w <| cbs := aremove t (cbs w) |> in if cb_live cb then emit (EvDropSys t) (w <| g_sdrops ::= cons t |>) else w
  | None => w
  end.

(* the component drops of World::despawn, one step per component kind *)
Definition dsp_alive (e : ent) (w : world) : world := emit (EvGone e) (w <| alive := removeN e (alive w) |>).
(* React<C> components: removal events *)
Definition dsp_comps (e : ent) (w : world) : world :=
  (push_removed_all (comps_of e (comps w)) e w) <| comps ::= comps_without e |>.
(* SystemCommandStorage: a present callback is dropped with it *)
Definition dsp_storage (e : ent) (w : world) : world :=
  (match alookup e (storage w) with Some true => drop_callback e w | _ => w end) <| storage ::= aremove e |>.
(* EntityReactors: handles dropped in order *)
Definition dsp_ereactors (e : ent) (w : world) : world :=
  (match alookup e (ereactors w) with Some l => handles_drop (map snd l) w | None => w end) <| ereactors ::= aremove e |>.
(* DespawnTracker::drop sends on the despawn channel (reaction_triggers_impl.rs:27-34) *)
Definition dsp_tracker (e : ent) (w : world) : world :=
  if memN e (dtrackers w) then w <| dtrackers := removeN e (dtrackers w) |> <| despawn_chan ::= fun c => c ++ [e] |> else w.
(* data entity: payload dropped *)
Definition dsp_data (e : ent) (w : world) : world :=
  (match alookup e (dataents w) with Some d => drop_ddata d w | None => w end) <| dataents ::= aremove e |>.
Definition dsp_xlocals (e : ent) (w : world) : world := w <| xlocals ::= xlocals_without e |>.

Definition despawn (e : ent) (w : world) : world :=
  if negb (is_alive e w) then w else
  dsp_xlocals e (dsp_data e (dsp_tracker e (dsp_ereactors e (dsp_storage e (dsp_comps e (dsp_alive e w)))))).

(* ---------- trackers (event_readers.rs:26-60 etc., after the ticket fix) ---------- *)
Section Trk.
  Context {A : Type}.
  Definition trk_prepare (k : N) (s : ent) (a : A) (t : trk A) : trk A :=
    mkTrk (reacting t) (cur t) (prepared t ++ [(k, s, a)]).
  Fixpoint find_prepared (k : N) (s : ent) (l : list (N * ent * A)) : option (A * list (N * ent * A)) :=
    match l with
    | [] => None
    | (k', s', a) :: r =>
        if N.eqb k k' && N.eqb s s' then Some (a, r)
        else match find_prepared k s r with
             | Some (a', r') => Some (a', (k', s', a) :: r')
             | None => None end
    end.
  (* swap_remove(pos): the last element takes the place of the removed one *)
  Fixpoint swap_remove_at (k : N) (s : ent) (l : list (N * ent * A)) : option (A * list (N * ent * A)) :=
    match l with
    | [] => None
    | (k', s', a) :: r =>
        if N.eqb k k' && N.eqb s s' then
          Some (a, match rev r with [] => [] | lst :: rr => lst :: rev rr end)
        else match swap_remove_at k s r with
             | Some (a', r') => Some (a', (k', s', a) :: r')
             | None => None end
    end.
  (* start: None = the prepared entry is missing or (strict) the flag was already set: debug_assert! *)
  Definition trk_start (strict : bool) (k : N) (s : ent) (t : trk A) : option (trk A) :=
    match swap_remove_at k s (prepared t) with
    | None => None
    | Some (a, rest) => if strict && reacting t then None else Some (mkTrk true a rest)
    end.
  Definition trk_end (t : trk A) : trk A := mkTrk false (cur t) (prepared t).
End Trk.

(* ---------- tables (react_cache.rs:158-325, utils.rs:50-83) ---------- *)
Definition tbl_push (k : N) (h : handle) (t : list (N * list handle)) : list (N * list handle) :=
  match alookup k t with
  | Some l => aset k (l ++ [h]) t
  | None => t ++ [(k, [h])]
  end.
Definition tbl_get (k : N) (t : list (N * list handle)) : list handle :=
  match alookup k t with Some l => l | None => [] end.
(* remove the first handle whose system is s; returns the removed handle *)
Fixpoint remove_first (s : ent) (l : list handle) : option handle * list handle :=
  match l with
  | [] => (None, [])
  | h :: r => if N.eqb (handle_sys h) s then (Some h, r)
              else let (o, r') := remove_first s r in (o, h :: r')
  end.
Definition tbl_revoke (k : N) (s : ent) (t : list (N * list handle)) : option handle * list (N * list handle) :=
  match alookup k t with
  | None => (None, t)
  | Some l =>
      let (o, l') := remove_first s l in
      (o, match l' with [] => aremove k t | _ => aset k l' t end)
  end.

Inductive ckind := KIns | KMut | KRem.
Definition comp_get (k : ckind) (c : N) (w : world) : list handle :=
  match alookup c (comp_tbl w) with
  | None => []
  | Some (i, m, r) => match k with KIns => i | KMut => m | KRem => r end
  end.
Definition comp_push (k : ckind) (c : N) (h : handle) (w : world) : world :=
  let '(i, m, r) := match alookup c (comp_tbl w) with Some x => x | None => ([], [], []) end in
  let x := match k with KIns => (i ++ [h], m, r) | KMut => (i, m ++ [h], r) | KRem => (i, m, r ++ [h]) end in
  match alookup c (comp_tbl w) with
  | Some _ => w <| comp_tbl := aset c x (comp_tbl w) |>
  | None => w <| comp_tbl ::= fun t => t ++ [(c, x)] |>
  end.
(* revoke_component_reactor (react_cache.rs:218-252) *)
Definition comp_revoke (k : ckind) (c : N) (s : ent) (w : world) : world :=
  match alookup c (comp_tbl w) with
  | None => w
  | Some (i, m, r) =>
      let l := match k with KIns => i | KMut => m | KRem => r end in
      let (o, l') := remove_first s l in
      let '(i', m', r') := match k with KIns => (l', m, r) | KMut => (i, l', r) | KRem => (i, m, l') end in
      let w := match i', m', r' with
               | [], [], [] => w <| comp_tbl := aremove c (comp_tbl w) |>
               | _, _, _ => w <| comp_tbl := aset c (i', m', r') (comp_tbl w) |>
               end in
      match o with Some h => handle_drop h w | None => w end
  end.

Definition track_removals (c : N) (w : world) : world :=
  if ahas c (removal_checkers w) then w else w <| removal_checkers ::= fun l => l ++ [(c, 0)] |>.

(* EntityReactors::remove = drain_filter of every entry with this type and system (utils.rs:73-83) *)
Fixpoint er_remove (rt : ertype) (s : ent) (l : list (ertype * handle)) : list handle * list (ertype * handle) :=
  match l with
  | [] => ([], [])
  | (rt', h) :: r =>
      let (d, k) := er_remove rt s r in
      if ertype_eqb rt' rt && N.eqb (handle_sys h) s then (h :: d, k) else (d, (rt', h) :: k)
  end.
Fixpoint er_targets (rt : ertype) (l : list (ertype * handle)) : list ent :=
  match l with
  | [] => []
  | (rt', h) :: r => if ertype_eqb rt' rt then handle_sys h :: er_targets rt r else er_targets rt r
  end.
Definition entity_targets (e : ent) (rt : ertype) (w : world) : list ent :=
  if is_alive e w then match alookup e (ereactors w) with Some l => er_targets rt l | None => [] end else [].

(* ---------- DataEntityCounter (commands.rs:14-21, 98-121) ---------- *)
Definition try_cleanup_data_entity (d : ent) (w : world) : world :=
  if negb (is_alive d w) then w else
  match alookup d (dataents w) with
  | Some (DBroadcast ty p cnt) =>
      let cnt' := N.pred cnt in
      let w := w <| dataents := aset d (DBroadcast ty p cnt') (dataents w) |> in
      if N.eqb cnt' 0 then despawn d w else w
  | Some (DEntityEvent ty t p cnt) =>
      let cnt' := N.pred cnt in
      let w := w <| dataents := aset d (DEntityEvent ty t p cnt') (dataents w) |> in
      if N.eqb cnt' 0 then despawn d w else w
  | _ => w
  end.

(* ---------- setup / cleanup (commands.rs:26-91) ---------- *)
Definition run_setup (su : setup) (s : ent) (w : world) : option world :=
  match su with
  | SuDefault => Some (note_claim 0 s [] w)
  | SuSysEvent k => match trk_start true k s (tr_se w) with Some t => Some (emit (EvSetup k) (note_claim k s [PiSe (cur t)] (w <| tr_se := t |>))) | None => None end
  | SuEntity k => match trk_start true k s (tr_er w) with Some t => Some (emit (EvSetup k) (note_claim k s [PiEr (snd (fst (cur t))) (snd (cur t))] (w <| tr_er := t |>))) | None => None end
  | SuDespawn k => match trk_start false k s (tr_de w) with Some t => Some (emit (EvSetup k) (note_claim k s [PiDe (fst (cur t))] (w <| tr_de := t |>))) | None => None end
  | SuEntityEvent k =>
      match trk_start true k s (tr_er w) with
      | Some t => let w := w <| tr_er := t |> in
                  match trk_start true k s (tr_ev w) with Some t' => Some (emit (EvSetup k) (note_claim k s [PiEr (snd (fst (cur t))) (snd (cur t)); PiEv (cur t')] (w <| tr_ev := t' |>))) | None => None end
      | None => None end
  | SuBroadcast k => match trk_start true k s (tr_ev w) with Some t => Some (emit (EvSetup k) (note_claim k s [PiEv (cur t)] (w <| tr_ev := t |>))) | None => None end
  end.

(* ghost: what the readers can see (one item per tracker whose flag is on), and the claim of the latest setup *)
Definition visible (w : world) : list pitem :=
  (if reacting (tr_se w) then [PiSe (cur (tr_se w))] else []) ++
  (if reacting (tr_er w) then [PiEr (snd (fst (cur (tr_er w)))) (snd (cur (tr_er w)))] else []) ++
  (if reacting (tr_de w) then [PiDe (fst (cur (tr_de w)))] else []) ++
  (if reacting (tr_ev w) then [PiEv (cur (tr_ev w))] else []).
Definition last_claim (w : world) : N * ent * list pitem := last (g_claim w) (0, 0, []).
(* the assertion checked at the start of every body: the readers expose exactly what this run's own setup claimed *)
Definition fresh_claim_b (t : ent) (w : world) : bool :=
  N.eqb (snd (fst (last_claim w))) t && pitems_eqb (visible w) (snd (last_claim w)).

Definition run_cleanup (cl : cleanup) (w : world) : world :=
  match cl with
  | ClDefault => w
  | ClSysEvent => let d := cur (tr_se w) in despawn d (w <| tr_se ::= trk_end |>)
  | ClEntity => w <| tr_er ::= trk_end |>
  | ClDespawn =>
      let h := snd (cur (tr_de w)) in
      let w := w <| tr_de := mkTrk false (fst (cur (tr_de w)), None) (prepared (tr_de w)) |> in
      match h with Some h => handle_drop h w | None => w end
  | ClEntityEvent => let w := w <| tr_er ::= trk_end |> in
                     let d := cur (tr_ev w) in try_cleanup_data_entity d (w <| tr_ev ::= trk_end |>)
  | ClBroadcast => let d := cur (tr_ev w) in try_cleanup_data_entity d (w <| tr_ev ::= trk_end |>)
  end.

(* ---------- readers, as sampled at the start of every harness body ---------- *)
Definition TYPES : list N := [0; 1].
Definition read_broadcast (ty : N) (w : world) : option N :=
  if reacting (tr_ev w) && is_alive (cur (tr_ev w)) w then
    match alookup (cur (tr_ev w)) (dataents w) with
    | Some (DBroadcast ty' p _) => if N.eqb ty ty' then Some p else None
    | _ => None end
  else None.
Definition read_entity_event (ty : N) (w : world) : option (ent * N) :=
  if reacting (tr_ev w) && is_alive (cur (tr_ev w)) w then
    match alookup (cur (tr_ev w)) (dataents w) with
    | Some (DEntityEvent ty' t p _) => if N.eqb ty ty' then Some (t, p) else None
    | _ => None end
  else None.
Definition peek_sysevent (ty : N) (w : world) : option N :=
  if reacting (tr_se w) && is_alive (cur (tr_se w)) w then
    match alookup (cur (tr_se w)) (dataents w) with
    | Some (DSysEvent ty' (Some p)) => if N.eqb ty ty' then Some p else None
    | _ => None end
  else None.
Definition read_er (k : ckind) (c : N) (w : world) : option ent :=
  if reacting (tr_er w) then
    let '(_, src, rt) := cur (tr_er w) in
    match k, rt with
    | KIns, RIns c' | KMut, RMut c' | KRem, RRem c' => if N.eqb c c' then Some src else None
    | _, _ => None end
  else None.
Definition read_despawn (w : world) : option ent :=
  if reacting (tr_de w) then Some (fst (cur (tr_de w))) else None.

Fixpoint collect {A} (f : N -> option A) (tys : list N) : list (N * A) :=
  match tys with [] => [] | t :: r => match f t with Some a => (t, a) :: collect f r | None => collect f r end end.

(* take(): SystemEvent::take of every event type for systems declared `take`; the payload is dropped by the body *)
Fixpoint take_sysevents (tys : list N) (w : world) : list (N * N) * world :=
  match tys with
  | [] => ([], w)
  | ty :: r =>
      match peek_sysevent ty w with
      | Some p =>
          let w := w <| dataents := aset (cur (tr_se w)) (DSysEvent ty None) (dataents w) |> in
          let w := emit (EvDrop p) w in
          let (l, w) := take_sysevents r w in ((ty, p) :: l, w)
      | None => take_sysevents r w
      end
  end.

Definition sample_readers (sd : sysdecl) (xsys : option (N * ent)) (w : world) : sample * world :=
  let b := collect (fun ty => read_broadcast ty w) TYPES in
  let e := map (fun x => (fst x, fst (snd x), snd (snd x))) (collect (fun ty => read_entity_event ty w) TYPES) in
  let i := collect (fun c => read_er KIns c w) TYPES in
  let m := collect (fun c => read_er KMut c w) TYPES in
  let r := collect (fun c => read_er KRem c w) TYPES in
  let d := read_despawn w in
  (* EntityLocal: only consulted by X systems, and only when some entity-scoped reader is non-empty *)
  let l := match xsys with
           | Some (x, xs) =>
               if reacting (tr_er w) && (match e, i, m, r with [], [], [], [] => false | _, _, _, _ => true end) then
                 let '(s, src, _) := cur (tr_er w) in
                 if N.eqb s xs then Some (src, if is_alive src w then alookup2 x src (xlocals w) else None) else None
               else None
           | None => None end in
  let (s, w) := if sd_take sd then take_sysevents TYPES w else ([], w) in
  (mkSample b e s i m r d l, w).

(* ---------- snapshot (hook 1) ---------- *)
Definition len {A} (l : list A) : N := N.of_nat (length l).
Fixpoint sumlen {A B} (l : list (A * list B)) : N :=
  match l with [] => 0 | (_, x) :: r => len x + sumlen r end.
Fixpoint comp_entries (l : list (N * (list handle * list handle * list handle))) : N :=
  match l with [] => 0 | (_, (i, m, r)) :: t => len i + len m + len r + comp_entries t end.
Fixpoint all_handles_tbl (l : list (N * list handle)) : list handle :=
  match l with [] => [] | (_, x) :: r => x ++ all_handles_tbl r end.
Fixpoint all_handles_comp (l : list (N * (list handle * list handle * list handle))) : list handle :=
  match l with [] => [] | (_, (i, m, r)) :: t => i ++ m ++ r ++ all_handles_comp t end.
Fixpoint all_handles_er (l : list (N * list (ertype * handle))) : list handle :=
  match l with [] => [] | (_, x) :: r => map snd x ++ all_handles_er r end.
Definition all_table_handles (w : world) : list handle :=
  all_handles_er (ereactors w) ++ all_handles_comp (comp_tbl w) ++ all_handles_tbl (desp_tbl w)
  ++ all_handles_tbl (any_tbl w) ++ all_handles_tbl (res_tbl w) ++ all_handles_tbl (bc_tbl w).
Fixpoint count_taken (l : list (N * bool)) : N :=
  match l with [] => 0 | (_, b) :: r => (if b then 0 else 1) + count_taken r end.
Fixpoint count_counted (l : list (N * ddata)) : N :=
  match l with
  | [] => 0
  | (_, DSysEvent _ _) :: r => count_counted r
  | _ :: r => 1 + count_counted r
  end.
Fixpoint xlocal_keys (l : list (N * N * N)) : list (N * ent) :=
  match l with [] => [] | (x, e, _) :: r => (x, e) :: xlocal_keys r end.

Definition take_snapshot (ids : list N) (w : world) : snapshot := {|
  sn_counter := counter w; sn_buffered := len (buffer w);
  sn_ev := (reacting (tr_ev w), len (prepared (tr_ev w)));
  sn_se := (reacting (tr_se w), len (prepared (tr_se w)));
  sn_er := (reacting (tr_er w), len (prepared (tr_er w)));
  sn_de := (reacting (tr_de w), len (prepared (tr_de w)), match snd (cur (tr_de w)) with Some _ => true | None => false end);
  sn_systems := len (storage w); sn_taken := count_taken (storage w);
  sn_ereactors := sumlen (ereactors w); sn_data := count_counted (dataents w);
  sn_tables := [comp_entries (comp_tbl w); sumlen (desp_tbl w); sumlen (any_tbl w); sumlen (res_tbl w); sumlen (bc_tbl w)];
  sn_keys := [len (comp_tbl w); len (desp_tbl w); len (any_tbl w); len (res_tbl w); len (bc_tbl w)];
  sn_dead := len (filter (fun h => negb (is_alive (handle_sys h) w)) (all_table_handles w));
  sn_alive := filter (fun i => is_alive i w) ids;
  sn_xlocal := xlocal_keys (xlocals w);
|}.
