(* Machine.v — programs (what a user of the crate can write), commands (what lands on Bevy's command queues),
   and the interpreter `exec`: the only recursive function, on explicit fuel. *)
From Cobweb Require Export World.

(* ---------- programs ---------- *)
Inductive action :=
| ARun (s : N)                                  (* commands.queue(SystemCommand) *)
| ASysEvent (s ty p : N)                        (* commands.send_system_event(s, Ev<ty>(p)) *)
| ABroadcast (ty p : N)                         (* rc.broadcast(Ev<ty>(p)) *)
| AEntityEvent (ty e p : N)                     (* rc.entity_event(e, Ev<ty>(p)) *)
| AInsert (c e v : N)                           (* rc.insert(e, Cp<c>(v)) *)
| AMutate (c e v : N)                           (* ReactiveMut::get_mut(&mut c, e) = v      [body time] *)
| ASetIfNeq (c e v : N)                         (* React::set_if_neq                       [body time] *)
| AGetNoReact (c e v : N)                       (* ReactiveMut::get_noreact(e) = v         [body time] *)
| ARead (c e : N)                               (* Reactive::get(e)                        [body time] *)
| ARemove (c e : N)                             (* commands.entity(e).remove::<React<Cp<c>>>() *)
| ADespawn (e : N)                              (* commands.entity(e).despawn()   (entity or system id) *)
| ADespawnRec (e : N)                           (* despawn_recursive *)
| ATrigRes (r : N)                              (* ReactResMut::get_mut  (value += 1)       [body time] *)
| ASetResIfNeq (r v : N)                        (* ReactResMut::set_if_neq                 [body time] *)
| AResNoReact (r v : N)                         (* ReactResMut::get_noreact                [body time] *)
| ASpawnEntity (e : N)                          (* commands.spawn_empty() *)
| ASpawnSys (s : N)                             (* commands.spawn_system_command(body s) *)
| ARegister (tok : N) (m : mode) (s : N) (b : list trigger)    (* rc.with(bundle, s, mode) *)
| AOn (s : N) (b : list trigger) | AOnPersistent (s : N) (b : list trigger)
| AOnRevokable (tok s : N) (b : list trigger) | AOnce (tok s : N) (b : list trigger)
| ARevoke (tok : N)
| AWrAdd (wr : N) (b : list trigger) | AWrRemove (wr : N) (b : list trigger) | AWrRun (wr : N)
| AXrAdd (x e v : N) | AXrRemove (x : N) (b : list trigger)
| AGC | APoll.

Inductive topop :=
| TFlush (acts : list action)                   (* all actions queued, then one flush *)
| TDirect (acts : list action)                  (* flush after every action *)
| TFrame (batches : list (list action)).        (* App::update(): chained Update systems, then Last, then clear_trackers *)

Record program := mkProgram {
  p_sys : list sysdecl;
  p_scripts : list (N * N * list action);       (* (system, run index) -> script *)
  p_wr : list (N * N);                          (* world reactor index -> its system id *)
  p_xr : list (N * (N * list N));               (* entity world reactor index -> (system id, trigger shape) *)
  p_ents : list N;                              (* declared user entity ids *)
  p_top : list topop;
}.

(* ---------- commands ---------- *)
Inductive reaction :=
| RcResource (t : ent)
| RcEntity (src : ent) (rt : ertype) (t : ent)
| RcDespawn (src : ent) (t : ent) (h : handle)
| RcEntityEvent (target d t : ent)
| RcBroadcast (d t : ent).

Inductive cmd :=
| CMark (o : occ)
| CSysCmd (t : ent)
| CEventCmd (t d : ent)
| CReact (r : reaction)
| CSpawnData (d : ent) (dd : ddata)
| CBroadcast (ty p : N) | CEntityEvent (ty : N) (e : ent) (p : N) | CTrigRes (r : N)
| CSchedIns (c : N) (e : ent) | CSchedMut (c : N) (e : ent)
| CTryInsertReact (c : N) (e : ent) (v : N) | CRemoveReact (c : N) (e : ent)
| CDespawn (e : ent) | CDespawnRec (e : ent)
| CSpawnSys (s : ent) | CInsertOnce (s : ent) (tk : token)
| CRegister (b : list trigger) (s : ent) (m : mode)
| CRegTypewide (t : trigger) (h : handle) | CRegEntity (rt : ertype) (e : ent) (h : handle)
| CTrackRemovals (c : N) | CRegDespawn (e : ent) (h : handle)
| CRevoke (tk : token)
| CCleanup (cl : cleanup)
| CXAdd (x : N) (e : ent) (v : N) | CXRemove (x : N) (b : list trigger)
| CXInsertLocal (x : N) (e : ent) (v : N) | CXCleanupData (x : N) (s : ent) (e : ent)
| CGC | CPoll.

(* ---------- name resolution (static id -> entity), done when an action is turned into commands ---------- *)
Definition resolve (w : world) (id : N) : ent := if memN id (bound w) then id else PLACEHOLDER + id.
Definition bind_id (id : N) (w : world) : world := if memN id (bound w) then w else w <| bound ::= cons id |>.
Definition resolve_trigger (w : world) (t : trigger) : trigger :=
  match t with
  | TEntityEvent ty e => TEntityEvent ty (resolve w e)
  | TEIns c e => TEIns c (resolve w e) | TEMut c e => TEMut c (resolve w e) | TERem c e => TERem c (resolve w e)
  | TDespawn e => TDespawn (resolve w e)
  | t => t
  end.

(* Commands::spawn_empty / spawn: the entity id is reserved when the call is made *)
(* a second spawn under an already bound static id creates an entity nobody can name: no observable effect *)
Definition reserve (id : N) (w : world) : world :=
  if memN id (bound w) then w else (bind_id id w) <| alive ::= fun l => l ++ [id] |>.

Section WithProgram.
Variable P : program.

Definition find_sys (s : ent) : option sysdecl := find (fun d => N.eqb (sd_id d) s) (p_sys P).
Definition sys_or_default (s : ent) : sysdecl := match find_sys s with Some sd => sd | None => mkSys s Plain false false None end.
Definition script_of (s run : N) : list action :=
  match alookup2 s run (p_scripts P) with Some l => l | None => [] end.
Definition all_ids : list N := p_ents P ++ map sd_id (p_sys P).

(* entity-world-reactor trigger shapes: 0 = entity_mutation<C0>, 1 = entity_event<E0>, 2 = entity_insertion<C0>,
   3 = entity_removal<C1>, 4 = entity_mutation<C1> *)
Definition xshape_trigger (k : N) (e : ent) : trigger :=
  match k with
  | 0 => TEMut 0 e | 1 => TEntityEvent 0 e | 2 => TEIns 0 e | 3 => TERem 1 e | _ => TEMut 1 e
  end.

Fixpoint unique_entities (seen : list N) (ts : list trigger) : list ent :=
  match ts with
  | [] => []
  | t :: r => match trigger_entity t with
              | Some e => if memN e seen then unique_entities seen r else e :: unique_entities (e :: seen) r
              | None => unique_entities seen r end
  end.

(* ---------- turning one action into commands (the public API call made at body time) ----------
   Returns the world after body-time effects (reservation, accessor writes, name binding), the log of the
   action at body time, and the deferred commands in queue order. *)
Definition act (o : occ) (a : action) (w : world) : world * list cmd :=
  match a with
  | ARun s => (w, [CMark o; CSysCmd (resolve w s)])
  | ASysEvent s ty p =>
      (* send_system_event: spawn(SystemEventData) reserves the data entity now (extensions.rs:283-287) *)
      let d := next_ent w in
      let w := w <| next_ent := d + 1 |> <| alive ::= fun l => l ++ [d] |> in
      (w, [CMark o; CSpawnData d (DSysEvent ty (Some p)); CEventCmd (resolve w s) d])
  | ABroadcast ty p => (w, [CMark o; CBroadcast ty p])
  | AEntityEvent ty e p => (w, [CMark o; CEntityEvent ty (resolve w e) p])
  | AInsert c e v =>
      (* ReactCommands::insert (react_commands.rs:179-184): nothing is queued if the entity does not exist now *)
      let e := resolve w e in
      if is_alive e w then (w, [CMark o; CTryInsertReact c e v; CSchedIns c e]) else (w, [CMark o])
  | AMutate c e v =>
      let e := resolve w e in
      let w := emit (EvMark o) w in
      if is_alive e w then
        match alookup2 c e (comps w) with
        | Some _ => (emit (EvRet o ROk) (w <| comps := aset2 c e v (comps w) |>), [CSchedMut c e])
        | None => (emit (EvRet o RNone) w, [])
        end
      else (emit (EvRet o RNone) w, [])
  | ASetIfNeq c e v =>
      let e := resolve w e in
      let w := emit (EvMark o) w in
      if is_alive e w then
        match alookup2 c e (comps w) with
        | Some old => if N.eqb old v then (emit (EvRet o RNone) w, [])
                      else (emit (EvRet o (RVal old)) (w <| comps := aset2 c e v (comps w) |>), [CSchedMut c e])
        | None => (emit (EvRet o RNone) w, [])
        end
      else (emit (EvRet o RNone) w, [])
  | AGetNoReact c e v =>
      let e := resolve w e in
      let w := emit (EvMark o) w in
      if is_alive e w then
        match alookup2 c e (comps w) with
        | Some _ => (emit (EvRet o ROk) (w <| comps := aset2 c e v (comps w) |>), [])
        | None => (emit (EvRet o RNone) w, [])
        end
      else (emit (EvRet o RNone) w, [])
  | ARead c e =>
      let e := resolve w e in
      let w := emit (EvMark o) w in
      (emit (EvRet o (if is_alive e w then match alookup2 c e (comps w) with Some v => RVal v | None => RNone end else RNone)) w, [])
  | ARemove c e => let e := resolve w e in if is_alive e w then (w, [CMark o; CRemoveReact c e]) else (w, [CMark o])
  | ADespawn e => let e := resolve w e in if is_alive e w then (w, [CMark o; CDespawn e]) else (w, [CMark o])
  | ADespawnRec e => let e := resolve w e in if is_alive e w then (w, [CMark o; CDespawnRec e]) else (w, [CMark o])
  | ATrigRes r =>
      let w := emit (EvMark o) w in
      let v := match alookup r (resvals w) with Some v => v | None => 0 end in
      (emit (EvRet o (RVal (v + 1))) (w <| resvals := aset r (v + 1) (resvals w) |>), [CTrigRes r])
  | ASetResIfNeq r v =>
      let w := emit (EvMark o) w in
      let old := match alookup r (resvals w) with Some v => v | None => 0 end in
      if N.eqb old v then (emit (EvRet o RNone) w, [])
      else (emit (EvRet o (RVal old)) (w <| resvals := aset r v (resvals w) |>), [CTrigRes r])
  | AResNoReact r v =>
      let w := emit (EvMark o) w in
      (emit (EvRet o ROk) (w <| resvals := aset r v (resvals w) |>), [])
  | ASpawnEntity e => (reserve e w, [CMark o])
  | ASpawnSys s => if memN s (bound w) then (w, [CMark o]) else let w := reserve s w in (w, [CMark o; CSpawnSys s])
  | ARegister tok m s b =>
      let s := resolve w s in
      let b := map (resolve_trigger w) b in
      let w := match m with Revokable => w <| tokens := aset tok (b, s) (tokens w) |> | _ => w end in
      (w, [CMark o; CRegister b s m])
  | AOn s b =>
      if memN s (bound w) then (w, [CMark o]) else
      let w := reserve s w in
      (w, [CMark o; CSpawnSys s; CRegister (map (resolve_trigger w) b) s Cleanup])
  | AOnPersistent s b =>
      if memN s (bound w) then (w, [CMark o]) else
      let w := reserve s w in
      (w, [CMark o; CSpawnSys s; CRegister (map (resolve_trigger w) b) s Persistent])
  | AOnRevokable tok s b =>
      if memN s (bound w) then (w, [CMark o]) else
      let w := reserve s w in
      let b := map (resolve_trigger w) b in
      (w <| tokens := aset tok (b, s) (tokens w) |>, [CMark o; CSpawnSys s; CRegister b s Revokable])
  | AOnce tok s b =>
      (* ReactCommands::once (react_commands.rs:319-349) *)
      if memN s (bound w) then (w, [CMark o]) else
      let w := reserve s w in
      let b := map (resolve_trigger w) b in
      (w <| tokens := aset tok (b, s) (tokens w) |>, [CMark o; CRegister b s Revokable; CInsertOnce s (b, s)])
  | ARevoke tok =>
      match alookup tok (tokens w) with
      | Some tk => (w, [CMark o; CRevoke tk])
      | None => (w, [CMark o])
      end
  | AWrAdd wr b =>
      match alookup wr (p_wr P) with
      | Some s => (w, [CMark o; CRegister (map (resolve_trigger w) b) s Persistent])
      | None => (w, [CMark o]) end
  | AWrRemove wr b =>
      match alookup wr (p_wr P) with
      | Some s => (w, [CMark o; CRevoke (map (resolve_trigger w) b, s)])
      | None => (w, [CMark o]) end
  | AWrRun wr =>
      match alookup wr (p_wr P) with
      | Some s => (w, [CMark o; CSysCmd s])
      | None => (w, [CMark o]) end
  | AXrAdd x e v =>
      (* commands.get_entity(e).add_world_reactor::<X>(v): queued syscall of EntityReactor::add *)
      let e := resolve w e in
      if is_alive e w then (w, [CMark o; CXAdd x e v]) else (w, [CMark o])
  | AXrRemove x b => (w, [CMark o; CXRemove x (map (resolve_trigger w) b)])
  | AGC => (w, [CMark o; CGC])
  | APoll => (w, [CMark o; CPoll])
  end.

(* a whole script evaluated the way a non-exclusive system body does: accessors act now, the rest is deferred *)
Fixpoint acts (mk : N -> occ) (idx : N) (l : list action) (w : world) : world * list cmd :=
  match l with
  | [] => (w, [])
  | a :: r => let (w, c1) := act (mk idx) a w in
              let (w, c2) := acts mk (idx + 1) r w in (w, c1 ++ c2)
  end.

(* ---------- primitive commands: applied without re-entering the runner ----------
   Returns the new world and whatever the command queued (applied right after it by Bevy's per-command flush). *)
Definition fresh_ticket (w : world) : N * world := let k := ticket_ctr w + 1 in (k, w <| ticket_ctr := k |>).

Definition reg_trigger_cmds (h : handle) (t : trigger) (w : world) : world * list cmd :=
  match t with
  | TEntityEvent ty e => (handle_clone h w, [CRegEntity (REvent ty) e h])
  | TEIns c e => (handle_clone h w, [CRegEntity (RIns c) e h])
  | TEMut c e => (handle_clone h w, [CRegEntity (RMut c) e h])
  | TERem c e => (handle_clone h w, [CTrackRemovals c; CRegEntity (RRem c) e h])
  | TDespawn e => if is_alive e w then (handle_clone h w, [CRegDespawn e h]) else (w, [])
  | t => (handle_clone h w, [CRegTypewide t h])
  end.
Fixpoint reg_triggers_cmds (h : handle) (ts : list trigger) (w : world) : world * list cmd :=
  match ts with
  | [] => (w, [])
  | t :: r => let (w, c1) := reg_trigger_cmds h t w in
              let (w, c2) := reg_triggers_cmds h r w in (w, c1 ++ c2)
  end.

Definition revoke_one (s : ent) (t : trigger) (w : world) : world :=
  let rev_entity (e : ent) (rt : ertype) :=
    if is_alive e w then
      match alookup e (ereactors w) with
      | Some l => let (d, k) := er_remove rt s l in handles_drop d (w <| ereactors := aset e k (ereactors w) |>)
      | None => w end
    else w in
  let rev_tbl (get : world -> list (N * list handle)) (put : list (N * list handle) -> world -> world) (k : N) :=
    let (o, t') := tbl_revoke k s (get w) in
    let w := put t' w in
    match o with Some h => handle_drop h w | None => w end in
  match t with
  | TEIns c e => rev_entity e (RIns c) | TEMut c e => rev_entity e (RMut c) | TERem c e => rev_entity e (RRem c)
  | TEntityEvent ty e => rev_entity e (REvent ty)
  | TAnyEntityEvent ty => rev_tbl any_tbl (fun t w => w <| any_tbl := t |>) ty
  | TIns c => comp_revoke KIns c s w | TMut c => comp_revoke KMut c s w | TRem c => comp_revoke KRem c s w
  | TResource r => rev_tbl res_tbl (fun t w => w <| res_tbl := t |>) r
  | TBroadcast ty => rev_tbl bc_tbl (fun t w => w <| bc_tbl := t |>) ty
  | TDespawn e => rev_tbl desp_tbl (fun t w => w <| desp_tbl := t |>) e
  end.
Fixpoint revoke_all (s : ent) (ts : list trigger) (w : world) : world :=
  match ts with [] => w | t :: r => revoke_all s r (revoke_one s t w) end.

(* unread removal events of one component type (RemovedComponents reader with a persistent cursor) *)
Fixpoint unread (c cursor : N) (l : list (N * (ent * N * N))) : list ent :=
  match l with
  | [] => []
  | (c', (e, seq, _)) :: r => if N.eqb c c' && N.leb cursor seq then e :: unread c cursor r else unread c cursor r
  end.

Definition removal_cmds_for (c : N) (w : world) (e : ent) : list cmd :=
  map (fun t => CReact (RcEntity e (RRem c) t)) (entity_targets e (RRem c) w)
  ++ map (fun h => CReact (RcEntity e (RRem c) (handle_sys h))) (comp_get KRem c w).

(* ReactCache::schedule_removal_reactions (react_cache.rs:402-452) *)
Fixpoint poll_removals (chk : list (N * N)) (w : world) : list (N * N) * list cmd :=
  match chk with
  | [] => ([], [])
  | (c, cursor) :: r =>
      let es := unread c cursor (removed w) in
      let (chk', cs) := poll_removals r w in
      ((c, removed_seq w) :: chk', flat_map (removal_cmds_for c w) es ++ cs)
  end.
(* ReactCache::schedule_despawn_reactions (react_cache.rs:507-524) *)
Fixpoint poll_despawns (chan : list ent) (w : world) : world * list cmd :=
  match chan with
  | [] => (w, [])
  | e :: r =>
      let hs := tbl_get e (desp_tbl w) in
      let w := w <| desp_tbl := aremove e (desp_tbl w) |> in
      let (w, cs) := poll_despawns r w in
      (w, map (fun h => CReact (RcDespawn e (handle_sys h) h)) hs ++ cs)
  end.
Definition poll (w : world) : world * list cmd :=
  let (chk, c1) := poll_removals (removal_checkers w) w in
  let w := w <| removal_checkers := chk |> in
  let chan := despawn_chan w in
  let (w, c2) := poll_despawns chan (w <| despawn_chan := [] |>) in
  (w, c1 ++ c2).

(* World::clear_trackers: removal events survive two updates *)
Definition clear_trackers (w : world) : world :=
  let g := generation w + 1 in
  w <| generation := g |> <| removed := filter (fun x => N.leb g (snd (snd x) + 1)) (removed w) |>.

Definition apply_prim (c : cmd) (w : world) : world * list cmd :=
  match c with
  | CMark o => (emit (EvMark o) w, [])
  | CSpawnData d dd => (if is_alive d w then w <| dataents := aset d dd (dataents w) |> else w, [])
  | CBroadcast ty p =>
      (* schedule_broadcast_reaction (react_cache.rs:546-570) *)
      match tbl_get ty (bc_tbl w) with
      | [] => (emit (EvTrigger 0 ty 0 []) (emit (EvDrop p) w), [])
      | hs =>
          let d := next_ent w in
          let w := w <| next_ent := d + 1 |> <| alive ::= fun l => l ++ [d] |> in
          let w := emit (EvTrigger 0 ty 0 (map handle_sys hs)) w in
          (w, CSpawnData d (DBroadcast ty p (len hs)) :: map (fun h => CReact (RcBroadcast d (handle_sys h))) hs)
      end
  | CEntityEvent ty e p =>
      (* schedule_entity_event_reaction (react_cache.rs:455-505) *)
      let ts := entity_targets e (REvent ty) w ++ map handle_sys (tbl_get ty (any_tbl w)) in
      match ts with
      | [] => (emit (EvTrigger 1 ty e []) (emit (EvDrop p) w), [])
      | _ =>
          let d := next_ent w in
          let w := w <| next_ent := d + 1 |> <| alive ::= fun l => l ++ [d] |> in
          let w := emit (EvTrigger 1 ty e ts) w in
          (w, CSpawnData d (DEntityEvent ty e p (len ts)) :: map (fun t => CReact (RcEntityEvent e d t)) ts)
      end
  | CTrigRes r =>
      let ts := map handle_sys (tbl_get r (res_tbl w)) in
      (emit (EvTrigger 2 r 0 ts) w, map (fun t => CReact (RcResource t)) ts)
  | CSchedIns c e =>
      (* schedule_insertion_reaction (react_cache.rs:328-362, with the `inserted` guard of the fix) *)
      if is_alive e w && (match alookup2 c e (comps w) with Some _ => true | None => false end) then
        let ts := entity_targets e (RIns c) w ++ map handle_sys (comp_get KIns c w) in
        (emit (EvTrigger 3 c e ts) w, map (fun t => CReact (RcEntity e (RIns c) t)) ts)
      else (w, [])
  | CSchedMut c e =>
      let ts := entity_targets e (RMut c) w ++ map handle_sys (comp_get KMut c w) in
      (emit (EvTrigger 4 c e ts) w, map (fun t => CReact (RcEntity e (RMut c) t)) ts)
  | CTryInsertReact c e v => (if is_alive e w then w <| comps := aset2 c e v (comps w) |> else w, [])
  | CRemoveReact c e =>
      (if is_alive e w then
         match alookup2 c e (comps w) with
         | Some _ => push_removed c e (w <| comps := aremove2 c e (comps w) |>)
         | None => w end
       else w, [])
  | CDespawn e => (despawn e w, [])
  | CDespawnRec e => (despawn e w, [])
  | CSpawnSys s =>
      (* the ghost guard `spawned` is vacuous in the crate: a spawn command is applied once, for a fresh entity *)
      (if is_alive s w && negb (memN s (spawned w)) then
         w <| storage := aset s true (storage w) |> <| cbs := aset s (mkCb None 0 0 false true) (cbs w) |> <| spawned ::= cons s |>
       else w, [])
  | CInsertOnce s tk =>
      (* try_insert on a despawned entity drops the bundle, i.e. the never-run reactor and what it captured *)
      (if negb (is_alive s w) then emit (EvDropSys s) w else
       if negb (memN s (spawned w)) then
         w <| storage := aset s true (storage w) |> <| cbs := aset s (mkCb (Some tk) 0 0 false true) (cbs w) |> <| spawned ::= cons s |>
       else w, [])
  | CRegister b s m =>
      (* register_reactors (react_commands.rs:28-35): prepare the handle, queue one registration per trigger, drop it *)
      let (h, w) := match m with
                    | Persistent => (HPersist s, w)
                    | _ => let (g, w) := sig_new s w in (HAuto g s, w) end in
      let (w, cs) := reg_triggers_cmds h b w in
      (handle_drop h w, cs)
  | CRegTypewide t h =>
      (match t with
       | TBroadcast ty => w <| bc_tbl := tbl_push ty h (bc_tbl w) |>
       | TAnyEntityEvent ty => w <| any_tbl := tbl_push ty h (any_tbl w) |>
       | TResource r => w <| res_tbl := tbl_push r h (res_tbl w) |>
       | TIns c => comp_push KIns c h w
       | TMut c => comp_push KMut c h w
       | TRem c => comp_push KRem c h (track_removals c w)
       | _ => handle_drop h w
       end, [])
  | CRegEntity rt e h =>
      (* register_entity_reactor (reaction_triggers_impl.rs:118-145) *)
      (if is_alive e w then
         match alookup e (ereactors w) with
         | Some l => w <| ereactors := aset e (l ++ [(rt, h)]) (ereactors w) |>
         | None => w <| ereactors ::= fun t => t ++ [(e, [(rt, h)])] |>
         end
       else handle_drop h w, [])
  | CTrackRemovals c => (track_removals c w, [])
  | CRegDespawn e h =>
      (* register_despawn_reactor (reaction_triggers_impl.rs:91-113) *)
      (if is_alive e w then
         let w := w <| desp_tbl := tbl_push e h (desp_tbl w) |> in
         if memN e (dtrackers w) then w else w <| dtrackers ::= fun l => l ++ [e] |>
       else handle_drop h w, [])
  | CRevoke (ts, s) => (revoke_all s ts w, [])
  | CCleanup cl => (run_cleanup cl w, [])
  | CXAdd x e v =>
      (* EntityReactor::add (entity_world_reactor.rs:147-164) *)
      match alookup x (p_xr P) with
      | Some (s, shape) =>
          if is_alive e w then
            (w, [CXInsertLocal x e v; CRegister (map (fun k => xshape_trigger k e) shape) s Persistent])
          else (w, [])
      | None => (w, []) end
  | CXRemove x b =>
      (* EntityReactor::remove (entity_world_reactor.rs:166-186) *)
      match alookup x (p_xr P) with
      | Some (s, _) => (w, CRevoke (b, s) :: map (fun e => CXCleanupData x s e) (unique_entities [] b))
      | None => (w, []) end
  | CXInsertLocal x e v => (if is_alive e w then w <| xlocals := aset2 x e v (xlocals w) |> else w, [])
  | CXCleanupData x s e =>
      (* cleanup_reactor_data (entity_world_reactor.rs:15-23) *)
      (if is_alive e w then
         match alookup e (ereactors w) with
         | Some l => if existsb (fun p => N.eqb (handle_sys (snd p)) s) l then w
                     else w <| xlocals := aremove2 x e (xlocals w) |>
         | None => w end
       else w, [])
  | CPoll => poll w
  (* control commands are handled by exec *)
  | CSysCmd _ | CEventCmd _ _ | CReact _ | CGC => (w, [])
  end.

(* ---------- the interpreter ---------- *)
Inductive instr :=
| IApply (c : cmd)
| IApplyList (cs : list cmd)
| IRunner (t : ent) (su : setup) (cl : cleanup)
| IRun (t : ent) (su : setup) (cl : cleanup) (idx : N)
| ICallback (t : ent) (cl : cleanup)
| IBody (t : ent) (runno captured : N) (cl : cleanup)
| IExclSteps (s run idx : N) (pending : list cmd) (l : list action)
| IDirectSteps (op idx : N) (l : list action)
| IBatches (op idx : N) (bs : list (list action))
| IReplay (t : ent) (pending kept : list buffered)
| IDiscard
| IAbort (t : ent) (su : setup) (cl : cleanup)
| IGC
| IPoll
| ITop (i : N) (o : topop).

Definition xsys_of (s : ent) : option (N * ent) :=
  match find (fun x => N.eqb (fst (snd x)) s) (p_xr P) with Some (x, (s, _)) => Some (x, s) | None => None end.

(* ----- atomic steps of the runner and of the callback, named so that invariants are stated once per step ----- *)

(* Command::apply of the five commands that enter the runner: draw a ticket, park the metadata (commands.rs:150-293) *)
Definition prepare_cmd (c : cmd) (w : world) : option (ent * setup * cleanup * world) :=
  match c with
  | CSysCmd t => Some (t, SuDefault, ClDefault, w <| g_dprep ::= fun l => l ++ [t] |>)
  | CEventCmd t d =>
      let (k, w) := fresh_ticket w in Some (t, SuSysEvent k, ClSysEvent, note_prep k t [PiSe d] (w <| tr_se ::= trk_prepare k t d |>))
  | CReact (RcResource t) => Some (t, SuDefault, ClDefault, w <| g_dprep ::= fun l => l ++ [t] |>)
  | CReact (RcEntity src rt t) =>
      let (k, w) := fresh_ticket w in Some (t, SuEntity k, ClEntity, note_prep k t [PiEr src rt] (w <| tr_er ::= trk_prepare k t (t, src, rt) |>))
  | CReact (RcDespawn src t h) =>
      let (k, w) := fresh_ticket w in Some (t, SuDespawn k, ClDespawn, note_prep k t [PiDe src] (w <| tr_de ::= trk_prepare k t (src, Some h) |>))
  | CReact (RcEntityEvent tgt d t) =>
      let (k, w) := fresh_ticket w in
      Some (t, SuEntityEvent k, ClEntityEvent,
            note_prep k t [PiEr tgt (REvent UNIT_TY); PiEv d] (w <| tr_er ::= trk_prepare k t (t, tgt, REvent UNIT_TY) |> <| tr_ev ::= trk_prepare k t d |>))
  | CReact (RcBroadcast d t) =>
      let (k, w) := fresh_ticket w in Some (t, SuBroadcast k, ClBroadcast, note_prep k t [PiEv d] (w <| tr_ev ::= trk_prepare k t d |>))
  | _ => None
  end.

Inductive lookup_res := LDead | LNoStorage | LTaken | LPresent.
Definition lookup_storage (t : ent) (w : world) : lookup_res :=
  if negb (is_alive t w) then LDead else
  match alookup t (storage w) with None => LNoStorage | Some false => LTaken | Some true => LPresent end.

Definition gc_step (e : ent) (r : list ent) (w : world) : world := despawn e (w <| gc_chan := r |>).
Definition rn_postpone (t : ent) (su : setup) (cl : cleanup) (w : world) : world :=
  emit (EvExit t (setup_ticket su)) (emit (EvPost t (setup_ticket su)) (w <| buffer ::= fun b => b ++ [mkBuf t su cl] |>)).
Definition rn_take (t : ent) (su : setup) (w : world) : world :=
  emit (EvStart t (setup_ticket su)) (w <| storage := aupd t false (storage w) |> <| counter ::= N.succ |>).
Definition rn_reinsert (t : ent) (k : N) (w : world) : world :=
  emit (EvEnd t k true) (w <| storage := aupd t true (storage w) |>).
Definition rn_dropped (t : ent) (k : N) (w : world) : world := emit (EvEnd t k false) (drop_callback t w).
Definition rn_despawn_missing (t : ent) (k : N) (w : world) : world := emit (EvEnd t k false) (despawn t (drop_callback t w)).
Definition rn_abort_cleanup (su : setup) (cl : cleanup) (w : world) : world :=
  emit (EvCleanup (setup_ticket su)) (run_cleanup cl w).
Definition rn_discard_pop (b : buffered) (rest : list buffered) (w : world) : world :=
  emit (EvDiscard (b_sys b) (setup_ticket (b_setup b))) (w <| buffer := rest |>).

Definition cb_bump (t : ent) (cb : cbrec) (once_taken : bool) (w : world) : world :=
  w <| cbs := aupd t (mkCb (cb_once cb) (cb_runno cb) (cb_captured cb) once_taken true) (cbs w) |>.
(* the taken inner closure of a `once` reactor (and its canary) is dropped when the wrapper returns *)
Definition once_finish (t : ent) (tk : token) (w : world) : world :=
  match alookup t (cbs w) with
  | Some cb' =>
      (* only a once wrapper is ever finished this way; for any other record nothing but the log line happens *)
      let once := match cb_once cb' with Some _ => true | None => false end in
      emit (EvDropSys t) (w <| cbs := aupd t (mkCb (cb_once cb') (cb_runno cb') (cb_captured cb')
                                                  (if once then true else cb_taken cb') (if once then false else cb_live cb')) (cbs w) |>
                            <| g_sdrops ::= fun l => if once && cb_live cb' then t :: l else l |>)
  | None => w end.
(* ghost assertion on the private state: the values the body is about to log are the ones stored for this system *)
Definition state_ok_b (t : ent) (runno captured : N) (w : world) : bool :=
  match alookup t (cbs w) with
  | Some cb => N.eqb (cb_runno cb) runno && N.eqb (cb_captured cb) captured
  | None => false end.
(* ... and a `once` wrapper runs its inner system only while marked taken, and only for its first run *)
Definition once_ok_b (t : ent) (w : world) : bool :=
  match alookup t (cbs w) with
  | Some cb => match cb_once cb with Some _ => cb_taken cb && N.eqb (cb_runno cb) 0 | None => true end
  | None => true end.
Definition body_guard (t : ent) (runno captured : N) (w : world) : bool :=
  fresh_claim_b t w && state_ok_b t runno captured w && once_ok_b t w.
(* how SystemCommandCallback::run marks the record: a plain callback is never marked, a once wrapper is marked when its
   inner system is taken, which requires that it was not taken before *)
Definition bump_ok (cb : cbrec) (b : bool) : bool :=
  match cb_once cb with None => negb b | Some _ => b && negb (cb_taken cb) end.
(* first statements of every harness body: sample all readers, log the run; an X body bumps its entity's local data *)
Definition is_once_rec (t : ent) (w : world) : bool :=
  match alookup t (cbs w) with Some cb => match cb_once cb with Some _ => true | None => false end | None => false end.
Definition body_sample (sd : sysdecl) (t : ent) (runno captured : N) (w : world) : world :=
  let (sm, w) := sample_readers sd (xsys_of t) w in
  let w := note_run t runno captured (is_once_rec t w) (emit (EvRun t runno captured sm) w) in
  match sm_l sm, xsys_of t with
  | Some (src, Some v), Some (x, _) => w <| xlocals := aset2 x src (v + 1) (xlocals w) |>
  | _, _ => w end.
(* the body increments its Local and the counter captured by its closure: the system's private state *)
Definition state_bump (t : ent) (w : world) : world :=
  match alookup t (cbs w) with
  | Some cb => w <| cbs := aupd t (mkCb (cb_once cb) (cb_runno cb + 1) (cb_captured cb + 1) (cb_taken cb) (cb_live cb)) (cbs w) |>
  | None => w end.
Definition body_begin (sd : sysdecl) (t : ent) (runno captured : N) (w : world) : world :=
  state_bump t (body_sample sd t runno captured w).
Definition plain_cleanup (cl : cleanup) (w : world) : world := emit (EvCleanup 0) (run_cleanup cl w).
Definition top_end (i : N) (w : world) : world := emit (EvTop i (take_snapshot all_ids w)) w.

Fixpoint exec (fuel : nat) (i : instr) (w : world) {struct fuel} : result world :=
  match fuel with
  | O => OutOfFuel
  | S f =>
    match i with
    | IApplyList [] => Ok w
    | IApplyList (c :: cs) => do w <- exec f (IApply c) w; exec f (IApplyList cs) w
    | IApply c =>
        match prepare_cmd c w with
        | Some (t, su, cl, w) => exec f (IRunner t su cl) w
        | None =>
            match c with
            | CGC => exec f IGC w
            | CSpawnSys s =>
                (* Commands::spawn = spawn_empty + insert: Bevy panics (B0003) if the reserved entity was despawned meanwhile *)
                if is_alive s w then let (w, cs) := apply_prim c w in exec f (IApplyList cs) w else Stuck 4
            | c => let (w, cs) := apply_prim c w in exec f (IApplyList cs) w
            end
        end
    | IGC =>
        (* garbage_collect_entities (auto_despawn.rs:31-37) *)
        match gc_chan w with
        | [] => Ok w
        | e :: r => exec f IGC (gc_step e r w)
        end
    | IPoll =>
        (* schedule_removal_and_despawn_reactors (utils.rs:25-32) *)
        let (w, cs) := poll w in exec f (IApplyList cs) w
    | IAbort t su cl =>
        (* cleanup_on_abort (syscommand_runner.rs:13-20) *)
        match run_setup su t w with
        | None => Stuck 1
        | Some w => do w <- exec f IGC (rn_abort_cleanup su cl w); exec f IPoll w
        end
    | IRunner t su cl =>
        (* syscommand_runner (syscommand_runner.rs:73-117): prologue and callback extraction *)
        let k := setup_ticket su in
        let idx := counter w in
        do w <- exec f IGC (emit (EvEnter t k idx) w);
        do w <- exec f IPoll w;
        match lookup_storage t w with
        | LDead => do w <- exec f (IAbort t su cl) (emit (EvAbort t k 0) w); Ok (emit (EvExit t k) w)
        | LNoStorage => do w <- exec f (IAbort t su cl) (emit (EvAbort t k 1) w); Ok (emit (EvExit t k) w)
        | LTaken =>
            if N.eqb idx 0 then do w <- exec f (IAbort t su cl) (emit (EvAbort t k 2) w); Ok (emit (EvExit t k) w)
            else Ok (rn_postpone t su cl w)
        | LPresent => exec f (IRun t su cl idx) w
        end
    | IRun t su cl idx =>
        (* syscommand_runner (syscommand_runner.rs:119-186): run, reinsert, replay, root discard *)
        let k := setup_ticket su in
        match run_setup su t (rn_take t su w) with
        | None => Stuck 2
        | Some w =>
            do w <- exec f (ICallback t cl) w;
            do w <- exec f IGC w;
            do w <- match lookup_storage t w with
                    | LDead => exec f IGC (rn_dropped t k w)
                    | LNoStorage => exec f IGC (rn_despawn_missing t k w)
                    | _ => Ok (rn_reinsert t k w)
                    end;
            do w <- exec f IPoll w;
            do w <- exec f (IReplay t (buffer w) []) (w <| buffer := [] |>);
            do w <- (if N.eqb idx 0 then do w <- exec f IDiscard w; Ok (w <| counter := 0 |>) else Ok w);
            Ok (emit (EvExit t k) w)
        end
    | IReplay t [] kept => Ok (w <| buffer ::= fun b => b ++ kept |>)
    | IReplay t (b :: pending) kept =>
        if N.eqb (b_sys b) t then
          do w <- exec f (IRunner (b_sys b) (b_setup b) (b_cleanup b)) w; exec f (IReplay t pending kept) w
        else exec f (IReplay t pending (kept ++ [b])) w
    | IDiscard =>
        match buffer w with
        | [] => Ok w
        | b :: rest =>
            do w <- exec f (IAbort (b_sys b) (b_setup b) (b_cleanup b)) (rn_discard_pop b rest w); exec f IDiscard w
        end
    | ICallback t cl =>
        (* SystemCommandCallback::run: the harness body, or the `once` wrapper around it (react_commands.rs:331-345) *)
        match alookup t (cbs w) with
        | Some cb =>
            match cb_once cb with
            | None => exec f (IBody t (cb_runno cb) (cb_captured cb) cl) (cb_bump t cb false w)
            | Some tk =>
                if cb_taken cb then Ok w
                else
                  do w <- exec f (IBody t (cb_runno cb) (cb_captured cb) cl) (cb_bump t cb true w);
                  (* despawn own entity, then world.react(|rc| rc.revoke(token)) *)
                  do w <- exec f (IApplyList [CRevoke tk]) (despawn t w);
                  Ok (once_finish t tk w)
            end
        | None => Stuck 3
        end
    | IBody t runno captured cl =>
        (* run_initialized_system (callbacks.rs:207-239) around the harness body *)
        (* an undeclared system id gets the default declaration (plain, unit, does not take), as in the harness *)
        let sd := sys_or_default t in
        (* ghost assertions (Stuck 5): what the readers expose is exactly what this run's own setup claimed, and the
           state values the body logs are the ones stored for this system *)
        if negb (body_guard t runno captured w) then Stuck 5 else
        let w := body_begin sd t runno captured w in
        match sd_kind sd with
        | Plain =>
            let (w, cs) := acts (OSys t runno) 0 (script_of t runno) w in
            exec f (IApplyList cs) (plain_cleanup cl w)
        | Excl => exec f (IExclSteps t runno 0 [CCleanup cl] (script_of t runno)) w
        end
    | IExclSteps s run idx pending [] => exec f (IApplyList pending) w
    | IExclSteps s run idx pending (a :: r) =>
        let (w, cs) := act (OSys s run idx) a w in
        do w <- exec f (IApplyList (pending ++ cs)) w;
        exec f (IExclSteps s run (idx + 1) [] r) w
    | IDirectSteps op idx [] => Ok w
    | IDirectSteps op idx (a :: r) =>
        let (w, cs) := act (OTop op idx) a w in
        do w <- exec f (IApplyList cs) w;
        exec f (IDirectSteps op (idx + 1) r) w
    | IBatches op idx [] => Ok w
    | IBatches op idx (b :: r) =>
        let (w, cs) := acts (OTop op) idx b w in
        do w <- exec f (IApplyList cs) w;
        exec f (IBatches op (idx + len b) r) w
    | ITop i o =>
        do w <-
          match o with
          | TFlush l => let (w, cs) := acts (OTop i) 0 l w in exec f (IApplyList cs) w
          | TDirect l => exec f (IDirectSteps i 0 l) w
          | TFrame bs =>
              do w <- exec f (IBatches i 0 bs) w;
              do w <- exec f IGC w;
              do w <- exec f IPoll w;
              Ok (clear_trackers w)
          end;
        Ok (top_end i w)
    end
  end.

Fixpoint run_tops (fuel : nat) (i : N) (l : list topop) (w : world) : result world :=
  match l with
  | [] => Ok w
  | o :: r => do w <- exec fuel (ITop i o) w; run_tops fuel (i + 1) r w
  end.

(* world/entity-world reactor systems exist from the start (App::add_world_reactor) *)
Definition install_static (w : world) : world :=
  fold_left (fun w s => (reserve s w) <| storage ::= aset s true |> <| cbs ::= aset s (mkCb None 0 0 false true) |> <| spawned ::= cons s |>)
            (map snd (p_wr P) ++ map (fun x => fst (snd x)) (p_xr P)) w.

Definition run (fuel : nat) : result world := run_tops fuel 0 (p_top P) (install_static init_world).

End WithProgram.
