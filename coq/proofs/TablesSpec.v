(* TablesSpec.v — the registration tables refine an abstract list of (trigger, handle) registrations; dispatch
   returns exactly the matching registrations (C01); revocation removes exactly the named ones (C06). *)
From Cobweb Require Import Machine.
From CobwebProofs Require Import ListLemmas Closed.

(* ---------- what a trigger application carries ---------- *)
Inductive tkey :=
| KBroadcast (ty : N) | KEntityEvent (ty : N) (e : ent) | KResource (r : N)
| KInsertion (c : N) (e : ent) | KMutation (c : N) (e : ent) | KRemoval (c : N) (e : ent) | KDespawn (e : ent).

(* does a registration (named by its trigger) match a trigger application? *)
Definition matches (t : trigger) (k : tkey) : bool :=
  match t, k with
  | TBroadcast ty, KBroadcast ty' => N.eqb ty' ty
  | TEntityEvent ty e, KEntityEvent ty' e' => N.eqb e' e && N.eqb ty' ty
  | TAnyEntityEvent ty, KEntityEvent ty' _ => N.eqb ty' ty
  | TResource r, KResource r' => N.eqb r' r
  | TIns c, KInsertion c' _ => N.eqb c' c
  | TEIns c e, KInsertion c' e' => N.eqb e' e && N.eqb c' c
  | TMut c, KMutation c' _ => N.eqb c' c
  | TEMut c e, KMutation c' e' => N.eqb e' e && N.eqb c' c
  | TRem c, KRemoval c' _ => N.eqb c' c
  | TERem c e, KRemoval c' e' => N.eqb e' e && N.eqb c' c
  | TDespawn e, KDespawn e' => N.eqb e' e
  | _, _ => false
  end.

(* ---------- abstraction: every live registration, as (trigger, handle), in dispatch order ---------- *)
Definition er_trigger (e : ent) (rt : ertype) : trigger :=
  match rt with RIns c => TEIns c e | RMut c => TEMut c e | RRem c => TERem c e | REvent ty => TEntityEvent ty e end.
Definition er_entries (kv : N * list (ertype * handle)) : list (trigger * handle) :=
  map (fun p => (er_trigger (fst kv) (fst p), snd p)) (snd kv).
Definition tbl_entries (T : N -> trigger) (kv : N * list handle) : list (trigger * handle) :=
  map (pair (T (fst kv))) (snd kv).
Definition comp_entries_of (kv : N * (list handle * list handle * list handle)) : list (trigger * handle) :=
  let '(i, m, r) := snd kv in
  map (pair (TIns (fst kv))) i ++ map (pair (TMut (fst kv))) m ++ map (pair (TRem (fst kv))) r.

Definition regs_entity (w : world) := flat_map er_entries (ereactors w).
Definition regs_comp (w : world) := flat_map comp_entries_of (comp_tbl w).
Definition regs_desp (w : world) := flat_map (tbl_entries TDespawn) (desp_tbl w).
Definition regs_any (w : world) := flat_map (tbl_entries TAnyEntityEvent) (any_tbl w).
Definition regs_res (w : world) := flat_map (tbl_entries TResource) (res_tbl w).
Definition regs_bc (w : world) := flat_map (tbl_entries TBroadcast) (bc_tbl w).

Definition regs (w : world) : list (trigger * handle) :=
  regs_entity w ++ regs_comp w ++ regs_desp w ++ regs_any w ++ regs_res w ++ regs_bc w.

(* the specification of dispatch: one target per matching registration *)
Definition sel (k : tkey) (l : list (trigger * handle)) := filter (fun x => matches (fst x) k) l.
Definition spec_targets (k : tkey) (w : world) : list ent := map (fun x => handle_sys (snd x)) (sel k (regs w)).

(* ---------- well-formedness of the tables (hash maps have distinct keys; components live on live entities) ---------- *)
Record wf_tables (w : world) : Prop := {
  wf_er : NoDup (map fst (ereactors w));
  wf_er_alive : forall e, In e (map fst (ereactors w)) -> is_alive e w = true;
  wf_comp : NoDup (map fst (comp_tbl w));
  wf_desp : NoDup (map fst (desp_tbl w));
  wf_any : NoDup (map fst (any_tbl w));
  wf_res : NoDup (map fst (res_tbl w));
  wf_bc : NoDup (map fst (bc_tbl w));
}.

(* ---------- selection lemmas ---------- *)
Lemma sel_app k l1 l2 : sel k (l1 ++ l2) = sel k l1 ++ sel k l2.
Proof. apply filter_app. Qed.

Lemma filter_none {A} (p : A -> bool) l : (forall x, In x l -> p x = false) -> filter p l = [].
Proof.
  induction l as [|x l IH]; cbn; [reflexivity|]. intros H. rewrite (H x) by (left; reflexivity).
  apply IH. intros y Hy. apply H. right. exact Hy.
Qed.
Lemma filter_all {A} (p : A -> bool) l : (forall x, In x l -> p x = true) -> filter p l = l.
Proof.
  induction l as [|x l IH]; cbn; [reflexivity|]. intros H. rewrite (H x) by (left; reflexivity).
  f_equal. apply IH. intros y Hy. apply H. right. exact Hy.
Qed.

Lemma sel_none_flat {A} (f : A -> list (trigger * handle)) k l :
  (forall a x, In x (f a) -> matches (fst x) k = false) -> sel k (flat_map f l) = [].
Proof.
  intros H. unfold sel. apply filter_none. intros x Hx. apply in_flat_map in Hx. destruct Hx as (a & _ & Hx). eapply H; eauto.
Qed.

(* a type-wide table whose registrations match exactly on one key *)
Lemma sel_tbl (T : N -> trigger) k kk tbl :
  (forall k0, matches (T k0) k = N.eqb kk k0) -> NoDup (map fst tbl) ->
  sel k (flat_map (tbl_entries T) tbl) = map (pair (T kk)) (tbl_get kk tbl).
Proof.
  intros HT Hd. unfold tbl_get.
  induction tbl as [|[k0 v0] tbl IH]; [reflexivity|]. cbn [flat_map alookup map fst] in *.
  inversion Hd as [|? ? Hn Hd']; subst.
  rewrite sel_app, (IH Hd'). unfold sel at 1. unfold tbl_entries at 1. cbn [fst snd].
  destruct (N.eqb_spec kk k0) as [->|Hne].
  - rewrite (proj2 (alookup_None k0 tbl)) by exact Hn. cbn. rewrite app_nil_r.
    apply filter_all. intros x Hx. apply in_map_iff in Hx. destruct Hx as (h & <- & _). cbn. rewrite HT. apply N.eqb_refl.
  - rewrite filter_none; [reflexivity|]. intros x Hx. apply in_map_iff in Hx. destruct Hx as (h & <- & _). cbn. rewrite HT.
    destruct (N.eqb_spec kk k0); [congruence|reflexivity].
Qed.

Lemma map_sys_pair (t : trigger) (l : list handle) : map (fun x => handle_sys (snd x)) (map (pair t) l) = map handle_sys l.
Proof. rewrite map_map. reflexivity. Qed.

(* the per-entity table *)
Lemma sel_er_entries k e rt l :
  (forall e0 rt0, matches (er_trigger e0 rt0) k = N.eqb e e0 && ertype_eqb rt0 rt) ->
  map (fun x => handle_sys (snd x)) (sel k (er_entries (e, l))) = er_targets rt l.
Proof.
  intros HM. unfold er_entries, sel. cbn [fst snd].
  induction l as [|[rt0 h] l IH]; cbn; [reflexivity|].
  rewrite HM, N.eqb_refl. cbn [andb]. destruct (ertype_eqb rt0 rt); cbn; [f_equal|]; exact IH.
Qed.
Lemma sel_er_entries_other k e e0 rt l :
  (forall e1 rt0, matches (er_trigger e1 rt0) k = N.eqb e e1 && ertype_eqb rt0 rt) -> e <> e0 ->
  sel k (er_entries (e0, l)) = [].
Proof.
  intros HM Hn. unfold sel, er_entries. apply filter_none. intros x Hx.
  apply in_map_iff in Hx. destruct Hx as ([rt0 h] & <- & _). cbn. rewrite HM.
  destruct (N.eqb_spec e e0); [congruence|reflexivity].
Qed.

Lemma sel_entity k e rt w :
  (forall e0 rt0, matches (er_trigger e0 rt0) k = N.eqb e e0 && ertype_eqb rt0 rt) -> wf_tables w ->
  map (fun x => handle_sys (snd x)) (sel k (regs_entity w)) = entity_targets e rt w.
Proof.
  intros HM Hwf. unfold entity_targets, regs_entity.
  assert (Hgen : forall tbl, NoDup (map fst tbl) ->
            map (fun x => handle_sys (snd x)) (sel k (flat_map er_entries tbl))
            = match alookup e tbl with Some l => er_targets rt l | None => [] end).
  { induction tbl as [|[e0 l0] tbl IH]; [reflexivity|]. cbn [flat_map alookup map fst]. intros Hd. inversion Hd as [|? ? Hn Hd']; subst.
    rewrite sel_app, map_app, (IH Hd').
    destruct (N.eqb_spec e e0) as [->|Hne].
    - rewrite (sel_er_entries k e0 rt l0 HM). rewrite (proj2 (alookup_None e0 tbl)) by exact Hn. apply app_nil_r.
    - rewrite (sel_er_entries_other k e e0 rt l0 HM Hne). reflexivity. }
  rewrite (Hgen _ (wf_er w Hwf)).
  destruct (alookup e (ereactors w)) as [l|] eqn:E.
  - rewrite (wf_er_alive w Hwf e) by (eapply alookup_Some_key; eauto). reflexivity.
  - destruct (is_alive e w); reflexivity.
Qed.

Lemma sel_entity_none k w :
  (forall e0 rt0, matches (er_trigger e0 rt0) k = false) -> sel k (regs_entity w) = [].
Proof.
  intros HM. apply sel_none_flat. intros [e0 l] x Hx. unfold er_entries in Hx. cbn [fst snd] in Hx.
  apply in_map_iff in Hx. destruct Hx as ([rt0 h] & <- & _). cbn. apply HM.
Qed.

Lemma sel_tbl_none (T : N -> trigger) k tbl :
  (forall k0, matches (T k0) k = false) -> sel k (flat_map (tbl_entries T) tbl) = [].
Proof.
  intros HM. apply sel_none_flat. intros [k0 l] x Hx. unfold tbl_entries in Hx. cbn [fst snd] in Hx.
  apply in_map_iff in Hx. destruct Hx as (h & <- & _). cbn. apply HM.
Qed.

(* the component table: three lists per component type *)
Lemma sel_comp k kind c w :
  (forall c0, matches (TIns c0) k = match kind with KIns => N.eqb c c0 | _ => false end) ->
  (forall c0, matches (TMut c0) k = match kind with KMut => N.eqb c c0 | _ => false end) ->
  (forall c0, matches (TRem c0) k = match kind with KRem => N.eqb c c0 | _ => false end) ->
  wf_tables w ->
  map (fun x => handle_sys (snd x)) (sel k (regs_comp w)) = map handle_sys (comp_get kind c w).
Proof.
  intros HI HMu HR Hwf. unfold regs_comp, comp_get.
  pose proof (wf_comp w Hwf) as Hd. revert Hd.
  induction (comp_tbl w) as [|[c0 [[i m] r]] tbl IH]; [destruct kind; reflexivity|]. cbn [flat_map alookup map fst]. intros Hd. inversion Hd as [|? ? Hn Hd']; subst.
  rewrite sel_app, map_app, (IH Hd'). unfold comp_entries_of. cbn [fst snd].
  rewrite !sel_app, !map_app.
  assert (Hsel : forall (T : N -> trigger) (l : list handle) (b : bool), matches (T c0) k = b ->
            map (fun x => handle_sys (snd x)) (sel k (map (pair (T c0)) l)) = if b then map handle_sys l else []).
  { intros T l b Hb. unfold sel. destruct b.
    - rewrite filter_all; [apply map_sys_pair|]. intros x Hx. apply in_map_iff in Hx. destruct Hx as (h & <- & _). exact Hb.
    - rewrite filter_none; [reflexivity|]. intros x Hx. apply in_map_iff in Hx. destruct Hx as (h & <- & _). exact Hb. }
  rewrite (Hsel TIns i _ (HI c0)), (Hsel TMut m _ (HMu c0)), (Hsel TRem r _ (HR c0)).
  destruct (N.eqb_spec c c0) as [->|Hne].
  - rewrite (proj2 (alookup_None c0 tbl)) by exact Hn. destruct kind; cbn; rewrite ?app_nil_r; reflexivity.
  - destruct kind; cbn; reflexivity.
Qed.
Lemma sel_comp_none k w :
  (forall c0, matches (TIns c0) k = false) -> (forall c0, matches (TMut c0) k = false) -> (forall c0, matches (TRem c0) k = false) ->
  sel k (regs_comp w) = [].
Proof.
  intros HI HM HR. apply sel_none_flat. intros [c0 [[i m] r]] x Hx. unfold comp_entries_of in Hx. cbn [fst snd] in Hx.
  rewrite !in_app_iff in Hx. destruct Hx as [Hx|[Hx|Hx]]; apply in_map_iff in Hx; destruct Hx as (h & <- & _); cbn [fst]; auto.
Qed.

Ltac solve_matches := intros; cbn; rewrite ?andb_false_r; try reflexivity;
  repeat match goal with |- context [N.eqb ?a ?b] => destruct (N.eqb_spec a b); subst end; cbn; try congruence; try reflexivity.

(* ---------- C01: dispatch is exact, for every well-formed state ---------- *)
Theorem dispatch_broadcast w ty : wf_tables w ->
  map handle_sys (tbl_get ty (bc_tbl w)) = spec_targets (KBroadcast ty) w.
Proof.
  intros Hwf. unfold spec_targets, regs. rewrite !sel_app, !map_app.
  rewrite sel_entity_none by (intros e0 [] ; reflexivity).
  rewrite sel_comp_none by reflexivity.
  unfold regs_desp, regs_any, regs_res, regs_bc.
  rewrite (sel_tbl_none TDespawn), (sel_tbl_none TAnyEntityEvent), (sel_tbl_none TResource) by reflexivity.
  rewrite (sel_tbl TBroadcast _ ty) by (try reflexivity; apply (wf_bc w Hwf)).
  cbn [app map]. apply eq_sym, map_sys_pair.
Qed.

Theorem dispatch_resource w r : wf_tables w ->
  map handle_sys (tbl_get r (res_tbl w)) = spec_targets (KResource r) w.
Proof.
  intros Hwf. unfold spec_targets, regs. rewrite !sel_app, !map_app.
  rewrite sel_entity_none by (intros e0 [] ; reflexivity).
  rewrite sel_comp_none by reflexivity.
  unfold regs_desp, regs_any, regs_res, regs_bc.
  rewrite (sel_tbl_none TDespawn), (sel_tbl_none TAnyEntityEvent), (sel_tbl_none TBroadcast) by reflexivity.
  rewrite (sel_tbl TResource _ r) by (try reflexivity; apply (wf_res w Hwf)).
  cbn [app map]. rewrite app_nil_r. apply eq_sym, map_sys_pair.
Qed.

Theorem dispatch_entity_event w ty e : wf_tables w ->
  entity_targets e (REvent ty) w ++ map handle_sys (tbl_get ty (any_tbl w)) = spec_targets (KEntityEvent ty e) w.
Proof.
  intros Hwf. unfold spec_targets, regs. rewrite !sel_app, !map_app.
  rewrite (sel_entity _ e (REvent ty)) by (try exact Hwf; intros e0 []; solve_matches).
  rewrite sel_comp_none by reflexivity.
  unfold regs_desp, regs_any, regs_res, regs_bc.
  rewrite (sel_tbl_none TDespawn), (sel_tbl_none TResource), (sel_tbl_none TBroadcast) by reflexivity.
  rewrite (sel_tbl TAnyEntityEvent _ ty) by (try reflexivity; apply (wf_any w Hwf)).
  cbn [app map]. rewrite !app_nil_r. f_equal. apply eq_sym, map_sys_pair.
Qed.

Theorem dispatch_insertion w c e : wf_tables w ->
  entity_targets e (RIns c) w ++ map handle_sys (comp_get KIns c w) = spec_targets (KInsertion c e) w.
Proof.
  intros Hwf. unfold spec_targets, regs. rewrite !sel_app, !map_app.
  rewrite (sel_entity _ e (RIns c)) by (try exact Hwf; intros e0 []; solve_matches).
  rewrite (sel_comp _ KIns c) by (try exact Hwf; reflexivity).
  unfold regs_desp, regs_any, regs_res, regs_bc.
  rewrite (sel_tbl_none TDespawn), (sel_tbl_none TAnyEntityEvent), (sel_tbl_none TResource), (sel_tbl_none TBroadcast) by reflexivity.
  cbn [app map]. rewrite !app_nil_r. reflexivity.
Qed.

Theorem dispatch_mutation w c e : wf_tables w ->
  entity_targets e (RMut c) w ++ map handle_sys (comp_get KMut c w) = spec_targets (KMutation c e) w.
Proof.
  intros Hwf. unfold spec_targets, regs. rewrite !sel_app, !map_app.
  rewrite (sel_entity _ e (RMut c)) by (try exact Hwf; intros e0 []; solve_matches).
  rewrite (sel_comp _ KMut c) by (try exact Hwf; reflexivity).
  unfold regs_desp, regs_any, regs_res, regs_bc.
  rewrite (sel_tbl_none TDespawn), (sel_tbl_none TAnyEntityEvent), (sel_tbl_none TResource), (sel_tbl_none TBroadcast) by reflexivity.
  cbn [app map]. rewrite !app_nil_r. reflexivity.
Qed.

Theorem dispatch_removal w c e : wf_tables w ->
  entity_targets e (RRem c) w ++ map handle_sys (comp_get KRem c w) = spec_targets (KRemoval c e) w.
Proof.
  intros Hwf. unfold spec_targets, regs. rewrite !sel_app, !map_app.
  rewrite (sel_entity _ e (RRem c)) by (try exact Hwf; intros e0 []; solve_matches).
  rewrite (sel_comp _ KRem c) by (try exact Hwf; reflexivity).
  unfold regs_desp, regs_any, regs_res, regs_bc.
  rewrite (sel_tbl_none TDespawn), (sel_tbl_none TAnyEntityEvent), (sel_tbl_none TResource), (sel_tbl_none TBroadcast) by reflexivity.
  cbn [app map]. rewrite !app_nil_r. reflexivity.
Qed.

Theorem dispatch_despawn w e : wf_tables w ->
  map handle_sys (tbl_get e (desp_tbl w)) = spec_targets (KDespawn e) w.
Proof.
  intros Hwf. unfold spec_targets, regs. rewrite !sel_app, !map_app.
  rewrite sel_entity_none by (intros e0 [] ; reflexivity).
  rewrite sel_comp_none by reflexivity.
  unfold regs_desp, regs_any, regs_res, regs_bc.
  rewrite (sel_tbl_none TAnyEntityEvent), (sel_tbl_none TResource), (sel_tbl_none TBroadcast) by reflexivity.
  rewrite (sel_tbl TDespawn _ e) by (try reflexivity; apply (wf_desp w Hwf)).
  cbn [app map]. rewrite !app_nil_r. apply eq_sym, map_sys_pair.
Qed.

(* ---------- wf_tables holds in every reachable state ---------- *)
Definition tview (w : world) := (ereactors w, comp_tbl w, desp_tbl w, any_tbl w, res_tbl w, bc_tbl w).

Lemma wf_frame w w' : tview w' = tview w -> (forall e, is_alive e w = true -> is_alive e w' = true) -> wf_tables w -> wf_tables w'.
Proof.
  unfold tview. intros HV HA [H1 H2 H3 H4 H5 H6 H7]. inversion HV as [[E1 E2 E3 E4 E5 E6]].
  constructor; rewrite ?E1, ?E2, ?E3, ?E4, ?E5, ?E6; auto.
Qed.
Lemma wf_frame_eq w w' : tview w' = tview w -> alive w' = alive w -> wf_tables w -> wf_tables w'.
Proof. intros HV HA. apply wf_frame; [exact HV|]. intros e. unfold is_alive. now rewrite HA. Qed.

Lemma is_alive_emit e x w : is_alive e (emit x w) = is_alive e w. Proof. reflexivity. Qed.

Lemma handle_drop_view h w : tview (handle_drop h w) = tview w /\ alive (handle_drop h w) = alive w.
Proof.
  destruct h as [s|g s]; cbn; [split; reflexivity|]. unfold sig_drop.
  destruct (alookup g (sigs w)) as [[e n]|]; [|split; reflexivity]. destruct (N.leb n 1); split; reflexivity.
Qed.
Lemma handle_clone_view h w : tview (handle_clone h w) = tview w /\ alive (handle_clone h w) = alive w.
Proof.
  destruct h as [s|g s]; cbn; [split; reflexivity|]. unfold sig_clone.
  destruct (alookup g (sigs w)) as [[e n]|]; split; reflexivity.
Qed.
Lemma handles_drop_view hs : forall w, tview (handles_drop hs w) = tview w /\ alive (handles_drop hs w) = alive w.
Proof.
  induction hs as [|h hs IH]; intros w; cbn; [split; reflexivity|].
  destruct (IH (handle_drop h w)) as [H1 H2]. destruct (handle_drop_view h w) as [H3 H4].
  split; congruence.
Qed.

Lemma wf_handle_drop h w : wf_tables w -> wf_tables (handle_drop h w).
Proof. destruct (handle_drop_view h w). apply wf_frame_eq; assumption. Qed.
Lemma wf_handle_clone h w : wf_tables w -> wf_tables (handle_clone h w).
Proof. destruct (handle_clone_view h w). apply wf_frame_eq; assumption. Qed.
Lemma wf_handles_drop hs w : wf_tables w -> wf_tables (handles_drop hs w).
Proof. destruct (handles_drop_view hs w). apply wf_frame_eq; assumption. Qed.

Lemma push_removed_all_view cs e : forall w, tview (push_removed_all cs e w) = tview w /\ alive (push_removed_all cs e w) = alive w.
Proof. induction cs as [|c cs IH]; intros w; cbn; [split; reflexivity|]. destruct (IH (push_removed c e w)) as [H1 H2]. split; [rewrite H1|rewrite H2]; reflexivity. Qed.

Lemma drop_callback_view t w : tview (drop_callback t w) = tview w /\ alive (drop_callback t w) = alive w.
Proof. unfold drop_callback. destruct (alookup t (cbs w)) as [cb|]; [destruct (cb_live cb)|]; split; reflexivity. Qed.
Lemma drop_ddata_view d w : tview (drop_ddata d w) = tview w /\ alive (drop_ddata d w) = alive w.
Proof. destruct d as [? ? ?|? ? ? ?|? [?|]]; split; reflexivity. Qed.

(* despawn: the entity leaves `alive` and its EntityReactors component goes with it *)
Lemma wf_despawn e w : wf_tables w -> wf_tables (despawn e w).
Proof.
  intros Hwf. unfold despawn. destruct (is_alive e w) eqn:EA; cbn [negb]; [|exact Hwf].
  set (w1 := dsp_storage e (dsp_comps e (dsp_alive e w))).
  assert (H1 : tview w1 = tview w /\ alive w1 = removeN e (alive w)).
  { subst w1. unfold dsp_storage, dsp_comps.
    set (wa := push_removed_all _ e (dsp_alive e w) <| comps ::= comps_without e |>).
    assert (Ha : tview wa = tview w /\ alive wa = removeN e (alive w)).
    { subst wa. destruct (push_removed_all_view (comps_of e (comps (dsp_alive e w))) e (dsp_alive e w)) as [Hv Hal].
      split; [exact Hv|exact Hal]. }
    destruct (alookup e (storage wa)) as [[|]|]; try exact Ha.
    destruct (drop_callback_view e wa) as [Hv Hal]. destruct Ha as [Ha1 Ha2]. split; [exact (eq_trans Hv Ha1)|exact (eq_trans Hal Ha2)]. }
  assert (H2 : wf_tables (dsp_ereactors e w1)).
  { unfold dsp_ereactors.
    set (w2 := match alookup e (ereactors w1) with Some l => handles_drop (map snd l) w1 | None => w1 end).
    assert (Hw2 : tview w2 = tview w /\ alive w2 = removeN e (alive w)).
    { subst w2. destruct (alookup e (ereactors w1)) as [l|]; [|exact H1].
      destruct (handles_drop_view (map snd l) w1) as [Hv Hal]. destruct H1 as [Ha1 Ha2]. split; [exact (eq_trans Hv Ha1)|exact (eq_trans Hal Ha2)]. }
    destruct Hw2 as [Hv Hal]. unfold tview in Hv. inversion Hv as [[E1 E2 E3 E4 E5 E6]].
    destruct Hwf as [W1 W2 W3 W4 W5 W6 W7].
    constructor; cbn; rewrite ?E1, ?E2, ?E3, ?E4, ?E5, ?E6; auto.
    - apply aremove_NoDup. exact W1.
    - intros e0 Hin. apply aremove_keys in Hin. destruct Hin as [Hin Hne].
      unfold is_alive. cbn. rewrite Hal. rewrite memN_removeN_other by exact Hne. apply W2. exact Hin. }
  set (w3 := dsp_ereactors e w1) in *.
  assert (H3 : wf_tables (dsp_tracker e w3)).
  { unfold dsp_tracker. destruct (memN e (dtrackers w3)); [|exact H2]. eapply wf_frame_eq; [| |exact H2]; reflexivity. }
  set (w4 := dsp_tracker e w3) in *.
  assert (H4 : wf_tables (dsp_data e w4)).
  { unfold dsp_data. destruct (alookup e (dataents w4)) as [d|].
    - destruct (drop_ddata_view d w4) as [Hv Hal]. eapply wf_frame_eq; [| |exact H3]; [exact Hv|exact Hal].
    - eapply wf_frame_eq; [| |exact H3]; reflexivity. }
  eapply wf_frame_eq; [| |exact H4]; reflexivity.
Qed.

(* ---------- every atomic step preserves wf_tables ---------- *)
Ltac frame_eq H := eapply wf_frame_eq; [| |exact H]; reflexivity.

Lemma wf_alive_grow w w' x : tview w' = tview w -> alive w' = alive w ++ [x] -> wf_tables w -> wf_tables w'.
Proof.
  intros HV HA. apply wf_frame; [exact HV|]. intros e. unfold is_alive. rewrite HA, memN_app. intros ->. reflexivity.
Qed.

Lemma tbl_push_NoDup k h t : NoDup (map fst t) -> NoDup (map fst (tbl_push k h t)).
Proof.
  intros Hd. unfold tbl_push. destruct (alookup k t) as [l|] eqn:E.
  - apply aset_NoDup. exact Hd.
  - rewrite map_app. cbn. apply NoDup_snoc; [apply alookup_None; exact E|exact Hd].
Qed.
Lemma tbl_revoke_NoDup k s t : NoDup (map fst t) -> NoDup (map fst (snd (tbl_revoke k s t))).
Proof.
  intros Hd. unfold tbl_revoke. destruct (alookup k t) as [l|]; [|exact Hd].
  destruct (remove_first s l) as [o l']. cbn [snd]. destruct l'; [apply aremove_NoDup|apply aset_NoDup]; exact Hd.
Qed.

Lemma wf_comp_push kd c h w : wf_tables w -> wf_tables (comp_push kd c h w).
Proof.
  intros Hwf. unfold comp_push.
  destruct (alookup c (comp_tbl w)) as [[[i m] r]|] eqn:E.
  - destruct Hwf as [W1 W2 W3 W4 W5 W6 W7]. constructor; cbn; auto. apply aset_NoDup. exact W3.
  - destruct Hwf as [W1 W2 W3 W4 W5 W6 W7]. constructor; cbn; auto. rewrite map_app. cbn.
    apply NoDup_snoc; [apply alookup_None; exact E|exact W3].
Qed.
Lemma wf_comp_revoke kd c s w : wf_tables w -> wf_tables (comp_revoke kd c s w).
Proof.
  intros Hwf. unfold comp_revoke. destruct (alookup c (comp_tbl w)) as [[[i m] r]|] eqn:E; [|exact Hwf].
  destruct (remove_first s (match kd with KIns => i | KMut => m | KRem => r end)) as [o l'].
  set (x := match kd with KIns => (l', m, r) | KMut => (i, l', r) | KRem => (i, m, l') end).
  destruct x as [[i' m'] r'].
  assert (H : wf_tables (match i', m', r' with
               | [], [], [] => w <| comp_tbl := aremove c (comp_tbl w) |>
               | _, _, _ => w <| comp_tbl := aset c (i', m', r') (comp_tbl w) |> end)).
  { destruct Hwf as [W1 W2 W3 W4 W5 W6 W7].
    destruct i'; [destruct m'; [destruct r'|]|]; constructor; cbn; auto; try (apply aremove_NoDup; exact W3); apply aset_NoDup; exact W3. }
  destruct o as [h|]; [apply wf_handle_drop|]; exact H.
Qed.

Lemma wf_track_removals c w : wf_tables w -> wf_tables (track_removals c w).
Proof. intros H. unfold track_removals. destruct (ahas c (removal_checkers w)); [exact H|frame_eq H]. Qed.

Lemma wf_revoke_one s t w : wf_tables w -> wf_tables (revoke_one s t w).
Proof.
  intros Hwf.
  assert (Hent : forall e rt, wf_tables (if is_alive e w then
             match alookup e (ereactors w) with
             | Some l => let (d, k) := er_remove rt s l in handles_drop d (w <| ereactors := aset e k (ereactors w) |>)
             | None => w end else w)).
  { intros e rt. destruct (is_alive e w); [|exact Hwf]. destruct (alookup e (ereactors w)) as [l|] eqn:E; [|exact Hwf].
    destruct (er_remove rt s l) as [d k]. apply wf_handles_drop.
    destruct Hwf as [W1 W2 W3 W4 W5 W6 W7]. constructor; cbn; auto.
    - apply aset_NoDup. exact W1.
    - intros e0 Hin. rewrite aset_keys_present in Hin by (eapply alookup_Some_key; eauto). apply W2 in Hin. exact Hin. }
  destruct t; cbn [revoke_one]; try apply Hent; try apply wf_comp_revoke; try exact Hwf.
  - destruct (tbl_revoke ty s (bc_tbl w)) as [o t'] eqn:E.
    assert (H : wf_tables (w <| bc_tbl := t' |>)).
    { pose proof (tbl_revoke_NoDup ty s (bc_tbl w)) as Hn. rewrite E in Hn. destruct Hwf as [W1 W2 W3 W4 W5 W6 W7]. constructor; cbn; auto. }
    destruct o; [apply wf_handle_drop|]; exact H.
  - destruct (tbl_revoke ty s (any_tbl w)) as [o t'] eqn:E.
    assert (H : wf_tables (w <| any_tbl := t' |>)).
    { pose proof (tbl_revoke_NoDup ty s (any_tbl w)) as Hn. rewrite E in Hn. destruct Hwf as [W1 W2 W3 W4 W5 W6 W7]. constructor; cbn; auto. }
    destruct o; [apply wf_handle_drop|]; exact H.
  - destruct (tbl_revoke r s (res_tbl w)) as [o t'] eqn:E.
    assert (H : wf_tables (w <| res_tbl := t' |>)).
    { pose proof (tbl_revoke_NoDup r s (res_tbl w)) as Hn. rewrite E in Hn. destruct Hwf as [W1 W2 W3 W4 W5 W6 W7]. constructor; cbn; auto. }
    destruct o; [apply wf_handle_drop|]; exact H.
  - destruct (tbl_revoke e s (desp_tbl w)) as [o t'] eqn:E.
    assert (H : wf_tables (w <| desp_tbl := t' |>)).
    { pose proof (tbl_revoke_NoDup e s (desp_tbl w)) as Hn. rewrite E in Hn. destruct Hwf as [W1 W2 W3 W4 W5 W6 W7]. constructor; cbn; auto. }
    destruct o; [apply wf_handle_drop|]; exact H.
Qed.
Lemma wf_revoke_all s ts : forall w, wf_tables w -> wf_tables (revoke_all s ts w).
Proof. induction ts as [|t ts IH]; intros w H; cbn; [exact H|]. apply IH. apply wf_revoke_one. exact H. Qed.

Lemma wf_reg_triggers_cmds h ts : forall w, wf_tables w -> wf_tables (fst (reg_triggers_cmds h ts w)).
Proof.
  induction ts as [|t ts IH]; intros w H; cbn [reg_triggers_cmds]; [exact H|].
  destruct (reg_trigger_cmds h t w) as [w1 c1] eqn:E1.
  destruct (reg_triggers_cmds h ts w1) as [w2 c2] eqn:E2. cbn [fst].
  assert (H1 : wf_tables w1).
  { destruct t; cbn in E1; try (inversion E1; subst; apply wf_handle_clone; exact H).
    destruct (is_alive e w); inversion E1; subst; [apply wf_handle_clone|]; exact H. }
  specialize (IH w1 H1). rewrite E2 in IH. exact IH.
Qed.

Lemma wf_try_cleanup d w : wf_tables w -> wf_tables (try_cleanup_data_entity d w).
Proof.
  intros H. unfold try_cleanup_data_entity. destruct (negb (is_alive d w)); [exact H|].
  destruct (alookup d (dataents w)) as [[ty p cnt|ty t p cnt|ty p]|]; try exact H.
  - match goal with |- wf_tables (if ?b then despawn d ?w1 else ?w1) => assert (H1 : wf_tables w1) by (frame_eq H); destruct b; [apply wf_despawn|]; exact H1 end.
  - match goal with |- wf_tables (if ?b then despawn d ?w1 else ?w1) => assert (H1 : wf_tables w1) by (frame_eq H); destruct b; [apply wf_despawn|]; exact H1 end.
Qed.

Lemma wf_run_cleanup cl w : wf_tables w -> wf_tables (run_cleanup cl w).
Proof.
  intros H. destruct cl; cbn [run_cleanup]; try exact H.
  - apply wf_despawn. frame_eq H.
  - frame_eq H.
  - match goal with |- wf_tables (match ?h with Some h0 => handle_drop h0 ?w1 | None => ?w1 end) =>
      assert (H1 : wf_tables w1) by (frame_eq H); destruct h; [apply wf_handle_drop|]; exact H1 end.
  - apply wf_try_cleanup. frame_eq H.
  - apply wf_try_cleanup. frame_eq H.
Qed.

Lemma wf_run_setup su t w w' : wf_tables w -> run_setup su t w = Some w' -> wf_tables w'.
Proof.
  intros H E. destruct su; cbn [run_setup] in E.
  - inversion E; subst. frame_eq H.
  - destruct (trk_start true k t (tr_se w)); inversion E; subst. frame_eq H.
  - destruct (trk_start true k t (tr_er w)); inversion E; subst. frame_eq H.
  - destruct (trk_start false k t (tr_de w)); inversion E; subst. frame_eq H.
  - destruct (trk_start true k t (tr_er w)); [|discriminate E].
    match type of E with match ?x with _ => _ end = _ => destruct x end; inversion E; subst. frame_eq H.
  - destruct (trk_start true k t (tr_ev w)); inversion E; subst. frame_eq H.
Qed.

Lemma wf_poll_despawns chan : forall w, wf_tables w -> wf_tables (fst (poll_despawns chan w)).
Proof.
  induction chan as [|e r IH]; intros w H; cbn [poll_despawns]; [exact H|].
  set (w1 := w <| desp_tbl := aremove e (desp_tbl w) |>).
  assert (H1 : wf_tables w1).
  { destruct H as [W1 W2 W3 W4 W5 W6 W7]. constructor; cbn; auto. apply aremove_NoDup. exact W4. }
  specialize (IH w1 H1). destruct (poll_despawns r w1) as [w2 cs]. exact IH.
Qed.
Lemma wf_poll w : wf_tables w -> wf_tables (fst (poll w)).
Proof.
  intros H. unfold poll. destruct (poll_removals (removal_checkers w) w) as [chk c1].
  set (w1 := (w <| removal_checkers := chk |>) <| despawn_chan := [] |>).
  assert (H1 : wf_tables w1) by (frame_eq H).
  pose proof (wf_poll_despawns (despawn_chan (w <| removal_checkers := chk |>)) w1 H1) as H2.
  destruct (poll_despawns _ w1) as [w2 c2]. exact H2.
Qed.

Lemma wf_take_sysevents tys : forall w, wf_tables w -> wf_tables (snd (take_sysevents tys w)).
Proof.
  induction tys as [|ty r IH]; intros w H; cbn [take_sysevents]; [exact H|].
  destruct (peek_sysevent ty w) as [p|]; [|apply IH; exact H].
  match goal with |- context [take_sysevents r ?w1] => assert (H1 : wf_tables w1) by (frame_eq H); specialize (IH w1 H1); destruct (take_sysevents r w1) end.
  exact IH.
Qed.

Lemma wf_reserve id w : wf_tables w -> wf_tables (reserve id w).
Proof.
  intros H. unfold reserve. destruct (memN id (bound w)); [exact H|].
  unfold bind_id. destruct (memN id (bound w)); eapply wf_alive_grow; [| |exact H| | |exact H]; reflexivity.
Qed.

Lemma wf_sample_readers sd x w : wf_tables w -> wf_tables (snd (sample_readers sd x w)).
Proof.
  intros H. unfold sample_readers.
  pose proof (wf_take_sysevents TYPES w H) as H1.
  destruct (sd_take sd); [destruct (take_sysevents TYPES w) as [s w1]; exact H1|exact H].
Qed.

Section WfClosed.
Variable P : program.

Lemma wf_act o a w : wf_tables w -> wf_tables (fst (act P o a w)).
Proof.
  intros H. destruct a; cbn [act];
  repeat match goal with
         | |- context [if ?b then _ else _] => destruct b
         | |- context [match alookup2 ?a ?b ?c with _ => _ end] => destruct (alookup2 a b c)
         | |- context [match alookup ?a ?c with _ => _ end] => destruct (alookup a c) as [[? ?]|]
         | |- context [match ?m with Persistent => _ | _ => _ end] => destruct m
         end; cbn [fst]; try exact H; try (frame_eq H);
  try (eapply wf_alive_grow; [| |exact H]; reflexivity).
  all: try (apply wf_reserve; exact H).
  all: try (eapply wf_frame_eq; [| |apply (wf_reserve s w H)]; reflexivity).
  all: try (destruct (alookup wr (p_wr P)); exact H).
Qed.

Lemma wf_prim c w : wf_tables w -> wf_tables (fst (apply_prim P c w)).
Proof.
  intros H. destruct c; cbn [apply_prim]; try exact H; try (frame_eq H).
  - (* CSpawnData *) destruct (is_alive d w); [frame_eq H|exact H].
  - (* CBroadcast *) destruct (tbl_get ty (bc_tbl w)); cbn [fst]; [frame_eq H|]. eapply wf_alive_grow; [| |exact H]; reflexivity.
  - (* CEntityEvent *) destruct (entity_targets e (REvent ty) w ++ map handle_sys (tbl_get ty (any_tbl w))); cbn [fst]; [frame_eq H|].
    eapply wf_alive_grow; [| |exact H]; reflexivity.
  - (* CSchedIns *) match goal with |- context [if ?b then _ else _] => destruct b end; cbn [fst]; [frame_eq H|exact H].
  - (* CTryInsertReact *) destruct (is_alive e w); [frame_eq H|exact H].
  - (* CRemoveReact *) destruct (is_alive e w); [|exact H]. destruct (alookup2 c e (comps w)); [frame_eq H|exact H].
  - (* CDespawn *) apply wf_despawn. exact H.
  - (* CDespawnRec *) apply wf_despawn. exact H.
  - (* CSpawnSys *) destruct (is_alive s w && negb (memN s (spawned w))); [frame_eq H|exact H].
  - (* CInsertOnce *) destruct (is_alive s w); cbn [negb fst]; [destruct (negb (memN s (spawned w))); [frame_eq H|exact H]|frame_eq H].
  - (* CRegister *)
    assert (Hh : forall h w0, wf_tables w0 -> wf_tables (fst (let (w1, cs) := reg_triggers_cmds h b w0 in (handle_drop h w1, cs)))).
    { intros h w0 H0. pose proof (wf_reg_triggers_cmds h b w0 H0) as H1. destruct (reg_triggers_cmds h b w0) as [w1 cs]. apply wf_handle_drop. exact H1. }
    destruct m; [apply Hh; exact H| |]; (unfold sig_new; apply Hh; frame_eq H).
  - (* CRegTypewide *)
    destruct t; cbn [fst]; try (apply wf_handle_drop; exact H).
    + destruct H as [W1 W2 W3 W4 W5 W6 W7]. constructor; cbn; auto. apply tbl_push_NoDup. exact W7.
    + destruct H as [W1 W2 W3 W4 W5 W6 W7]. constructor; cbn; auto. apply tbl_push_NoDup. exact W5.
    + destruct H as [W1 W2 W3 W4 W5 W6 W7]. constructor; cbn; auto. apply tbl_push_NoDup. exact W6.
    + apply wf_comp_push. exact H.
    + apply wf_comp_push. exact H.
    + apply wf_comp_push. apply wf_track_removals. exact H.
  - (* CRegEntity *)
    destruct (is_alive e w) eqn:EA; [|apply wf_handle_drop; exact H].
    destruct (alookup e (ereactors w)) as [l|] eqn:E; destruct H as [W1 W2 W3 W4 W5 W6 W7]; constructor; cbn; auto.
    + apply aset_NoDup. exact W1.
    + intros e0 Hin. rewrite aset_keys_present in Hin by (eapply alookup_Some_key; eauto). apply W2 in Hin. exact Hin.
    + rewrite map_app. cbn. apply NoDup_snoc; [apply alookup_None; exact E|exact W1].
    + intros e0 Hin. rewrite map_app, in_app_iff in Hin. cbn in Hin. destruct Hin as [Hin|[<-|[]]]; [apply W2 in Hin; exact Hin|exact EA].
  - (* CTrackRemovals *) apply wf_track_removals. exact H.
  - (* CRegDespawn *)
    destruct (is_alive e w); [|apply wf_handle_drop; exact H].
    assert (H1 : wf_tables (w <| desp_tbl := tbl_push e h (desp_tbl w) |>)).
    { destruct H as [W1 W2 W3 W4 W5 W6 W7]. constructor; cbn; auto. apply tbl_push_NoDup. exact W4. }
    match goal with |- context [if ?b then _ else _] => destruct b end; cbn [fst]; [exact H1|frame_eq H1].
  - (* CRevoke *) destruct tk as [ts s]. apply wf_revoke_all. exact H.
  - (* CCleanup *) apply wf_run_cleanup. exact H.
  - (* CXAdd *) destruct (alookup x (p_xr P)) as [[s shape]|]; [|exact H]. destruct (is_alive e w); exact H.
  - (* CXRemove *) destruct (alookup x (p_xr P)) as [[s shape]|]; exact H.
  - (* CXInsertLocal *) destruct (is_alive e w); [frame_eq H|exact H].
  - (* CXCleanupData *) destruct (is_alive e w); [|exact H]. destruct (alookup e (ereactors w)); [|exact H].
    match goal with |- context [if ?b then _ else _] => destruct b end; [exact H|frame_eq H].
  - (* CPoll *) apply wf_poll. exact H.
Qed.

Lemma wf_closed : closed P wf_tables.
Proof.
  constructor.
  - intros e w H. frame_eq H.
  - intros c w H. apply wf_prim. exact H.
  - intros o a w H. apply wf_act. exact H.
  - intros c w t su cl w' H E. destruct c; try discriminate E; cbn in E; try (inversion E; subst; first [exact H|frame_eq H]).
    destruct r; inversion E; subst; first [exact H|frame_eq H].
  - intros e r w H _. unfold gc_step. apply wf_despawn. frame_eq H.
  - intros w H. apply wf_poll. exact H.
  - intros su t w w' H E. eapply wf_run_setup; eauto.
  - intros cl w H. apply wf_run_cleanup. exact H.
  - intros b w H. frame_eq H.
  - intros n w H. frame_eq H.
  - intros t b w H. frame_eq H.
  - intros t k w H _. unfold rn_dropped. destruct (drop_callback_view t w). eapply wf_frame_eq; [| |exact H]; assumption.
  - intros t k w H _. unfold rn_despawn_missing. eapply wf_frame_eq; [| |apply wf_despawn; destruct (drop_callback_view t w); eapply wf_frame_eq; [| |exact H]; eassumption]; reflexivity.
  - intros t w H. apply wf_despawn. exact H.
  - intros t cb b w H _ _. frame_eq H.
  - intros t tk w H. unfold once_finish. destruct (alookup t (cbs w)); [frame_eq H|exact H].
  - intros sd t r c w _ H. unfold body_begin.
    assert (H0 : wf_tables (body_sample P sd t r c w)).
    { unfold body_sample. pose proof (wf_sample_readers sd (xsys_of P t) w H) as H1.
      destruct (sample_readers sd (xsys_of P t) w) as [sm w1]. cbn [snd] in H1.
      assert (H2 : wf_tables (note_run t r c (is_once_rec t w1) (emit (EvRun t r c sm) w1))) by (frame_eq H1).
      destruct (sm_l sm) as [[src [v|]]|]; try exact H2. destruct (xsys_of P t) as [[x ?]|]; [frame_eq H2|exact H2]. }
    unfold state_bump. destruct (alookup t (cbs (body_sample P sd t r c w))); [frame_eq H0|exact H0].
  - intros w H. frame_eq H.
Qed.

Lemma wf_init : wf_tables (install_static P init_world).
Proof.
  unfold install_static.
  assert (Hgen : forall l w, wf_tables w -> wf_tables (fold_left (fun w s => (reserve s w) <| storage ::= aset s true |> <| cbs ::= aset s (mkCb None 0 0 false true) |> <| spawned ::= cons s |>) l w)).
  { induction l as [|s l IH]; intros w H; cbn [fold_left]; [exact H|]. apply IH.
    eapply wf_frame_eq; [| |apply (wf_reserve s w H)]; reflexivity. }
  apply Hgen. constructor; cbn; try constructor. intros e [].
Qed.

(* every state reachable by running a program satisfies wf_tables *)
Theorem wf_reachable fuel i l w' : run_tops P fuel i l (install_static P init_world) = Ok w' -> wf_tables w'.
Proof. intros E. eapply run_tops_closed; [exact wf_closed|exact wf_init|exact E]. Qed.

Theorem wf_exec fuel i w w' : wf_tables w -> exec P fuel i w = Ok w' -> wf_tables w'.
Proof. apply exec_closed. exact wf_closed. Qed.
End WfClosed.

(* ================================================================================================================ *)
(* Registrations change only through registration, revocation, despawn of the entity they are scoped to and the
   dispatch of a fired despawn trigger.                                                                          *)
Require Import Coq.Sorting.Permutation.

Lemma regs_frame w w' : tview w' = tview w -> regs w' = regs w.
Proof.
  unfold tview. intros HV. inversion HV as [[E1 E2 E3 E4 E5 E6]].
  unfold regs, regs_entity, regs_comp, regs_desp, regs_any, regs_res, regs_bc. now rewrite E1, E2, E3, E4, E5, E6.
Qed.

(* pushing one handle under key k adds exactly the registration (T k, h) *)
Lemma entries_tbl_push (T : N -> trigger) k h t : NoDup (map fst t) ->
  Permutation (flat_map (tbl_entries T) (tbl_push k h t)) ((T k, h) :: flat_map (tbl_entries T) t).
Proof.
  intros Hd. unfold tbl_push. destruct (alookup k t) as [l|] eqn:E.
  - induction t as [|[k0 l0] t IH]; cbn in E; [discriminate|]. cbn [aset flat_map].
    inversion Hd as [|? ? Hn Hd']; subst.
    destruct (N.eqb_spec k k0) as [->|Hne].
    + inversion E; subst. cbn [flat_map]. unfold tbl_entries at 1 3. cbn [fst snd]. rewrite map_app. cbn [map].
      rewrite <- app_assoc. cbn [app]. apply Permutation_sym, Permutation_middle.
    + cbn [flat_map]. specialize (IH Hd' E).
      eapply Permutation_trans; [apply Permutation_app_head; exact IH|]. apply Permutation_sym, Permutation_middle.
  - rewrite flat_map_app. cbn [flat_map]. rewrite app_nil_r. unfold tbl_entries at 2. cbn [fst snd map].
    apply Permutation_sym. apply Permutation_cons_append.
Qed.

Definition is_typewide (t : trigger) : bool :=
  match t with TBroadcast _ | TAnyEntityEvent _ | TResource _ | TIns _ | TMut _ | TRem _ => true | _ => false end.

Lemma Permutation_app_mid {A} (a b c x : list A) y : Permutation b (y :: x) -> Permutation (a ++ b ++ c) (y :: a ++ x ++ c).
Proof.
  intros H. eapply Permutation_trans; [apply Permutation_app_head, Permutation_app_tail; exact H|].
  cbn [app]. apply Permutation_sym, Permutation_middle.
Qed.

(* replacing the value of one key: the entries of that key change, nothing else *)
Lemma flat_map_aset_perm {V B} (f : N * V -> list B) k v v' y tbl :
  NoDup (map fst tbl) -> alookup k tbl = Some v -> Permutation (f (k, v')) (y :: f (k, v)) ->
  Permutation (flat_map f (aset k v' tbl)) (y :: flat_map f tbl).
Proof.
  intros Hd E Hp. induction tbl as [|[k0 v0] tbl IH]; cbn in E; [discriminate|]. cbn [aset flat_map].
  inversion Hd as [|? ? Hn Hd']; subst.
  destruct (N.eqb_spec k k0) as [->|Hne].
  - inversion E; subst. cbn [flat_map]. rewrite Hp. reflexivity.
  - cbn [flat_map]. rewrite (IH Hd' E). symmetry. apply Permutation_middle.
Qed.
Lemma flat_map_snoc_perm {V B} (f : N * V -> list B) k v y tbl :
  Permutation (f (k, v)) [y] -> Permutation (flat_map f (tbl ++ [(k, v)])) (y :: flat_map f tbl).
Proof.
  intros Hp. rewrite flat_map_app. cbn [flat_map]. rewrite app_nil_r, Hp. symmetry. apply Permutation_cons_append.
Qed.

Lemma comp_entries_add kd c h i m r :
  Permutation
    (comp_entries_of (c, match kd with KIns => (i ++ [h], m, r) | KMut => (i, m ++ [h], r) | KRem => (i, m, r ++ [h]) end))
    ((match kd with KIns => TIns c | KMut => TMut c | KRem => TRem c end, h) :: comp_entries_of (c, (i, m, r))).
Proof.
  unfold comp_entries_of. destruct kd; cbn [fst snd]; rewrite map_app; cbn [map].
  - rewrite <- app_assoc. cbn [app]. symmetry. apply Permutation_middle.
  - apply Permutation_app_mid. symmetry. apply Permutation_cons_append.
  - rewrite !app_assoc. symmetry. apply Permutation_cons_append.
Qed.

Lemma entries_comp_push kd c h tbl : NoDup (map fst tbl) ->
  Permutation
    (flat_map comp_entries_of
       (let '(i, m, r) := match alookup c tbl with Some x => x | None => ([], [], []) end in
        let x := match kd with KIns => (i ++ [h], m, r) | KMut => (i, m ++ [h], r) | KRem => (i, m, r ++ [h]) end in
        match alookup c tbl with Some _ => aset c x tbl | None => tbl ++ [(c, x)] end))
    ((match kd with KIns => TIns c | KMut => TMut c | KRem => TRem c end, h) :: flat_map comp_entries_of tbl).
Proof.
  intros Hd. destruct (alookup c tbl) as [[[i m] r]|] eqn:E.
  - eapply flat_map_aset_perm; [exact Hd|exact E|]. apply comp_entries_add.
  - apply flat_map_snoc_perm. destruct kd; reflexivity.
Qed.

Section Perm6.
Context {A : Type}.
Implicit Types (e c d a r b x : list A).
Lemma perm6_1 e e' c d a r b y : Permutation e' (y :: e) -> Permutation (e' ++ c ++ d ++ a ++ r ++ b) (y :: e ++ c ++ d ++ a ++ r ++ b).
Proof. intros H. rewrite H. reflexivity. Qed.
Lemma perm6_2 e c c' d a r b y : Permutation c' (y :: c) -> Permutation (e ++ c' ++ d ++ a ++ r ++ b) (y :: e ++ c ++ d ++ a ++ r ++ b).
Proof. intros H. rewrite H. cbn [app]. symmetry. apply Permutation_middle. Qed.
Lemma perm6_3 e c d d' a r b y : Permutation d' (y :: d) -> Permutation (e ++ c ++ d' ++ a ++ r ++ b) (y :: e ++ c ++ d ++ a ++ r ++ b).
Proof.
  intros H. rewrite H. cbn [app]. symmetry.
  replace (e ++ c ++ y :: d ++ a ++ r ++ b) with ((e ++ c) ++ y :: d ++ a ++ r ++ b) by (rewrite <- app_assoc; reflexivity).
  replace (e ++ c ++ d ++ a ++ r ++ b) with ((e ++ c) ++ d ++ a ++ r ++ b) by (rewrite <- app_assoc; reflexivity).
  apply Permutation_middle.
Qed.
Lemma perm6_4 e c d a a' r b y : Permutation a' (y :: a) -> Permutation (e ++ c ++ d ++ a' ++ r ++ b) (y :: e ++ c ++ d ++ a ++ r ++ b).
Proof.
  intros H. rewrite H. cbn [app]. symmetry.
  replace (e ++ c ++ d ++ y :: a ++ r ++ b) with ((e ++ c ++ d) ++ y :: a ++ r ++ b) by (rewrite <- !app_assoc; reflexivity).
  replace (e ++ c ++ d ++ a ++ r ++ b) with ((e ++ c ++ d) ++ a ++ r ++ b) by (rewrite <- !app_assoc; reflexivity).
  apply Permutation_middle.
Qed.
Lemma perm6_5 e c d a r r' b y : Permutation r' (y :: r) -> Permutation (e ++ c ++ d ++ a ++ r' ++ b) (y :: e ++ c ++ d ++ a ++ r ++ b).
Proof.
  intros H. rewrite H. cbn [app]. symmetry.
  replace (e ++ c ++ d ++ a ++ y :: r ++ b) with ((e ++ c ++ d ++ a) ++ y :: r ++ b) by (rewrite <- !app_assoc; reflexivity).
  replace (e ++ c ++ d ++ a ++ r ++ b) with ((e ++ c ++ d ++ a) ++ r ++ b) by (rewrite <- !app_assoc; reflexivity).
  apply Permutation_middle.
Qed.
Lemma perm6_6 e c d a r b b' y : Permutation b' (y :: b) -> Permutation (e ++ c ++ d ++ a ++ r ++ b') (y :: e ++ c ++ d ++ a ++ r ++ b).
Proof.
  intros H. rewrite H. symmetry.
  replace (e ++ c ++ d ++ a ++ r ++ y :: b) with ((e ++ c ++ d ++ a ++ r) ++ y :: b) by (rewrite <- !app_assoc; reflexivity).
  replace (e ++ c ++ d ++ a ++ r ++ b) with ((e ++ c ++ d ++ a ++ r) ++ b) by (rewrite <- !app_assoc; reflexivity).
  apply Permutation_middle.
Qed.
End Perm6.

Lemma comp_push_view kd c h w :
  ereactors (comp_push kd c h w) = ereactors w /\ desp_tbl (comp_push kd c h w) = desp_tbl w /\ any_tbl (comp_push kd c h w) = any_tbl w
  /\ res_tbl (comp_push kd c h w) = res_tbl w /\ bc_tbl (comp_push kd c h w) = bc_tbl w.
Proof. unfold comp_push. destruct (alookup c (comp_tbl w)) as [[[i m] r]|]; repeat split; reflexivity. Qed.

Lemma regs_comp_push kd c h w : wf_tables w ->
  Permutation (regs (comp_push kd c h w)) ((match kd with KIns => TIns c | KMut => TMut c | KRem => TRem c end, h) :: regs w).
Proof.
  intros Hwf. pose proof (entries_comp_push kd c h (comp_tbl w) (wf_comp w Hwf)) as Hp.
  destruct (comp_push_view kd c h w) as (V1 & V2 & V3 & V4 & V5).
  unfold regs, regs_entity, regs_desp, regs_any, regs_res, regs_bc. rewrite V1, V2, V3, V4, V5.
  apply perm6_2. unfold regs_comp, comp_push.
  destruct (alookup c (comp_tbl w)) as [[[i m] r]|] eqn:E; cbn; exact Hp.
Qed.

(* registration of a type-wide trigger adds exactly that registration *)
Theorem reg_typewide_spec P t h w : wf_tables w -> is_typewide t = true ->
  Permutation (regs (fst (apply_prim P (CRegTypewide t h) w))) ((t, h) :: regs w).
Proof.
  intros Hwf Ht. destruct t; try discriminate Ht; cbn [apply_prim fst].
  - apply perm6_6. apply (entries_tbl_push TBroadcast ty h (bc_tbl w) (wf_bc w Hwf)).
  - apply perm6_4. apply (entries_tbl_push TAnyEntityEvent ty h (any_tbl w) (wf_any w Hwf)).
  - apply perm6_5. apply (entries_tbl_push TResource r h (res_tbl w) (wf_res w Hwf)).
  - apply (regs_comp_push KIns). exact Hwf.
  - apply (regs_comp_push KMut). exact Hwf.
  - set (w0 := track_removals c w).
    assert (H0 : tview w0 = tview w) by (subst w0; unfold track_removals; destruct (ahas c (removal_checkers w)); reflexivity).
    rewrite <- (regs_frame w w0 H0). apply (regs_comp_push KRem). apply wf_track_removals. exact Hwf.
Qed.

(* registration of an entity-scoped trigger on a live entity adds exactly that registration; on a dead one, nothing *)
Lemma entries_er_push e rt h tbl : NoDup (map fst tbl) ->
  Permutation
    (flat_map er_entries (match alookup e tbl with Some l => aset e (l ++ [(rt, h)]) tbl | None => tbl ++ [(e, [(rt, h)])] end))
    ((er_trigger e rt, h) :: flat_map er_entries tbl).
Proof.
  intros Hd. destruct (alookup e tbl) as [l|] eqn:E.
  - induction tbl as [|[e0 l0] tbl IH]; cbn in E; [discriminate|]. cbn [aset flat_map].
    inversion Hd as [|? ? Hn Hd']; subst.
    destruct (N.eqb_spec e e0) as [->|Hne].
    + inversion E; subst. cbn [flat_map]. unfold er_entries at 1 3. cbn [fst snd]. rewrite map_app. cbn [map fst snd].
      rewrite <- app_assoc. cbn [app]. apply Permutation_sym, Permutation_middle.
    + cbn [flat_map]. specialize (IH Hd' E).
      eapply Permutation_trans; [apply Permutation_app_head; exact IH|]. apply Permutation_sym, Permutation_middle.
  - rewrite flat_map_app. cbn [flat_map]. rewrite app_nil_r. unfold er_entries at 2. cbn [fst snd map].
    apply Permutation_sym. apply Permutation_cons_append.
Qed.

Theorem reg_entity_spec P rt e h w : wf_tables w ->
  if is_alive e w then Permutation (regs (fst (apply_prim P (CRegEntity rt e h) w))) ((er_trigger e rt, h) :: regs w)
  else regs (fst (apply_prim P (CRegEntity rt e h) w)) = regs w.
Proof.
  intros Hwf. cbn [apply_prim fst]. destruct (is_alive e w).
  - pose proof (entries_er_push e rt h (ereactors w) (wf_er w Hwf)) as Hp.
    destruct (alookup e (ereactors w)) as [l|]; apply perm6_1; exact Hp.
  - apply regs_frame. apply (proj1 (handle_drop_view h w)).
Qed.

Theorem reg_despawn_spec P e h w : wf_tables w ->
  if is_alive e w then Permutation (regs (fst (apply_prim P (CRegDespawn e h) w))) ((TDespawn e, h) :: regs w)
  else regs (fst (apply_prim P (CRegDespawn e h) w)) = regs w.
Proof.
  intros Hwf. cbn [apply_prim fst]. destruct (is_alive e w).
  - pose proof (entries_tbl_push TDespawn e h (desp_tbl w) (wf_desp w Hwf)) as Hp.
    destruct (memN e (dtrackers (w <| desp_tbl := tbl_push e h (desp_tbl w) |>))); apply perm6_3; exact Hp.
  - apply regs_frame. apply (proj1 (handle_drop_view h w)).
Qed.

(* ================================================================================================================ *)
(* C06: revocation.  `named s t x`: registration x is the one a token (.., s) names by its reactor type t.        *)
Definition trigger_eqb (a b : trigger) : bool :=
  match a, b with
  | TBroadcast x, TBroadcast y | TAnyEntityEvent x, TAnyEntityEvent y | TResource x, TResource y
  | TIns x, TIns y | TMut x, TMut y | TRem x, TRem y | TDespawn x, TDespawn y => N.eqb x y
  | TEntityEvent x e, TEntityEvent y e' | TEIns x e, TEIns y e' | TEMut x e, TEMut y e' | TERem x e, TERem y e' => N.eqb x y && N.eqb e e'
  | _, _ => false
  end.
Lemma trigger_eqb_eq a b : trigger_eqb a b = true <-> a = b.
Proof.
  destruct a, b; cbn; try (split; [discriminate|intros H; inversion H]);
    rewrite ?andb_true_iff, ?N.eqb_eq; split; try (intros [-> ->]; reflexivity); try (intros ->; reflexivity);
    intros H; inversion H; auto.
Qed.

Definition named (s : ent) (t : trigger) (x : trigger * handle) : bool :=
  trigger_eqb (fst x) t && N.eqb (handle_sys (snd x)) s.

Fixpoint remove_first_p {A} (p : A -> bool) (l : list A) : list A :=
  match l with [] => [] | x :: r => if p x then r else x :: remove_first_p p r end.

Lemma remove_first_p_app_false {A} (p : A -> bool) l1 l2 :
  (forall x, In x l1 -> p x = false) -> remove_first_p p (l1 ++ l2) = l1 ++ remove_first_p p l2.
Proof.
  induction l1 as [|x l1 IH]; intros H; cbn; [reflexivity|].
  rewrite (H x) by (left; reflexivity). f_equal. apply IH. intros y Hy. apply H. right. exact Hy.
Qed.
Lemma remove_first_p_none {A} (p : A -> bool) l : (forall x, In x l -> p x = false) -> remove_first_p p l = l.
Proof. intros H. rewrite <- (app_nil_r l) at 1. rewrite remove_first_p_app_false by exact H. cbn. apply app_nil_r. Qed.
Lemma remove_first_p_app_found {A} (p : A -> bool) l1 l2 :
  existsb p l1 = true -> remove_first_p p (l1 ++ l2) = remove_first_p p l1 ++ l2.
Proof.
  induction l1 as [|x l1 IH]; cbn; [discriminate|]. destruct (p x); cbn; [reflexivity|]. intros H. f_equal. apply IH. exact H.
Qed.
(* with at most one match, removing the first match is removing all matches *)
Lemma remove_first_is_filter {A} (p : A -> bool) l :
  (length (filter p l) <= 1)%nat -> remove_first_p p l = filter (fun x => negb (p x)) l.
Proof.
  induction l as [|x l IH]; cbn; [reflexivity|]. destruct (p x) eqn:E; cbn.
  - intros H. symmetry. apply filter_all. intros y Hy. destruct (p y) eqn:Ey; [|reflexivity].
    exfalso. assert (In y (filter p l)) by (apply filter_In; auto). destruct (filter p l); [contradiction|cbn in H; lia].
  - intros H. f_equal. apply IH. exact H.
Qed.

(* one type-wide list *)
Lemma remove_first_entries (T : trigger) s l :
  map (pair T) (snd (remove_first s l)) = remove_first_p (named s T) (map (pair T) l).
Proof.
  induction l as [|h l IH]; cbn; [reflexivity|]. unfold named at 1. cbn [fst snd].
  rewrite (proj2 (trigger_eqb_eq T T) eq_refl). cbn [andb].
  destruct (N.eqb (handle_sys h) s); [reflexivity|].
  destruct (remove_first s l) as [o l'] eqn:E. cbn [snd] in *. cbn. f_equal. exact IH.
Qed.

Lemma aremove_notin {V} k (l : list (N * V)) : ~ In k (map fst l) -> aremove k l = l.
Proof.
  induction l as [|[k0 v0] l IH]; cbn; [reflexivity|]. intros H.
  destruct (N.eqb_spec k k0) as [->|Hne]; [exfalso; apply H; left; reflexivity|]. f_equal. apply IH. tauto.
Qed.

Lemma named_other_key (T : N -> trigger) s k k0 (l0 : list handle) :
  (forall a b, trigger_eqb (T a) (T b) = N.eqb a b) -> k0 <> k ->
  forall x, In x (tbl_entries T (k0, l0)) -> named s (T k) x = false.
Proof.
  intros HT Hne x Hx. unfold tbl_entries in Hx. cbn [fst snd] in Hx. apply in_map_iff in Hx. destruct Hx as (h & <- & _).
  unfold named. cbn [fst]. rewrite HT. destruct (N.eqb_spec k0 k); [congruence|reflexivity].
Qed.

Lemma tbl_revoke_entries (T : N -> trigger) k s tbl :
  (forall a b, trigger_eqb (T a) (T b) = N.eqb a b) -> NoDup (map fst tbl) ->
  flat_map (tbl_entries T) (snd (tbl_revoke k s tbl)) = remove_first_p (named s (T k)) (flat_map (tbl_entries T) tbl).
Proof.
  intros HT Hd. induction tbl as [|[k0 l0] tbl IH]; [reflexivity|].
  inversion Hd as [|? ? Hn Hd']; subst. specialize (IH Hd').
  unfold tbl_revoke in *. cbn [alookup flat_map].
  destruct (N.eqb_spec k k0) as [->|Hne].
  - (* the key is here *)
    pose proof (remove_first_entries (T k0) s l0) as HR.
    destruct (remove_first s l0) as [o l'] eqn:ER. cbn [snd] in *.
    assert (Hrest : forall x, In x (flat_map (tbl_entries T) tbl) -> named s (T k0) x = false).
    { intros x Hx. apply in_flat_map in Hx. destruct Hx as ([k1 l1] & Hin & Hx).
      eapply (named_other_key T s k0 k1 l1 HT); [|exact Hx]. intros ->. apply Hn. apply (in_map fst) in Hin. exact Hin. }
    assert (Hfm : flat_map (tbl_entries T) (match l' with [] => aremove k0 ((k0, l0) :: tbl) | _ :: _ => aset k0 l' ((k0, l0) :: tbl) end)
                  = map (pair (T k0)) l' ++ flat_map (tbl_entries T) tbl).
    { destruct l' as [|h' l'']; cbn [aremove aset]; rewrite N.eqb_refl; [rewrite (aremove_notin k0 tbl Hn); reflexivity|reflexivity]. }
    rewrite Hfm, HR. unfold tbl_entries at 2. cbn [fst snd].
    destruct (existsb (named s (T k0)) (map (pair (T k0)) l0)) eqn:EX.
    + rewrite remove_first_p_app_found by exact EX. reflexivity.
    + assert (Hnone : forall x, In x (map (pair (T k0)) l0) -> named s (T k0) x = false).
      { intros x Hx. destruct (named s (T k0) x) eqn:En; [|reflexivity].
        assert (existsb (named s (T k0)) (map (pair (T k0)) l0) = true) by (apply existsb_exists; eauto). congruence. }
      rewrite remove_first_p_app_false by exact Hnone. rewrite (remove_first_p_none _ _ Hnone), (remove_first_p_none _ _ Hrest). reflexivity.
  - (* the key is further down *)
    rewrite remove_first_p_app_false by (apply (named_other_key T s k k0 l0 HT); congruence).
    destruct (alookup k tbl) as [l|] eqn:E.
    + destruct (remove_first s l) as [o l'] eqn:ER. cbn [snd] in *.
      destruct l' as [|h' l'']; cbn [aremove aset]; (destruct (N.eqb_spec k k0); [congruence|]); cbn [flat_map]; f_equal; exact IH.
    + cbn [snd flat_map] in *. f_equal. exact IH.
Qed.

Lemma named_false_entity s t w : is_typewide t = true \/ (exists e, t = TDespawn e) ->
  forall x, In x (regs_entity w) -> named s t x = false.
Proof.
  intros Ht x Hx. unfold regs_entity in Hx. apply in_flat_map in Hx. destruct Hx as ([e0 l] & _ & Hx).
  unfold er_entries in Hx. cbn [fst snd] in Hx. apply in_map_iff in Hx. destruct Hx as ([rt h] & <- & _).
  unfold named. cbn [fst]. destruct Ht as [Ht|[e ->]]; destruct rt; try (destruct t; try discriminate Ht); reflexivity.
Qed.
Lemma named_false_tbl (T : N -> trigger) s t tbl : (forall k, trigger_eqb (T k) t = false) ->
  forall x, In x (flat_map (tbl_entries T) tbl) -> named s t x = false.
Proof.
  intros HT x Hx. apply in_flat_map in Hx. destruct Hx as ([k l] & _ & Hx). unfold tbl_entries in Hx. cbn [fst snd] in Hx.
  apply in_map_iff in Hx. destruct Hx as (h & <- & _). unfold named. cbn [fst]. now rewrite HT.
Qed.
Lemma named_false_comp s t w : (forall c, trigger_eqb (TIns c) t = false) -> (forall c, trigger_eqb (TMut c) t = false) ->
  (forall c, trigger_eqb (TRem c) t = false) -> forall x, In x (regs_comp w) -> named s t x = false.
Proof.
  intros H1 H2 H3 x Hx. unfold regs_comp in Hx. apply in_flat_map in Hx. destruct Hx as ([c [[i m] r]] & _ & Hx).
  unfold comp_entries_of in Hx. cbn [fst snd] in Hx. rewrite !in_app_iff in Hx.
  destruct Hx as [Hx|[Hx|Hx]]; apply in_map_iff in Hx; destruct Hx as (h & <- & _); unfold named; cbn [fst]; now rewrite ?H1, ?H2, ?H3.
Qed.

Lemma regs_handle_drop_opt (o : option handle) w : regs (match o with Some h => handle_drop h w | None => w end) = regs w.
Proof. destruct o as [h|]; [apply regs_frame, (proj1 (handle_drop_view h w))|reflexivity]. Qed.

(* revocation of a broadcast / any-entity-event / resource / despawn registration: the first entry of that reactor under
   that key disappears, every other registration stays, in order *)
Theorem revoke_broadcast_spec s ty w : wf_tables w ->
  regs (revoke_one s (TBroadcast ty) w) = remove_first_p (named s (TBroadcast ty)) (regs w).
Proof.
  intros Hwf. cbn [revoke_one]. pose proof (tbl_revoke_entries TBroadcast ty s (bc_tbl w) (fun a b => eq_refl) (wf_bc w Hwf)) as HT.
  destruct (tbl_revoke ty s (bc_tbl w)) as [o t'] eqn:E. cbn [snd] in HT. rewrite regs_handle_drop_opt.
  unfold regs at 2.
  rewrite remove_first_p_app_false by (apply named_false_entity; left; reflexivity).
  rewrite remove_first_p_app_false by (apply named_false_comp; reflexivity).
  rewrite remove_first_p_app_false by (apply (named_false_tbl TDespawn); reflexivity).
  rewrite remove_first_p_app_false by (apply (named_false_tbl TAnyEntityEvent); reflexivity).
  rewrite remove_first_p_app_false by (apply (named_false_tbl TResource); reflexivity).
  unfold regs_bc. rewrite <- HT. reflexivity.
Qed.
Theorem revoke_resource_spec s r w : wf_tables w ->
  regs (revoke_one s (TResource r) w) = remove_first_p (named s (TResource r)) (regs w).
Proof.
  intros Hwf. cbn [revoke_one]. pose proof (tbl_revoke_entries TResource r s (res_tbl w) (fun a b => eq_refl) (wf_res w Hwf)) as HT.
  destruct (tbl_revoke r s (res_tbl w)) as [o t'] eqn:E. cbn [snd] in HT. rewrite regs_handle_drop_opt.
  unfold regs at 2.
  rewrite remove_first_p_app_false by (apply named_false_entity; left; reflexivity).
  rewrite remove_first_p_app_false by (apply named_false_comp; reflexivity).
  rewrite remove_first_p_app_false by (apply (named_false_tbl TDespawn); reflexivity).
  rewrite remove_first_p_app_false by (apply (named_false_tbl TAnyEntityEvent); reflexivity).
  unfold regs_res.
  destruct (existsb (named s (TResource r)) (flat_map (tbl_entries TResource) (res_tbl w))) eqn:EX.
  - rewrite remove_first_p_app_found by exact EX. rewrite <- HT. reflexivity.
  - assert (Hnone : forall x, In x (flat_map (tbl_entries TResource) (res_tbl w)) -> named s (TResource r) x = false).
    { intros x Hx. destruct (named s (TResource r) x) eqn:En; [|reflexivity].
      assert (existsb (named s (TResource r)) (flat_map (tbl_entries TResource) (res_tbl w)) = true) by (apply existsb_exists; eauto). congruence. }
    rewrite remove_first_p_app_false by exact Hnone.
    rewrite (remove_first_p_none _ (regs_bc w)) by (apply (named_false_tbl TBroadcast); reflexivity).
    rewrite (remove_first_p_none _ _ Hnone) in HT. unfold regs, regs_res. cbn. rewrite HT. reflexivity.
Qed.

Lemma remove_first_p_mid {A} (p : A -> bool) pre mid mid' post :
  (forall x, In x pre -> p x = false) -> (forall x, In x post -> p x = false) -> mid' = remove_first_p p mid ->
  remove_first_p p (pre ++ mid ++ post) = pre ++ mid' ++ post.
Proof.
  intros Hpre Hpost ->. rewrite remove_first_p_app_false by exact Hpre. f_equal.
  destruct (existsb p mid) eqn:EX.
  - apply remove_first_p_app_found. exact EX.
  - assert (Hnone : forall x, In x mid -> p x = false).
    { intros x Hx. destruct (p x) eqn:En; [|reflexivity]. assert (existsb p mid = true) by (apply existsb_exists; eauto). congruence. }
    rewrite remove_first_p_app_false by exact Hnone. rewrite (remove_first_p_none _ _ Hnone), (remove_first_p_none _ _ Hpost). reflexivity.
Qed.

Lemma in_app3 {A} (x : A) a b c : In x (a ++ b ++ c) -> In x a \/ In x b \/ In x c.
Proof. rewrite !in_app_iff. tauto. Qed.

Theorem revoke_any_spec s ty w : wf_tables w ->
  regs (revoke_one s (TAnyEntityEvent ty) w) = remove_first_p (named s (TAnyEntityEvent ty)) (regs w).
Proof.
  intros Hwf. cbn [revoke_one]. pose proof (tbl_revoke_entries TAnyEntityEvent ty s (any_tbl w) (fun a b => eq_refl) (wf_any w Hwf)) as HT.
  destruct (tbl_revoke ty s (any_tbl w)) as [o t'] eqn:E. cbn [snd] in HT. rewrite regs_handle_drop_opt.
  unfold regs.
  replace (regs_entity w ++ regs_comp w ++ regs_desp w ++ regs_any w ++ regs_res w ++ regs_bc w)
    with ((regs_entity w ++ regs_comp w ++ regs_desp w) ++ regs_any w ++ (regs_res w ++ regs_bc w)) by (rewrite <- !app_assoc; reflexivity).
  rewrite (remove_first_p_mid (named s (TAnyEntityEvent ty)) (regs_entity w ++ regs_comp w ++ regs_desp w) (regs_any w)
             (flat_map (tbl_entries TAnyEntityEvent) t') (regs_res w ++ regs_bc w)); [rewrite <- !app_assoc; reflexivity| | |exact HT].
  - intros x Hx. apply in_app3 in Hx. destruct Hx as [Hx|[Hx|Hx]].
    + eapply named_false_entity; [left; reflexivity|exact Hx].
    + eapply named_false_comp; [reflexivity|reflexivity|reflexivity|exact Hx].
    + eapply (named_false_tbl TDespawn); [reflexivity|exact Hx].
  - intros x Hx. apply in_app_iff in Hx. destruct Hx as [Hx|Hx].
    + eapply (named_false_tbl TResource); [reflexivity|exact Hx].
    + eapply (named_false_tbl TBroadcast); [reflexivity|exact Hx].
Qed.

Theorem revoke_despawn_spec s e w : wf_tables w ->
  regs (revoke_one s (TDespawn e) w) = remove_first_p (named s (TDespawn e)) (regs w).
Proof.
  intros Hwf. cbn [revoke_one]. pose proof (tbl_revoke_entries TDespawn e s (desp_tbl w) (fun a b => eq_refl) (wf_desp w Hwf)) as HT.
  destruct (tbl_revoke e s (desp_tbl w)) as [o t'] eqn:E. cbn [snd] in HT. rewrite regs_handle_drop_opt.
  unfold regs.
  replace (regs_entity w ++ regs_comp w ++ regs_desp w ++ regs_any w ++ regs_res w ++ regs_bc w)
    with ((regs_entity w ++ regs_comp w) ++ regs_desp w ++ (regs_any w ++ regs_res w ++ regs_bc w)) by (rewrite <- !app_assoc; reflexivity).
  rewrite (remove_first_p_mid (named s (TDespawn e)) (regs_entity w ++ regs_comp w) (regs_desp w)
             (flat_map (tbl_entries TDespawn) t') (regs_any w ++ regs_res w ++ regs_bc w)); [rewrite <- !app_assoc; reflexivity| | |exact HT].
  - intros x Hx. apply in_app_iff in Hx. destruct Hx as [Hx|Hx].
    + eapply named_false_entity; [right; eexists; reflexivity|exact Hx].
    + eapply named_false_comp; [reflexivity|reflexivity|reflexivity|exact Hx].
  - intros x Hx. apply in_app3 in Hx. destruct Hx as [Hx|[Hx|Hx]].
    + eapply (named_false_tbl TAnyEntityEvent); [reflexivity|exact Hx].
    + eapply (named_false_tbl TResource); [reflexivity|exact Hx].
    + eapply (named_false_tbl TBroadcast); [reflexivity|exact Hx].
Qed.

(* the component table *)
Definition ckind_trigger (kd : ckind) (c : N) : trigger := match kd with KIns => TIns c | KMut => TMut c | KRem => TRem c end.

Lemma comp_entries_remove kd c s i m r :
  comp_entries_of (c, match kd with
                      | KIns => (snd (remove_first s i), m, r) | KMut => (i, snd (remove_first s m), r) | KRem => (i, m, snd (remove_first s r)) end)
  = remove_first_p (named s (ckind_trigger kd c)) (comp_entries_of (c, (i, m, r))).
Proof.
  unfold comp_entries_of. cbn [fst snd].
  assert (Hf : forall (T T' : trigger) l, trigger_eqb T T' = false -> forall x, In x (map (pair T) l) -> named s T' x = false).
  { intros T T' l HT x Hx. apply in_map_iff in Hx. destruct Hx as (h & <- & _). unfold named. cbn [fst]. now rewrite HT. }
  destruct kd; cbn [ckind_trigger].
  - rewrite (remove_first_entries (TIns c) s i).
    change (map (pair (TIns c)) i ++ map (pair (TMut c)) m ++ map (pair (TRem c)) r)
      with ([] ++ map (pair (TIns c)) i ++ (map (pair (TMut c)) m ++ map (pair (TRem c)) r)).
    rewrite (remove_first_p_mid (named s (TIns c)) [] (map (pair (TIns c)) i) (remove_first_p (named s (TIns c)) (map (pair (TIns c)) i)) (map (pair (TMut c)) m ++ map (pair (TRem c)) r));
      [reflexivity|intros x []| |reflexivity].
    intros x Hx. apply in_app_iff in Hx. destruct Hx as [Hx|Hx]; eapply Hf; try exact Hx; reflexivity.
  - rewrite (remove_first_entries (TMut c) s m).
    rewrite (remove_first_p_mid (named s (TMut c)) (map (pair (TIns c)) i) (map (pair (TMut c)) m) (remove_first_p (named s (TMut c)) (map (pair (TMut c)) m)) (map (pair (TRem c)) r));
      [reflexivity| | |reflexivity]; intros x Hx; eapply Hf; try exact Hx; reflexivity.
  - rewrite (remove_first_entries (TRem c) s r).
    replace (map (pair (TIns c)) i ++ map (pair (TMut c)) m ++ map (pair (TRem c)) r)
      with ((map (pair (TIns c)) i ++ map (pair (TMut c)) m) ++ map (pair (TRem c)) r ++ []) by (rewrite app_nil_r, <- app_assoc; reflexivity).
    rewrite (remove_first_p_mid (named s (TRem c)) (map (pair (TIns c)) i ++ map (pair (TMut c)) m) (map (pair (TRem c)) r) (remove_first_p (named s (TRem c)) (map (pair (TRem c)) r)) []);
      [rewrite app_nil_r, <- app_assoc; reflexivity| |intros x []|reflexivity].
    intros x Hx. apply in_app_iff in Hx. destruct Hx as [Hx|Hx]; eapply Hf; try exact Hx; reflexivity.
Qed.

Lemma named_comp_other_key kd s c c0 i m r : c0 <> c ->
  forall x, In x (comp_entries_of (c0, (i, m, r))) -> named s (ckind_trigger kd c) x = false.
Proof.
  intros Hne x Hx. unfold comp_entries_of in Hx. cbn [fst snd] in Hx. rewrite !in_app_iff in Hx.
  destruct Hx as [Hx|[Hx|Hx]]; apply in_map_iff in Hx; destruct Hx as (h & <- & _); unfold named; cbn [fst];
    destruct kd; cbn; try reflexivity; (destruct (N.eqb_spec c0 c); [congruence|reflexivity]).
Qed.

(* an all-empty entry contributes no registration: removing the key is the same as keeping it empty *)
Lemma comp_aremove_empty c (tbl : list (N * (list handle * list handle * list handle))) v :
  NoDup (map fst tbl) -> alookup c tbl = Some v ->
  flat_map comp_entries_of (aremove c tbl) = flat_map comp_entries_of (aset c ([], [], []) tbl).
Proof.
  intros Hd E. induction tbl as [|[c0 v0] tbl IH]; cbn in E; [discriminate|]. inversion Hd as [|? ? Hn Hd']; subst.
  cbn [aremove aset]. destruct (N.eqb_spec c c0) as [->|Hne].
  - cbn [flat_map]. rewrite (aremove_notin c0 tbl Hn). reflexivity.
  - cbn [flat_map]. f_equal. apply IH; assumption.
Qed.

Lemma comp_revoke_entries kd c s w : wf_tables w ->
  regs_comp (comp_revoke kd c s w) = remove_first_p (named s (ckind_trigger kd c)) (regs_comp w)
  /\ tview (comp_revoke kd c s w) = (ereactors w, comp_tbl (comp_revoke kd c s w), desp_tbl w, any_tbl w, res_tbl w, bc_tbl w).
Proof.
  intros Hwf. pose proof (wf_comp w Hwf) as Hd. unfold regs_comp, comp_revoke.
  destruct (alookup c (comp_tbl w)) as [[[i m] r]|] eqn:E.
  - pose proof (comp_entries_remove kd c s i m r) as HR.
    destruct (remove_first s match kd with KIns => i | KMut => m | KRem => r end) as [o l'] eqn:ER.
    set (x := match kd with KIns => (l', m, r) | KMut => (i, l', r) | KRem => (i, m, l') end).
    assert (Hx : x = match kd with
                     | KIns => (snd (remove_first s i), m, r) | KMut => (i, snd (remove_first s m), r) | KRem => (i, m, snd (remove_first s r)) end).
    { subst x. destruct kd; rewrite ER; reflexivity. }
    rewrite <- Hx in HR. destruct x as [[i' m'] r'] eqn:Ex.
    set (w1 := match i', m', r' with
               | [], [], [] => w <| comp_tbl := aremove c (comp_tbl w) |>
               | _, _, _ => w <| comp_tbl := aset c (i', m', r') (comp_tbl w) |> end).
    assert (H1 : flat_map comp_entries_of (comp_tbl w1) = remove_first_p (named s (ckind_trigger kd c)) (flat_map comp_entries_of (comp_tbl w))
                 /\ tview w1 = (ereactors w, comp_tbl w1, desp_tbl w, any_tbl w, res_tbl w, bc_tbl w)).
    { split; [|subst w1; destruct i'; [destruct m'; [destruct r'|]|]; reflexivity].
      assert (Hgen : flat_map comp_entries_of (comp_tbl w1) = flat_map comp_entries_of (aset c (i', m', r') (comp_tbl w))).
      { subst w1. destruct i'; [destruct m'; [destruct r'|]|]; try reflexivity.
        exact (comp_aremove_empty c (comp_tbl w) (i, m, r) Hd E). }
      rewrite Hgen. clear Hgen w1.
      induction (comp_tbl w) as [|[c0 [[i0 m0] r0]] tbl IH]; cbn in E; [discriminate|]. inversion Hd as [|? ? Hn Hd']; subst.
      cbn [aset flat_map]. destruct (N.eqb_spec c c0) as [->|Hne].
      - inversion E; subst. cbn [flat_map]. rewrite HR.
        assert (Hrest : forall y, In y (flat_map comp_entries_of tbl) -> named s (ckind_trigger kd c0) y = false).
        { intros y Hy. apply in_flat_map in Hy. destruct Hy as ([c1 [[i1 m1] r1]] & Hin & Hy).
          eapply (named_comp_other_key kd s c0 c1); [|exact Hy]. intros ->. apply Hn. apply (in_map fst) in Hin. exact Hin. }
        change (comp_entries_of (c0, (i, m, r)) ++ flat_map comp_entries_of tbl)
          with ([] ++ comp_entries_of (c0, (i, m, r)) ++ flat_map comp_entries_of tbl).
        rewrite (remove_first_p_mid (named s (ckind_trigger kd c0)) [] (comp_entries_of (c0, (i, m, r))) (remove_first_p (named s (ckind_trigger kd c0)) (comp_entries_of (c0, (i, m, r)))) (flat_map comp_entries_of tbl));
          [reflexivity|intros y []|exact Hrest|reflexivity].
      - cbn [flat_map]. rewrite remove_first_p_app_false by (apply named_comp_other_key; congruence). f_equal. apply IH; assumption. }
    destruct H1 as [H1 H2]. destruct o as [h|].
    + destruct (handle_drop_view h w1) as [Hv _]. unfold tview in Hv, H2 |- *. inversion Hv as [[V1 V2 V3 V4 V5 V6]]. inversion H2 as [[U1 U3 U4 U5 U6]].
      rewrite V2. split; [exact H1|]. rewrite V1, V3, V4, V5, V6, U1, U3, U4, U5, U6. reflexivity.
    + split; [exact H1|exact H2].
  - split; [|reflexivity]. symmetry. apply remove_first_p_none.
    intros x Hx. apply in_flat_map in Hx. destruct Hx as ([c1 [[i1 m1] r1]] & Hin & Hx).
    eapply (named_comp_other_key kd s c c1); [|exact Hx]. intros ->. apply alookup_None in E. apply E. apply (in_map fst) in Hin. exact Hin.
Qed.

Theorem revoke_comp_spec kd s c w : wf_tables w ->
  regs (comp_revoke kd c s w) = remove_first_p (named s (ckind_trigger kd c)) (regs w).
Proof.
  intros Hwf. destruct (comp_revoke_entries kd c s w Hwf) as [HC HV].
  unfold tview in HV. inversion HV as [[V1 V3 V4 V5 V6]].
  unfold regs at 1. unfold regs_entity, regs_desp, regs_any, regs_res, regs_bc. rewrite V1, V3, V4, V5, V6, HC.
  unfold regs.
  change (regs_entity w ++ regs_comp w ++ regs_desp w ++ regs_any w ++ regs_res w ++ regs_bc w)
    with (regs_entity w ++ regs_comp w ++ (regs_desp w ++ regs_any w ++ regs_res w ++ regs_bc w)).
  rewrite (remove_first_p_mid (named s (ckind_trigger kd c)) (regs_entity w) (regs_comp w) (remove_first_p (named s (ckind_trigger kd c)) (regs_comp w)) (regs_desp w ++ regs_any w ++ regs_res w ++ regs_bc w));
    [reflexivity| | |reflexivity].
  - apply named_false_entity. left. destruct kd; reflexivity.
  - intros x Hx. rewrite !in_app_iff in Hx. destruct Hx as [Hx|[Hx|[Hx|Hx]]].
    + eapply (named_false_tbl TDespawn); [destruct kd; reflexivity|exact Hx].
    + eapply (named_false_tbl TAnyEntityEvent); [destruct kd; reflexivity|exact Hx].
    + eapply (named_false_tbl TResource); [destruct kd; reflexivity|exact Hx].
    + eapply (named_false_tbl TBroadcast); [destruct kd; reflexivity|exact Hx].
Qed.

(* entity-scoped revocation: every entry of that reactor with that type on that entity disappears (drain_filter) *)
Definition ertype_of_trigger (t : trigger) : option (ent * ertype) :=
  match t with
  | TEIns c e => Some (e, RIns c) | TEMut c e => Some (e, RMut c) | TERem c e => Some (e, RRem c)
  | TEntityEvent ty e => Some (e, REvent ty) | _ => None end.

Lemma er_trigger_eqb e0 rt0 e rt : trigger_eqb (er_trigger e0 rt0) (er_trigger e rt) = ertype_eqb rt0 rt && N.eqb e0 e.
Proof. destruct rt0, rt; reflexivity. Qed.

Lemma er_remove_entries rt s e l :
  er_entries (e, snd (er_remove rt s l)) = filter (fun x => negb (named s (er_trigger e rt) x)) (er_entries (e, l)).
Proof.
  unfold er_entries. cbn [fst snd]. induction l as [|[rt0 h] l IH]; cbn [er_remove map filter]; [reflexivity|].
  destruct (er_remove rt s l) as [d k] eqn:E. cbn [snd] in IH.
  unfold named at 1. cbn [fst snd]. rewrite er_trigger_eqb, N.eqb_refl, andb_true_r.
  destruct (ertype_eqb rt0 rt && N.eqb (handle_sys h) s); cbn [negb snd map]; [exact IH|f_equal; exact IH].
Qed.

Lemma named_entity_other s e rt e0 l : e0 <> e -> forall x, In x (er_entries (e0, l)) -> named s (er_trigger e rt) x = false.
Proof.
  intros Hne x Hx. unfold er_entries in Hx. cbn [fst snd] in Hx. apply in_map_iff in Hx. destruct Hx as ([rt0 h] & <- & _).
  unfold named. cbn [fst snd]. rewrite er_trigger_eqb. destruct (N.eqb_spec e0 e); [congruence|]. now rewrite andb_false_r.
Qed.

Lemma named_entity_false_tbl (T : N -> trigger) s e rt tbl : (forall k, trigger_eqb (T k) (er_trigger e rt) = false) ->
  forall x, In x (flat_map (tbl_entries T) tbl) -> named s (er_trigger e rt) x = false.
Proof. apply named_false_tbl. Qed.

Lemma er_aset_filter s e rt l k tbl : NoDup (map fst tbl) -> alookup e tbl = Some l ->
  er_entries (e, k) = filter (fun x => negb (named s (er_trigger e rt) x)) (er_entries (e, l)) ->
  flat_map er_entries (aset e k tbl) = filter (fun x => negb (named s (er_trigger e rt) x)) (flat_map er_entries tbl).
Proof.
  intros Hd E HR. induction tbl as [|[e0 l0] tbl IH]; cbn in E; [discriminate|].
  inversion Hd as [|? ? Hn Hd']; subst. cbn [aset flat_map]. destruct (N.eqb_spec e e0) as [->|Hne].
  - inversion E; subst. cbn [flat_map]. rewrite filter_app, <- HR. f_equal. symmetry. apply filter_all.
    intros x Hx. apply in_flat_map in Hx. destruct Hx as ([e1 l1] & Hin & Hx).
    rewrite (named_entity_other s e0 rt e1 l1); [reflexivity| |exact Hx]. intros ->. apply Hn. apply (in_map fst) in Hin. exact Hin.
  - cbn [flat_map]. rewrite filter_app. f_equal; [|apply IH; assumption].
    symmetry. apply filter_all. intros x Hx. rewrite (named_entity_other s e rt e0 l0); [reflexivity|congruence|exact Hx].
Qed.

Theorem revoke_entity_spec s e rt w : wf_tables w ->
  let w' := if is_alive e w then
              match alookup e (ereactors w) with
              | Some l => let (d, k) := er_remove rt s l in handles_drop d (w <| ereactors := aset e k (ereactors w) |>)
              | None => w end else w in
  regs w' = filter (fun x => negb (named s (er_trigger e rt) x)) (regs w).
Proof.
  intros Hwf w'.
  assert (Hother : forall l, (forall x, In x l -> named s (er_trigger e rt) x = false) -> filter (fun x => negb (named s (er_trigger e rt) x)) l = l).
  { intros l H. apply filter_all. intros x Hx. now rewrite (H x Hx). }
  assert (Hrest : filter (fun x => negb (named s (er_trigger e rt) x)) (regs_comp w ++ regs_desp w ++ regs_any w ++ regs_res w ++ regs_bc w)
                  = regs_comp w ++ regs_desp w ++ regs_any w ++ regs_res w ++ regs_bc w).
  { apply Hother. intros x Hx. rewrite !in_app_iff in Hx. destruct Hx as [Hx|[Hx|[Hx|[Hx|Hx]]]].
    - eapply named_false_comp; [| | |exact Hx]; intros c; destruct rt; reflexivity.
    - eapply (named_false_tbl TDespawn); [|exact Hx]. intros k; destruct rt; reflexivity.
    - eapply (named_false_tbl TAnyEntityEvent); [|exact Hx]. intros k; destruct rt; reflexivity.
    - eapply (named_false_tbl TResource); [|exact Hx]. intros k; destruct rt; reflexivity.
    - eapply (named_false_tbl TBroadcast); [|exact Hx]. intros k; destruct rt; reflexivity. }
  assert (Hnokey : alookup e (ereactors w) = None -> filter (fun x => negb (named s (er_trigger e rt) x)) (regs_entity w) = regs_entity w).
  { intros E. apply Hother. intros x Hx. unfold regs_entity in Hx. apply in_flat_map in Hx. destruct Hx as ([e0 l0] & Hin & Hx).
    eapply (named_entity_other s e rt e0 l0); [|exact Hx]. intros ->. apply alookup_None in E. apply E. apply (in_map fst) in Hin. exact Hin. }
  unfold regs at 2. rewrite filter_app, Hrest.
  destruct (alookup e (ereactors w)) as [l|] eqn:E.
  - assert (EA : is_alive e w = true) by (apply (wf_er_alive w Hwf); eapply alookup_Some_key; eauto).
    subst w'. rewrite EA. pose proof (er_remove_entries rt s e l) as HR. destruct (er_remove rt s l) as [d k]. cbn [snd] in HR.
    rewrite (regs_frame _ _ (proj1 (handles_drop_view d _))). unfold regs. f_equal.
    unfold regs_entity. cbn [ereactors]. exact (er_aset_filter s e rt l k (ereactors w) (wf_er w Hwf) E HR).
  - rewrite (Hnokey eq_refl). subst w'. destruct (is_alive e w); reflexivity.
Qed.

(* ---------- the revocation theorem, for every trigger kind (S1: type-wide tables drop the first match, the
   per-entity component drops all matches) ---------- *)
Definition removes_all (t : trigger) : bool := match ertype_of_trigger t with Some _ => true | None => false end.

Theorem revoke_one_spec s t w : wf_tables w ->
  regs (revoke_one s t w) =
  if removes_all t then filter (fun x => negb (named s t x)) (regs w) else remove_first_p (named s t) (regs w).
Proof.
  intros Hwf. destruct t; cbn [removes_all ertype_of_trigger].
  - apply revoke_broadcast_spec; exact Hwf.
  - apply (revoke_entity_spec s e (REvent ty) w Hwf).
  - apply revoke_any_spec; exact Hwf.
  - apply revoke_resource_spec; exact Hwf.
  - apply (revoke_comp_spec KIns); exact Hwf.
  - apply (revoke_comp_spec KMut); exact Hwf.
  - apply (revoke_comp_spec KRem); exact Hwf.
  - apply (revoke_entity_spec s e (RIns c) w Hwf).
  - apply (revoke_entity_spec s e (RMut c) w Hwf).
  - apply (revoke_entity_spec s e (RRem c) w Hwf).
  - apply revoke_despawn_spec; exact Hwf.
Qed.

(* no duplicate registration of one reactor under one key (the documented usage; S1) *)
Definition distinct_regs (w : world) : Prop :=
  forall s t, (length (filter (named s t) (regs w)) <= 1)%nat.

Corollary revoke_one_distinct s t w : wf_tables w -> distinct_regs w ->
  regs (revoke_one s t w) = filter (fun x => negb (named s t x)) (regs w).
Proof.
  intros Hwf Hd. rewrite revoke_one_spec by exact Hwf. destruct (removes_all t); [reflexivity|].
  apply remove_first_is_filter. apply Hd.
Qed.

(* complete: afterwards no registration of s under t is left;  local: every other registration is kept, in order *)
Corollary revoke_complete s t w x : wf_tables w -> distinct_regs w -> In x (regs (revoke_one s t w)) -> named s t x = false.
Proof.
  intros Hwf Hd Hin. rewrite revoke_one_distinct in Hin by assumption. apply filter_In in Hin. destruct Hin as [_ H].
  destruct (named s t x); [discriminate|reflexivity].
Qed.
Corollary revoke_local s t w x : wf_tables w -> named s t x = false -> In x (regs w) -> In x (regs (revoke_one s t w)).
Proof.
  intros Hwf Hn Hin. rewrite revoke_one_spec by exact Hwf. destruct (removes_all t).
  - apply filter_In. split; [exact Hin|now rewrite Hn].
  - clear Hwf. induction (regs w) as [|y l IH]; [contradiction|]. cbn. destruct Hin as [->|Hin].
    + rewrite Hn. left. reflexivity.
    + destruct (named s t y); [exact Hin|right; apply IH; exact Hin].
Qed.
(* revoking again changes no registration *)
Corollary revoke_idempotent s t w : wf_tables w -> distinct_regs w ->
  regs (revoke_one s t (revoke_one s t w)) = regs (revoke_one s t w).
Proof.
  intros Hwf Hd. rewrite (revoke_one_spec s t (revoke_one s t w)) by (apply wf_revoke_one; exact Hwf).
  assert (Hnone : forall x, In x (regs (revoke_one s t w)) -> named s t x = false) by (intros x; apply revoke_complete; assumption).
  destruct (removes_all t).
  - apply filter_all. intros x Hx. now rewrite (Hnone x Hx).
  - apply remove_first_p_none. exact Hnone.
Qed.

(* after the revocation, the very next dispatch of any key schedules s only through registrations the token did not name *)
Corollary revoke_then_dispatch s t w k : wf_tables w -> distinct_regs w ->
  spec_targets k (revoke_one s t w) = map (fun x => handle_sys (snd x)) (filter (fun x => negb (named s t x)) (sel k (regs w))).
Proof.
  intros Hwf Hd. unfold spec_targets. rewrite revoke_one_distinct by assumption. f_equal.
  unfold sel. induction (regs w) as [|x l IH]; cbn; [reflexivity|].
  destruct (named s t x) eqn:En, (matches (fst x) k) eqn:Em; cbn; rewrite ?En, ?Em; cbn; try exact IH; f_equal; exact IH.
Qed.

(* ================================================================================================================ *)
(* C01 at the level of the commands applied by the interpreter                                                      *)
Definition reaction_target (c : cmd) : option ent :=
  match c with
  | CReact (RcResource t) | CReact (RcEntity _ _ t) | CReact (RcDespawn _ t _) | CReact (RcEntityEvent _ _ t) | CReact (RcBroadcast _ t) => Some t
  | _ => None end.
Fixpoint reaction_targets (cs : list cmd) : list ent :=
  match cs with [] => [] | c :: r => match reaction_target c with Some t => t :: reaction_targets r | None => reaction_targets r end end.

(* the key a trigger command carries; an insertion whose component is not there carries none (C14) *)
Definition trigger_key (c : cmd) (w : world) : option tkey :=
  match c with
  | CBroadcast ty _ => Some (KBroadcast ty)
  | CEntityEvent ty e _ => Some (KEntityEvent ty e)
  | CTrigRes r => Some (KResource r)
  | CSchedIns c e => if is_alive e w && (match alookup2 c e (comps w) with Some _ => true | None => false end) then Some (KInsertion c e) else None
  | CSchedMut c e => Some (KMutation c e)
  | _ => None end.

Lemma reaction_targets_map {A} (f : A -> cmd) (g : A -> ent) l :
  (forall a, reaction_target (f a) = Some (g a)) -> reaction_targets (map f l) = map g l.
Proof. intros H. induction l as [|a l IH]; cbn; [reflexivity|]. rewrite H. f_equal. exact IH. Qed.

Theorem dispatch_cmd_exact P c w k : wf_tables w -> trigger_key c w = Some k ->
  reaction_targets (snd (apply_prim P c w)) = spec_targets k w.
Proof.
  intros Hwf Hk. destruct c; try discriminate Hk; cbn [trigger_key] in Hk; cbn [apply_prim].
  - (* broadcast *) inversion Hk; subst. rewrite <- dispatch_broadcast by exact Hwf.
    destruct (tbl_get ty (bc_tbl w)) as [|h hs] eqn:E; [reflexivity|]. cbn [snd reaction_targets reaction_target].
    rewrite (reaction_targets_map _ handle_sys) by reflexivity. reflexivity.
  - (* entity event *) inversion Hk; subst. rewrite <- dispatch_entity_event by exact Hwf.
    destruct (entity_targets e (REvent ty) w ++ map handle_sys (tbl_get ty (any_tbl w))) as [|t ts] eqn:E; [reflexivity|].
    cbn [snd reaction_targets reaction_target]. rewrite (reaction_targets_map _ (fun t => t)) by reflexivity. rewrite map_id. reflexivity.
  - (* resource *) inversion Hk; subst. rewrite <- dispatch_resource by exact Hwf. cbn [snd].
    rewrite (reaction_targets_map _ (fun t => t)) by reflexivity. apply map_id.
  - (* insertion *)
    destruct (is_alive e w && match alookup2 c e (comps w) with Some _ => true | None => false end); [|discriminate Hk].
    inversion Hk; subst. rewrite <- dispatch_insertion by exact Hwf. cbn [snd].
    rewrite (reaction_targets_map _ (fun t => t)) by reflexivity. apply map_id.
  - (* mutation *) inversion Hk; subst. rewrite <- dispatch_mutation by exact Hwf. cbn [snd].
    rewrite (reaction_targets_map _ (fun t => t)) by reflexivity. apply map_id.
Qed.

(* commands that are not triggers schedule no reaction at all; poll is the removal/despawn dispatcher (C08) *)
Definition is_trigger_cmd (c : cmd) : bool :=
  match c with CBroadcast _ _ | CEntityEvent _ _ _ | CTrigRes _ | CSchedIns _ _ | CSchedMut _ _ | CPoll => true | _ => false end.
Theorem non_trigger_schedules_nothing P c w : is_trigger_cmd c = false -> reaction_targets (snd (apply_prim P c w)) = [].
Proof.
  intros H. destruct c; try discriminate H; cbn [apply_prim]; try reflexivity;
  repeat match goal with
         | |- context [if ?b then _ else _] => destruct b
         | |- context [match alookup ?a ?c with _ => _ end] => destruct (alookup a c) as [[? ?]|]
         | |- context [match alookup2 ?a ?b ?c with _ => _ end] => destruct (alookup2 a b c)
         end; try reflexivity.
  - (* CRegister *)
    assert (Hg : forall h w0, reaction_targets (snd (reg_triggers_cmds h b w0)) = []).
    { clear H. intros h. induction b as [|t b IH]; intros w0; cbn [reg_triggers_cmds]; [reflexivity|].
      destruct (reg_trigger_cmds h t w0) as [w1 c1] eqn:E1. destruct (reg_triggers_cmds h b w1) as [w2 c2] eqn:E2. cbn [snd].
      specialize (IH w1). rewrite E2 in IH. cbn [snd] in IH.
      assert (H1 : reaction_targets c1 = []) by (destruct t; cbn in E1; try (inversion E1; subst; reflexivity); destruct (is_alive e w0); inversion E1; subst; reflexivity).
      clear -H1 IH. induction c1 as [|c c1 IHc]; cbn; [exact IH|]. cbn in H1. destruct (reaction_target c); [discriminate|]. apply IHc. exact H1. }
    destruct m; [|destruct (sig_new s w) as [g w1]|destruct (sig_new s w) as [g w1]];
      match goal with |- context [reg_triggers_cmds ?h b ?w0] => specialize (Hg h w0); destruct (reg_triggers_cmds h b w0) end; exact Hg.
  - destruct tk. reflexivity.
  - cbn [snd]. generalize (unique_entities [] b). intros ul. cbn. induction ul; cbn; auto.
Qed.

(* ---------- a whole token (all triggers of one registration call) ---------- *)
Lemma filter_filter_len {A} (p q : A -> bool) l : (length (filter p (filter q l)) <= length (filter p l))%nat.
Proof.
  induction l as [|x l IH]; cbn [filter]; [lia|]. destruct (q x); cbn [filter]; destruct (p x); cbn [length]; lia.
Qed.
Lemma distinct_revoke_one s t w : wf_tables w -> distinct_regs w -> distinct_regs (revoke_one s t w).
Proof.
  intros Hwf Hd s0 t0. rewrite revoke_one_distinct by assumption. eapply Nat.le_trans; [apply filter_filter_len|apply Hd].
Qed.
Lemma filter_filter_and {A} (p q : A -> bool) l : filter p (filter q l) = filter (fun x => q x && p x) l.
Proof. induction l as [|x l IH]; cbn [filter]; [reflexivity|]. destruct (q x); cbn [filter andb]; [destruct (p x); rewrite IH; reflexivity|exact IH]. Qed.
Theorem revoke_all_distinct s ts : forall w, wf_tables w -> distinct_regs w ->
  regs (revoke_all s ts w) = filter (fun x => negb (existsb (fun t => named s t x) ts)) (regs w)
  /\ wf_tables (revoke_all s ts w) /\ distinct_regs (revoke_all s ts w).
Proof.
  induction ts as [|t ts IH]; intros w Hwf Hd; cbn [revoke_all existsb].
  - split; [|split; assumption]. induction (regs w) as [|x l IHl]; cbn; [reflexivity|]. f_equal. exact IHl.
  - pose proof (wf_revoke_all s [t] w Hwf) as Hwf1. cbn [revoke_all] in Hwf1.
    pose proof (distinct_revoke_one s t w Hwf Hd) as Hd1.
    destruct (IH (revoke_one s t w) Hwf1 Hd1) as (E & W2 & D2). split; [|split; assumption].
    rewrite E, revoke_one_distinct by assumption. rewrite filter_filter_and. apply filter_ext. intros x.
    destruct (named s t x); reflexivity.
Qed.
