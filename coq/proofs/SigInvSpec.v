(* SigInvSpec.v — C07: the signal table is well formed in every reachable state: every live signal has a positive
   count, ids are pairwise distinct and below the id counter (so a new signal never collides with a live one). *)
From Cobweb Require Import Machine.
From CobwebProofs Require Import ListLemmas Closed.

Definition ssv (w : world) := (sigs w, next_sig w).
Definition SigInv (w : world) : Prop :=
  (forall g e n, In (g, (e, n)) (sigs w) -> 1 <= n /\ g < next_sig w) /\ NoDup (map fst (sigs w)).
Definition si_ok (w w' : world) : Prop := SigInv w -> SigInv w'.
Lemma si_refl w : si_ok w w. Proof. intros H; exact H. Qed.
Lemma si_trans w1 w2 w3 : si_ok w1 w2 -> si_ok w2 w3 -> si_ok w1 w3.
Proof. intros H1 H2 H. apply H2, H1, H. Qed.
Lemma si_eq w w' : ssv w' = ssv w -> si_ok w w'.
Proof. unfold ssv, si_ok, SigInv. intros H. inversion H as [[E1 E2]]. rewrite E1, E2. auto. Qed.
Ltac si_eq_tac := apply si_eq; reflexivity.

Lemma ssv_push_removed_all cs e : forall w, ssv (push_removed_all cs e w) = ssv w.
Proof. induction cs as [|c cs IH]; intros w; cbn; [reflexivity|]. rewrite IH. reflexivity. Qed.
Lemma ssv_drop_callback t w : ssv (drop_callback t w) = ssv w.
Proof. unfold drop_callback. destruct (alookup t (cbs w)) as [cb|]; [destruct (cb_live cb)|]; reflexivity. Qed.
Lemma ssv_drop_ddata d w : ssv (drop_ddata d w) = ssv w.
Proof. destruct d as [? ? ?|? ? ? ?|? [?|]]; reflexivity. Qed.
Lemma ssv_take_sysevents tys : forall w, ssv (snd (take_sysevents tys w)) = ssv w.
Proof.
  induction tys as [|ty r IH]; intros w; cbn [take_sysevents]; [reflexivity|].
  destruct (peek_sysevent ty w) as [p|]; [|apply IH].
  match goal with |- context [take_sysevents r ?w1] => specialize (IH w1); destruct (take_sysevents r w1) end. exact IH.
Qed.
Lemma ssv_sample_readers sd x w : ssv (snd (sample_readers sd x w)) = ssv w.
Proof.
  unfold sample_readers. pose proof (ssv_take_sysevents TYPES w) as H1.
  destruct (sd_take sd); [destruct (take_sysevents TYPES w) as [s w1]; exact H1|reflexivity].
Qed.
Lemma ssv_poll_despawns chan : forall w, ssv (fst (poll_despawns chan w)) = ssv w.
Proof.
  induction chan as [|e r IH]; intros w; cbn [poll_despawns]; [reflexivity|].
  specialize (IH (w <| desp_tbl := aremove e (desp_tbl w) |>)). destruct (poll_despawns r _) as [w2 cs]. exact IH.
Qed.
Lemma ssv_poll w : ssv (fst (poll w)) = ssv w.
Proof.
  unfold poll. destruct (poll_removals (removal_checkers w) w) as [chk c1].
  pose proof (ssv_poll_despawns (despawn_chan (w <| removal_checkers := chk |>)) ((w <| removal_checkers := chk |>) <| despawn_chan := [] |>)) as H.
  destruct (poll_despawns _ _) as [w2 c2]. exact H.
Qed.
Lemma ssv_comp_push kd c h w : ssv (comp_push kd c h w) = ssv w.
Proof. unfold comp_push. destruct (alookup c (comp_tbl w)) as [[[i m] r]|]; destruct kd; reflexivity. Qed.
Lemma ssv_dsp_comps e w : ssv (dsp_comps e w) = ssv w.
Proof. unfold dsp_comps. etransitivity; [|apply (ssv_push_removed_all (comps_of e (comps w)) e w)]. reflexivity. Qed.
Lemma ssv_dsp_storage e w : ssv (dsp_storage e w) = ssv w.
Proof.
  unfold dsp_storage. destruct (alookup e (storage w)) as [[|]|]; try reflexivity.
  etransitivity; [|apply (ssv_drop_callback e w)]. reflexivity.
Qed.
Lemma ssv_dsp_tracker e w : ssv (dsp_tracker e w) = ssv w.
Proof. unfold dsp_tracker. destruct (memN e (dtrackers w)); reflexivity. Qed.
Lemma ssv_dsp_data e w : ssv (dsp_data e w) = ssv w.
Proof.
  unfold dsp_data. destruct (alookup e (dataents w)) as [d|]; [|reflexivity].
  etransitivity; [|apply (ssv_drop_ddata d w)]. reflexivity.
Qed.
Lemma ssv_dsp_alive e w : ssv (dsp_alive e w) = ssv w. Proof. reflexivity. Qed.
Lemma ssv_dsp_xlocals e w : ssv (dsp_xlocals e w) = ssv w. Proof. reflexivity. Qed.
Lemma ssv_reserve id w : ssv (reserve id w) = ssv w.
Proof. unfold reserve, bind_id. destruct (memN id (bound w)); reflexivity. Qed.

Require Import Coq.Sorting.Permutation.
Lemma NoDup_app_snoc_N {A} (l : list A) x : NoDup l -> ~ In x l -> NoDup (l ++ [x]).
Proof. intros H Hn. eapply Permutation_NoDup; [apply Permutation_cons_append|]. constructor; assumption. Qed.
Lemma in_aset_val {V} k (v : V) l x : In x (aset k v l) -> In x l \/ x = (k, v).
Proof.
  induction l as [|[k' v'] l IH]; cbn [aset]; [intros [<-|[]]; auto|].
  destruct (N.eqb k k'); cbn [In]; [intros [<-|H]; auto|intros [<-|H]; [auto|destruct (IH H); auto]].
Qed.
Lemma in_aremove_val {V} k (l : list (N * V)) x : In x (aremove k l) -> In x l.
Proof. induction l as [|[k' v'] l IH]; cbn [aremove]; [auto|]. destruct (N.eqb k k'); cbn [In]; [auto|intros [<-|H]; auto]. Qed.
Lemma aremove_NoDup {V} k (l : list (N * V)) : NoDup (map fst l) -> NoDup (map fst (aremove k l)).
Proof.
  induction l as [|[k' v'] l IH]; cbn [aremove map fst]; [auto|]. intros H. inversion H as [|? ? Hn Hd]; subst.
  destruct (N.eqb k k'); [apply IH; exact Hd|]. cbn [map fst]. constructor; [|apply IH; exact Hd].
  intros Hin. apply Hn. apply aremove_keys in Hin. exact (proj1 Hin).
Qed.

(* handles *)
Lemma si_handle_clone h w : si_ok w (handle_clone h w).
Proof.
  destruct h as [s|g s]; cbn; [apply si_refl|]. unfold sig_clone. destruct (alookup g (sigs w)) as [[e n]|] eqn:E; [|apply si_refl].
  intros [H1 H2]. pose proof (alookup_In _ _ _ E) as Hin. split; cbn [sigs next_sig set].
  - intros g' e' n' Hx. apply in_aset_val in Hx. destruct Hx as [Hx|Hx]; [exact (H1 _ _ _ Hx)|]. inversion Hx; subst. destruct (H1 _ _ _ Hin). split; lia.
  - apply aset_NoDup. exact H2.
Qed.
Lemma si_handle_drop h w : si_ok w (handle_drop h w).
Proof.
  destruct h as [s|g s]; cbn; [apply si_refl|]. unfold sig_drop. destruct (alookup g (sigs w)) as [[e n]|] eqn:E; [|apply si_refl].
  intros [H1 H2]. pose proof (alookup_In _ _ _ E) as Hin. destruct (N.leb n 1) eqn:El; split; cbn [sigs next_sig set].
  - intros g' e' n' Hx. apply in_aremove_val in Hx. exact (H1 _ _ _ Hx).
  - apply aremove_NoDup. exact H2.
  - intros g' e' n' Hx. apply in_aset_val in Hx. destruct Hx as [Hx|Hx]; [exact (H1 _ _ _ Hx)|]. inversion Hx; subst. apply N.leb_gt in El. destruct (H1 _ _ _ Hin). split; lia.
  - apply aset_NoDup. exact H2.
Qed.
Lemma si_handles_drop hs : forall w, si_ok w (handles_drop hs w).
Proof. induction hs as [|h hs IH]; intros w; cbn; [apply si_refl|]. eapply si_trans; [apply si_handle_drop|apply IH]. Qed.
Lemma si_sig_new e w : si_ok w (snd (sig_new e w)).
Proof.
  unfold sig_new. cbn [snd]. intros [H1 H2]. split; cbn [sigs next_sig set].
  - intros g' e' n' Hx. apply in_app_or in Hx. destruct Hx as [Hx|[Hx|[]]]; [destruct (H1 _ _ _ Hx); split; lia|]. inversion Hx; subst. split; lia.
  - rewrite map_app. cbn [map fst]. apply NoDup_app_snoc_N; [exact H2|]. intros Hin. apply in_map_iff in Hin. destruct Hin as ([g' [e' n']] & Hg & Hin).
    cbn in Hg. subst g'. destruct (H1 _ _ _ Hin). lia.
Qed.
Lemma si_revoke_one s t w : si_ok w (revoke_one s t w).
Proof.
  assert (Hent : forall e rt, si_ok w (if is_alive e w then
             match alookup e (ereactors w) with
             | Some l => let (d, k) := er_remove rt s l in handles_drop d (w <| ereactors := aset e k (ereactors w) |>)
             | None => w end else w)).
  { intros e rt. destruct (is_alive e w); [|apply si_refl]. destruct (alookup e (ereactors w)) as [l|]; [|apply si_refl].
    destruct (er_remove rt s l) as [d k]. eapply si_trans; [|apply si_handles_drop]. si_eq_tac. }
  assert (Hcomp : forall kd c, si_ok w (comp_revoke kd c s w)).
  { intros kd c. unfold comp_revoke. destruct (alookup c (comp_tbl w)) as [[[i m] r]|]; [|apply si_refl].
    destruct (remove_first s match kd with KIns => i | KMut => m | KRem => r end) as [o l'].
    destruct (match kd with KIns => (l', m, r) | KMut => (i, l', r) | KRem => (i, m, l') end) as [[i' m'] r'].
    destruct o as [h|]; (destruct i'; [destruct m'; [destruct r'|]|]); first [si_eq_tac | (eapply si_trans; [|apply si_handle_drop]; si_eq_tac)]. }
  destruct t; cbn [revoke_one]; try apply Hent; try apply Hcomp.
  - destruct (tbl_revoke ty s (bc_tbl w)) as [o t']. destruct o; first [si_eq_tac | (eapply si_trans; [|apply si_handle_drop]; si_eq_tac)].
  - destruct (tbl_revoke ty s (any_tbl w)) as [o t']. destruct o; first [si_eq_tac | (eapply si_trans; [|apply si_handle_drop]; si_eq_tac)].
  - destruct (tbl_revoke r s (res_tbl w)) as [o t']. destruct o; first [si_eq_tac | (eapply si_trans; [|apply si_handle_drop]; si_eq_tac)].
  - destruct (tbl_revoke e s (desp_tbl w)) as [o t']. destruct o; first [si_eq_tac | (eapply si_trans; [|apply si_handle_drop]; si_eq_tac)].
Qed.
Lemma si_revoke_all s ts : forall w, si_ok w (revoke_all s ts w).
Proof. induction ts as [|t ts IH]; intros w; cbn; [apply si_refl|]. eapply si_trans; [apply si_revoke_one|apply IH]. Qed.
Lemma si_reg_triggers_cmds h ts : forall w, si_ok w (fst (reg_triggers_cmds h ts w)).
Proof.
  induction ts as [|t ts IH]; intros w; cbn [reg_triggers_cmds]; [apply si_refl|].
  destruct (reg_trigger_cmds h t w) as [w1 c1] eqn:E1. pose proof (IH w1) as H2. destruct (reg_triggers_cmds h ts w1) as [w2 c2]. cbn [fst] in *.
  eapply si_trans; [|exact H2].
  destruct t; cbn in E1; try (inversion E1; subst; apply si_handle_clone).
  destruct (is_alive e w); inversion E1; subst; [apply si_handle_clone|apply si_refl].
Qed.
Lemma si_dsp_ereactors e w : si_ok w (dsp_ereactors e w).
Proof.
  unfold dsp_ereactors. destruct (alookup e (ereactors w)) as [l|]; [|si_eq_tac].
  eapply si_trans; [apply (si_handles_drop (map snd l) w)|]. si_eq_tac.
Qed.
Lemma si_despawn e w : si_ok w (despawn e w).
Proof.
  unfold despawn. destruct (negb (is_alive e w)); [apply si_refl|].
  eapply si_trans; [apply si_eq, ssv_dsp_alive|]. eapply si_trans; [apply si_eq, ssv_dsp_comps|]. eapply si_trans; [apply si_eq, ssv_dsp_storage|].
  eapply si_trans; [apply si_dsp_ereactors|]. eapply si_trans; [apply si_eq, ssv_dsp_tracker|]. eapply si_trans; [apply si_eq, ssv_dsp_data|].
  apply si_eq, ssv_dsp_xlocals.
Qed.
Lemma si_try_cleanup d w : si_ok w (try_cleanup_data_entity d w).
Proof.
  unfold try_cleanup_data_entity. destruct (negb (is_alive d w)); [apply si_refl|].
  destruct (alookup d (dataents w)) as [[ty p cnt|ty t p cnt|ty p]|]; try apply si_refl.
  - match goal with |- si_ok w (if ?b then despawn d ?w1 else ?w1) => destruct b; [eapply si_trans; [|apply si_despawn]|]; si_eq_tac end.
  - match goal with |- si_ok w (if ?b then despawn d ?w1 else ?w1) => destruct b; [eapply si_trans; [|apply si_despawn]|]; si_eq_tac end.
Qed.
Lemma si_run_cleanup cl w : si_ok w (run_cleanup cl w).
Proof.
  destruct cl; cbn [run_cleanup].
  - apply si_refl.
  - eapply si_trans; [|apply si_despawn]. si_eq_tac.
  - si_eq_tac.
  - destruct (snd (cur (tr_de w))) as [h|]; [eapply si_trans; [|apply si_handle_drop]|]; si_eq_tac.
  - eapply si_trans; [|apply si_try_cleanup]. si_eq_tac.
  - eapply si_trans; [|apply si_try_cleanup]. si_eq_tac.
Qed.
Lemma si_run_setup su t w w' : run_setup su t w = Some w' -> si_ok w w'.
Proof.
  intros E. destruct su; cbn [run_setup] in E;
    repeat match type of E with match ?x with _ => _ end = _ => destruct x; try discriminate E end; inversion E; subst; si_eq_tac.
Qed.

Section SiSteps.
Variable P : program.
Lemma si_act o a w : si_ok w (fst (act P o a w)).
Proof.
  destruct a; cbn [act];
  repeat match goal with
         | |- context [if ?b then _ else _] => destruct b
         | |- context [match alookup2 ?a ?b ?c with _ => _ end] => destruct (alookup2 a b c)
         | |- context [match alookup ?a ?c with _ => _ end] => destruct (alookup a c) as [[? ?]|]
         | |- context [match ?m with Persistent => _ | _ => _ end] => destruct m
         end; cbn [fst]; try (first [apply si_refl | si_eq_tac | (apply si_eq; apply ssv_reserve)]).
  all: try (destruct (alookup wr (p_wr P)); apply si_refl).
  all: try (apply si_eq; change (ssv (reserve s w) = ssv w); apply ssv_reserve).
Qed.
Lemma si_prim c w : si_ok w (fst (apply_prim P c w)).
Proof.
  destruct c; cbn [apply_prim]; try apply si_refl; try si_eq_tac.
  - destruct (is_alive d w); si_eq_tac.
  - destruct (tbl_get ty (bc_tbl w)); cbn [fst]; si_eq_tac.
  - destruct (entity_targets e (REvent ty) w ++ map handle_sys (tbl_get ty (any_tbl w))); cbn [fst]; si_eq_tac.
  - match goal with |- context [if ?b then _ else _] => destruct b end; cbn [fst]; first [apply si_refl | si_eq_tac].
  - destruct (is_alive e w); si_eq_tac.
  - destruct (is_alive e w); [|si_eq_tac]. destruct (alookup2 c e (comps w)); si_eq_tac.
  - apply si_despawn.
  - apply si_despawn.
  - destruct (is_alive s w && negb (memN s (spawned w))); si_eq_tac.
  - destruct (negb (is_alive s w)); [si_eq_tac|]. destruct (negb (memN s (spawned w))); si_eq_tac.
  - (* CRegister: prepare the handle (a new signal for the ref-counted modes), clone per trigger, drop it *)
    assert (Hh : forall h w0, si_ok w0 (fst (let (w1, cs) := reg_triggers_cmds h b w0 in (handle_drop h w1, cs)))).
    { intros h w0. pose proof (si_reg_triggers_cmds h b w0) as H1. destruct (reg_triggers_cmds h b w0) as [w1 cs]. cbn [fst] in *.
      eapply si_trans; [exact H1|apply si_handle_drop]. }
    destruct m; [apply Hh| |].
    + pose proof (si_sig_new s w) as Hn. destruct (sig_new s w) as [g w1]. cbn [snd] in Hn. eapply si_trans; [exact Hn|apply Hh].
    + pose proof (si_sig_new s w) as Hn. destruct (sig_new s w) as [g w1]. cbn [snd] in Hn. eapply si_trans; [exact Hn|apply Hh].
  - destruct t; cbn [fst]; try apply si_handle_drop; try si_eq_tac.
    + apply si_eq, ssv_comp_push.
    + apply si_eq, ssv_comp_push.
    + apply si_eq. rewrite ssv_comp_push. unfold track_removals. destruct (ahas c (removal_checkers w)); reflexivity.
  - destruct (is_alive e w); [destruct (alookup e (ereactors w)); si_eq_tac|apply si_handle_drop].
  - apply si_eq. unfold track_removals. destruct (ahas c (removal_checkers w)); reflexivity.
  - destruct (is_alive e w); [|apply si_handle_drop].
    match goal with |- context [if ?b then _ else _] => destruct b end; si_eq_tac.
  - destruct tk as [ts s]. apply si_revoke_all.
  - apply si_run_cleanup.
  - destruct (alookup x (p_xr P)) as [[s shape]|]; [destruct (is_alive e w)|]; si_eq_tac.
  - destruct (alookup x (p_xr P)) as [[s shape]|]; si_eq_tac.
  - destruct (is_alive e w); si_eq_tac.
  - destruct (is_alive e w); [|si_eq_tac]. destruct (alookup e (ereactors w)); [|si_eq_tac].
    match goal with |- context [if ?b then _ else _] => destruct b end; si_eq_tac.
  - apply si_eq, ssv_poll.
Qed.
End SiSteps.


Lemma SigInv_si w w' : si_ok w w' -> SigInv w -> SigInv w'.
Proof. intros H. exact H. Qed.
Section SiClosed.
Variable P : program.
Lemma si_state_bump t w : si_ok w (state_bump t w).
Proof. apply si_eq. unfold state_bump. destruct (alookup t (cbs w)); reflexivity. Qed.
Lemma si_body_begin sd t r c w : si_ok w (body_begin P sd t r c w).
Proof.
  unfold body_begin. eapply si_trans; [|apply si_state_bump].
  unfold body_sample. pose proof (ssv_sample_readers sd (xsys_of P t) w) as H1.
  destruct (sample_readers sd (xsys_of P t) w) as [sm w1]. cbn [snd] in H1. eapply si_trans; [apply si_eq; exact H1|].
  destruct (sm_l sm) as [[src [v|]]|]; try si_eq_tac. destruct (xsys_of P t) as [[x ?]|]; si_eq_tac.
Qed.
Lemma SigInv_closed : closed P SigInv.
Proof.
  constructor.
  - intros e w H. eapply SigInv_si; [|exact H]. si_eq_tac.
  - intros c w H. eapply SigInv_si; [apply si_prim|exact H].
  - intros o a w H. eapply SigInv_si; [apply si_act|exact H].
  - intros c w t su cl w' H E. eapply SigInv_si; [|exact H]. apply si_eq.
    destruct c; try discriminate E; cbn in E; try (inversion E; subst; reflexivity). destruct r; inversion E; subst; reflexivity.
  - intros e r w H _. unfold gc_step. eapply SigInv_si; [apply si_despawn|]. eapply SigInv_si; [|exact H]. si_eq_tac.
  - intros w H. eapply SigInv_si; [apply si_eq, ssv_poll|exact H].
  - intros su t w w' H E. eapply SigInv_si; [eapply si_run_setup; eauto|exact H].
  - intros cl w H. eapply SigInv_si; [apply si_run_cleanup|exact H].
  - intros b w H. exact H.
  - intros n w H. exact H.
  - intros t b w H. exact H.
  - intros t k w H _. unfold rn_dropped. eapply SigInv_si; [|exact H]. apply si_eq. cbn [ssv sigs next_sig emit set]. exact (ssv_drop_callback t w).
  - intros t k w H _. unfold rn_despawn_missing. eapply SigInv_si; [|exact H].
    eapply si_trans; [apply si_eq, ssv_drop_callback|]. eapply si_trans; [apply si_despawn|]. si_eq_tac.
  - intros t w H. eapply SigInv_si; [apply si_despawn|exact H].
  - intros t cb b w H _ _. exact H.
  - intros t tk w H. unfold once_finish. destruct (alookup t (cbs w)); [|exact H]. eapply SigInv_si; [|exact H]. si_eq_tac.
  - intros sd t r c w _ H. eapply SigInv_si; [apply si_body_begin|exact H].
  - intros w H. exact H.
Qed.
Lemma SigInv_init : SigInv (install_static P init_world).
Proof.
  assert (Hgen : forall l w, ssv w = ssv init_world -> ssv (fold_left (fun w s => (reserve s w) <| storage ::= aset s true |> <| cbs ::= aset s (mkCb None 0 0 false true) |> <| spawned ::= cons s |>) l w) = ssv init_world).
  { induction l as [|s l IH]; intros w H; cbn [fold_left]; [exact H|]. apply IH. etransitivity; [|exact H]. etransitivity; [|apply (ssv_reserve s w)]. reflexivity. }
  eapply SigInv_si; [apply si_eq; apply Hgen; reflexivity|]. split; [intros g e n []|constructor].
Qed.
(* in every reachable state: counts of live signals are positive, signal ids are pairwise distinct and fresh ids are new *)
Theorem signal_table_well_formed fuel w' : run P fuel = Ok w' -> SigInv w'.
Proof. intros E. unfold run in E. eapply run_tops_closed; [apply SigInv_closed|apply SigInv_init|exact E]. Qed.
Theorem SigInv_exec fuel i w w' : SigInv w -> exec P fuel i w = Ok w' -> SigInv w'.
Proof. apply exec_closed. apply SigInv_closed. Qed.
End SiClosed.
