(* WorldReactorSpec.v — C16 (step level): world reactors share one persistent system; an entity world reactor keeps one
   local datum per entity, exposed to the runs that entity causes, removed with the entity's last trigger. *)
From Cobweb Require Import Machine.
From CobwebProofs Require Import ListLemmas RunnerInv.

Section WR.
Variable P : program.

(* registering with a persistent handle touches nothing but the command list: no signal, nothing to collect *)
Lemma reg_persistent_world s ts : forall w, fst (reg_triggers_cmds (HPersist s) ts w) = w.
Proof.
  induction ts as [|t r IH]; intros w; cbn [reg_triggers_cmds]; [reflexivity|].
  assert (H1 : fst (reg_trigger_cmds (HPersist s) t w) = w) by (destruct t; cbn; try reflexivity; destruct (is_alive e w); reflexivity).
  destruct (reg_trigger_cmds (HPersist s) t w) as [w1 c1]. cbn [fst] in H1. subst w1.
  specialize (IH w). destruct (reg_triggers_cmds (HPersist s) r w) as [w2 c2]. exact IH.
Qed.
Theorem persistent_registration_changes_no_state b s w : fst (apply_prim P (CRegister b s Persistent) w) = w.
Proof.
  cbn [apply_prim]. pose proof (reg_persistent_world s b w) as H. destruct (reg_triggers_cmds (HPersist s) b w) as [w1 cs]. cbn [fst] in *. subst. reflexivity.
Qed.

(* world reactors: add = register the reactor's single, statically installed system; remove = revoke; run = run it *)
Theorem wr_add o wr b s w : alookup wr (p_wr P) = Some s ->
  act P o (AWrAdd wr b) w = (w, [CMark o; CRegister (map (resolve_trigger w) b) s Persistent]).
Proof. intros H. cbn [act]. rewrite H. reflexivity. Qed.
Theorem wr_remove o wr b s w : alookup wr (p_wr P) = Some s ->
  act P o (AWrRemove wr b) w = (w, [CMark o; CRevoke (map (resolve_trigger w) b, s)]).
Proof. intros H. cbn [act]. rewrite H. reflexivity. Qed.
(* revoking never despawns anything and never touches a callback *)
Theorem revoke_despawns_nothing s ts w : storage (revoke_all s ts w) = storage w /\ alive (revoke_all s ts w) = alive w.
Proof. pose proof (sview_revoke_all s ts w) as H. split; [exact (f_equal fst H)|exact (f_equal snd H)]. Qed.

(* entity world reactors *)
Theorem x_add x e v s shape w : alookup x (p_xr P) = Some (s, shape) -> is_alive e w = true ->
  apply_prim P (CXAdd x e v) w = (w, [CXInsertLocal x e v; CRegister (map (fun k => xshape_trigger k e) shape) s Persistent]).
Proof. intros H Ha. cbn [apply_prim]. rewrite H, Ha. reflexivity. Qed.
Theorem x_local_attached x e v w : is_alive e w = true ->
  alookup2 x e (xlocals (fst (apply_prim P (CXInsertLocal x e v) w))) = Some v.
Proof. intros Ha. cbn [apply_prim fst]. rewrite Ha. cbn [xlocals set]. apply alookup2_aset2_same. Qed.
Theorem x_remove x b s shape w : alookup x (p_xr P) = Some (s, shape) ->
  apply_prim P (CXRemove x b) w = (w, CRevoke (b, s) :: map (fun e => CXCleanupData x s e) (unique_entities [] b)).
Proof. intros H. cbn [apply_prim]. rewrite H. reflexivity. Qed.

(* the local data of (x, e) is removed exactly when e holds no handle of the reactor's system any more *)
Theorem x_cleanup_removes_with_last_trigger x s e w l : is_alive e w = true -> alookup e (ereactors w) = Some l ->
  xlocals (fst (apply_prim P (CXCleanupData x s e) w)) =
  if existsb (fun p => N.eqb (handle_sys (snd p)) s) l then xlocals w else aremove2 x e (xlocals w).
Proof. intros Ha Hl. cbn [apply_prim fst]. rewrite Ha, Hl. destruct (existsb _ l); reflexivity. Qed.
Theorem x_cleanup_keeps_other_entities x s e w x' e' : (x', e') <> (x, e) ->
  alookup2 x' e' (xlocals (fst (apply_prim P (CXCleanupData x s e) w))) = alookup2 x' e' (xlocals w).
Proof.
  intros Hne. cbn [apply_prim fst]. destruct (is_alive e w); [|reflexivity]. destruct (alookup e (ereactors w)) as [l|]; [|reflexivity].
  destruct (existsb _ l); [reflexivity|]. cbn [xlocals set]. apply alookup2_aremove2_other. exact Hne.
Qed.

(* each entity named by the removed bundle is cleaned once *)
Lemma unique_entities_nodup ts : forall seen, NoDup (unique_entities seen ts) /\ (forall e, In e (unique_entities seen ts) -> ~ In e seen).
Proof.
  induction ts as [|t r IH]; intros seen; cbn [unique_entities]; [split; [constructor|intros e []]|].
  destruct (trigger_entity t) as [e|]; [|apply IH].
  destruct (memN e seen) eqn:E; [apply IH|].
  destruct (IH (e :: seen)) as [Hnd Hni]. split.
  - constructor; [|exact Hnd]. intros Hin. apply (Hni e Hin). left. reflexivity.
  - intros e0 [<-|Hin]; [apply memN_false; exact E|]. intros Hs. apply (Hni e0 Hin). right. exact Hs.
Qed.
Theorem x_remove_cleans_each_entity_once ts : NoDup (unique_entities [] ts).
Proof. exact (proj1 (unique_entities_nodup ts [])). Qed.
Lemma unique_entities_complete ts : forall seen t e, In t ts -> trigger_entity t = Some e -> In e seen \/ In e (unique_entities seen ts).
Proof.
  induction ts as [|t0 r IH]; intros seen t e [].
  - subst t0. intros He. cbn [unique_entities]. rewrite He. destruct (memN e seen) eqn:E; [left; apply memN_In; exact E|right; left; reflexivity].
  - intros He. cbn [unique_entities]. destruct (trigger_entity t0) as [e0|]; [|apply (IH seen t e); assumption].
    destruct (memN e0 seen) eqn:E; [apply (IH seen t e); assumption|].
    destruct (IH (e0 :: seen) t e H He) as [[<-|Hs]|Hin]; [right; left; reflexivity|left; exact Hs|right; right; exact Hin].
Qed.
Theorem x_remove_cleans_every_named_entity ts t e : In t ts -> trigger_entity t = Some e -> In e (unique_entities [] ts).
Proof. intros H He. destruct (unique_entities_complete ts [] t e H He) as [[]|Hin]. exact Hin. Qed.

(* a run of the reactor's system caused by entity src is shown the datum attached to src (when some entity-scoped
   reader is non-empty, as in the harness) ... *)
Theorem x_run_exposes_local sd x xs w : reacting (tr_er w) = true -> fst (fst (cur (tr_er w))) = xs ->
  match sm_l (fst (sample_readers sd (Some (x, xs)) w)) with
  | Some (src, v) => src = snd (fst (cur (tr_er w))) /\ v = (if is_alive src w then alookup2 x src (xlocals w) else None)
  | None => True end.
Proof.
  intros Hr Hs. unfold sample_readers. cbn zeta. rewrite Hr. cbn [andb].
  match goal with |- context [if sd_take sd then take_sysevents TYPES w else ?e] => destruct (if sd_take sd then take_sysevents TYPES w else e) as [s0 w0] end.
  cbn [fst sm_l].
  match goal with |- match (if ?b then _ else _) with _ => _ end => destruct b; [|exact I] end.
  destruct (cur (tr_er w)) as [[s1 src] rt]. cbn [fst snd] in *. subst s1. rewrite N.eqb_refl. split; reflexivity.
Qed.
End WR.

(* ================================================================================================================ *)
(* local data lives on live entities only (closed invariant): the datum of an entity goes when the entity goes        *)
Definition xv (w : world) := (alive w, xlocals w).
Definition XInv (w : world) : Prop := forall x e v, alookup2 x e (xlocals w) = Some v -> is_alive e w = true.
Lemma XInv_xv w w' : xv w' = xv w -> XInv w -> XInv w'.
Proof. unfold xv, XInv, is_alive. intros H. inversion H as [[H1 H2]]. rewrite H1, H2. auto. Qed.
Lemma xv_handle_drop h w : xv (handle_drop h w) = xv w.
Proof.
  destruct h as [s|g s]; cbn; [reflexivity|]. unfold sig_drop.
  destruct (alookup g (sigs w)) as [[e n]|]; [|reflexivity]. destruct (N.leb n 1); reflexivity.
Qed.
Lemma xv_handle_clone h w : xv (handle_clone h w) = xv w.
Proof. destruct h as [s|g s]; cbn; [reflexivity|]. unfold sig_clone. destruct (alookup g (sigs w)) as [[e n]|]; reflexivity. Qed.
Lemma xv_handles_drop hs : forall w, xv (handles_drop hs w) = xv w.
Proof. induction hs as [|h hs IH]; intros w; cbn; [reflexivity|]. rewrite IH. apply xv_handle_drop. Qed.
Lemma xv_push_removed_all cs e : forall w, xv (push_removed_all cs e w) = xv w.
Proof. induction cs as [|c cs IH]; intros w; cbn; [reflexivity|]. rewrite IH. reflexivity. Qed.
Lemma xv_drop_callback t w : xv (drop_callback t w) = xv w.
Proof. unfold drop_callback. destruct (alookup t (cbs w)) as [cb|]; [destruct (cb_live cb)|]; reflexivity. Qed.
Lemma xv_drop_ddata d w : xv (drop_ddata d w) = xv w.
Proof. destruct d as [? ? ?|? ? ? ?|? [?|]]; reflexivity. Qed.
Lemma xv_take_sysevents tys : forall w, xv (snd (take_sysevents tys w)) = xv w.
Proof.
  induction tys as [|ty r IH]; intros w; cbn [take_sysevents]; [reflexivity|].
  destruct (peek_sysevent ty w) as [p|]; [|apply IH].
  match goal with |- context [take_sysevents r ?w1] => specialize (IH w1); destruct (take_sysevents r w1) end. exact IH.
Qed.
Lemma xv_sample_readers sd x w : xv (snd (sample_readers sd x w)) = xv w.
Proof.
  unfold sample_readers. pose proof (xv_take_sysevents TYPES w) as H1.
  destruct (sd_take sd); [destruct (take_sysevents TYPES w) as [s w1]; exact H1|reflexivity].
Qed.
Lemma xv_revoke_one s t w : xv (revoke_one s t w) = xv w.
Proof.
  assert (Hent : forall e rt, xv (if is_alive e w then
             match alookup e (ereactors w) with
             | Some l => let (d, k) := er_remove rt s l in handles_drop d (w <| ereactors := aset e k (ereactors w) |>)
             | None => w end else w) = xv w).
  { intros e rt. destruct (is_alive e w); [|reflexivity]. destruct (alookup e (ereactors w)) as [l|]; [|reflexivity].
    destruct (er_remove rt s l) as [d k]. rewrite xv_handles_drop. reflexivity. }
  assert (Hcomp : forall kd c, xv (comp_revoke kd c s w) = xv w).
  { intros kd c. unfold comp_revoke. destruct (alookup c (comp_tbl w)) as [[[i m] r]|]; [|reflexivity].
    destruct (remove_first s match kd with KIns => i | KMut => m | KRem => r end) as [o l'].
    destruct (match kd with KIns => (l', m, r) | KMut => (i, l', r) | KRem => (i, m, l') end) as [[i' m'] r'].
    destruct o as [h|]; [rewrite xv_handle_drop|]; (destruct i'; [destruct m'; [destruct r'|]|]); reflexivity. }
  destruct t; cbn [revoke_one]; try apply Hent; try apply Hcomp.
  - destruct (tbl_revoke ty s (bc_tbl w)) as [o t']. destruct o; [rewrite xv_handle_drop|]; reflexivity.
  - destruct (tbl_revoke ty s (any_tbl w)) as [o t']. destruct o; [rewrite xv_handle_drop|]; reflexivity.
  - destruct (tbl_revoke r s (res_tbl w)) as [o t']. destruct o; [rewrite xv_handle_drop|]; reflexivity.
  - destruct (tbl_revoke e s (desp_tbl w)) as [o t']. destruct o; [rewrite xv_handle_drop|]; reflexivity.
Qed.
Lemma xv_revoke_all s ts : forall w, xv (revoke_all s ts w) = xv w.
Proof. induction ts as [|t ts IH]; intros w; cbn; [reflexivity|]. rewrite IH. apply xv_revoke_one. Qed.
Lemma xv_reg_triggers_cmds h ts : forall w, xv (fst (reg_triggers_cmds h ts w)) = xv w.
Proof.
  induction ts as [|t ts IH]; intros w; cbn [reg_triggers_cmds]; [reflexivity|].
  destruct (reg_trigger_cmds h t w) as [w1 c1] eqn:E1. destruct (reg_triggers_cmds h ts w1) as [w2 c2] eqn:E2. cbn [fst].
  assert (H1 : xv w1 = xv w).
  { destruct t; cbn in E1; try (inversion E1; subst; apply xv_handle_clone).
    destruct (is_alive e w); inversion E1; subst; [apply xv_handle_clone|reflexivity]. }
  specialize (IH w1). rewrite E2 in IH. cbn [fst] in IH. congruence.
Qed.
Lemma xv_poll_despawns chan : forall w, xv (fst (poll_despawns chan w)) = xv w.
Proof.
  induction chan as [|e r IH]; intros w; cbn [poll_despawns]; [reflexivity|].
  specialize (IH (w <| desp_tbl := aremove e (desp_tbl w) |>)). destruct (poll_despawns r _) as [w2 cs]. exact IH.
Qed.
Lemma xv_poll w : xv (fst (poll w)) = xv w.
Proof.
  unfold poll. destruct (poll_removals (removal_checkers w) w) as [chk c1].
  pose proof (xv_poll_despawns (despawn_chan (w <| removal_checkers := chk |>)) ((w <| removal_checkers := chk |>) <| despawn_chan := [] |>)) as H.
  destruct (poll_despawns _ _) as [w2 c2]. exact H.
Qed.
Lemma xv_comp_push kd c h w : xv (comp_push kd c h w) = xv w.
Proof. unfold comp_push. destruct (alookup c (comp_tbl w)) as [[[i m] r]|]; destruct kd; reflexivity. Qed.
Lemma xv_dsp_comps e w : xv (dsp_comps e w) = xv w.
Proof. unfold dsp_comps. etransitivity; [|apply (xv_push_removed_all (comps_of e (comps w)) e w)]. reflexivity. Qed.
Lemma xv_dsp_storage e w : xv (dsp_storage e w) = xv w.
Proof.
  unfold dsp_storage. destruct (alookup e (storage w)) as [[|]|]; try reflexivity.
  etransitivity; [|apply (xv_drop_callback e w)]. reflexivity.
Qed.
Lemma xv_dsp_ereactors e w : xv (dsp_ereactors e w) = xv w.
Proof.
  unfold dsp_ereactors. destruct (alookup e (ereactors w)) as [l|]; [|reflexivity].
  etransitivity; [|apply (xv_handles_drop (map snd l) w)]. reflexivity.
Qed.
Lemma xv_dsp_tracker e w : xv (dsp_tracker e w) = xv w.
Proof. unfold dsp_tracker. destruct (memN e (dtrackers w)); reflexivity. Qed.
Lemma xv_dsp_data e w : xv (dsp_data e w) = xv w.
Proof.
  unfold dsp_data. destruct (alookup e (dataents w)) as [d|]; [|reflexivity].
  etransitivity; [|apply (xv_drop_ddata d w)]. reflexivity.
Qed.
Lemma xv_dsp_alive_xlocals e w : xlocals (dsp_alive e w) = xlocals w. Proof. reflexivity. Qed.
Lemma xv_reserve_xlocals id w : xlocals (reserve id w) = xlocals w.
Proof. unfold reserve, bind_id. destruct (memN id (bound w)); reflexivity. Qed.
Lemma alive_reserve_mono id w e : is_alive e w = true -> is_alive e (reserve id w) = true.
Proof.
  unfold reserve, bind_id, is_alive. destruct (memN id (bound w)); [auto|]. intros H. destruct (memN id (bound w)); cbn [alive set]; rewrite memN_app, H; reflexivity.
Qed.
Lemma XInv_reserve id w : XInv w -> XInv (reserve id w).
Proof. intros H x e v Hl. rewrite xv_reserve_xlocals in Hl. apply alive_reserve_mono. eapply H; eauto. Qed.

Lemma xlocals_without_other e x e' (l : list (N * N * N)) : e' <> e -> alookup2 x e' (xlocals_without e l) = alookup2 x e' l.
Proof.
  intros Hne. induction l as [|[[x0 e0] v0] l IH]; cbn [xlocals_without alookup2]; [reflexivity|].
  destruct (N.eqb e e0) eqn:E.
  - apply N.eqb_eq in E. subst e0. rewrite IH. destruct (N.eqb x x0 && N.eqb e' e) eqn:E2; [|reflexivity].
    apply andb_true_iff in E2. destruct E2 as [_ E2]. apply N.eqb_eq in E2. contradiction.
  - cbn [alookup2]. rewrite IH. reflexivity.
Qed.
Lemma xlocals_without_same e x (l : list (N * N * N)) : alookup2 x e (xlocals_without e l) = None.
Proof.
  induction l as [|[[x0 e0] v0] l IH]; cbn [xlocals_without alookup2]; [reflexivity|].
  destruct (N.eqb e e0) eqn:E; [exact IH|]. cbn [alookup2]. rewrite E, andb_false_r. exact IH.
Qed.

