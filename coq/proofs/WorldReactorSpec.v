(* WorldReactorSpec.v — C16 (step level): world reactors share one persistent system; an entity world reactor keeps one
   local datum per entity, exposed to the runs that entity causes, removed with the entity's last trigger. *)
From Cobweb Require Import Machine.
From CobwebProofs Require Import ListLemmas RunnerInv.

Section WR.
Variable P : program.

(* registering with a persistent handle touches nothing but the command list: no signal, nothing to collect *)
Lemma reg_persistent_world s ts : forall w, fst (reg_triggers_cmds (HPersist s) ts w) = w.
Proof.
  induction ts as [|t r IH]; intros w; cbn [reg_triggers_cmds]; [reflexivity|].
  assert (H1 : fst (reg_trigger_cmds (HPersist s) t w) = w) by (destruct t; cbn; try reflexivity; destruct (is_alive e w); reflexivity).
  destruct (reg_trigger_cmds (HPersist s) t w) as [w1 c1]. cbn [fst] in H1. subst w1.
  specialize (IH w). destruct (reg_triggers_cmds (HPersist s) r w) as [w2 c2]. exact IH.
Qed.
Theorem persistent_registration_changes_no_state b s w : fst (apply_prim P (CRegister b s Persistent) w) = w.
Proof.
  cbn [apply_prim]. pose proof (reg_persistent_world s b w) as H. destruct (reg_triggers_cmds (HPersist s) b w) as [w1 cs]. cbn [fst] in *. subst. reflexivity.
Qed.

(* world reactors: add = register the reactor's single, statically installed system; remove = revoke; run = run it *)
Theorem wr_add o wr b s w : alookup wr (p_wr P) = Some s ->
  act P o (AWrAdd wr b) w = (w, [CMark o; CRegister (map (resolve_trigger w) b) s Persistent]).
Proof. intros H. cbn [act]. rewrite H. reflexivity. Qed.
Theorem wr_remove o wr b s w : alookup wr (p_wr P) = Some s ->
  act P o (AWrRemove wr b) w = (w, [CMark o; CRevoke (map (resolve_trigger w) b, s)]).
Proof. intros H. cbn [act]. rewrite H. reflexivity. Qed.
(* revoking never despawns anything and never touches a callback *)
Theorem revoke_despawns_nothing s ts w : storage (revoke_all s ts w) = storage w /\ alive (revoke_all s ts w) = alive w.
Proof. pose proof (sview_revoke_all s ts w) as H. split; [exact (f_equal fst H)|exact (f_equal snd H)]. Qed.

(* entity world reactors *)
Theorem x_add x e v s shape w : alookup x (p_xr P) = Some (s, shape) -> is_alive e w = true ->
  apply_prim P (CXAdd x e v) w = (w, [CXInsertLocal x e v; CRegister (map (fun k => xshape_trigger k e) shape) s Persistent]).
Proof. intros H Ha. cbn [apply_prim]. rewrite H, Ha. reflexivity. Qed.
Theorem x_local_attached x e v w : is_alive e w = true ->
  alookup2 x e (xlocals (fst (apply_prim P (CXInsertLocal x e v) w))) = Some v.
Proof. intros Ha. cbn [apply_prim fst]. rewrite Ha. cbn [xlocals set]. apply alookup2_aset2_same. Qed.
Theorem x_remove x b s shape w : alookup x (p_xr P) = Some (s, shape) ->
  apply_prim P (CXRemove x b) w = (w, CRevoke (b, s) :: map (fun e => CXCleanupData x s e) (unique_entities [] b)).
Proof. intros H. cbn [apply_prim]. rewrite H. reflexivity. Qed.

(* the local data of (x, e) is removed exactly when e holds no handle of the reactor's system any more *)
Theorem x_cleanup_removes_with_last_trigger x s e w l : is_alive e w = true -> alookup e (ereactors w) = Some l ->
  xlocals (fst (apply_prim P (CXCleanupData x s e) w)) =
  if existsb (fun p => N.eqb (handle_sys (snd p)) s) l then xlocals w else aremove2 x e (xlocals w).
Proof. intros Ha Hl. cbn [apply_prim fst]. rewrite Ha, Hl. destruct (existsb _ l); reflexivity. Qed.
Theorem x_cleanup_keeps_other_entities x s e w x' e' : (x', e') <> (x, e) ->
  alookup2 x' e' (xlocals (fst (apply_prim P (CXCleanupData x s e) w))) = alookup2 x' e' (xlocals w).
Proof.
  intros Hne. cbn [apply_prim fst]. destruct (is_alive e w); [|reflexivity]. destruct (alookup e (ereactors w)) as [l|]; [|reflexivity].
  destruct (existsb _ l); [reflexivity|]. cbn [xlocals set]. apply alookup2_aremove2_other. exact Hne.
Qed.

(* each entity named by the removed bundle is cleaned once *)
Lemma unique_entities_nodup ts : forall seen, NoDup (unique_entities seen ts) /\ (forall e, In e (unique_entities seen ts) -> ~ In e seen).
Proof.
  induction ts as [|t r IH]; intros seen; cbn [unique_entities]; [split; [constructor|intros e []]|].
  destruct (trigger_entity t) as [e|]; [|apply IH].
  destruct (memN e seen) eqn:E; [apply IH|].
  destruct (IH (e :: seen)) as [Hnd Hni]. split.
  - constructor; [|exact Hnd]. intros Hin. apply (Hni e Hin). left. reflexivity.
  - intros e0 [<-|Hin]; [apply memN_false; exact E|]. intros Hs. apply (Hni e0 Hin). right. exact Hs.
Qed.
Theorem x_remove_cleans_each_entity_once ts : NoDup (unique_entities [] ts).
Proof. exact (proj1 (unique_entities_nodup ts [])). Qed.
Lemma unique_entities_complete ts : forall seen t e, In t ts -> trigger_entity t = Some e -> In e seen \/ In e (unique_entities seen ts).
Proof.
  induction ts as [|t0 r IH]; intros seen t e [].
  - subst t0. intros He. cbn [unique_entities]. rewrite He. destruct (memN e seen) eqn:E; [left; apply memN_In; exact E|right; left; reflexivity].
  - intros He. cbn [unique_entities]. destruct (trigger_entity t0) as [e0|]; [|apply (IH seen t e); assumption].
    destruct (memN e0 seen) eqn:E; [apply (IH seen t e); assumption|].
    destruct (IH (e0 :: seen) t e H He) as [[<-|Hs]|Hin]; [right; left; reflexivity|left; exact Hs|right; right; exact Hin].
Qed.
Theorem x_remove_cleans_every_named_entity ts t e : In t ts -> trigger_entity t = Some e -> In e (unique_entities [] ts).
Proof. intros H He. destruct (unique_entities_complete ts [] t e H He) as [[]|Hin]. exact Hin. Qed.

(* a run of the reactor's system caused by entity src is shown the datum attached to src (when some entity-scoped
   reader is non-empty, as in the harness) ... *)
Theorem x_run_exposes_local sd x xs w : reacting (tr_er w) = true -> fst (fst (cur (tr_er w))) = xs ->
  match sm_l (fst (sample_readers sd (Some (x, xs)) w)) with
  | Some (src, v) => src = snd (fst (cur (tr_er w))) /\ v = (if is_alive src w then alookup2 x src (xlocals w) else None)
  | None => True end.
Proof.
  intros Hr Hs. unfold sample_readers. cbn zeta. rewrite Hr. cbn [andb].
  match goal with |- context [if sd_take sd then take_sysevents TYPES w else ?e] => destruct (if sd_take sd then take_sysevents TYPES w else e) as [s0 w0] end.
  cbn [fst sm_l].
  match goal with |- match (if ?b then _ else _) with _ => _ end => destruct b; [|exact I] end.
  destruct (cur (tr_er w)) as [[s1 src] rt]. cbn [fst snd] in *. subst s1. rewrite N.eqb_refl. split; reflexivity.
Qed.
End WR.
