(* SyscallSpec.v — C17: keyed persistent state of the syscall family, effects applied on return, error cases. *)
From Cobweb Require Import Syscall.
From CobwebProofs Require Import ListLemmas.

Definition body_key (e : sev) : option skey := match e with SBody _ k _ _ _ => Some k | SRet _ _ => None end.
Fixpoint count (k : skey) (l : list sev) : N :=
  match l with
  | [] => 0
  | e :: r => (match body_key e with Some k' => if skey_eqb k k' then 1 else 0 | None => 0 end) + count k r
  end.
Lemma count_app k l1 l2 : count k (l1 ++ l2) = count k l1 + count k l2.
Proof. induction l1 as [|e l1 IH]; cbn [count app]; [reflexivity|]. rewrite IH. lia. Qed.

Lemma skey_eqb_refl k : skey_eqb k k = true.
Proof. destruct k; cbn; rewrite ?N.eqb_refl; reflexivity. Qed.
Lemma skey_eqb_eq a b : skey_eqb a b = true <-> a = b.
Proof.
  destruct a, b; cbn; try (split; [discriminate|intros H; inversion H]);
    rewrite ?andb_true_iff, ?N.eqb_eq; split; try (intros [-> ->]; reflexivity); try (intros ->; reflexivity); intros H; inversion H; auto.
Qed.
Lemma skey_eqb_sym a b : skey_eqb a b = skey_eqb b a.
Proof. destruct (skey_eqb a b) eqn:E; [apply skey_eqb_eq in E; subst; symmetry; apply skey_eqb_refl|]. destruct (skey_eqb b a) eqn:E2; [apply skey_eqb_eq in E2; subst; rewrite skey_eqb_refl in E; discriminate|reflexivity]. Qed.

(* every body sees Local = (number of earlier bodies under the same key) + 1: one counter per key *)
Definition ev_ok (pre : list sev) (e : sev) : Prop :=
  match e with SBody _ k _ _ loc => loc = count k pre + 1 | SRet _ _ => True end.
Fixpoint ok_aux (pre l : list sev) : Prop :=
  match l with [] => True | e :: r => ev_ok pre e /\ ok_aux (pre ++ [e]) r end.
Definition log_ok (l : list sev) : Prop := ok_aux [] l.

Lemma ok_snoc : forall l pre e, ok_aux pre (l ++ [e]) <-> ok_aux pre l /\ ev_ok (pre ++ l) e.
Proof.
  induction l as [|x l IH]; intros pre e; cbn [ok_aux app].
  - rewrite app_nil_r. tauto.
  - rewrite IH. rewrite <- app_assoc. cbn [app]. tauto.
Qed.
Lemma log_ok_snoc l e : log_ok (l ++ [e]) <-> log_ok l /\ ev_ok l e.
Proof. unfold log_ok. rewrite ok_snoc. cbn [app]. tauto. Qed.

Definition stored (k : skey) (s : sst) : N :=
  match k with
  | SkSys t => match alookup t (s_sys s) with Some l => l | None => 0 end
  | SkNamed n t => match alookup2 n t (s_named s) with Some (Some l) => l | _ => 0 end
  | SkSpawned sid => match alookup sid (s_spawned s) with Some (_, Some l) => l | _ => 0 end
  end.
Definition claims (k : skey) (s : sst) : Prop :=
  match k with
  | SkSpawned sid => match alookup sid (s_spawned s) with Some (_, Some l) => l = count k (s_log s) | _ => True end
  | _ => stored k s = count k (s_log s)
  end.

Record J (s : sst) : Prop := {
  j_log : log_ok (s_log s);
  j_store : forall k, is_busy k s = false -> claims k s;
  j_ever : forall sid, count (SkSpawned sid) (s_log s) <> 0 -> In sid (s_ever s);
  j_spawned_ever : forall sid, ahas sid (s_spawned s) = true -> In sid (s_ever s);
}.


(* ---------- small facts ---------- *)
Lemma remove_key_head k l : remove_key k (k :: l) = l.
Proof. cbn. rewrite skey_eqb_refl. reflexivity. Qed.
Lemma count_snoc_body k id k' t v loc l : count k (l ++ [SBody id k' t v loc]) = count k l + (if skey_eqb k k' then 1 else 0).
Proof. rewrite count_app. cbn. lia. Qed.
Lemma count_snoc_ret k id o l : count k (l ++ [SRet id o]) = count k l.
Proof. rewrite count_app. cbn. lia. Qed.

Lemma reent_mono f : forall cs s, s_reent s = true -> s_reent (run_calls f cs s) = true.
Proof.
  induction f as [|f IH]; intros cs s H; cbn [run_calls]; [exact H|]. destruct cs as [|c rest]; [exact H|].
  apply IH. destruct c.
  - unfold end_sys, begin_sys. cbn [slog leave s_reent set_sys]. apply IH. cbn. rewrite H. reflexivity.
  - unfold end_named, begin_named. cbn [slog leave s_reent set_named]. apply IH. destruct (alookup2 name t (s_named s)); cbn; rewrite H; reflexivity.
  - destruct (alookup sid (s_spawned s)) as [[t [l|]]|]; try exact H.
    unfold end_spawned, begin_spawned. cbn [slog leave s_reent].
    match goal with |- s_reent (match alookup sid (s_spawned ?x) with _ => _ end) = true => assert (Hx : s_reent x = true) by (apply IH; cbn; rewrite H; reflexivity); destruct (alookup sid (s_spawned x)); exact Hx end.
  - unfold do_spawn. destruct (ahas sid (s_spawned s)); cbn; [exact H|rewrite H; reflexivity].
  - exact H.
  - destruct (alookup2 name t (s_named s)) as [[l|]|] eqn:E; try exact H.
    unfold end_named, begin_named. cbn [slog leave s_reent set_named]. apply IH. rewrite E. cbn. rewrite H. reflexivity.
Qed.
Lemma reent_false f cs s : s_reent (run_calls f cs s) = false -> s_reent s = false.
Proof. intros H. destruct (s_reent s) eqn:E; [|reflexivity]. rewrite (reent_mono f cs s E) in H. discriminate. Qed.

(* ---------- the main invariant: one counter per key, as long as no key is re-entered ---------- *)
Definition good (s s' : sst) : Prop :=
  J s' /\ s_busy s' = s_busy s /\ (forall k, is_busy k s = true -> count k (s_log s') = count k (s_log s)).

Lemma busy_other k k' s : is_busy k' (enter k s) = skey_eqb k' k || is_busy k' s.
Proof. reflexivity. Qed.

Lemma J_ret id o s : J s -> J (slog (SRet id o) s).
Proof.
  intros [J1 J2 J3 J4]. constructor; cbn [slog s_log s_busy s_spawned s_ever s_sys s_named].
  - apply log_ok_snoc. split; [exact J1|exact I].
  - intros k Hk. specialize (J2 k Hk). unfold claims, stored in *. cbn [slog s_log s_spawned s_sys s_named]. rewrite count_snoc_ret. exact J2.
  - intros sid. rewrite count_snoc_ret. apply J3.
  - exact J4.
Qed.

Lemma claims_ext k s s' :
  (forall t, k = SkSys t -> alookup t (s_sys s') = alookup t (s_sys s)) ->
  (forall n t, k = SkNamed n t -> alookup2 n t (s_named s') = alookup2 n t (s_named s)) ->
  (forall sid, k = SkSpawned sid -> alookup sid (s_spawned s') = alookup sid (s_spawned s)) ->
  count k (s_log s') = count k (s_log s) -> claims k s -> claims k s'.
Proof.
  intros H1 H2 H3 Hc Hcl. destruct k as [t|n t|sid]; unfold claims, stored in *.
  - rewrite (H1 t eq_refl), Hc. exact Hcl.
  - rewrite (H2 n t eq_refl), Hc. exact Hcl.
  - rewrite (H3 sid eq_refl), Hc. exact Hcl.
Qed.
Lemma alookup2_aset2_other {V} a b a' b' (v : V) l : (a', b') <> (a, b) -> alookup2 a' b' (aset2 a b v l) = alookup2 a' b' l.
Proof.
  intros Hne. induction l as [|[[x y] z] l IH]; cbn.
  - destruct (N.eqb_spec a' a), (N.eqb_spec b' b); cbn; try reflexivity. subst. congruence.
  - destruct (N.eqb a x && N.eqb b y) eqn:E; cbn.
    + apply andb_true_iff in E. destruct E as [E1 E2]. apply N.eqb_eq in E1, E2. subst.
      destruct (N.eqb_spec a' x), (N.eqb_spec b' y); cbn; try reflexivity. subst. congruence.
    + destruct (N.eqb a' x && N.eqb b' y); [reflexivity|exact IH].
Qed.
Lemma alookup2_aset2_same' {V} a b (v : V) l : alookup2 a b (aset2 a b v l) = Some v.
Proof.
  induction l as [|[[x y] z] l IH]; cbn; [now rewrite !N.eqb_refl|].
  destruct (N.eqb a x && N.eqb b y) eqn:E; cbn; [now rewrite !N.eqb_refl|]. rewrite E. exact IH.
Qed.

Definition ev_ok_loc (e : sev) (loc : N) : Prop := match e with SBody _ _ _ _ x => x = loc | SRet _ _ => False end.

(* the raw store entry of a key *)
Definition same_store (k : skey) (s s' : sst) : Prop :=
  match k with
  | SkSys t => alookup t (s_sys s') = alookup t (s_sys s)
  | SkNamed n t => alookup2 n t (s_named s') = alookup2 n t (s_named s)
  | SkSpawned sid => alookup sid (s_spawned s') = alookup sid (s_spawned s)
  end.
Lemma claims_same k s s' : same_store k s s' -> count k (s_log s') = count k (s_log s) -> claims k s -> claims k s'.
Proof.
  intros Hs. apply claims_ext; destruct k; cbn in Hs; try discriminate; intros; try (match goal with H : _ = _ |- _ => inversion H; subst end); exact Hs.
Qed.

(* a call on key k, abstractly: `bg` takes the system out and runs its body, `en` puts it back *)
Record bracket (k : skey) (l : N) (bg en : sst -> sst) : Prop := {
  b_log : forall s, exists e, s_log (bg s) = s_log s ++ [e] /\ body_key e = Some k /\ ev_ok_loc e (l + 1);
  b_busy : forall s, s_busy (bg s) = k :: s_busy s;
  b_reent : forall s, s_reent (bg s) = s_reent s || is_busy k s;
  b_ever : forall s, s_ever (bg s) = s_ever s;
  b_store : forall s k', k' <> k -> same_store k' s (bg s);
  b_spkeys : forall s sid, ahas sid (s_spawned (bg s)) = true -> ahas sid (s_spawned s) = true \/ k = SkSpawned sid;
  e_log : forall s, exists id o, s_log (en s) = s_log s ++ [SRet id o];
  e_busy : forall s, s_busy (en s) = remove_key k (s_busy s);
  e_reent : forall s, s_reent (en s) = s_reent s;
  e_ever : forall s, s_ever (en s) = s_ever s;
  e_store : forall s k', k' <> k -> same_store k' s (en s);
  e_spkeys : forall s sid, ahas sid (s_spawned (en s)) = ahas sid (s_spawned s);
  e_claims : forall s, count k (s_log s) = l + 1 -> claims k (en s);
}.

Lemma count_snoc k l e : count k (l ++ [e]) = count k l + (match body_key e with Some k' => if skey_eqb k k' then 1 else 0 | None => 0 end).
Proof. rewrite count_app. cbn. lia. Qed.

Lemma skey_neq_eqb k k' : k' <> k -> skey_eqb k' k = false.
Proof. intros H. destruct (skey_eqb k' k) eqn:E; [apply skey_eqb_eq in E; contradiction|reflexivity]. Qed.

Lemma bracket_good k l bg en (mid : sst -> sst) s :
  bracket k l bg en -> J s -> (is_busy k s = false -> l = count k (s_log s)) ->
  (match k with SkSpawned sid => ahas sid (s_spawned s) = true | _ => True end) ->
  (forall s0, J s0 -> s_reent (mid s0) = false -> good s0 (mid s0)) ->
  (forall s0, s_reent s0 = true -> s_reent (mid s0) = true) ->
  s_reent (en (mid (bg s))) = false -> good s (en (mid (bg s))).
Proof.
  intros B [J1 J2 J3 J4] Hl Hsp Hmid Hmono Hfl.
  rewrite (e_reent _ _ _ _ B) in Hfl.
  assert (Hf0 : s_reent (bg s) = false) by (destruct (s_reent (bg s)) eqn:E; [rewrite (Hmono _ E) in Hfl; discriminate|reflexivity]).
  rewrite (b_reent _ _ _ _ B) in Hf0. apply orb_false_iff in Hf0. destruct Hf0 as [Hfs Hnb].
  specialize (Hl Hnb).
  destruct (b_log _ _ _ _ B s) as (e & Elog & Ekey & Eloc).
  assert (HJ0 : J (bg s)).
  { constructor.
    - rewrite Elog. apply log_ok_snoc. split; [exact J1|]. destruct e as [id0 k0 t0 v0 loc0|]; cbn in Ekey, Eloc; [|contradiction]. injection Ekey as Hk0. cbn. rewrite Hk0, Eloc, Hl. reflexivity.
    - intros k' Hk'. unfold is_busy in Hk'. rewrite (b_busy _ _ _ _ B) in Hk'. cbn in Hk'. apply orb_false_iff in Hk'. destruct Hk' as [Hne Hk'].
      assert (Hneq : k' <> k) by (intros ->; rewrite skey_eqb_refl in Hne; discriminate).
      apply (claims_same k' s); [apply (b_store _ _ _ _ B); exact Hneq| |apply J2; exact Hk'].
      rewrite Elog, count_snoc, Ekey, Hne. lia.
    - intros sid Hc. rewrite (b_ever _ _ _ _ B). rewrite Elog, count_snoc, Ekey in Hc.
      destruct (skey_eqb (SkSpawned sid) k) eqn:Ek.
      + apply skey_eqb_eq in Ek. subst k. apply J4. exact Hsp.
      + apply J3. lia.
    - intros sid Hs. rewrite (b_ever _ _ _ _ B). apply J4. destruct (b_spkeys _ _ _ _ B s sid Hs) as [H|H]; [exact H|subst k; exact Hsp]. }
  destruct (Hmid (bg s) HJ0 Hfl) as (HJ1 & HB1 & HC1). set (s1 := mid (bg s)) in *.
  assert (Hc1 : count k (s_log s1) = l + 1).
  { rewrite (HC1 k); [|unfold is_busy; rewrite (b_busy _ _ _ _ B); cbn; rewrite skey_eqb_refl; reflexivity].
    rewrite Elog, count_snoc, Ekey, skey_eqb_refl, Hl. reflexivity. }
  destruct HJ1 as [K1 K2 K3 K4]. destruct (e_log _ _ _ _ B s1) as (rid & ro & Rlog).
  split; [|split].
  - constructor.
    + rewrite Rlog. apply log_ok_snoc. split; [exact K1|exact I].
    + intros k' Hk'. unfold is_busy in Hk'. rewrite (e_busy _ _ _ _ B), HB1, (b_busy _ _ _ _ B), remove_key_head in Hk'.
      destruct (skey_eqb k' k) eqn:Ek.
      * apply skey_eqb_eq in Ek. subst k'. apply (e_claims _ _ _ _ B). exact Hc1.
      * assert (Hneq : k' <> k) by (intros ->; rewrite skey_eqb_refl in Ek; discriminate).
        apply (claims_same k' s1); [apply (e_store _ _ _ _ B); exact Hneq|rewrite Rlog, count_snoc_ret; reflexivity|].
        apply K2. unfold is_busy. rewrite HB1, (b_busy _ _ _ _ B). cbn. rewrite Ek. exact Hk'.
    + intros sid Hc. rewrite (e_ever _ _ _ _ B). apply K3. rewrite Rlog, count_snoc_ret in Hc. exact Hc.
    + intros sid Hs. rewrite (e_ever _ _ _ _ B). apply K4. rewrite (e_spkeys _ _ _ _ B) in Hs. exact Hs.
  - rewrite (e_busy _ _ _ _ B), HB1, (b_busy _ _ _ _ B). apply remove_key_head.
  - intros k' Hk'. rewrite Rlog, count_snoc_ret.
    rewrite (HC1 k'); [|unfold is_busy; rewrite (b_busy _ _ _ _ B); cbn; change (skey_eqb k' k || is_busy k' s = true); rewrite Hk'; apply orb_true_r].
    rewrite Elog, count_snoc, Ekey. destruct (skey_eqb k' k) eqn:Ek; [apply skey_eqb_eq in Ek; subst k'; congruence|lia].
Qed.

(* ---------- the three entry points are brackets ---------- *)
Lemma ahas_aset_present {V} k (v : V) l k' : ahas k l = true -> ahas k' (aset k v l) = ahas k' l.
Proof.
  intros H. unfold ahas in *. destruct (N.eq_dec k' k) as [->|Hne]; [rewrite alookup_aset_same; destruct (alookup k l); [reflexivity|discriminate]|].
  rewrite alookup_aset_other by exact Hne. reflexivity.
Qed.

Lemma bracket_sys id t v s0 : bracket (SkSys t) (sys_local t s0) (fun s => slog (SBody id (SkSys t) t v (sys_local t s0 + 1)) (enter (SkSys t) (set_sys (aremove t (s_sys s)) s)))
                                      (end_sys id t v (sys_local t s0)).
Proof.
  constructor; intros; unfold end_sys; cbn [slog enter leave set_sys s_log s_busy s_reent s_ever s_spawned s_sys s_named]; try reflexivity.
  - eexists. split; [reflexivity|]. split; reflexivity.
  - destruct k' as [t'|n' t'|sid']; cbn; try reflexivity. apply alookup_aremove_other. intros ->. apply H. reflexivity.
  - left. exact H.
  - eexists. eexists. reflexivity.
  - destruct k' as [t'|n' t'|sid']; cbn; try reflexivity. apply alookup_aset_other. intros ->. apply H. reflexivity.
  - unfold claims, stored. cbn. rewrite alookup_aset_same. symmetry. rewrite count_snoc_ret. exact H.
Qed.

Lemma bracket_named id name t v s0 : bracket (SkNamed name t) (named_local name t s0)
  (fun s => slog (SBody id (SkNamed name t) t v (named_local name t s0 + 1))
                 (enter (SkNamed name t) (match alookup2 name t (s_named s) with Some _ => set_named (aset2 name t None (s_named s)) s | None => s end)))
  (end_named id name t v (named_local name t s0)).
Proof.
  constructor; intros; unfold end_named; cbn [slog enter leave set_named s_log s_busy s_reent s_ever s_spawned s_sys s_named];
    try (destruct (alookup2 name t (s_named s)); reflexivity); try reflexivity.
  - eexists. split; [destruct (alookup2 name t (s_named s)); reflexivity|]. split; reflexivity.
  - destruct k' as [t'|n' t'|sid']; cbn; try (destruct (alookup2 name t (s_named s)); reflexivity).
    destruct (alookup2 name t (s_named s)); [|reflexivity]. cbn. apply alookup2_aset2_other. intros Heq. inversion Heq; subst. apply H. reflexivity.
  - left. destruct (alookup2 name t (s_named s)); exact H.
  - eexists. eexists. reflexivity.
  - destruct k' as [t'|n' t'|sid']; cbn; try reflexivity. apply alookup2_aset2_other. intros Heq. inversion Heq; subst. apply H. reflexivity.
  - unfold claims, stored. cbn. rewrite alookup2_aset2_same'. symmetry. rewrite count_snoc_ret. exact H.
Qed.

Lemma bracket_spawned id sid t v l : bracket (SkSpawned sid) l (begin_spawned id sid t v l) (end_spawned id sid t v l).
Proof.
  constructor; intros; unfold begin_spawned, end_spawned; cbn [slog enter leave set_spawned s_log s_busy s_reent s_ever s_spawned s_sys s_named];
    try (destruct (alookup sid (s_spawned s)); reflexivity); try reflexivity.
  - eexists. split; [reflexivity|]. split; reflexivity.
  - destruct k' as [t'|n' t'|sid']; cbn; try reflexivity. apply alookup_aset_other. intros ->. apply H. reflexivity.
  - destruct (N.eq_dec sid0 sid) as [->|Hne]; [right; reflexivity|left]. unfold begin_spawned in H. cbn [slog enter set_spawned s_spawned] in H. unfold ahas in *. rewrite alookup_aset_other in H by exact Hne. exact H.
  - destruct (alookup sid (s_spawned s)); eexists; eexists; reflexivity.
  - destruct k' as [t'|n' t'|sid']; cbn; try (destruct (alookup sid (s_spawned s)); reflexivity).
    destruct (alookup sid (s_spawned s)); [|reflexivity]. cbn. apply alookup_aset_other. intros ->. apply H. reflexivity.
  - destruct (alookup sid (s_spawned s)) eqn:E; cbn; [|reflexivity]. unfold ahas. destruct (N.eq_dec sid0 sid) as [->|Hne]; [rewrite alookup_aset_same, E; reflexivity|rewrite alookup_aset_other by exact Hne; reflexivity].
  - unfold claims. destruct (alookup sid (s_spawned s)) eqn:E; cbn; [rewrite alookup_aset_same, count_snoc_ret; symmetry; exact H|rewrite E; exact I].
Qed.

Lemma good_refl s : J s -> good s s.
Proof. intros H. split; [exact H|]. split; [reflexivity|auto]. Qed.
Lemma good_trans s1 s2 s3 : good s1 s2 -> good s2 s3 -> good s1 s3.
Proof.
  intros (J2 & B2 & C2) (J3 & B3 & C3). split; [exact J3|]. split; [congruence|].
  intros k Hk. rewrite <- (C2 k Hk). apply C3. unfold is_busy in *. rewrite B2. exact Hk.
Qed.

Theorem run_calls_good f : forall cs s, J s -> s_reent (run_calls f cs s) = false -> good s (run_calls f cs s).
Proof.
  induction f as [|f IH]; intros cs s HJ Hfl; cbn [run_calls] in *; [apply good_refl; exact HJ|].
  destruct cs as [|c rest]; [apply good_refl; exact HJ|].
  match type of Hfl with s_reent (run_calls f rest ?x) = false => set (s1 := x) in * end.
  assert (Hf1 : s_reent s1 = false) by (eapply reent_false; exact Hfl).
  assert (H1 : good s s1).
  { subst s1. destruct c.
    - (* syscall *)
      apply (bracket_good (SkSys t) (sys_local t s) _ _ (run_calls f nested) s (bracket_sys id t v s)); try assumption; try exact I.
      + intros Hnb. apply (j_store s HJ (SkSys t) Hnb).
      + intros s0. apply IH.
      + intros s0. apply reent_mono.
    - (* named *)
      apply (bracket_good (SkNamed name t) (named_local name t s) _ _ (run_calls f nested) s (bracket_named id name t v s)); try assumption; try exact I.
      + intros Hnb. apply (j_store s HJ (SkNamed name t) Hnb).
      + intros s0. apply IH.
      + intros s0. apply reent_mono.
    - (* spawned *)
      destruct (alookup sid (s_spawned s)) as [[t [l|]]|] eqn:E.
      + apply (bracket_good (SkSpawned sid) l _ _ (run_calls f nested) s (bracket_spawned id sid t v l)); try assumption.
        * intros Hnb. pose proof (j_store s HJ (SkSpawned sid) Hnb) as Hc. unfold claims in Hc. rewrite E in Hc. exact Hc.
        * unfold ahas. rewrite E. reflexivity.
        * intros s0. apply IH.
        * intros s0. apply reent_mono.
      + split; [apply J_ret; exact HJ|]. split; [reflexivity|]. intros k Hk. cbn [slog s_log]. apply count_snoc_ret.
      + split; [apply J_ret; exact HJ|]. split; [reflexivity|]. intros k Hk. cbn [slog s_log]. apply count_snoc_ret.
    - (* spawn_system *)
      unfold do_spawn in *. destruct (ahas sid (s_spawned s)) eqn:Eh; [apply good_refl; exact HJ|].
      cbn [s_reent] in Hf1. apply orb_false_iff in Hf1. destruct Hf1 as [_ Hnew]. apply memN_false in Hnew.
      destruct HJ as [J1 J2 J3 J4]. split; [|split; [reflexivity|auto]]. constructor; cbn [s_log s_busy s_spawned s_ever].
      + exact J1.
      + intros k Hk. specialize (J2 k Hk). destruct k as [t'|n' t'|sid']; unfold claims, stored in *; cbn [s_sys s_named s_spawned s_log]; try exact J2.
        destruct (N.eq_dec sid' sid) as [->|Hne].
        * assert (Hl : alookup sid (s_spawned s ++ [(sid, (t, Some 0))]) = Some (t, Some 0)).
          { unfold ahas in Eh. clear -Eh. induction (s_spawned s) as [|[k0 v0] l IHl]; cbn in *; [rewrite N.eqb_refl; reflexivity|]. destruct (N.eqb sid k0); [discriminate|auto]. }
          rewrite Hl. destruct (N.eq_dec (count (SkSpawned sid) (s_log s)) 0) as [Hz|Hnz]; [symmetry; exact Hz|]. exfalso. apply Hnew. apply J3. exact Hnz.
        * assert (Hl : alookup sid' (s_spawned s ++ [(sid, (t, Some 0))]) = alookup sid' (s_spawned s)).
          { clear -Hne. induction (s_spawned s) as [|[k0 v0] l IHl]; cbn; [destruct (N.eqb_spec sid' sid); [contradiction|reflexivity]|]. destruct (N.eqb sid' k0); [reflexivity|exact IHl]. }
          rewrite Hl. exact J2.
      + intros sid0 Hc. right. apply J3. exact Hc.
      + intros sid0 Hs. unfold ahas in Hs. destruct (N.eq_dec sid0 sid) as [->|Hne]; [left; reflexivity|right]. apply J4. unfold ahas.
        assert (Hl : alookup sid0 (s_spawned s ++ [(sid, (t, Some 0))]) = alookup sid0 (s_spawned s)).
        { clear -Hne. induction (s_spawned s) as [|[k0 v0] l IHl]; cbn; [destruct (N.eqb_spec sid0 sid); [contradiction|reflexivity]|]. destruct (N.eqb sid0 k0); [reflexivity|exact IHl]. }
        rewrite <- Hl. exact Hs.
    - (* despawn *)
      destruct HJ as [J1 J2 J3 J4]. split; [|split; [reflexivity|auto]]. constructor; cbn [set_spawned s_log s_busy s_spawned s_ever s_sys s_named].
      + exact J1.
      + intros k Hk. specialize (J2 k Hk). destruct k as [t'|n' t'|sid']; unfold claims, stored in *; cbn [set_spawned s_sys s_named s_spawned s_log]; try exact J2.
        destruct (N.eq_dec sid' sid) as [->|Hne]; [rewrite alookup_aremove_same; exact I|rewrite alookup_aremove_other by exact Hne; exact J2].
      + exact J3.
      + intros sid0 Hs. apply J4. unfold ahas in *. destruct (N.eq_dec sid0 sid) as [->|Hne]; [rewrite alookup_aremove_same in Hs; discriminate|rewrite alookup_aremove_other in Hs by exact Hne; exact Hs].
    - (* named_syscall_direct *)
      destruct (alookup2 name t (s_named s)) as [[l|]|] eqn:E.
      + apply (bracket_good (SkNamed name t) (named_local name t s) _ _ (run_calls f nested) s (bracket_named id name t v s)); try assumption; try exact I.
        * intros Hnb. apply (j_store s HJ (SkNamed name t) Hnb).
        * intros s0. apply IH.
        * intros s0. apply reent_mono.
      + split; [apply J_ret; exact HJ|]. split; [reflexivity|]. intros k Hk. cbn [slog s_log]. apply count_snoc_ret.
      + split; [apply J_ret; exact HJ|]. split; [reflexivity|]. intros k Hk. cbn [slog s_log]. apply count_snoc_ret. }
  eapply good_trans; [exact H1|]. apply IH; [exact (proj1 H1)|exact Hfl].
Qed.

Lemma J_init : J sst_init.
Proof.
  constructor.
  - exact I.
  - intros k _. destruct k; reflexivity.
  - intros sid H. cbn in H. contradiction.
  - intros sid H. discriminate H.
Qed.

(* C17: as long as no key is re-entered while its system is running (and no spawned id is reused), the n-th body
   executed under a key sees Local = n, whatever the nesting and whatever the other keys do *)
Theorem keyed_persistent_state fuel cs : s_reent (run_calls fuel cs sst_init) = false -> log_ok (run_case fuel cs).
Proof. intros H. exact (j_log _ (proj1 (run_calls_good fuel cs sst_init J_init H))). Qed.

(* the commands a call queued have all been applied when it returns: its return event comes after everything they did *)
Lemma log_extends f : forall cs s, exists mid, s_log (run_calls f cs s) = s_log s ++ mid.
Proof.
  induction f as [|f IH]; intros cs s; cbn [run_calls]; [exists []; now rewrite app_nil_r|].
  destruct cs as [|c rest]; [exists []; now rewrite app_nil_r|].
  match goal with |- exists mid, s_log (run_calls f rest ?x) = _ => set (s1 := x) end.
  assert (H1 : exists m1, s_log s1 = s_log s ++ m1).
  { subst s1. destruct c.
    - destruct (IH nested (begin_sys id t v s)) as (m & Hm). unfold end_sys. cbn [slog leave set_sys s_log]. rewrite Hm. unfold begin_sys. cbn [slog enter set_sys s_log].
      eexists. rewrite <- !app_assoc. reflexivity.
    - destruct (IH nested (begin_named id name t v s)) as (m & Hm). unfold end_named. cbn [slog leave set_named s_log]. rewrite Hm. unfold begin_named. cbn [slog enter s_log].
      assert (Hl : forall x, s_log (match alookup2 name t (s_named s) with Some _ => set_named x s | None => s end) = s_log s) by (intros x; destruct (alookup2 name t (s_named s)); reflexivity).
      rewrite Hl. eexists. rewrite <- !app_assoc. reflexivity.
    - destruct (alookup sid (s_spawned s)) as [[t [l|]]|]; try (eexists; reflexivity).
      destruct (IH nested (begin_spawned id sid t v l s)) as (m & Hm). unfold end_spawned. cbn [slog leave s_log].
      assert (Hl : forall (s0 : sst) x, s_log (match alookup sid (s_spawned s0) with Some _ => set_spawned x s0 | None => s0 end) = s_log s0) by (intros s0 x; destruct (alookup sid (s_spawned s0)); reflexivity).
      rewrite Hl, Hm. unfold begin_spawned. cbn [slog enter set_spawned s_log]. eexists. rewrite <- !app_assoc. reflexivity.
    - unfold do_spawn. destruct (ahas sid (s_spawned s)); exists []; cbn; now rewrite app_nil_r.
    - exists []. cbn. now rewrite app_nil_r.
    - destruct (alookup2 name t (s_named s)) as [[l|]|] eqn:E; try (eexists; reflexivity).
      destruct (IH nested (begin_named id name t v s)) as (m & Hm). unfold end_named. cbn [slog leave set_named s_log]. rewrite Hm. unfold begin_named. cbn [slog enter s_log].
      rewrite E. cbn [set_named s_log]. eexists. rewrite <- !app_assoc. reflexivity. }
  destruct H1 as (m1 & H1). destruct (IH rest s1) as (m2 & H2). exists (m1 ++ m2). rewrite H2, H1, app_assoc. reflexivity.
Qed.

Theorem effects_applied_before_return f id t v nested rest s :
  exists mid tail, s_log (run_calls (S f) (KSys id t v nested :: rest) s)
    = s_log s ++ [SBody id (SkSys t) t v (sys_local t s + 1)] ++ mid ++ [SRet id (Some (output v (sys_local t s + 1)))] ++ tail
    /\ s_log (run_calls f nested (begin_sys id t v s)) = s_log (begin_sys id t v s) ++ mid.
Proof.
  cbn [run_calls]. destruct (log_extends f nested (begin_sys id t v s)) as (mid & Hm).
  destruct (log_extends f rest (end_sys id t v (sys_local t s) (run_calls f nested (begin_sys id t v s)))) as (tail & Ht).
  exists mid, tail. split; [|exact Hm]. rewrite Ht. unfold end_sys. cbn [slog leave set_sys s_log]. rewrite Hm.
  unfold begin_sys. cbn [slog enter set_sys s_log]. rewrite <- !app_assoc. reflexivity.
Qed.

(* calling a spawned system that is missing, or that is currently running, returns an error without running anything *)
Theorem spawned_missing_or_running_is_err f id sid v nested s :
  (alookup sid (s_spawned s) = None \/ exists t, alookup sid (s_spawned s) = Some (t, None)) ->
  run_calls (S (S f)) [KSpawned id sid v nested] s = slog (SRet id None) s.
Proof. intros [H|(t & H)]; cbn [run_calls]; rewrite H; reflexivity. Qed.

(* named_syscall_direct: an error, and nothing runs, unless the named node exists and currently holds its system; then it
   is exactly named_syscall under that key *)
Theorem named_direct_missing_or_running_is_err f id name t v nested s :
  (alookup2 name t (s_named s) = None \/ alookup2 name t (s_named s) = Some None) ->
  run_calls (S (S f)) [KNamedDirect id name t v nested] s = slog (SRet id None) s.
Proof. intros [H|H]; cbn [run_calls]; rewrite H; reflexivity. Qed.
Theorem named_direct_is_named_when_present f id name t v nested rest s l : alookup2 name t (s_named s) = Some (Some l) ->
  run_calls (S f) (KNamedDirect id name t v nested :: rest) s = run_calls (S f) (KNamed id name t v nested :: rest) s.
Proof. intros H. cbn [run_calls]. rewrite H. reflexivity. Qed.
