(* ReadersSpec.v — what the reader functions return, as a function of `visible w` (the entries of the trackers whose
   flag is on).  Together with TopLevel.readers_expose_own_claim (at the start of every body, visible = the entries
   claimed by that run's own setup = the entries parked by the command that caused the run) this is C03/C04:
   a reader answers only from the run's own event; readers of every other kind or type answer nothing. *)
From Cobweb Require Import Machine.
From CobwebProofs Require Import ListLemmas.

Definition er_of (k : ckind) (c : N) : ertype := match k with KIns => RIns c | KMut => RMut c | KRem => RRem c end.

Ltac vis_cases w :=
  unfold visible; destruct (reacting (tr_se w)), (reacting (tr_er w)), (reacting (tr_de w)), (reacting (tr_ev w)); cbn [app In].

Lemma in_visible_se w d : In (PiSe d) (visible w) <-> reacting (tr_se w) = true /\ cur (tr_se w) = d.
Proof. vis_cases w; split; intros H; try (destruct H as [H _]; discriminate H); repeat (destruct H as [H|H]; try discriminate H; try (inversion H; subst; auto)); try contradiction; destruct H as [_ <-]; auto. Qed.
Lemma in_visible_er w src rt : In (PiEr src rt) (visible w) <-> reacting (tr_er w) = true /\ snd (fst (cur (tr_er w))) = src /\ snd (cur (tr_er w)) = rt.
Proof. vis_cases w; split; intros H; try (destruct H as [H _]; discriminate H); repeat (destruct H as [H|H]; try discriminate H; try (inversion H; subst; auto)); try contradiction; destruct H as (_ & <- & <-); auto. Qed.
Lemma in_visible_de w e : In (PiDe e) (visible w) <-> reacting (tr_de w) = true /\ fst (cur (tr_de w)) = e.
Proof. vis_cases w; split; intros H; try (destruct H as [H _]; discriminate H); repeat (destruct H as [H|H]; try discriminate H; try (inversion H; subst; auto)); try contradiction; destruct H as [_ <-]; auto. Qed.
Lemma in_visible_ev w d : In (PiEv d) (visible w) <-> reacting (tr_ev w) = true /\ cur (tr_ev w) = d.
Proof. vis_cases w; split; intros H; try (destruct H as [H _]; discriminate H); repeat (destruct H as [H|H]; try discriminate H; try (inversion H; subst; auto)); try contradiction; destruct H as [_ <-]; auto. Qed.

(* ---------- each reader answers from the visible entry of its own kind, and only from it ---------- *)
Theorem read_despawn_spec w e : read_despawn w = Some e <-> In (PiDe e) (visible w).
Proof.
  rewrite in_visible_de. unfold read_despawn. destruct (reacting (tr_de w)); split.
  - intros H. inversion H. auto.
  - intros [_ <-]. reflexivity.
  - discriminate.
  - intros [H _]. discriminate H.
Qed.

Theorem read_er_spec k c w src : read_er k c w = Some src <-> In (PiEr src (er_of k c)) (visible w).
Proof.
  rewrite in_visible_er. unfold read_er. destruct (reacting (tr_er w)); [|split; [discriminate|intros [H _]; discriminate H]].
  destruct (cur (tr_er w)) as [[x s] rt]. cbn [fst snd]. split.
  - destruct k, rt; try discriminate; (destruct (N.eqb c c0) eqn:E; [|discriminate]); apply N.eqb_eq in E; subst; intros H; inversion H; auto.
  - intros (_ & <- & ->). destruct k; cbn [er_of]; rewrite N.eqb_refl; reflexivity.
Qed.

Theorem read_broadcast_spec ty w p : read_broadcast ty w = Some p ->
  exists d n, In (PiEv d) (visible w) /\ is_alive d w = true /\ alookup d (dataents w) = Some (DBroadcast ty p n).
Proof.
  unfold read_broadcast. destruct (reacting (tr_ev w)) eqn:R; [|discriminate]. cbn [andb].
  destruct (is_alive (cur (tr_ev w)) w) eqn:A; [|discriminate].
  destruct (alookup (cur (tr_ev w)) (dataents w)) as [[ty' p' n| |]|] eqn:D; try discriminate.
  destruct (N.eqb ty ty') eqn:E; [|discriminate]. apply N.eqb_eq in E. subst. intros H. inversion H; subst.
  exists (cur (tr_ev w)), n. rewrite in_visible_ev. auto.
Qed.

Theorem read_entity_event_spec ty w tgt p : read_entity_event ty w = Some (tgt, p) ->
  exists d n, In (PiEv d) (visible w) /\ is_alive d w = true /\ alookup d (dataents w) = Some (DEntityEvent ty tgt p n).
Proof.
  unfold read_entity_event. destruct (reacting (tr_ev w)) eqn:R; [|discriminate]. cbn [andb].
  destruct (is_alive (cur (tr_ev w)) w) eqn:A; [|discriminate].
  destruct (alookup (cur (tr_ev w)) (dataents w)) as [[| ty' t' p' n|]|] eqn:D; try discriminate.
  destruct (N.eqb ty ty') eqn:E; [|discriminate]. apply N.eqb_eq in E. subst. intros H. inversion H; subst.
  exists (cur (tr_ev w)), n. rewrite in_visible_ev. auto.
Qed.

Theorem peek_sysevent_spec ty w p : peek_sysevent ty w = Some p ->
  exists d, In (PiSe d) (visible w) /\ is_alive d w = true /\ alookup d (dataents w) = Some (DSysEvent ty (Some p)).
Proof.
  unfold peek_sysevent. destruct (reacting (tr_se w)) eqn:R; [|discriminate]. cbn [andb].
  destruct (is_alive (cur (tr_se w)) w) eqn:A; [|discriminate].
  destruct (alookup (cur (tr_se w)) (dataents w)) as [[| |ty' [p'|]]|] eqn:D; try discriminate.
  destruct (N.eqb ty ty') eqn:E; [|discriminate]. apply N.eqb_eq in E. subst. intros H. inversion H; subst.
  exists (cur (tr_se w)). rewrite in_visible_se. auto.
Qed.

(* ---------- nothing visible of a kind: every reader of that kind is empty ---------- *)
Lemma collect_none {A} (f : N -> option A) tys : (forall t, f t = None) -> collect f tys = [].
Proof. intros H. induction tys as [|t r IH]; cbn; [reflexivity|]. rewrite H. exact IH. Qed.

Definition no_ev (l : list pitem) : Prop := forall d, ~ In (PiEv d) l.
Definition no_se (l : list pitem) : Prop := forall d, ~ In (PiSe d) l.
Definition no_de (l : list pitem) : Prop := forall e, ~ In (PiDe e) l.
Definition no_er (l : list pitem) : Prop := forall e rt, ~ In (PiEr e rt) l.

Lemma no_ev_broadcast w ty : no_ev (visible w) -> read_broadcast ty w = None.
Proof. intros H. destruct (read_broadcast ty w) as [p|] eqn:E; [|reflexivity]. destruct (read_broadcast_spec _ _ _ E) as (d & n & Hin & _). exfalso. exact (H d Hin). Qed.
Lemma no_ev_entity_event w ty : no_ev (visible w) -> read_entity_event ty w = None.
Proof. intros H. destruct (read_entity_event ty w) as [[t p]|] eqn:E; [|reflexivity]. destruct (read_entity_event_spec _ _ _ _ E) as (d & n & Hin & _). exfalso. exact (H d Hin). Qed.
Lemma no_se_peek w ty : no_se (visible w) -> peek_sysevent ty w = None.
Proof. intros H. destruct (peek_sysevent ty w) as [p|] eqn:E; [|reflexivity]. destruct (peek_sysevent_spec _ _ _ E) as (d & Hin & _). exfalso. exact (H d Hin). Qed.
Lemma no_er_read w k c : no_er (visible w) -> read_er k c w = None.
Proof. intros H. destruct (read_er k c w) as [s|] eqn:E; [|reflexivity]. apply read_er_spec in E. exfalso. exact (H _ _ E). Qed.
Lemma no_de_read w : no_de (visible w) -> read_despawn w = None.
Proof. intros H. destruct (read_despawn w) as [s|] eqn:E; [|reflexivity]. apply read_despawn_spec in E. exfalso. exact (H _ E). Qed.

Lemma take_none tys : forall w, (forall ty, peek_sysevent ty w = None) -> take_sysevents tys w = ([], w).
Proof. induction tys as [|ty r IH]; intros w H; cbn [take_sysevents]; [reflexivity|]. rewrite H. apply IH. exact H. Qed.

(* the sample taken at the start of a body, field by field *)
Theorem sample_only_visible sd x w :
  let sm := fst (sample_readers sd x w) in
  (no_ev (visible w) -> sm_b sm = [] /\ sm_e sm = []) /\
  (no_se (visible w) -> sm_s sm = []) /\
  (no_er (visible w) -> sm_i sm = [] /\ sm_m sm = [] /\ sm_r sm = [] /\ sm_l sm = None) /\
  (no_de (visible w) -> sm_d sm = None).
Proof.
  unfold sample_readers. cbn zeta.
  match goal with |- context [if sd_take sd then take_sysevents TYPES w else ?e] => set (tk := if sd_take sd then take_sysevents TYPES w else e) end.
  assert (Hs : no_se (visible w) -> fst tk = []).
  { intros H. subst tk. destruct (sd_take sd); [|reflexivity]. rewrite take_none; [reflexivity|]. intros ty. apply no_se_peek. exact H. }
  destruct tk as [s w1]. cbn [fst sm_b sm_e sm_s sm_i sm_m sm_r sm_d sm_l] in *.
  split; [|split; [|split]].
  - intros H. rewrite !collect_none; [auto|intros; apply no_ev_entity_event; exact H|intros; apply no_ev_broadcast; exact H].
  - exact Hs.
  - intros H. assert (Hr : reacting (tr_er w) = false).
    { destruct (reacting (tr_er w)) eqn:R; [|reflexivity]. exfalso. apply (H (snd (fst (cur (tr_er w)))) (snd (cur (tr_er w)))). apply in_visible_er. auto. }
    rewrite !collect_none by (intros; apply no_er_read; exact H). repeat split; try reflexivity.
    destruct x as [[x0 xs]|]; [|reflexivity]. rewrite Hr. reflexivity.
  - intros H. apply no_de_read. exact H.
Qed.

(* a manual run (nothing claimed, nothing visible) sees nothing at all *)
Corollary sample_nothing_visible sd x w : visible w = [] ->
  fst (sample_readers sd x w) = mkSample [] [] [] [] [] [] None None.
Proof.
  intros Hv. pose proof (sample_only_visible sd x w) as (H1 & H2 & H3 & H4). cbn zeta in *.
  assert (N1 : no_ev (visible w)) by (rewrite Hv; intros d []).
  assert (N2 : no_se (visible w)) by (rewrite Hv; intros d []).
  assert (N3 : no_er (visible w)) by (rewrite Hv; intros e rt []).
  assert (N4 : no_de (visible w)) by (rewrite Hv; intros e []).
  destruct (H1 N1) as [A1 A2]. specialize (H2 N2). destruct (H3 N3) as (A3 & A4 & A5 & A6). specialize (H4 N4).
  destruct (fst (sample_readers sd x w)); cbn in *; subst; reflexivity.
Qed.

(* ---------- SystemEvent::take: the payload can be taken once ---------- *)
Lemma peek_taken ty ty' p w :
  peek_sysevent ty' (emit (EvDrop p) (w <| dataents := aset (cur (tr_se w)) (DSysEvent ty None) (dataents w) |>)) = None.
Proof.
  unfold peek_sysevent, emit. cbn [tr_se dataents set]. rewrite alookup_aset_same.
  match goal with |- (if ?b then _ else _) = _ => destruct b; reflexivity end.
Qed.

Theorem sysevent_taken_once tys : forall w l w1, take_sysevents tys w = (l, w1) ->
  (length l <= 1)%nat /\ (l <> [] -> forall ty, peek_sysevent ty w1 = None).
Proof.
  induction tys as [|ty r IH]; intros w l w1; cbn [take_sysevents].
  - intros H. inversion H; subst. split; [cbn; lia|intros Hn; contradiction].
  - destruct (peek_sysevent ty w) as [p|] eqn:E; [|apply IH].
    rewrite take_none by (intros ty'; apply peek_taken). intros H. inversion H; subst. split; [cbn; lia|].
    intros _ ty'. apply peek_taken.
Qed.
