(* TicketInv.v — the four access trackers hold exactly the metadata of the commands that are still pending (in flight,
   postponed in the world buffer, or held by an outer replay loop), keyed by unique tickets; the `reacting` flags are
   off at every instruction boundary outside the setup..cleanup window; a spent `once` wrapper is never run again.
   Consequences: setup never fails (no "prepared entry missing" panic), quiescence of the trackers (C11), and the
   basis of C03/C04/C05. *)
From Cobweb Require Import Machine.
From CobwebProofs Require Import ListLemmas Closed RunnerInv Frames OnceInv OnceRuns.
Require Import Coq.Sorting.Permutation.

(* ---------- pending commands and what each demands from the trackers ---------- *)
Definition tk_of (b : buffered) : list N := match b_setup b with SuDefault => [] | su => [setup_ticket su] end.
Definition dem_se (b : buffered) : list (N * ent) := match b_setup b with SuSysEvent k => [(k, b_sys b)] | _ => [] end.
Definition dem_er (b : buffered) : list (N * ent) := match b_setup b with SuEntity k | SuEntityEvent k => [(k, b_sys b)] | _ => [] end.
Definition dem_de (b : buffered) : list (N * ent) := match b_setup b with SuDespawn k => [(k, b_sys b)] | _ => [] end.
Definition dem_ev (b : buffered) : list (N * ent) := match b_setup b with SuEntityEvent k | SuBroadcast k => [(k, b_sys b)] | _ => [] end.
Definition matched (b : buffered) : Prop :=
  match b_setup b, b_cleanup b with
  | SuDefault, ClDefault | SuSysEvent _, ClSysEvent | SuEntity _, ClEntity | SuDespawn _, ClDespawn
  | SuEntityEvent _, ClEntityEvent | SuBroadcast _, ClBroadcast => True
  | _, _ => False
  end.
Definition keys {A} (t : trk A) : list (N * ent) := map fst (prepared t).

Record TInv0 (all : list buffered) (w : world) : Prop := {
  ti_se : Permutation (keys (tr_se w)) (flat_map dem_se all);
  ti_er : Permutation (keys (tr_er w)) (flat_map dem_er all);
  ti_de : Permutation (keys (tr_de w)) (flat_map dem_de all);
  ti_ev : Permutation (keys (tr_ev w)) (flat_map dem_ev all);
  ti_nodup : NoDup (flat_map tk_of all);
  ti_bound : forall k, In k (flat_map tk_of all) -> k <= ticket_ctr w;
  ti_matched : Forall matched all;
}.

Definition flags_off (w : world) : Prop :=
  reacting (tr_se w) = false /\ reacting (tr_er w) = false /\ reacting (tr_de w) = false /\ reacting (tr_ev w) = false
  /\ snd (cur (tr_de w)) = None.
(* inside the window between a command's setup and its cleanup only the flags that cleanup resets may be set *)
Definition flags_within (cl : cleanup) (w : world) : Prop :=
  match cl with
  | ClDefault => flags_off w
  | ClSysEvent => reacting (tr_er w) = false /\ reacting (tr_de w) = false /\ reacting (tr_ev w) = false /\ snd (cur (tr_de w)) = None
  | ClEntity => reacting (tr_se w) = false /\ reacting (tr_de w) = false /\ reacting (tr_ev w) = false /\ snd (cur (tr_de w)) = None
  | ClDespawn => reacting (tr_se w) = false /\ reacting (tr_er w) = false /\ reacting (tr_ev w) = false
  | ClEntityEvent => reacting (tr_se w) = false /\ reacting (tr_de w) = false /\ snd (cur (tr_de w)) = None
  | ClBroadcast => reacting (tr_se w) = false /\ reacting (tr_er w) = false /\ reacting (tr_de w) = false /\ snd (cur (tr_de w)) = None
  end.

Lemma flags_off_within cl w : flags_off w -> flags_within cl w.
Proof. intros (H1 & H2 & H3 & H4 & H5). destruct cl; cbn; repeat split; assumption. Qed.

(* ---------- frames ---------- *)
Lemma kview_proj w w' : kview w' = kview w ->
  ticket_ctr w' = ticket_ctr w /\ tr_ev w' = tr_ev w /\ tr_se w' = tr_se w /\ tr_er w' = tr_er w /\ tr_de w' = tr_de w /\ buffer w' = buffer w.
Proof. unfold kview, kview0. intros H. inversion H. auto 10. Qed.
Lemma kview0_proj w w' : kview0 w' = kview0 w ->
  ticket_ctr w' = ticket_ctr w /\ tr_ev w' = tr_ev w /\ tr_se w' = tr_se w /\ tr_er w' = tr_er w /\ tr_de w' = tr_de w /\ buffer w' = buffer w.
Proof. unfold kview0. intros H. inversion H. auto 10. Qed.

Lemma TInv0_kview all w w' : kview w' = kview w -> TInv0 all w -> TInv0 all w'.
Proof.
  intros HK [T1 T2 T3 T4 T5 T6 T7]. destruct (kview_proj _ _ HK) as (K1 & K2 & K3 & K4 & K5 & K6).
  constructor; rewrite ?K1, ?K2, ?K3, ?K4, ?K5; assumption.
Qed.
Lemma flags_off_kview w w' : kview w' = kview w -> flags_off w -> flags_off w'.
Proof. intros HK. destruct (kview_proj _ _ HK) as (K1 & K2 & K3 & K4 & K5 & K6). unfold flags_off. now rewrite K2, K3, K4, K5. Qed.
Lemma flags_within_kview cl w w' : kview w' = kview w -> flags_within cl w -> flags_within cl w'.
Proof. intros HK. destruct (kview_proj _ _ HK) as (K1 & K2 & K3 & K4 & K5 & K6). destruct cl; unfold flags_within, flags_off; now rewrite ?K2, ?K3, ?K4, ?K5. Qed.

Lemma TInv0_perm all all' w : Permutation all all' -> TInv0 all w -> TInv0 all' w.
Proof.
  intros HP [T1 T2 T3 T4 T5 T6 T7]. constructor.
  - eapply Permutation_trans; [exact T1|]. apply Permutation_flat_map. exact HP.
  - eapply Permutation_trans; [exact T2|]. apply Permutation_flat_map. exact HP.
  - eapply Permutation_trans; [exact T3|]. apply Permutation_flat_map. exact HP.
  - eapply Permutation_trans; [exact T4|]. apply Permutation_flat_map. exact HP.
  - eapply Permutation_NoDup; [|exact T5]. apply Permutation_flat_map. exact HP.
  - intros k Hk. apply T6. eapply Permutation_in; [|exact Hk]. apply Permutation_sym, Permutation_flat_map. exact HP.
  - eapply Permutation_Forall; eauto.
Qed.

(* ---------- swap_remove ---------- *)
Lemma swap_last_perm {A} (r : list A) : Permutation (match rev r with [] => [] | lst :: rr => lst :: rev rr end) r.
Proof.
  destruct (rev r) as [|lst rr] eqn:E.
  - assert (r = []) by (rewrite <- (rev_involutive r), E; reflexivity). subst. constructor.
  - assert (Hr : r = rev rr ++ [lst]) by (rewrite <- (rev_involutive r), E; reflexivity). rewrite Hr.
    apply Permutation_cons_append.
Qed.

Lemma swap_remove_at_spec {A} k s (l : list (N * ent * A)) : In (k, s) (map fst l) ->
  exists a rest, swap_remove_at k s l = Some (a, rest) /\ Permutation (map fst l) ((k, s) :: map fst rest).
Proof.
  induction l as [|[[k' s'] a'] l IH]; cbn [map In swap_remove_at]; [intros []|].
  destruct (N.eqb k k' && N.eqb s s') eqn:E.
  - intros _. apply andb_true_iff in E. destruct E as [E1 E2]. apply N.eqb_eq in E1, E2. subst.
    eexists. eexists. split; [reflexivity|]. cbn [fst]. constructor. apply Permutation_map. apply Permutation_sym, swap_last_perm.
  - intros [Heq|Hin]; [cbn in Heq; inversion Heq; subst; rewrite !N.eqb_refl in E; discriminate|].
    destruct (IH Hin) as (a & rest & Hs & Hp). rewrite Hs. eexists. eexists. split; [reflexivity|]. cbn [map fst].
    eapply Permutation_trans; [apply perm_skip; exact Hp|]. apply perm_swap.
Qed.

Lemma trk_start_ok {A} strict k s (t : trk A) : In (k, s) (keys t) -> reacting t = false ->
  exists t', trk_start strict k s t = Some t' /\ Permutation (keys t) ((k, s) :: keys t') /\ reacting t' = true.
Proof.
  intros Hin Hr. unfold trk_start, keys in *. destruct (swap_remove_at_spec k s (prepared t) Hin) as (a & rest & Hs & Hp).
  rewrite Hs, Hr, andb_false_r. eexists. split; [reflexivity|]. cbn. split; [exact Hp|reflexivity].
Qed.

(* ---------- demands of one pending command ---------- *)

Lemma in_dem_ticket (dem : buffered -> list (N * ent)) :
  (forall b x, In x (dem b) -> In (fst x) (tk_of b)) ->
  forall all x, In x (flat_map dem all) -> In (fst x) (flat_map tk_of all).
Proof. intros H all x Hx. apply in_flat_map in Hx. destruct Hx as (b & Hb & Hx). apply in_flat_map. exists b. split; [exact Hb|]. apply H. exact Hx. Qed.

Lemma dem_se_tk b x : In x (dem_se b) -> In (fst x) (tk_of b).
Proof. unfold dem_se, tk_of. destruct (b_setup b); cbn; try tauto. intros [<-|[]]. left. reflexivity. Qed.
Lemma dem_er_tk b x : In x (dem_er b) -> In (fst x) (tk_of b).
Proof. unfold dem_er, tk_of. destruct (b_setup b); cbn; try tauto; intros [<-|[]]; left; reflexivity. Qed.
Lemma dem_de_tk b x : In x (dem_de b) -> In (fst x) (tk_of b).
Proof. unfold dem_de, tk_of. destruct (b_setup b); cbn; try tauto. intros [<-|[]]. left. reflexivity. Qed.
Lemma dem_ev_tk b x : In x (dem_ev b) -> In (fst x) (tk_of b).
Proof. unfold dem_ev, tk_of. destruct (b_setup b); cbn; try tauto; intros [<-|[]]; left; reflexivity. Qed.

(* ---------- setup consumes exactly the entries of its own command ---------- *)
Lemma TInv0_tail b rest w : TInv0 (b :: rest) w ->
  NoDup (flat_map tk_of rest) /\ (forall k, In k (flat_map tk_of rest) -> k <= ticket_ctr w) /\ Forall matched rest /\ matched b.
Proof.
  intros [T1 T2 T3 T4 T5 T6 T7]. cbn [flat_map] in T5, T6. split; [|split; [|split]].
  - clear -T5. induction (tk_of b) as [|x l IHl]; cbn in T5; [exact T5|]. inversion T5; subst. apply IHl. assumption.
  - intros k Hk. apply T6. apply in_or_app. right. exact Hk.
  - inversion T7; assumption.
  - inversion T7; assumption.
Qed.

Lemma setup_ok0 b rest w : TInv0 (b :: rest) w -> flags_off w ->
  exists w0, run_setup (b_setup b) (b_sys b) w = Some w0 /\ TInv0 rest w0 /\ flags_within (b_cleanup b) w0
             /\ buffer w0 = buffer w /\ oview w0 = oview w /\ rview w0 = rview w.
Proof.
  intros HT (F1 & F2 & F3 & F4 & F5). destruct (TInv0_tail b rest w HT) as (Hnd & Hbd & Hm & Hmb).
  destruct HT as [T1 T2 T3 T4 T5 T6 T7]. cbn [flat_map] in T1, T2, T3, T4.
  unfold matched in Hmb. destruct b as [t su cl]. cbn [b_setup b_sys b_cleanup] in *.
  destruct su; destruct cl; try contradiction; cbn [run_setup]; unfold dem_se, dem_er, dem_de, dem_ev in T1, T2, T3, T4; cbn [b_setup b_sys app] in T1, T2, T3, T4.
  - (* default *)
    exists (note_claim 0 t [] w). split; [reflexivity|]. split; [constructor; assumption|]. split; [repeat split; assumption|]. auto.
  - (* system event *)
    destruct (trk_start_ok true k t (tr_se w)) as (t' & Hs & Hp & Hr); [eapply Permutation_in; [apply Permutation_sym; exact T1|left; reflexivity]|exact F1|].
    rewrite Hs. eexists. split; [reflexivity|]. split; [|split; [|auto]].
    + constructor; cbn; try assumption. apply (Permutation_cons_inv (a := (k, t))). eapply Permutation_trans; [apply Permutation_sym; exact Hp|exact T1].
    + cbn. repeat split; assumption.
  - (* entity reaction *)
    destruct (trk_start_ok true k t (tr_er w)) as (t' & Hs & Hp & Hr); [eapply Permutation_in; [apply Permutation_sym; exact T2|left; reflexivity]|exact F2|].
    rewrite Hs. eexists. split; [reflexivity|]. split; [|split; [|auto]].
    + constructor; cbn; try assumption. apply (Permutation_cons_inv (a := (k, t))). eapply Permutation_trans; [apply Permutation_sym; exact Hp|exact T2].
    + cbn. repeat split; assumption.
  - (* despawn reaction *)
    destruct (trk_start_ok false k t (tr_de w)) as (t' & Hs & Hp & Hr); [eapply Permutation_in; [apply Permutation_sym; exact T3|left; reflexivity]|exact F3|].
    rewrite Hs. eexists. split; [reflexivity|]. split; [|split; [|auto]].
    + constructor; cbn; try assumption. apply (Permutation_cons_inv (a := (k, t))). eapply Permutation_trans; [apply Permutation_sym; exact Hp|exact T3].
    + cbn. repeat split; assumption.
  - (* entity event: both trackers *)
    destruct (trk_start_ok true k t (tr_er w)) as (t' & Hs & Hp & Hr); [eapply Permutation_in; [apply Permutation_sym; exact T2|left; reflexivity]|exact F2|].
    rewrite Hs.
    destruct (trk_start_ok true k t (tr_ev w)) as (t'' & Hs' & Hp' & Hr'); [eapply Permutation_in; [apply Permutation_sym; exact T4|left; reflexivity]|exact F4|].
    cbn [tr_ev set]. change (tr_ev (w <| tr_er := t' |>)) with (tr_ev w). rewrite Hs'.
    eexists. split; [reflexivity|]. split; [|split; [|auto]].
    + constructor; cbn; try assumption.
      * apply (Permutation_cons_inv (a := (k, t))). eapply Permutation_trans; [apply Permutation_sym; exact Hp|exact T2].
      * apply (Permutation_cons_inv (a := (k, t))). eapply Permutation_trans; [apply Permutation_sym; exact Hp'|exact T4].
    + cbn. repeat split; assumption.
  - (* broadcast *)
    destruct (trk_start_ok true k t (tr_ev w)) as (t' & Hs & Hp & Hr); [eapply Permutation_in; [apply Permutation_sym; exact T4|left; reflexivity]|exact F4|].
    rewrite Hs. eexists. split; [reflexivity|]. split; [|split; [|auto]].
    + constructor; cbn; try assumption. apply (Permutation_cons_inv (a := (k, t))). eapply Permutation_trans; [apply Permutation_sym; exact Hp|exact T4].
    + cbn. repeat split; assumption.
Qed.

(* ---------- cleanup ends the window ---------- *)
Lemma trackers_try_cleanup d w : kview (try_cleanup_data_entity d w) = kview w.
Proof. apply kview_try_cleanup. Qed.

Lemma cleanup_ok0 cl all w : TInv0 all w -> flags_within cl w -> TInv0 all (run_cleanup cl w) /\ flags_off (run_cleanup cl w) /\ buffer (run_cleanup cl w) = buffer w.
Proof.
  intros HT HF. destruct cl; cbn [run_cleanup flags_within] in *.
  - auto.
  - set (w1 := w <| tr_se ::= trk_end |>).
    assert (HT1 : TInv0 all w1) by (destruct HT; constructor; assumption).
    assert (HF1 : flags_off w1) by (destruct HF as (H1 & H2 & H3 & H4); repeat split; assumption).
    pose proof (kview_despawn (cur (tr_se w)) w1) as HK.
    split; [eapply TInv0_kview; eauto|]. split; [eapply flags_off_kview; eauto|]. destruct (kview_proj _ _ HK) as (_ & _ & _ & _ & _ & HB). exact HB.
  - split; [destruct HT; constructor; assumption|]. split; [destruct HF as (H1 & H2 & H3 & H4); repeat split; assumption|reflexivity].
  - set (w1 := w <| tr_de := mkTrk false (fst (cur (tr_de w)), None) (prepared (tr_de w)) |>).
    assert (HT1 : TInv0 all w1) by (destruct HT; constructor; assumption).
    assert (HF1 : flags_off w1) by (destruct HF as (H1 & H2 & H3); repeat split; assumption).
    destruct (snd (cur (tr_de w))) as [h|]; [|auto].
    pose proof (kview_handle_drop h w1) as HK.
    split; [eapply TInv0_kview; eauto|]. split; [eapply flags_off_kview; eauto|]. destruct (kview_proj _ _ HK) as (_ & _ & _ & _ & _ & HB). exact HB.
  - set (w1 := (w <| tr_er ::= trk_end |>) <| tr_ev ::= trk_end |>).
    assert (HT1 : TInv0 all w1) by (destruct HT; constructor; assumption).
    assert (HF1 : flags_off w1) by (destruct HF as (H1 & H2 & H3); repeat split; assumption).
    pose proof (kview_try_cleanup (cur (tr_ev (w <| tr_er ::= trk_end |>))) w1) as HK.
    split; [eapply TInv0_kview; eauto|]. split; [eapply flags_off_kview; eauto|]. destruct (kview_proj _ _ HK) as (_ & _ & _ & _ & _ & HB). exact HB.
  - set (w1 := w <| tr_ev ::= trk_end |>).
    assert (HT1 : TInv0 all w1) by (destruct HT; constructor; assumption).
    assert (HF1 : flags_off w1) by (destruct HF as (H1 & H2 & H3 & H4); repeat split; assumption).
    pose proof (kview_try_cleanup (cur (tr_ev w)) w1) as HK.
    split; [eapply TInv0_kview; eauto|]. split; [eapply flags_off_kview; eauto|]. destruct (kview_proj _ _ HK) as (_ & _ & _ & _ & _ & HB). exact HB.
Qed.

(* ---------- a new command draws a fresh ticket and parks its metadata ---------- *)
(* adding a pending command that demands nothing *)
Lemma TInv0_add_default t all w : TInv0 all w -> TInv0 (mkBuf t SuDefault ClDefault :: all) w.
Proof. intros [T1 T2 T3 T4 T5 T6 T7]. constructor; cbn [flat_map dem_se dem_er dem_de dem_ev tk_of b_setup app]; try assumption. constructor; [exact I|exact T7]. Qed.

Lemma keys_prepare {A} k t (a : A) (tr : trk A) : keys (trk_prepare k t a tr) = keys tr ++ [(k, t)].
Proof. unfold keys, trk_prepare. cbn. rewrite map_app. reflexivity. Qed.
Lemma perm_snoc_cons {A} (x : A) l l' : Permutation l l' -> Permutation (l ++ [x]) (x :: l').
Proof. intros H. eapply Permutation_trans; [apply Permutation_sym, Permutation_cons_append|]. constructor. exact H. Qed.

Lemma prepare_ok0 c all w t su cl w1 : prepare_cmd c w = Some (t, su, cl, w1) -> TInv0 all w -> flags_off w ->
  TInv0 (mkBuf t su cl :: all) w1 /\ flags_off w1 /\ buffer w1 = buffer w /\ oview w1 = oview w /\ rview w1 = rview w.
Proof.
  intros E HT HF. pose proof HT as [T1 T2 T3 T4 T5 T6 T7].
  set (k := ticket_ctr w + 1).
  assert (Hfresh : ~ In k (flat_map tk_of all)) by (intros Hin; apply T6 in Hin; subst k; lia).
  assert (Hbd : forall k0, In k0 (k :: flat_map tk_of all) -> k0 <= k) by (intros k0 [<-|Hk]; [lia|apply T6 in Hk; subst k; lia]).
  assert (Hnd : NoDup (k :: flat_map tk_of all)) by (constructor; assumption).
  assert (Hm : forall b, matched b -> Forall matched (b :: all)) by (intros b Hb; constructor; assumption).
  destruct c; try discriminate E; cbn [prepare_cmd] in E.
  - inversion E; subst. split; [apply TInv0_add_default; eapply TInv0_kview; [|exact HT]; reflexivity|]. split; [exact HF|]. repeat split; reflexivity.
  - unfold fresh_ticket in E. inversion E; subst. clear E. split; [|split; [exact HF|auto]].
    constructor; [|exact T2|exact T3|exact T4|exact Hnd|exact Hbd|apply Hm; exact I].
    unfold note_prep; cbn [tr_se set]. rewrite keys_prepare. apply perm_snoc_cons. exact T1.
  - destruct r; unfold fresh_ticket in E; inversion E; subst; clear E.
    + split; [apply TInv0_add_default; eapply TInv0_kview; [|exact HT]; reflexivity|]. split; [exact HF|]. repeat split; reflexivity.
    + split; [|split; [exact HF|auto]]. constructor; [exact T1| |exact T3|exact T4|exact Hnd|exact Hbd|apply Hm; exact I].
      unfold note_prep; cbn [tr_er set]. rewrite keys_prepare. apply perm_snoc_cons. exact T2.
    + split; [|split; [exact HF|auto]]. constructor; [exact T1|exact T2| |exact T4|exact Hnd|exact Hbd|apply Hm; exact I].
      unfold note_prep; cbn [tr_de set]. rewrite keys_prepare. apply perm_snoc_cons. exact T3.
    + split; [|split; [exact HF|auto]]. constructor; [exact T1| |exact T3| |exact Hnd|exact Hbd|apply Hm; exact I].
      * unfold note_prep; cbn [tr_er set]. rewrite keys_prepare. apply perm_snoc_cons. exact T2.
      * unfold note_prep; cbn [tr_ev set]. rewrite keys_prepare. apply perm_snoc_cons. exact T4.
    + split; [|split; [exact HF|auto]]. constructor; [exact T1|exact T2|exact T3| |exact Hnd|exact Hbd|apply Hm; exact I].
      unfold note_prep; cbn [tr_ev set]. rewrite keys_prepare. apply perm_snoc_cons. exact T4.
Qed.

(* ================================================================================================================ *)
(* ghost bookkeeping (C03): each setup claims exactly the entries its own command parked                             *)
Definition gentry := (N * ent * list pitem)%type.
Definition parked (k : N) (s : ent) (it : pitem) (w : world) : Prop :=
  exists items, In (k, s, items) (g_prep w) /\ In it items.
(* the entries a pending command parked, by the kind of its setup *)
Definition shape_ok (gp : list gentry) (b : buffered) : Prop :=
  match b_setup b with
  | SuDefault => True
  | SuSysEvent k => exists d, In (k, b_sys b, [PiSe d]) gp
  | SuEntity k => exists src rt, In (k, b_sys b, [PiEr src rt]) gp
  | SuDespawn k => exists src, In (k, b_sys b, [PiDe src]) gp
  | SuEntityEvent k => exists tgt d, In (k, b_sys b, [PiEr tgt (REvent UNIT_TY); PiEv d]) gp
  | SuBroadcast k => exists d, In (k, b_sys b, [PiEv d]) gp
  end.
(* a claim is empty (manual run) or is literally one command's parked entry list, ticket and system included *)
Definition claim_ok (gp : list gentry) (c : gentry) : Prop := snd c = [] \/ In c gp.
Definition ptickets (gp : list gentry) : list N := map (fun x => fst (fst x)) gp.
(* tickets of the claims that took something out of the trackers (a manual run claims nothing) *)
Definition ctickets (gc : list gentry) : list N := flat_map (fun c => match snd c with [] => [] | _ => [fst (fst c)] end) gc.

Record GInv (all : list buffered) (w : world) : Prop := {
  g_se : forall k s d, In (k, s, d) (prepared (tr_se w)) -> parked k s (PiSe d) w;
  g_er : forall k s x src rt, In (k, s, (x, src, rt)) (prepared (tr_er w)) -> parked k s (PiEr src rt) w;
  g_de : forall k s src h, In (k, s, (src, h)) (prepared (tr_de w)) -> parked k s (PiDe src) w;
  g_ev : forall k s d, In (k, s, d) (prepared (tr_ev w)) -> parked k s (PiEv d) w;
  g_bound : forall k, In k (ptickets (g_prep w)) -> k <= ticket_ctr w;
  g_uniq : NoDup (ptickets (g_prep w));
  g_shape : Forall (shape_ok (g_prep w)) all;
  g_exact : Forall (claim_ok (g_prep w)) (g_claim w);
  (* every parked command has been claimed by exactly one setup, or is still pending *)
  g_part : Permutation (ptickets (g_prep w)) (ctickets (g_claim w) ++ flat_map tk_of all);
}.

Definition gview (w : world) :=
  (ticket_ctr w, prepared (tr_se w), prepared (tr_er w), prepared (tr_de w), prepared (tr_ev w), g_prep w, g_claim w).
Lemma gview_kview0 w w' : kview0 w' = kview0 w -> gview w' = gview w.
Proof. unfold kview0, gview. intros H. inversion H. reflexivity. Qed.
Lemma gview_kview w w' : kview w' = kview w -> gview w' = gview w.
Proof. intros H. apply gview_kview0, kview_kview0, H. Qed.
Lemma GInv_gview all w w' : gview w' = gview w -> GInv all w -> GInv all w'.
Proof.
  unfold gview. intros H [G1 G2 G3 G4 G5 G6 G7 G8 G9]. inversion H as [[E1 E2 E3 E4 E5 E6 E7]].
  constructor; unfold parked in *; rewrite ?E1, ?E2, ?E3, ?E4, ?E5, ?E6, ?E7; assumption.
Qed.
Lemma GInv_kview all w w' : kview w' = kview w -> GInv all w -> GInv all w'.
Proof. intros H. apply GInv_gview. apply gview_kview. exact H. Qed.
Lemma GInv_perm all all' w : Permutation all all' -> GInv all w -> GInv all' w.
Proof.
  intros HP [G1 G2 G3 G4 G5 G6 G7 G8 G9]. constructor; try assumption; [eapply Permutation_Forall; eauto|].
  eapply Permutation_trans; [exact G9|]. apply Permutation_app_head. apply Permutation_flat_map. exact HP.
Qed.
Lemma GInv_add_default t all w : GInv all w -> GInv (mkBuf t SuDefault ClDefault :: all) w.
Proof. intros [G1 G2 G3 G4 G5 G6 G7 G8 G9]. constructor; try assumption. constructor; [exact I|exact G7]. Qed.

Lemma shape_ok_mono gp x b : shape_ok gp b -> shape_ok (gp ++ [x]) b.
Proof.
  unfold shape_ok. destruct (b_setup b); auto.
  - intros (d & H). exists d. apply in_or_app. left. exact H.
  - intros (a & c & H). exists a, c. apply in_or_app. left. exact H.
  - intros (d & H). exists d. apply in_or_app. left. exact H.
  - intros (a & c & H). exists a, c. apply in_or_app. left. exact H.
  - intros (d & H). exists d. apply in_or_app. left. exact H.
Qed.
Lemma claim_ok_mono gp x c : claim_ok gp c -> claim_ok (gp ++ [x]) c.
Proof. intros [H|H]; [left; exact H|right; apply in_or_app; left; exact H]. Qed.

Lemma NoDup_app_snoc {A} (l : list A) x : NoDup l -> ~ In x l -> NoDup (l ++ [x]).
Proof.
  intros H Hn. eapply Permutation_NoDup; [apply Permutation_cons_append|]. constructor; assumption.
Qed.
(* a command parks its entries under a fresh ticket *)
Lemma GInv_park k t items su cl all w w1 :
  k = ticket_ctr w + 1 -> ticket_ctr w1 = k -> g_prep w1 = g_prep w ++ [(k, t, items)] -> g_claim w1 = g_claim w ->
  (forall k' s d, In (k', s, d) (prepared (tr_se w1)) -> In (k', s, d) (prepared (tr_se w)) \/ (k' = k /\ s = t /\ In (PiSe d) items)) ->
  (forall k' s x src rt, In (k', s, (x, src, rt)) (prepared (tr_er w1)) -> In (k', s, (x, src, rt)) (prepared (tr_er w)) \/ (k' = k /\ s = t /\ In (PiEr src rt) items)) ->
  (forall k' s src h, In (k', s, (src, h)) (prepared (tr_de w1)) -> In (k', s, (src, h)) (prepared (tr_de w)) \/ (k' = k /\ s = t /\ In (PiDe src) items)) ->
  (forall k' s d, In (k', s, d) (prepared (tr_ev w1)) -> In (k', s, d) (prepared (tr_ev w)) \/ (k' = k /\ s = t /\ In (PiEv d) items)) ->
  shape_ok (g_prep w1) (mkBuf t su cl) -> tk_of (mkBuf t su cl) = [k] ->
  GInv all w -> GInv (mkBuf t su cl :: all) w1.
Proof.
  intros Hk Hc Hp Hcl Hse Her Hde Hev Hsh Htk [G1 G2 G3 G4 G5 G6 G7 G8 G9].
  assert (Hmono : forall k' s it, parked k' s it w -> parked k' s it w1).
  { intros k' s it (items' & Hi & Hit). exists items'. split; [rewrite Hp; apply in_or_app; left; exact Hi|exact Hit]. }
  assert (Hnew : forall it, In it items -> parked k t it w1).
  { intros it Hit. exists items. split; [rewrite Hp; apply in_or_app; right; left; reflexivity|exact Hit]. }
  constructor.
  - intros k' s d Hin. destruct (Hse _ _ _ Hin) as [Ho|(-> & -> & Hi)]; [apply Hmono, G1; exact Ho|apply Hnew; exact Hi].
  - intros k' s x src rt Hin. destruct (Her _ _ _ _ _ Hin) as [Ho|(-> & -> & Hi)]; [apply Hmono; eapply G2; exact Ho|apply Hnew; exact Hi].
  - intros k' s src h Hin. destruct (Hde _ _ _ _ Hin) as [Ho|(-> & -> & Hi)]; [apply Hmono; eapply G3; exact Ho|apply Hnew; exact Hi].
  - intros k' s d Hin. destruct (Hev _ _ _ Hin) as [Ho|(-> & -> & Hi)]; [apply Hmono, G4; exact Ho|apply Hnew; exact Hi].
  - intros k' Hin. rewrite Hp in Hin. unfold ptickets in Hin. rewrite map_app in Hin. apply in_app_or in Hin. rewrite Hc.
    destruct Hin as [Ho|[<-|[]]]; [apply G5 in Ho; lia|cbn; lia].
  - rewrite Hp. unfold ptickets. rewrite map_app. cbn [map fst].
    apply NoDup_app_snoc; [exact G6|]. intros Hin. apply G5 in Hin. lia.
  - constructor; [exact Hsh|]. rewrite Hp. eapply Forall_impl; [|exact G7]. intros b. apply shape_ok_mono.
  - rewrite Hcl, Hp. eapply Forall_impl; [|exact G8]. intros c. apply claim_ok_mono.
  - rewrite Hcl, Hp. unfold ptickets. rewrite map_app. cbn [map fst flat_map]. rewrite Htk. cbn [app].
    eapply Permutation_trans; [apply Permutation_app_tail; exact G9|]. rewrite <- app_assoc.
    apply Permutation_app_head. apply Permutation_sym, Permutation_cons_append.
Qed.

(* a setup removes entries from the trackers and records one claim *)
Lemma GInv_claimed c b rest w w0 :
  ticket_ctr w0 = ticket_ctr w -> g_prep w0 = g_prep w -> g_claim w0 = g_claim w ++ [c] ->
  incl (prepared (tr_se w0)) (prepared (tr_se w)) -> incl (prepared (tr_er w0)) (prepared (tr_er w)) ->
  incl (prepared (tr_de w0)) (prepared (tr_de w)) -> incl (prepared (tr_ev w0)) (prepared (tr_ev w)) ->
  claim_ok (g_prep w) c -> ctickets [c] = tk_of b -> GInv (b :: rest) w -> GInv rest w0.
Proof.
  intros Hc Hp Hcl I1 I2 I3 I4 Hok Hct [G1 G2 G3 G4 G5 G6 G7 G8 G9].
  constructor; unfold parked in *; rewrite ?Hc, ?Hp, ?Hcl.
  - intros k s d Hin. apply G1, I1, Hin.
  - intros k s x src rt Hin. eapply G2, I2, Hin.
  - intros k s src h Hin. eapply G3, I3, Hin.
  - intros k s d Hin. apply G4, I4, Hin.
  - exact G5.
  - exact G6.
  - inversion G7; assumption.
  - apply Forall_app. split; [exact G8|]. constructor; [exact Hok|constructor].
  - unfold ctickets in *. rewrite flat_map_app. cbn [flat_map] in G9. rewrite <- Hct in G9. rewrite <- app_assoc. exact G9.
Qed.

Lemma nodup_ticket_inj (gp : list gentry) x y : NoDup (ptickets gp) -> In x gp -> In y gp -> fst (fst x) = fst (fst y) -> x = y.
Proof.
  induction gp as [|z gp IH]; cbn [ptickets map In]; [intros _ []|].
  intros Hnd Hx Hy Hf. inversion Hnd as [|? ? Hni Hnd']; subst.
  destruct Hx as [<-|Hx]; destruct Hy as [<-|Hy]; [reflexivity| | |apply IH; assumption].
  - exfalso. apply Hni. rewrite Hf. apply (in_map (fun x => fst (fst x))). exact Hy.
  - exfalso. apply Hni. rewrite <- Hf. apply (in_map (fun x => fst (fst x))). exact Hx.
Qed.

Lemma swap_remove_at_in {A} k s (l : list (N * ent * A)) a rest : swap_remove_at k s l = Some (a, rest) -> In (k, s, a) l /\ incl rest l.
Proof.
  revert a rest. induction l as [|[[k' s'] a'] l IH]; intros a rest; cbn [swap_remove_at]; [discriminate|].
  destruct (N.eqb k k' && N.eqb s s') eqn:E.
  - intros H. inversion H; subst. apply andb_true_iff in E. destruct E as [E1 E2]. apply N.eqb_eq in E1, E2. subst.
    split; [left; reflexivity|]. intros x Hx. right. eapply Permutation_in; [apply swap_last_perm|exact Hx].
  - destruct (swap_remove_at k s l) as [[a0 r0]|]; [|discriminate]. intros H. inversion H; subst.
    destruct (IH _ _ eq_refl) as [Hin Hincl]. split; [right; exact Hin|]. intros x [<-|Hx]; [left; reflexivity|right; apply Hincl; exact Hx].
Qed.
Lemma trk_start_in {A} strict k s (t t' : trk A) : trk_start strict k s t = Some t' ->
  In (k, s, cur t') (prepared t) /\ incl (prepared t') (prepared t) /\ reacting t' = true.
Proof.
  unfold trk_start. destruct (swap_remove_at k s (prepared t)) as [[a rest]|] eqn:E; [|discriminate].
  destruct (strict && reacting t); [discriminate|]. intros H. inversion H; subst. cbn.
  destruct (swap_remove_at_in _ _ _ _ _ E) as [H1 H2]. auto.
Qed.

Lemma parked_exact k t it items w : NoDup (ptickets (g_prep w)) -> parked k t it w -> In (k, t, items) (g_prep w) -> In it items.
Proof.
  intros Hnd (items' & Hi & Hit) Hin. pose proof (nodup_ticket_inj _ _ _ Hnd Hi Hin eq_refl) as E. inversion E; subst. exact Hit.
Qed.

Lemma G_setup b rest w w0 : run_setup (b_setup b) (b_sys b) w = Some w0 -> GInv (b :: rest) w -> GInv rest w0.
Proof.
  intros E HG. pose proof HG as [G1 G2 G3 G4 G5 G6 G7 G8 G9]. inversion G7 as [|? ? Hsh _]; subst. clear G7.
  destruct b as [t su cl]. unfold shape_ok in Hsh. cbn [b_setup b_sys] in *.
  destruct su; cbn [run_setup] in E.
  - inversion E; subst. eapply (GInv_claimed (0, t, []) (mkBuf t SuDefault cl) rest w); try reflexivity; try apply incl_refl; [left; reflexivity|exact HG].
  - destruct (trk_start true k t (tr_se w)) as [t'|] eqn:ES; inversion E; subst. clear E. destruct (trk_start_in _ _ _ _ _ ES) as (Hin & Hincl & _).
    destruct Hsh as (d & Hd). pose proof (parked_exact _ _ _ _ _ G6 (G1 _ _ _ Hin) Hd) as Hit. destruct Hit as [Hit|[]]. inversion Hit; subst.
    eapply (GInv_claimed (k, t, [PiSe (cur t')]) (mkBuf t (SuSysEvent k) cl) rest w); try reflexivity; try apply incl_refl; [exact Hincl|right; exact Hd|exact HG].
  - destruct (trk_start true k t (tr_er w)) as [t'|] eqn:ES; inversion E; subst. clear E. destruct (trk_start_in _ _ _ _ _ ES) as (Hin & Hincl & _).
    destruct Hsh as (src & rt & Hd). destruct (cur t') as [[x src'] rt'] eqn:EC.
    pose proof (parked_exact _ _ _ _ _ G6 (G2 _ _ _ _ _ Hin) Hd) as Hit. destruct Hit as [Hit|[]]. inversion Hit; subst. cbn [fst snd].
    eapply (GInv_claimed (k, t, [PiEr src' rt']) (mkBuf t (SuEntity k) cl) rest w); try reflexivity; try apply incl_refl; [exact Hincl|right; exact Hd|exact HG].
  - destruct (trk_start false k t (tr_de w)) as [t'|] eqn:ES; inversion E; subst. clear E. destruct (trk_start_in _ _ _ _ _ ES) as (Hin & Hincl & _).
    destruct Hsh as (src & Hd). destruct (cur t') as [src' h] eqn:EC.
    pose proof (parked_exact _ _ _ _ _ G6 (G3 _ _ _ _ Hin) Hd) as Hit. destruct Hit as [Hit|[]]. inversion Hit; subst. cbn [fst snd].
    eapply (GInv_claimed (k, t, [PiDe src']) (mkBuf t (SuDespawn k) cl) rest w); try reflexivity; try apply incl_refl; [exact Hincl|right; exact Hd|exact HG].
  - destruct (trk_start true k t (tr_er w)) as [t'|] eqn:ES; [|discriminate E].
    change (tr_ev (w <| tr_er := t' |>)) with (tr_ev w) in E.
    destruct (trk_start true k t (tr_ev w)) as [t''|] eqn:ES'; inversion E; subst. clear E.
    destruct (trk_start_in _ _ _ _ _ ES) as (Hin & Hincl & _). destruct (trk_start_in _ _ _ _ _ ES') as (Hin' & Hincl' & _).
    destruct Hsh as (tgt & d & Hd). destruct (cur t') as [[x src'] rt'] eqn:EC.
    pose proof (parked_exact _ _ _ _ _ G6 (G2 _ _ _ _ _ Hin) Hd) as Hit. destruct Hit as [Hit|[Hit|[]]]; [|discriminate Hit]. inversion Hit; subst.
    pose proof (parked_exact _ _ _ _ _ G6 (G4 _ _ _ Hin') Hd) as Hit'. destruct Hit' as [Hit'|[Hit'|[]]]; [discriminate Hit'|]. inversion Hit'; subst. cbn [fst snd].
    eapply (GInv_claimed (k, t, [PiEr src' (REvent UNIT_TY); PiEv (cur t'')]) (mkBuf t (SuEntityEvent k) cl) rest w); try reflexivity; try apply incl_refl; [exact Hincl|exact Hincl'|right; exact Hd|exact HG].
  - destruct (trk_start true k t (tr_ev w)) as [t'|] eqn:ES; inversion E; subst. clear E. destruct (trk_start_in _ _ _ _ _ ES) as (Hin & Hincl & _).
    destruct Hsh as (d & Hd). pose proof (parked_exact _ _ _ _ _ G6 (G4 _ _ _ Hin) Hd) as Hit. destruct Hit as [Hit|[]]. inversion Hit; subst.
    eapply (GInv_claimed (k, t, [PiEv (cur t')]) (mkBuf t (SuBroadcast k) cl) rest w); try reflexivity; try apply incl_refl; [exact Hincl|right; exact Hd|exact HG].
Qed.

Lemma gview_run_cleanup cl w : gview (run_cleanup cl w) = gview w.
Proof.
  destruct cl; cbn [run_cleanup].
  - reflexivity.
  - rewrite (gview_kview _ _ (kview_despawn _ _)). reflexivity.
  - reflexivity.
  - destruct (snd (cur (tr_de w))) as [h|]; [rewrite (gview_kview _ _ (kview_handle_drop _ _))|]; reflexivity.
  - rewrite (gview_kview _ _ (kview_try_cleanup _ _)). reflexivity.
  - rewrite (gview_kview _ _ (kview_try_cleanup _ _)). reflexivity.
Qed.

Lemma pitem_eqb_refl a : pitem_eqb a a = true.
Proof. destruct a; cbn; rewrite ?N.eqb_refl; try reflexivity. destruct rt; cbn; apply N.eqb_refl. Qed.
Lemma pitems_eqb_refl l : pitems_eqb l l = true.
Proof. induction l as [|a l IH]; cbn; [reflexivity|]. rewrite pitem_eqb_refl, IH. reflexivity. Qed.
Lemma pitem_eqb_eq a b : pitem_eqb a b = true -> a = b.
Proof.
  destruct a, b; cbn; try discriminate; intros H; try (apply N.eqb_eq in H; subst; reflexivity).
  apply andb_true_iff in H. destruct H as [H1 H2]. apply N.eqb_eq in H1. subst. destruct rt, rt0; cbn in H2; try discriminate; apply N.eqb_eq in H2; subst; reflexivity.
Qed.
Lemma pitems_eqb_eq a : forall b, pitems_eqb a b = true -> a = b.
Proof.
  induction a as [|x a IH]; intros [|y b]; cbn; try discriminate; [reflexivity|].
  intros H. apply andb_true_iff in H. destruct H as [H1 H2]. apply pitem_eqb_eq in H1. apply IH in H2. subst. reflexivity.
Qed.

(* right after a successful setup the readers expose exactly the entries that setup claimed *)
Definition fresh_claim (t : ent) (w : world) : Prop := fresh_claim_b t w = true.
Lemma fresh_claim_kview t w w' : kview w' = kview w -> fresh_claim t w -> fresh_claim t w'.
Proof.
  unfold fresh_claim, fresh_claim_b, last_claim, visible, kview. intros H. inversion H as [[E1 E2 E3 E4 E5 E6 E7 E8]]. rewrite E2, E3, E4, E5, E8. auto.
Qed.
Lemma last_snoc {A} (l : list A) x d : last (l ++ [x]) d = x.
Proof. apply last_last. Qed.
Lemma setup_fresh su t w w0 : flags_off w -> run_setup su t w = Some w0 -> fresh_claim t w0.
Proof.
  intros (F1 & F2 & F3 & F4 & F5) E. unfold fresh_claim, fresh_claim_b, last_claim.
  destruct su; cbn [run_setup] in E.
  - inversion E; subst. unfold note_claim, visible. cbn [g_claim tr_se tr_er tr_de tr_ev set]. rewrite last_snoc, F1, F2, F3, F4. cbn. rewrite N.eqb_refl. reflexivity.
  - destruct (trk_start true k t (tr_se w)) as [t'|] eqn:ES; inversion E; subst. destruct (trk_start_in _ _ _ _ _ ES) as (_ & _ & Hr).
    unfold note_claim, emit, visible. cbn [g_claim tr_se tr_er tr_de tr_ev set]. rewrite last_snoc, Hr, F2, F3, F4. cbn [fst snd app]. rewrite N.eqb_refl, pitems_eqb_refl. reflexivity.
  - destruct (trk_start true k t (tr_er w)) as [t'|] eqn:ES; inversion E; subst. destruct (trk_start_in _ _ _ _ _ ES) as (_ & _ & Hr).
    unfold note_claim, emit, visible. cbn [g_claim tr_se tr_er tr_de tr_ev set]. rewrite last_snoc, Hr, F1, F3, F4. cbn [fst snd app]. rewrite N.eqb_refl, pitems_eqb_refl. reflexivity.
  - destruct (trk_start false k t (tr_de w)) as [t'|] eqn:ES; inversion E; subst. destruct (trk_start_in _ _ _ _ _ ES) as (_ & _ & Hr).
    unfold note_claim, emit, visible. cbn [g_claim tr_se tr_er tr_de tr_ev set]. rewrite last_snoc, Hr, F1, F2, F4. cbn [fst snd app]. rewrite N.eqb_refl, pitems_eqb_refl. reflexivity.
  - destruct (trk_start true k t (tr_er w)) as [t'|] eqn:ES; [|discriminate E].
    change (tr_ev (w <| tr_er := t' |>)) with (tr_ev w) in E.
    destruct (trk_start true k t (tr_ev w)) as [t''|] eqn:ES'; inversion E; subst.
    destruct (trk_start_in _ _ _ _ _ ES) as (_ & _ & Hr). destruct (trk_start_in _ _ _ _ _ ES') as (_ & _ & Hr').
    unfold note_claim, emit, visible. cbn [g_claim tr_se tr_er tr_de tr_ev set]. rewrite last_snoc, Hr, Hr', F1, F3. cbn [fst snd app]. rewrite N.eqb_refl, pitems_eqb_refl. reflexivity.
  - destruct (trk_start true k t (tr_ev w)) as [t'|] eqn:ES; inversion E; subst. destruct (trk_start_in _ _ _ _ _ ES) as (_ & _ & Hr).
    unfold note_claim, emit, visible. cbn [g_claim tr_se tr_er tr_de tr_ev set]. rewrite last_snoc, Hr, F1, F2, F3. cbn [fst snd app]. rewrite N.eqb_refl, pitems_eqb_refl. reflexivity.
Qed.

(* a new command: ghost side of prepare_ok0 *)
Lemma in_snoc_inv {A} (x y : A) l : In x (l ++ [y]) -> In x l \/ x = y.
Proof. intros H. apply in_app_or in H. destruct H as [H|[H|[]]]; auto. Qed.
Lemma G_prepare c all w t su cl w1 : prepare_cmd c w = Some (t, su, cl, w1) -> GInv all w -> GInv (mkBuf t su cl :: all) w1.
Proof.
  intros E HG. destruct c; try discriminate E; cbn [prepare_cmd] in E.
  - inversion E; subst. apply GInv_add_default. eapply GInv_kview; [|exact HG]. reflexivity.
  - unfold fresh_ticket in E. inversion E; subst. clear E.
    eapply (GInv_park (ticket_ctr w + 1) t [PiSe d] _ _ all w); try reflexivity; try (intros; left; assumption); [| |exact HG].
    + intros k' s d0 Hin. unfold note_prep, trk_prepare in Hin. cbn [tr_se set prepared] in Hin. apply in_snoc_inv in Hin. destruct Hin as [H|H]; [left; exact H|right]. inversion H; subst. auto using in_eq.
    + unfold shape_ok. cbn [b_setup b_sys]. exists d. unfold note_prep. cbn [g_prep set]. apply in_or_app. right. left. reflexivity.
  - destruct r; unfold fresh_ticket in E; inversion E; subst; clear E.
    + apply GInv_add_default. eapply GInv_kview; [|exact HG]. reflexivity.
    + eapply (GInv_park (ticket_ctr w + 1) t [PiEr src rt] _ _ all w); try reflexivity; try (intros; left; assumption); [| |exact HG].
      * intros k' s x src0 rt0 Hin. unfold note_prep, trk_prepare in Hin. cbn [tr_er set prepared] in Hin. apply in_snoc_inv in Hin. destruct Hin as [H|H]; [left; exact H|right]. inversion H; subst. auto using in_eq.
      * unfold shape_ok. cbn [b_setup b_sys]. exists src, rt. unfold note_prep. cbn [g_prep set]. apply in_or_app. right. left. reflexivity.
    + eapply (GInv_park (ticket_ctr w + 1) t [PiDe src] _ _ all w); try reflexivity; try (intros; left; assumption); [| |exact HG].
      * intros k' s src0 h0 Hin. unfold note_prep, trk_prepare in Hin. cbn [tr_de set prepared] in Hin. apply in_snoc_inv in Hin. destruct Hin as [H|H]; [left; exact H|right]. inversion H; subst. auto using in_eq.
      * unfold shape_ok. cbn [b_setup b_sys]. exists src. unfold note_prep. cbn [g_prep set]. apply in_or_app. right. left. reflexivity.
    + eapply (GInv_park (ticket_ctr w + 1) t [PiEr target (REvent UNIT_TY); PiEv d]); try reflexivity; try (intros; left; assumption); [| | |exact HG].
      * intros k' s x src0 rt0 Hin. unfold note_prep, trk_prepare in Hin. cbn [tr_er set prepared] in Hin. apply in_snoc_inv in Hin. destruct Hin as [H|H]; [left; exact H|right]. inversion H; subst. auto using in_eq.
      * intros k' s d0 Hin. unfold note_prep, trk_prepare in Hin. cbn [tr_ev set prepared] in Hin. apply in_snoc_inv in Hin. destruct Hin as [H|H]; [left; exact H|right]. inversion H; subst. split; [reflexivity|]. split; [reflexivity|]. right. left. reflexivity.
      * unfold shape_ok. cbn [b_setup b_sys]. exists target, d. unfold note_prep. cbn [g_prep set]. apply in_or_app. right. left. reflexivity.
    + eapply (GInv_park (ticket_ctr w + 1) t [PiEv d] _ _ all w); try reflexivity; try (intros; left; assumption); [| |exact HG].
      * intros k' s d0 Hin. unfold note_prep, trk_prepare in Hin. cbn [tr_ev set prepared] in Hin. apply in_snoc_inv in Hin. destruct Hin as [H|H]; [left; exact H|right]. inversion H; subst. auto using in_eq.
      * unfold shape_ok. cbn [b_setup b_sys]. exists d. unfold note_prep. cbn [g_prep set]. apply in_or_app. right. left. reflexivity.
Qed.

(* ---------- the full ticket invariant ---------- *)
Definition TInv (all : list buffered) (w : world) : Prop := TInv0 all w /\ GInv all w.
Lemma TInv_kview all w w' : kview w' = kview w -> TInv all w -> TInv all w'.
Proof. intros HK [A B]. split; [eapply TInv0_kview; eauto|eapply GInv_kview; eauto]. Qed.
Lemma TInv_perm all all' w : Permutation all all' -> TInv all w -> TInv all' w.
Proof. intros HP [A B]. split; [eapply TInv0_perm; eauto|eapply GInv_perm; eauto]. Qed.
Lemma TInv_add_default t all w : TInv all w -> TInv (mkBuf t SuDefault ClDefault :: all) w.
Proof. intros [A B]. split; [apply TInv0_add_default; exact A|apply GInv_add_default; exact B]. Qed.
Lemma setup_ok b rest w : TInv (b :: rest) w -> flags_off w ->
  exists w0, run_setup (b_setup b) (b_sys b) w = Some w0 /\ TInv rest w0 /\ flags_within (b_cleanup b) w0
             /\ buffer w0 = buffer w /\ oview w0 = oview w /\ rview w0 = rview w.
Proof.
  intros [A B] HF. destruct (setup_ok0 b rest w A HF) as (w0 & ES & HT0 & R). exists w0. split; [exact ES|]. split; [|exact R].
  split; [exact HT0|eapply G_setup; eauto].
Qed.
Lemma cleanup_ok cl all w : TInv all w -> flags_within cl w -> TInv all (run_cleanup cl w) /\ flags_off (run_cleanup cl w) /\ buffer (run_cleanup cl w) = buffer w.
Proof.
  intros [A B] HF. destruct (cleanup_ok0 cl all w A HF) as (HT0 & R). split; [|exact R]. split; [exact HT0|].
  eapply GInv_gview; [apply gview_run_cleanup|exact B].
Qed.
Definition tkview (w : world) := (ticket_ctr w, tr_ev w, tr_se w, tr_er w, tr_de w, g_prep w, g_claim w).
Lemma TInv_eq all all' w w' : all' = all -> tkview w' = tkview w -> TInv all w -> TInv all' w'.
Proof.
  unfold tkview. intros -> H [[T1 T2 T3 T4 T5 T6 T7] G]. inversion H as [[E1 E2 E3 E4 E5 E6 E7]]. split.
  - constructor; rewrite ?E1, ?E2, ?E3, ?E4, ?E5; assumption.
  - eapply GInv_gview; [|exact G]. unfold gview. rewrite E1, E2, E3, E4, E5, E6, E7. reflexivity.
Qed.
Lemma tkview_kview0 w w' : kview0 w' = kview0 w -> tkview w' = tkview w.
Proof. unfold kview0, tkview. intros H. inversion H. reflexivity. Qed.
Lemma flags_within_kview0 cl w w' : kview0 w' = kview0 w -> flags_within cl w -> flags_within cl w'.
Proof. intros HK. destruct (kview0_proj _ _ HK) as (K1 & K2 & K3 & K4 & K5 & K6). destruct cl; unfold flags_within, flags_off; now rewrite ?K2, ?K3, ?K4, ?K5. Qed.
Ltac tsame T := first [exact T | refine (TInv_eq _ _ _ _ _ _ T); reflexivity].
Lemma prepare_ok c all w t su cl w1 : prepare_cmd c w = Some (t, su, cl, w1) -> TInv all w -> flags_off w ->
  TInv (mkBuf t su cl :: all) w1 /\ flags_off w1 /\ buffer w1 = buffer w /\ oview w1 = oview w /\ rview w1 = rview w.
Proof.
  intros E [A B] HF. destruct (prepare_ok0 c all w t su cl w1 E A HF) as (HT0 & R). split; [|exact R]. split; [exact HT0|eapply G_prepare; eauto].
Qed.

(* ================================================================================================================ *)
(* closed base invariants: storage on live entities, storage keys are spawned                                       *)
Definition skeys (w : world) : Prop := forall t, In t (map fst (storage w)) -> In t (spawned w).
Lemma skeys_evolves w w' : evolves w w' -> skeys w -> skeys w'.
Proof.
  intros (_ & _ & HS & HT) Hk t Ht. apply ahas_In in Ht. unfold ahas in Ht. destruct (alookup t (storage w')) as [b|] eqn:E; [|discriminate Ht].
  destruct (HT t) as [E'|[E'|(_ & _ & Hi)]]; [|congruence|exact Hi].
  apply HS, Hk. rewrite E in E'. symmetry in E'. eapply alookup_Some_key; eauto.
Qed.

Section TicketClosed.
Variable P : program.

Lemma skeys_closed : closed P skeys.
Proof.
  constructor.
  - intros e w H. eapply skeys_evolves; [|exact H]. apply evolves_rview. reflexivity.
  - intros c w H. eapply skeys_evolves; [|exact H]. apply evolves_prim.
  - intros o a w H. eapply skeys_evolves; [|exact H]. apply evolves_rview. apply rview_act.
  - intros c w t0 su cl w' H E. eapply skeys_evolves; [|exact H]. eapply evolves_prepare; eauto.
  - intros e r w H _. unfold gc_step. eapply skeys_evolves; [|exact H]. eapply evolves_trans; [|apply evolves_despawn]. apply evolves_rview. reflexivity.
  - intros w H. eapply skeys_evolves; [|exact H]. apply evolves_rview. apply rview_poll.
  - intros su t0 w w' H E. eapply skeys_evolves; [|exact H]. eapply evolves_run_setup; eauto.
  - intros cl w H. eapply skeys_evolves; [|exact H]. apply evolves_run_cleanup.
  - intros b w H. exact H.
  - intros n w H. exact H.
  - intros t0 b w H t Ht. cbn in Ht. rewrite aupd_keys in Ht. apply H. exact Ht.
  - intros t0 k w H _. unfold rn_dropped. eapply skeys_evolves; [|exact H]. apply evolves_rview. cbn. apply rview_drop_callback.
  - intros t0 k w H _. unfold rn_despawn_missing. eapply skeys_evolves; [|exact H].
    eapply evolves_trans; [apply evolves_rview; apply rview_drop_callback|]. eapply evolves_trans; [apply evolves_despawn|]. apply evolves_rview. reflexivity.
  - intros t0 w H. eapply skeys_evolves; [|exact H]. apply evolves_despawn.
  - intros t0 cb b w H _ _. exact H.
  - intros t0 tk w H. unfold once_finish. destruct (alookup t0 (cbs w)); exact H.
  - intros sd t0 r c w _ H. eapply skeys_evolves; [|exact H]. apply evolves_rview. apply rview_body_begin.
  - intros w H. exact H.
Qed.

Definition Sp (t : ent) (w : world) : Prop := In t (spawned w).
Lemma Sp_closed t : closed P (Sp t).
Proof.
  assert (He : forall w w', evolves w w' -> Sp t w -> Sp t w') by (intros w w' (_ & _ & HS & _) H; apply HS; exact H).
  constructor.
  - intros e w H. exact H.
  - intros c w H. eapply He; [apply evolves_prim|exact H].
  - intros o a w H. eapply He; [apply evolves_rview; apply rview_act|exact H].
  - intros c w t0 su cl w' H E. eapply He; [eapply evolves_prepare; eauto|exact H].
  - intros e r w H _. unfold gc_step. eapply He; [|exact H]. eapply evolves_trans; [|apply evolves_despawn]. apply evolves_rview. reflexivity.
  - intros w H. eapply He; [apply evolves_rview; apply rview_poll|exact H].
  - intros su t0 w w' H E. eapply He; [eapply evolves_run_setup; eauto|exact H].
  - intros cl w H. eapply He; [apply evolves_run_cleanup|exact H].
  - intros b w H. exact H.
  - intros n w H. exact H.
  - intros t0 b w H. exact H.
  - intros t0 k w H _. unfold rn_dropped. eapply He; [|exact H]. apply evolves_rview. cbn. apply rview_drop_callback.
  - intros t0 k w H _. unfold rn_despawn_missing. eapply He; [|exact H].
    eapply evolves_trans; [apply evolves_rview; apply rview_drop_callback|]. eapply evolves_trans; [apply evolves_despawn|]. apply evolves_rview. reflexivity.
  - intros t0 w H. eapply He; [apply evolves_despawn|exact H].
  - intros t0 cb b w H _ _. exact H.
  - intros t0 tk w H. unfold once_finish. destruct (alookup t0 (cbs w)); exact H.
  - intros sd t0 r c w _ H. eapply He; [apply evolves_rview; apply rview_body_begin|exact H].
  - intros w H. exact H.
Qed.

Definition Ubase0 (w : world) : Prop := storage_alive w /\ skeys w.
Lemma Ubase0_closed : closed P Ubase0.
Proof.
  pose proof (sa_closed P) as A. pose proof skeys_closed as B.
  constructor; unfold Ubase0.
  - intros e w [H1 H2]. split; [apply (c_emit _ _ A)|apply (c_emit _ _ B)]; assumption.
  - intros c w [H1 H2]. split; [apply (c_prim _ _ A)|apply (c_prim _ _ B)]; assumption.
  - intros o a w [H1 H2]. split; [apply (c_act _ _ A)|apply (c_act _ _ B)]; assumption.
  - intros c w t su cl w' [H1 H2] E. split; [eapply (c_prepare _ _ A)|eapply (c_prepare _ _ B)]; eauto.
  - intros e r w [H1 H2] E. split; [apply (c_gc _ _ A)|apply (c_gc _ _ B)]; assumption.
  - intros w [H1 H2]. split; [apply (c_poll _ _ A)|apply (c_poll _ _ B)]; assumption.
  - intros su t w w' [H1 H2] E. split; [eapply (c_setup _ _ A)|eapply (c_setup _ _ B)]; eauto.
  - intros cl w [H1 H2]. split; [apply (c_cleanup _ _ A)|apply (c_cleanup _ _ B)]; assumption.
  - intros b w [H1 H2]. split; [apply (c_buffer _ _ A)|apply (c_buffer _ _ B)]; assumption.
  - intros n w [H1 H2]. split; [apply (c_counter _ _ A)|apply (c_counter _ _ B)]; assumption.
  - intros t b w [H1 H2]. split; [apply (c_storage _ _ A)|apply (c_storage _ _ B)]; assumption.
  - intros t k w [H1 H2] E. split; [apply (c_dropped _ _ A)|apply (c_dropped _ _ B)]; assumption.
  - intros t k w [H1 H2] E. split; [apply (c_missing _ _ A)|apply (c_missing _ _ B)]; assumption.
  - intros t w [H1 H2]. split; [apply (c_despawn _ _ A)|apply (c_despawn _ _ B)]; assumption.
  - intros t cb b w [H1 H2] E Eb. split; [apply (c_cbbump _ _ A)|apply (c_cbbump _ _ B)]; assumption.
  - intros t tk w [H1 H2]. split; [apply (c_oncefin _ _ A)|apply (c_oncefin _ _ B)]; assumption.
  - intros sd t r c w HG [H1 H2]. split; [apply (c_body _ _ A)|apply (c_body _ _ B)]; assumption.
  - intros w [H1 H2]. split; [apply (c_clear _ _ A)|apply (c_clear _ _ B)]; assumption.
Qed.
(* the context-free part of the invariant: storage on live entities, storage keys spawned, once wrappers run at most once *)
Definition Ubase (w : world) : Prop := Ubase0 w /\ forall t, OR t w.
Lemma Ubase_closed : closed P Ubase.
Proof. apply closed_and; [exact Ubase0_closed|apply closed_forall; intros t; apply OR_closed]. Qed.
End TicketClosed.

(* ================================================================================================================ *)
Lemma storage_dsp_storage_self t w : alookup t (storage (dsp_storage t w)) = None.
Proof. unfold dsp_storage. cbn [storage set]. apply alookup_aremove_same. Qed.
Lemma storage_handles_drop hs : forall w, storage (handles_drop hs w) = storage w.
Proof. intros w. exact (f_equal (fun x => fst (fst x)) (oview_handles_drop hs w)). Qed.
Lemma storage_drop_ddata d w : storage (drop_ddata d w) = storage w.
Proof. destruct d as [? ? ?|? ? ? ?|? [?|]]; reflexivity. Qed.
Lemma storage_dsp_ereactors e w : storage (dsp_ereactors e w) = storage w.
Proof. unfold dsp_ereactors. destruct (alookup e (ereactors w)) as [l|]; [|reflexivity]. cbn [storage set]. apply storage_handles_drop. Qed.
Lemma storage_dsp_tracker e w : storage (dsp_tracker e w) = storage w.
Proof. unfold dsp_tracker. destruct (memN e (dtrackers w)); reflexivity. Qed.
Lemma storage_dsp_data e w : storage (dsp_data e w) = storage w.
Proof. unfold dsp_data. destruct (alookup e (dataents w)) as [d|]; [|reflexivity]. cbn [storage set]. apply storage_drop_ddata. Qed.
Lemma storage_dsp_xlocals e w : storage (dsp_xlocals e w) = storage w.
Proof. reflexivity. Qed.
Lemma gone_despawn_self t w : In t (spawned w) -> storage_alive w -> gone t (despawn t w).
Proof.
  intros Hsp Hsa. split; [pose proof (evolves_despawn t w) as (_ & _ & HS & _); apply HS; exact Hsp|].
  unfold despawn. destruct (is_alive t w) eqn:EA; cbn [negb].
  - rewrite storage_dsp_xlocals, storage_dsp_data, storage_dsp_tracker, storage_dsp_ereactors. apply storage_dsp_storage_self.
  - apply alookup_None. intros Hk. apply Hsa in Hk. congruence.
Qed.

Section Ticket.
Variable P : program.

(* the invariant carried through the interpreter: fl = flags_off, or flags_within cl inside a setup..cleanup window *)
Definition TX (fl : world -> Prop) (all : list buffered) (w : world) : Prop :=
  TInv all w /\ fl w /\ Oinv w /\ Cinv w /\ Ubase w.
Notation TI := (TX flags_off).
Notation TW cl := (TX (flags_within cl)).

Definition fl_ok (fl : world -> Prop) : Prop := forall w w', kview w' = kview w -> fl w -> fl w'.
Lemma fl_ok_off : fl_ok flags_off. Proof. intros w w'. apply flags_off_kview. Qed.
Lemma fl_ok_within cl : fl_ok (flags_within cl). Proof. intros w w'. apply flags_within_kview. Qed.
(* between a command's setup and the start of its body: what the readers expose is what that setup claimed *)
Definition flags_fresh (t : ent) (cl : cleanup) (w : world) : Prop := flags_within cl w /\ fresh_claim t w.
Lemma fl_ok_fresh t cl : fl_ok (flags_fresh t cl).
Proof. intros w w' HK [A B]. split; [eapply flags_within_kview; eauto|eapply fresh_claim_kview; eauto]. Qed.
Notation TF t cl := (TX (flags_fresh t cl)).

(* steps that touch neither the trackers, nor the buffer, nor storage/cbs/spawned *)
Lemma TX_inert fl all w w' : fl_ok fl -> kview w' = kview w -> oview w' = oview w -> Ubase w' -> TX fl all w -> TX fl all w'.
Proof.
  intros Hfl HK HO HU (T & F & O & C & U). split; [eapply TInv_kview; eauto|]. split; [eapply Hfl; eauto|].
  split; [eapply O_oview; eauto|]. split; [eapply C_oview; eauto|exact HU].
Qed.
Lemma TX_perm fl all all' w : Permutation all all' -> TX fl all w -> TX fl all' w.
Proof. intros HP (T & R). split; [eapply TInv_perm; eauto|exact R]. Qed.
Lemma TX_weaken cl all w : TI all w -> TW cl all w.
Proof. intros (T & F & R). split; [exact T|]. split; [apply flags_off_within; exact F|exact R]. Qed.

Lemma TX_emit fl all e w : fl_ok fl -> TX fl all w -> TX fl all (emit e w).
Proof. intros Hfl HT. apply (TX_inert fl all w (emit e w) Hfl); [reflexivity|reflexivity| |exact HT]. apply (c_emit _ _ (Ubase_closed P)). exact (proj2 (proj2 (proj2 (proj2 HT)))). Qed.

Lemma TX_despawn fl all e w : fl_ok fl -> TX fl all w -> TX fl all (despawn e w).
Proof.
  intros Hfl (T & F & O & C & U). split; [eapply TInv_kview; [apply kview_despawn|exact T]|]. split; [eapply Hfl; [apply kview_despawn|exact F]|].
  split; [apply O_despawn; exact O|]. split; [apply C_despawn; exact C|apply (c_despawn _ _ (Ubase_closed P)); exact U].
Qed.

Lemma TX_prim fl all c w : fl_ok fl -> is_cleanup_cmd c = false -> TX fl all w ->
  TX fl all (fst (apply_prim P c w)) /\ buffer (fst (apply_prim P c w)) = buffer w.
Proof.
  intros Hfl Hc (T & F & O & C & U). pose proof (kview_prim P c w Hc) as HK.
  split; [|exact (proj2 (proj2 (proj2 (proj2 (proj2 (kview_proj _ _ HK))))))].
  split; [eapply TInv_kview; eauto|]. split; [eapply Hfl; eauto|]. split; [apply O_prim; exact O|].
  split; [apply C_prim; exact C|apply (c_prim _ _ (Ubase_closed P)); exact U].
Qed.

Lemma TX_act fl all o a w : fl_ok fl -> TX fl all w -> TX fl all (fst (act P o a w)) /\ buffer (fst (act P o a w)) = buffer w.
Proof.
  intros Hfl HT. pose proof (kview_act P o a w) as HK. split; [|exact (proj2 (proj2 (proj2 (proj2 (proj2 (kview_proj _ _ HK))))))].
  apply (TX_inert fl all w _ Hfl); [exact HK|apply oview_act| |exact HT]. apply (c_act _ _ (Ubase_closed P)). exact (proj2 (proj2 (proj2 (proj2 HT)))).
Qed.
Lemma TX_acts fl all mk idx l w : fl_ok fl -> TX fl all w -> TX fl all (fst (acts P mk idx l w)) /\ buffer (fst (acts P mk idx l w)) = buffer w.
Proof.
  intros Hfl HT. pose proof (kview_acts P l mk idx w) as HK. split; [|exact (proj2 (proj2 (proj2 (proj2 (proj2 (kview_proj _ _ HK))))))].
  apply (TX_inert fl all w _ Hfl); [exact HK|apply oview_acts| |exact HT]. apply (closed_acts _ _ (Ubase_closed P)). exact (proj2 (proj2 (proj2 (proj2 HT)))).
Qed.

Lemma TX_cleanup cl all w : TW cl all w -> TI all (run_cleanup cl w) /\ buffer (run_cleanup cl w) = buffer w.
Proof.
  intros (T & F & O & C & U). destruct (cleanup_ok cl all w T F) as (T' & F' & B'). split; [|exact B'].
  split; [exact T'|]. split; [exact F'|]. split; [apply O_run_cleanup; exact O|]. split; [apply C_run_cleanup; exact C|apply (c_cleanup _ _ (Ubase_closed P)); exact U].
Qed.

Lemma buffer_drop_callback t w : buffer (drop_callback t w) = buffer w.
Proof. exact (proj2 (proj2 (proj2 (proj2 (proj2 (kview_proj _ _ (kview_drop_callback t w))))))). Qed.
Lemma TX_drop_callback_gone fl H t w : fl_ok fl -> alookup t (storage w) = None ->
  TX fl (buffer w ++ H) w -> TX fl (buffer (drop_callback t w) ++ H) (drop_callback t w).
Proof.
  intros Hfl Hn (T & F & O & C & U). rewrite buffer_drop_callback.
  split; [eapply TInv_kview; [apply kview_drop_callback|exact T]|]. split; [eapply Hfl; [apply kview_drop_callback|exact F]|].
  split; [apply O_drop_callback; exact O|]. split; [apply C_drop_callback_gone; assumption|].
  split; [split|].
  - eapply sa_sview; [apply sview_drop_callback|exact (proj1 (proj1 U))].
  - eapply skeys_evolves; [apply evolves_rview; apply rview_drop_callback|exact (proj2 (proj1 U))].
  - intros t0. eapply OR_stable; [apply cb_stable_drop_callback|exact (proj2 U t0)].
Qed.
Lemma buffer_despawn e w : buffer (despawn e w) = buffer w.
Proof. exact (proj2 (proj2 (proj2 (proj2 (proj2 (kview_proj _ _ (kview_despawn e w))))))). Qed.

(* ---------- pre / post ---------- *)
Definition TPre (i : instr) (H : list buffered) (w : world) : Prop :=
  let all := buffer w ++ H in
  match i with
  | IApply (CCleanup cl) => TW cl all w
  | IApply _ => TI all w
  | IApplyList (CCleanup cl :: r) => TW cl all w /\ nocl r
  | IApplyList cs => TI all w /\ nocl cs
  | IRunner t su cl => TI (mkBuf t su cl :: all) w
  | IRun t su cl idx => TI (mkBuf t su cl :: all) w /\ alookup t (storage w) = Some true
  | ICallback t cl => TF t cl all w /\ alookup t (storage w) = Some false
                      /\ (forall cb, alookup t (cbs w) = Some cb -> cb_once cb <> None -> cb_taken cb = false)
  | IBody t r c cl => TF t cl all w /\ state_ok_b t r c w = true /\ once_ok_b t w = true
  | IExclSteps _ _ _ (CCleanup cl :: r) _ => TW cl all w /\ nocl r
  | IExclSteps _ _ _ pending _ => TI all w /\ nocl pending
  | IReplay t pending kept => TI (buffer w ++ pending ++ kept ++ H) w
  | IAbort t su cl => TI (mkBuf t su cl :: all) w
  | _ => TI all w
  end.

Definition TPostW (i : instr) (H : list buffered) (w' : world) : Prop :=
  TI (buffer w' ++ H) w' /\ match i with ICallback t _ => Kinv t w' \/ gone t w' | _ => True end.
Definition TPost (i : instr) (H : list buffered) (r : result world) : Prop :=
  match r with Ok w' => TPostW i H w' | OutOfFuel => True | Stuck n => n = 4 end.

Lemma nocl_pre_list H cs w : nocl cs -> TI (buffer w ++ H) w -> TPre (IApplyList cs) H w.
Proof.
  intros Hn HT. unfold TPre. destruct cs as [|c r]; [split; assumption|].
  destruct (nocl_cons c r Hn) as [Hc _]. destruct c; try discriminate Hc; split; assumption.
Qed.
Lemma nocl_pre_apply H c w : is_cleanup_cmd c = false -> TI (buffer w ++ H) w -> TPre (IApply c) H w.
Proof. intros Hc HT. unfold TPre. destruct c; try discriminate Hc; exact HT. Qed.

Lemma post_plain i H w' : TI (buffer w' ++ H) w' -> match i with ICallback _ _ => False | _ => True end -> TPostW i H w'.
Proof. intros HT Hi. split; [exact HT|]. destruct i; try exact I. contradiction. Qed.

Lemma buffered_eta b : mkBuf (b_sys b) (b_setup b) (b_cleanup b) = b.
Proof. destruct b; reflexivity. Qed.

Section Cases.
Variable f : nat.
Hypothesis IH : forall i H w, TPre i H w -> TPost i H (exec P f i w).

Lemma Hsub : forall i0 H0 w0 (k : world -> result world) i1 H1,
  TPre i0 H0 w0 -> (forall w1, exec P f i0 w0 = Ok w1 -> TPostW i0 H0 w1 -> TPost i1 H1 (k w1)) ->
  TPost i1 H1 (bind (exec P f i0 w0) k).
Proof.
  intros i0 H0 w0 k i1 H1 Hpre Hk. pose proof (IH i0 H0 w0 Hpre) as Hp.
  destruct (exec P f i0 w0) as [w1| |n] eqn:E0; cbn [bind]; [apply Hk; [reflexivity|exact Hp]|exact I|exact Hp].
Qed.
Lemma Hlast : forall i0 H0 w0 i1, TPre i0 H0 w0 -> match i0 with ICallback _ _ => False | _ => True end ->
  match i1 with ICallback _ _ => False | _ => True end -> TPost i1 H0 (exec P f i0 w0).
Proof.
  intros i0 H0 w0 i1 Hpre Hi0 Hi1. pose proof (IH i0 H0 w0 Hpre) as Hp.
  destruct (exec P f i0 w0) as [w1| |n]; [|exact I|exact Hp]. apply post_plain; [exact (proj1 Hp)|exact Hi1].
Qed.

Lemma case_IApply c H w : TPre (IApply c) H w -> TPost (IApply c) H (exec P (S f) (IApply c) w).
Proof.
  intros HP. pose proof (Ubase_closed P) as UC. cbn [exec].
    destruct (is_cleanup_cmd c) eqn:Ecl.
    + (* the queued cleanup of an exclusive system *)
      destruct c; try discriminate Ecl. cbn [prepare_cmd apply_prim]. unfold TPre in HP.
      destruct (TX_cleanup cl _ w HP) as [HT HB].
      apply (Hlast (IApplyList []) H (run_cleanup cl w) (IApply (CCleanup cl))); [|exact I|exact I].
      unfold TPre. split; [rewrite HB; exact HT|reflexivity].
    + assert (HTI : TI (buffer w ++ H) w) by (unfold TPre in HP; destruct c; try discriminate Ecl; exact HP).
      destruct (prepare_cmd c w) as [[[[t su] cl] w1]|] eqn:EP.
      * destruct HTI as (T & F & O & C & U).
        destruct (prepare_ok c _ w t su cl w1 EP T F) as (T1 & F1 & B1 & O1 & R1).
        apply (Hlast (IRunner t su cl) H w1 (IApply c)); [|exact I|destruct c; exact I].
        unfold TPre. rewrite B1. split; [exact T1|]. split; [exact F1|]. split; [eapply O_oview; eauto|]. split; [eapply C_oview; eauto|].
        eapply (c_prepare _ _ UC); eauto.
      * assert (Hprim : forall i1, match i1 with ICallback _ _ => False | _ => True end ->
                  TPost i1 H (let (w2, cs) := apply_prim P c w in exec P f (IApplyList cs) w2)).
        { intros i1 Hi1. pose proof (TX_prim flags_off _ c w fl_ok_off Ecl HTI) as [HT2 HB2]. pose proof (prim_nocl P c w) as Hn.
          destruct (apply_prim P c w) as [w2 cs]. cbn [fst snd] in *.
          apply (Hlast (IApplyList cs) H w2 i1); [|exact I|exact Hi1]. apply nocl_pre_list; [exact Hn|rewrite HB2; exact HT2]. }
        destruct c; try (apply (Hprim (IApply (CMark (OTop 0 0))) I)); try discriminate EP; try discriminate Ecl.
        -- (* CSpawnSys *) destruct (is_alive s w); [apply (Hprim (IApply (CMark (OTop 0 0))) I)|reflexivity].
        -- (* CGC *) apply (Hlast IGC H w (IApply CGC)); [exact HTI|exact I|exact I].
Qed.

Lemma case_IApplyList cs H w : TPre (IApplyList cs) H w -> TPost (IApplyList cs) H (exec P (S f) (IApplyList cs) w).
Proof.
  intros HP. pose proof (Ubase_closed P) as UC. cbn [exec].
    destruct cs as [|c cs].
    + unfold TPre in HP. apply post_plain; [exact (proj1 HP)|exact I].
    + assert (Hc : TPre (IApply c) H w /\ nocl cs).
      { unfold TPre in HP |- *. destruct c; try (destruct HP as [HT Hn]; destruct (nocl_cons _ _ Hn) as [_ Hn']; split; [exact HT|exact Hn']).
        destruct HP as [HT Hn]. split; assumption. }
      destruct Hc as [Hc Hn].
      apply (Hsub (IApply c) H w _ (IApplyList (c :: cs)) H Hc). intros w1 E1 [HT1 _].
      apply (Hlast (IApplyList cs) H w1 (IApplyList (c :: cs))); [|exact I|exact I]. apply nocl_pre_list; assumption.
Qed.

Lemma case_IRunner t su cl H w : TPre (IRunner t su cl) H w -> TPost (IRunner t su cl) H (exec P (S f) (IRunner t su cl) w).
Proof.
  intros HP. pose proof (Ubase_closed P) as UC. cbn [exec].
    unfold TPre in HP. set (b := mkBuf t su cl) in *. set (k := setup_ticket su).
    assert (Hperm : forall l, Permutation (b :: l ++ H) (l ++ b :: H)) by (intros l; apply Permutation_middle).
    assert (Hpre0 : TPre IGC (b :: H) (emit (EvEnter t k (counter w)) w)).
    { unfold TPre. apply TX_emit; [exact fl_ok_off|]. eapply TX_perm; [apply Hperm|exact HP]. }
    apply (Hsub IGC (b :: H) _ _ (IRunner t su cl) H Hpre0). intros w1 E1 [HT1 _].
    apply (Hsub IPoll (b :: H) w1 _ (IRunner t su cl) H HT1). intros w2 E2 [HT2 _].
    assert (HT2' : TI (b :: buffer w2 ++ H) w2) by (eapply TX_perm; [apply Permutation_sym, Hperm|exact HT2]).
    assert (Habort : forall why, TPost (IRunner t su cl) H
              (bind (exec P f (IAbort t su cl) (emit (EvAbort t k why) w2)) (fun w3 => Ok (emit (EvExit t k) w3)))).
    { intros why. apply (Hsub (IAbort t su cl) H _ _ (IRunner t su cl) H).
      - unfold TPre. apply TX_emit; [exact fl_ok_off|exact HT2'].
      - intros w3 E3 [HT3 _]. apply post_plain; [|exact I]. apply TX_emit; [exact fl_ok_off|exact HT3]. }
    pose proof (lookup_storage_cases t w2) as Hls.
    destruct (lookup_storage t w2) eqn:EL; try apply Habort.
    + destruct (N.eqb (counter w) 0); [apply Habort|].
      apply post_plain; [|exact I]. unfold rn_postpone. apply TX_emit; [exact fl_ok_off|]. apply TX_emit; [exact fl_ok_off|].
      destruct HT2 as (T & F & O & C & U). cbn [buffer set].
      change (buffer (w2 <| buffer ::= fun b0 => b0 ++ [mkBuf t su cl] |>)) with (buffer w2 ++ [b]).
      split; [|split; [exact F|split; [exact O|split; [exact C|apply (c_buffer _ _ UC); exact U]]]].
      refine (TInv_eq _ _ _ _ _ _ T); [cbn [buffer set emit]; rewrite <- app_assoc; reflexivity|reflexivity].
    + apply (Hlast (IRun t su cl (counter w)) H w2 (IRunner t su cl)); [|exact I|exact I]. unfold TPre. split; [exact HT2'|exact Hls].
Qed.

Lemma case_IRun t su cl idx H w : TPre (IRun t su cl idx) H w -> TPost (IRun t su cl idx) H (exec P (S f) (IRun t su cl idx) w).
Proof.
  intros HP. pose proof (Ubase_closed P) as UC. cbn [exec].
    destruct HP as [HP Hst]. set (b := mkBuf t su cl) in *. set (k := setup_ticket su).
    destruct HP as (T & F & O & C & U).
    (* take the callback *)
    assert (HTtake : TI (b :: buffer w ++ H) (rn_take t su w)).
    { unfold rn_take. apply TX_emit; [exact fl_ok_off|].
      split; [tsame T|]. split; [exact F|]. split; [|split].
      - apply (O_take t su w) in O. unfold rn_take in O. intros t0 cb0 Hcb. apply (O t0 cb0). exact Hcb.
      - apply (C_storage_upd t false w) in C. exact C.
      - apply (c_counter _ _ UC). apply (c_storage _ _ UC). exact U. }
    assert (Hst' : alookup t (storage (rn_take t su w)) = Some false) by (unfold rn_take; cbn; rewrite alookup_aupd_same, Hst; reflexivity).
    assert (Hcbs' : cbs (rn_take t su w) = cbs w) by reflexivity.
    destruct HTtake as (T1 & F1 & O1 & C1 & U1).
    destruct (setup_ok b _ _ T1 F1) as (w0 & ES & T0 & F0 & B0 & Ov0 & Rv0). cbn [b_setup b_sys b_cleanup b] in ES, F0. rewrite ES.
    assert (Hst0 : alookup t (storage w0) = Some false) by (pose proof (f_equal (fun x => fst (fst x)) Ov0) as S0; cbn in S0; rewrite S0; exact Hst').
    assert (Hcb0 : cbs w0 = cbs w) by (pose proof (f_equal snd Ov0) as S0; cbn in S0; rewrite S0; exact Hcbs').
    assert (HB0 : buffer w0 = buffer w) by (rewrite B0; reflexivity).
    assert (Hpre_cb : TPre (ICallback t cl) H w0).
    { unfold TPre. split; [|split; [exact Hst0|]].
      - rewrite HB0. split; [exact T0|]. split; [split; [exact F0|eapply setup_fresh; [exact F1|exact ES]]|]. split; [eapply O_oview; eauto|]. split; [eapply C_oview; eauto|].
        eapply (c_setup _ _ UC); eauto.
      - intros cb Hcb Honce. rewrite Hcb0 in Hcb. destruct (cb_taken cb) eqn:Etk; [|reflexivity]. exfalso. eapply (O t cb); eauto. }
    apply (Hsub (ICallback t cl) H w0 _ (IRun t su cl idx) H Hpre_cb). intros w1 E1 [HT1 HKG1].
    apply (Hsub IGC H w1 _ (IRun t su cl idx) H HT1). intros w2 E2 [HT2 _].
    assert (HKG2 : Kinv t w2 \/ gone t w2).
    { destruct HKG1 as [HK|HG]; [left; eapply (exec_closed P _ (Kinv_closed P t)); eauto|right; eapply (exec_closed P _ (gone_closed P t)); eauto]. }
    (* reinsertion *)
    assert (Hrest : forall w3, TI (buffer w3 ++ H) w3 ->
              TPost (IRun t su cl idx) H
                (bind (exec P f IPoll w3) (fun w4 => bind (exec P f (IReplay t (buffer w4) []) (w4 <| buffer := [] |>)) (fun w5 =>
                 bind (if N.eqb idx 0 then bind (exec P f IDiscard w5) (fun w6 => Ok (w6 <| counter := 0 |>)) else Ok w5) (fun w6 =>
                 Ok (emit (EvExit t k) w6)))))).
    { intros w3 HT3. apply (Hsub IPoll H w3 _ (IRun t su cl idx) H HT3). intros w4 E4 [HT4 _].
      assert (Hpre5 : TPre (IReplay t (buffer w4) []) H (w4 <| buffer := [] |>)).
      { unfold TPre. cbn [buffer set app].
        destruct HT4 as (T4 & F4 & O4 & C4 & U4). split; [tsame T4|]. split; [exact F4|]. split; [exact O4|]. split; [exact C4|].
        apply (c_buffer _ _ UC). exact U4. }
      apply (Hsub _ H _ _ (IRun t su cl idx) H Hpre5). intros w5 E5 [HT5 _].
      destruct (N.eqb idx 0).
      - pose proof (IH IDiscard H w5 HT5) as Hp6. destruct (exec P f IDiscard w5) as [w6| |n]; cbn [bind]; [|exact I|exact Hp6].
        destruct Hp6 as [HT6 _]. apply post_plain; [|exact I]. apply TX_emit; [exact fl_ok_off|].
        destruct HT6 as (T6 & F6 & O6 & C6 & U6). split; [tsame T6|]. split; [exact F6|]. split; [exact O6|]. split; [exact C6|].
        apply (c_counter _ _ UC). exact U6.
      - cbn [bind]. apply post_plain; [|exact I]. apply TX_emit; [exact fl_ok_off|exact HT5]. }
    pose proof (lookup_storage_cases t w2) as Hls.
    destruct HT2 as (T2 & F2 & O2 & C2 & U2).
    destruct (lookup_storage t w2) eqn:EL.
    + (* dead: drop the callback *)
      assert (Hnone : alookup t (storage w2) = None) by (apply lookup_dead_storage; [exact (proj1 (proj1 U2))|exact EL]).
      assert (HT3 : TPre IGC H (rn_dropped t k w2)).
      { unfold TPre, rn_dropped. apply TX_emit; [exact fl_ok_off|]. change (buffer (emit (EvEnd t k false) (drop_callback t w2))) with (buffer (drop_callback t w2)).
        apply TX_drop_callback_gone; [exact fl_ok_off|exact Hnone|]. exact (conj T2 (conj F2 (conj O2 (conj C2 U2)))). }
      apply (Hsub IGC H _ _ (IRun t su cl idx) H HT3). intros w3 E3 [HT3' _]. apply Hrest. exact HT3'.
    + (* storage missing *)
      assert (HT3 : TPre IGC H (rn_despawn_missing t k w2)).
      { unfold TPre, rn_despawn_missing. apply TX_emit; [exact fl_ok_off|].
        change (buffer (emit (EvEnd t k false) (despawn t (drop_callback t w2)))) with (buffer (despawn t (drop_callback t w2))).
        rewrite buffer_despawn. apply TX_despawn; [exact fl_ok_off|].
        apply TX_drop_callback_gone; [exact fl_ok_off|exact Hls|]. exact (conj T2 (conj F2 (conj O2 (conj C2 U2)))). }
      apply (Hsub IGC H _ _ (IRun t su cl idx) H HT3). intros w3 E3 [HT3' _]. apply Hrest. exact HT3'.
    + (* the normal case *)
      cbn [bind]. apply Hrest. unfold rn_reinsert. apply TX_emit; [exact fl_ok_off|]. cbn [buffer set].
      assert (Hk : forall cb, alookup t (cbs w2) = Some cb -> cb_once cb = None).
      { destruct HKG2 as [[_ HK]|[_ HG]]; [exact HK|congruence]. }
      split; [tsame T2|]. split; [exact F2|]. split; [|split].
      * apply (O_reinsert t k w2 O2) in Hk. unfold rn_reinsert in Hk. intros t0 cb0 Hcb. apply (Hk t0 cb0). exact Hcb.
      * apply (C_storage_upd t true w2) in C2. exact C2.
      * apply (c_storage _ _ UC). exact U2.
    + cbn [bind]. apply Hrest. unfold rn_reinsert. apply TX_emit; [exact fl_ok_off|]. cbn [buffer set].
      assert (Hk : forall cb, alookup t (cbs w2) = Some cb -> cb_once cb = None).
      { destruct HKG2 as [[_ HK]|[_ HG]]; [exact HK|congruence]. }
      split; [tsame T2|]. split; [exact F2|]. split; [|split].
      * apply (O_reinsert t k w2 O2) in Hk. unfold rn_reinsert in Hk. intros t0 cb0 Hcb. apply (Hk t0 cb0). exact Hcb.
      * apply (C_storage_upd t true w2) in C2. exact C2.
      * apply (c_storage _ _ UC). exact U2.
Qed.

Lemma case_ICallback t cl H w : TPre (ICallback t cl) H w -> TPost (ICallback t cl) H (exec P (S f) (ICallback t cl) w).
Proof.
  intros HP. pose proof (Ubase_closed P) as UC. cbn [exec].
    destruct HP as (HT & Hst & Hns). destruct HT as (T & F & O & C & U).
    assert (Hcbs : alookup t (cbs w) <> None) by (apply C; rewrite Hst; discriminate).
    destruct (alookup t (cbs w)) as [cb|] eqn:EC; [|contradiction].
    assert (Hsp : In t (spawned w)) by (apply (proj2 (proj1 U)); eapply alookup_Some_key; eauto).
    assert (Hbump : forall bt, bump_ok cb bt = true -> TPre (IBody t (cb_runno cb) (cb_captured cb) cl) H (cb_bump t cb bt w)).
    { intros bt Hbt. unfold TPre. split; [|split].
      2:{ unfold state_ok_b, cb_bump; cbn [cbs set]; rewrite alookup_aupd_same, EC; cbn; rewrite !N.eqb_refl; reflexivity. }
      2:{ unfold once_ok_b, cb_bump; cbn [cbs set]; rewrite alookup_aupd_same, EC; cbn [cb_once cb_taken cb_runno].
          pose proof (proj2 U t cb EC) as Hor. unfold bump_ok in Hbt. destruct (cb_once cb); [|reflexivity].
          apply andb_true_iff in Hbt. destruct Hbt as [-> Htk]. apply negb_true_iff in Htk. rewrite Htk in Hor. rewrite (Hor ltac:(discriminate)). reflexivity. }
      change (buffer (cb_bump t cb bt w)) with (buffer w).
      split; [tsame T|]. split; [eapply fl_ok_fresh; [|exact F]; reflexivity|]. split; [apply O_cb_bump; [exact O|rewrite Hst; discriminate]|].
      split; [apply (C_cbs_upd t _ w C)|apply (c_cbbump _ _ UC); assumption]. }
    destruct (cb_once cb) as [tk|] eqn:Eonce.
    + pose proof (Hns cb eq_refl ltac:(rewrite Eonce; discriminate)) as Hntk. rewrite Hntk.
      assert (Hb1 : bump_ok cb true = true) by (unfold bump_ok; rewrite Eonce, Hntk; reflexivity).
      apply (Hsub (IBody t (cb_runno cb) (cb_captured cb) cl) H _ _ (ICallback t cl) H (Hbump true Hb1)). intros w1 E1 [HT1 _].
      assert (Hsp1 : In t (spawned w1)) by (eapply (exec_closed P _ (Sp_closed P t)); [|exact E1]; exact Hsp).
      assert (Hpre2 : TPre (IApplyList [CRevoke tk]) H (despawn t w1)).
      { unfold TPre. split; [|reflexivity]. rewrite (proj2 (proj2 (proj2 (proj2 (proj2 (kview_proj _ _ (kview_despawn t w1))))))).
        apply TX_despawn; [exact fl_ok_off|exact HT1]. }
      assert (Hg1 : gone t (despawn t w1)) by (apply gone_despawn_self; [exact Hsp1|exact (proj1 (proj1 (proj2 (proj2 (proj2 (proj2 HT1))))))]).
      apply (Hsub _ H _ _ (ICallback t cl) H Hpre2). intros w2 E2 [HT2 _].
      assert (Hg2 : gone t w2) by (eapply (exec_closed P _ (gone_closed P t)); eauto).
      split; [|right; unfold once_finish; destruct (alookup t (cbs w2)); exact Hg2].
      assert (Hkv : kview (once_finish t tk w2) = kview w2) by (unfold once_finish; destruct (alookup t (cbs w2)); reflexivity).
      rewrite (proj2 (proj2 (proj2 (proj2 (proj2 (kview_proj _ _ Hkv)))))).
      destruct HT2 as (T2 & F2 & O2 & C2 & U2).
      split; [eapply TInv_kview; eauto|]. split; [eapply flags_off_kview; eauto|]. split; [apply O_once_finish; [exact O2|rewrite (proj2 Hg2); discriminate]|].
      split; [apply C_once_finish; exact C2|apply (c_oncefin _ _ UC); exact U2].
    + assert (HK0 : Kinv t (cb_bump t cb false w)).
      { split; [exact Hsp|]. intros cb' Hcb'. unfold cb_bump in Hcb'. cbn in Hcb'. rewrite alookup_aupd_same, EC in Hcb'. inversion Hcb'; subst. cbn. exact Eonce. }
      assert (Hb0 : bump_ok cb false = true) by (unfold bump_ok; rewrite Eonce; reflexivity).
      pose proof (IH (IBody t (cb_runno cb) (cb_captured cb) cl) H _ (Hbump false Hb0)) as Hp.
      destruct (exec P f (IBody t (cb_runno cb) (cb_captured cb) cl) (cb_bump t cb false w)) as [w1| |n] eqn:E1; [|exact I|exact Hp].
      split; [exact (proj1 Hp)|]. left. eapply (exec_closed P _ (Kinv_closed P t)); eauto.
Qed.

Lemma case_IBody t runno captured cl H w : TPre (IBody t runno captured cl) H w -> TPost (IBody t runno captured cl) H (exec P (S f) (IBody t runno captured cl) w).
Proof.
  intros HP. pose proof (Ubase_closed P) as UC. cbn [exec].
    unfold TPre in HP. destruct HP as (HP & Hstate & Honce). cbn zeta. set (sd := sys_or_default P t).
    pose proof (proj2 (proj1 (proj2 HP))) as Hfresh. unfold fresh_claim in Hfresh.
    assert (HG : body_guard t runno captured w = true) by (unfold body_guard; rewrite Hfresh, Hstate, Honce; reflexivity).
    rewrite HG. cbn [negb].
    assert (HP' : TW cl (buffer w ++ H) w) by (destruct HP as (T & [F _] & R); exact (conj T (conj F R))).
    assert (Hb : TW cl (buffer (body_begin P sd t runno captured w) ++ H) (body_begin P sd t runno captured w)).
    { rewrite (proj2 (proj2 (proj2 (proj2 (proj2 (kview0_proj _ _ (kview0_body_begin P sd t runno captured w))))))).
      destruct HP' as (T & F & O & C & U).
      split; [refine (TInv_eq _ _ _ _ eq_refl _ T); apply tkview_kview0, kview0_body_begin|]. split; [eapply flags_within_kview0; [apply kview0_body_begin|exact F]|].
      split; [unfold body_begin; apply O_state_bump; eapply O_oview; [apply oview_body_sample|exact O]|].
      split; [unfold body_begin; apply C_state_bump; eapply C_oview; [apply oview_body_sample|exact C]|].
      apply (c_body _ _ UC); [exact HG|exact U]. }
    destruct (sd_kind sd).
    + pose proof (TX_acts (flags_within cl) _ (OSys t runno) 0 (script_of P t runno) _ (fl_ok_within cl) Hb) as [HTa HBa].
      pose proof (acts_no_cleanup P (script_of P t runno) (OSys t runno) 0 (body_begin P sd t runno captured w)) as Hn.
      destruct (acts P (OSys t runno) 0 (script_of P t runno) (body_begin P sd t runno captured w)) as [w1 cs]. cbn [fst snd] in *.
      rewrite <- HBa in HTa. destruct (TX_cleanup cl _ w1 HTa) as [HTc HBc].
      apply (Hlast (IApplyList cs) H (plain_cleanup cl w1) (IBody t runno captured cl)); [|exact I|exact I].
      apply nocl_pre_list; [exact Hn|]. unfold plain_cleanup. apply TX_emit; [exact fl_ok_off|]. cbn [buffer emit set]. rewrite HBc. exact HTc.
    + apply (Hlast (IExclSteps t runno 0 [CCleanup cl] (script_of P t runno)) H _ (IBody t runno captured cl)); [|exact I|exact I].
      unfold TPre. split; [exact Hb|reflexivity].
Qed.

Lemma case_IExclSteps s run idx pending l H w : TPre (IExclSteps s run idx pending l) H w -> TPost (IExclSteps s run idx pending l) H (exec P (S f) (IExclSteps s run idx pending l) w).
Proof.
  intros HP. pose proof (Ubase_closed P) as UC. cbn [exec].
    destruct l as [|a r].
    + apply (Hlast (IApplyList pending) H w (IExclSteps s run idx pending [])); [|exact I|exact I].
      unfold TPre in HP |- *. destruct pending as [|c p']; [exact HP|]. destruct c; exact HP.
    + pose proof (act_no_cleanup P (OSys s run idx) a w) as Hn.
      assert (Hstep : TPre (IApplyList (pending ++ snd (act P (OSys s run idx) a w))) H (fst (act P (OSys s run idx) a w))).
      { unfold TPre in HP. destruct pending as [|c p'].
        - cbn [app]. destruct HP as [HT _]. pose proof (TX_act flags_off _ (OSys s run idx) a w fl_ok_off HT) as [HTa HBa].
          apply nocl_pre_list; [exact Hn|]. rewrite HBa. exact HTa.
        - destruct (is_cleanup_cmd c) eqn:Ec.
          + destruct c; try discriminate Ec. destruct HP as [HT Hp]. pose proof (TX_act (flags_within cl) _ (OSys s run idx) a w (fl_ok_within cl) HT) as [HTa HBa].
            cbn [app]. unfold TPre. split; [rewrite HBa; exact HTa|apply nocl_app; assumption].
          + assert (HP' : TI (buffer w ++ H) w /\ nocl (c :: p')) by (destruct c; try discriminate Ec; exact HP).
            destruct HP' as [HT Hp]. pose proof (TX_act flags_off _ (OSys s run idx) a w fl_ok_off HT) as [HTa HBa].
            apply nocl_pre_list; [apply nocl_app; assumption|]. rewrite HBa. exact HTa. }
      destruct (act P (OSys s run idx) a w) as [w1 cs]. cbn [fst snd] in *.
      apply (Hsub _ H w1 _ (IExclSteps s run idx pending (a :: r)) H Hstep). intros w2 E2 [HT2 _].
      apply (Hlast (IExclSteps s run (idx + 1) [] r) H w2 (IExclSteps s run idx pending (a :: r))); [|exact I|exact I].
      unfold TPre. split; [exact HT2|reflexivity].
Qed.

Lemma case_IDirectSteps op idx l H w : TPre (IDirectSteps op idx l) H w -> TPost (IDirectSteps op idx l) H (exec P (S f) (IDirectSteps op idx l) w).
Proof.
  intros HP. pose proof (Ubase_closed P) as UC. cbn [exec].
    unfold TPre in HP. destruct l as [|a r]; [apply post_plain; [exact HP|exact I]|].
    pose proof (act_no_cleanup P (OTop op idx) a w) as Hn. pose proof (TX_act flags_off _ (OTop op idx) a w fl_ok_off HP) as [HTa HBa].
    destruct (act P (OTop op idx) a w) as [w1 cs]. cbn [fst snd] in *.
    assert (Hstep : TPre (IApplyList cs) H w1) by (apply nocl_pre_list; [exact Hn|rewrite HBa; exact HTa]).
    apply (Hsub _ H w1 _ (IDirectSteps op idx (a :: r)) H Hstep). intros w2 E2 [HT2 _].
    apply (Hlast (IDirectSteps op (idx + 1) r) H w2 (IDirectSteps op idx (a :: r))); [exact HT2|exact I|exact I].
Qed.

Lemma case_IBatches op idx bs H w : TPre (IBatches op idx bs) H w -> TPost (IBatches op idx bs) H (exec P (S f) (IBatches op idx bs) w).
Proof.
  intros HP. pose proof (Ubase_closed P) as UC. cbn [exec].
    unfold TPre in HP. destruct bs as [|b r]; [apply post_plain; [exact HP|exact I]|].
    pose proof (acts_no_cleanup P b (OTop op) idx w) as Hn. pose proof (TX_acts flags_off _ (OTop op) idx b w fl_ok_off HP) as [HTa HBa].
    destruct (acts P (OTop op) idx b w) as [w1 cs]. cbn [fst snd] in *.
    assert (Hstep : TPre (IApplyList cs) H w1) by (apply nocl_pre_list; [exact Hn|rewrite HBa; exact HTa]).
    apply (Hsub _ H w1 _ (IBatches op idx (b :: r)) H Hstep). intros w2 E2 [HT2 _].
    apply (Hlast (IBatches op (idx + len b) r) H w2 (IBatches op idx (b :: r))); [exact HT2|exact I|exact I].
Qed.

Lemma case_IReplay t pending kept H w : TPre (IReplay t pending kept) H w -> TPost (IReplay t pending kept) H (exec P (S f) (IReplay t pending kept) w).
Proof.
  intros HP. pose proof (Ubase_closed P) as UC. cbn [exec].
    unfold TPre in HP. destruct pending as [|b pending].
    + apply post_plain; [|exact I]. cbn [app] in HP. destruct HP as (T & F & O & C & U). cbn [buffer set].
      change (buffer (w <| buffer ::= fun b0 => b0 ++ kept |>)) with (buffer w ++ kept). rewrite <- app_assoc.
      split; [tsame T|]. split; [exact F|]. split; [exact O|]. split; [exact C|apply (c_buffer _ _ UC); exact U].
    + destruct (N.eqb (b_sys b) t).
      * assert (Hpre1 : TPre (IRunner (b_sys b) (b_setup b) (b_cleanup b)) (pending ++ kept ++ H) w).
        { unfold TPre. rewrite buffered_eta. eapply TX_perm; [|exact HP]. apply Permutation_sym. cbn [app]. apply Permutation_middle. }
        apply (Hsub _ _ w _ (IReplay t (b :: pending) kept) H Hpre1). intros w1 E1 [HT1 _].
        apply (Hlast (IReplay t pending kept) H w1 (IReplay t (b :: pending) kept)); [exact HT1|exact I|exact I].
      * apply (Hlast (IReplay t pending (kept ++ [b])) H w (IReplay t (b :: pending) kept)); [|exact I|exact I].
        unfold TPre. eapply TX_perm; [|exact HP]. apply Permutation_app_head. cbn [app].
        rewrite <- app_assoc. cbn [app]. rewrite (app_assoc pending kept (b :: H)). rewrite (app_assoc pending kept H). apply Permutation_middle.
Qed.

Lemma case_IDiscard  H w : TPre IDiscard H w -> TPost IDiscard H (exec P (S f) IDiscard w).
Proof.
  intros HP. pose proof (Ubase_closed P) as UC. cbn [exec].
    unfold TPre in HP. destruct (buffer w) as [|b rest] eqn:EB; [apply post_plain; [rewrite EB; exact HP|exact I]|].
    assert (Hpre1 : TPre (IAbort (b_sys b) (b_setup b) (b_cleanup b)) H (rn_discard_pop b rest w)).
    { unfold TPre, rn_discard_pop. rewrite buffered_eta. apply TX_emit; [exact fl_ok_off|]. cbn [buffer set].
      destruct HP as (T & F & O & C & U). split; [tsame T|]. split; [exact F|]. split; [exact O|]. split; [exact C|apply (c_buffer _ _ UC); exact U]. }
    apply (Hsub _ H _ _ IDiscard H Hpre1). intros w1 E1 [HT1 _].
    apply (Hlast IDiscard H w1 IDiscard); [exact HT1|exact I|exact I].
Qed.

Lemma case_IAbort t su cl H w : TPre (IAbort t su cl) H w -> TPost (IAbort t su cl) H (exec P (S f) (IAbort t su cl) w).
Proof.
  intros HP. pose proof (Ubase_closed P) as UC. cbn [exec].
    unfold TPre in HP. set (b := mkBuf t su cl) in *. destruct HP as (T & F & O & C & U).
    destruct (setup_ok b _ _ T F) as (w0 & ES & T0 & F0 & B0 & Ov0 & Rv0). cbn [b_setup b_sys b_cleanup b] in ES, F0. rewrite ES.
    assert (HT0 : TW cl (buffer w0 ++ H) w0).
    { rewrite B0. split; [exact T0|]. split; [exact F0|]. split; [eapply O_oview; eauto|]. split; [eapply C_oview; eauto|eapply (c_setup _ _ UC); eauto]. }
    destruct (TX_cleanup cl _ w0 HT0) as [HTc HBc].
    assert (Hpre1 : TPre IGC H (rn_abort_cleanup su cl w0)).
    { unfold TPre, rn_abort_cleanup. apply TX_emit; [exact fl_ok_off|]. change (buffer (emit (EvCleanup (setup_ticket su)) (run_cleanup cl w0))) with (buffer (run_cleanup cl w0)). rewrite HBc. exact HTc. }
    apply (Hsub IGC H _ _ (IAbort t su cl) H Hpre1). intros w1 E1 [HT1 _].
    apply (Hlast IPoll H w1 (IAbort t su cl)); [exact HT1|exact I|exact I].
Qed.

Lemma case_IGC  H w : TPre IGC H w -> TPost IGC H (exec P (S f) IGC w).
Proof.
  intros HP. pose proof (Ubase_closed P) as UC. cbn [exec].
    unfold TPre in HP. destruct (gc_chan w) as [|e r] eqn:EG; [apply post_plain; [exact HP|exact I]|].
    apply (Hlast IGC H (gc_step e r w) IGC); [|exact I|exact I]. unfold TPre, gc_step.
    rewrite (proj2 (proj2 (proj2 (proj2 (proj2 (kview_proj _ _ (kview_despawn e (w <| gc_chan := r |>)))))))).
    apply TX_despawn; [exact fl_ok_off|]. change (buffer (w <| gc_chan := r |>)) with (buffer w).
    apply (TX_inert flags_off _ w (w <| gc_chan := r |>) fl_ok_off); [reflexivity|reflexivity| |exact HP].
    destruct HP as (_ & _ & _ & _ & [[U1 U2] U3]). split; [split; [intros x Hx; apply U1; exact Hx|exact U2]|exact U3].
Qed.

Lemma case_IPoll  H w : TPre IPoll H w -> TPost IPoll H (exec P (S f) IPoll w).
Proof.
  intros HP. pose proof (Ubase_closed P) as UC. cbn [exec].
    unfold TPre in HP. pose proof (poll_nocl w) as Hn. pose proof (kview_poll w) as HK. pose proof (oview_poll w) as HO.
    pose proof (c_poll _ _ UC w (proj2 (proj2 (proj2 (proj2 HP))))) as HU.
    destruct (poll w) as [w1 cs]. cbn [fst snd] in *.
    apply (Hlast (IApplyList cs) H w1 IPoll); [|exact I|exact I]. apply nocl_pre_list; [exact Hn|].
    rewrite (proj2 (proj2 (proj2 (proj2 (proj2 (kview_proj _ _ HK)))))). eapply TX_inert; eauto. exact fl_ok_off.
Qed.

Lemma case_ITop i o H w : TPre (ITop i o) H w -> TPost (ITop i o) H (exec P (S f) (ITop i o) w).
Proof.
  intros HP. pose proof (Ubase_closed P) as UC. cbn [exec].
    unfold TPre in HP.
    assert (Hend : forall w1, TI (buffer w1 ++ H) w1 -> TPost (ITop i o) H (Ok (top_end P i w1))).
    { intros w1 HT1. apply post_plain; [|exact I]. unfold top_end. apply TX_emit; [exact fl_ok_off|exact HT1]. }
    destruct o as [l|l|bs].
    + pose proof (acts_no_cleanup P l (OTop i) 0 w) as Hn. pose proof (TX_acts flags_off _ (OTop i) 0 l w fl_ok_off HP) as [HTa HBa].
      destruct (acts P (OTop i) 0 l w) as [w1 cs]. cbn [fst snd] in *.
      assert (Hstep : TPre (IApplyList cs) H w1) by (apply nocl_pre_list; [exact Hn|rewrite HBa; exact HTa]).
      apply (Hsub _ H w1 _ (ITop i (TFlush l)) H Hstep). intros w2 E2 [HT2 _]. apply Hend. exact HT2.
    + apply (Hsub (IDirectSteps i 0 l) H w _ (ITop i (TDirect l)) H HP). intros w2 E2 [HT2 _]. apply Hend. exact HT2.
    + assert (Hchain : TPost (ITop i (TFrame bs)) H
                (bind (bind (exec P f (IBatches i 0 bs) w) (fun w1 => bind (exec P f IGC w1) (fun w2 => bind (exec P f IPoll w2) (fun w3 => Ok (clear_trackers w3)))))
                      (fun w4 => Ok (top_end P i w4)))).
      { pose proof (IH (IBatches i 0 bs) H w HP) as Hp1.
        destruct (exec P f (IBatches i 0 bs) w) as [w1| |n]; cbn [bind]; [|exact I|exact Hp1].
        pose proof (IH IGC H w1 (proj1 Hp1)) as Hp2. destruct (exec P f IGC w1) as [w2| |n]; cbn [bind]; [|exact I|exact Hp2].
        pose proof (IH IPoll H w2 (proj1 Hp2)) as Hp3. destruct (exec P f IPoll w2) as [w3| |n]; cbn [bind]; [|exact I|exact Hp3].
        apply Hend. change (buffer (clear_trackers w3)) with (buffer w3).
        apply (TX_inert flags_off _ w3 (clear_trackers w3) fl_ok_off); [reflexivity|reflexivity| |exact (proj1 Hp3)].
        apply (c_clear _ _ UC). exact (proj2 (proj2 (proj2 (proj2 (proj1 Hp3))))). }
      exact Hchain.

Qed.

End Cases.

Theorem exec_ticket : forall fuel i H w, TPre i H w -> TPost i H (exec P fuel i w).
Proof.
  induction fuel as [|f IH]; intros i H w HP; [exact I|].
  destruct i.
  - apply case_IApply; assumption.
  - apply case_IApplyList; assumption.
  - apply case_IRunner; assumption.
  - apply case_IRun; assumption.
  - apply case_ICallback; assumption.
  - apply case_IBody; assumption.
  - apply case_IExclSteps; assumption.
  - apply case_IDirectSteps; assumption.
  - apply case_IBatches; assumption.
  - apply case_IReplay; assumption.
  - apply case_IDiscard; assumption.
  - apply case_IAbort; assumption.
  - apply case_IGC; assumption.
  - apply case_IPoll; assumption.
  - apply case_ITop; assumption.
Qed.
End Ticket.
