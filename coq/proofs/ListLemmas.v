(* ListLemmas.v — facts about association lists (the model of HashMap / component storage) and small list helpers. *)
From Cobweb Require Import Base.

Lemma memN_In x l : memN x l = true <-> In x l.
Proof.
  induction l as [|y l IH]; cbn; [split; [discriminate|tauto]|].
  rewrite orb_true_iff, IH, N.eqb_eq. split; intros [H|H]; auto.
Qed.
Lemma memN_false x l : memN x l = false <-> ~ In x l.
Proof. rewrite <- memN_In. destruct (memN x l); split; congruence. Qed.

Lemma removeN_In x y l : In y (removeN x l) <-> In y l /\ y <> x.
Proof.
  induction l as [|z l IH]; cbn; [tauto|].
  destruct (N.eqb_spec x z) as [->|Hn]; cbn; rewrite IH; split.
  - intros [H1 H2]; auto.
  - intros [[H|H] H2]; [congruence|auto].
  - intros [H|[H1 H2]]; [subst; split; auto; congruence|auto].
  - intros [[H|H] H2]; auto.
Qed.
Lemma memN_removeN_same x l : memN x (removeN x l) = false.
Proof. apply memN_false. rewrite removeN_In. tauto. Qed.
Lemma memN_removeN_other x y l : y <> x -> memN y (removeN x l) = memN y l.
Proof.
  intros Hn. destruct (memN y l) eqn:E.
  - apply memN_In. apply removeN_In. split; [apply memN_In; exact E|exact Hn].
  - apply memN_false. rewrite removeN_In. apply memN_false in E. tauto.
Qed.
Lemma memN_app x l1 l2 : memN x (l1 ++ l2) = memN x l1 || memN x l2.
Proof. induction l1 as [|y l1 IH]; cbn; [reflexivity|]. rewrite IH. apply orb_assoc. Qed.

Section Assoc.
Context {V : Type}.
Implicit Types (l : list (N * V)).

Lemma alookup_In k v l : alookup k l = Some v -> In (k, v) l.
Proof.
  induction l as [|[k' v'] l IH]; cbn; [discriminate|].
  destruct (N.eqb_spec k k') as [->|Hn]; [intros H; inversion H; auto|auto].
Qed.
Lemma alookup_None k l : alookup k l = None <-> ~ In k (map fst l).
Proof.
  induction l as [|[k' v'] l IH]; cbn; [tauto|].
  destruct (N.eqb_spec k k') as [->|Hn]; [split; [discriminate|intros H; exfalso; auto]|].
  rewrite IH. split; [intros H [H1|H1]; [congruence|auto]|tauto].
Qed.
Lemma alookup_Some_key k v l : alookup k l = Some v -> In k (map fst l).
Proof. intros H. apply alookup_In in H. apply (in_map fst) in H. exact H. Qed.
Lemma ahas_In k l : ahas k l = true <-> In k (map fst l).
Proof.
  unfold ahas. destruct (alookup k l) eqn:E.
  - split; [intros _; eapply alookup_Some_key; eauto|reflexivity].
  - apply alookup_None in E. split; [discriminate|tauto].
Qed.

Lemma aremove_keys k k' l : In k' (map fst (aremove k l)) <-> In k' (map fst l) /\ k' <> k.
Proof.
  induction l as [|[k0 v0] l IH]; cbn; [tauto|].
  destruct (N.eqb_spec k k0) as [->|Hn]; cbn; rewrite IH.
  - split; [intros [H1 H2]; auto|intros [[H|H] H2]; [congruence|auto]].
  - split; [intros [H|[H1 H2]]; [subst; split; auto; congruence|auto]|intros [[H|H] H2]; auto].
Qed.
Lemma aremove_NoDup k l : NoDup (map fst l) -> NoDup (map fst (aremove k l)).
Proof.
  induction l as [|[k0 v0] l IH]; cbn; [auto|]. intros H. inversion H as [|? ? Hn Hd]; subst.
  destruct (N.eqb k k0); [auto|]. cbn. constructor; [|auto]. rewrite aremove_keys. tauto.
Qed.
Lemma alookup_aremove_same k l : alookup k (aremove k l) = None.
Proof. apply alookup_None. rewrite aremove_keys. tauto. Qed.
Lemma alookup_aremove_other k k' l : k' <> k -> alookup k' (aremove k l) = alookup k' l.
Proof.
  intros Hn. induction l as [|[k0 v0] l IH]; cbn; [reflexivity|].
  destruct (N.eqb_spec k k0) as [->|Hn0]; cbn.
  - destruct (N.eqb_spec k' k0); [congruence|exact IH].
  - destruct (N.eqb k' k0); [reflexivity|exact IH].
Qed.

Lemma aset_keys k v k' l : In k' (map fst (aset k v l)) <-> In k' (map fst l) \/ k' = k.
Proof.
  induction l as [|[k0 v0] l IH]; cbn; [intuition|].
  destruct (N.eqb_spec k k0) as [->|Hn]; cbn; [intuition|]. rewrite IH. intuition.
Qed.
Lemma aset_NoDup k v l : NoDup (map fst l) -> NoDup (map fst (aset k v l)).
Proof.
  induction l as [|[k0 v0] l IH]; cbn; [intros _; constructor; [tauto|constructor]|].
  intros H. inversion H as [|? ? Hn Hd]; subst.
  destruct (N.eqb_spec k k0) as [->|Hn0]; cbn; [constructor; auto|].
  constructor; [|auto]. rewrite aset_keys. intros [H1|H1]; [auto|congruence].
Qed.
Lemma alookup_aset_same k v l : alookup k (aset k v l) = Some v.
Proof.
  induction l as [|[k0 v0] l IH]; cbn; [now rewrite N.eqb_refl|].
  destruct (N.eqb_spec k k0) as [->|Hn]; cbn; [now rewrite N.eqb_refl|].
  destruct (N.eqb_spec k k0); [congruence|exact IH].
Qed.
Lemma alookup_aset_other k v k' l : k' <> k -> alookup k' (aset k v l) = alookup k' l.
Proof.
  intros Hn. induction l as [|[k0 v0] l IH]; cbn; [destruct (N.eqb_spec k' k); [congruence|reflexivity]|].
  destruct (N.eqb_spec k k0) as [->|Hn0]; cbn.
  - destruct (N.eqb_spec k' k0); [congruence|reflexivity].
  - destruct (N.eqb k' k0); [reflexivity|exact IH].
Qed.
Lemma aset_keys_present k v l : In k (map fst l) -> map fst (aset k v l) = map fst l.
Proof.
  induction l as [|[k0 v0] l IH]; cbn; [tauto|].
  destruct (N.eqb_spec k k0) as [->|Hn]; cbn; [reflexivity|].
  intros [H|H]; [congruence|]. now rewrite IH.
Qed.

Lemma aupd_keys k v l : map fst (aupd k v l) = map fst l.
Proof.
  induction l as [|[k0 v0] l IH]; cbn; [reflexivity|].
  destruct (N.eqb_spec k k0) as [->|Hn]; cbn; [reflexivity|now rewrite IH].
Qed.
Lemma alookup_aupd_other k v k' l : k' <> k -> alookup k' (aupd k v l) = alookup k' l.
Proof.
  intros Hn. induction l as [|[k0 v0] l IH]; cbn; [reflexivity|].
  destruct (N.eqb_spec k k0) as [->|Hn0]; cbn.
  - destruct (N.eqb_spec k' k0); [congruence|reflexivity].
  - destruct (N.eqb k' k0); [reflexivity|exact IH].
Qed.
Lemma alookup_aupd_same k v l : alookup k (aupd k v l) = match alookup k l with Some _ => Some v | None => None end.
Proof.
  induction l as [|[k0 v0] l IH]; cbn; [reflexivity|].
  destruct (N.eqb_spec k k0) as [->|Hn]; cbn; [now rewrite N.eqb_refl|].
  destruct (N.eqb_spec k k0); [congruence|exact IH].
Qed.

End Assoc.

Lemma NoDup_snoc {A} (x : A) l : ~ In x l -> NoDup l -> NoDup (l ++ [x]).
Proof.
  intros Hn Hd. induction l as [|y l IH]; cbn; [constructor; [tauto|constructor]|].
  inversion Hd as [|? ? Hy Hd']; subst. constructor.
  - rewrite in_app_iff. cbn. intros [H|[H|[]]]; [auto|subst; apply Hn; left; reflexivity].
  - apply IH; [intros H; apply Hn; right; exact H|exact Hd'].
Qed.

(* keyed selection from an association list with distinct keys *)
Lemma flat_map_key {V B} (f : N -> V -> list B) (k : N) (l : list (N * V)) :
  NoDup (map fst l) ->
  flat_map (fun x => if N.eqb k (fst x) then f (fst x) (snd x) else []) l
  = match alookup k l with Some v => f k v | None => [] end.
Proof.
  induction l as [|[k0 v0] l IH]; cbn; [reflexivity|].
  intros H. inversion H as [|? ? Hn Hd]; subst.
  destruct (N.eqb_spec k k0) as [->|Hne].
  - rewrite (proj2 (alookup_None k0 l)) in IH by exact Hn. rewrite IH by exact Hd. apply app_nil_r.
  - cbn. apply IH. exact Hd.
Qed.

(* two-key association lists *)
Lemma alookup2_aset2_same {V} a b (v : V) l : alookup2 a b (aset2 a b v l) = Some v.
Proof.
  induction l as [|[[a' b'] v'] l IH]; cbn [aset2 alookup2].
  - rewrite !N.eqb_refl. reflexivity.
  - destruct (N.eqb a a' && N.eqb b b') eqn:E; cbn [alookup2]; [rewrite !N.eqb_refl; reflexivity|rewrite E; exact IH].
Qed.
Lemma key2_neq a b a' b' : (a', b') <> (a, b) -> N.eqb a' a && N.eqb b' b = false.
Proof.
  intros H. destruct (N.eqb a' a) eqn:E1; [|reflexivity]. destruct (N.eqb b' b) eqn:E2; [|reflexivity].
  apply N.eqb_eq in E1, E2. subst. contradiction.
Qed.
Lemma alookup2_aremove2_other {V} a b a' b' (l : list (N * N * V)) : (a', b') <> (a, b) -> alookup2 a' b' (aremove2 a b l) = alookup2 a' b' l.
Proof.
  intros Hne. induction l as [|[[a0 b0] v0] l IH]; cbn [aremove2 alookup2]; [reflexivity|].
  destruct (N.eqb a a0 && N.eqb b b0) eqn:E.
  - apply andb_true_iff in E. destruct E as [E1 E2]. apply N.eqb_eq in E1, E2. subst. rewrite (key2_neq _ _ _ _ Hne). exact IH.
  - cbn [alookup2]. rewrite IH. reflexivity.
Qed.
Lemma alookup2_aremove2_same {V} a b (l : list (N * N * V)) : alookup2 a b (aremove2 a b l) = None.
Proof.
  induction l as [|[[a0 b0] v0] l IH]; cbn [aremove2 alookup2]; [reflexivity|].
  destruct (N.eqb a a0 && N.eqb b b0) eqn:E; [exact IH|]. cbn [alookup2]. rewrite E. exact IH.
Qed.
Lemma alookup2_aset2_other {V} a b (v : V) a' b' l : (a', b') <> (a, b) -> alookup2 a' b' (aset2 a b v l) = alookup2 a' b' l.
Proof.
  intros Hne. induction l as [|[[a0 b0] v0] l IH]; cbn [aset2 alookup2].
  - rewrite (key2_neq _ _ _ _ Hne). reflexivity.
  - destruct (N.eqb a a0 && N.eqb b b0) eqn:E; cbn [alookup2].
    + apply andb_true_iff in E. destruct E as [E1 E2]. apply N.eqb_eq in E1, E2. subst. rewrite (key2_neq _ _ _ _ Hne). reflexivity.
    + rewrite IH. reflexivity.
Qed.
