(* Closed.v — invariants that do not depend on the calling context: if every atomic step of the interpreter
   preserves I, then every execution of every instruction preserves I (for every program, fuel and state). *)
From Cobweb Require Import Machine.

Section Closed.
Variable P : program.
Variable I : world -> Prop.

Record closed : Prop := {
  c_emit : forall e w, I w -> I (emit e w);
  c_prim : forall c w, I w -> I (fst (apply_prim P c w));
  c_act : forall o a w, I w -> I (fst (act P o a w));
  c_prepare : forall c w t su cl w', I w -> prepare_cmd c w = Some (t, su, cl, w') -> I w';
  c_gc : forall e r w, I w -> gc_chan w = e :: r -> I (gc_step e r w);
  c_poll : forall w, I w -> I (fst (poll w));
  c_setup : forall su t w w', I w -> run_setup su t w = Some w' -> I w';
  c_cleanup : forall cl w, I w -> I (run_cleanup cl w);
  c_buffer : forall b w, I w -> I (w <| buffer := b |>);
  c_counter : forall n w, I w -> I (w <| counter := n |>);
  c_storage : forall t b w, I w -> I (w <| storage := aupd t b (storage w) |>);
  c_dropped : forall t k w, I w -> lookup_storage t w = LDead -> I (rn_dropped t k w);
  c_missing : forall t k w, I w -> lookup_storage t w = LNoStorage -> I (rn_despawn_missing t k w);
  c_despawn : forall t w, I w -> I (despawn t w);
  c_cbbump : forall t cb b w, I w -> alookup t (cbs w) = Some cb -> bump_ok cb b = true -> I (cb_bump t cb b w);
  c_oncefin : forall t tk w, I w -> I (once_finish t tk w);
  c_body : forall sd t r c w, body_guard t r c w = true -> I w -> I (body_begin P sd t r c w);
  c_clear : forall w, I w -> I (clear_trackers w);
}.

Hypothesis HC : closed.

Lemma closed_acts : forall l mk idx w, I w -> I (fst (acts P mk idx l w)).
Proof.
  induction l as [|a l IH]; intros mk idx w Hw; cbn [acts]; [exact Hw|].
  destruct (act P (mk idx) a w) as [w1 c1] eqn:E1.
  destruct (acts P mk (idx + 1) l w1) as [w2 c2] eqn:E2. cbn [fst].
  pose proof (c_act HC (mk idx) a w Hw) as H1. rewrite E1 in H1. cbn [fst] in H1.
  pose proof (IH mk (idx + 1) w1 H1) as H2. rewrite E2 in H2. exact H2.
Qed.

Lemma closed_acts' l mk idx w w' cs : I w -> acts P mk idx l w = (w', cs) -> I w'.
Proof. intros Hw E. pose proof (closed_acts l mk idx w Hw) as H. rewrite E in H. exact H. Qed.
Lemma closed_act' o a w w' cs : I w -> act P o a w = (w', cs) -> I w'.
Proof. intros Hw E. pose proof (c_act HC o a w Hw) as H. rewrite E in H. exact H. Qed.
Lemma closed_prim' c w w' cs : I w -> apply_prim P c w = (w', cs) -> I w'.
Proof. intros Hw E. pose proof (c_prim HC c w Hw) as H. rewrite E in H. exact H. Qed.
Lemma closed_poll' w w' cs : I w -> poll w = (w', cs) -> I w'.
Proof. intros Hw E. pose proof (c_poll HC w Hw) as H. rewrite E in H. exact H. Qed.

Lemma closed_take t su w : I w -> I (rn_take t su w).
Proof.
  intros Hw. unfold rn_take. apply (c_emit HC).
  change (I ((w <| storage := aupd t false (storage w) |>) <| counter := N.succ (counter w) |>)).
  apply (c_counter HC). apply (c_storage HC). exact Hw.
Qed.
Lemma closed_reinsert t k w : I w -> I (rn_reinsert t k w).
Proof. intros Hw. unfold rn_reinsert. apply (c_emit HC). apply (c_storage HC). exact Hw. Qed.
Lemma closed_postpone t su cl w : I w -> I (rn_postpone t su cl w).
Proof.
  intros Hw. unfold rn_postpone. apply (c_emit HC). apply (c_emit HC).
  change (I (w <| buffer := buffer w ++ [mkBuf t su cl] |>)). apply (c_buffer HC). exact Hw.
Qed.
Lemma closed_abort_cleanup su cl w : I w -> I (rn_abort_cleanup su cl w).
Proof. intros Hw. unfold rn_abort_cleanup. apply (c_emit HC). apply (c_cleanup HC). exact Hw. Qed.
Lemma closed_discard_pop b rest w : I w -> I (rn_discard_pop b rest w).
Proof. intros Hw. unfold rn_discard_pop. apply (c_emit HC). apply (c_buffer HC). exact Hw. Qed.
Lemma closed_plain_cleanup cl w : I w -> I (plain_cleanup cl w).
Proof. intros Hw. unfold plain_cleanup. apply (c_emit HC). apply (c_cleanup HC). exact Hw. Qed.
Lemma closed_top_end i w : I w -> I (top_end P i w).
Proof. intros Hw. unfold top_end. apply (c_emit HC). exact Hw. Qed.

Ltac bind_inv E w1 E1 :=
  match type of E with
  | bind ?r _ = Ok _ => destruct r as [w1| |] eqn:E1; cbn [bind] in E; [|discriminate E|discriminate E]
  end.

Theorem exec_closed : forall fuel i w w', I w -> exec P fuel i w = Ok w' -> I w'.
Proof.
  induction fuel as [|f IH]; intros i w w' Hw E; [discriminate E|].
  destruct i; cbn [exec] in E.
  - (* IApply *)
    destruct (prepare_cmd c w) as [[[[t su] cl] w1]|] eqn:EP.
    + eapply IH; [|exact E]. eapply (c_prepare HC); eauto.
    + assert (Hprim : forall c0 w2 cs, apply_prim P c0 w = (w2, cs) -> exec P f (IApplyList cs) w2 = Ok w' -> I w').
      { intros c0 w2 cs Ea Ee. eapply IH; [|exact Ee]. eapply closed_prim'; eauto. }
      destruct c;
        try (destruct (apply_prim P _ w) as [w2 cs] eqn:Ea; eapply Hprim; [exact Ea|exact E]);
        try discriminate EP.
      * (* CSpawnSys *)
        match type of E with (if ?b then _ else _) = _ => destruct b; [|discriminate E] end.
        destruct (apply_prim P _ w) as [w2 cs] eqn:Ea. eapply Hprim; [exact Ea|exact E].
      * (* CGC *) eapply IH; [exact Hw|exact E].
  - (* IApplyList *)
    destruct cs as [|c cs]; [inversion E; subst; exact Hw|].
    bind_inv E w1 E1. eapply IH; [|exact E]. eapply IH; [exact Hw|exact E1].
  - (* IRunner *)
    bind_inv E w1 E1. bind_inv E w2 E2.
    assert (H1 : I w1) by (eapply IH; [|exact E1]; apply (c_emit HC); exact Hw).
    assert (H2 : I w2) by (eapply IH; [exact H1|exact E2]).
    destruct (lookup_storage t w2) eqn:EL.
    + bind_inv E w3 E3. inversion E; subst. apply (c_emit HC). eapply IH; [|exact E3]. apply (c_emit HC). exact H2.
    + bind_inv E w3 E3. inversion E; subst. apply (c_emit HC). eapply IH; [|exact E3]. apply (c_emit HC). exact H2.
    + destruct (N.eqb (counter w) 0).
      * bind_inv E w3 E3. inversion E; subst. apply (c_emit HC). eapply IH; [|exact E3]. apply (c_emit HC). exact H2.
      * inversion E; subst. apply closed_postpone. exact H2.
    + eapply IH; [exact H2|exact E].
  - (* IRun *)
    destruct (run_setup su t (rn_take t su w)) as [w0|] eqn:ES; [|discriminate E].
    assert (H0 : I w0) by (eapply (c_setup HC); [|exact ES]; apply closed_take; exact Hw).
    bind_inv E w1 E1. assert (H1 : I w1) by (eapply IH; [exact H0|exact E1]).
    bind_inv E w2 E2. assert (H2 : I w2) by (eapply IH; [exact H1|exact E2]).
    bind_inv E w3 E3.
    assert (H3 : I w3).
    { destruct (lookup_storage t w2) eqn:EL2.
      - eapply IH; [|exact E3]. apply (c_dropped HC); assumption.
      - eapply IH; [|exact E3]. apply (c_missing HC); assumption.
      - inversion E3; subst. apply closed_reinsert. exact H2.
      - inversion E3; subst. apply closed_reinsert. exact H2. }
    bind_inv E w4 E4. assert (H4 : I w4) by (eapply IH; [exact H3|exact E4]).
    bind_inv E w5 E5. assert (H5 : I w5) by (eapply IH; [|exact E5]; apply (c_buffer HC); exact H4).
    bind_inv E w6 E6.
    assert (H6 : I w6).
    { destruct (N.eqb idx 0).
      - bind_inv E6 w7 E7. inversion E6; subst. apply (c_counter HC). eapply IH; [exact H5|exact E7].
      - inversion E6; subst. exact H5. }
    inversion E; subst. apply (c_emit HC). exact H6.
  - (* ICallback *)
    destruct (alookup t (cbs w)) as [cb|] eqn:EC; [|discriminate E].
    destruct (cb_once cb) as [tk|] eqn:Eonce.
    + destruct (cb_taken cb) eqn:Etk; [inversion E; subst; exact Hw|].
      bind_inv E w1 E1. assert (H1 : I w1) by (eapply IH; [|exact E1]; apply (c_cbbump HC); [exact Hw|exact EC|unfold bump_ok; rewrite Eonce, Etk; reflexivity]).
      bind_inv E w2 E2. assert (H2 : I w2) by (eapply IH; [|exact E2]; apply (c_despawn HC); exact H1).
      inversion E; subst. apply (c_oncefin HC). exact H2.
    + eapply IH; [|exact E]. apply (c_cbbump HC); [exact Hw|exact EC|unfold bump_ok; rewrite Eonce; reflexivity].
  - (* IBody *)
    cbn zeta in E. set (sd := sys_or_default P t) in *.
    destruct (body_guard t runno captured w) eqn:EG; [|discriminate E]. cbn [negb] in E.
    assert (Hb : I (body_begin P sd t runno captured w)) by (apply (c_body HC); [exact EG|exact Hw]).
    destruct (sd_kind sd).
    + destruct (acts P (OSys t runno) 0 (script_of P t runno) (body_begin P sd t runno captured w)) as [w1 cs] eqn:EA.
      eapply IH; [|exact E]. apply closed_plain_cleanup. eapply closed_acts'; eauto.
    + eapply IH; [exact Hb|exact E].
  - (* IExclSteps *)
    destruct l as [|a r]; [eapply IH; [exact Hw|exact E]|].
    destruct (act P (OSys s run idx) a w) as [w1 cs] eqn:EA.
    bind_inv E w2 E2. eapply IH; [|exact E]. eapply IH; [|exact E2]. eapply closed_act'; eauto.
  - (* IDirectSteps *)
    destruct l as [|a r]; [inversion E; subst; exact Hw|].
    destruct (act P (OTop op idx) a w) as [w1 cs] eqn:EA.
    bind_inv E w2 E2. eapply IH; [|exact E]. eapply IH; [|exact E2]. eapply closed_act'; eauto.
  - (* IBatches *)
    destruct bs as [|b r]; [inversion E; subst; exact Hw|].
    destruct (acts P (OTop op) idx b w) as [w1 cs] eqn:EA.
    bind_inv E w2 E2. eapply IH; [|exact E]. eapply IH; [|exact E2]. eapply closed_acts'; eauto.
  - (* IReplay *)
    destruct pending as [|b pending].
    + inversion E; subst. change (I (w <| buffer := buffer w ++ kept |>)). apply (c_buffer HC). exact Hw.
    + destruct (N.eqb (b_sys b) t).
      * bind_inv E w1 E1. eapply IH; [|exact E]. eapply IH; [exact Hw|exact E1].
      * eapply IH; [exact Hw|exact E].
  - (* IDiscard *)
    destruct (buffer w) as [|b rest] eqn:EB; [inversion E; subst; exact Hw|].
    bind_inv E w1 E1. eapply IH; [|exact E]. eapply IH; [|exact E1]. apply closed_discard_pop. exact Hw.
  - (* IAbort *)
    destruct (run_setup su t w) as [w0|] eqn:ES; [|discriminate E].
    bind_inv E w1 E1. eapply IH; [|exact E]. eapply IH; [|exact E1].
    apply closed_abort_cleanup. eapply (c_setup HC); eauto.
  - (* IGC *)
    destruct (gc_chan w) as [|e r] eqn:EG; [inversion E; subst; exact Hw|].
    eapply IH; [|exact E]. eapply (c_gc HC); eauto.
  - (* IPoll *)
    destruct (poll w) as [w1 cs] eqn:EPo. eapply IH; [|exact E]. eapply closed_poll'; eauto.
  - (* ITop *)
    bind_inv E w1 E1. inversion E; subst. apply closed_top_end.
    destruct o as [l|l|bs].
    + destruct (acts P (OTop i) 0 l w) as [w2 cs] eqn:EA. eapply IH; [|exact E1]. eapply closed_acts'; eauto.
    + eapply IH; [exact Hw|exact E1].
    + bind_inv E1 w2 E2. bind_inv E1 w3 E3. bind_inv E1 w4 E4. inversion E1; subst.
      apply (c_clear HC). eapply IH; [|exact E4]. eapply IH; [|exact E3]. eapply IH; [exact Hw|exact E2].
Qed.

Lemma run_tops_closed : forall fuel l i w w', I w -> run_tops P fuel i l w = Ok w' -> I w'.
Proof.
  intros fuel l; induction l as [|o l IHl]; intros i w w' Hw E; cbn [run_tops] in E.
  - inversion E; subst; exact Hw.
  - bind_inv E w1 E1. eapply IHl; [|exact E]. eapply exec_closed; eauto.
Qed.

End Closed.

(* closed invariants are closed under conjunction and under quantification over a parameter *)
Lemma closed_and (P : program) (A B : world -> Prop) : closed P A -> closed P B -> closed P (fun w => A w /\ B w).
Proof.
  intros HA HB. constructor.
  - intros e w [H1 H2]. split; [apply (c_emit _ _ HA)|apply (c_emit _ _ HB)]; assumption.
  - intros c w [H1 H2]. split; [apply (c_prim _ _ HA)|apply (c_prim _ _ HB)]; assumption.
  - intros o a w [H1 H2]. split; [apply (c_act _ _ HA)|apply (c_act _ _ HB)]; assumption.
  - intros c w t su cl w' [H1 H2] E. split; [eapply (c_prepare _ _ HA)|eapply (c_prepare _ _ HB)]; eauto.
  - intros e r w [H1 H2] E. split; [apply (c_gc _ _ HA)|apply (c_gc _ _ HB)]; assumption.
  - intros w [H1 H2]. split; [apply (c_poll _ _ HA)|apply (c_poll _ _ HB)]; assumption.
  - intros su t w w' [H1 H2] E. split; [eapply (c_setup _ _ HA)|eapply (c_setup _ _ HB)]; eauto.
  - intros cl w [H1 H2]. split; [apply (c_cleanup _ _ HA)|apply (c_cleanup _ _ HB)]; assumption.
  - intros b w [H1 H2]. split; [apply (c_buffer _ _ HA)|apply (c_buffer _ _ HB)]; assumption.
  - intros n w [H1 H2]. split; [apply (c_counter _ _ HA)|apply (c_counter _ _ HB)]; assumption.
  - intros t b w [H1 H2]. split; [apply (c_storage _ _ HA)|apply (c_storage _ _ HB)]; assumption.
  - intros t k w [H1 H2] E. split; [apply (c_dropped _ _ HA)|apply (c_dropped _ _ HB)]; assumption.
  - intros t k w [H1 H2] E. split; [apply (c_missing _ _ HA)|apply (c_missing _ _ HB)]; assumption.
  - intros t w [H1 H2]. split; [apply (c_despawn _ _ HA)|apply (c_despawn _ _ HB)]; assumption.
  - intros t cb b w [H1 H2] E Eb. split; [apply (c_cbbump _ _ HA)|apply (c_cbbump _ _ HB)]; assumption.
  - intros t tk w [H1 H2]. split; [apply (c_oncefin _ _ HA)|apply (c_oncefin _ _ HB)]; assumption.
  - intros sd t r c w HG [H1 H2]. split; [apply (c_body _ _ HA)|apply (c_body _ _ HB)]; assumption.
  - intros w [H1 H2]. split; [apply (c_clear _ _ HA)|apply (c_clear _ _ HB)]; assumption.
Qed.
Lemma closed_forall (P : program) {X : Type} (A : X -> world -> Prop) : (forall x, closed P (A x)) -> closed P (fun w => forall x, A x w).
Proof.
  intros HA. constructor.
  - intros e w H x. apply (c_emit _ _ (HA x)); auto.
  - intros c w H x. apply (c_prim _ _ (HA x)); auto.
  - intros o a w H x. apply (c_act _ _ (HA x)); auto.
  - intros c w t su cl w' H E x. eapply (c_prepare _ _ (HA x)); eauto.
  - intros e r w H E x. apply (c_gc _ _ (HA x)); auto.
  - intros w H x. apply (c_poll _ _ (HA x)); auto.
  - intros su t w w' H E x. eapply (c_setup _ _ (HA x)); eauto.
  - intros cl w H x. apply (c_cleanup _ _ (HA x)); auto.
  - intros b w H x. apply (c_buffer _ _ (HA x)); auto.
  - intros n w H x. apply (c_counter _ _ (HA x)); auto.
  - intros t b w H x. apply (c_storage _ _ (HA x)); auto.
  - intros t k w H E x. apply (c_dropped _ _ (HA x)); auto.
  - intros t k w H E x. apply (c_missing _ _ (HA x)); auto.
  - intros t w H x. apply (c_despawn _ _ (HA x)); auto.
  - intros t cb b w H E Eb x. apply (c_cbbump _ _ (HA x)); auto.
  - intros t tk w H x. apply (c_oncefin _ _ (HA x)); auto.
  - intros sd t r c w HG H x. apply (c_body _ _ (HA x)); auto.
  - intros w H x. apply (c_clear _ _ (HA x)); auto.
Qed.
