(* DropSpec.v — C13 / C07: the state of a system (its boxed callback and what it captured) is dropped at most once, and a
   record that is still live has not been dropped.  g_sdrops gets one entry per drop of a live state (drop_callback,
   once_finish). *)
From Cobweb Require Import Machine.
From CobwebProofs Require Import ListLemmas Closed RunnerInv Frames OnceInv.

Definition dv (w : world) := (g_sdrops w, cbs w, spawned w).
Definition dcount (t : ent) (w : world) : nat := count_occ N.eq_dec (g_sdrops w) t.
Definition DInv (t : ent) (w : world) : Prop :=
  (dcount t w <= 1)%nat /\
  (dcount t w = 1%nat -> forall cb, alookup t (cbs w) = Some cb -> cb_live cb = false) /\
  (~ In t (spawned w) -> dcount t w = O /\ alookup t (cbs w) = None) /\
  (forall cb, alookup t (cbs w) = Some cb -> cb_live cb = false -> cb_once cb <> None /\ cb_taken cb = true).
Lemma dv_parts a b : dv a = dv b -> g_sdrops a = g_sdrops b /\ cbs a = cbs b /\ spawned a = spawned b.
Proof. unfold dv. intros H. inversion H. auto. Qed.
Lemma D_dv t w w' : dv w' = dv w -> DInv t w -> DInv t w'.
Proof. intros H. destruct (dv_parts _ _ H) as (E1 & E2 & E3). unfold DInv, dcount. rewrite E1, E2, E3. auto. Qed.
Ltac dv_eq H := eapply D_dv; [|exact H]; reflexivity.

Lemma dv_handle_drop h w : dv (handle_drop h w) = dv w.
Proof.
  destruct h as [s|g s]; cbn; [reflexivity|]. unfold sig_drop.
  destruct (alookup g (sigs w)) as [[e n]|]; [|reflexivity]. destruct (N.leb n 1); reflexivity.
Qed.
Lemma dv_handle_clone h w : dv (handle_clone h w) = dv w.
Proof. destruct h as [s|g s]; cbn; [reflexivity|]. unfold sig_clone. destruct (alookup g (sigs w)) as [[e n]|]; reflexivity. Qed.
Lemma dv_handles_drop hs : forall w, dv (handles_drop hs w) = dv w.
Proof. induction hs as [|h hs IH]; intros w; cbn; [reflexivity|]. rewrite IH. apply dv_handle_drop. Qed.
Lemma dv_push_removed_all cs e : forall w, dv (push_removed_all cs e w) = dv w.
Proof. induction cs as [|c cs IH]; intros w; cbn; [reflexivity|]. rewrite IH. reflexivity. Qed.
Lemma dv_drop_ddata d w : dv (drop_ddata d w) = dv w.
Proof. destruct d as [? ? ?|? ? ? ?|? [?|]]; reflexivity. Qed.
Lemma dv_take_sysevents tys : forall w, dv (snd (take_sysevents tys w)) = dv w.
Proof.
  induction tys as [|ty r IH]; intros w; cbn [take_sysevents]; [reflexivity|].
  destruct (peek_sysevent ty w) as [p|]; [|apply IH].
  match goal with |- context [take_sysevents r ?w1] => specialize (IH w1); destruct (take_sysevents r w1) end. exact IH.
Qed.
Lemma dv_sample_readers sd x w : dv (snd (sample_readers sd x w)) = dv w.
Proof.
  unfold sample_readers. pose proof (dv_take_sysevents TYPES w) as H1.
  destruct (sd_take sd); [destruct (take_sysevents TYPES w) as [s w1]; exact H1|reflexivity].
Qed.
Lemma dv_revoke_one s t w : dv (revoke_one s t w) = dv w.
Proof.
  assert (Hent : forall e rt, dv (if is_alive e w then
             match alookup e (ereactors w) with
             | Some l => let (d, k) := er_remove rt s l in handles_drop d (w <| ereactors := aset e k (ereactors w) |>)
             | None => w end else w) = dv w).
  { intros e rt. destruct (is_alive e w); [|reflexivity]. destruct (alookup e (ereactors w)) as [l|]; [|reflexivity].
    destruct (er_remove rt s l) as [d k]. rewrite dv_handles_drop. reflexivity. }
  assert (Hcomp : forall kd c, dv (comp_revoke kd c s w) = dv w).
  { intros kd c. unfold comp_revoke. destruct (alookup c (comp_tbl w)) as [[[i m] r]|]; [|reflexivity].
    destruct (remove_first s match kd with KIns => i | KMut => m | KRem => r end) as [o l'].
    destruct (match kd with KIns => (l', m, r) | KMut => (i, l', r) | KRem => (i, m, l') end) as [[i' m'] r'].
    destruct o as [h|]; [rewrite dv_handle_drop|]; (destruct i'; [destruct m'; [destruct r'|]|]); reflexivity. }
  destruct t; cbn [revoke_one]; try apply Hent; try apply Hcomp.
  - destruct (tbl_revoke ty s (bc_tbl w)) as [o t']. destruct o; [rewrite dv_handle_drop|]; reflexivity.
  - destruct (tbl_revoke ty s (any_tbl w)) as [o t']. destruct o; [rewrite dv_handle_drop|]; reflexivity.
  - destruct (tbl_revoke r s (res_tbl w)) as [o t']. destruct o; [rewrite dv_handle_drop|]; reflexivity.
  - destruct (tbl_revoke e s (desp_tbl w)) as [o t']. destruct o; [rewrite dv_handle_drop|]; reflexivity.
Qed.
Lemma dv_revoke_all s ts : forall w, dv (revoke_all s ts w) = dv w.
Proof. induction ts as [|t ts IH]; intros w; cbn; [reflexivity|]. rewrite IH. apply dv_revoke_one. Qed.
Lemma dv_reg_triggers_cmds h ts : forall w, dv (fst (reg_triggers_cmds h ts w)) = dv w.
Proof.
  induction ts as [|t ts IH]; intros w; cbn [reg_triggers_cmds]; [reflexivity|].
  destruct (reg_trigger_cmds h t w) as [w1 c1] eqn:E1. destruct (reg_triggers_cmds h ts w1) as [w2 c2] eqn:E2. cbn [fst].
  assert (H1 : dv w1 = dv w).
  { destruct t; cbn in E1; try (inversion E1; subst; apply dv_handle_clone).
    destruct (is_alive e w); inversion E1; subst; [apply dv_handle_clone|reflexivity]. }
  specialize (IH w1). rewrite E2 in IH. cbn [fst] in IH. congruence.
Qed.
Lemma dv_poll_despawns chan : forall w, dv (fst (poll_despawns chan w)) = dv w.
Proof.
  induction chan as [|e r IH]; intros w; cbn [poll_despawns]; [reflexivity|].
  specialize (IH (w <| desp_tbl := aremove e (desp_tbl w) |>)). destruct (poll_despawns r _) as [w2 cs]. exact IH.
Qed.
Lemma dv_poll w : dv (fst (poll w)) = dv w.
Proof.
  unfold poll. destruct (poll_removals (removal_checkers w) w) as [chk c1].
  pose proof (dv_poll_despawns (despawn_chan (w <| removal_checkers := chk |>)) ((w <| removal_checkers := chk |>) <| despawn_chan := [] |>)) as H.
  destruct (poll_despawns _ _) as [w2 c2]. exact H.
Qed.
Lemma dv_comp_push kd c h w : dv (comp_push kd c h w) = dv w.
Proof. unfold comp_push. destruct (alookup c (comp_tbl w)) as [[[i m] r]|]; destruct kd; reflexivity. Qed.
Lemma dv_dsp_comps e w : dv (dsp_comps e w) = dv w.
Proof. unfold dsp_comps. etransitivity; [|apply (dv_push_removed_all (comps_of e (comps w)) e w)]. reflexivity. Qed.
Lemma dv_dsp_ereactors e w : dv (dsp_ereactors e w) = dv w.
Proof.
  unfold dsp_ereactors. destruct (alookup e (ereactors w)) as [l|]; [|reflexivity].
  etransitivity; [|apply (dv_handles_drop (map snd l) w)]. reflexivity.
Qed.
Lemma dv_dsp_tracker e w : dv (dsp_tracker e w) = dv w.
Proof. unfold dsp_tracker. destruct (memN e (dtrackers w)); reflexivity. Qed.
Lemma dv_dsp_data e w : dv (dsp_data e w) = dv w.
Proof.
  unfold dsp_data. destruct (alookup e (dataents w)) as [d|]; [|reflexivity].
  etransitivity; [|apply (dv_drop_ddata d w)]. reflexivity.
Qed.
Lemma dv_dsp_alive e w : dv (dsp_alive e w) = dv w. Proof. reflexivity. Qed.
Lemma dv_dsp_xlocals e w : dv (dsp_xlocals e w) = dv w. Proof. reflexivity. Qed.
Lemma dv_reserve id w : dv (reserve id w) = dv w.
Proof. unfold reserve, bind_id. destruct (memN id (bound w)); reflexivity. Qed.

(* dropping the callback of e *)
Lemma D_drop_callback t e w : DInv t w -> DInv t (drop_callback e w).
Proof.
  intros HD. pose proof HD as (D1 & D2 & D3 & D4). unfold drop_callback. destruct (alookup e (cbs w)) as [cb|] eqn:Ecb; [|exact HD].
  destruct (N.eq_dec t e) as [->|Hne].
  - (* the record of t itself goes *)
    assert (Hnone : forall w', cbs w' = aremove e (cbs w) -> alookup e (cbs w') = None) by (intros w' ->; apply alookup_aremove_same).
    destruct (cb_live cb) eqn:El.
    + assert (Hk : dcount e w = O).
      { destruct (dcount e w) as [|[|k]] eqn:Ek; [reflexivity| |lia]. specialize (D2 eq_refl cb Ecb). congruence. }
      unfold DInv, dcount in *. cbn [g_sdrops cbs spawned set emit count_occ]. destruct (N.eq_dec e e) as [_|Hc]; [|contradiction]. rewrite Hk.
      rewrite alookup_aremove_same. split; [lia|]. split; [intros _ cb0 H0; discriminate H0|]. split; [|intros cb0 H0; discriminate H0].
      intros Hn. destruct (D3 Hn) as [_ Hc]. congruence.
    + unfold DInv, dcount in *. cbn [g_sdrops cbs spawned set]. rewrite alookup_aremove_same. split; [exact D1|]. split; [intros _ cb0 H0; discriminate H0|].
      split; [|intros cb0 H0; discriminate H0]. intros Hn. destruct (D3 Hn) as [Hz _]. auto.
  - (* another system's record *)
    assert (Hcnt : forall l : list N, count_occ N.eq_dec (e :: l) t = count_occ N.eq_dec l t) by (intros l; cbn [count_occ]; destruct (N.eq_dec e t); [congruence|reflexivity]).
    destruct (cb_live cb); unfold DInv, dcount in *; cbn [g_sdrops cbs spawned set emit]; rewrite ?Hcnt, (alookup_aremove_other _ _ _ Hne); auto.
Qed.
Lemma D_dsp_storage t e w : DInv t w -> DInv t (dsp_storage e w).
Proof.
  intros H. unfold dsp_storage. destruct (alookup e (storage w)) as [[|]|]; try (dv_eq H).
  eapply D_dv; [|apply (D_drop_callback t e w H)]. reflexivity.
Qed.
Lemma D_despawn t e w : DInv t w -> DInv t (despawn e w).
Proof.
  intros H. unfold despawn. destruct (negb (is_alive e w)); [exact H|].
  eapply D_dv; [apply dv_dsp_xlocals|]. eapply D_dv; [apply dv_dsp_data|]. eapply D_dv; [apply dv_dsp_tracker|]. eapply D_dv; [apply dv_dsp_ereactors|].
  apply D_dsp_storage. eapply D_dv; [apply dv_dsp_comps|]. eapply D_dv; [apply dv_dsp_alive|exact H].
Qed.
Lemma D_try_cleanup t d w : DInv t w -> DInv t (try_cleanup_data_entity d w).
Proof.
  intros H. unfold try_cleanup_data_entity. destruct (negb (is_alive d w)); [exact H|].
  destruct (alookup d (dataents w)) as [[ty p cnt|ty t0 p cnt|ty p]|]; try exact H.
  - match goal with |- DInv t (if ?b then despawn d ?w1 else ?w1) => destruct b; [apply D_despawn|]; dv_eq H end.
  - match goal with |- DInv t (if ?b then despawn d ?w1 else ?w1) => destruct b; [apply D_despawn|]; dv_eq H end.
Qed.
Lemma D_run_cleanup t cl w : DInv t w -> DInv t (run_cleanup cl w).
Proof.
  intros H. destruct cl; cbn [run_cleanup].
  - exact H.
  - apply D_despawn. dv_eq H.
  - dv_eq H.
  - destruct (snd (cur (tr_de w))) as [h|]; [eapply D_dv; [apply dv_handle_drop|]|]; dv_eq H.
  - apply D_try_cleanup. dv_eq H.
  - apply D_try_cleanup. dv_eq H.
Qed.
(* installing a fresh record for a system that was never installed *)
Lemma D_fresh t s o w : ~ In s (spawned w) -> DInv t w ->
  DInv t (w <| storage := aset s true (storage w) |> <| cbs := aset s (mkCb o 0 0 false true) (cbs w) |> <| spawned ::= cons s |>).
Proof.
  intros Hs (D1 & D2 & D3 & D4). unfold DInv, dcount in *. cbn [g_sdrops cbs spawned set].
  destruct (N.eq_dec t s) as [->|Hne].
  - destruct (D3 Hs) as [Hz _]. rewrite Hz, alookup_aset_same. split; [lia|]. split; [discriminate|]. split; [intros Hn; exfalso; apply Hn; left; reflexivity|].
    intros cb H0 Hl. inversion H0; subst. discriminate Hl.
  - rewrite (alookup_aset_other _ _ _ _ Hne). split; [exact D1|]. split; [exact D2|]. split; [|exact D4].
    intros Hn. apply D3. intros Hin. apply Hn. right. exact Hin.
Qed.
(* an update of the record of t0 that keeps it live, or keeps liveness and the once flags *)
Lemma D_upd_live t t0 cb0 cb1 w : alookup t0 (cbs w) = Some cb0 -> cb_live cb1 = true -> (cb_live cb0 = true) ->
  DInv t w -> DInv t (w <| cbs := aupd t0 cb1 (cbs w) |>).
Proof.
  intros E0 Hl1 Hl0 (D1 & D2 & D3 & D4). unfold DInv, dcount in *. cbn [g_sdrops cbs spawned set].
  destruct (N.eq_dec t t0) as [->|Hne].
  - rewrite alookup_aupd_same, E0. split; [exact D1|]. split.
    + intros Hk cb H0. specialize (D2 Hk cb0 E0). congruence.
    + split; [intros Hn; destruct (D3 Hn) as [_ Hc]; congruence|]. intros cb H0 Hl. inversion H0; subst. congruence.
  - rewrite (alookup_aupd_other _ _ _ _ Hne). auto.
Qed.
Lemma D_upd_other t t0 cb1 w : t <> t0 -> DInv t w -> DInv t (w <| cbs := aupd t0 cb1 (cbs w) |>).
Proof.
  intros Hne (D1 & D2 & D3 & D4). unfold DInv, dcount in *. cbn [g_sdrops cbs spawned set]. rewrite (alookup_aupd_other _ _ _ _ Hne). auto.
Qed.
Lemma D_upd_same t t0 cb0 cb1 w : alookup t0 (cbs w) = Some cb0 -> cb_live cb1 = cb_live cb0 -> cb_once cb1 = cb_once cb0 -> cb_taken cb1 = cb_taken cb0 ->
  DInv t w -> DInv t (w <| cbs := aupd t0 cb1 (cbs w) |>).
Proof.
  intros E0 Hl Ho Ht (D1 & D2 & D3 & D4). unfold DInv, dcount in *. cbn [g_sdrops cbs spawned set].
  destruct (N.eq_dec t t0) as [->|Hne].
  - rewrite alookup_aupd_same, E0. split; [exact D1|]. split.
    + intros Hk cb H0. inversion H0; subst. rewrite Hl. apply (D2 Hk cb0 E0).
    + split; [intros Hn; destruct (D3 Hn) as [_ Hc]; congruence|]. intros cb H0 Hl'. inversion H0; subst. rewrite Ho, Ht. apply (D4 cb0 E0). congruence.
  - rewrite (alookup_aupd_other _ _ _ _ Hne). auto.
Qed.

Section DSteps.
Variable P : program.
Lemma dv_act o a w : dv (fst (act P o a w)) = dv w.
Proof.
  destruct a; cbn [act];
  repeat match goal with
         | |- context [if ?b then _ else _] => destruct b
         | |- context [match alookup2 ?a ?b ?c with _ => _ end] => destruct (alookup2 a b c)
         | |- context [match alookup ?a ?c with _ => _ end] => destruct (alookup a c) as [[? ?]|]
         | |- context [match ?m with Persistent => _ | _ => _ end] => destruct m
         end; cbn [fst]; try reflexivity; try apply dv_reserve.
  all: try (destruct (alookup wr (p_wr P)); reflexivity).
  all: try (change (dv (reserve s w) = dv w); apply dv_reserve).
Qed.
Lemma D_prim t c w : DInv t w -> DInv t (fst (apply_prim P c w)).
Proof.
  intros H. destruct c; cbn [apply_prim]; try exact H; try (dv_eq H).
  - destruct (is_alive d w); dv_eq H.
  - destruct (tbl_get ty (bc_tbl w)); cbn [fst]; dv_eq H.
  - destruct (entity_targets e (REvent ty) w ++ map handle_sys (tbl_get ty (any_tbl w))); cbn [fst]; dv_eq H.
  - match goal with |- context [if ?b then _ else _] => destruct b end; cbn [fst]; first [exact H | dv_eq H].
  - destruct (is_alive e w); dv_eq H.
  - cbn [fst]. destruct (is_alive e w); [|exact H]. destruct (alookup2 c e (comps w)); [|exact H]. dv_eq H.
  - apply D_despawn. exact H.
  - apply D_despawn. exact H.
  - cbn [fst]. destruct (is_alive s w && negb (memN s (spawned w))) eqn:E; [|exact H].
    apply andb_true_iff in E. destruct E as [_ E]. apply negb_true_iff, memN_false in E. apply D_fresh; assumption.
  - cbn [fst]. destruct (negb (is_alive s w)); [dv_eq H|]. destruct (negb (memN s (spawned w))) eqn:E; [|exact H].
    apply negb_true_iff, memN_false in E. apply D_fresh; assumption.
  - eapply D_dv; [|exact H].
    assert (Hh : forall h w0, dv (fst (let (w1, cs) := reg_triggers_cmds h b w0 in (handle_drop h w1, cs))) = dv w0).
    { intros h w0. pose proof (dv_reg_triggers_cmds h b w0) as H1. destruct (reg_triggers_cmds h b w0) as [w1 cs]. cbn [fst] in *.
      rewrite dv_handle_drop. exact H1. }
    destruct m; [apply Hh| |]; (unfold sig_new; rewrite Hh; reflexivity).
  - eapply D_dv; [|exact H]. destruct t0; cbn [fst]; try apply dv_handle_drop; try reflexivity.
    + apply dv_comp_push.
    + apply dv_comp_push.
    + rewrite dv_comp_push. unfold track_removals. destruct (ahas c (removal_checkers w)); reflexivity.
  - eapply D_dv; [|exact H]. destruct (is_alive e w); [destruct (alookup e (ereactors w)); reflexivity|apply dv_handle_drop].
  - eapply D_dv; [|exact H]. unfold track_removals. destruct (ahas c (removal_checkers w)); reflexivity.
  - eapply D_dv; [|exact H]. destruct (is_alive e w); [|apply dv_handle_drop].
    match goal with |- context [if ?b then _ else _] => destruct b end; reflexivity.
  - destruct tk as [ts s]. eapply D_dv; [apply dv_revoke_all|exact H].
  - apply D_run_cleanup. exact H.
  - destruct (alookup x (p_xr P)) as [[s shape]|]; [destruct (is_alive e w)|]; exact H.
  - destruct (alookup x (p_xr P)) as [[s shape]|]; exact H.
  - destruct (is_alive e w); first [exact H | dv_eq H].
  - cbn [fst]. destruct (is_alive e w); [|exact H]. destruct (alookup e (ereactors w)); [|exact H].
    match goal with |- context [if ?b then _ else _] => destruct b end; first [exact H | dv_eq H].
  - eapply D_dv; [apply dv_poll|exact H].
Qed.

Lemma DInv_closed t : closed P (DInv t).
Proof.
  constructor.
  - intros e w H. dv_eq H.
  - intros c w H. apply D_prim. exact H.
  - intros o a w H. eapply D_dv; [apply dv_act|exact H].
  - intros c w t0 su cl w' H E. eapply D_dv; [|exact H].
    destruct c; try discriminate E; cbn in E; try (inversion E; subst; reflexivity). destruct r; inversion E; subst; reflexivity.
  - intros e r w H _. unfold gc_step. apply D_despawn. dv_eq H.
  - intros w H. eapply D_dv; [apply dv_poll|exact H].
  - intros su t0 w w' H E. eapply D_dv; [|exact H].
    destruct su; cbn [run_setup] in E; repeat match type of E with match ?x with _ => _ end = _ => destruct x; try discriminate E end; inversion E; subst; reflexivity.
  - intros cl w H. apply D_run_cleanup. exact H.
  - intros b w H. exact H.
  - intros n w H. exact H.
  - intros t0 b w H. dv_eq H.
  - intros t0 k w H _. unfold rn_dropped. eapply D_dv; [|apply (D_drop_callback t t0 w H)]. reflexivity.
  - intros t0 k w H _. unfold rn_despawn_missing. eapply D_dv; [|apply (D_despawn t t0 (drop_callback t0 w)); apply D_drop_callback; exact H]. reflexivity.
  - intros t0 w H. apply D_despawn. exact H.
  - (* marking: a record that is not live is a spent once wrapper, which is never marked again *)
    intros t0 cb b w H Hcb Hb. unfold cb_bump. destruct (N.eq_dec t t0) as [->|Hne]; [|apply D_upd_other; assumption].
    destruct (cb_live cb) eqn:El; [eapply D_upd_live; [exact Hcb|reflexivity|exact El|exact H]|].
    exfalso. destruct H as (_ & _ & _ & D4). destruct (D4 cb Hcb El) as [Ho Ht]. unfold bump_ok in Hb.
    destruct (cb_once cb); [|contradiction]. rewrite Ht in Hb. apply andb_true_iff in Hb. destruct Hb as [_ Hb]. discriminate Hb.
  - (* the once wrapper finishes: its inner system is dropped, once *)
    intros t0 tk w H. unfold once_finish. destruct (alookup t0 (cbs w)) as [cb'|] eqn:Ecb; [|exact H].
    destruct (N.eq_dec t t0) as [->|Hne].
    + destruct H as (D1 & D2 & D3 & D4). unfold DInv, dcount in *. cbn [g_sdrops cbs spawned set emit]. rewrite alookup_aupd_same, Ecb.
      destruct (cb_once cb') as [tk'|] eqn:Eo; cbn [andb].
      * destruct (cb_live cb') eqn:El.
        -- assert (Hk : count_occ N.eq_dec (g_sdrops w) t0 = O).
           { destruct (count_occ N.eq_dec (g_sdrops w) t0) as [|[|k]] eqn:Ek; [reflexivity| |lia]. specialize (D2 eq_refl cb' Ecb). congruence. }
           cbn [count_occ]. destruct (N.eq_dec t0 t0) as [_|Hc]; [|contradiction]. rewrite Hk.
           split; [lia|]. split; [intros _ cb H0; inversion H0; reflexivity|]. split; [intros Hn; destruct (D3 Hn) as [_ Hc]; congruence|].
           intros cb H0 _. inversion H0; subst. cbn. split; [discriminate|reflexivity].
        -- split; [exact D1|]. split; [intros _ cb H0; inversion H0; reflexivity|]. split; [intros Hn; destruct (D3 Hn) as [_ Hc]; congruence|].
           intros cb H0 _. inversion H0; subst. cbn. split; [discriminate|reflexivity].
      * split; [exact D1|]. split; [intros Hk cb H0; inversion H0; subst; cbn; apply (D2 Hk cb' Ecb)|]. split; [intros Hn; destruct (D3 Hn) as [_ Hc]; congruence|].
        intros cb H0 Hl. inversion H0; subst. cbn in Hl |- *. destruct (D4 cb' Ecb Hl) as [Ho _]. congruence.
    + destruct H as (D1 & D2 & D3 & D4). unfold DInv, dcount in *. cbn [g_sdrops cbs spawned set emit]. rewrite (alookup_aupd_other _ _ _ _ Hne).
      assert (Hcnt : count_occ N.eq_dec (if match cb_once cb' with Some _ => true | None => false end && cb_live cb' then t0 :: g_sdrops w else g_sdrops w) t = count_occ N.eq_dec (g_sdrops w) t).
      { destruct (match cb_once cb' with Some _ => true | None => false end && cb_live cb'); [|reflexivity]. cbn [count_occ]. destruct (N.eq_dec t0 t); [congruence|reflexivity]. }
      unfold ent in *. rewrite Hcnt. auto.
  - (* the body keeps liveness and the once flags *)
    intros sd t0 r c w _ H. unfold body_begin.
    assert (Hs : dv (body_sample P sd t0 r c w) = dv w).
    { unfold body_sample. pose proof (dv_sample_readers sd (xsys_of P t0) w) as H1.
      destruct (sample_readers sd (xsys_of P t0) w) as [sm w1]. cbn [snd] in H1.
      destruct (sm_l sm) as [[src [v|]]|]; try exact H1. destruct (xsys_of P t0) as [[x ?]|]; exact H1. }
    assert (H0 : DInv t (body_sample P sd t0 r c w)) by (eapply D_dv; eauto).
    unfold state_bump. destruct (alookup t0 (cbs (body_sample P sd t0 r c w))) as [cb0|] eqn:Ecb; [|exact H0].
    eapply D_upd_same; [exact Ecb|reflexivity|reflexivity|reflexivity|exact H0].
  - intros w H. exact H.
Qed.
Lemma DInv_init t : DInv t (install_static P init_world).
Proof.
  set (J := fun w : world => g_sdrops w = [] /\ (forall t cb, alookup t (cbs w) = Some cb -> cb_live cb = true) /\ (forall t, ~ In t (spawned w) -> alookup t (cbs w) = None)).
  assert (Hgen : forall l w, J w -> J (fold_left (fun w s => (reserve s w) <| storage ::= aset s true |> <| cbs ::= aset s (mkCb None 0 0 false true) |> <| spawned ::= cons s |>) l w)).
  { induction l as [|s l IH]; intros w HJ; cbn [fold_left]; [exact HJ|]. apply IH. destruct HJ as (J1 & J2 & J3).
    destruct (dv_parts _ _ (dv_reserve s w)) as (E1 & E2 & E3).
    split; [|split]; cbn [g_sdrops cbs spawned set].
    - rewrite E1. exact J1.
    - intros t0 cb Hcb. rewrite E2 in Hcb. destruct (N.eq_dec t0 s) as [->|Hne]; [rewrite alookup_aset_same in Hcb; inversion Hcb; reflexivity|].
      rewrite alookup_aset_other in Hcb by exact Hne. eapply J2; eauto.
    - intros t0 Hn. rewrite E2. rewrite E3 in Hn. destruct (N.eq_dec t0 s) as [->|Hne]; [exfalso; apply Hn; left; reflexivity|].
      rewrite alookup_aset_other by exact Hne. apply J3. intros Hin. apply Hn. right. exact Hin. }
  destruct (Hgen (map snd (p_wr P) ++ map (fun x => fst (snd x)) (p_xr P)) init_world) as (J1 & J2 & J3).
  { split; [reflexivity|]. split; [intros t0 cb Hcb; discriminate Hcb|reflexivity]. }
  unfold DInv, dcount, install_static. rewrite J1. cbn [count_occ]. split; [lia|]. split; [discriminate|]. split; [intros Hn; split; [reflexivity|apply J3; exact Hn]|].
  intros cb Hcb Hl. rewrite (J2 _ _ Hcb) in Hl. discriminate Hl.
Qed.
(* over whole runs: every system's state is dropped at most once, and a record that is still live was never dropped *)
Theorem state_dropped_at_most_once fuel w' : run P fuel = Ok w' -> forall t, DInv t w'.
Proof. intros E t. unfold run in E. eapply run_tops_closed; [apply DInv_closed|apply DInv_init|exact E]. Qed.
Theorem DInv_exec t fuel i w w' : DInv t w -> exec P fuel i w = Ok w' -> DInv t w'.
Proof. apply exec_closed. apply DInv_closed. Qed.
End DSteps.
