(* OrderSpec.v — C09 / C12: the order in which queued commands take effect.  The interpreter is big-step: the execution
   of a command includes everything it transitively causes; what remains to be shown is that effects are laid down in
   that order (the log is append-only, LogSpec) and what the runner does with commands whose target is executing. *)
From Cobweb Require Import Machine.
From CobwebProofs Require Import ListLemmas Closed LogSpec.

Section Order.
Variable P : program.

(* commands queued by one system take effect in the order queued; the first one, with everything it causes, logs the
   block l1 before the rest logs anything (l2) *)
Theorem commands_telescope f c cs w w' : exec P (S f) (IApplyList (c :: cs)) w = Ok w' ->
  exists w1 l1 l2, exec P f (IApply c) w = Ok w1 /\ exec P f (IApplyList cs) w1 = Ok w'
                   /\ log w1 = log w ++ l1 /\ log w' = log w ++ l1 ++ l2.
Proof.
  intros E. cbn [exec] in E. destruct (exec P f (IApply c) w) as [w1| |] eqn:E1; cbn [bind] in E; try discriminate E.
  destruct (exec_log_extends P f _ _ _ E1) as [l1 H1]. destruct (exec_log_extends P f _ _ _ E) as [l2 H2].
  exists w1, l1, l2. split; [reflexivity|]. split; [exact E|]. split; [exact H1|]. rewrite H2, H1, app_assoc. reflexivity.
Qed.
(* system commands, system events and reactions enter the runner in-line, when they are applied *)
Theorem runner_commands_run_inline f c w t su cl w0 : prepare_cmd c w = Some (t, su, cl, w0) ->
  exec P (S f) (IApply c) w = exec P f (IRunner t su cl) w0.
Proof. intros H. cbn [exec]. rewrite H. reflexivity. Qed.
(* every other command is applied and the commands it produces (reaction commands of a trigger, registrations, ...)
   are executed right away, before the next queued command *)
Theorem plain_commands_and_their_consequences_inline f c w : prepare_cmd c w = None ->
  (forall s, c <> CSpawnSys s) -> c <> CGC ->
  exec P (S f) (IApply c) w = exec P f (IApplyList (snd (apply_prim P c w))) (fst (apply_prim P c w)).
Proof.
  intros H Hs Hg. cbn [exec]. rewrite H. destruct c; try (destruct (apply_prim P _ w); reflexivity); [exfalso; eapply Hs; reflexivity|congruence].
Qed.

(* a postponed command goes to the back of the buffer *)
Theorem postponed_commands_queue_up t su cl w : buffer (rn_postpone t su cl w) = buffer w ++ [mkBuf t su cl].
Proof. reflexivity. Qed.
(* the replay that follows the run of t: front to back; commands for t run at once, in their order; the others are kept,
   in their order; what the replayed runs postponed themselves ends up in front of the kept ones *)
Theorem replay_step f t b pending kept w :
  exec P (S f) (IReplay t (b :: pending) kept) w =
  if N.eqb (b_sys b) t then bind (exec P f (IRunner (b_sys b) (b_setup b) (b_cleanup b)) w) (fun w => exec P f (IReplay t pending kept) w)
  else exec P f (IReplay t pending (kept ++ [b])) w.
Proof. reflexivity. Qed.
Theorem replay_end f t kept w : exec P (S f) (IReplay t [] kept) w = Ok (w <| buffer ::= fun b => b ++ kept |>).
Proof. reflexivity. Qed.
Theorem replay_keeps_the_others_in_order t : forall pending kept w f, (forall b, In b pending -> b_sys b <> t) ->
  (length pending < f)%nat -> exec P f (IReplay t pending kept) w = Ok (w <| buffer ::= fun b => b ++ kept ++ pending |>).
Proof.
  induction pending as [|b r IH]; intros kept w f Hn Hf; (destruct f as [|f]; [cbn in Hf; lia|]).
  - cbn [exec]. rewrite app_nil_r. reflexivity.
  - cbn [exec]. destruct (N.eqb (b_sys b) t) eqn:E; [apply N.eqb_eq in E; exfalso; apply (Hn b); [left; reflexivity|exact E]|].
    rewrite IH; [|intros b0 Hb0; apply Hn; right; exact Hb0|cbn in Hf; lia]. rewrite <- app_assoc. reflexivity.
Qed.

(* tickets are drawn in the order in which commands are applied *)
Theorem tickets_follow_application_order c w t su cl w1 : prepare_cmd c w = Some (t, su, cl, w1) ->
  su = SuDefault /\ ticket_ctr w1 = ticket_ctr w \/ setup_ticket su = ticket_ctr w + 1 /\ ticket_ctr w1 = ticket_ctr w + 1.
Proof.
  intros E. destruct c; try discriminate E; cbn [prepare_cmd] in E.
  - inversion E; subst. left. auto.
  - unfold fresh_ticket in E. inversion E; subst. right. split; reflexivity.
  - destruct r; unfold fresh_ticket in E; inversion E; subst; [left; auto|right; split; reflexivity..].
Qed.
End Order.

(* the whole command list: the log of the list is the concatenation, in list order, of the blocks logged by the single
   commands (each block containing everything that command transitively caused) *)
Section Blocks.
Variable P : program.
Theorem command_list_logs_blocks_in_order : forall cs f w w', exec P f (IApplyList cs) w = Ok w' ->
  exists blocks, length blocks = length cs /\ log w' = log w ++ concat blocks.
Proof.
  induction cs as [|c cs IH]; intros f w w' E; (destruct f as [|f]; [discriminate E|]).
  - cbn [exec] in E. inversion E; subst. exists []. split; [reflexivity|]. cbn. rewrite app_nil_r. reflexivity.
  - destruct (commands_telescope P f c cs w w' E) as (w1 & l1 & l2 & E1 & E2 & H1 & H2).
    destruct (IH f w1 w' E2) as (bs & Hlen & Hlog). exists (l1 :: bs). split; [cbn; rewrite Hlen; reflexivity|].
    cbn [concat]. rewrite Hlog, H1, app_assoc. reflexivity.
Qed.
End Blocks.
