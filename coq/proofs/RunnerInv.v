(* RunnerInv.v — the stack/buffer/counter invariant of syscommand_runner with a ghost calling context.
   A = systems whose runner frame is below the current instruction (their callback is taken);
   B ⊇ A = systems that postponed commands sitting in the world buffer may target. *)
From Cobweb Require Import Machine.
From CobwebProofs Require Import ListLemmas Closed.

(* ---------- how the storage map may change in one atomic step outside the runner's own bookkeeping ---------- *)
Definition rview (w : world) := (counter w, buffer w, storage w, spawned w).

Definition evolves (w w' : world) : Prop :=
  counter w' = counter w /\ buffer w' = buffer w /\ incl (spawned w) (spawned w') /\
  forall t, alookup t (storage w') = alookup t (storage w) \/ alookup t (storage w') = None
            \/ (alookup t (storage w') = Some true /\ ~ In t (spawned w) /\ In t (spawned w')).

Lemma evolves_refl w : evolves w w.
Proof. repeat split; auto using incl_refl. Qed.
Lemma evolves_rview w w' : rview w' = rview w -> evolves w w'.
Proof.
  unfold rview. intros H. inversion H as [[H1 H2 H3 H4]]. split; [exact H1|]. split; [exact H2|]. split; [rewrite H4; apply incl_refl|].
  intros t. left. now rewrite H3.
Qed.
Lemma evolves_trans w1 w2 w3 : evolves w1 w2 -> evolves w2 w3 -> evolves w1 w3.
Proof.
  intros (C1 & B1 & S1 & T1) (C2 & B2 & S2 & T2). repeat split; try congruence.
  - eapply incl_tran; eauto.
  - intros t. destruct (T2 t) as [E|[E|(E & Hn & Hi)]].
    + rewrite E. destruct (T1 t) as [E1|[E1|(E1 & Hn1 & Hi1)]]; auto. right. right. repeat split; auto.
    + auto.
    + right. right. repeat split; auto.
Qed.

(* ---------- atomic steps ---------- *)
Ltac rv := apply evolves_rview; reflexivity.

Lemma rview_handle_drop h w : rview (handle_drop h w) = rview w.
Proof.
  destruct h as [s|g s]; cbn; [reflexivity|]. unfold sig_drop.
  destruct (alookup g (sigs w)) as [[e n]|]; [|reflexivity]. destruct (N.leb n 1); reflexivity.
Qed.
Lemma rview_handle_clone h w : rview (handle_clone h w) = rview w.
Proof. destruct h as [s|g s]; cbn; [reflexivity|]. unfold sig_clone. destruct (alookup g (sigs w)) as [[e n]|]; reflexivity. Qed.
Lemma rview_handles_drop hs : forall w, rview (handles_drop hs w) = rview w.
Proof. induction hs as [|h hs IH]; intros w; cbn; [reflexivity|]. rewrite IH. apply rview_handle_drop. Qed.
Lemma rview_push_removed_all cs e : forall w, rview (push_removed_all cs e w) = rview w.
Proof. induction cs as [|c cs IH]; intros w; cbn; [reflexivity|]. rewrite IH. reflexivity. Qed.
Lemma rview_drop_callback t w : rview (drop_callback t w) = rview w.
Proof. unfold drop_callback. destruct (alookup t (cbs w)) as [cb|]; [destruct (cb_live cb)|]; reflexivity. Qed.
Lemma rview_drop_ddata d w : rview (drop_ddata d w) = rview w.
Proof. destruct d as [? ? ?|? ? ? ?|? [?|]]; reflexivity. Qed.

Lemma evolves_despawn e w : evolves w (despawn e w).
Proof.
  unfold despawn. destruct (negb (is_alive e w)); [apply evolves_refl|].
  set (w1 := dsp_comps e (dsp_alive e w)).
  assert (H1 : rview w1 = rview w).
  { subst w1. unfold dsp_comps. change (rview (push_removed_all (comps_of e (comps (dsp_alive e w))) e (dsp_alive e w)) = rview w).
    rewrite rview_push_removed_all. reflexivity. }
  set (w2 := dsp_storage e w1).
  assert (H2 : evolves w w2).
  { subst w2. unfold dsp_storage.
    set (w1' := match alookup e (storage w1) with Some true => drop_callback e w1 | _ => w1 end).
    assert (H1' : rview w1' = rview w).
    { subst w1'. destruct (alookup e (storage w1)) as [[|]|]; try exact H1. rewrite rview_drop_callback. exact H1. }
    unfold rview in H1'. inversion H1' as [[C Bf S Sp]].
    repeat split; cbn; try assumption; [rewrite Sp; apply incl_refl|].
    intros t. rewrite S. destruct (N.eq_dec t e) as [->|Hne].
    - right. left. apply alookup_aremove_same.
    - left. apply alookup_aremove_other. exact Hne. }
  eapply evolves_trans; [exact H2|]. apply evolves_rview.
  unfold dsp_xlocals, dsp_data, dsp_tracker, dsp_ereactors.
  set (w3 := match alookup e (ereactors w2) with Some l => handles_drop (map snd l) w2 | None => w2 end).
  assert (H3 : rview w3 = rview w2) by (subst w3; destruct (alookup e (ereactors w2)); [apply rview_handles_drop|reflexivity]).
  set (w4 := w3 <| ereactors ::= aremove e |>).
  set (w5 := if memN e (dtrackers w4) then w4 <| dtrackers := removeN e (dtrackers w4) |> <| despawn_chan ::= fun c => c ++ [e] |> else w4).
  assert (H5 : rview w5 = rview w2) by (subst w5; destruct (memN e (dtrackers w4)); exact H3).
  set (w6 := match alookup e (dataents w5) with Some d => drop_ddata d w5 | None => w5 end).
  assert (H6 : rview w6 = rview w2) by (subst w6; destruct (alookup e (dataents w5)); [rewrite rview_drop_ddata|]; exact H5).
  exact H6.
Qed.

Lemma evolves_try_cleanup d w : evolves w (try_cleanup_data_entity d w).
Proof.
  unfold try_cleanup_data_entity. destruct (negb (is_alive d w)); [apply evolves_refl|].
  destruct (alookup d (dataents w)) as [[ty p cnt|ty t p cnt|ty p]|]; try apply evolves_refl.
  - match goal with |- evolves w (if ?b then despawn d ?w1 else ?w1) =>
      assert (H1 : evolves w w1) by rv; destruct b; [eapply evolves_trans; [exact H1|apply evolves_despawn]|exact H1] end.
  - match goal with |- evolves w (if ?b then despawn d ?w1 else ?w1) =>
      assert (H1 : evolves w w1) by rv; destruct b; [eapply evolves_trans; [exact H1|apply evolves_despawn]|exact H1] end.
Qed.

Lemma evolves_run_cleanup cl w : evolves w (run_cleanup cl w).
Proof.
  destruct cl; cbn [run_cleanup]; try apply evolves_refl.
  - eapply evolves_trans; [|apply evolves_despawn]. rv.
  - rv.
  - match goal with |- evolves w (match ?h with Some h0 => handle_drop h0 ?w1 | None => ?w1 end) =>
      destruct h; [apply evolves_rview; rewrite rview_handle_drop; reflexivity|rv] end.
  - eapply evolves_trans; [|apply evolves_try_cleanup]. rv.
  - eapply evolves_trans; [|apply evolves_try_cleanup]. rv.
Qed.

Lemma evolves_run_setup su t w w' : run_setup su t w = Some w' -> evolves w w'.
Proof.
  intros E. destruct su; cbn [run_setup] in E.
  - inversion E; subst. rv.
  - destruct (trk_start true k t (tr_se w)); inversion E; subst. rv.
  - destruct (trk_start true k t (tr_er w)); inversion E; subst. rv.
  - destruct (trk_start false k t (tr_de w)); inversion E; subst. rv.
  - destruct (trk_start true k t (tr_er w)); [|discriminate E].
    match type of E with match ?x with _ => _ end = _ => destruct x end; inversion E; subst. rv.
  - destruct (trk_start true k t (tr_ev w)); inversion E; subst. rv.
Qed.

Lemma rview_take_sysevents tys : forall w, rview (snd (take_sysevents tys w)) = rview w.
Proof.
  induction tys as [|ty r IH]; intros w; cbn [take_sysevents]; [reflexivity|].
  destruct (peek_sysevent ty w) as [p|]; [|apply IH].
  match goal with |- context [take_sysevents r ?w1] => specialize (IH w1); destruct (take_sysevents r w1) end. exact IH.
Qed.
Lemma rview_sample_readers sd x w : rview (snd (sample_readers sd x w)) = rview w.
Proof.
  unfold sample_readers. pose proof (rview_take_sysevents TYPES w) as H1.
  destruct (sd_take sd); [destruct (take_sysevents TYPES w) as [s w1]; exact H1|reflexivity].
Qed.

Lemma rview_revoke_one s t w : rview (revoke_one s t w) = rview w.
Proof.
  assert (Hent : forall e rt, rview (if is_alive e w then
             match alookup e (ereactors w) with
             | Some l => let (d, k) := er_remove rt s l in handles_drop d (w <| ereactors := aset e k (ereactors w) |>)
             | None => w end else w) = rview w).
  { intros e rt. destruct (is_alive e w); [|reflexivity]. destruct (alookup e (ereactors w)) as [l|]; [|reflexivity].
    destruct (er_remove rt s l) as [d k]. rewrite rview_handles_drop. reflexivity. }
  assert (Hcomp : forall kd c, rview (comp_revoke kd c s w) = rview w).
  { intros kd c. unfold comp_revoke. destruct (alookup c (comp_tbl w)) as [[[i m] r]|]; [|reflexivity].
    destruct (remove_first s match kd with KIns => i | KMut => m | KRem => r end) as [o l'].
    destruct (match kd with KIns => (l', m, r) | KMut => (i, l', r) | KRem => (i, m, l') end) as [[i' m'] r'].
    destruct o as [h|]; [rewrite rview_handle_drop|]; (destruct i'; [destruct m'; [destruct r'|]|]); reflexivity. }
  destruct t; cbn [revoke_one]; try apply Hent; try apply Hcomp.
  - destruct (tbl_revoke ty s (bc_tbl w)) as [o t']. destruct o; [rewrite rview_handle_drop|]; reflexivity.
  - destruct (tbl_revoke ty s (any_tbl w)) as [o t']. destruct o; [rewrite rview_handle_drop|]; reflexivity.
  - destruct (tbl_revoke r s (res_tbl w)) as [o t']. destruct o; [rewrite rview_handle_drop|]; reflexivity.
  - destruct (tbl_revoke e s (desp_tbl w)) as [o t']. destruct o; [rewrite rview_handle_drop|]; reflexivity.
Qed.
Lemma rview_revoke_all s ts : forall w, rview (revoke_all s ts w) = rview w.
Proof. induction ts as [|t ts IH]; intros w; cbn; [reflexivity|]. rewrite IH. apply rview_revoke_one. Qed.

Lemma rview_reg_triggers_cmds h ts : forall w, rview (fst (reg_triggers_cmds h ts w)) = rview w.
Proof.
  induction ts as [|t ts IH]; intros w; cbn [reg_triggers_cmds]; [reflexivity|].
  destruct (reg_trigger_cmds h t w) as [w1 c1] eqn:E1. destruct (reg_triggers_cmds h ts w1) as [w2 c2] eqn:E2. cbn [fst].
  assert (H1 : rview w1 = rview w).
  { destruct t; cbn in E1; try (inversion E1; subst; apply rview_handle_clone).
    destruct (is_alive e w); inversion E1; subst; [apply rview_handle_clone|reflexivity]. }
  specialize (IH w1). rewrite E2 in IH. cbn [fst] in IH. congruence.
Qed.

Lemma rview_poll_despawns chan : forall w, rview (fst (poll_despawns chan w)) = rview w.
Proof.
  induction chan as [|e r IH]; intros w; cbn [poll_despawns]; [reflexivity|].
  specialize (IH (w <| desp_tbl := aremove e (desp_tbl w) |>)). destruct (poll_despawns r _) as [w2 cs]. exact IH.
Qed.
Lemma rview_poll w : rview (fst (poll w)) = rview w.
Proof.
  unfold poll. destruct (poll_removals (removal_checkers w) w) as [chk c1].
  pose proof (rview_poll_despawns (despawn_chan (w <| removal_checkers := chk |>)) ((w <| removal_checkers := chk |>) <| despawn_chan := [] |>)) as H.
  destruct (poll_despawns _ _) as [w2 c2]. exact H.
Qed.

Lemma rview_comp_push kd c h w : rview (comp_push kd c h w) = rview w.
Proof. unfold comp_push. destruct (alookup c (comp_tbl w)) as [[[i m] r]|]; destruct kd; reflexivity. Qed.

Section Steps.
Variable P : program.

Lemma rview_reserve id w : rview (reserve id w) = rview w.
Proof. unfold reserve, bind_id. destruct (memN id (bound w)); reflexivity. Qed.

Lemma rview_act o a w : rview (fst (act P o a w)) = rview w.
Proof.
  destruct a; cbn [act];
  repeat match goal with
         | |- context [if ?b then _ else _] => destruct b
         | |- context [match alookup2 ?a ?b ?c with _ => _ end] => destruct (alookup2 a b c)
         | |- context [match alookup ?a ?c with _ => _ end] => destruct (alookup a c) as [[? ?]|]
         | |- context [match ?m with Persistent => _ | _ => _ end] => destruct m
         end; cbn [fst]; try reflexivity; try apply rview_reserve.
  all: try (destruct (alookup wr (p_wr P)); reflexivity).
  all: try (change (rview (reserve s w) = rview w); apply rview_reserve).
Qed.
Lemma rview_acts l : forall mk idx w, rview (fst (acts P mk idx l w)) = rview w.
Proof.
  induction l as [|a l IH]; intros mk idx w; cbn [acts]; [reflexivity|].
  pose proof (rview_act (mk idx) a w) as H1. destruct (act P (mk idx) a w) as [w1 c1].
  specialize (IH mk (idx + 1) w1). destruct (acts P mk (idx + 1) l w1) as [w2 c2]. cbn [fst] in *. congruence.
Qed.

Lemma evolves_prim c w : evolves w (fst (apply_prim P c w)).
Proof.
  destruct c; cbn [apply_prim]; try apply evolves_refl; try rv.
  - destruct (is_alive d w); [rv|apply evolves_refl].
  - destruct (tbl_get ty (bc_tbl w)); cbn [fst]; rv.
  - destruct (entity_targets e (REvent ty) w ++ map handle_sys (tbl_get ty (any_tbl w))); cbn [fst]; rv.
  - match goal with |- context [if ?b then _ else _] => destruct b end; cbn [fst]; [rv|apply evolves_refl].
  - destruct (is_alive e w); [rv|apply evolves_refl].
  - destruct (is_alive e w); [|apply evolves_refl]. destruct (alookup2 c e (comps w)); [rv|apply evolves_refl].
  - apply evolves_despawn.
  - apply evolves_despawn.
  - (* CSpawnSys *)
    destruct (is_alive s w && negb (memN s (spawned w))) eqn:E; cbn [fst]; [|apply evolves_refl].
    apply andb_true_iff in E. destruct E as [_ E]. apply negb_true_iff, memN_false in E.
    repeat split; cbn; try reflexivity; [intros x Hx; right; exact Hx|].
    intros t. destruct (N.eq_dec t s) as [->|Hne].
    + right. right. rewrite alookup_aset_same. repeat split; [exact E|left; reflexivity].
    + left. apply alookup_aset_other. exact Hne.
  - (* CInsertOnce *)
    destruct (negb (is_alive s w)); cbn [fst]; [rv|]. destruct (negb (memN s (spawned w))) eqn:E; [|apply evolves_refl].
    apply negb_true_iff, memN_false in E.
    repeat split; cbn; try reflexivity; [intros x Hx; right; exact Hx|].
    intros t. destruct (N.eq_dec t s) as [->|Hne].
    + right. right. rewrite alookup_aset_same. repeat split; [exact E|left; reflexivity].
    + left. apply alookup_aset_other. exact Hne.
  - (* CRegister *)
    assert (Hh : forall h w0, rview (fst (let (w1, cs) := reg_triggers_cmds h b w0 in (handle_drop h w1, cs))) = rview w0).
    { intros h w0. pose proof (rview_reg_triggers_cmds h b w0) as H1. destruct (reg_triggers_cmds h b w0) as [w1 cs]. cbn [fst] in *.
      rewrite rview_handle_drop. exact H1. }
    apply evolves_rview. destruct m; [apply Hh| |]; (unfold sig_new; rewrite Hh; reflexivity).
  - (* CRegTypewide *)
    apply evolves_rview. destruct t; cbn [fst]; try apply rview_handle_drop; try reflexivity.
    + apply rview_comp_push.
    + apply rview_comp_push.
    + rewrite rview_comp_push. unfold track_removals. destruct (ahas c (removal_checkers w)); reflexivity.
  - (* CRegEntity *) apply evolves_rview. destruct (is_alive e w); [destruct (alookup e (ereactors w)); reflexivity|apply rview_handle_drop].
  - (* CTrackRemovals *) apply evolves_rview. unfold track_removals. destruct (ahas c (removal_checkers w)); reflexivity.
  - (* CRegDespawn *) apply evolves_rview. destruct (is_alive e w); [|apply rview_handle_drop].
    match goal with |- context [if ?b then _ else _] => destruct b end; reflexivity.
  - (* CRevoke *) destruct tk as [ts s]. apply evolves_rview. apply rview_revoke_all.
  - (* CCleanup *) apply evolves_run_cleanup.
  - destruct (alookup x (p_xr P)) as [[s shape]|]; [destruct (is_alive e w)|]; apply evolves_refl.
  - destruct (alookup x (p_xr P)) as [[s shape]|]; apply evolves_refl.
  - destruct (is_alive e w); [rv|apply evolves_refl].
  - destruct (is_alive e w); [|apply evolves_refl]. destruct (alookup e (ereactors w)); [|apply evolves_refl].
    match goal with |- context [if ?b then _ else _] => destruct b end; [apply evolves_refl|rv].
  - apply evolves_rview. apply rview_poll.
Qed.

Lemma evolves_prepare c w t su cl w' : prepare_cmd c w = Some (t, su, cl, w') -> evolves w w'.
Proof.
  intros E. destruct c; try discriminate E; cbn in E; try (inversion E; subst; first [apply evolves_refl|rv]).
  destruct r; inversion E; subst; first [apply evolves_refl|rv].
Qed.

Lemma rview_body_sample sd t r c w : rview (body_sample P sd t r c w) = rview w.
Proof.
  unfold body_sample. pose proof (rview_sample_readers sd (xsys_of P t) w) as H1.
  destruct (sample_readers sd (xsys_of P t) w) as [sm w1]. cbn [snd] in H1.
  destruct (sm_l sm) as [[src [v|]]|]; try exact H1. destruct (xsys_of P t) as [[x ?]|]; exact H1.
Qed.
Lemma rview_state_bump t w : rview (state_bump t w) = rview w.
Proof. unfold state_bump. destruct (alookup t (cbs w)); reflexivity. Qed.
Lemma rview_body_begin sd t r c w : rview (body_begin P sd t r c w) = rview w.
Proof. unfold body_begin. rewrite rview_state_bump. apply rview_body_sample. Qed.
End Steps.

(* ================================================================================================================ *)
(* storage components live on live entities (closed invariant)                                                      *)
Definition storage_alive (w : world) : Prop := forall t, In t (map fst (storage w)) -> is_alive t w = true.

Lemma sa_frame w w' : storage w' = storage w -> (forall t, is_alive t w = true -> is_alive t w' = true) -> storage_alive w -> storage_alive w'.
Proof. intros HS HA H t Ht. rewrite HS in Ht. apply HA, H, Ht. Qed.
Lemma sa_frame_eq w w' : storage w' = storage w -> alive w' = alive w -> storage_alive w -> storage_alive w'.
Proof. intros HS HA. apply sa_frame; [exact HS|]. intros t. unfold is_alive. now rewrite HA. Qed.
Lemma sa_alive_grow w w' x : storage w' = storage w -> alive w' = alive w ++ [x] -> storage_alive w -> storage_alive w'.
Proof. intros HS HA. apply sa_frame; [exact HS|]. intros t. unfold is_alive. rewrite HA, memN_app. intros ->. reflexivity. Qed.

Definition sview (w : world) := (storage w, alive w).
Lemma sa_sview w w' : sview w' = sview w -> storage_alive w -> storage_alive w'.
Proof. unfold sview. intros H. inversion H. apply sa_frame_eq; assumption. Qed.
Ltac sv H := eapply sa_sview; [|exact H]; reflexivity.

Lemma sview_handle_drop h w : sview (handle_drop h w) = sview w.
Proof. destruct h as [s|g s]; cbn; [reflexivity|]. unfold sig_drop. destruct (alookup g (sigs w)) as [[e n]|]; [|reflexivity]. destruct (N.leb n 1); reflexivity. Qed.
Lemma sview_handle_clone h w : sview (handle_clone h w) = sview w.
Proof. destruct h as [s|g s]; cbn; [reflexivity|]. unfold sig_clone. destruct (alookup g (sigs w)) as [[e n]|]; reflexivity. Qed.
Lemma sview_handles_drop hs : forall w, sview (handles_drop hs w) = sview w.
Proof. induction hs as [|h hs IH]; intros w; cbn; [reflexivity|]. rewrite IH. apply sview_handle_drop. Qed.
Lemma sview_push_removed_all cs e : forall w, sview (push_removed_all cs e w) = sview w.
Proof. induction cs as [|c cs IH]; intros w; cbn; [reflexivity|]. rewrite IH. reflexivity. Qed.
Lemma sview_drop_callback t w : sview (drop_callback t w) = sview w.
Proof. unfold drop_callback. destruct (alookup t (cbs w)) as [cb|]; [destruct (cb_live cb)|]; reflexivity. Qed.
Lemma sview_drop_ddata d w : sview (drop_ddata d w) = sview w.
Proof. destruct d as [? ? ?|? ? ? ?|? [?|]]; reflexivity. Qed.

Lemma sa_despawn e w : storage_alive w -> storage_alive (despawn e w).
Proof.
  intros H. unfold despawn. destruct (negb (is_alive e w)); [exact H|].
  set (w1 := dsp_comps e (dsp_alive e w)).
  assert (H1 : storage w1 = storage w /\ alive w1 = removeN e (alive w)).
  { subst w1. unfold dsp_comps. pose proof (sview_push_removed_all (comps_of e (comps (dsp_alive e w))) e (dsp_alive e w)) as HV.
    split; [exact (f_equal fst HV)|exact (f_equal snd HV)]. }
  set (w2 := dsp_storage e w1).
  assert (H2 : storage_alive w2).
  { subst w2. unfold dsp_storage.
    set (w1' := match alookup e (storage w1) with Some true => drop_callback e w1 | _ => w1 end).
    assert (H1' : storage w1' = storage w /\ alive w1' = removeN e (alive w)).
    { subst w1'. destruct (alookup e (storage w1)) as [[|]|]; try exact H1.
      pose proof (sview_drop_callback e w1) as HV. destruct H1 as [S1 A1]. split; [rewrite <- S1; exact (f_equal fst HV)|rewrite <- A1; exact (f_equal snd HV)]. }
    destruct H1' as [S Al]. intros t Ht. cbn in Ht. rewrite S in Ht. apply aremove_keys in Ht. destruct Ht as [Ht Hne].
    unfold is_alive. cbn. rewrite Al. rewrite memN_removeN_other by exact Hne. apply H. exact Ht. }
  unfold dsp_xlocals, dsp_data, dsp_tracker, dsp_ereactors.
  set (w3 := match alookup e (ereactors w2) with Some l => handles_drop (map snd l) w2 | None => w2 end).
  assert (H3 : sview w3 = sview w2) by (subst w3; destruct (alookup e (ereactors w2)); [apply sview_handles_drop|reflexivity]).
  set (w4 := w3 <| ereactors ::= aremove e |>).
  set (w5 := if memN e (dtrackers w4) then w4 <| dtrackers := removeN e (dtrackers w4) |> <| despawn_chan ::= fun c => c ++ [e] |> else w4).
  assert (H5 : sview w5 = sview w2) by (subst w5; destruct (memN e (dtrackers w4)); exact H3).
  set (w6 := match alookup e (dataents w5) with Some d => drop_ddata d w5 | None => w5 end).
  assert (H6 : sview w6 = sview w2) by (subst w6; destruct (alookup e (dataents w5)); [rewrite sview_drop_ddata|]; exact H5).
  eapply sa_sview; [|exact H2]. exact H6.
Qed.

Lemma sa_try_cleanup d w : storage_alive w -> storage_alive (try_cleanup_data_entity d w).
Proof.
  intros H. unfold try_cleanup_data_entity. destruct (negb (is_alive d w)); [exact H|].
  destruct (alookup d (dataents w)) as [[ty p cnt|ty t p cnt|ty p]|]; try exact H.
  - match goal with |- storage_alive (if ?b then despawn d ?w1 else ?w1) => assert (H1 : storage_alive w1) by (sv H); destruct b; [apply sa_despawn|]; exact H1 end.
  - match goal with |- storage_alive (if ?b then despawn d ?w1 else ?w1) => assert (H1 : storage_alive w1) by (sv H); destruct b; [apply sa_despawn|]; exact H1 end.
Qed.
Lemma sa_run_cleanup cl w : storage_alive w -> storage_alive (run_cleanup cl w).
Proof.
  intros H. destruct cl; cbn [run_cleanup]; [exact H| |sv H| | |].
  - apply sa_despawn. sv H.
  - match goal with |- storage_alive (match ?h with Some h0 => handle_drop h0 ?w1 | None => ?w1 end) =>
      assert (H1 : storage_alive w1) by (sv H); destruct h; [eapply sa_sview; [apply sview_handle_drop|]|]; exact H1 end.
  - apply sa_try_cleanup. sv H.
  - apply sa_try_cleanup. sv H.
Qed.
Lemma sa_run_setup su t w w' : storage_alive w -> run_setup su t w = Some w' -> storage_alive w'.
Proof.
  intros H E. destruct su; cbn [run_setup] in E.
  - inversion E; subst. sv H.
  - destruct (trk_start true k t (tr_se w)); inversion E; subst. sv H.
  - destruct (trk_start true k t (tr_er w)); inversion E; subst. sv H.
  - destruct (trk_start false k t (tr_de w)); inversion E; subst. sv H.
  - destruct (trk_start true k t (tr_er w)); [|discriminate E].
    match type of E with match ?x with _ => _ end = _ => destruct x end; inversion E; subst. sv H.
  - destruct (trk_start true k t (tr_ev w)); inversion E; subst. sv H.
Qed.
Lemma sview_take_sysevents tys : forall w, sview (snd (take_sysevents tys w)) = sview w.
Proof.
  induction tys as [|ty r IH]; intros w; cbn [take_sysevents]; [reflexivity|].
  destruct (peek_sysevent ty w) as [p|]; [|apply IH].
  match goal with |- context [take_sysevents r ?w1] => specialize (IH w1); destruct (take_sysevents r w1) end. exact IH.
Qed.
Lemma sview_revoke_one s t w : sview (revoke_one s t w) = sview w.
Proof.
  assert (Hent : forall e rt, sview (if is_alive e w then
             match alookup e (ereactors w) with
             | Some l => let (d, k) := er_remove rt s l in handles_drop d (w <| ereactors := aset e k (ereactors w) |>)
             | None => w end else w) = sview w).
  { intros e rt. destruct (is_alive e w); [|reflexivity]. destruct (alookup e (ereactors w)) as [l|]; [|reflexivity].
    destruct (er_remove rt s l) as [d k]. rewrite sview_handles_drop. reflexivity. }
  assert (Hcomp : forall kd c, sview (comp_revoke kd c s w) = sview w).
  { intros kd c. unfold comp_revoke. destruct (alookup c (comp_tbl w)) as [[[i m] r]|]; [|reflexivity].
    destruct (remove_first s match kd with KIns => i | KMut => m | KRem => r end) as [o l'].
    destruct (match kd with KIns => (l', m, r) | KMut => (i, l', r) | KRem => (i, m, l') end) as [[i' m'] r'].
    destruct o as [h|]; [rewrite sview_handle_drop|]; (destruct i'; [destruct m'; [destruct r'|]|]); reflexivity. }
  destruct t; cbn [revoke_one]; try apply Hent; try apply Hcomp.
  - destruct (tbl_revoke ty s (bc_tbl w)) as [o t']. destruct o; [rewrite sview_handle_drop|]; reflexivity.
  - destruct (tbl_revoke ty s (any_tbl w)) as [o t']. destruct o; [rewrite sview_handle_drop|]; reflexivity.
  - destruct (tbl_revoke r s (res_tbl w)) as [o t']. destruct o; [rewrite sview_handle_drop|]; reflexivity.
  - destruct (tbl_revoke e s (desp_tbl w)) as [o t']. destruct o; [rewrite sview_handle_drop|]; reflexivity.
Qed.
Lemma sview_revoke_all s ts : forall w, sview (revoke_all s ts w) = sview w.
Proof. induction ts as [|t ts IH]; intros w; cbn; [reflexivity|]. rewrite IH. apply sview_revoke_one. Qed.
Lemma sview_reg_triggers_cmds h ts : forall w, sview (fst (reg_triggers_cmds h ts w)) = sview w.
Proof.
  induction ts as [|t ts IH]; intros w; cbn [reg_triggers_cmds]; [reflexivity|].
  destruct (reg_trigger_cmds h t w) as [w1 c1] eqn:E1. destruct (reg_triggers_cmds h ts w1) as [w2 c2] eqn:E2. cbn [fst].
  assert (H1 : sview w1 = sview w).
  { destruct t; cbn in E1; try (inversion E1; subst; apply sview_handle_clone).
    destruct (is_alive e w); inversion E1; subst; [apply sview_handle_clone|reflexivity]. }
  specialize (IH w1). rewrite E2 in IH. cbn [fst] in IH. congruence.
Qed.
Lemma sview_poll_despawns chan : forall w, sview (fst (poll_despawns chan w)) = sview w.
Proof.
  induction chan as [|e r IH]; intros w; cbn [poll_despawns]; [reflexivity|].
  specialize (IH (w <| desp_tbl := aremove e (desp_tbl w) |>)). destruct (poll_despawns r _) as [w2 cs]. exact IH.
Qed.
Lemma sview_poll w : sview (fst (poll w)) = sview w.
Proof.
  unfold poll. destruct (poll_removals (removal_checkers w) w) as [chk c1].
  pose proof (sview_poll_despawns (despawn_chan (w <| removal_checkers := chk |>)) ((w <| removal_checkers := chk |>) <| despawn_chan := [] |>)) as H.
  destruct (poll_despawns _ _) as [w2 c2]. exact H.
Qed.
Lemma sview_comp_push kd c h w : sview (comp_push kd c h w) = sview w.
Proof. unfold comp_push. destruct (alookup c (comp_tbl w)) as [[[i m] r]|]; destruct kd; reflexivity. Qed.

Lemma sa_reserve id w : storage_alive w -> storage_alive (reserve id w).
Proof.
  intros H. unfold reserve. destruct (memN id (bound w)); [exact H|].
  unfold bind_id. destruct (memN id (bound w)); eapply sa_alive_grow; [| |exact H| | |exact H]; reflexivity.
Qed.

Section SAClosed.
Variable P : program.

Lemma sa_act o a w : storage_alive w -> storage_alive (fst (act P o a w)).
Proof.
  intros H. destruct a; cbn [act];
  repeat match goal with
         | |- context [if ?b then _ else _] => destruct b
         | |- context [match alookup2 ?a ?b ?c with _ => _ end] => destruct (alookup2 a b c)
         | |- context [match alookup ?a ?c with _ => _ end] => destruct (alookup a c) as [[? ?]|]
         | |- context [match ?m with Persistent => _ | _ => _ end] => destruct m
         end; cbn [fst]; try exact H; try (sv H);
  try (eapply sa_alive_grow; [| |exact H]; reflexivity).
  all: try (apply sa_reserve; exact H).
  all: try (eapply sa_sview; [|apply (sa_reserve s w H)]; reflexivity).
  all: try (destruct (alookup wr (p_wr P)); exact H).
Qed.

Lemma sa_prim c w : storage_alive w -> storage_alive (fst (apply_prim P c w)).
Proof.
  intros H. destruct c; cbn [apply_prim]; try exact H; try (sv H).
  - destruct (is_alive d w); [sv H|exact H].
  - destruct (tbl_get ty (bc_tbl w)); cbn [fst]; [sv H|]. eapply sa_alive_grow; [| |exact H]; reflexivity.
  - destruct (entity_targets e (REvent ty) w ++ map handle_sys (tbl_get ty (any_tbl w))); cbn [fst]; [sv H|].
    eapply sa_alive_grow; [| |exact H]; reflexivity.
  - match goal with |- context [if ?b then _ else _] => destruct b end; cbn [fst]; [sv H|exact H].
  - destruct (is_alive e w); [sv H|exact H].
  - destruct (is_alive e w); [|exact H]. destruct (alookup2 c e (comps w)); [sv H|exact H].
  - apply sa_despawn. exact H.
  - apply sa_despawn. exact H.
  - (* CSpawnSys *)
    destruct (is_alive s w) eqn:EA; cbn [andb]; [|exact H]. destruct (negb (memN s (spawned w))); cbn [fst]; [|exact H].
    intros t Ht. cbn in Ht. apply aset_keys in Ht. unfold is_alive in *. cbn. destruct Ht as [Ht|Ht]; [apply H; exact Ht|subst t; exact EA].
  - (* CInsertOnce *)
    destruct (is_alive s w) eqn:EA; cbn [negb fst]; [|sv H]. destruct (negb (memN s (spawned w))); [|exact H].
    intros t Ht. cbn in Ht. apply aset_keys in Ht. unfold is_alive in *. cbn. destruct Ht as [Ht|Ht]; [apply H; exact Ht|subst t; exact EA].
  - (* CRegister *)
    assert (Hh : forall h w0, sview (fst (let (w1, cs) := reg_triggers_cmds h b w0 in (handle_drop h w1, cs))) = sview w0).
    { intros h w0. pose proof (sview_reg_triggers_cmds h b w0) as H1. destruct (reg_triggers_cmds h b w0) as [w1 cs]. cbn [fst] in *.
      rewrite sview_handle_drop. exact H1. }
    eapply sa_sview; [|exact H]. destruct m; [apply Hh| |]; (unfold sig_new; rewrite Hh; reflexivity).
  - (* CRegTypewide *)
    eapply sa_sview; [|exact H]. destruct t; cbn [fst]; try apply sview_handle_drop; try reflexivity.
    + apply sview_comp_push.
    + apply sview_comp_push.
    + rewrite sview_comp_push. unfold track_removals. destruct (ahas c (removal_checkers w)); reflexivity.
  - eapply sa_sview; [|exact H]. destruct (is_alive e w); [destruct (alookup e (ereactors w)); reflexivity|apply sview_handle_drop].
  - eapply sa_sview; [|exact H]. unfold track_removals. destruct (ahas c (removal_checkers w)); reflexivity.
  - eapply sa_sview; [|exact H]. destruct (is_alive e w); [|apply sview_handle_drop].
    match goal with |- context [if ?b then _ else _] => destruct b end; reflexivity.
  - destruct tk as [ts s]. eapply sa_sview; [|exact H]. apply sview_revoke_all.
  - apply sa_run_cleanup. exact H.
  - destruct (alookup x (p_xr P)) as [[s shape]|]; [destruct (is_alive e w)|]; exact H.
  - destruct (alookup x (p_xr P)) as [[s shape]|]; exact H.
  - destruct (is_alive e w); [sv H|exact H].
  - destruct (is_alive e w); [|exact H]. destruct (alookup e (ereactors w)); [|exact H].
    match goal with |- context [if ?b then _ else _] => destruct b end; [exact H|sv H].
  - eapply sa_sview; [|exact H]. apply sview_poll.
Qed.

Lemma sa_closed : closed P storage_alive.
Proof.
  constructor.
  - intros e w H. sv H.
  - intros c w H. apply sa_prim. exact H.
  - intros o a w H. apply sa_act. exact H.
  - intros c w t su cl w' H E. destruct c; try discriminate E; cbn in E; try (inversion E; subst; first [exact H|sv H]).
    destruct r; inversion E; subst; first [exact H|sv H].
  - intros e r w H _. unfold gc_step. apply sa_despawn. sv H.
  - intros w H. eapply sa_sview; [|exact H]. apply sview_poll.
  - intros su t w w' H E. eapply sa_run_setup; eauto.
  - intros cl w H. apply sa_run_cleanup. exact H.
  - intros b w H. sv H.
  - intros n w H. sv H.
  - intros t b w H. intros x Hx. cbn in Hx. rewrite aupd_keys in Hx. apply H in Hx. exact Hx.
  - intros t k w H _. unfold rn_dropped. eapply sa_sview; [|exact H]. apply sview_drop_callback.
  - intros t k w H _. unfold rn_despawn_missing. eapply sa_sview; [|apply sa_despawn; eapply sa_sview; [apply sview_drop_callback|exact H]]. reflexivity.
  - intros t w H. apply sa_despawn. exact H.
  - intros t cb b w H _ _. sv H.
  - intros t tk w H. unfold once_finish. destruct (alookup t (cbs w)); [sv H|exact H].
  - intros sd t r c w _ H. unfold body_begin.
    assert (H0 : storage_alive (body_sample P sd t r c w)).
    { unfold body_sample.
      assert (H1 : sview (snd (sample_readers sd (xsys_of P t) w)) = sview w).
      { unfold sample_readers. pose proof (sview_take_sysevents TYPES w) as HT. destruct (sd_take sd); [destruct (take_sysevents TYPES w); exact HT|reflexivity]. }
      destruct (sample_readers sd (xsys_of P t) w) as [sm w1]. cbn [snd] in H1.
      assert (H2 : storage_alive w1) by (eapply sa_sview; [exact H1|exact H]).
      destruct (sm_l sm) as [[src [v|]]|]; try (sv H2). destruct (xsys_of P t) as [[x ?]|]; sv H2. }
    unfold state_bump. destruct (alookup t (cbs (body_sample P sd t r c w))); [sv H0|exact H0].
  - intros w H. sv H.
Qed.

Lemma sa_init : storage_alive (install_static P init_world).
Proof.
  unfold install_static.
  assert (Hgen : forall l w, storage_alive w -> (forall s, In s (bound w) -> is_alive s w = true) ->
            storage_alive (fold_left (fun w s => (reserve s w) <| storage ::= aset s true |> <| cbs ::= aset s (mkCb None 0 0 false true) |> <| spawned ::= cons s |>) l w)).
  { induction l as [|s l IH]; intros w H HB; cbn [fold_left]; [exact H|]. apply IH.
    - intros t Ht. cbn in Ht. apply aset_keys in Ht.
      assert (Hs : is_alive s (reserve s w) = true).
      { unfold reserve. destruct (memN s (bound w)) eqn:EB; [apply HB, memN_In, EB|]. unfold is_alive. cbn. rewrite memN_app. cbn. rewrite N.eqb_refl. apply orb_true_r. }
      destruct Ht as [Ht|Ht]; [|subst t; exact Hs]. pose proof (sa_reserve s w H t Ht) as Hr. exact Hr.
    - intros x Hx. cbn in Hx. change (is_alive x (reserve s w) = true). unfold reserve in *. destruct (memN s (bound w)) eqn:EB; [apply HB; exact Hx|].
      unfold bind_id in *. rewrite EB in *. cbn in Hx. unfold is_alive. cbn. rewrite memN_app. destruct Hx as [<-|Hx]; [cbn; rewrite N.eqb_refl; apply orb_true_r|].
      apply HB in Hx. unfold is_alive in Hx. rewrite Hx. reflexivity. }
  apply Hgen; [intros t []|intros s []].
Qed.

Theorem sa_exec fuel i w w' : storage_alive w -> exec P fuel i w = Ok w' -> storage_alive w'.
Proof. apply exec_closed. exact sa_closed. Qed.
End SAClosed.

(* ================================================================================================================ *)
(* The invariant proper                                                                                             *)
Record InvCore (A : list ent) (w : world) : Prop := {
  ic_taken : forall t, alookup t (storage w) = Some false -> In t A;
  ic_active : forall t, In t A -> (alookup t (storage w) = Some false \/ alookup t (storage w) = None) /\ In t (spawned w);
  ic_counter : A <> [] -> 1 <= counter w;
  ic_keys : forall t, In t (map fst (storage w)) -> In t (spawned w);
  ic_alive : storage_alive w;
}.

Definition held_ok (B : list ent) (l : list buffered) : Prop := forall b, In b l -> In (b_sys b) B.
Lemma held_ok_nil B : held_ok B []. Proof. intros b []. Qed.
Lemma held_ok_app B l1 l2 : held_ok B l1 -> held_ok B l2 -> held_ok B (l1 ++ l2).
Proof. intros H1 H2 b Hb. apply in_app_or in Hb. destruct Hb; auto. Qed.
Lemma held_ok_incl B B' l : incl B B' -> held_ok B l -> held_ok B' l.
Proof. intros Hi H b Hb. apply Hi, H, Hb. Qed.
Lemma held_ok_empty l : held_ok [] l -> l = [].
Proof. destruct l as [|b l]; [reflexivity|]. intros H. destruct (H b (or_introl eq_refl)). Qed.

Lemma InvCore_evolves A w w' : storage_alive w' -> evolves w w' -> InvCore A w -> InvCore A w'.
Proof.
  intros Hsa (HC & HB & HS & HT) [I1 I2 I3 I4 I5]. constructor.
  - intros t Ht. destruct (HT t) as [E|[E|(E & _)]]; [apply I1; congruence|congruence|congruence].
  - intros t Ht. destruct (I2 t Ht) as [Hst Hsp]. split; [|apply HS; exact Hsp].
    destruct (HT t) as [E|[E|(E & Hn & _)]]; [rewrite E; exact Hst|right; exact E|contradiction].
  - intros HA. rewrite HC. apply I3. exact HA.
  - intros t Ht. apply ahas_In in Ht. unfold ahas in Ht. destruct (alookup t (storage w')) as [b|] eqn:E; [|discriminate Ht].
    destruct (HT t) as [E'|[E'|(E' & _ & Hi)]]; [|congruence|exact Hi].
    apply HS, I4. rewrite E in E'. symmetry in E'. eapply alookup_Some_key; eauto.
  - exact Hsa.
Qed.

Lemma InvCore_buffer A b w : InvCore A w -> InvCore A (w <| buffer := b |>).
Proof. intros [I1 I2 I3 I4 I5]. constructor; auto. Qed.

Section Runner.
Variable P : program.

Definition cnt_post (w w' : world) : Prop :=
  (counter w = 0 -> counter w' = 0) /\ (1 <= counter w -> 1 <= counter w').

Definition PreR (i : instr) (A B : list ent) (w : world) : Prop :=
  InvCore A w /\ incl A B /\ held_ok B (buffer w) /\
  match i with
  | IReplay t pending kept => held_ok (t :: B) pending /\ held_ok B kept /\ 1 <= counter w
  | IDiscard => 1 <= counter w
  | IRun t su cl idx => alookup t (storage w) = Some true /\ (idx = 0 -> counter w = 0 /\ buffer w = []) /\ (idx <> 0 -> 1 <= counter w)
  | _ => counter w = 0 -> buffer w = []
  end.

Definition PostR (i : instr) (A B : list ent) (w w' : world) : Prop :=
  InvCore A w' /\ held_ok B (buffer w') /\
  match i with
  | IReplay _ _ _ | IDiscard => 1 <= counter w'
  | IRun t su cl idx => (idx = 0 -> counter w' = 0 /\ buffer w' = []) /\ (idx <> 0 -> 1 <= counter w')
  | _ => cnt_post w w' /\ (counter w' = 0 -> buffer w' = [])
  end.

Ltac bind_inv E w1 E1 :=
  match type of E with
  | bind ?r _ = Ok _ => destruct r as [w1| |] eqn:E1; cbn [bind] in E; [|discriminate E|discriminate E]
  end.

Lemma lookup_dead_storage t w : storage_alive w -> lookup_storage t w = LDead -> alookup t (storage w) = None.
Proof.
  intros Hsa H. unfold lookup_storage in H. destruct (is_alive t w) eqn:EA; cbn [negb] in H.
  - destruct (alookup t (storage w)) as [[|]|]; discriminate H.
  - apply alookup_None. intros Hk. apply Hsa in Hk. congruence.
Qed.
Lemma lookup_storage_cases t w :
  match lookup_storage t w with
  | LDead => True
  | LNoStorage => alookup t (storage w) = None
  | LTaken => alookup t (storage w) = Some false
  | LPresent => alookup t (storage w) = Some true
  end.
Proof. unfold lookup_storage. destruct (negb (is_alive t w)); [exact I|]. destruct (alookup t (storage w)) as [[|]|]; reflexivity. Qed.

(* a step that evolves the storage keeps the default pre-condition *)
Lemma PreR_step A B w w' : storage_alive w' -> evolves w w' ->
  InvCore A w /\ incl A B /\ held_ok B (buffer w) /\ (counter w = 0 -> buffer w = []) ->
  InvCore A w' /\ incl A B /\ held_ok B (buffer w') /\ (counter w' = 0 -> buffer w' = []).
Proof.
  intros Hsa He (HI & Hincl & Hh & Hc). pose proof He as (HC & HB & _).
  split; [eapply InvCore_evolves; eauto|]. split; [exact Hincl|]. rewrite HB, HC. split; assumption.
Qed.

Lemma cnt_post_refl w : cnt_post w w. Proof. split; auto. Qed.
Lemma cnt_post_trans w1 w2 w3 : cnt_post w1 w2 -> cnt_post w2 w3 -> cnt_post w1 w3.
Proof. intros [H1 H2] [H3 H4]. split; auto. Qed.
Lemma cnt_post_evolves w w' : evolves w w' -> cnt_post w w'.
Proof. intros (HC & _). unfold cnt_post. rewrite HC. split; auto. Qed.

Definition default_pre (A B : list ent) (w : world) := InvCore A w /\ incl A B /\ held_ok B (buffer w) /\ (counter w = 0 -> buffer w = []).
Definition default_post (A B : list ent) (w w' : world) := InvCore A w' /\ held_ok B (buffer w') /\ cnt_post w w' /\ (counter w' = 0 -> buffer w' = []).

Lemma default_post_of_pre A B w w' : default_pre A B w' -> cnt_post w w' -> default_post A B w w'.
Proof. intros (H1 & H2 & H3 & H4) Hc. split; [exact H1|]. split; [exact H3|]. split; [exact Hc|exact H4]. Qed.
Lemma default_pre_of_post A B w w' : incl A B -> default_post A B w w' -> default_pre A B w'.
Proof. intros Hi (H1 & H2 & H3 & H4). split; [exact H1|]. split; [exact Hi|]. split; [exact H2|exact H4]. Qed.

Lemma default_post_step A B w w1 w' : evolves w w1 -> default_post A B w1 w' -> default_post A B w w'.
Proof.
  intros He (P1 & P2 & P3 & P4). split; [exact P1|]. split; [exact P2|]. split; [|exact P4].
  eapply cnt_post_trans; [apply cnt_post_evolves; exact He|exact P3].
Qed.
Lemma default_post_trans A B w w1 w' : default_post A B w w1 -> default_post A B w1 w' -> default_post A B w w'.
Proof.
  intros (_ & _ & C1 & _) (P1 & P2 & P3 & P4). split; [exact P1|]. split; [exact P2|]. split; [|exact P4].
  eapply cnt_post_trans; eauto.
Qed.

Lemma evolves_once_finish t tk w : evolves w (once_finish t tk w).
Proof. unfold once_finish. destruct (alookup t (cbs w)); [apply evolves_rview; reflexivity|apply evolves_refl]. Qed.

Lemma emit_pre A B e w : default_pre A B w -> default_pre A B (emit e w).
Proof.
  intros Hp. apply (PreR_step A B w); [|apply evolves_rview; reflexivity|exact Hp].
  eapply (c_emit _ _ (sa_closed P)). apply (ic_alive _ _ (proj1 Hp)).
Qed.

Theorem exec_runner : forall fuel i A B w w',
  exec P fuel i w = Ok w' -> PreR i A B w -> PostR i A B w w'.
Proof.
  induction fuel as [|f IH]; intros i A B w w' E HP; [discriminate E|].
  (* the default instance of the induction hypothesis *)
  assert (IHd : forall i0 A0 B0 w0 w0', exec P f i0 w0 = Ok w0' -> default_pre A0 B0 w0 ->
            match i0 with IReplay _ _ _ | IDiscard | IRun _ _ _ _ => False | _ => True end -> default_post A0 B0 w0 w0').
  { intros i0 A0 B0 w0 w0' E0 (H1 & H2 & H3 & H4) Hi0.
    assert (HPre : PreR i0 A0 B0 w0) by (unfold PreR; destruct i0; try contradiction; exact (conj H1 (conj H2 (conj H3 H4)))).
    pose proof (IH i0 A0 B0 w0 w0' E0 HPre) as HPo. unfold PostR in HPo. destruct i0; try contradiction; exact HPo. }
  destruct i; cbn [exec] in E; unfold PreR in HP; unfold PostR.
  - (* IApply *)
    destruct HP as (HI & Hincl & Hh & Hc). change (default_post A B w w').
    assert (Hpre : default_pre A B w) by exact (conj HI (conj Hincl (conj Hh Hc))).
    destruct (prepare_cmd c w) as [[[[t su] cl] w1]|] eqn:EP.
    + pose proof (evolves_prepare c w t su cl w1 EP) as He.
      assert (Hsa1 : storage_alive w1) by (eapply (c_prepare _ _ (sa_closed P)); [apply (ic_alive _ _ HI)|exact EP]).
      eapply default_post_step; [exact He|]. exact (IHd (IRunner t su cl) A B w1 w' E (PreR_step A B w w1 Hsa1 He Hpre) I).
    + assert (Hprim : forall c0 w2 cs, apply_prim P c0 w = (w2, cs) -> exec P f (IApplyList cs) w2 = Ok w' -> default_post A B w w').
      { intros c0 w2 cs Ea Ee.
        pose proof (evolves_prim P c0 w) as He. rewrite Ea in He. cbn [fst] in He.
        assert (Hsa2 : storage_alive w2) by (pose proof (sa_prim P c0 w (ic_alive _ _ HI)) as Hs; rewrite Ea in Hs; exact Hs).
        eapply default_post_step; [exact He|]. exact (IHd (IApplyList cs) A B w2 w' Ee (PreR_step A B w w2 Hsa2 He Hpre) I). }
      destruct c;
        try (destruct (apply_prim P _ w) as [w2 cs] eqn:Ea; eapply Hprim; [exact Ea|exact E]);
        try discriminate EP.
      * match type of E with (if ?b then _ else _) = _ => destruct b; [|discriminate E] end.
        destruct (apply_prim P _ w) as [w2 cs] eqn:Ea. eapply Hprim; [exact Ea|exact E].
      * exact (IHd IGC A B w w' E Hpre I).
  - (* IApplyList *)
    destruct HP as (HI & Hincl & Hh & Hc). change (default_post A B w w').
    assert (Hpre : default_pre A B w) by exact (conj HI (conj Hincl (conj Hh Hc))).
    destruct cs as [|c cs]; [inversion E; subst; apply default_post_of_pre; [exact Hpre|apply cnt_post_refl]|].
    bind_inv E w1 E1.
    pose proof (IHd (IApply c) A B w w1 E1 Hpre I) as Hp1.
    pose proof (IHd (IApplyList cs) A B w1 w' E (default_pre_of_post _ _ _ _ Hincl Hp1) I) as Hp2.
    eapply default_post_trans; eauto.
  - (* IRunner *)
    destruct HP as (HI & Hincl & Hh & Hc). change (default_post A B w w').
    assert (Hpre : default_pre A B w) by exact (conj HI (conj Hincl (conj Hh Hc))).
    bind_inv E w1 E1. bind_inv E w2 E2.
    pose proof (IHd IGC A B _ w1 E1 (emit_pre A B _ w Hpre) I) as Hp1.
    pose proof (IHd IPoll A B w1 w2 E2 (default_pre_of_post _ _ _ _ Hincl Hp1) I) as Hp2.
    assert (Hp02 : default_post A B w w2).
    { eapply default_post_trans; [|exact Hp2]. eapply default_post_step; [|exact Hp1]. apply evolves_rview. reflexivity. }
    pose proof (default_pre_of_post _ _ _ _ Hincl Hp02) as Hpre2.
    destruct Hp02 as (I2 & H2 & Hc02 & C2').
    assert (Habort : forall why w3, exec P f (IAbort t su cl) (emit (EvAbort t (setup_ticket su) why) w2) = Ok w3 ->
              default_post A B w (emit (EvExit t (setup_ticket su)) w3)).
    { intros why w3 E3.
      pose proof (IHd (IAbort t su cl) A B _ w3 E3 (emit_pre A B _ w2 Hpre2) I) as Hp3.
      apply default_post_of_pre; [apply emit_pre; exact (default_pre_of_post _ _ _ _ Hincl Hp3)|].
      destruct Hp3 as (_ & _ & C3 & _). eapply cnt_post_trans; [exact Hc02|]. exact C3. }
    pose proof (lookup_storage_cases t w2) as Hls.
    destruct (lookup_storage t w2) eqn:EL.
    + bind_inv E w3 E3. inversion E; subst. exact (Habort 0 w3 E3).
    + bind_inv E w3 E3. inversion E; subst. exact (Habort 1 w3 E3).
    + destruct (N.eqb_spec (counter w) 0) as [Hz|Hnz].
      * bind_inv E w3 E3. inversion E; subst. exact (Habort 2 w3 E3).
      * inversion E; subst. clear E.
        assert (HtA : In t A) by (apply (ic_taken _ _ I2); exact Hls).
        assert (Hcw2 : 1 <= counter w2) by (apply Hc02; lia).
        unfold rn_postpone. split; [|split; [|split]].
        -- eapply InvCore_evolves; [| |apply (InvCore_buffer A (buffer w2 ++ [mkBuf t su cl]) w2 I2)]; [exact (ic_alive _ _ I2)|].
           apply evolves_rview. reflexivity.
        -- cbn. apply held_ok_app; [exact H2|]. intros b [<-|[]]. cbn. apply Hincl. exact HtA.
        -- split; cbn; [intros Hz; lia|intros _; exact Hcw2].
        -- cbn. intros Hz. lia.
    + (* LPresent: run *)
      assert (HPre : PreR (IRun t su cl (counter w)) A B w2).
      { unfold PreR. split; [exact I2|]. split; [exact Hincl|]. split; [exact H2|]. split; [exact Hls|]. split.
        - intros Hz. split; [apply Hc02; exact Hz|apply C2'; apply Hc02; exact Hz].
        - intros Hnz. apply Hc02. lia. }
      pose proof (IH _ A B w2 w' E HPre) as (P1 & P2 & P3 & P4).
      split; [exact P1|]. split; [exact P2|]. split; [split|].
      * intros Hz. apply (proj1 (P3 Hz)).
      * intros Hge. apply P4. lia.
      * intros Hz. destruct (N.eq_dec (counter w) 0) as [Hz0|Hnz0]; [apply (proj2 (P3 Hz0))|]. specialize (P4 Hnz0). lia.
  - (* IRun *)
    destruct HP as (HI & Hincl & Hh & Hst & Hz & Hnz).
    set (k := setup_ticket su) in *.
    (* at the root the context is empty and so is the buffer: work with B0 = [] *)
    set (B0 := if N.eqb idx 0 then [] else B).
    assert (HA0 : idx = 0 -> A = []).
    { intros H0. destruct A as [|a A']; [reflexivity|]. pose proof (ic_counter _ _ HI ltac:(discriminate)) as Hc. destruct (Hz H0). lia. }
    assert (Hincl0 : incl A B0) by (subst B0; destruct (N.eqb_spec idx 0) as [H0|H0]; [rewrite (HA0 H0); apply incl_refl|exact Hincl]).
    assert (Hh0 : held_ok B0 (buffer w)) by (subst B0; destruct (N.eqb_spec idx 0) as [H0|H0]; [rewrite (proj2 (Hz H0)); apply held_ok_nil|exact Hh]).
    assert (HB0 : forall l, held_ok B0 l -> held_ok B l).
    { subst B0. intros l Hl. destruct (N.eqb_spec idx 0); [rewrite (held_ok_empty l Hl); apply held_ok_nil|exact Hl]. }
    assert (HB0root : idx = 0 -> forall l, held_ok B0 l -> l = []).
    { subst B0. intros H0 l Hl. destruct (N.eqb_spec idx 0); [apply held_ok_empty; exact Hl|contradiction]. }
    destruct (run_setup su t (rn_take t su w)) as [w0|] eqn:ES; [|discriminate E].
    assert (HtA : ~ In t A).
    { intros Hin. destruct (proj1 (ic_active _ _ HI t Hin)) as [H|H]; congruence. }
    (* after taking the callback the frame of t is part of the context *)
    assert (Htake : InvCore (t :: A) (rn_take t su w) /\ 1 <= counter (rn_take t su w) /\ buffer (rn_take t su w) = buffer w).
    { unfold rn_take. cbn. split; [|split; [lia|reflexivity]]. destruct HI as [I1 I2 I3 I4 I5]. constructor; cbn.
      - intros u Hu. destruct (N.eq_dec u t) as [->|Hne]; [left; reflexivity|]. right. apply I1. rewrite alookup_aupd_other in Hu by exact Hne. exact Hu.
      - intros u [<-|Hu].
        + split; [left; rewrite alookup_aupd_same, Hst; reflexivity|]. apply I4. eapply alookup_Some_key; eauto.
        + destruct (I2 u Hu) as [Hs Hp]. split; [|exact Hp]. rewrite alookup_aupd_other by (intros ->; contradiction). exact Hs.
      - intros _. lia.
      - intros u Hu. rewrite aupd_keys in Hu. apply I4. exact Hu.
      - intros u Hu. cbn in Hu. rewrite aupd_keys in Hu. apply I5 in Hu. exact Hu. }
    destruct Htake as (It & Ct & Bt).
    assert (Hincl1 : incl (t :: A) (t :: B0)) by (apply incl_cons; [left; reflexivity|apply incl_tl; exact Hincl0]).
    assert (Hpre_cb : default_pre (t :: A) (t :: B0) w0).
    { pose proof (evolves_run_setup su t _ w0 ES) as He.
      apply (PreR_step (t :: A) (t :: B0) (rn_take t su w)); [eapply sa_run_setup; [apply (ic_alive _ _ It)|exact ES]|exact He|].
      split; [exact It|]. split; [exact Hincl1|]. split; [rewrite Bt; eapply held_ok_incl; [|exact Hh0]; apply incl_tl, incl_refl|lia]. }
    assert (Hc0 : 1 <= counter w0) by (pose proof (evolves_run_setup su t _ w0 ES) as (HC & _); rewrite HC; exact Ct).
    bind_inv E w1 E1.
    pose proof (IHd (ICallback t cl) (t :: A) (t :: B0) w0 w1 E1 Hpre_cb I) as Hp1.
    bind_inv E w2 E2.
    pose proof (IHd IGC (t :: A) (t :: B0) w1 w2 E2 (default_pre_of_post _ _ _ _ Hincl1 Hp1) I) as Hp2.
    assert (Hc2 : 1 <= counter w2).
    { destruct Hp1 as (_ & _ & C1 & _). destruct Hp2 as (_ & _ & C2 & _). apply C2, C1. exact Hc0. }
    destruct Hp2 as (I2 & H2 & _ & _).
    (* reinsertion: t leaves the context *)
    bind_inv E w3 E3.
    assert (H3 : InvCore A w3 /\ held_ok (t :: B0) (buffer w3) /\ 1 <= counter w3).
    { assert (Hdrop : forall w2', InvCore (t :: A) w2' -> alookup t (storage w2') <> Some false -> InvCore A w2').
      { intros w2' [J1 J2 J3 J4 J5] Hnt. constructor; auto.
        - intros u Hu. destruct (J1 u Hu) as [<-|Hin]; [contradiction|exact Hin].
        - intros u Hu. apply J2. right. exact Hu.
        - intros HA. apply J3. discriminate. }
      assert (Hgone : forall w2', evolves w2 w2' -> storage_alive w2' -> alookup t (storage w2) = None ->
                exec P f IGC w2' = Ok w3 -> InvCore A w3 /\ held_ok (t :: B0) (buffer w3) /\ 1 <= counter w3).
      { intros w2' Hev Hsa Hnone Eg.
        assert (Hpre : default_pre A (t :: B0) w2').
        { assert (Hc2' : counter w2 = 0 -> buffer w2 = []) by (intros Hq; lia).
          destruct (PreR_step (t :: A) (t :: B0) w2 w2' Hsa Hev) as (J & _ & Jh & Jc); [exact (conj I2 (conj Hincl1 (conj H2 Hc2')))|].
          split; [apply Hdrop; [exact J|]|]; [|split; [apply incl_tl; exact Hincl0|split; [exact Jh|exact Jc]]].
          destruct Hev as (_ & _ & _ & HT). destruct (HT t) as [Et|[Et|(Et & _)]]; congruence. }
        pose proof (IHd IGC A (t :: B0) w2' w3 Eg Hpre I) as (P1 & P2 & P3 & _).
        split; [exact P1|]. split; [exact P2|]. apply P3. destruct Hev as (HC & _). rewrite HC. exact Hc2. }
      pose proof (lookup_storage_cases t w2) as Hls.
      destruct (lookup_storage t w2) eqn:EL.
      - (* dead *)
        apply (Hgone (rn_dropped t k w2)); [| | |exact E3].
        + unfold rn_dropped. apply evolves_rview. cbn. apply rview_drop_callback.
        + eapply (c_dropped _ _ (sa_closed P)); [apply (ic_alive _ _ I2)|exact EL].
        + apply lookup_dead_storage; [apply (ic_alive _ _ I2)|exact EL].
      - (* storage missing *)
        apply (Hgone (rn_despawn_missing t k w2)); [| |exact Hls|exact E3].
        + unfold rn_despawn_missing. eapply evolves_trans; [apply evolves_rview; apply rview_drop_callback|].
          eapply evolves_trans; [apply evolves_despawn|]. apply evolves_rview. reflexivity.
        + eapply (c_missing _ _ (sa_closed P)); [apply (ic_alive _ _ I2)|exact EL].
      - (* the normal case: put the callback back *)
        inversion E3; subst. unfold rn_reinsert. cbn. destruct I2 as [J1 J2 J3 J4 J5]. split; [|split; [exact H2|exact Hc2]]. constructor; cbn.
        + intros u Hu. destruct (N.eq_dec u t) as [->|Hne]; [rewrite alookup_aupd_same, Hls in Hu; discriminate|].
          rewrite alookup_aupd_other in Hu by exact Hne. destruct (J1 u Hu) as [<-|Hin]; [contradiction|exact Hin].
        + intros u Hu. destruct (J2 u (or_intror Hu)) as [Hs Hp]. split; [|exact Hp]. rewrite alookup_aupd_other by (intros ->; contradiction). exact Hs.
        + intros _. exact Hc2.
        + intros u Hu. rewrite aupd_keys in Hu. apply J4. exact Hu.
        + intros u Hu. cbn in Hu. rewrite aupd_keys in Hu. apply J5 in Hu. exact Hu.
      - inversion E3; subst. unfold rn_reinsert. cbn. destruct I2 as [J1 J2 J3 J4 J5]. split; [|split; [exact H2|exact Hc2]]. constructor; cbn.
        + intros u Hu. destruct (N.eq_dec u t) as [->|Hne]; [rewrite alookup_aupd_same, Hls in Hu; discriminate|].
          rewrite alookup_aupd_other in Hu by exact Hne. destruct (J1 u Hu) as [<-|Hin]; [contradiction|exact Hin].
        + intros u Hu. destruct (J2 u (or_intror Hu)) as [Hs Hp]. split; [|exact Hp]. rewrite alookup_aupd_other by (intros ->; contradiction). exact Hs.
        + intros _. exact Hc2.
        + intros u Hu. rewrite aupd_keys in Hu. apply J4. exact Hu.
        + intros u Hu. cbn in Hu. rewrite aupd_keys in Hu. apply J5 in Hu. exact Hu. }
    destruct H3 as (I3 & Hb3 & Hc3).
    bind_inv E w4 E4.
    assert (Hincl3 : incl A (t :: B0)) by (apply incl_tl; exact Hincl0).
    assert (Hc3' : counter w3 = 0 -> buffer w3 = []) by (intros Hq; lia).
    pose proof (IHd IPoll A (t :: B0) w3 w4 E4 (conj I3 (conj Hincl3 (conj Hb3 Hc3'))) I) as (I4 & Hb4 & C4 & _).
    assert (Hc4 : 1 <= counter w4) by (apply C4; exact Hc3).
    bind_inv E w5 E5.
    assert (HPre5 : PreR (IReplay t (buffer w4) []) A B0 (w4 <| buffer := [] |>)).
    { unfold PreR. split; [apply InvCore_buffer; exact I4|]. split; [exact Hincl0|]. split; [apply held_ok_nil|].
      split; [exact Hb4|]. split; [apply held_ok_nil|exact Hc4]. }
    pose proof (IH _ A B0 _ w5 E5 HPre5) as (I5 & Hb5 & Hc5). unfold PostR in *.
    bind_inv E w6 E6. injection E as <-.
    destruct (N.eqb_spec idx 0) as [H0|H0].
    + (* root: nothing is left to discard *)
      bind_inv E6 w7 E7. injection E6 as <-.
      assert (Hb5e : buffer w5 = []) by (apply (HB0root H0); exact Hb5).
      assert (E7' : w7 = w5) by (destruct f as [|f']; [discriminate E7|cbn [exec] in E7; rewrite Hb5e in E7; inversion E7; reflexivity]).
      subst w7. split; [|split; [|split]].
      * destruct I5 as [J1 J2 J3 J4 J5]. constructor; cbn; auto. intros HA. rewrite (HA0 H0) in HA. contradiction.
      * cbn. rewrite Hb5e. apply held_ok_nil.
      * intros _. cbn. split; [reflexivity|exact Hb5e].
      * intros Hc. contradiction.
    + injection E6 as <-. split; [|split; [|split]].
      * eapply InvCore_evolves; [| |exact I5]; [eapply (c_emit _ _ (sa_closed P)); exact (ic_alive _ _ I5)|apply evolves_rview; reflexivity].
      * cbn. apply HB0. exact Hb5.
      * intros Hc. contradiction.
      * intros _. cbn. exact Hc5.
  - (* ICallback *)
    destruct HP as (HI & Hincl & Hh & Hc). change (default_post A B w w').
    assert (Hpre : default_pre A B w) by exact (conj HI (conj Hincl (conj Hh Hc))).
    destruct (alookup t (cbs w)) as [cb|] eqn:EC; [|discriminate E].
    assert (Hbump : forall b, default_pre A B (cb_bump t cb b w)).
    { intros b. apply (PreR_step A B w); [eapply sa_sview; [|exact (ic_alive _ _ HI)]; reflexivity|apply evolves_rview; reflexivity|exact Hpre]. }
    destruct (cb_once cb) as [tk|].
    + destruct (cb_taken cb); [inversion E; subst; apply default_post_of_pre; [exact Hpre|apply cnt_post_refl]|].
      bind_inv E w1 E1. bind_inv E w2 E2. inversion E; subst. clear E.
      pose proof (IHd _ A B _ w1 E1 (Hbump true) I) as Hp1.
      assert (Hpre1 : default_pre A B (despawn t w1)).
      { apply (PreR_step A B w1); [eapply (c_despawn _ _ (sa_closed P)); exact (ic_alive _ _ (proj1 Hp1))|apply evolves_despawn|exact (default_pre_of_post _ _ _ _ Hincl Hp1)]. }
      pose proof (IHd _ A B _ w2 E2 Hpre1 I) as Hp2.
      assert (Hfin : default_pre A B (once_finish t tk w2)).
      { apply (PreR_step A B w2); [eapply (c_oncefin _ _ (sa_closed P)); exact (ic_alive _ _ (proj1 Hp2))| |exact (default_pre_of_post _ _ _ _ Hincl Hp2)].
        apply evolves_once_finish. }
      apply default_post_of_pre; [exact Hfin|].
      apply (cnt_post_trans w (cb_bump t cb true w)); [apply cnt_post_evolves, evolves_rview; reflexivity|].
      apply (cnt_post_trans _ w1); [exact (proj1 (proj2 (proj2 Hp1)))|].
      apply (cnt_post_trans _ (despawn t w1)); [apply cnt_post_evolves, evolves_despawn|].
      apply (cnt_post_trans _ w2); [exact (proj1 (proj2 (proj2 Hp2)))|apply cnt_post_evolves, evolves_once_finish].
    + eapply default_post_step; [|exact (IHd _ A B _ w' E (Hbump false) I)]. apply evolves_rview. reflexivity.
  - (* IBody *)
    destruct HP as (HI & Hincl & Hh & Hc). change (default_post A B w w').
    assert (Hpre : default_pre A B w) by exact (conj HI (conj Hincl (conj Hh Hc))).
    cbn zeta in E. set (sd := sys_or_default P t) in *.
    destruct (body_guard t runno captured w) eqn:EG; [|discriminate E]. cbn [negb] in E.
    assert (Hev0 : evolves w (body_begin P sd t runno captured w)) by (apply evolves_rview; apply rview_body_begin).
    assert (Hb : default_pre A B (body_begin P sd t runno captured w)).
    { apply (PreR_step A B w); [eapply (c_body _ _ (sa_closed P)); [exact EG|exact (ic_alive _ _ HI)]|exact Hev0|exact Hpre]. }
    eapply default_post_step; [exact Hev0|].
    destruct (sd_kind sd).
    + destruct (acts P (OSys t runno) 0 (script_of P t runno) (body_begin P sd t runno captured w)) as [w1 cs] eqn:EA.
      assert (Hev1 : evolves (body_begin P sd t runno captured w) (plain_cleanup cl w1)).
      { eapply evolves_trans; [apply evolves_rview; pose proof (rview_acts P (script_of P t runno) (OSys t runno) 0 (body_begin P sd t runno captured w)) as Hr; rewrite EA in Hr; exact Hr|].
        unfold plain_cleanup. eapply evolves_trans; [apply evolves_run_cleanup|apply evolves_rview; reflexivity]. }
      assert (Hsa1 : storage_alive (plain_cleanup cl w1)).
      { unfold plain_cleanup. eapply (c_emit _ _ (sa_closed P)). eapply (c_cleanup _ _ (sa_closed P)).
        eapply (closed_acts' P _ (sa_closed P)); [exact (ic_alive _ _ (proj1 Hb))|exact EA]. }
      eapply default_post_step; [exact Hev1|]. exact (IHd _ A B _ w' E (PreR_step A B _ _ Hsa1 Hev1 Hb) I).
    + exact (IHd _ A B _ w' E Hb I).
  - (* IExclSteps *)
    destruct HP as (HI & Hincl & Hh & Hc). change (default_post A B w w').
    assert (Hpre : default_pre A B w) by exact (conj HI (conj Hincl (conj Hh Hc))).
    destruct l as [|a r]; [exact (IHd _ A B _ w' E Hpre I)|].
    destruct (act P (OSys s run idx) a w) as [w1 cs] eqn:EA.
    assert (Hev : evolves w w1) by (apply evolves_rview; pose proof (rview_act P (OSys s run idx) a w) as Hr; rewrite EA in Hr; exact Hr).
    assert (Hsa1 : storage_alive w1) by (eapply (closed_act' P _ (sa_closed P)); [exact (ic_alive _ _ HI)|exact EA]).
    bind_inv E w2 E2.
    pose proof (IHd _ A B _ w2 E2 (PreR_step A B _ _ Hsa1 Hev Hpre) I) as Hp2.
    eapply default_post_step; [exact Hev|]. eapply default_post_trans; [exact Hp2|].
    exact (IHd _ A B _ w' E (default_pre_of_post _ _ _ _ Hincl Hp2) I).
  - (* IDirectSteps *)
    destruct HP as (HI & Hincl & Hh & Hc). change (default_post A B w w').
    assert (Hpre : default_pre A B w) by exact (conj HI (conj Hincl (conj Hh Hc))).
    destruct l as [|a r]; [inversion E; subst; apply default_post_of_pre; [exact Hpre|apply cnt_post_refl]|].
    destruct (act P (OTop op idx) a w) as [w1 cs] eqn:EA.
    assert (Hev : evolves w w1) by (apply evolves_rview; pose proof (rview_act P (OTop op idx) a w) as Hr; rewrite EA in Hr; exact Hr).
    assert (Hsa1 : storage_alive w1) by (eapply (closed_act' P _ (sa_closed P)); [exact (ic_alive _ _ HI)|exact EA]).
    bind_inv E w2 E2.
    pose proof (IHd _ A B _ w2 E2 (PreR_step A B _ _ Hsa1 Hev Hpre) I) as Hp2.
    eapply default_post_step; [exact Hev|]. eapply default_post_trans; [exact Hp2|].
    exact (IHd _ A B _ w' E (default_pre_of_post _ _ _ _ Hincl Hp2) I).
  - (* IBatches *)
    destruct HP as (HI & Hincl & Hh & Hc). change (default_post A B w w').
    assert (Hpre : default_pre A B w) by exact (conj HI (conj Hincl (conj Hh Hc))).
    destruct bs as [|b r]; [inversion E; subst; apply default_post_of_pre; [exact Hpre|apply cnt_post_refl]|].
    destruct (acts P (OTop op) idx b w) as [w1 cs] eqn:EA.
    assert (Hev : evolves w w1) by (apply evolves_rview; pose proof (rview_acts P b (OTop op) idx w) as Hr; rewrite EA in Hr; exact Hr).
    assert (Hsa1 : storage_alive w1) by (eapply (closed_acts' P _ (sa_closed P)); [exact (ic_alive _ _ HI)|exact EA]).
    bind_inv E w2 E2.
    pose proof (IHd _ A B _ w2 E2 (PreR_step A B _ _ Hsa1 Hev Hpre) I) as Hp2.
    eapply default_post_step; [exact Hev|]. eapply default_post_trans; [exact Hp2|].
    exact (IHd _ A B _ w' E (default_pre_of_post _ _ _ _ Hincl Hp2) I).
  - (* IReplay *)
    destruct HP as (HI & Hincl & Hh & Hpend & Hkept & Hc1).
    destruct pending as [|b pending].
    + inversion E; subst. split; [apply InvCore_buffer; exact HI|]. split; [cbn; apply held_ok_app; assumption|exact Hc1].
    + destruct (N.eqb_spec (b_sys b) t) as [Hbt|Hbt].
      * bind_inv E w1 E1.
        assert (Hc1' : counter w = 0 -> buffer w = []) by (intros Hq; lia).
        pose proof (IHd _ A B _ w1 E1 (conj HI (conj Hincl (conj Hh Hc1'))) I) as (P1 & P2 & P3 & _).
        apply (IH _ A B w1 w' E). unfold PreR. split; [exact P1|]. split; [exact Hincl|]. split; [exact P2|].
        split; [intros x Hx; apply Hpend; right; exact Hx|]. split; [exact Hkept|apply P3; exact Hc1].
      * apply (IH _ A B w w' E). unfold PreR. split; [exact HI|]. split; [exact Hincl|]. split; [exact Hh|].
        split; [intros x Hx; apply Hpend; right; exact Hx|]. split; [|exact Hc1].
        apply held_ok_app; [exact Hkept|]. intros x [<-|[]]. destruct (Hpend b (or_introl eq_refl)) as [Heq|Hin]; [congruence|exact Hin].
  - (* IDiscard *)
    destruct HP as (HI & Hincl & Hh & Hc1).
    destruct (buffer w) as [|b rest] eqn:EB; [inversion E; subst; split; [exact HI|]; split; [rewrite EB; apply held_ok_nil|exact Hc1]|].
    bind_inv E w1 E1.
    assert (Hpre0 : default_pre A B (rn_discard_pop b rest w)).
    { unfold rn_discard_pop. apply emit_pre. split; [apply InvCore_buffer; exact HI|]. split; [exact Hincl|].
      split; [cbn; intros x Hx; apply Hh; right; exact Hx|cbn; lia]. }
    pose proof (IHd _ A B _ w1 E1 Hpre0 I) as (P1 & P2 & P3 & _).
    apply (IH _ A B w1 w' E). unfold PreR. split; [exact P1|]. split; [exact Hincl|]. split; [exact P2|]. apply P3. cbn. exact Hc1.
  - (* IAbort *)
    destruct HP as (HI & Hincl & Hh & Hc). change (default_post A B w w').
    assert (Hpre : default_pre A B w) by exact (conj HI (conj Hincl (conj Hh Hc))).
    destruct (run_setup su t w) as [w0|] eqn:ES; [|discriminate E].
    bind_inv E w1 E1.
    assert (Hev : evolves w (rn_abort_cleanup su cl w0)).
    { eapply evolves_trans; [exact (evolves_run_setup su t w w0 ES)|]. unfold rn_abort_cleanup.
      eapply evolves_trans; [apply evolves_run_cleanup|apply evolves_rview; reflexivity]. }
    assert (Hsa : storage_alive (rn_abort_cleanup su cl w0)).
    { unfold rn_abort_cleanup. eapply (c_emit _ _ (sa_closed P)). eapply (c_cleanup _ _ (sa_closed P)). eapply sa_run_setup; [exact (ic_alive _ _ HI)|exact ES]. }
    pose proof (IHd _ A B _ w1 E1 (PreR_step A B _ _ Hsa Hev Hpre) I) as Hp1.
    eapply default_post_step; [exact Hev|]. eapply default_post_trans; [exact Hp1|].
    exact (IHd _ A B _ w' E (default_pre_of_post _ _ _ _ Hincl Hp1) I).
  - (* IGC *)
    destruct HP as (HI & Hincl & Hh & Hc). change (default_post A B w w').
    assert (Hpre : default_pre A B w) by exact (conj HI (conj Hincl (conj Hh Hc))).
    destruct (gc_chan w) as [|e r] eqn:EG; [inversion E; subst; apply default_post_of_pre; [exact Hpre|apply cnt_post_refl]|].
    assert (Hev : evolves w (gc_step e r w)) by (unfold gc_step; eapply evolves_trans; [|apply evolves_despawn]; apply evolves_rview; reflexivity).
    assert (Hsa : storage_alive (gc_step e r w)) by (eapply (c_gc _ _ (sa_closed P)); [exact (ic_alive _ _ HI)|exact EG]).
    eapply default_post_step; [exact Hev|]. exact (IHd _ A B _ w' E (PreR_step A B _ _ Hsa Hev Hpre) I).
  - (* IPoll *)
    destruct HP as (HI & Hincl & Hh & Hc). change (default_post A B w w').
    assert (Hpre : default_pre A B w) by exact (conj HI (conj Hincl (conj Hh Hc))).
    destruct (poll w) as [w1 cs] eqn:EPo.
    assert (Hev : evolves w w1) by (apply evolves_rview; pose proof (rview_poll w) as Hr; rewrite EPo in Hr; exact Hr).
    assert (Hsa : storage_alive w1) by (eapply (closed_poll' P _ (sa_closed P)); [exact (ic_alive _ _ HI)|exact EPo]).
    eapply default_post_step; [exact Hev|]. exact (IHd _ A B _ w' E (PreR_step A B _ _ Hsa Hev Hpre) I).
  - (* ITop *)
    destruct HP as (HI & Hincl & Hh & Hc). change (default_post A B w w').
    assert (Hpre : default_pre A B w) by exact (conj HI (conj Hincl (conj Hh Hc))).
    bind_inv E w1 E1. inversion E; subst. clear E.
    assert (H1 : default_post A B w w1).
    { destruct o as [l|l|bs].
      - destruct (acts P (OTop i) 0 l w) as [w2 cs] eqn:EA.
        assert (Hev : evolves w w2) by (apply evolves_rview; pose proof (rview_acts P l (OTop i) 0 w) as Hr; rewrite EA in Hr; exact Hr).
        assert (Hsa : storage_alive w2) by (eapply (closed_acts' P _ (sa_closed P)); [exact (ic_alive _ _ HI)|exact EA]).
        eapply default_post_step; [exact Hev|]. exact (IHd _ A B _ w1 E1 (PreR_step A B _ _ Hsa Hev Hpre) I).
      - exact (IHd _ A B _ w1 E1 Hpre I).
      - bind_inv E1 w2 E2. bind_inv E1 w3 E3. bind_inv E1 w4 E4. inversion E1; subst. clear E1.
        pose proof (IHd _ A B _ w2 E2 Hpre I) as Hp2.
        pose proof (IHd _ A B _ w3 E3 (default_pre_of_post _ _ _ _ Hincl Hp2) I) as Hp3.
        pose proof (IHd _ A B _ w4 E4 (default_pre_of_post _ _ _ _ Hincl Hp3) I) as Hp4.
        assert (Hp04 : default_post A B w w4) by (eapply default_post_trans; [exact Hp2|]; eapply default_post_trans; [exact Hp3|exact Hp4]).
        apply default_post_of_pre; [|eapply cnt_post_trans; [exact (proj1 (proj2 (proj2 Hp04)))|apply cnt_post_evolves; apply evolves_rview; reflexivity]].
        apply (PreR_step A B w4); [eapply (c_clear _ _ (sa_closed P)); exact (ic_alive _ _ (proj1 Hp04))|apply evolves_rview; reflexivity|exact (default_pre_of_post _ _ _ _ Hincl Hp04)]. }
    apply default_post_of_pre; [unfold top_end; apply emit_pre; exact (default_pre_of_post _ _ _ _ Hincl H1)|].
    eapply cnt_post_trans; [exact (proj1 (proj2 (proj2 H1)))|apply cnt_post_evolves; apply evolves_rview; reflexivity].
Qed.
End Runner.

(* ================================================================================================================ *)
(* Consequences at the top level                                                                                    *)
Section TopLevel.
Variable P : program.

Lemma init_invcore : InvCore [] (install_static P init_world) /\ counter (install_static P init_world) = 0 /\ buffer (install_static P init_world) = [].
Proof.
  pose proof (sa_init P) as Hsa. unfold install_static in *.
  set (step := fun (w : world) (s : N) => (reserve s w) <| storage ::= aset s true |> <| cbs ::= aset s (mkCb None 0 0 false true) |> <| spawned ::= cons s |>) in *.
  assert (Hgen : forall l w,
            (forall t b, alookup t (storage w) = Some b -> b = true) -> (forall t, In t (map fst (storage w)) -> In t (spawned w)) ->
            counter w = 0 -> buffer w = [] ->
            let w' := fold_left step l w in
            (forall t b, alookup t (storage w') = Some b -> b = true) /\ (forall t, In t (map fst (storage w')) -> In t (spawned w')) /\
            counter w' = 0 /\ buffer w' = []).
  { induction l as [|s l IH]; intros w Hall Hk HC HB; cbn [fold_left]; [auto|]. apply IH.
    - intros t b Ht. subst step. cbn in Ht. assert (Hr : rview (reserve s w) = rview w) by apply rview_reserve. unfold rview in Hr. inversion Hr as [[R1 R2 R3 R4]].
      rewrite R3 in Ht. destruct (N.eq_dec t s) as [->|Hne]; [rewrite alookup_aset_same in Ht; congruence|].
      rewrite alookup_aset_other in Ht by exact Hne. eapply Hall; eauto.
    - intros t Ht. subst step. cbn in Ht |- *. assert (Hr : rview (reserve s w) = rview w) by apply rview_reserve. unfold rview in Hr. inversion Hr as [[R1 R2 R3 R4]].
      rewrite R3 in Ht. rewrite R4. apply aset_keys in Ht. destruct Ht as [Ht|Ht]; [right; apply Hk; exact Ht|left; symmetry; exact Ht].
    - subst step. cbn. assert (Hr : rview (reserve s w) = rview w) by apply rview_reserve. unfold rview in Hr. inversion Hr. congruence.
    - subst step. cbn. assert (Hr : rview (reserve s w) = rview w) by apply rview_reserve. unfold rview in Hr. inversion Hr. congruence. }
  destruct (Hgen (map snd (p_wr P) ++ map (fun x => fst (snd x)) (p_xr P)) init_world) as (H1 & H2 & H3 & H4);
    [intros t b Ht; discriminate Ht|intros t []|reflexivity|reflexivity|].
  split; [|split; assumption]. constructor.
  - intros t Ht. apply H1 in Ht. discriminate.
  - intros t [].
  - intros H; contradiction.
  - exact H2.
  - exact Hsa.
Qed.

(* every top-level operation starts and ends with an empty context *)
Theorem top_invariant fuel : forall l i w w', InvCore [] w -> counter w = 0 -> buffer w = [] ->
  run_tops P fuel i l w = Ok w' -> InvCore [] w' /\ counter w' = 0 /\ buffer w' = [].
Proof.
  induction l as [|o l IHl]; intros i w w' HI HC HB E; cbn [run_tops] in E; [inversion E; subst; auto|].
  destruct (exec P fuel (ITop i o) w) as [w1| |] eqn:E1; cbn [bind] in E; try discriminate E.
  assert (HPre : PreR (ITop i o) [] [] w).
  { unfold PreR. split; [exact HI|]. split; [apply incl_refl|]. split; [rewrite HB; apply held_ok_nil|intros _; exact HB]. }
  pose proof (exec_runner P fuel _ [] [] w w1 E1 HPre) as (P1 & P2 & (P3 & _) & P4). cbn in P4.
  eapply IHl; [exact P1|apply P3; exact HC|apply held_ok_empty; exact P2|exact E].
Qed.

(* C11 (runner part) / C02(d): when the outermost flush returns, nothing is waiting to run, the tree bookkeeping is reset
   and every surviving system command has its system back *)
Theorem run_quiescent fuel w' : run P fuel = Ok w' ->
  counter w' = 0 /\ buffer w' = [] /\ (forall t, alookup t (storage w') <> Some false).
Proof.
  intros E. unfold run in E. destruct init_invcore as (HI & HC & HB).
  destruct (top_invariant fuel _ _ _ _ HI HC HB E) as (I' & C' & B').
  split; [exact C'|]. split; [exact B'|]. intros t Ht. exact (ic_taken _ _ I' t Ht).
Qed.
End TopLevel.
