(* PollSpec.v — C08 (step level): how removals and despawns are recorded, and what one poll schedules. *)
From Cobweb Require Import Machine.
From CobwebProofs Require Import ListLemmas TablesSpec.

(* ---------- recording ---------- *)
(* every removal of a reactive component appends exactly one record, stamped with a fresh sequence number *)
Theorem removal_is_recorded_once c e w :
  removed (push_removed c e w) = removed w ++ [(c, (e, removed_seq w, generation w))] /\ removed_seq (push_removed c e w) = N.succ (removed_seq w).
Proof. split; reflexivity. Qed.
(* the remove command records iff the component was there, on a live entity *)
Theorem remove_command_records_iff_removed (P : program) c e w :
  removed (fst (apply_prim P (CRemoveReact c e) w)) =
  if is_alive e w && (match alookup2 c e (comps w) with Some _ => true | None => false end)
  then removed w ++ [(c, (e, removed_seq w, generation w))] else removed w.
Proof. cbn [apply_prim fst]. destruct (is_alive e w); [|reflexivity]. destruct (alookup2 c e (comps w)); reflexivity. Qed.

(* sequence numbers of recorded removals stay below the counter *)
Definition RSeq (w : world) : Prop := forall c e seq g, In (c, (e, seq, g)) (removed w) -> seq < removed_seq w.
Lemma RSeq_push c e w : RSeq w -> RSeq (push_removed c e w).
Proof.
  intros H c0 e0 seq g Hin. cbn [push_removed removed removed_seq set] in *. apply in_app_or in Hin. destruct Hin as [Hin|[Heq|[]]].
  - apply H in Hin. lia.
  - inversion Heq; subst. lia.
Qed.
Lemma RSeq_push_all cs e : forall w, RSeq w -> RSeq (push_removed_all cs e w).
Proof. induction cs as [|c cs IH]; intros w H; cbn; [exact H|]. apply IH, RSeq_push, H. Qed.
Lemma RSeq_clear w : RSeq w -> RSeq (clear_trackers w).
Proof. intros H c e seq g Hin. cbn [clear_trackers removed removed_seq set] in *. apply filter_In in Hin. apply (H c e seq g). exact (proj1 Hin). Qed.

(* ---------- one poll ---------- *)
Lemma unread_none c cursor l : (forall c0 e seq g, In (c0, (e, seq, g)) l -> seq < cursor) -> unread c cursor l = [].
Proof.
  induction l as [|[c' [[e seq] g]] l IH]; intros H; cbn [unread]; [reflexivity|].
  assert (Hlt : seq < cursor) by (eapply H; left; reflexivity).
  destruct (N.leb cursor seq) eqn:E; [apply N.leb_le in E; lia|]. rewrite andb_false_r. apply IH. intros c0 e0 s0 g0 Hin. eapply H. right. exact Hin.
Qed.

(* the reactions a poll schedules for removals: for every checker, for every record not yet read by it, in order, the
   reactions of exactly the reactors registered for that removal *)
Lemma poll_removals_spec chk w :
  poll_removals chk w = (map (fun x => (fst x, removed_seq w)) chk,
                         flat_map (fun x => flat_map (removal_cmds_for (fst x) w) (unread (fst x) (snd x) (removed w))) chk).
Proof.
  induction chk as [|[c cursor] r IH]; cbn [poll_removals map flat_map]; [reflexivity|]. rewrite IH. reflexivity.
Qed.
Theorem removal_reactions_are_exact w c e : wf_tables w ->
  removal_cmds_for c w e = map (fun t => CReact (RcEntity e (RRem c) t)) (spec_targets (KRemoval c e) w).
Proof. intros Hwf. unfold removal_cmds_for. rewrite <- (dispatch_removal w c e Hwf), map_app, map_map. reflexivity. Qed.
(* after a poll every checker's cursor stands at the counter: a second poll finds nothing to read *)
Theorem a_removal_is_read_once chk w : RSeq w ->
  let chk' := fst (poll_removals chk w) in snd (poll_removals chk' w) = [].
Proof.
  intros H. cbn zeta. rewrite !poll_removals_spec. cbn [fst snd].
  induction chk as [|[c cursor] r IH]; cbn [map flat_map]; [reflexivity|]. rewrite IH, app_nil_r. cbn [fst snd].
  rewrite unread_none; [reflexivity|]. intros c0 e seq g Hin. eapply H. exact Hin.
Qed.

(* despawns: the watched entity is sent once, when its tracker component is dropped, and is no longer watched *)
Theorem despawn_of_a_watched_entity_is_sent_once e w : memN e (dtrackers w) = true ->
  despawn_chan (dsp_tracker e w) = despawn_chan w ++ [e] /\ dtrackers (dsp_tracker e w) = removeN e (dtrackers w).
Proof. intros H. unfold dsp_tracker. rewrite H. split; reflexivity. Qed.
Theorem despawn_of_an_unwatched_entity_sends_nothing e w : memN e (dtrackers w) = false -> dsp_tracker e w = w.
Proof. intros H. unfold dsp_tracker. rewrite H. reflexivity. Qed.
(* the reactions a poll schedules for despawns: for every entity on the channel, in order, one reaction per registered
   handle; the entity's table entry is removed, so it cannot fire again *)
Theorem despawn_reactions_head e r w :
  snd (poll_despawns (e :: r) w) =
  map (fun h => CReact (RcDespawn e (handle_sys h) h)) (tbl_get e (desp_tbl w)) ++ snd (poll_despawns r (w <| desp_tbl := aremove e (desp_tbl w) |>)).
Proof. cbn [poll_despawns]. destruct (poll_despawns r (w <| desp_tbl := aremove e (desp_tbl w) |>)) as [w1 cs]. reflexivity. Qed.
Theorem despawn_reaction_targets_are_exact w e : wf_tables w ->
  map handle_sys (tbl_get e (desp_tbl w)) = spec_targets (KDespawn e) w.
Proof. exact (dispatch_despawn w e). Qed.
Theorem despawn_entry_is_consumed e w : tbl_get e (desp_tbl (w <| desp_tbl := aremove e (desp_tbl w) |>)) = [].
Proof. unfold tbl_get. cbn [desp_tbl set]. rewrite alookup_aremove_same. reflexivity. Qed.
(* a poll empties the despawn channel *)
Lemma despawn_chan_poll_despawns chan : forall w, despawn_chan (fst (poll_despawns chan w)) = despawn_chan w.
Proof.
  induction chan as [|e r IH]; intros w; cbn [poll_despawns]; [reflexivity|].
  specialize (IH (w <| desp_tbl := aremove e (desp_tbl w) |>)). destruct (poll_despawns r (w <| desp_tbl := aremove e (desp_tbl w) |>)) as [w1 cs]. exact IH.
Qed.
Theorem poll_empties_the_despawn_channel w : despawn_chan (fst (poll w)) = [].
Proof.
  unfold poll. destruct (poll_removals (removal_checkers w) w) as [chk c1].
  pose proof (despawn_chan_poll_despawns (despawn_chan (w <| removal_checkers := chk |>)) ((w <| removal_checkers := chk |>) <| despawn_chan := [] |>)) as H.
  destruct (poll_despawns _ _) as [w1 c2]. exact H.
Qed.
