(* PollSpec.v — C08 (step level): how removals and despawns are recorded, and what one poll schedules. *)
From Cobweb Require Import Machine.
From CobwebProofs Require Import ListLemmas TablesSpec.

(* ---------- recording ---------- *)
(* every removal of a reactive component appends exactly one record, stamped with a fresh sequence number *)
Theorem removal_is_recorded_once c e w :
  removed (push_removed c e w) = removed w ++ [(c, (e, removed_seq w, generation w))] /\ removed_seq (push_removed c e w) = N.succ (removed_seq w).
Proof. split; reflexivity. Qed.
(* the remove command records iff the component was there, on a live entity *)
Theorem remove_command_records_iff_removed (P : program) c e w :
  removed (fst (apply_prim P (CRemoveReact c e) w)) =
  if is_alive e w && (match alookup2 c e (comps w) with Some _ => true | None => false end)
  then removed w ++ [(c, (e, removed_seq w, generation w))] else removed w.
Proof. cbn [apply_prim fst]. destruct (is_alive e w); [|reflexivity]. destruct (alookup2 c e (comps w)); reflexivity. Qed.

(* sequence numbers of recorded removals stay below the counter *)
Definition RSeq (w : world) : Prop := forall c e seq g, In (c, (e, seq, g)) (removed w) -> seq < removed_seq w.
Lemma RSeq_push c e w : RSeq w -> RSeq (push_removed c e w).
Proof.
  intros H c0 e0 seq g Hin. cbn [push_removed removed removed_seq set] in *. apply in_app_or in Hin. destruct Hin as [Hin|[Heq|[]]].
  - apply H in Hin. lia.
  - inversion Heq; subst. lia.
Qed.
Lemma RSeq_push_all cs e : forall w, RSeq w -> RSeq (push_removed_all cs e w).
Proof. induction cs as [|c cs IH]; intros w H; cbn; [exact H|]. apply IH, RSeq_push, H. Qed.
Lemma RSeq_clear w : RSeq w -> RSeq (clear_trackers w).
Proof. intros H c e seq g Hin. cbn [clear_trackers removed removed_seq set] in *. apply filter_In in Hin. apply (H c e seq g). exact (proj1 Hin). Qed.

(* ---------- one poll ---------- *)
Lemma unread_none c cursor l : (forall c0 e seq g, In (c0, (e, seq, g)) l -> seq < cursor) -> unread c cursor l = [].
Proof.
  induction l as [|[c' [[e seq] g]] l IH]; intros H; cbn [unread]; [reflexivity|].
  assert (Hlt : seq < cursor) by (eapply H; left; reflexivity).
  destruct (N.leb cursor seq) eqn:E; [apply N.leb_le in E; lia|]. rewrite andb_false_r. apply IH. intros c0 e0 s0 g0 Hin. eapply H. right. exact Hin.
Qed.

(* the reactions a poll schedules for removals: for every checker, for every record not yet read by it, in order, the
   reactions of exactly the reactors registered for that removal *)
Lemma poll_removals_spec chk w :
  poll_removals chk w = (map (fun x => (fst x, removed_seq w)) chk,
                         flat_map (fun x => flat_map (removal_cmds_for (fst x) w) (unread (fst x) (snd x) (removed w))) chk).
Proof.
  induction chk as [|[c cursor] r IH]; cbn [poll_removals map flat_map]; [reflexivity|]. rewrite IH. reflexivity.
Qed.
Theorem removal_reactions_are_exact w c e : wf_tables w ->
  removal_cmds_for c w e = map (fun t => CReact (RcEntity e (RRem c) t)) (spec_targets (KRemoval c e) w).
Proof. intros Hwf. unfold removal_cmds_for. rewrite <- (dispatch_removal w c e Hwf), map_app, map_map. reflexivity. Qed.
(* after a poll every checker's cursor stands at the counter: a second poll finds nothing to read *)
Theorem a_removal_is_read_once chk w : RSeq w ->
  let chk' := fst (poll_removals chk w) in snd (poll_removals chk' w) = [].
Proof.
  intros H. cbn zeta. rewrite !poll_removals_spec. cbn [fst snd].
  induction chk as [|[c cursor] r IH]; cbn [map flat_map]; [reflexivity|]. rewrite IH, app_nil_r. cbn [fst snd].
  rewrite unread_none; [reflexivity|]. intros c0 e seq g Hin. eapply H. exact Hin.
Qed.

(* despawns: the watched entity is sent once, when its tracker component is dropped, and is no longer watched *)
Theorem despawn_of_a_watched_entity_is_sent_once e w : memN e (dtrackers w) = true ->
  despawn_chan (dsp_tracker e w) = despawn_chan w ++ [e] /\ dtrackers (dsp_tracker e w) = removeN e (dtrackers w).
Proof. intros H. unfold dsp_tracker. rewrite H. split; reflexivity. Qed.
Theorem despawn_of_an_unwatched_entity_sends_nothing e w : memN e (dtrackers w) = false -> dsp_tracker e w = w.
Proof. intros H. unfold dsp_tracker. rewrite H. reflexivity. Qed.
(* the reactions a poll schedules for despawns: for every entity on the channel, in order, one reaction per registered
   handle; the entity's table entry is removed, so it cannot fire again *)
Theorem despawn_reactions_head e r w :
  snd (poll_despawns (e :: r) w) =
  map (fun h => CReact (RcDespawn e (handle_sys h) h)) (tbl_get e (desp_tbl w)) ++ snd (poll_despawns r (w <| desp_tbl := aremove e (desp_tbl w) |>)).
Proof. cbn [poll_despawns]. destruct (poll_despawns r (w <| desp_tbl := aremove e (desp_tbl w) |>)) as [w1 cs]. reflexivity. Qed.
Theorem despawn_reaction_targets_are_exact w e : wf_tables w ->
  map handle_sys (tbl_get e (desp_tbl w)) = spec_targets (KDespawn e) w.
Proof. exact (dispatch_despawn w e). Qed.
Theorem despawn_entry_is_consumed e w : tbl_get e (desp_tbl (w <| desp_tbl := aremove e (desp_tbl w) |>)) = [].
Proof. unfold tbl_get. cbn [desp_tbl set]. rewrite alookup_aremove_same. reflexivity. Qed.
(* a poll empties the despawn channel *)
Lemma despawn_chan_poll_despawns chan : forall w, despawn_chan (fst (poll_despawns chan w)) = despawn_chan w.
Proof.
  induction chan as [|e r IH]; intros w; cbn [poll_despawns]; [reflexivity|].
  specialize (IH (w <| desp_tbl := aremove e (desp_tbl w) |>)). destruct (poll_despawns r (w <| desp_tbl := aremove e (desp_tbl w) |>)) as [w1 cs]. exact IH.
Qed.
Theorem poll_empties_the_despawn_channel w : despawn_chan (fst (poll w)) = [].
Proof.
  unfold poll. destruct (poll_removals (removal_checkers w) w) as [chk c1].
  pose proof (despawn_chan_poll_despawns (despawn_chan (w <| removal_checkers := chk |>)) ((w <| removal_checkers := chk |>) <| despawn_chan := [] |>)) as H.
  destruct (poll_despawns _ _) as [w1 c2]. exact H.
Qed.

(* ================================================================================================================ *)
(* RSeq (sequence numbers of recorded removals stay below the counter) is an invariant of every interpreter step     *)
Definition rmview (w : world) := (removed w, removed_seq w).
Lemma RSeq_rmview w w' : rmview w' = rmview w -> RSeq w -> RSeq w'.
Proof. unfold rmview, RSeq. intros H. inversion H as [[H1 H2]]. rewrite H1, H2. auto. Qed.
Lemma rmview_handle_drop h w : rmview (handle_drop h w) = rmview w.
Proof.
  destruct h as [s|g s]; cbn; [reflexivity|]. unfold sig_drop.
  destruct (alookup g (sigs w)) as [[e n]|]; [|reflexivity]. destruct (N.leb n 1); reflexivity.
Qed.
Lemma rmview_handle_clone h w : rmview (handle_clone h w) = rmview w.
Proof. destruct h as [s|g s]; cbn; [reflexivity|]. unfold sig_clone. destruct (alookup g (sigs w)) as [[e n]|]; reflexivity. Qed.
Lemma rmview_handles_drop hs : forall w, rmview (handles_drop hs w) = rmview w.
Proof. induction hs as [|h hs IH]; intros w; cbn; [reflexivity|]. rewrite IH. apply rmview_handle_drop. Qed.
Lemma rmview_drop_callback t w : rmview (drop_callback t w) = rmview w.
Proof. unfold drop_callback. destruct (alookup t (cbs w)) as [cb|]; [destruct (cb_live cb)|]; reflexivity. Qed.
Lemma rmview_drop_ddata d w : rmview (drop_ddata d w) = rmview w.
Proof. destruct d as [? ? ?|? ? ? ?|? [?|]]; reflexivity. Qed.
Lemma rmview_take_sysevents tys : forall w, rmview (snd (take_sysevents tys w)) = rmview w.
Proof.
  induction tys as [|ty r IH]; intros w; cbn [take_sysevents]; [reflexivity|].
  destruct (peek_sysevent ty w) as [p|]; [|apply IH].
  match goal with |- context [take_sysevents r ?w1] => specialize (IH w1); destruct (take_sysevents r w1) end. exact IH.
Qed.
Lemma rmview_sample_readers sd x w : rmview (snd (sample_readers sd x w)) = rmview w.
Proof.
  unfold sample_readers. pose proof (rmview_take_sysevents TYPES w) as H1.
  destruct (sd_take sd); [destruct (take_sysevents TYPES w) as [s w1]; exact H1|reflexivity].
Qed.
Lemma rmview_revoke_one s t w : rmview (revoke_one s t w) = rmview w.
Proof.
  assert (Hent : forall e rt, rmview (if is_alive e w then
             match alookup e (ereactors w) with
             | Some l => let (d, k) := er_remove rt s l in handles_drop d (w <| ereactors := aset e k (ereactors w) |>)
             | None => w end else w) = rmview w).
  { intros e rt. destruct (is_alive e w); [|reflexivity]. destruct (alookup e (ereactors w)) as [l|]; [|reflexivity].
    destruct (er_remove rt s l) as [d k]. rewrite rmview_handles_drop. reflexivity. }
  assert (Hcomp : forall kd c, rmview (comp_revoke kd c s w) = rmview w).
  { intros kd c. unfold comp_revoke. destruct (alookup c (comp_tbl w)) as [[[i m] r]|]; [|reflexivity].
    destruct (remove_first s match kd with KIns => i | KMut => m | KRem => r end) as [o l'].
    destruct (match kd with KIns => (l', m, r) | KMut => (i, l', r) | KRem => (i, m, l') end) as [[i' m'] r'].
    destruct o as [h|]; [rewrite rmview_handle_drop|]; (destruct i'; [destruct m'; [destruct r'|]|]); reflexivity. }
  destruct t; cbn [revoke_one]; try apply Hent; try apply Hcomp.
  - destruct (tbl_revoke ty s (bc_tbl w)) as [o t']. destruct o; [rewrite rmview_handle_drop|]; reflexivity.
  - destruct (tbl_revoke ty s (any_tbl w)) as [o t']. destruct o; [rewrite rmview_handle_drop|]; reflexivity.
  - destruct (tbl_revoke r s (res_tbl w)) as [o t']. destruct o; [rewrite rmview_handle_drop|]; reflexivity.
  - destruct (tbl_revoke e s (desp_tbl w)) as [o t']. destruct o; [rewrite rmview_handle_drop|]; reflexivity.
Qed.
Lemma rmview_revoke_all s ts : forall w, rmview (revoke_all s ts w) = rmview w.
Proof. induction ts as [|t ts IH]; intros w; cbn; [reflexivity|]. rewrite IH. apply rmview_revoke_one. Qed.
Lemma rmview_reg_triggers_cmds h ts : forall w, rmview (fst (reg_triggers_cmds h ts w)) = rmview w.
Proof.
  induction ts as [|t ts IH]; intros w; cbn [reg_triggers_cmds]; [reflexivity|].
  destruct (reg_trigger_cmds h t w) as [w1 c1] eqn:E1. destruct (reg_triggers_cmds h ts w1) as [w2 c2] eqn:E2. cbn [fst].
  assert (H1 : rmview w1 = rmview w).
  { destruct t; cbn in E1; try (inversion E1; subst; apply rmview_handle_clone).
    destruct (is_alive e w); inversion E1; subst; [apply rmview_handle_clone|reflexivity]. }
  specialize (IH w1). rewrite E2 in IH. cbn [fst] in IH. congruence.
Qed.
Lemma rmview_poll_despawns chan : forall w, rmview (fst (poll_despawns chan w)) = rmview w.
Proof.
  induction chan as [|e r IH]; intros w; cbn [poll_despawns]; [reflexivity|].
  specialize (IH (w <| desp_tbl := aremove e (desp_tbl w) |>)). destruct (poll_despawns r _) as [w2 cs]. exact IH.
Qed.
Lemma rmview_poll w : rmview (fst (poll w)) = rmview w.
Proof.
  unfold poll. destruct (poll_removals (removal_checkers w) w) as [chk c1].
  pose proof (rmview_poll_despawns (despawn_chan (w <| removal_checkers := chk |>)) ((w <| removal_checkers := chk |>) <| despawn_chan := [] |>)) as H.
  destruct (poll_despawns _ _) as [w2 c2]. exact H.
Qed.
Lemma rmview_comp_push kd c h w : rmview (comp_push kd c h w) = rmview w.
Proof. unfold comp_push. destruct (alookup c (comp_tbl w)) as [[[i m] r]|]; destruct kd; reflexivity. Qed.
Lemma rmview_dsp_storage e w : rmview (dsp_storage e w) = rmview w.
Proof.
  unfold dsp_storage. destruct (alookup e (storage w)) as [[|]|]; try reflexivity.
  etransitivity; [|apply (rmview_drop_callback e w)]. reflexivity.
Qed.
Lemma rmview_dsp_ereactors e w : rmview (dsp_ereactors e w) = rmview w.
Proof.
  unfold dsp_ereactors. destruct (alookup e (ereactors w)) as [l|]; [|reflexivity].
  etransitivity; [|apply (rmview_handles_drop (map snd l) w)]. reflexivity.
Qed.
Lemma rmview_dsp_tracker e w : rmview (dsp_tracker e w) = rmview w.
Proof. unfold dsp_tracker. destruct (memN e (dtrackers w)); reflexivity. Qed.
Lemma rmview_dsp_data e w : rmview (dsp_data e w) = rmview w.
Proof.
  unfold dsp_data. destruct (alookup e (dataents w)) as [d|]; [|reflexivity].
  etransitivity; [|apply (rmview_drop_ddata d w)]. reflexivity.
Qed.
Lemma rmview_dsp_alive e w : rmview (dsp_alive e w) = rmview w. Proof. reflexivity. Qed.
Lemma rmview_dsp_xlocals e w : rmview (dsp_xlocals e w) = rmview w. Proof. reflexivity. Qed.
Lemma rmview_reserve id w : rmview (reserve id w) = rmview w.
Proof. unfold reserve, bind_id. destruct (memN id (bound w)); reflexivity. Qed.
Lemma RSeq_dsp_comps e w : RSeq w -> RSeq (dsp_comps e w).
Proof. intros H. unfold dsp_comps. eapply RSeq_rmview; [|apply RSeq_push_all; exact H]. reflexivity. Qed.
Lemma RSeq_despawn e w : RSeq w -> RSeq (despawn e w).
Proof.
  intros H. unfold despawn. destruct (negb (is_alive e w)); [exact H|].
  eapply RSeq_rmview; [apply rmview_dsp_xlocals|]. eapply RSeq_rmview; [apply rmview_dsp_data|]. eapply RSeq_rmview; [apply rmview_dsp_tracker|].
  eapply RSeq_rmview; [apply rmview_dsp_ereactors|]. eapply RSeq_rmview; [apply rmview_dsp_storage|]. apply RSeq_dsp_comps.
  eapply RSeq_rmview; [apply rmview_dsp_alive|exact H].
Qed.
Lemma RSeq_try_cleanup d w : RSeq w -> RSeq (try_cleanup_data_entity d w).
Proof.
  intros H. unfold try_cleanup_data_entity. destruct (negb (is_alive d w)); [exact H|].
  destruct (alookup d (dataents w)) as [[ty p cnt|ty t p cnt|ty p]|]; try exact H.
  - match goal with |- RSeq (if ?b then despawn d ?w1 else ?w1) => destruct b; [apply RSeq_despawn|]; (eapply RSeq_rmview; [|exact H]; reflexivity) end.
  - match goal with |- RSeq (if ?b then despawn d ?w1 else ?w1) => destruct b; [apply RSeq_despawn|]; (eapply RSeq_rmview; [|exact H]; reflexivity) end.
Qed.
Lemma RSeq_run_cleanup cl w : RSeq w -> RSeq (run_cleanup cl w).
Proof.
  intros H. destruct cl; cbn [run_cleanup].
  - exact H.
  - apply RSeq_despawn. eapply RSeq_rmview; [|exact H]. reflexivity.
  - eapply RSeq_rmview; [|exact H]. reflexivity.
  - destruct (snd (cur (tr_de w))) as [h|].
    + eapply RSeq_rmview; [apply rmview_handle_drop|]. eapply RSeq_rmview; [|exact H]. reflexivity.
    + eapply RSeq_rmview; [|exact H]. reflexivity.
  - apply RSeq_try_cleanup. eapply RSeq_rmview; [|exact H]. reflexivity.
  - apply RSeq_try_cleanup. eapply RSeq_rmview; [|exact H]. reflexivity.
Qed.

Section RSteps.
Variable P : program.
Lemma rmview_act o a w : rmview (fst (act P o a w)) = rmview w.
Proof.
  destruct a; cbn [act];
  repeat match goal with
         | |- context [if ?b then _ else _] => destruct b
         | |- context [match alookup2 ?a ?b ?c with _ => _ end] => destruct (alookup2 a b c)
         | |- context [match alookup ?a ?c with _ => _ end] => destruct (alookup a c) as [[? ?]|]
         | |- context [match ?m with Persistent => _ | _ => _ end] => destruct m
         end; cbn [fst]; try reflexivity; try apply rmview_reserve.
  all: try (destruct (alookup wr (p_wr P)); reflexivity).
  all: try (change (rmview (reserve s w) = rmview w); apply rmview_reserve).
Qed.
Lemma RSeq_prim c w : RSeq w -> RSeq (fst (apply_prim P c w)).
Proof.
  intros H. destruct c; cbn [apply_prim]; try exact H; try (eapply RSeq_rmview; [|exact H]; reflexivity).
  - destruct (is_alive d w); (eapply RSeq_rmview; [|exact H]; reflexivity).
  - destruct (tbl_get ty (bc_tbl w)); cbn [fst]; (eapply RSeq_rmview; [|exact H]; reflexivity).
  - destruct (entity_targets e (REvent ty) w ++ map handle_sys (tbl_get ty (any_tbl w))); cbn [fst]; (eapply RSeq_rmview; [|exact H]; reflexivity).
  - match goal with |- context [if ?b then _ else _] => destruct b end; cbn [fst]; first [exact H | eapply RSeq_rmview; [|exact H]; reflexivity].
  - destruct (is_alive e w); (eapply RSeq_rmview; [|exact H]; reflexivity).
  - cbn [fst]. destruct (is_alive e w); [|exact H]. destruct (alookup2 c e (comps w)); [|exact H].
    apply RSeq_push. eapply RSeq_rmview; [|exact H]. reflexivity.
  - apply RSeq_despawn. exact H.
  - apply RSeq_despawn. exact H.
  - destruct (is_alive s w && negb (memN s (spawned w))); cbn [fst]; first [exact H | eapply RSeq_rmview; [|exact H]; reflexivity].
  - cbn [fst]. destruct (negb (is_alive s w)); [eapply RSeq_rmview; [|exact H]; reflexivity|]. destruct (negb (memN s (spawned w))); first [exact H | eapply RSeq_rmview; [|exact H]; reflexivity].
  - eapply RSeq_rmview; [|exact H].
    assert (Hh : forall h w0, rmview (fst (let (w1, cs) := reg_triggers_cmds h b w0 in (handle_drop h w1, cs))) = rmview w0).
    { intros h w0. pose proof (rmview_reg_triggers_cmds h b w0) as H1. destruct (reg_triggers_cmds h b w0) as [w1 cs]. cbn [fst] in *.
      rewrite rmview_handle_drop. exact H1. }
    destruct m; [apply Hh| |]; (unfold sig_new; rewrite Hh; reflexivity).
  - eapply RSeq_rmview; [|exact H]. destruct t; cbn [fst]; try apply rmview_handle_drop; try reflexivity.
    + apply rmview_comp_push.
    + apply rmview_comp_push.
    + rewrite rmview_comp_push. unfold track_removals. destruct (ahas c (removal_checkers w)); reflexivity.
  - eapply RSeq_rmview; [|exact H]. destruct (is_alive e w); [destruct (alookup e (ereactors w)); reflexivity|apply rmview_handle_drop].
  - eapply RSeq_rmview; [|exact H]. unfold track_removals. destruct (ahas c (removal_checkers w)); reflexivity.
  - eapply RSeq_rmview; [|exact H]. destruct (is_alive e w); [|apply rmview_handle_drop].
    match goal with |- context [if ?b then _ else _] => destruct b end; reflexivity.
  - destruct tk as [ts s]. eapply RSeq_rmview; [apply rmview_revoke_all|exact H].
  - apply RSeq_run_cleanup. exact H.
  - destruct (alookup x (p_xr P)) as [[s shape]|]; [destruct (is_alive e w)|]; exact H.
  - destruct (alookup x (p_xr P)) as [[s shape]|]; exact H.
  - destruct (is_alive e w); first [exact H | eapply RSeq_rmview; [|exact H]; reflexivity].
  - cbn [fst]. destruct (is_alive e w); [|exact H]. destruct (alookup e (ereactors w)); [|exact H].
    match goal with |- context [if ?b then _ else _] => destruct b end; first [exact H | eapply RSeq_rmview; [|exact H]; reflexivity].
  - eapply RSeq_rmview; [apply rmview_poll|exact H].
Qed.
End RSteps.

From CobwebProofs Require Import Closed.
Section RClosed.
Variable P : program.
Lemma RSeq_closed : closed P RSeq.
Proof.
  constructor.
  - intros e w H. eapply RSeq_rmview; [|exact H]. reflexivity.
  - intros c w H. apply RSeq_prim. exact H.
  - intros o a w H. eapply RSeq_rmview; [apply rmview_act|exact H].
  - intros c w t su cl w' H E. eapply RSeq_rmview; [|exact H].
    destruct c; try discriminate E; cbn in E; try (inversion E; subst; reflexivity). destruct r; inversion E; subst; reflexivity.
  - intros e r w H _. unfold gc_step. apply RSeq_despawn. eapply RSeq_rmview; [|exact H]. reflexivity.
  - intros w H. eapply RSeq_rmview; [apply rmview_poll|exact H].
  - intros su t w w' H E. eapply RSeq_rmview; [|exact H].
    destruct su; cbn [run_setup] in E; repeat match type of E with match ?x with _ => _ end = _ => destruct x; try discriminate E end; inversion E; subst; reflexivity.
  - intros cl w H. apply RSeq_run_cleanup. exact H.
  - intros b w H. exact H.
  - intros n w H. exact H.
  - intros t b w H. exact H.
  - intros t k w H _. unfold rn_dropped. eapply RSeq_rmview; [|exact H]. cbn [rmview removed removed_seq emit set]. exact (rmview_drop_callback t w).
  - intros t k w H _. unfold rn_despawn_missing. eapply RSeq_rmview; [|apply (RSeq_despawn t (drop_callback t w)); eapply RSeq_rmview; [apply rmview_drop_callback|exact H]]. reflexivity.
  - intros t w H. apply RSeq_despawn. exact H.
  - intros t cb b w H _ _. exact H.
  - intros t tk w H. unfold once_finish. destruct (alookup t (cbs w)); [|exact H]. eapply RSeq_rmview; [|exact H]. reflexivity.
  - intros sd t r c w _ H. eapply RSeq_rmview; [|exact H]. unfold body_begin, state_bump.
    assert (Hs : rmview (body_sample P sd t r c w) = rmview w).
    { unfold body_sample. pose proof (rmview_sample_readers sd (xsys_of P t) w) as H1.
      destruct (sample_readers sd (xsys_of P t) w) as [sm w1]. cbn [snd] in H1.
      destruct (sm_l sm) as [[src [v|]]|]; try exact H1. destruct (xsys_of P t) as [[x ?]|]; exact H1. }
    destruct (alookup t (cbs (body_sample P sd t r c w))); exact Hs.
  - intros w H. apply RSeq_clear. exact H.
Qed.
Lemma RSeq_init : RSeq (install_static P init_world).
Proof.
  assert (Hgen : forall l w, rmview w = rmview init_world -> rmview (fold_left (fun w s => (reserve s w) <| storage ::= aset s true |> <| cbs ::= aset s (mkCb None 0 0 false true) |> <| spawned ::= cons s |>) l w) = rmview init_world).
  { induction l as [|s l IH]; intros w H; cbn [fold_left]; [exact H|]. apply IH. etransitivity; [|exact H].
    etransitivity; [|apply (rmview_reserve s w)]. reflexivity. }
  eapply RSeq_rmview; [apply Hgen; reflexivity|]. intros c e seq g [].
Qed.
(* in every state any program can reach, a removal record is read at most once by each checker *)
Theorem RSeq_reachable fuel w' : run P fuel = Ok w' -> RSeq w'.
Proof. intros E. unfold run in E. eapply run_tops_closed; [apply RSeq_closed|apply RSeq_init|exact E]. Qed.
Theorem RSeq_exec fuel i w w' : RSeq w -> exec P fuel i w = Ok w' -> RSeq w'.
Proof. apply exec_closed. apply RSeq_closed. Qed.
End RClosed.
