(* PrepSpec.v — C08 / C12 / C05 over whole executions: the ghost list g_prep (one entry per Command::apply that parked
   event data: ticket, target system, parked items) is append-only, grows only when a command is applied, and the
   entries of a command list appear in list order, each at the head of the block of entries it transitively caused.
   Tickets are strictly increasing in parking order.  Together with TopLevel.every_parked_command_is_set_up_exactly_once
   this ties "scheduled by poll" to "set up exactly once (run or abort)" for whole runs. *)
From Coq Require Import Sorting.Sorted.
From Cobweb Require Import Machine.
From CobwebProofs Require Import ListLemmas Closed Frames TicketInv.

Definition pext (w w' : world) : Prop := exists l, g_prep w' = g_prep w ++ l.
Lemma pext_refl w : pext w w. Proof. exists []. rewrite app_nil_r. reflexivity. Qed.
Lemma pext_trans w1 w2 w3 : pext w1 w2 -> pext w2 w3 -> pext w1 w3.
Proof. intros [l1 H1] [l2 H2]. exists (l1 ++ l2). rewrite H2, H1, app_assoc. reflexivity. Qed.
Lemma pext_eq w w' : g_prep w' = g_prep w -> pext w w'.
Proof. intros H. exists []. rewrite H, app_nil_r. reflexivity. Qed.

Lemma gp_kview0 w w' : kview0 w' = kview0 w -> g_prep w' = g_prep w.
Proof. unfold kview0. intros H. inversion H. reflexivity. Qed.
Lemma gp_kview w w' : kview w' = kview w -> g_prep w' = g_prep w.
Proof. intros H. apply gp_kview0, kview_kview0, H. Qed.
Lemma gp_gview w w' : gview w' = gview w -> g_prep w' = g_prep w.
Proof. unfold gview. intros H. inversion H. reflexivity. Qed.
Lemma tc_kview0 w w' : kview0 w' = kview0 w -> ticket_ctr w' = ticket_ctr w.
Proof. unfold kview0. intros H. inversion H. reflexivity. Qed.
Lemma tc_kview w w' : kview w' = kview w -> ticket_ctr w' = ticket_ctr w.
Proof. intros H. apply tc_kview0, kview_kview0, H. Qed.
Lemma tc_gview w w' : gview w' = gview w -> ticket_ctr w' = ticket_ctr w.
Proof. unfold gview. intros H. inversion H. reflexivity. Qed.

(* the pair (ticket counter, parking list): changed by prepare_cmd only *)
Definition pv (w : world) := (ticket_ctr w, g_prep w).
Lemma pv_kview0 w w' : kview0 w' = kview0 w -> pv w' = pv w.
Proof. intros H. unfold pv. rewrite (gp_kview0 _ _ H), (tc_kview0 _ _ H). reflexivity. Qed.
Lemma pv_kview w w' : kview w' = kview w -> pv w' = pv w.
Proof. intros H. apply pv_kview0, kview_kview0, H. Qed.
Lemma pv_gview w w' : gview w' = gview w -> pv w' = pv w.
Proof. intros H. unfold pv. rewrite (gp_gview _ _ H), (tc_gview _ _ H). reflexivity. Qed.

Lemma pv_run_setup su t w w' : run_setup su t w = Some w' -> pv w' = pv w.
Proof.
  intros E. destruct su; cbn [run_setup] in E;
    repeat match type of E with context [match ?x with Some _ => _ | None => _ end] => destruct x; [|discriminate E] end;
    inversion E; subst; reflexivity.
Qed.

Section PSteps.
Variable P : program.

Lemma pv_prim c w : pv (fst (apply_prim P c w)) = pv w.
Proof.
  destruct (is_cleanup_cmd c) eqn:Hc; [|apply pv_kview, kview_prim, Hc].
  destruct c; try discriminate Hc. cbn [apply_prim fst]. apply pv_gview, gview_run_cleanup.
Qed.

(* what prepare_cmd parks for a command: target system and parked items (None: the command draws no ticket) *)
Definition prep_of (c : cmd) : option (ent * list pitem) :=
  match c with
  | CEventCmd t d => Some (t, [PiSe d])
  | CReact (RcEntity src rt t) => Some (t, [PiEr src rt])
  | CReact (RcDespawn src t h) => Some (t, [PiDe src])
  | CReact (RcEntityEvent tgt d t) => Some (t, [PiEr tgt (REvent UNIT_TY); PiEv d])
  | CReact (RcBroadcast d t) => Some (t, [PiEv d])
  | _ => None
  end.

Lemma prepare_parks c w t su cl w1 : prepare_cmd c w = Some (t, su, cl, w1) ->
  match prep_of c with
  | Some (t', items) => t' = t /\ setup_ticket su = ticket_ctr w + 1 /\ pv w1 = (ticket_ctr w + 1, g_prep w ++ [(ticket_ctr w + 1, t, items)])
  | None => su = SuDefault /\ pv w1 = pv w
  end.
Proof.
  intros E. destruct c; try discriminate E; cbn [prepare_cmd] in E; cbn [prep_of].
  - inversion E; subst. split; reflexivity.
  - unfold fresh_ticket in E. inversion E; subst. repeat split.
  - destruct r; unfold fresh_ticket in E; inversion E; subst; repeat split.
Qed.
Lemma unprepared_parks_nothing c w : prepare_cmd c w = None -> prep_of c = None.
Proof. destruct c; cbn; try reflexivity; try discriminate. destruct r; discriminate. Qed.

Lemma pext_prepare c w t su cl w1 : prepare_cmd c w = Some (t, su, cl, w1) -> pext w w1 /\ ticket_ctr w <= ticket_ctr w1.
Proof.
  intros E. pose proof (prepare_parks _ _ _ _ _ _ E) as H. destruct (prep_of c) as [[t' items]|].
  - destruct H as (_ & _ & H). unfold pv in H. injection H as H1 H2. split; [eexists; exact H2|lia].
  - destruct H as (_ & H). unfold pv in H. injection H as H1 H2. split; [apply pext_eq; exact H2|lia].
Qed.

(* PInv: relative to a starting point (n0, l0), the parking list extends l0 and the ticket counter is at least n0;
   globally the tickets of the parking list are strictly increasing and bounded by the counter *)
Definition psorted (w : world) : Prop :=
  StronglySorted N.lt (ptickets (g_prep w)) /\ Forall (fun k => k <= ticket_ctr w) (ptickets (g_prep w)).
Definition PInv (n0 : N) (l0 : list (N * ent * list pitem)) (w : world) : Prop :=
  (exists l, g_prep w = l0 ++ l) /\ n0 <= ticket_ctr w /\ psorted w.

Lemma PInv_pv n0 l0 w w' : pv w' = pv w -> PInv n0 l0 w -> PInv n0 l0 w'.
Proof. unfold PInv, psorted, pv. intros H. injection H as H1 H2. rewrite H1, H2. auto. Qed.

Lemma ptickets_app a b : ptickets (a ++ b) = ptickets a ++ ptickets b.
Proof. unfold ptickets. apply map_app. Qed.
Lemma sorted_snoc l k : StronglySorted N.lt l -> Forall (fun x => x < k) l -> StronglySorted N.lt (l ++ [k]).
Proof.
  induction 1 as [|a l Hs IH Ha]; intros Hk; cbn.
  - constructor; constructor.
  - inversion Hk; subst. constructor; [apply IH; assumption|]. apply Forall_app. split; [exact Ha|constructor; [assumption|constructor]].
Qed.

Lemma PInv_closed n0 l0 : closed P (PInv n0 l0).
Proof.
  constructor.
  - intros e w H. exact H.
  - intros c w H. eapply PInv_pv; [apply pv_prim|exact H].
  - intros o a w H. eapply PInv_pv; [apply pv_kview, kview_act|exact H].
  - intros c w t su cl w' H E. pose proof (prepare_parks _ _ _ _ _ _ E) as HP. destruct (prep_of c) as [[t' items]|].
    + destruct HP as (_ & _ & HP). unfold pv in HP. injection HP as H1 H2. destruct H as ((l & Hl) & Hn & Hs & Hb).
      split; [|split; [|split]].
      * exists (l ++ [(ticket_ctr w + 1, t, items)]). rewrite H2, Hl, app_assoc. reflexivity.
      * lia.
      * rewrite H2, ptickets_app. cbn. apply sorted_snoc; [exact Hs|]. eapply Forall_impl; [|exact Hb]. cbn. intros a Ha. lia.
      * rewrite H2, H1, ptickets_app. apply Forall_app. split; [eapply Forall_impl; [|exact Hb]; cbn; intros a Ha; lia|]. cbn. constructor; [lia|constructor].
    + destruct HP as (_ & HP). eapply PInv_pv; [exact HP|exact H].
  - intros e r w H _. eapply PInv_pv; [|exact H]. unfold gc_step. rewrite (pv_kview _ _ (kview_despawn _ _)). reflexivity.
  - intros w H. eapply PInv_pv; [apply pv_kview, kview_poll|exact H].
  - intros su t w w' H E. eapply PInv_pv; [eapply pv_run_setup; eauto|exact H].
  - intros cl w H. eapply PInv_pv; [apply pv_gview, gview_run_cleanup|exact H].
  - intros b w H. exact H.
  - intros n w H. exact H.
  - intros t b w H. exact H.
  - intros t k w H _. eapply PInv_pv; [|exact H]. unfold rn_dropped. etransitivity; [|apply (pv_kview _ _ (kview_drop_callback t w))]. reflexivity.
  - intros t k w H _. eapply PInv_pv; [|exact H]. unfold rn_despawn_missing.
    etransitivity; [|apply (pv_kview _ _ (kview_drop_callback t w))]. etransitivity; [|apply (pv_kview _ _ (kview_despawn t _))]. reflexivity.
  - intros t w H. eapply PInv_pv; [apply pv_kview, kview_despawn|exact H].
  - intros t cb b w H _ _. exact H.
  - intros t tk w H. unfold once_finish. destruct (alookup t (cbs w)); exact H.
  - intros sd t r c w _ H. eapply PInv_pv; [apply pv_kview0, kview0_body_begin|exact H].
  - intros w H. exact H.
Qed.

Lemma PInv_self w : psorted w -> PInv (ticket_ctr w) (g_prep w) w.
Proof. intros H. split; [exists []; rewrite app_nil_r; reflexivity|]. split; [lia|exact H]. Qed.

(* any execution only appends to the parking list, never lowers the ticket counter, and keeps tickets sorted *)
Theorem exec_parks_append_only fuel i w w' : psorted w -> exec P fuel i w = Ok w' ->
  pext w w' /\ ticket_ctr w <= ticket_ctr w' /\ psorted w'.
Proof.
  intros Hs E. assert (H : PInv (ticket_ctr w) (g_prep w) w') by (eapply exec_closed; [apply PInv_closed|apply PInv_self; exact Hs|exact E]).
  exact H.
Qed.

(* one applied command: a ticketed command parks its own entry first (fresh ticket = counter + 1), and everything else
   parked during its execution comes after; an unticketed command parks nothing of its own *)
Definition own_block (w : world) (c : cmd) (b : list (N * ent * list pitem)) : Prop :=
  match prep_of c with
  | Some (t, items) => exists rest, b = (ticket_ctr w + 1, t, items) :: rest
  | None => True
  end.
Theorem applied_command_parks_first f c w w' : psorted w -> exec P f (IApply c) w = Ok w' ->
  exists b, g_prep w' = g_prep w ++ b /\ own_block w c b /\ ticket_ctr w <= ticket_ctr w' /\ psorted w'.
Proof.
  intros Hs E. destruct (exec_parks_append_only f _ w w' Hs E) as ([b Hb] & Hn & Hs'). exists b. split; [exact Hb|]. split; [|split; assumption].
  destruct f as [|f]; [discriminate E|]. cbn [exec] in E. unfold own_block.
  destruct (prepare_cmd c w) as [[[[t su] cl] w1]|] eqn:EP; [|rewrite (unprepared_parks_nothing _ _ EP); exact I].
  pose proof (prepare_parks _ _ _ _ _ _ EP) as HP. destruct (prep_of c) as [[t' items]|]; [|exact I].
  destruct HP as (Ht & _ & HP). subst t'. unfold pv in HP. injection HP as H1 H2.
  assert (Hs1 : psorted w1).
  { assert (H : PInv (ticket_ctr w) (g_prep w) w1) by (eapply (c_prepare _ _ (PInv_closed _ _)); [apply PInv_self; exact Hs|exact EP]). apply H. }
  destruct (exec_parks_append_only f _ w1 w' Hs1 E) as ([b1 Hb1] & _ & _).
  rewrite H2, <- app_assoc in Hb1. rewrite Hb in Hb1. apply app_inv_head in Hb1. exists b1. exact Hb1.
Qed.

(* a command list: the entries of its ticketed commands appear in list order, each at the head of its own block; with
   psorted this also says their tickets increase in list order *)
Definition own_head (c : cmd) (b : list (N * ent * list pitem)) : Prop :=
  match prep_of c with
  | Some (t, items) => exists k rest, b = (k, t, items) :: rest
  | None => True
  end.
Theorem command_list_parks_in_order : forall cs f w w', psorted w -> exec P f (IApplyList cs) w = Ok w' ->
  exists bs, g_prep w' = g_prep w ++ concat bs /\ Forall2 own_head cs bs /\ ticket_ctr w <= ticket_ctr w' /\ psorted w'.
Proof.
  induction cs as [|c cs IH]; intros f w w' Hs E; (destruct f as [|f]; [discriminate E|]); cbn [exec] in E.
  - inversion E; subst. exists []. cbn. rewrite app_nil_r. split; [reflexivity|]. split; [constructor|]. split; [lia|exact Hs].
  - destruct (exec P f (IApply c) w) as [w1| |] eqn:E1; cbn [bind] in E; try discriminate E.
    destruct (applied_command_parks_first f c w w1 Hs E1) as (b & Hb & Ho & Hn & Hs1).
    destruct (IH f w1 w' Hs1 E) as (bs & Hbs & HF & Hn' & Hs').
    exists (b :: bs). cbn [concat]. rewrite Hbs, Hb, app_assoc. split; [reflexivity|]. split; [|split; [lia|exact Hs']].
    constructor; [|exact HF]. unfold own_block in Ho. unfold own_head. destruct (prep_of c) as [[t items]|]; [|exact I].
    destruct Ho as [rest Hr]. eauto.
Qed.

(* C08: the reactions scheduled by one poll (schedule_removal_and_despawn_reactors) are each parked, in the order in
   which the poll produced them *)
Theorem poll_reactions_parked_in_order f w w' : psorted w -> exec P f IPoll w = Ok w' ->
  exists bs, g_prep w' = g_prep w ++ concat bs /\ Forall2 own_head (snd (poll w)) bs /\ psorted w'.
Proof.
  intros Hs E. destruct f as [|f]; [discriminate E|]. cbn [exec] in E.
  pose proof (pv_kview _ _ (kview_poll w)) as Hpv. destruct (poll w) as [w1 cs] eqn:EP. cbn [fst snd] in *.
  assert (Hs1 : psorted w1) by (unfold psorted, pv in *; injection Hpv as H1 H2; rewrite H1, H2; exact Hs).
  destruct (command_list_parks_in_order cs f w1 w' Hs1 E) as (bs & Hbs & HF & _ & Hs').
  exists bs. unfold pv in Hpv. injection Hpv as H1 H2. rewrite <- H2. auto.
Qed.

Lemma pv_init : pv (install_static P init_world) = (0, []).
Proof.
  assert (Hgen : forall l w, pv (fold_left (fun w s => (reserve s w) <| storage ::= aset s true |> <| cbs ::= aset s (mkCb None 0 0 false true) |> <| spawned ::= cons s |>) l w) = pv w).
  { induction l as [|s l IH]; intros w; cbn [fold_left]; [reflexivity|]. rewrite IH. unfold pv. cbn [ticket_ctr g_prep set].
    exact (pv_kview _ _ (kview_reserve s w)). }
  unfold install_static. rewrite Hgen. reflexivity.
Qed.
Lemma psorted_init : psorted (install_static P init_world).
Proof. pose proof pv_init as H. unfold pv in H. injection H as H1 H2. unfold psorted. rewrite H2. cbn. split; constructor. Qed.

(* whole runs: tickets are strictly increasing in the order in which commands were applied (parked), in every
   reachable state; in particular no two parked commands share a ticket *)
Theorem parking_order_is_ticket_order fuel w' : run P fuel = Ok w' -> StronglySorted N.lt (ptickets (g_prep w')).
Proof.
  intros E. unfold run in E.
  assert (H : PInv 0 [] w').
  { eapply run_tops_closed; [apply PInv_closed| |exact E]. pose proof pv_init as Hi. unfold pv in Hi. injection Hi as H1 H2.
    split; [exists []; rewrite H2; reflexivity|]. split; [lia|apply psorted_init]. }
  apply H.
Qed.
Theorem psorted_exec fuel i w w' : psorted w -> exec P fuel i w = Ok w' -> psorted w'.
Proof. intros Hs E. apply (exec_parks_append_only fuel i w w' Hs E). Qed.

(* C05: the reaction commands a broadcast / entity event queues — as many as the reader count its data entity starts
   with — are each parked, in order, with the data entity as parked item, before the trigger command returns *)
Lemma spawn_data_parks_nothing f d dd w w' : exec P f (IApply (CSpawnData d dd)) w = Ok w' -> pv w' = pv w.
Proof.
  intros E. destruct f as [|f]; [discriminate E|]. cbn [exec prepare_cmd apply_prim] in E.
  destruct f as [|f]; [discriminate E|]. cbn [exec] in E. inversion E; subst. destruct (is_alive d w); reflexivity.
Qed.
Theorem broadcast_readers_all_parked f ty p w w' h hs : psorted w -> tbl_get ty (bc_tbl w) = h :: hs ->
  exec P f (IApply (CBroadcast ty p)) w = Ok w' ->
  exists bs, g_prep w' = g_prep w ++ concat bs /\
    Forall2 own_head (map (fun h0 => CReact (RcBroadcast (next_ent w) (handle_sys h0))) (h :: hs)) bs /\ psorted w'.
Proof.
  intros Hs Ht E. destruct f as [|f]; [discriminate E|]. cbn [exec prepare_cmd apply_prim] in E. rewrite Ht in E.
  destruct f as [|f]; [discriminate E|]. cbn [exec] in E.
  match type of E with bind (exec P f (IApply (CSpawnData ?d ?dd)) ?w0) _ = _ => destruct (exec P f (IApply (CSpawnData d dd)) w0) as [w1| |] eqn:E1; cbn [bind] in E; try discriminate E;
    pose proof (spawn_data_parks_nothing _ _ _ _ _ E1) as Hp; set (w00 := w0) in * end.
  assert (Hp0 : pv w1 = pv w) by (rewrite Hp; reflexivity).
  assert (Hs1 : psorted w1) by (unfold psorted, pv in *; injection Hp0 as H1 H2; rewrite H1, H2; exact Hs).
  destruct (command_list_parks_in_order _ f w1 w' Hs1 E) as (bs & Hbs & HF & _ & Hs').
  exists bs. unfold pv in Hp0. injection Hp0 as H1 H2. rewrite <- H2. auto.
Qed.
Theorem entity_event_readers_all_parked f ty e p w w' t ts : psorted w ->
  entity_targets e (REvent ty) w ++ map handle_sys (tbl_get ty (any_tbl w)) = t :: ts ->
  exec P f (IApply (CEntityEvent ty e p)) w = Ok w' ->
  exists bs, g_prep w' = g_prep w ++ concat bs /\
    Forall2 own_head (map (fun t0 => CReact (RcEntityEvent e (next_ent w) t0)) (t :: ts)) bs /\ psorted w'.
Proof.
  intros Hs Ht E. destruct f as [|f]; [discriminate E|]. cbn [exec prepare_cmd apply_prim] in E. rewrite Ht in E.
  destruct f as [|f]; [discriminate E|]. cbn [exec] in E.
  match type of E with bind (exec P f (IApply (CSpawnData ?d ?dd)) ?w0) _ = _ => destruct (exec P f (IApply (CSpawnData d dd)) w0) as [w1| |] eqn:E1; cbn [bind] in E; try discriminate E;
    pose proof (spawn_data_parks_nothing _ _ _ _ _ E1) as Hp end.
  assert (Hp0 : pv w1 = pv w) by (rewrite Hp; reflexivity).
  assert (Hs1 : psorted w1) by (unfold psorted, pv in *; injection Hp0 as H1 H2; rewrite H1, H2; exact Hs).
  destruct (command_list_parks_in_order _ f w1 w' Hs1 E) as (bs & Hbs & HF & _ & Hs').
  exists bs. unfold pv in Hp0. injection Hp0 as H1 H2. rewrite <- H2. auto.
Qed.
End PSteps.
