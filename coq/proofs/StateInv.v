(* StateInv.v — C13: every system has one private state (Local counter + captured counter, cbs t), created once with
   (0,0), incremented by each of its own runs and by nothing else, never reset or re-created; the n-th run of a system
   logs (n, n).  Context-free (closed) invariant per system t, over the ghost run history g_runs. *)
From Cobweb Require Import Machine.
From CobwebProofs Require Import ListLemmas Closed RunnerInv Frames OnceInv.

Definition runs (t : ent) (l : list (ent * N * N)) : list (N * N) :=
  flat_map (fun x => if N.eqb (fst (fst x)) t then [(snd (fst x), snd x)] else []) l.
Fixpoint diag (n : nat) : list (N * N) := match n with O => [] | S k => diag k ++ [(N.of_nat k, N.of_nat k)] end.

Definition Sinv (t : ent) (w : world) : Prop :=
  exists n, runs t (g_runs w) = diag n
    /\ (forall cb, alookup t (cbs w) = Some cb -> cb_runno cb = N.of_nat n /\ cb_captured cb = N.of_nat n)
    /\ (~ In t (spawned w) -> n = O /\ alookup t (cbs w) = None).

Lemma g_runs_kview w w' : kview w' = kview w -> g_runs w' = g_runs w.
Proof. intros H. exact (f_equal (fun x => fst (snd x)) H). Qed.
Lemma g_oruns_kview w w' : kview w' = kview w -> g_oruns w' = g_oruns w.
Proof. intros H. exact (f_equal (fun x => snd (snd x)) H). Qed.
Lemma runs_app t a b : runs t (a ++ b) = runs t a ++ runs t b.
Proof. unfold runs. apply flat_map_app. Qed.

(* a step that leaves the run history alone and changes cbs t only by dropping it *)
Lemma Sinv_stable t w w' : g_runs w' = g_runs w -> cb_stable t w w' -> Sinv t w -> Sinv t w'.
Proof.
  intros HG [HI HC] (n & R & S1 & S2). exists n. rewrite HG. split; [exact R|]. split.
  - intros cb Hcb. destruct HC as [E|E]; [apply S1; congruence|congruence].
  - intros Hn. assert (Hn0 : ~ In t (spawned w)) by (intros Hin; apply Hn, HI, Hin). destruct (S2 Hn0) as [-> Hc].
    split; [reflexivity|]. destruct HC as [E|E]; congruence.
Qed.
Lemma Sinv_views t w w' : kview w' = kview w -> oview w' = oview w -> Sinv t w -> Sinv t w'.
Proof. intros HK HO. apply Sinv_stable; [exact (g_runs_kview _ _ HK)|apply cb_stable_oview; exact HO]. Qed.

(* an update of the record that keeps both counters *)
Lemma Sinv_cbs_upd t t0 cb0 cb1 w : alookup t0 (cbs w) = Some cb0 -> cb_runno cb1 = cb_runno cb0 -> cb_captured cb1 = cb_captured cb0 ->
  Sinv t w -> Sinv t (w <| cbs := aupd t0 cb1 (cbs w) |>).
Proof.
  intros E0 H1 H2 (n & R & S1 & S2). exists n. cbn [g_runs cbs spawned set]. split; [exact R|]. split.
  - intros cb Hcb. destruct (N.eq_dec t t0) as [->|Hne].
    + rewrite alookup_aupd_same, E0 in Hcb. inversion Hcb; subst. rewrite H1, H2. apply S1. exact E0.
    + rewrite alookup_aupd_other in Hcb by exact Hne. apply S1. exact Hcb.
  - intros Hn. destruct (S2 Hn) as [-> Hc]. split; [reflexivity|]. destruct (N.eq_dec t t0) as [->|Hne]; [congruence|].
    rewrite alookup_aupd_other by exact Hne. exact Hc.
Qed.

Section SSteps.
Variable P : program.

Lemma g_runs_run_cleanup cl w : g_runs (run_cleanup cl w) = g_runs w.
Proof.
  destruct cl; cbn [run_cleanup].
  - reflexivity.
  - rewrite (g_runs_kview _ _ (kview_despawn _ _)). reflexivity.
  - reflexivity.
  - destruct (snd (cur (tr_de w))) as [h|]; [rewrite (g_runs_kview _ _ (kview_handle_drop _ _))|]; reflexivity.
  - rewrite (g_runs_kview _ _ (kview_try_cleanup _ _)). reflexivity.
  - rewrite (g_runs_kview _ _ (kview_try_cleanup _ _)). reflexivity.
Qed.
Lemma g_runs_prim c w : g_runs (fst (apply_prim P c w)) = g_runs w.
Proof.
  destruct (is_cleanup_cmd c) eqn:E; [|exact (g_runs_kview _ _ (kview_prim P c w E))].
  destruct c; try discriminate E. cbn [apply_prim fst]. apply g_runs_run_cleanup.
Qed.

(* creation: the only commands that add a record add a zeroed one, for a system that was never spawned *)
Lemma Sinv_prim t c w : Sinv t w -> Sinv t (fst (apply_prim P c w)).
Proof.
  intros H. destruct (in_dec N.eq_dec t (spawned w)) as [Hin|Hn].
  - apply (Sinv_stable t w); [apply g_runs_prim|apply cb_stable_prim; exact Hin|exact H].
  - destruct H as (n & R & S1 & S2). destruct (S2 Hn) as [-> Hc].
    assert (Hdef : forall w', g_runs w' = g_runs w -> cb_stable t w w' -> Sinv t w').
    { intros w' HG HS. apply (Sinv_stable t w w' HG HS). exists O. auto. }
    destruct c; try (apply Hdef; [apply g_runs_prim|]; apply cb_stable_prim_any; discriminate).
    + (* CSpawnSys *)
      cbn [apply_prim fst]. destruct (is_alive s w && negb (memN s (spawned w))); [|exists O; auto].
      exists O. cbn [g_runs cbs spawned set]. split; [exact R|]. split.
      * intros cb Hcb. destruct (N.eq_dec t s) as [->|Hne]; [rewrite alookup_aset_same in Hcb; inversion Hcb; subst; cbn; auto|].
        rewrite alookup_aset_other in Hcb by exact Hne. congruence.
      * intros Hn'. split; [reflexivity|]. destruct (N.eq_dec t s) as [->|Hne]; [exfalso; apply Hn'; left; reflexivity|].
        rewrite alookup_aset_other by exact Hne. exact Hc.
    + (* CInsertOnce *)
      cbn [apply_prim fst]. destruct (negb (is_alive s w)); [exists O; auto|]. destruct (negb (memN s (spawned w))); [|exists O; auto].
      exists O. cbn [g_runs cbs spawned set]. split; [exact R|]. split.
      * intros cb Hcb. destruct (N.eq_dec t s) as [->|Hne]; [rewrite alookup_aset_same in Hcb; inversion Hcb; subst; cbn; auto|].
        rewrite alookup_aset_other in Hcb by exact Hne. congruence.
      * intros Hn'. split; [reflexivity|]. destruct (N.eq_dec t s) as [->|Hne]; [exfalso; apply Hn'; left; reflexivity|].
        rewrite alookup_aset_other by exact Hne. exact Hc.
Qed.

Lemma Sinv_closed t : closed P (Sinv t).
Proof.
  constructor.
  - intros e w H. apply (Sinv_views t w); [reflexivity|reflexivity|exact H].
  - intros c w H. apply Sinv_prim. exact H.
  - intros o a w H. apply (Sinv_views t w); [apply kview_act|apply oview_act|exact H].
  - intros c w t0 su cl w' H E. eapply Sinv_stable; [| |exact H].
    + destruct c; try discriminate E; cbn in E; try (inversion E; subst; reflexivity). destruct r; inversion E; subst; reflexivity.
    + apply cb_stable_oview. destruct c; try discriminate E; cbn in E; try (inversion E; subst; reflexivity). destruct r; inversion E; subst; reflexivity.
  - intros e r w H _. unfold gc_step. eapply Sinv_stable; [| |exact H].
    + rewrite (g_runs_kview _ _ (kview_despawn _ _)). reflexivity.
    + eapply cb_stable_trans; [|apply cb_stable_despawn]. apply cb_stable_oview. reflexivity.
  - intros w H. apply (Sinv_views t w); [apply kview_poll|apply oview_poll|exact H].
  - intros su t0 w w' H E. eapply Sinv_stable; [| |exact H].
    + destruct su; cbn [run_setup] in E; repeat match type of E with match ?x with _ => _ end = _ => destruct x; try discriminate E end; inversion E; subst; reflexivity.
    + apply cb_stable_oview. eapply oview_run_setup; eauto.
  - intros cl w H. apply (Sinv_stable t w); [apply g_runs_run_cleanup|apply cb_stable_run_cleanup|exact H].
  - intros b w H. exact H.
  - intros n w H. exact H.
  - intros t0 b w H. exact H.
  - intros t0 k w H _. unfold rn_dropped. eapply Sinv_stable; [| |exact H].
    + cbn [g_runs emit set]. exact (g_runs_kview _ _ (kview_drop_callback _ _)).
    + eapply cb_stable_trans; [apply cb_stable_drop_callback|]. apply cb_stable_oview. reflexivity.
  - intros t0 k w H _. unfold rn_despawn_missing. eapply Sinv_stable; [| |exact H].
    + cbn [g_runs emit set]. rewrite (g_runs_kview _ _ (kview_despawn _ _)). exact (g_runs_kview _ _ (kview_drop_callback _ _)).
    + eapply cb_stable_trans; [apply cb_stable_drop_callback|]. eapply cb_stable_trans; [apply cb_stable_despawn|]. apply cb_stable_oview. reflexivity.
  - intros t0 w H. apply (Sinv_stable t w); [exact (g_runs_kview _ _ (kview_despawn _ _))|apply cb_stable_despawn|exact H].
  - intros t0 cb b w H Hcb _. unfold cb_bump. eapply Sinv_cbs_upd; [exact Hcb|reflexivity|reflexivity|exact H].
  - intros t0 tk w H. unfold once_finish. destruct (alookup t0 (cbs w)) as [cb'|] eqn:Ecb; [|exact H].
    match goal with |- context [aupd t0 ?r (cbs w)] =>
      apply (Sinv_stable t (w <| cbs := aupd t0 r (cbs w) |>)); [reflexivity|apply cb_stable_oview; reflexivity|];
      eapply Sinv_cbs_upd; [exact Ecb|reflexivity|reflexivity|exact H] end.
  - (* the body: logs (r, c) = the stored counters (guard), then increments both *)
    intros sd t0 r c w HG H. unfold body_guard in HG. apply andb_true_iff in HG. destruct HG as [HG _]. apply andb_true_iff in HG. destruct HG as [_ HG].
    unfold state_ok_b in HG. destruct (alookup t0 (cbs w)) as [cb0|] eqn:Ecb; [|discriminate HG].
    apply andb_true_iff in HG. destruct HG as [Hr Hc]. apply N.eqb_eq in Hr, Hc.
    unfold body_begin.
    assert (Hov : oview (body_sample P sd t0 r c w) = oview w) by apply oview_body_sample.
    assert (Hcbs : cbs (body_sample P sd t0 r c w) = cbs w) by exact (f_equal snd Hov).
    assert (Hsp : spawned (body_sample P sd t0 r c w) = spawned w) by exact (f_equal (fun x => snd (fst x)) Hov).
    assert (Hgr : g_runs (body_sample P sd t0 r c w) = g_runs w ++ [(t0, r, c)]).
    { unfold body_sample. pose proof (g_runs_kview _ _ (kview_sample_readers sd (xsys_of P t0) w)) as H1.
      destruct (sample_readers sd (xsys_of P t0) w) as [sm w1]. cbn [snd] in H1.
      destruct (sm_l sm) as [[src [v|]]|]; try (unfold note_run, emit; cbn [g_runs set]; rewrite H1; reflexivity). destruct (xsys_of P t0) as [[x ?]|]; unfold note_run, emit; cbn [g_runs set]; rewrite H1; reflexivity. }
    unfold state_bump. rewrite Hcbs, Ecb.
    destruct H as (n & R & S1 & S2). destruct (N.eq_dec t t0) as [->|Hne].
    + destruct (S1 cb0 Ecb) as [E1 E2].
      exists (S n). cbn [g_runs cbs spawned set]. rewrite Hgr, runs_app, R. cbn [runs flat_map fst snd]. rewrite N.eqb_refl, app_nil_r.
      split; [cbn [diag]; rewrite <- Hr, <- Hc, E1, E2; reflexivity|]. split.
      * intros cb Hcb. rewrite alookup_aupd_same, Ecb in Hcb. inversion Hcb; subst. cbn [cb_runno cb_captured]. rewrite E1, E2. split; lia.
      * intros Hn. rewrite Hsp in Hn. destruct (S2 Hn) as [_ Hnone]. congruence.
    + exists n. cbn [g_runs cbs spawned set]. rewrite Hgr, runs_app, R. cbn [runs flat_map fst snd].
      destruct (N.eqb t0 t) eqn:Eq; [apply N.eqb_eq in Eq; congruence|]. cbn [app]. rewrite app_nil_r.
      split; [reflexivity|]. split.
      * intros cb Hcb. rewrite alookup_aupd_other in Hcb by exact Hne. apply S1. exact Hcb.
      * intros Hn. rewrite Hsp in Hn. destruct (S2 Hn) as [-> Hnone]. split; [reflexivity|]. rewrite alookup_aupd_other by exact Hne. exact Hnone.
  - intros w H. exact H.
Qed.
End SSteps.

Section SInit.
Variable P : program.
Lemma init_counts : g_runs (install_static P init_world) = []
  /\ (forall t cb, alookup t (cbs (install_static P init_world)) = Some cb -> cb_runno cb = 0 /\ cb_captured cb = 0)
  /\ (forall t, ~ In t (spawned (install_static P init_world)) -> alookup t (cbs (install_static P init_world)) = None).
Proof.
  set (J := fun w : world => g_runs w = [] /\ (forall t cb, alookup t (cbs w) = Some cb -> cb_runno cb = 0 /\ cb_captured cb = 0)
                             /\ (forall t, ~ In t (spawned w) -> alookup t (cbs w) = None)).
  assert (Hgen : forall l w, J w -> J (fold_left (fun w s => (reserve s w) <| storage ::= aset s true |> <| cbs ::= aset s (mkCb None 0 0 false true) |> <| spawned ::= cons s |>) l w)).
  { induction l as [|s l IH]; intros w HJ; cbn [fold_left]; [exact HJ|]. apply IH. destruct HJ as (J1 & J2 & J3).
    pose proof (oview_reserve s w) as Hr. pose proof (f_equal snd Hr) as Hc. pose proof (f_equal (fun x => snd (fst x)) Hr) as Hs. cbn [fst snd oview] in Hc, Hs.
    pose proof (g_runs_kview _ _ (kview_reserve s w)) as Hg.
    split; [|split]; cbn [g_runs cbs spawned set].
    - rewrite Hg. exact J1.
    - intros t0 cb Hcb. rewrite Hc in Hcb. destruct (N.eq_dec t0 s) as [->|Hne]; [rewrite alookup_aset_same in Hcb; inversion Hcb; subst; cbn; auto|].
      rewrite alookup_aset_other in Hcb by exact Hne. eapply J2; eauto.
    - intros t0 Hn. rewrite Hc. rewrite Hs in Hn. destruct (N.eq_dec t0 s) as [->|Hne]; [exfalso; apply Hn; left; reflexivity|].
      rewrite alookup_aset_other by exact Hne. apply J3. intros Hin. apply Hn. right. exact Hin. }
  apply (Hgen (map snd (p_wr P) ++ map (fun x => fst (snd x)) (p_xr P)) init_world).
  split; [reflexivity|]. split; [intros t0 cb Hcb; discriminate Hcb|reflexivity].
Qed.
Lemma Sinv_init t : Sinv t (install_static P init_world).
Proof.
  destruct init_counts as (J1 & J2 & J3).
  exists O. rewrite J1. split; [reflexivity|]. split; [intros cb Hcb; apply (J2 _ _ Hcb)|].
  intros Hn. split; [reflexivity|apply J3; exact Hn].
Qed.

(* C13, over whole runs: for every system, the history of (Local, captured) values its runs logged is
   (0,0), (1,1), ..., (n-1,n-1), and while its state exists both counters equal n *)
Theorem run_states fuel w' : run P fuel = Ok w' -> forall t, Sinv t w'.
Proof. intros E t. unfold run in E. eapply run_tops_closed; [apply Sinv_closed|apply Sinv_init|exact E]. Qed.
Theorem exec_states fuel i w w' t : Sinv t w -> exec P fuel i w = Ok w' -> Sinv t w'.
Proof. apply exec_closed. apply Sinv_closed. Qed.
End SInit.

(* the ghost history and the observable log are written together, by body_sample only *)
Lemma body_sample_records (P : program) sd t r c w :
  g_runs (body_sample P sd t r c w) = g_runs w ++ [(t, r, c)] /\
  exists sm, log (body_sample P sd t r c w) = log (snd (sample_readers sd (xsys_of P t) w)) ++ [EvRun t r c sm].
Proof.
  unfold body_sample. pose proof (g_runs_kview _ _ (kview_sample_readers sd (xsys_of P t) w)) as H1.
  destruct (sample_readers sd (xsys_of P t) w) as [sm w1]. cbn [snd] in *.
  split.
  - destruct (sm_l sm) as [[src [v|]]|]; try (unfold note_run, emit; cbn [g_runs set]; rewrite H1; reflexivity).
    destruct (xsys_of P t) as [[x ?]|]; unfold note_run, emit; cbn [g_runs set]; rewrite H1; reflexivity.
  - exists sm. destruct (sm_l sm) as [[src [v|]]|]; try reflexivity. destruct (xsys_of P t) as [[x ?]|]; reflexivity.
Qed.
