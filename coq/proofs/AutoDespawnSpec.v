(* AutoDespawnSpec.v — C10: the auto-despawn machinery is an exact reference count, for every operation sequence
   (i.e. every interleaving of clone drops on worker threads with collections on the main thread). *)
From Cobweb Require Import AutoDespawn.
From CobwebProofs Require Import ListLemmas.

(* ---------- collection ---------- *)
Lemma gc_chan_empty s : a_chan (gc s) = [].
Proof. reflexivity. Qed.

Lemma gc_list_chan ch : forall s, a_chan (gc_list ch s) = a_chan s.
Proof. induction ch as [|e r IH]; intros s; cbn; [reflexivity|]. rewrite IH. destruct (ad_alive e s); reflexivity. Qed.

(* collecting twice is collecting once *)
Theorem gc_idempotent s : gc (gc s) = gc s.
Proof. unfold gc at 1. cbn [a_chan gc gc_list]. destruct (gc_list (a_chan s) s); reflexivity. Qed.

Lemma alive_kill_tree x e s : ad_alive x (kill_tree e s) = ad_alive x s && negb (reaches (depth s) x e s).
Proof.
  unfold ad_alive, kill_tree. cbn [a_alive]. induction (a_alive s) as [|y l IH]; cbn; [reflexivity|].
  destruct (reaches (depth s) y e s) eqn:Er; cbn.
  - rewrite IH. destruct (N.eqb_spec x y) as [->|Hne]; cbn; [rewrite Er; cbn; rewrite andb_false_r; reflexivity|reflexivity].
  - rewrite IH. destruct (N.eqb_spec x y) as [->|Hne]; cbn; [rewrite Er; reflexivity|reflexivity].
Qed.
Lemma reaches_self f e s : reaches f e e s = true.
Proof. destruct f; cbn; rewrite N.eqb_refl; reflexivity. Qed.

(* a collected entity is gone, with everything that hangs below it at that moment *)
Theorem kill_tree_kills e s x : reaches (depth s) x e s = true -> ad_alive x (kill_tree e s) = false.
Proof. intros H. rewrite alive_kill_tree, H. apply andb_false_r. Qed.
Corollary kill_tree_self e s : ad_alive e (kill_tree e s) = false.
Proof. apply kill_tree_kills, reaches_self. Qed.

(* collection never resurrects *)
Lemma gc_list_mono ch : forall s y, ad_alive y (gc_list ch s) = true -> ad_alive y s = true.
Proof.
  induction ch as [|e r IH]; intros s y H; cbn in H; [exact H|]. apply IH in H.
  destruct (ad_alive e s); [|exact H]. rewrite alive_kill_tree in H. apply andb_true_iff in H. tauto.
Qed.

(* every entity that was on the channel is dead after the collection (whether it was already gone or not) *)
Theorem gc_list_kills ch : forall s x, In x ch -> ad_alive x (gc_list ch s) = false.
Proof.
  induction ch as [|e r IH]; intros s x Hin; [destruct Hin|]. destruct Hin as [->|Hin]; cbn [gc_list].
  - destruct (ad_alive x (gc_list r (if ad_alive x s then kill_tree x s else s))) eqn:E; [|reflexivity].
    apply gc_list_mono in E. destruct (ad_alive x s) eqn:Ea; [rewrite kill_tree_self in E; discriminate|congruence].
  - apply IH. exact Hin.
Qed.
Theorem gc_kills s x : In x (a_chan s) -> ad_alive x (gc s) = false.
Proof. intros H. unfold gc, ad_alive. cbn [a_alive]. apply (gc_list_kills (a_chan s) s x H). Qed.

(* ---------- safety: only entities on the channel, and what hangs below them, are collected ---------- *)
Lemma reaches_fuel_mono f : forall f' x e s, (f <= f')%nat -> reaches f x e s = true -> reaches f' x e s = true.
Proof.
  induction f as [|f IH]; intros f' x e s Hle H; cbn in H.
  - rewrite orb_false_r in H. destruct f'; cbn; rewrite H; reflexivity.
  - destruct f' as [|f']; [lia|]. cbn. destruct (N.eqb x e); [reflexivity|]. cbn in *.
    destruct (alookup x (a_parent s)) as [p|]; [|discriminate H]. apply andb_true_iff in H. destruct H as [Ha Hr].
    rewrite Ha. cbn. apply (IH f'); [lia|exact Hr].
Qed.
Lemma alookup_aremove_Some {V} k k' (v : V) l : alookup k' (aremove k l) = Some v -> alookup k' l = Some v.
Proof.
  intros H. destruct (N.eq_dec k' k) as [->|Hne]; [rewrite alookup_aremove_same in H; discriminate|].
  rewrite alookup_aremove_other in H by exact Hne. exact H.
Qed.

(* reachability in a later (smaller) state implies reachability in the earlier one *)
Definition sub_state (s1 s : ad) : Prop :=
  (forall x, ad_alive x s1 = true -> ad_alive x s = true) /\ (forall x p, alookup x (a_parent s1) = Some p -> alookup x (a_parent s) = Some p).
Lemma reaches_sub f : forall x e s1 s, sub_state s1 s -> reaches f x e s1 = true -> reaches f x e s = true.
Proof.
  induction f as [|f IH]; intros x e s1 s [HA HP] H; cbn in *; [exact H|].
  destruct (N.eqb x e); [reflexivity|]. cbn in *. destruct (alookup x (a_parent s1)) as [p|] eqn:E; [|discriminate H].
  rewrite (HP x p E). apply andb_true_iff in H. destruct H as [Ha Hr]. rewrite (HA p Ha). cbn. eapply IH; [split; eassumption|exact Hr].
Qed.
Lemma depth_kill_tree e s : (depth (kill_tree e s) <= depth s)%nat.
Proof. unfold depth, kill_tree. cbn. induction (a_alive s) as [|x l IH]; cbn; [lia|]. destruct (negb _); cbn; lia. Qed.
Lemma sub_kill_tree e s : sub_state (kill_tree e s) s.
Proof.
  split.
  - intros x H. rewrite alive_kill_tree in H. apply andb_true_iff in H. tauto.
  - intros x p H. cbn in H. eapply alookup_aremove_Some; eauto.
Qed.

Theorem gc_list_safe ch : forall s y, ad_alive y s = true -> (forall x, In x ch -> reaches (depth s) y x s = false) ->
  ad_alive y (gc_list ch s) = true.
Proof.
  induction ch as [|e r IH]; intros s y Ha Hno; cbn [gc_list]; [exact Ha|].
  destruct (ad_alive e s) eqn:Ee.
  - apply IH.
    + rewrite alive_kill_tree, Ha, (Hno e (or_introl eq_refl)). reflexivity.
    + intros x Hx. destruct (reaches (depth (kill_tree e s)) y x (kill_tree e s)) eqn:Er; [|reflexivity].
      apply (reaches_sub _ _ _ _ s (sub_kill_tree e s)) in Er.
      apply (reaches_fuel_mono _ (depth s)) in Er; [|apply depth_kill_tree]. rewrite (Hno x (or_intror Hx)) in Er. discriminate.
  - apply IH; [exact Ha|]. intros x Hx. apply Hno. right. exact Hx.
Qed.
(* an entity that neither is on the channel nor hangs below a channel entry survives the collection *)
Theorem gc_safe s y : ad_alive y s = true -> (forall x, In x (a_chan s) -> reaches (depth s) y x s = false) -> ad_alive y (gc s) = true.
Proof. intros Ha Hno. unfold gc, ad_alive. cbn [a_alive]. apply (gc_list_safe (a_chan s) s y Ha Hno). Qed.

(* ---------- the reference count ---------- *)
(* a signal is in exactly one phase: live (count >= 1), sending (count reached 0, Drop has not sent yet) or sent;
   only a signal that has sent ever puts its entity on the channel, and it does so once *)
Record ad_inv (s : ad) : Prop := {
  ai_pos : forall g e n, alookup g (a_sigs s) = Some (e, n) -> 1 <= n;
  ai_live : forall g, ahas g (a_sigs s) = true -> ahas g (a_sending s) = false /\ ahas g (a_sent s) = false;
  ai_sending : forall g, ahas g (a_sending s) = true -> ahas g (a_sent s) = false;
  ai_chan : forall x, In x (a_chan s) -> exists g, In (g, x) (a_sent s);
}.

Lemma ahas_aset {V} k k' (v : V) l : ahas k' (aset k v l) = N.eqb k' k || ahas k' l.
Proof.
  unfold ahas. destruct (N.eqb_spec k' k) as [->|Hne]; [rewrite alookup_aset_same; reflexivity|].
  rewrite alookup_aset_other by exact Hne. reflexivity.
Qed.
Lemma ahas_aremove {V} k k' (l : list (N * V)) : ahas k' (aremove k l) = negb (N.eqb k' k) && ahas k' l.
Proof.
  unfold ahas. destruct (N.eqb_spec k' k) as [->|Hne]; [rewrite alookup_aremove_same; reflexivity|].
  rewrite alookup_aremove_other by exact Hne. reflexivity.
Qed.
Lemma ahas_snoc {V} k k' (v : V) l : ahas k' (l ++ [(k, v)]) = ahas k' l || N.eqb k' k.
Proof.
  unfold ahas. induction l as [|[k0 v0] l IH]; cbn; [destruct (N.eqb k' k); reflexivity|].
  destruct (N.eqb k' k0); [reflexivity|exact IH].
Qed.
Lemma alookup_Some_ahas {V} k (v : V) l : alookup k l = Some v -> ahas k l = true.
Proof. unfold ahas. intros ->. reflexivity. Qed.

Lemma ad_inv_init : ad_inv ad_init.
Proof. constructor; cbn; try discriminate. intros x []. Qed.

Lemma gc_list_fields ch : forall s, a_sigs (gc_list ch s) = a_sigs s /\ a_sending (gc_list ch s) = a_sending s /\ a_sent (gc_list ch s) = a_sent s.
Proof. induction ch as [|e r IH]; intros s; cbn; [auto|]. destruct (IH (if ad_alive e s then kill_tree e s else s)) as (H1 & H2 & H3). destruct (ad_alive e s); cbn in *; auto. Qed.

(* the invariant holds after every operation sequence: every interleaving of drops, clones and collections *)
Theorem ad_inv_step s o : ad_inv s -> ad_inv (ad_step s o).
Proof.
  intros [I1 I2 I3 I4]. destruct o; cbn [ad_step].
  - destruct (ad_alive e s); constructor; assumption.
  - destruct (ahas g (a_sigs s) || ahas g (a_sending s) || ahas g (a_sent s)) eqn:E; [constructor; assumption|].
    apply orb_false_iff in E. destruct E as [E E3]. apply orb_false_iff in E. destruct E as [E1 E2].
    constructor; cbn.
    + intros g0 e0 n H. destruct (N.eq_dec g0 g) as [->|Hne].
      * assert (Hn : alookup g (a_sigs s) = None) by (unfold ahas in E1; destruct (alookup g (a_sigs s)); [discriminate|reflexivity]).
        clear -H Hn. induction (a_sigs s) as [|[k0 v0] l IH]; cbn in *; [rewrite N.eqb_refl in H; inversion H; lia|].
        destruct (N.eqb g k0); [discriminate|auto].
      * apply (I1 g0 e0 n). clear -H Hne. induction (a_sigs s) as [|[k0 v0] l IH]; cbn in *; [destruct (N.eqb_spec g0 g); [congruence|discriminate]|].
        destruct (N.eqb g0 k0); auto.
    + intros g0 H. rewrite ahas_snoc in H. apply orb_true_iff in H. destruct H as [H|H]; [apply I2; exact H|]. apply N.eqb_eq in H. subst. auto.
    + exact I3.
    + exact I4.
  - destruct (alookup g (a_sigs s)) as [[e n]|] eqn:E; [|constructor; assumption]. constructor; cbn.
    + intros g0 e0 n0 H. destruct (N.eq_dec g0 g) as [->|Hne]; [rewrite alookup_aset_same in H; inversion H; subst; apply I1 in E; lia|].
      rewrite alookup_aset_other in H by exact Hne. eapply I1; eauto.
    + intros g0 H. rewrite ahas_aset in H. apply orb_true_iff in H. destruct H as [H|H]; [apply N.eqb_eq in H; subst; apply I2; eapply alookup_Some_ahas; eauto|apply I2; exact H].
    + exact I3.
    + exact I4.
  - destruct (alookup g (a_sigs s)) as [[e n]|] eqn:E; [|constructor; assumption].
    destruct (N.leb n 1) eqn:Eleb; constructor; cbn.
    + intros g0 e0 n0 H. destruct (N.eq_dec g0 g) as [->|Hne]; [rewrite alookup_aremove_same in H; discriminate|].
      rewrite alookup_aremove_other in H by exact Hne. eapply I1; eauto.
    + intros g0 H. rewrite ahas_aremove in H. apply andb_true_iff in H. destruct H as [Hne H]. apply negb_true_iff, N.eqb_neq in Hne.
      destruct (I2 g0 H) as [H1 H2]. split; [rewrite ahas_snoc, H1; cbn; apply N.eqb_neq; exact Hne|exact H2].
    + intros g0 H. rewrite ahas_snoc in H. apply orb_true_iff in H. destruct H as [H|H]; [apply I3; exact H|].
      apply N.eqb_eq in H. subst. apply (I2 g). eapply alookup_Some_ahas; eauto.
    + exact I4.
    + intros g0 e0 n0 H. destruct (N.eq_dec g0 g) as [->|Hne]; [rewrite alookup_aset_same in H; inversion H; subst|].
      * apply I1 in E. apply N.leb_gt in Eleb. lia.
      * rewrite alookup_aset_other in H by exact Hne. eapply I1; eauto.
    + intros g0 H. rewrite ahas_aset in H. apply orb_true_iff in H. destruct H as [H|H]; [apply N.eqb_eq in H; subst; apply I2; eapply alookup_Some_ahas; eauto|apply I2; exact H].
    + exact I3.
    + exact I4.
  - destruct (alookup g (a_sending s)) as [e|] eqn:E; [|constructor; assumption]. constructor; cbn.
    + exact I1.
    + intros g0 H. destruct (I2 g0 H) as [H1 H2]. split; [rewrite ahas_aremove, H1; apply andb_false_r|].
      rewrite ahas_snoc, H2. cbn. apply N.eqb_neq. intros ->. apply alookup_Some_ahas in E. congruence.
    + intros g0 H. rewrite ahas_aremove in H. apply andb_true_iff in H. destruct H as [Hne H]. apply negb_true_iff, N.eqb_neq in Hne.
      rewrite ahas_snoc, (I3 g0 H). cbn. apply N.eqb_neq. exact Hne.
    + intros x Hx. apply in_app_or in Hx. destruct Hx as [Hx|[<-|[]]].
      * destruct (I4 x Hx) as (g0 & Hg). exists g0. apply in_or_app. left. exact Hg.
      * exists g. apply in_or_app. right. left. reflexivity.
  - destruct (gc_list_fields (a_chan s) s) as (H1 & H2 & H3). unfold gc. constructor; cbn; rewrite ?H1, ?H2, ?H3; try assumption. intros x [].
  - destruct (ad_alive e s); constructor; assumption.
  - destruct (ad_alive e s); constructor; assumption.
  - destruct (ad_alive e s && ad_alive p s && negb (reaches (depth s) p e s)); constructor; assumption.
Qed.

Theorem ad_inv_run ops : ad_inv (ad_run ops).
Proof.
  unfold ad_run. assert (H : forall s, ad_inv s -> ad_inv (fold_left ad_step ops s)).
  { induction ops as [|o ops IH]; intros s Hs; cbn; [exact Hs|]. apply IH. apply ad_inv_step. exact Hs. }
  apply H. apply ad_inv_init.
Qed.

(* while any clone of a signal exists (the signal is live), that signal has not put its entity on the channel:
   every channel entry was sent by a signal whose count had reached zero *)
Theorem channel_only_from_dead_signals ops x : In x (a_chan (ad_run ops)) ->
  exists g, In (g, x) (a_sent (ad_run ops)) /\ ahas g (a_sigs (ad_run ops)) = false.
Proof.
  intros Hx. pose proof (ad_inv_run ops) as [I1 I2 I3 I4]. destruct (I4 x Hx) as (g & Hg). exists g. split; [exact Hg|].
  destruct (ahas g (a_sigs (ad_run ops))) eqn:E; [|reflexivity]. destruct (I2 g E) as [_ H2].
  assert (ahas g (a_sent (ad_run ops)) = true) by (apply ahas_In; apply (in_map fst) in Hg; exact Hg). congruence.
Qed.

(* an entity prepared once whose (only) signal is still live is never collected, unless it hangs below a collected entity *)
Theorem live_signal_protects ops g e n y :
  let s := ad_run ops in
  alookup g (a_sigs s) = Some (e, n) -> (forall g', In (g', e) (a_sent s) -> g' = g) ->
  ad_alive y s = true -> (forall x, In x (a_chan s) -> x <> e -> reaches (depth s) y x s = false) ->
  ad_alive y (gc s) = true.
Proof.
  intros s Hg Honce Ha Hno. apply gc_safe; [exact Ha|]. intros x Hx.
  destruct (N.eq_dec x e) as [->|Hne]; [|apply Hno; assumption].
  exfalso. destruct (channel_only_from_dead_signals ops e Hx) as (g' & Hs & Hd). rewrite (Honce g' Hs) in Hd.
  apply alookup_Some_ahas in Hg. subst s. rewrite Hg in Hd. discriminate Hd.
Qed.

(* the last drop of a signal puts its entity on the channel, and the next collection despawns it *)
Theorem last_drop_then_gc s g e : alookup g (a_sending s) = Some e ->
  ad_alive e (gc (ad_step s (ODropEnd g))) = false.
Proof. intros H. apply gc_kills. cbn [ad_step]. rewrite H. cbn. apply in_or_app. right. left. reflexivity. Qed.
Theorem drop_begin_last s g e : alookup g (a_sigs s) = Some (e, 1) ->
  alookup g (a_sending (ad_step s (ODropBegin g))) = Some e \/ ahas g (a_sending s) = true.
Proof.
  intros H. cbn [ad_step]. rewrite H. cbn. destruct (ahas g (a_sending s)) eqn:E; [right; reflexivity|left].
  unfold ahas in E. clear H. induction (a_sending s) as [|[k0 v0] l IH]; cbn in *; [rewrite N.eqb_refl; reflexivity|].
  destruct (N.eqb g k0); [discriminate|auto].
Qed.
