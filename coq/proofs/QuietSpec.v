(* QuietSpec.v — C08, the timing half: removals and despawns are polled no later than the end of the enclosing tree or
   frame.  Quiet w: the despawn channel is empty and no removal checker has an unread record.  Every execution of the
   system-command runner (run, abort or postponement), every poll with everything it schedules, every replay / discard
   loop that starts quiet, and every frame (App::update) ends Quiet — by induction over the interpreter. *)
From Cobweb Require Import Machine.
From CobwebProofs Require Import ListLemmas Closed PollSpec.

Definition is_react (c : cmd) : bool := match c with CReact _ => true | _ => false end.
Definition Quiet (w : world) : Prop :=
  despawn_chan w = [] /\ forall c cursor, In (c, cursor) (removal_checkers w) -> unread c cursor (removed w) = [].
Definition qv (w : world) := (despawn_chan w, removal_checkers w, removed w).
Lemma Quiet_qv w w' : qv w' = qv w -> Quiet w -> Quiet w'.
Proof. unfold qv, Quiet. intros H. injection H as H1 H2 H3. rewrite H1, H2, H3. auto. Qed.

Lemma chk_poll_despawns chan : forall w, removal_checkers (fst (poll_despawns chan w)) = removal_checkers w /\ removed (fst (poll_despawns chan w)) = removed w.
Proof.
  induction chan as [|e r IH]; intros w; cbn [poll_despawns]; [split; reflexivity|].
  specialize (IH (w <| desp_tbl := aremove e (desp_tbl w) |>)). destruct (poll_despawns r (w <| desp_tbl := aremove e (desp_tbl w) |>)) as [w1 cs]. exact IH.
Qed.

(* right after a poll nothing is left to read: the channel is empty and every cursor stands at the counter *)
Lemma poll_quiet w : RSeq w -> Quiet (fst (poll w)).
Proof.
  intros HR. split; [apply poll_empties_the_despawn_channel|].
  unfold poll. rewrite poll_removals_spec.
  pose proof (chk_poll_despawns (despawn_chan (w <| removal_checkers := map (fun x => (fst x, removed_seq w)) (removal_checkers w) |>))
                ((w <| removal_checkers := map (fun x => (fst x, removed_seq w)) (removal_checkers w) |>) <| despawn_chan := [] |>)) as [H1 H2].
  destruct (poll_despawns _ _) as [w1 c2]. cbn [fst] in *. rewrite H1, H2. cbn [removal_checkers removed set].
  intros c cursor Hin. apply in_map_iff in Hin. destruct Hin as ([c0 cur0] & Heq & _). cbn [fst] in Heq. inversion Heq; subst.
  apply unread_none. intros c1 e seq g Hin. eapply HR. exact Hin.
Qed.

Lemma reacts_map {A} (f : A -> reaction) l : forallb is_react (map (fun a => CReact (f a)) l) = true.
Proof. induction l; cbn; auto. Qed.
Lemma poll_reacts w : forallb is_react (snd (poll w)) = true.
Proof.
  unfold poll.
  assert (Hr : forall chk w0, forallb is_react (snd (poll_removals chk w0)) = true).
  { induction chk as [|[c cur] chk IH]; intros w0; cbn [poll_removals]; [reflexivity|].
    specialize (IH w0). destruct (poll_removals chk w0) as [chk' cs]. cbn [snd] in *. rewrite forallb_app, IH, andb_true_r.
    induction (unread c cur (removed w0)) as [|e es IHe]; cbn [flat_map]; [reflexivity|]. rewrite forallb_app, IHe, andb_true_r.
    unfold removal_cmds_for. rewrite forallb_app. apply andb_true_iff. split.
    - apply (reacts_map (fun t => RcEntity e (RRem c) t)).
    - induction (comp_get KRem c w0); cbn; auto. }
  assert (Hd : forall chan w0, forallb is_react (snd (poll_despawns chan w0)) = true).
  { induction chan as [|e r IH]; intros w0; cbn [poll_despawns]; [reflexivity|].
    specialize (IH (w0 <| desp_tbl := aremove e (desp_tbl w0) |>)). destruct (poll_despawns r _) as [w2 cs]. cbn [snd] in *.
    rewrite forallb_app, IH, andb_true_r. induction (tbl_get e (desp_tbl w0)); cbn; auto. }
  specialize (Hr (removal_checkers w) w). destruct (poll_removals (removal_checkers w) w) as [chk c1]. cbn [snd] in Hr.
  match goal with |- context [poll_despawns ?ch ?w0] => specialize (Hd ch w0); destruct (poll_despawns ch w0) as [w2 c2] end.
  cbn [snd] in *. rewrite forallb_app, Hr, Hd. reflexivity.
Qed.
Lemma react_prepared c w : is_react c = true -> exists t su cl w1, prepare_cmd c w = Some (t, su, cl, w1).
Proof.
  destruct c; try discriminate. intros _. destruct r; cbn [prepare_cmd]; unfold fresh_ticket; eauto.
Qed.

Lemma unread_filter c cur f : forall l, unread c cur l = [] -> unread c cur (filter f l) = [].
Proof.
  induction l as [|[c' [[e seq] g]] l IH]; intros H; cbn [filter]; [reflexivity|]. cbn [unread] in H.
  destruct (N.eqb c c' && N.leb cur seq) eqn:E; [discriminate H|].
  destruct (f (c', (e, seq, g))); [cbn [unread]; rewrite E|]; apply IH; exact H.
Qed.
Lemma Quiet_clear w : Quiet w -> Quiet (clear_trackers w).
Proof.
  intros [H1 H2]. split; [exact H1|]. intros c cur Hin. cbn [clear_trackers removed removal_checkers set] in *.
  apply unread_filter. apply H2. exact Hin.
Qed.

Section QuietExec.
Variable P : program.

Definition PostQ (i : instr) (w w' : world) : Prop :=
  match i with
  | IRunner _ _ _ | IRun _ _ _ _ | IPoll | IAbort _ _ _ => Quiet w'
  | IReplay _ _ _ | IDiscard => Quiet w -> Quiet w'
  | IApplyList cs => forallb is_react cs = true -> Quiet w -> Quiet w'
  | IApply c => is_react c = true -> Quiet w'
  | _ => True
  end.

Ltac bind_inv E w1 E1 :=
  match type of E with
  | bind ?r _ = Ok _ => destruct r as [w1| |] eqn:E1; cbn [bind] in E; [|discriminate E|discriminate E]
  end.

Theorem exec_quiet : forall fuel i w w', RSeq w -> exec P fuel i w = Ok w' -> PostQ i w w'.
Proof.
  induction fuel as [|f IH]; intros i w w' HR E; [discriminate E|].
  pose proof (RSeq_closed P) as HC.
  destruct i; cbn [exec] in E; unfold PostQ; try exact I.
  - (* IApply *)
    intros Hr. destruct (react_prepared c w Hr) as (t & su & cl & w1 & EP). rewrite EP in E.
    exact (IH (IRunner t su cl) w1 w' (c_prepare _ _ HC _ _ _ _ _ _ HR EP) E).
  - (* IApplyList *)
    destruct cs as [|c cs]; [inversion E; subst; intros _ Hq; exact Hq|]. intros Hall Hq. cbn [forallb] in Hall. apply andb_true_iff in Hall. destruct Hall as [Hc Hcs].
    bind_inv E w1 E1. pose proof (IH (IApply c) w w1 HR E1 Hc) as Q1. exact (IH (IApplyList cs) w1 w' (RSeq_exec P f _ _ _ HR E1) E Hcs Q1).
  - (* IRunner *)
    bind_inv E w1 E1. bind_inv E w2 E2.
    assert (HR1 : RSeq w1) by (eapply RSeq_exec; [|exact E1]; apply (c_emit _ _ HC); exact HR).
    pose proof (IH IPoll w1 w2 HR1 E2) as Q2. assert (HR2 : RSeq w2) by (eapply RSeq_exec; eauto).
    assert (Habort : forall n w3, exec P f (IAbort t su cl) (emit (EvAbort t (setup_ticket su) n) w2) = Ok w3 -> Quiet (emit (EvExit t (setup_ticket su)) w3)).
    { intros n w3 E3. eapply Quiet_qv; [|exact (IH (IAbort t su cl) _ w3 (c_emit _ _ HC _ _ HR2) E3)]. reflexivity. }
    destruct (lookup_storage t w2) eqn:EL.
    + bind_inv E w3 E3. inversion E; subst. eapply Habort; eauto.
    + bind_inv E w3 E3. inversion E; subst. eapply Habort; eauto.
    + destruct (N.eqb (counter w) 0).
      * bind_inv E w3 E3. inversion E; subst. eapply Habort; eauto.
      * inversion E; subst. eapply Quiet_qv; [|exact Q2]. reflexivity.
    + exact (IH (IRun t su cl (counter w)) w2 w' HR2 E).
  - (* IRun *)
    destruct (run_setup su t (rn_take t su w)) as [w0|] eqn:ES; [|discriminate E].
    bind_inv E w1 E1. bind_inv E w2 E2. bind_inv E w3 E3. bind_inv E w4 E4. bind_inv E w5 E5. bind_inv E w6 E6. inversion E; subst. clear E.
    assert (HR0 : RSeq w0) by (eapply (c_setup _ _ HC); [|exact ES]; apply (closed_take _ _ HC); exact HR).
    assert (HR1 : RSeq w1) by (eapply RSeq_exec; eauto).
    assert (HR2 : RSeq w2) by (eapply RSeq_exec; eauto).
    assert (HR3 : RSeq w3).
    { destruct (lookup_storage t w2) eqn:EL.
      - eapply RSeq_exec; [|exact E3]. apply (c_dropped _ _ HC); assumption.
      - eapply RSeq_exec; [|exact E3]. apply (c_missing _ _ HC); assumption.
      - inversion E3; subst. apply (closed_reinsert _ _ HC). exact HR2.
      - inversion E3; subst. apply (closed_reinsert _ _ HC). exact HR2. }
    pose proof (IH IPoll w3 w4 HR3 E4) as Q4. assert (HR4 : RSeq w4) by (eapply RSeq_exec; eauto).
    assert (Q5 : Quiet w5).
    { eapply (IH (IReplay t (buffer w4) []) _ w5); [|exact E5|]; [apply (c_buffer _ _ HC); exact HR4|]. eapply Quiet_qv; [|exact Q4]. reflexivity. }
    assert (HR5 : RSeq w5) by (eapply RSeq_exec; [|exact E5]; apply (c_buffer _ _ HC); exact HR4).
    assert (Q6 : Quiet w6).
    { destruct (N.eqb idx 0).
      - bind_inv E6 w7 E7. inversion E6; subst. eapply Quiet_qv; [|exact (IH IDiscard w5 w7 HR5 E7 Q5)]. reflexivity.
      - inversion E6; subst. exact Q5. }
    eapply Quiet_qv; [|exact Q6]. reflexivity.
  - (* IReplay *)
    destruct pending as [|b pending].
    + inversion E; subst. intros Hq. eapply Quiet_qv; [|exact Hq]. reflexivity.
    + destruct (N.eqb (b_sys b) t).
      * bind_inv E w1 E1. pose proof (IH (IRunner (b_sys b) (b_setup b) (b_cleanup b)) w w1 HR E1) as Q1.
        intros _. exact (IH (IReplay t pending kept) w1 w' (RSeq_exec P f _ _ _ HR E1) E Q1).
      * exact (IH (IReplay t pending (kept ++ [b])) w w' HR E).
  - (* IDiscard *)
    destruct (buffer w) as [|b rest] eqn:EB.
    + inversion E; subst. intros Hq. exact Hq.
    + bind_inv E w1 E1. assert (HRp : RSeq (rn_discard_pop b rest w)) by (apply (closed_discard_pop _ _ HC); exact HR).
      pose proof (IH (IAbort (b_sys b) (b_setup b) (b_cleanup b)) _ w1 HRp E1) as Q1.
      intros _. exact (IH IDiscard w1 w' (RSeq_exec P f _ _ _ HRp E1) E Q1).
  - (* IAbort *)
    destruct (run_setup su t w) as [w0|] eqn:ES; [|discriminate E]. bind_inv E w1 E1.
    assert (HRa : RSeq (rn_abort_cleanup su cl w0)) by (apply (closed_abort_cleanup _ _ HC); eapply (c_setup _ _ HC); eauto).
    exact (IH IPoll w1 w' (RSeq_exec P f _ _ _ HRa E1) E).
  - (* IPoll *)
    destruct (poll w) as [w1 cs] eqn:EP.
    assert (HR1 : RSeq w1) by (pose proof (c_poll _ _ HC w HR) as H; rewrite EP in H; exact H).
    assert (Q1 : Quiet w1) by (pose proof (poll_quiet w HR) as H; rewrite EP in H; exact H).
    assert (Hr : forallb is_react cs = true) by (pose proof (poll_reacts w) as H; rewrite EP in H; exact H).
    exact (IH (IApplyList cs) w1 w' HR1 E Hr Q1).
Qed.

(* C08: when the system-command runner returns — after a run, an abort, or a postponement — every removal and every
   despawn recorded so far has been read and its reactions scheduled (and, being commands applied in-line, executed or
   parked) *)
Theorem tree_ends_polled f t su cl w w' : RSeq w -> exec P f (IRunner t su cl) w = Ok w' -> Quiet w'.
Proof. intros HR E. exact (exec_quiet f (IRunner t su cl) w w' HR E). Qed.
Theorem poll_leaves_nothing_unread f w w' : RSeq w -> exec P f IPoll w = Ok w' -> Quiet w'.
Proof. intros HR E. exact (exec_quiet f IPoll w w' HR E). Qed.
(* ... and so does every frame: App::update ends with garbage collection and a poll (plugin.rs), then clear_trackers *)
Theorem frame_ends_polled f i bs w w' : RSeq w -> exec P f (ITop i (TFrame bs)) w = Ok w' -> Quiet w'.
Proof.
  intros HR E. destruct f as [|f]; [discriminate E|]. cbn [exec] in E.
  bind_inv E w4 E4. inversion E; subst. clear E. bind_inv E4 w1 E1. bind_inv E4 w2 E2. bind_inv E4 w3 E3. inversion E4; subst. clear E4.
  assert (HR2 : RSeq w2) by (eapply RSeq_exec; [|exact E2]; eapply RSeq_exec; eauto).
  pose proof (exec_quiet f IPoll w2 w3 HR2 E3) as Q3.
  eapply Quiet_qv; [|apply Quiet_clear; exact Q3]. reflexivity.
Qed.
End QuietExec.

(* ---------------------------------------------------------------------------------------------------------------- *)
(* C07 / C10, timing: the auto-despawn collector has drained its channel whenever the runner returns — an entity whose
   last signal clone was dropped during a tree is collected before the tree ends *)
Definition Collected (w : world) : Prop := gc_chan w = [].
Lemma gc_chan_poll_despawns chan : forall w, gc_chan (fst (poll_despawns chan w)) = gc_chan w.
Proof.
  induction chan as [|e r IH]; intros w; cbn [poll_despawns]; [reflexivity|].
  specialize (IH (w <| desp_tbl := aremove e (desp_tbl w) |>)). destruct (poll_despawns r (w <| desp_tbl := aremove e (desp_tbl w) |>)) as [w1 cs]. exact IH.
Qed.
Lemma gc_chan_poll w : gc_chan (fst (poll w)) = gc_chan w.
Proof.
  unfold poll. destruct (poll_removals (removal_checkers w) w) as [chk c1].
  pose proof (gc_chan_poll_despawns (despawn_chan (w <| removal_checkers := chk |>)) ((w <| removal_checkers := chk |>) <| despawn_chan := [] |>)) as H.
  destruct (poll_despawns _ _) as [w1 c2]. exact H.
Qed.

Section CollectedExec.
Variable P : program.

Definition PostG (i : instr) (w w' : world) : Prop :=
  match i with
  | IRunner _ _ _ | IRun _ _ _ _ | IAbort _ _ _ | IGC => Collected w'
  | IPoll | IReplay _ _ _ | IDiscard => Collected w -> Collected w'
  | IApplyList cs => forallb is_react cs = true -> Collected w -> Collected w'
  | IApply c => is_react c = true -> Collected w'
  | _ => True
  end.

Ltac bind_inv E w1 E1 :=
  match type of E with
  | bind ?r _ = Ok _ => destruct r as [w1| |] eqn:E1; cbn [bind] in E; [|discriminate E|discriminate E]
  end.

Theorem exec_collected : forall fuel i w w', exec P fuel i w = Ok w' -> PostG i w w'.
Proof.
  induction fuel as [|f IH]; intros i w w' E; [discriminate E|].
  destruct i; cbn [exec] in E; unfold PostG; try exact I.
  - (* IApply *)
    intros Hr. destruct (react_prepared c w Hr) as (t & su & cl & w1 & EP). rewrite EP in E. exact (IH (IRunner t su cl) w1 w' E).
  - (* IApplyList *)
    destruct cs as [|c cs]; [inversion E; subst; intros _ Hq; exact Hq|]. intros Hall Hq. cbn [forallb] in Hall. apply andb_true_iff in Hall. destruct Hall as [Hc Hcs].
    bind_inv E w1 E1. exact (IH (IApplyList cs) w1 w' E Hcs (IH (IApply c) w w1 E1 Hc)).
  - (* IRunner *)
    bind_inv E w1 E1. bind_inv E w2 E2.
    pose proof (IH IPoll w1 w2 E2 (IH IGC _ w1 E1)) as Q2.
    assert (Habort : forall n w3, exec P f (IAbort t su cl) (emit (EvAbort t (setup_ticket su) n) w2) = Ok w3 -> Collected (emit (EvExit t (setup_ticket su)) w3)).
    { intros n w3 E3. exact (IH (IAbort t su cl) _ w3 E3). }
    destruct (lookup_storage t w2) eqn:EL.
    + bind_inv E w3 E3. inversion E; subst. eapply Habort; eauto.
    + bind_inv E w3 E3. inversion E; subst. eapply Habort; eauto.
    + destruct (N.eqb (counter w) 0).
      * bind_inv E w3 E3. inversion E; subst. eapply Habort; eauto.
      * inversion E; subst. exact Q2.
    + exact (IH (IRun t su cl (counter w)) w2 w' E).
  - (* IRun *)
    destruct (run_setup su t (rn_take t su w)) as [w0|] eqn:ES; [|discriminate E].
    bind_inv E w1 E1. bind_inv E w2 E2. bind_inv E w3 E3. bind_inv E w4 E4. bind_inv E w5 E5. bind_inv E w6 E6. inversion E; subst. clear E.
    pose proof (IH IGC w1 w2 E2) as Q2.
    assert (Q3 : Collected w3).
    { destruct (lookup_storage t w2) eqn:EL.
      - exact (IH IGC _ w3 E3).
      - exact (IH IGC _ w3 E3).
      - inversion E3; subst. exact Q2.
      - inversion E3; subst. exact Q2. }
    pose proof (IH IPoll w3 w4 E4 Q3) as Q4.
    pose proof (IH (IReplay t (buffer w4) []) _ w5 E5 Q4) as Q5.
    assert (Q6 : Collected w6).
    { destruct (N.eqb idx 0).
      - bind_inv E6 w7 E7. inversion E6; subst. exact (IH IDiscard w5 w7 E7 Q5).
      - inversion E6; subst. exact Q5. }
    exact Q6.
  - (* IReplay *)
    destruct pending as [|b pending].
    + inversion E; subst. intros Hq. exact Hq.
    + destruct (N.eqb (b_sys b) t).
      * bind_inv E w1 E1. intros _. exact (IH (IReplay t pending kept) w1 w' E (IH (IRunner (b_sys b) (b_setup b) (b_cleanup b)) w w1 E1)).
      * exact (IH (IReplay t pending (kept ++ [b])) w w' E).
  - (* IDiscard *)
    destruct (buffer w) as [|b rest] eqn:EB.
    + inversion E; subst. intros Hq. exact Hq.
    + bind_inv E w1 E1. intros _. exact (IH IDiscard w1 w' E (IH (IAbort (b_sys b) (b_setup b) (b_cleanup b)) _ w1 E1)).
  - (* IAbort *)
    destruct (run_setup su t w) as [w0|] eqn:ES; [|discriminate E]. bind_inv E w1 E1.
    exact (IH IPoll w1 w' E (IH IGC _ w1 E1)).
  - (* IGC *)
    destruct (gc_chan w) as [|e r] eqn:EG; [inversion E; subst; exact EG|]. exact (IH IGC _ w' E).
  - (* IPoll *)
    pose proof (gc_chan_poll w) as Hp. pose proof (poll_reacts w) as Hr. destruct (poll w) as [w1 cs] eqn:EP. cbn [fst snd] in *.
    intros Hq. apply (IH (IApplyList cs) w1 w' E Hr). unfold Collected in *. rewrite Hp. exact Hq.
Qed.

Theorem collector_has_run_when_a_tree_returns f t su cl w w' : exec P f (IRunner t su cl) w = Ok w' -> gc_chan w' = [].
Proof. intros E. exact (exec_collected f (IRunner t su cl) w w' E). Qed.
Theorem collection_drains_the_channel f w w' : exec P f IGC w = Ok w' -> gc_chan w' = [].
Proof. intros E. exact (exec_collected f IGC w w' E). Qed.
Theorem collector_has_run_when_a_frame_ends f i bs w w' : exec P f (ITop i (TFrame bs)) w = Ok w' -> gc_chan w' = [].
Proof.
  intros E. destruct f as [|f]; [discriminate E|]. cbn [exec] in E.
  bind_inv E w4 E4. inversion E; subst. clear E. bind_inv E4 w1 E1. bind_inv E4 w2 E2. bind_inv E4 w3 E3. inversion E4; subst. clear E4.
  exact (exec_collected f IPoll w2 w3 E3 (exec_collected f IGC w1 w2 E2)).
Qed.
End CollectedExec.

