(* XInvSpec.v — C16: local data of entity world reactors lives on live entities only, in every reachable state. *)
From Cobweb Require Import Machine.
From CobwebProofs Require Import ListLemmas Closed RunnerInv Frames PayloadSpec LifetimeSpec WorldReactorSpec.

Lemma xl_of_xv a b : xv a = xv b -> xlocals a = xlocals b.
Proof. unfold xv. intros H. inversion H. reflexivity. Qed.
Lemma al_of_xv a b : xv a = xv b -> alive a = alive b.
Proof. unfold xv. intros H. inversion H. reflexivity. Qed.
Lemma xlocals_despawn_head e v : xlocals (dsp_data e (dsp_tracker e (dsp_ereactors e (dsp_storage e (dsp_comps e v))))) = xlocals v.
Proof. apply xl_of_xv. rewrite xv_dsp_data, xv_dsp_tracker, xv_dsp_ereactors, xv_dsp_storage, xv_dsp_comps. reflexivity. Qed.
Lemma xlocals_despawn e w : xlocals (despawn e w) = if is_alive e w then xlocals_without e (xlocals w) else xlocals w.
Proof.
  unfold despawn. destruct (is_alive e w); cbn [negb]; [|reflexivity].
  unfold dsp_xlocals. cbn [xlocals set]. rewrite xlocals_despawn_head. reflexivity.
Qed.
Lemma XInv_despawn e w : XInv w -> XInv (despawn e w).
Proof.
  intros H x e' v Hl. rewrite xlocals_despawn in Hl. unfold is_alive. rewrite alive_despawn.
  destruct (is_alive e w) eqn:Ha; [|eapply H; eauto].
  destruct (N.eq_dec e' e) as [->|Hne]; [rewrite xlocals_without_same in Hl; discriminate Hl|].
  rewrite xlocals_without_other in Hl by exact Hne. rewrite memN_removeN_other by exact Hne. eapply H; eauto.
Qed.
Lemma XInv_try_cleanup d w : XInv w -> XInv (try_cleanup_data_entity d w).
Proof.
  intros H. unfold try_cleanup_data_entity. destruct (negb (is_alive d w)); [exact H|].
  destruct (alookup d (dataents w)) as [[ty p cnt|ty t p cnt|ty p]|]; try exact H.
  - match goal with |- XInv (if ?b then despawn d ?w1 else ?w1) => destruct b; [apply XInv_despawn|]; (eapply XInv_xv; [|exact H]; reflexivity) end.
  - match goal with |- XInv (if ?b then despawn d ?w1 else ?w1) => destruct b; [apply XInv_despawn|]; (eapply XInv_xv; [|exact H]; reflexivity) end.
Qed.
Lemma XInv_run_cleanup cl w : XInv w -> XInv (run_cleanup cl w).
Proof.
  intros H. destruct cl; cbn [run_cleanup].
  - exact H.
  - apply XInv_despawn. eapply XInv_xv; [|exact H]. reflexivity.
  - eapply XInv_xv; [|exact H]. reflexivity.
  - destruct (snd (cur (tr_de w))) as [h|].
    + eapply XInv_xv; [apply xv_handle_drop|]. eapply XInv_xv; [|exact H]. reflexivity.
    + eapply XInv_xv; [|exact H]. reflexivity.
  - apply XInv_try_cleanup. eapply XInv_xv; [|exact H]. reflexivity.
  - apply XInv_try_cleanup. eapply XInv_xv; [|exact H]. reflexivity.
Qed.

Section XSteps.
Variable P : program.
Lemma XInv_alive_grows w w' : xlocals w' = xlocals w -> (forall e, is_alive e w = true -> is_alive e w' = true) -> XInv w -> XInv w'.
Proof. intros HX HA H x e v Hl. rewrite HX in Hl. apply HA. eapply H; eauto. Qed.
Lemma XInv_act o a w : XInv w -> XInv (fst (act P o a w)).
Proof.
  intros H. destruct a; cbn [act];
  repeat match goal with
         | |- context [if ?b then _ else _] => destruct b
         | |- context [match alookup2 ?a ?b ?c with _ => _ end] => destruct (alookup2 a b c)
         | |- context [match alookup ?a ?c with _ => _ end] => destruct (alookup a c) as [[? ?]|]
         | |- context [match ?m with Persistent => _ | _ => _ end] => destruct m
         end; cbn [fst]; try (timeout 5 (eapply XInv_xv; [|exact H]; reflexivity)); try (apply XInv_reserve; exact H).
  all: try (destruct (alookup wr (p_wr P)); cbn [fst]; exact H).
  all: try (change (XInv (reserve s w)); apply XInv_reserve; exact H).
  apply (XInv_alive_grows w); [reflexivity| |exact H]. intros e0 He. unfold is_alive in *. cbn [alive set]. rewrite memN_app, He. reflexivity.
Qed.
Lemma XInv_prim c w : XInv w -> XInv (fst (apply_prim P c w)).
Proof.
  intros H. destruct c; cbn [apply_prim]; try exact H; try (eapply XInv_xv; [|exact H]; reflexivity).
  - destruct (is_alive d w); (eapply XInv_xv; [|exact H]; reflexivity).
  - destruct (tbl_get ty (bc_tbl w)); cbn [fst]; [eapply XInv_xv; [|exact H]; reflexivity|].
    apply (XInv_alive_grows w); [reflexivity| |exact H]. intros e He. unfold is_alive in *. cbn [alive set emit]. rewrite memN_app, He. reflexivity.
  - destruct (entity_targets e (REvent ty) w ++ map handle_sys (tbl_get ty (any_tbl w))); cbn [fst]; [eapply XInv_xv; [|exact H]; reflexivity|].
    apply (XInv_alive_grows w); [reflexivity| |exact H]. intros e9 He. unfold is_alive in *. cbn [alive set emit]. rewrite memN_app, He. reflexivity.
  - match goal with |- context [if ?b then _ else _] => destruct b end; cbn [fst]; first [exact H | eapply XInv_xv; [|exact H]; reflexivity].
  - destruct (is_alive e w); (eapply XInv_xv; [|exact H]; reflexivity).
  - cbn [fst]. destruct (is_alive e w); [|exact H]. destruct (alookup2 c e (comps w)); [|exact H]. eapply XInv_xv; [|exact H]. reflexivity.
  - apply XInv_despawn. exact H.
  - apply XInv_despawn. exact H.
  - destruct (is_alive s w && negb (memN s (spawned w))); cbn [fst]; first [exact H | eapply XInv_xv; [|exact H]; reflexivity].
  - cbn [fst]. destruct (negb (is_alive s w)); [eapply XInv_xv; [|exact H]; reflexivity|]. destruct (negb (memN s (spawned w))); first [exact H | eapply XInv_xv; [|exact H]; reflexivity].
  - eapply XInv_xv; [|exact H].
    assert (Hh : forall h w0, xv (fst (let (w1, cs) := reg_triggers_cmds h b w0 in (handle_drop h w1, cs))) = xv w0).
    { intros h w0. pose proof (xv_reg_triggers_cmds h b w0) as H1. destruct (reg_triggers_cmds h b w0) as [w1 cs]. cbn [fst] in *.
      rewrite xv_handle_drop. exact H1. }
    destruct m; [apply Hh| |]; (unfold sig_new; rewrite Hh; reflexivity).
  - eapply XInv_xv; [|exact H]. destruct t; cbn [fst]; try apply xv_handle_drop; try reflexivity.
    + apply xv_comp_push.
    + apply xv_comp_push.
    + rewrite xv_comp_push. unfold track_removals. destruct (ahas c (removal_checkers w)); reflexivity.
  - eapply XInv_xv; [|exact H]. destruct (is_alive e w); [destruct (alookup e (ereactors w)); reflexivity|apply xv_handle_drop].
  - eapply XInv_xv; [|exact H]. unfold track_removals. destruct (ahas c (removal_checkers w)); reflexivity.
  - eapply XInv_xv; [|exact H]. destruct (is_alive e w); [|apply xv_handle_drop].
    match goal with |- context [if ?b then _ else _] => destruct b end; reflexivity.
  - destruct tk as [ts s]. eapply XInv_xv; [apply xv_revoke_all|exact H].
  - apply XInv_run_cleanup. exact H.
  - destruct (alookup x (p_xr P)) as [[s shape]|]; [destruct (is_alive e w)|]; exact H.
  - destruct (alookup x (p_xr P)) as [[s shape]|]; exact H.
  - (* CXInsertLocal: only on a live entity *)
    cbn [fst]. destruct (is_alive e w) eqn:Ha; [|exact H]. intros x0 e0 v0 Hl. cbn [xlocals set] in Hl. unfold is_alive. cbn [alive set].
    destruct (N.eq_dec e0 e) as [->|Hne]; [exact Ha|]. rewrite alookup2_aset2_other in Hl; [eapply H; eauto|]. intros Heq. inversion Heq. contradiction.
  - (* CXCleanupData: removal only *)
    cbn [fst]. destruct (is_alive e w); [|exact H]. destruct (alookup e (ereactors w)); [|exact H].
    match goal with |- context [if ?b then _ else _] => destruct b end; [exact H|].
    intros x0 e0 v0 Hl. cbn [xlocals set] in Hl. unfold is_alive. cbn [alive set].
    destruct (N.eq_dec x0 x) as [->|Hx]; [destruct (N.eq_dec e0 e) as [->|He]; [rewrite alookup2_aremove2_same in Hl; discriminate Hl|]|];
      (rewrite alookup2_aremove2_other in Hl; [eapply H; eauto|intros Heq; inversion Heq; contradiction]).
  - eapply XInv_xv; [apply xv_poll|exact H].
Qed.
End XSteps.

Lemma sm_l_some_alive sd xsys w src v : sm_l (fst (sample_readers sd xsys w)) = Some (src, Some v) -> is_alive src w = true.
Proof.
  unfold sample_readers. cbn zeta.
  match goal with |- context [if sd_take sd then take_sysevents TYPES w else ?e] => destruct (if sd_take sd then take_sysevents TYPES w else e) as [s0 w0] end.
  cbn [fst sm_l]. destruct xsys as [[x xs]|]; [|discriminate].
  match goal with |- (if ?b then _ else _) = _ -> _ => destruct b; [|discriminate] end.
  destruct (cur (tr_er w)) as [[s1 src1] rt1]. destruct (N.eqb s1 xs); [|discriminate].
  intros E. inversion E; subst. destruct (is_alive src w); [reflexivity|discriminate].
Qed.

Section XClosed.
Variable P : program.
(* the body's own increment touches the datum of the reacting entity only, and only when that entity is alive *)
Lemma XInv_bump_local x src v w2 : XInv w2 -> is_alive src w2 = true -> XInv (w2 <| xlocals := aset2 x src v (xlocals w2) |>).
Proof.
  intros H Ha x0 e0 v0 Hl. cbn [xlocals set] in Hl. unfold is_alive in *. cbn [alive set].
  destruct (N.eq_dec x0 x) as [->|Hx]; [destruct (N.eq_dec e0 src) as [->|He]; [exact Ha|]|];
    (rewrite alookup2_aset2_other in Hl; [exact (H _ _ _ Hl)|intros Heq; inversion Heq; contradiction]).
Qed.
Lemma XInv_body_sample sd t r c w : XInv w -> XInv (body_sample P sd t r c w).
Proof.
  intros H. unfold body_sample.
  pose proof (xv_sample_readers sd (xsys_of P t) w) as Hw1. pose proof (sm_l_some_alive sd (xsys_of P t) w) as Hal.
  destruct (sample_readers sd (xsys_of P t) w) as [sm w1]. cbn [fst snd] in Hw1, Hal.
  assert (H1 : XInv w1) by (eapply XInv_xv; eauto).
  assert (H2 : forall o, XInv (note_run t r c o (emit (EvRun t r c sm) w1))) by (intros o; eapply XInv_xv; [|exact H1]; reflexivity).
  destruct (sm_l sm) as [[src [v|]]|]; try apply H2. destruct (xsys_of P t) as [[x xs]|]; [|apply H2].
  apply XInv_bump_local; [apply H2|]. specialize (Hal src v eq_refl).
  unfold is_alive in *. cbn [alive note_run emit set]. rewrite (al_of_xv _ _ Hw1). exact Hal.
Qed.
Lemma XInv_body_begin sd t r c w : XInv w -> XInv (body_begin P sd t r c w).
Proof.
  intros H. unfold body_begin. pose proof (XInv_body_sample sd t r c w H) as Hs.
  unfold state_bump. destruct (alookup t (cbs (body_sample P sd t r c w))); [eapply XInv_xv; [|exact Hs]; reflexivity|exact Hs].
Qed.
Lemma XInv_closed : closed P XInv.
Proof.
  constructor.
  - intros e w H. eapply XInv_xv; [|exact H]. reflexivity.
  - intros c w H. apply XInv_prim. exact H.
  - intros o a w H. apply XInv_act. exact H.
  - intros c w t su cl w' H E. eapply XInv_xv; [|exact H].
    destruct c; try discriminate E; cbn in E; try (inversion E; subst; reflexivity). destruct r; inversion E; subst; reflexivity.
  - intros e r w H _. unfold gc_step. apply XInv_despawn. eapply XInv_xv; [|exact H]. reflexivity.
  - intros w H. eapply XInv_xv; [apply xv_poll|exact H].
  - intros su t w w' H E. eapply XInv_xv; [|exact H].
    destruct su; cbn [run_setup] in E; repeat match type of E with match ?x with _ => _ end = _ => destruct x; try discriminate E end; inversion E; subst; reflexivity.
  - intros cl w H. apply XInv_run_cleanup. exact H.
  - intros b w H. exact H.
  - intros n w H. exact H.
  - intros t b w H. exact H.
  - intros t k w H _. unfold rn_dropped. eapply XInv_xv; [|exact H]. cbn [xv alive xlocals emit set]. exact (xv_drop_callback t w).
  - intros t k w H _. unfold rn_despawn_missing. eapply XInv_xv; [|apply (XInv_despawn t (drop_callback t w)); eapply XInv_xv; [apply xv_drop_callback|exact H]]. reflexivity.
  - intros t w H. apply XInv_despawn. exact H.
  - intros t cb b w H _ _. exact H.
  - intros t tk w H. unfold once_finish. destruct (alookup t (cbs w)); [|exact H]. eapply XInv_xv; [|exact H]. reflexivity.
  - intros sd t r c w _ H. apply XInv_body_begin. exact H.
  - intros w H. exact H.
Qed.
Lemma XInv_init : XInv (install_static P init_world).
Proof.
  assert (Hgen : forall l w, xlocals w = [] -> xlocals (fold_left (fun w s => (reserve s w) <| storage ::= aset s true |> <| cbs ::= aset s (mkCb None 0 0 false true) |> <| spawned ::= cons s |>) l w) = []).
  { induction l as [|s l IH]; intros w H; cbn [fold_left]; [exact H|]. apply IH. cbn [xlocals set]. rewrite xv_reserve_xlocals. exact H. }
  intros x e v Hl. unfold install_static in Hl. rewrite Hgen in Hl by reflexivity. discriminate Hl.
Qed.
(* in every reachable state local data sits on live entities only: when an entity goes, its data goes *)
Theorem local_data_only_on_live_entities fuel w' : run P fuel = Ok w' -> XInv w'.
Proof. intros E. unfold run in E. eapply run_tops_closed; [apply XInv_closed|apply XInv_init|exact E]. Qed.
Theorem XInv_exec fuel i w w' : XInv w -> exec P fuel i w = Ok w' -> XInv w'.
Proof. apply exec_closed. apply XInv_closed. Qed.
End XClosed.
