(* OnceInv.v — a spent `once` wrapper is never run again: facts about the callback store (cbs), the storage map and
   the ghost set `spawned`.  oview lemmas are generated from the same scripts as the rview lemmas of RunnerInv.v. *)
From Cobweb Require Import Machine.
From CobwebProofs Require Import ListLemmas Closed RunnerInv.

Definition oview (w : world) := (storage w, spawned w, cbs w).

Lemma oview_handle_drop h w : oview (handle_drop h w) = oview w.
Proof.
  destruct h as [s|g s]; cbn; [reflexivity|]. unfold sig_drop.
  destruct (alookup g (sigs w)) as [[e n]|]; [|reflexivity]. destruct (N.leb n 1); reflexivity.
Qed.
Lemma oview_handle_clone h w : oview (handle_clone h w) = oview w.
Proof. destruct h as [s|g s]; cbn; [reflexivity|]. unfold sig_clone. destruct (alookup g (sigs w)) as [[e n]|]; reflexivity. Qed.
Lemma oview_handles_drop hs : forall w, oview (handles_drop hs w) = oview w.
Proof. induction hs as [|h hs IH]; intros w; cbn; [reflexivity|]. rewrite IH. apply oview_handle_drop. Qed.
Lemma oview_push_removed_all cs e : forall w, oview (push_removed_all cs e w) = oview w.
Proof. induction cs as [|c cs IH]; intros w; cbn; [reflexivity|]. rewrite IH. reflexivity. Qed.
Lemma oview_drop_ddata d w : oview (drop_ddata d w) = oview w.
Proof. destruct d as [? ? ?|? ? ? ?|? [?|]]; reflexivity. Qed.
Lemma oview_take_sysevents tys : forall w, oview (snd (take_sysevents tys w)) = oview w.
Proof.
  induction tys as [|ty r IH]; intros w; cbn [take_sysevents]; [reflexivity|].
  destruct (peek_sysevent ty w) as [p|]; [|apply IH].
  match goal with |- context [take_sysevents r ?w1] => specialize (IH w1); destruct (take_sysevents r w1) end. exact IH.
Qed.
Lemma oview_sample_readers sd x w : oview (snd (sample_readers sd x w)) = oview w.
Proof.
  unfold sample_readers. pose proof (oview_take_sysevents TYPES w) as H1.
  destruct (sd_take sd); [destruct (take_sysevents TYPES w) as [s w1]; exact H1|reflexivity].
Qed.
Lemma oview_revoke_one s t w : oview (revoke_one s t w) = oview w.
Proof.
  assert (Hent : forall e rt, oview (if is_alive e w then
             match alookup e (ereactors w) with
             | Some l => let (d, k) := er_remove rt s l in handles_drop d (w <| ereactors := aset e k (ereactors w) |>)
             | None => w end else w) = oview w).
  { intros e rt. destruct (is_alive e w); [|reflexivity]. destruct (alookup e (ereactors w)) as [l|]; [|reflexivity].
    destruct (er_remove rt s l) as [d k]. rewrite oview_handles_drop. reflexivity. }
  assert (Hcomp : forall kd c, oview (comp_revoke kd c s w) = oview w).
  { intros kd c. unfold comp_revoke. destruct (alookup c (comp_tbl w)) as [[[i m] r]|]; [|reflexivity].
    destruct (remove_first s match kd with KIns => i | KMut => m | KRem => r end) as [o l'].
    destruct (match kd with KIns => (l', m, r) | KMut => (i, l', r) | KRem => (i, m, l') end) as [[i' m'] r'].
    destruct o as [h|]; [rewrite oview_handle_drop|]; (destruct i'; [destruct m'; [destruct r'|]|]); reflexivity. }
  destruct t; cbn [revoke_one]; try apply Hent; try apply Hcomp.
  - destruct (tbl_revoke ty s (bc_tbl w)) as [o t']. destruct o; [rewrite oview_handle_drop|]; reflexivity.
  - destruct (tbl_revoke ty s (any_tbl w)) as [o t']. destruct o; [rewrite oview_handle_drop|]; reflexivity.
  - destruct (tbl_revoke r s (res_tbl w)) as [o t']. destruct o; [rewrite oview_handle_drop|]; reflexivity.
  - destruct (tbl_revoke e s (desp_tbl w)) as [o t']. destruct o; [rewrite oview_handle_drop|]; reflexivity.
Qed.
Lemma oview_revoke_all s ts : forall w, oview (revoke_all s ts w) = oview w.
Proof. induction ts as [|t ts IH]; intros w; cbn; [reflexivity|]. rewrite IH. apply oview_revoke_one. Qed.
Lemma oview_reg_triggers_cmds h ts : forall w, oview (fst (reg_triggers_cmds h ts w)) = oview w.
Proof.
  induction ts as [|t ts IH]; intros w; cbn [reg_triggers_cmds]; [reflexivity|].
  destruct (reg_trigger_cmds h t w) as [w1 c1] eqn:E1. destruct (reg_triggers_cmds h ts w1) as [w2 c2] eqn:E2. cbn [fst].
  assert (H1 : oview w1 = oview w).
  { destruct t; cbn in E1; try (inversion E1; subst; apply oview_handle_clone).
    destruct (is_alive e w); inversion E1; subst; [apply oview_handle_clone|reflexivity]. }
  specialize (IH w1). rewrite E2 in IH. cbn [fst] in IH. congruence.
Qed.
Lemma oview_poll_despawns chan : forall w, oview (fst (poll_despawns chan w)) = oview w.
Proof.
  induction chan as [|e r IH]; intros w; cbn [poll_despawns]; [reflexivity|].
  specialize (IH (w <| desp_tbl := aremove e (desp_tbl w) |>)). destruct (poll_despawns r _) as [w2 cs]. exact IH.
Qed.
Lemma oview_poll w : oview (fst (poll w)) = oview w.
Proof.
  unfold poll. destruct (poll_removals (removal_checkers w) w) as [chk c1].
  pose proof (oview_poll_despawns (despawn_chan (w <| removal_checkers := chk |>)) ((w <| removal_checkers := chk |>) <| despawn_chan := [] |>)) as H.
  destruct (poll_despawns _ _) as [w2 c2]. exact H.
Qed.
Lemma oview_comp_push kd c h w : oview (comp_push kd c h w) = oview w.
Proof. unfold comp_push. destruct (alookup c (comp_tbl w)) as [[[i m] r]|]; destruct kd; reflexivity. Qed.

Section OSteps.
Variable P : program.

Lemma oview_reserve id w : oview (reserve id w) = oview w.
Proof. unfold reserve, bind_id. destruct (memN id (bound w)); reflexivity. Qed.
Lemma oview_act o a w : oview (fst (act P o a w)) = oview w.
Proof.
  destruct a; cbn [act];
  repeat match goal with
         | |- context [if ?b then _ else _] => destruct b
         | |- context [match alookup2 ?a ?b ?c with _ => _ end] => destruct (alookup2 a b c)
         | |- context [match alookup ?a ?c with _ => _ end] => destruct (alookup a c) as [[? ?]|]
         | |- context [match ?m with Persistent => _ | _ => _ end] => destruct m
         end; cbn [fst]; try reflexivity; try apply oview_reserve.
  all: try (destruct (alookup wr (p_wr P)); reflexivity).
  all: try (change (oview (reserve s w) = oview w); apply oview_reserve).
Qed.
Lemma oview_acts l : forall mk idx w, oview (fst (acts P mk idx l w)) = oview w.
Proof.
  induction l as [|a l IH]; intros mk idx w; cbn [acts]; [reflexivity|].
  pose proof (oview_act (mk idx) a w) as H1. destruct (act P (mk idx) a w) as [w1 c1].
  specialize (IH mk (idx + 1) w1). destruct (acts P mk (idx + 1) l w1) as [w2 c2]. cbn [fst] in *. congruence.
Qed.
Lemma oview_body_sample sd t r c w : oview (body_sample P sd t r c w) = oview w.
Proof.
  unfold body_sample. pose proof (oview_sample_readers sd (xsys_of P t) w) as H1.
  destruct (sample_readers sd (xsys_of P t) w) as [sm w1]. cbn [snd] in H1.
  destruct (sm_l sm) as [[src [v|]]|]; try exact H1. destruct (xsys_of P t) as [[x ?]|]; exact H1.
Qed.
End OSteps.

(* ================================================================================================================ *)
Definition gone (t : ent) (w : world) : Prop := In t (spawned w) /\ alookup t (storage w) = None.
Definition Kinv (t : ent) (w : world) : Prop := In t (spawned w) /\ forall cb, alookup t (cbs w) = Some cb -> cb_once cb = None.
Definition Oinv (w : world) : Prop :=
  forall t cb, alookup t (cbs w) = Some cb -> cb_once cb <> None -> cb_taken cb = true -> alookup t (storage w) <> Some true.

Lemma gone_evolves t w w' : evolves w w' -> gone t w -> gone t w'.
Proof.
  intros (_ & _ & HS & HT) [Hs Hn]. split; [apply HS; exact Hs|].
  destruct (HT t) as [E|[E|(_ & Hns & _)]]; [congruence|exact E|contradiction].
Qed.

(* the callback record of an already spawned system is only ever bumped (keeping its kind), finished or dropped *)
Definition cb_stable (t : ent) (w w' : world) : Prop :=
  incl (spawned w) (spawned w') /\ (alookup t (cbs w') = alookup t (cbs w) \/ alookup t (cbs w') = None).

Lemma cb_stable_oview t w w' : oview w' = oview w -> cb_stable t w w'.
Proof. unfold oview. intros H. inversion H as [[H1 H2 H3]]. split; [rewrite H2; apply incl_refl|left; now rewrite H3]. Qed.
Lemma cb_stable_trans t w1 w2 w3 : cb_stable t w1 w2 -> cb_stable t w2 w3 -> cb_stable t w1 w3.
Proof. intros [I1 [E1|E1]] [I2 [E2|E2]]; (split; [eapply incl_tran; eauto|]); [left|right|right|right]; congruence. Qed.
Lemma Kinv_stable t w w' : cb_stable t w w' -> Kinv t w -> Kinv t w'.
Proof. intros [HI HC] [Hs Hk]. split; [apply HI; exact Hs|]. intros cb Hcb. destruct HC as [E|E]; [apply Hk; congruence|congruence]. Qed.

Lemma cb_stable_drop_callback t e w : cb_stable t w (drop_callback e w).
Proof.
  unfold drop_callback. destruct (alookup e (cbs w)) as [cb|] eqn:E; [|split; [apply incl_refl|left; reflexivity]].
  assert (H : cb_stable t w (w <| cbs := aremove e (cbs w) |>)).
  { split; [apply incl_refl|]. cbn. destruct (N.eq_dec t e) as [->|Hne]; [right; apply alookup_aremove_same|left; apply alookup_aremove_other; exact Hne]. }
  destruct (cb_live cb); exact H.
Qed.

Lemma oview_dsp_tail e w : oview (dsp_xlocals e (dsp_data e (dsp_tracker e (dsp_ereactors e w)))) = oview w.
Proof.
  assert (H1 : oview (dsp_ereactors e w) = oview w).
  { unfold dsp_ereactors. destruct (alookup e (ereactors w)) as [l|]; [|reflexivity]. etransitivity; [|apply (oview_handles_drop (map snd l) w)]. reflexivity. }
  assert (H2 : forall w0, oview (dsp_tracker e w0) = oview w0) by (intros w0; unfold dsp_tracker; destruct (memN e (dtrackers w0)); reflexivity).
  assert (H3 : forall w0, oview (dsp_data e w0) = oview w0).
  { intros w0. unfold dsp_data. destruct (alookup e (dataents w0)) as [d|]; [|reflexivity]. etransitivity; [|apply (oview_drop_ddata d w0)]. reflexivity. }
  assert (H4 : forall w0, oview (dsp_xlocals e w0) = oview w0) by reflexivity.
  rewrite H4, H3, H2. exact H1.
Qed.
Lemma oview_dsp_head e w : oview (dsp_comps e (dsp_alive e w)) = oview w.
Proof. unfold dsp_comps. etransitivity; [|apply (oview_push_removed_all (comps_of e (comps (dsp_alive e w))) e (dsp_alive e w))]. reflexivity. Qed.

Lemma cb_stable_dsp_storage t e w : cb_stable t w (dsp_storage e w).
Proof.
  unfold dsp_storage. destruct (alookup e (storage w)) as [[|]|].
  - eapply cb_stable_trans; [apply cb_stable_drop_callback|]. split; [apply incl_refl|left; reflexivity].
  - split; [apply incl_refl|left; reflexivity].
  - split; [apply incl_refl|left; reflexivity].
Qed.
Lemma cb_stable_despawn t e w : cb_stable t w (despawn e w).
Proof.
  unfold despawn. destruct (negb (is_alive e w)); [apply cb_stable_oview; reflexivity|].
  eapply cb_stable_trans; [apply cb_stable_oview; apply (oview_dsp_head e w)|].
  eapply cb_stable_trans; [apply cb_stable_dsp_storage|]. apply cb_stable_oview. apply oview_dsp_tail.
Qed.

Lemma cb_stable_try_cleanup t d w : cb_stable t w (try_cleanup_data_entity d w).
Proof.
  unfold try_cleanup_data_entity. destruct (negb (is_alive d w)); [apply cb_stable_oview; reflexivity|].
  destruct (alookup d (dataents w)) as [[ty p cnt|ty t0 p cnt|ty p]|]; try (apply cb_stable_oview; reflexivity).
  - match goal with |- cb_stable t w (if ?b then despawn d ?w1 else ?w1) =>
      destruct b; [eapply cb_stable_trans; [apply (cb_stable_oview t w w1); reflexivity|apply cb_stable_despawn]|apply cb_stable_oview; reflexivity] end.
  - match goal with |- cb_stable t w (if ?b then despawn d ?w1 else ?w1) =>
      destruct b; [eapply cb_stable_trans; [apply (cb_stable_oview t w w1); reflexivity|apply cb_stable_despawn]|apply cb_stable_oview; reflexivity] end.
Qed.
Lemma cb_stable_run_cleanup t cl w : cb_stable t w (run_cleanup cl w).
Proof.
  destruct cl; cbn [run_cleanup]; try (apply cb_stable_oview; reflexivity).
  - eapply cb_stable_trans; [|apply cb_stable_despawn]. apply cb_stable_oview. reflexivity.
  - match goal with |- cb_stable t w (match ?h with Some h0 => handle_drop h0 ?w1 | None => ?w1 end) =>
      destruct h; apply cb_stable_oview; [rewrite oview_handle_drop|]; reflexivity end.
  - eapply cb_stable_trans; [|apply cb_stable_try_cleanup]. apply cb_stable_oview. reflexivity.
  - eapply cb_stable_trans; [|apply cb_stable_try_cleanup]. apply cb_stable_oview. reflexivity.
Qed.
Lemma oview_run_setup su t w w' : run_setup su t w = Some w' -> oview w' = oview w.
Proof.
  intros E. destruct su; cbn [run_setup] in E.
  - inversion E; subst; reflexivity.
  - destruct (trk_start true k t (tr_se w)); inversion E; subst. reflexivity.
  - destruct (trk_start true k t (tr_er w)); inversion E; subst. reflexivity.
  - destruct (trk_start false k t (tr_de w)); inversion E; subst. reflexivity.
  - destruct (trk_start true k t (tr_er w)); [|discriminate E].
    match type of E with match ?x with _ => _ end = _ => destruct x end; inversion E; subst. reflexivity.
  - destruct (trk_start true k t (tr_ev w)); inversion E; subst. reflexivity.
Qed.

Section OSteps2.
Variable P : program.

(* for a system that is already spawned, no primitive command changes its callback record except by dropping it *)
Lemma cb_stable_prim_gen t c w : (In t (spawned w) \/ match c with CSpawnSys _ | CInsertOnce _ _ => False | _ => True end) -> cb_stable t w (fst (apply_prim P c w)).
Proof.
  intros Ht. destruct c; cbn [apply_prim]; try (apply cb_stable_oview; reflexivity).
  - destruct (is_alive d w); apply cb_stable_oview; reflexivity.
  - destruct (tbl_get ty (bc_tbl w)); apply cb_stable_oview; reflexivity.
  - destruct (entity_targets e (REvent ty) w ++ map handle_sys (tbl_get ty (any_tbl w))); apply cb_stable_oview; reflexivity.
  - match goal with |- context [if ?b then _ else _] => destruct b end; apply cb_stable_oview; reflexivity.
  - destruct (is_alive e w); apply cb_stable_oview; reflexivity.
  - destruct (is_alive e w); [|apply cb_stable_oview; reflexivity]. destruct (alookup2 c e (comps w)); apply cb_stable_oview; reflexivity.
  - apply cb_stable_despawn.
  - apply cb_stable_despawn.
  - destruct (is_alive s w && negb (memN s (spawned w))) eqn:E; cbn [fst]; [|apply cb_stable_oview; reflexivity].
    apply andb_true_iff in E. destruct E as [_ E]. apply negb_true_iff, memN_false in E.
    destruct Ht as [Ht|[]]. split; cbn; [intros x Hx; right; exact Hx|]. left. apply alookup_aset_other. intros ->. contradiction.
  - destruct (negb (is_alive s w)); cbn [fst]; [apply cb_stable_oview; reflexivity|].
    destruct (negb (memN s (spawned w))) eqn:E; [|apply cb_stable_oview; reflexivity].
    apply negb_true_iff, memN_false in E.
    destruct Ht as [Ht|[]]. split; cbn; [intros x Hx; right; exact Hx|]. left. apply alookup_aset_other. intros ->. contradiction.
  - apply cb_stable_oview.
    assert (Hh : forall h w0, oview (fst (let (w1, cs) := reg_triggers_cmds h b w0 in (handle_drop h w1, cs))) = oview w0).
    { intros h w0. pose proof (oview_reg_triggers_cmds h b w0) as H1. destruct (reg_triggers_cmds h b w0) as [w1 cs]. cbn [fst] in *.
      rewrite oview_handle_drop. exact H1. }
    destruct m; [apply Hh| |]; (unfold sig_new; rewrite Hh; reflexivity).
  - apply cb_stable_oview. destruct t0; cbn [fst]; try apply oview_handle_drop; try reflexivity.
    + apply oview_comp_push.
    + apply oview_comp_push.
    + rewrite oview_comp_push. unfold track_removals. destruct (ahas c (removal_checkers w)); reflexivity.
  - apply cb_stable_oview. destruct (is_alive e w); [destruct (alookup e (ereactors w)); reflexivity|apply oview_handle_drop].
  - apply cb_stable_oview. unfold track_removals. destruct (ahas c (removal_checkers w)); reflexivity.
  - apply cb_stable_oview. destruct (is_alive e w); [|apply oview_handle_drop].
    match goal with |- context [if ?b then _ else _] => destruct b end; reflexivity.
  - destruct tk as [ts s]. apply cb_stable_oview. apply oview_revoke_all.
  - apply cb_stable_run_cleanup.
  - destruct (alookup x (p_xr P)) as [[s shape]|]; [destruct (is_alive e w)|]; apply cb_stable_oview; reflexivity.
  - destruct (alookup x (p_xr P)) as [[s shape]|]; apply cb_stable_oview; reflexivity.
  - destruct (is_alive e w); apply cb_stable_oview; reflexivity.
  - destruct (is_alive e w); [|apply cb_stable_oview; reflexivity]. destruct (alookup e (ereactors w)); [|apply cb_stable_oview; reflexivity].
    match goal with |- context [if ?b then _ else _] => destruct b end; apply cb_stable_oview; reflexivity.
  - apply cb_stable_oview. apply oview_poll.
Qed.

Lemma cb_stable_prim t c w : In t (spawned w) -> cb_stable t w (fst (apply_prim P c w)).
Proof. intros H. apply cb_stable_prim_gen. left. exact H. Qed.
Lemma cb_stable_prim_any t c w : (forall s, c <> CSpawnSys s) -> (forall s tk, c <> CInsertOnce s tk) -> cb_stable t w (fst (apply_prim P c w)).
Proof. intros H1 H2. apply cb_stable_prim_gen. right. destruct c; try exact I; [exact (H1 _ eq_refl)|exact (H2 _ _ eq_refl)]. Qed.

Lemma Kinv_closed t : closed P (Kinv t).
Proof.
  constructor.
  - intros e w H. eapply Kinv_stable; [|exact H]. apply cb_stable_oview. reflexivity.
  - intros c w H. eapply Kinv_stable; [|exact H]. apply cb_stable_prim. exact (proj1 H).
  - intros o a w H. eapply Kinv_stable; [|exact H]. apply cb_stable_oview. apply oview_act.
  - intros c w t0 su cl w' H E. eapply Kinv_stable; [|exact H]. apply cb_stable_oview.
    destruct c; try discriminate E; cbn in E; try (inversion E; subst; reflexivity). destruct r; inversion E; subst; reflexivity.
  - intros e r w H _. unfold gc_step. eapply Kinv_stable; [|exact H]. eapply cb_stable_trans; [|apply cb_stable_despawn]. apply cb_stable_oview. reflexivity.
  - intros w H. eapply Kinv_stable; [|exact H]. apply cb_stable_oview. apply oview_poll.
  - intros su t0 w w' H E. eapply Kinv_stable; [|exact H]. apply cb_stable_oview. eapply oview_run_setup; eauto.
  - intros cl w H. eapply Kinv_stable; [|exact H]. apply cb_stable_run_cleanup.
  - intros b w H. exact H.
  - intros n w H. exact H.
  - intros t0 b w H. exact H.
  - intros t0 k w H _. unfold rn_dropped. eapply Kinv_stable; [|exact H]. eapply cb_stable_trans; [apply cb_stable_drop_callback|]. apply cb_stable_oview. reflexivity.
  - intros t0 k w H _. unfold rn_despawn_missing. eapply Kinv_stable; [|exact H].
    eapply cb_stable_trans; [apply cb_stable_drop_callback|]. eapply cb_stable_trans; [apply cb_stable_despawn|]. apply cb_stable_oview. reflexivity.
  - intros t0 w H. eapply Kinv_stable; [|exact H]. apply cb_stable_despawn.
  - intros t0 cb b w [Hs Hk] Hcb _. split; [exact Hs|]. intros cb' Hcb'. unfold cb_bump in Hcb'. cbn in Hcb'.
    destruct (N.eq_dec t t0) as [->|Hne].
    + rewrite alookup_aupd_same, Hcb in Hcb'. inversion Hcb'; subst. cbn. apply Hk. exact Hcb.
    + rewrite alookup_aupd_other in Hcb' by exact Hne. apply Hk. exact Hcb'.
  - intros t0 tk w [Hs Hk]. unfold once_finish. destruct (alookup t0 (cbs w)) as [cb'|] eqn:Ecb; [|split; assumption].
    split; [exact Hs|]. intros cb Hcb. cbn in Hcb. destruct (N.eq_dec t t0) as [->|Hne].
    + rewrite alookup_aupd_same, Ecb in Hcb. inversion Hcb; subst. cbn. apply Hk. exact Ecb.
    + rewrite alookup_aupd_other in Hcb by exact Hne. apply Hk. exact Hcb.
  - intros sd t0 r c w _ H. unfold body_begin.
    assert (H0 : Kinv t (body_sample P sd t0 r c w)) by (eapply Kinv_stable; [|exact H]; apply cb_stable_oview; apply oview_body_sample).
    destruct H0 as [Hs Hk]. unfold state_bump. destruct (alookup t0 (cbs (body_sample P sd t0 r c w))) as [cb0|] eqn:Ecb; [|split; assumption].
    split; [exact Hs|]. intros cb Hcb. cbn in Hcb. destruct (N.eq_dec t t0) as [->|Hne].
    + rewrite alookup_aupd_same, Ecb in Hcb. inversion Hcb; subst. cbn. apply Hk. exact Ecb.
    + rewrite alookup_aupd_other in Hcb by exact Hne. apply Hk. exact Hcb.
  - intros w H. exact H.
Qed.

Lemma gone_closed t : closed P (gone t).
Proof.
  constructor.
  - intros e w H. eapply gone_evolves; [|exact H]. apply evolves_rview. reflexivity.
  - intros c w H. eapply gone_evolves; [|exact H]. apply evolves_prim.
  - intros o a w H. eapply gone_evolves; [|exact H]. apply evolves_rview. apply rview_act.
  - intros c w t0 su cl w' H E. eapply gone_evolves; [|exact H]. eapply evolves_prepare; eauto.
  - intros e r w H _. unfold gc_step. eapply gone_evolves; [|exact H]. eapply evolves_trans; [|apply evolves_despawn]. apply evolves_rview. reflexivity.
  - intros w H. eapply gone_evolves; [|exact H]. apply evolves_rview. apply rview_poll.
  - intros su t0 w w' H E. eapply gone_evolves; [|exact H]. eapply evolves_run_setup; eauto.
  - intros cl w H. eapply gone_evolves; [|exact H]. apply evolves_run_cleanup.
  - intros b w H. exact H.
  - intros n w H. exact H.
  - intros t0 b w [Hs Hn]. split; [exact Hs|]. cbn. destruct (N.eq_dec t t0) as [->|Hne]; [rewrite alookup_aupd_same, Hn; reflexivity|rewrite alookup_aupd_other by exact Hne; exact Hn].
  - intros t0 k w H _. unfold rn_dropped. eapply gone_evolves; [|exact H]. apply evolves_rview. cbn. apply rview_drop_callback.
  - intros t0 k w H _. unfold rn_despawn_missing. eapply gone_evolves; [|exact H].
    eapply evolves_trans; [apply evolves_rview; apply rview_drop_callback|]. eapply evolves_trans; [apply evolves_despawn|]. apply evolves_rview. reflexivity.
  - intros t0 w H. eapply gone_evolves; [|exact H]. apply evolves_despawn.
  - intros t0 cb b w H _ _. exact H.
  - intros t0 tk w H. unfold once_finish. destruct (alookup t0 (cbs w)); exact H.
  - intros sd t0 r c w _ H. eapply gone_evolves; [|exact H]. apply evolves_rview. apply rview_body_begin.
  - intros w H. exact H.
Qed.
End OSteps2.

(* ================================================================================================================ *)
(* Oinv: a spent once-wrapper is never sitting in a storage component                                              *)
Definition o_ok (w w' : world) : Prop := forall t,
  ((alookup t (cbs w') = alookup t (cbs w) \/ alookup t (cbs w') = None) /\
   (alookup t (storage w') = alookup t (storage w) \/ alookup t (storage w') = None))
  \/ (exists cb, alookup t (cbs w') = Some cb /\ cb_taken cb = false).

Lemma O_ok w w' : o_ok w w' -> Oinv w -> Oinv w'.
Proof.
  intros Hok HO t cb Hcb Honce Htk Hst. destruct (Hok t) as [[[Ec|Ec] [Es|Es]]|(cb' & Ecb' & Hnt)]; try congruence.
  eapply (HO t cb); congruence.
Qed.
Lemma o_ok_oview w w' : oview w' = oview w -> o_ok w w'.
Proof. unfold oview. intros H. inversion H as [[H1 H2 H3]]. intros t. left. split; left; congruence. Qed.
Lemma O_oview w w' : oview w' = oview w -> Oinv w -> Oinv w'.
Proof. intros H. apply O_ok, o_ok_oview, H. Qed.

Lemma O_drop_callback e w : Oinv w -> Oinv (drop_callback e w).
Proof.
  apply O_ok. intros t. left. unfold drop_callback. destruct (alookup e (cbs w)) as [cb|] eqn:E; [|split; left; reflexivity].
  assert (H : (alookup t (cbs (w <| cbs := aremove e (cbs w) |>)) = alookup t (cbs w) \/ alookup t (cbs (w <| cbs := aremove e (cbs w) |>)) = None)).
  { cbn. destruct (N.eq_dec t e) as [->|Hne]; [right; apply alookup_aremove_same|left; apply alookup_aremove_other; exact Hne]. }
  destruct (cb_live cb); (split; [exact H|left; reflexivity]).
Qed.

Lemma O_dsp_storage e w : Oinv w -> Oinv (dsp_storage e w).
Proof.
  intros HO. unfold dsp_storage.
  assert (H1 : Oinv (match alookup e (storage w) with Some true => drop_callback e w | _ => w end))
    by (destruct (alookup e (storage w)) as [[|]|]; try exact HO; apply O_drop_callback; exact HO).
  revert H1. apply O_ok. intros t. left. split; [left; reflexivity|]. cbn.
  destruct (N.eq_dec t e) as [->|Hne]; [right; apply alookup_aremove_same|left; apply alookup_aremove_other; exact Hne].
Qed.
Lemma O_despawn e w : Oinv w -> Oinv (despawn e w).
Proof.
  intros HO. unfold despawn. destruct (negb (is_alive e w)); [exact HO|].
  eapply O_oview; [apply oview_dsp_tail|]. apply O_dsp_storage. eapply O_oview; [apply oview_dsp_head|exact HO].
Qed.

Lemma O_try_cleanup d w : Oinv w -> Oinv (try_cleanup_data_entity d w).
Proof.
  intros H. unfold try_cleanup_data_entity. destruct (negb (is_alive d w)); [exact H|].
  destruct (alookup d (dataents w)) as [[ty p cnt|ty t p cnt|ty p]|]; try exact H.
  - match goal with |- Oinv (if ?b then despawn d ?w1 else ?w1) => assert (H1 : Oinv w1) by (eapply O_oview; [|exact H]; reflexivity); destruct b; [apply O_despawn|]; exact H1 end.
  - match goal with |- Oinv (if ?b then despawn d ?w1 else ?w1) => assert (H1 : Oinv w1) by (eapply O_oview; [|exact H]; reflexivity); destruct b; [apply O_despawn|]; exact H1 end.
Qed.
Lemma O_run_cleanup cl w : Oinv w -> Oinv (run_cleanup cl w).
Proof.
  intros H. destruct cl; cbn [run_cleanup]; [exact H| |eapply O_oview; [|exact H]; reflexivity| | |].
  - apply O_despawn. eapply O_oview; [|exact H]. reflexivity.
  - match goal with |- Oinv (match ?h with Some h0 => handle_drop h0 ?w1 | None => ?w1 end) =>
      destruct h; (eapply O_oview; [|exact H]); [rewrite oview_handle_drop|]; reflexivity end.
  - apply O_try_cleanup. eapply O_oview; [|exact H]. reflexivity.
  - apply O_try_cleanup. eapply O_oview; [|exact H]. reflexivity.
Qed.

Lemma O_cb_bump t cb b w : Oinv w -> alookup t (storage w) <> Some true -> Oinv (cb_bump t cb b w).
Proof.
  intros HO Hst t0 cb0 Hcb Honce Htk. unfold cb_bump in Hcb. cbn in Hcb |- *.
  destruct (N.eq_dec t0 t) as [->|Hne]; [exact Hst|]. rewrite alookup_aupd_other in Hcb by exact Hne. eapply HO; eauto.
Qed.
Lemma O_state_bump t w : Oinv w -> Oinv (state_bump t w).
Proof.
  intros HO. unfold state_bump. destruct (alookup t (cbs w)) as [cb|] eqn:Ecb; [|exact HO].
  intros t0 cb0 Hcb Honce Htk. cbn in Hcb |- *. destruct (N.eq_dec t0 t) as [->|Hne].
  - rewrite alookup_aupd_same, Ecb in Hcb. inversion Hcb; subst. cbn in Honce, Htk. eapply HO; eauto.
  - rewrite alookup_aupd_other in Hcb by exact Hne. eapply HO; eauto.
Qed.
Lemma O_once_finish t tk w : Oinv w -> alookup t (storage w) <> Some true -> Oinv (once_finish t tk w).
Proof.
  intros HO Hst. unfold once_finish. destruct (alookup t (cbs w)) as [cb'|]; [|exact HO].
  intros t0 cb0 Hcb Honce Htk. cbn in Hcb |- *.
  destruct (N.eq_dec t0 t) as [->|Hne]; [exact Hst|]. rewrite alookup_aupd_other in Hcb by exact Hne. eapply HO; eauto.
Qed.
Lemma O_take t su w : Oinv w -> Oinv (rn_take t su w).
Proof.
  intros HO t0 cb0 Hcb Honce Htk. unfold rn_take in *. cbn in Hcb |- *.
  destruct (N.eq_dec t0 t) as [->|Hne]; [rewrite alookup_aupd_same; destruct (alookup t (storage w)); discriminate|].
  rewrite alookup_aupd_other by exact Hne. eapply HO; eauto.
Qed.
Lemma O_reinsert t k w : Oinv w -> (forall cb, alookup t (cbs w) = Some cb -> cb_once cb = None) -> Oinv (rn_reinsert t k w).
Proof.
  intros HO Hk t0 cb0 Hcb Honce Htk. unfold rn_reinsert in *. cbn in Hcb |- *.
  destruct (N.eq_dec t0 t) as [->|Hne]; [apply Hk in Hcb; contradiction|].
  rewrite alookup_aupd_other by exact Hne. eapply HO; eauto.
Qed.

Section OPrim.
Variable P : program.
Lemma O_prim c w : Oinv w -> Oinv (fst (apply_prim P c w)).
Proof.
  intros H. destruct c; cbn [apply_prim]; try exact H; try (eapply O_oview; [|exact H]; reflexivity).
  - destruct (is_alive d w); [eapply O_oview; [|exact H]; reflexivity|exact H].
  - destruct (tbl_get ty (bc_tbl w)); eapply O_oview; try exact H; reflexivity.
  - destruct (entity_targets e (REvent ty) w ++ map handle_sys (tbl_get ty (any_tbl w))); eapply O_oview; try exact H; reflexivity.
  - match goal with |- context [if ?b then _ else _] => destruct b end; [eapply O_oview; [|exact H]; reflexivity|exact H].
  - destruct (is_alive e w); [eapply O_oview; [|exact H]; reflexivity|exact H].
  - destruct (is_alive e w); [|exact H]. destruct (alookup2 c e (comps w)); [eapply O_oview; [|exact H]; reflexivity|exact H].
  - apply O_despawn. exact H.
  - apply O_despawn. exact H.
  - destruct (is_alive s w && negb (memN s (spawned w))); cbn [fst]; [|exact H].
    revert H. apply O_ok. intros t. cbn. destruct (N.eq_dec t s) as [->|Hne].
    + right. eexists. split; [apply alookup_aset_same|reflexivity].
    + left. split; left; apply alookup_aset_other; exact Hne.
  - destruct (negb (is_alive s w)); cbn [fst]; [eapply O_oview; [|exact H]; reflexivity|].
    destruct (negb (memN s (spawned w))); [|exact H].
    revert H. apply O_ok. intros t. cbn. destruct (N.eq_dec t s) as [->|Hne].
    + right. eexists. split; [apply alookup_aset_same|reflexivity].
    + left. split; left; apply alookup_aset_other; exact Hne.
  - eapply O_oview; [|exact H].
    assert (Hh : forall h w0, oview (fst (let (w1, cs) := reg_triggers_cmds h b w0 in (handle_drop h w1, cs))) = oview w0).
    { intros h w0. pose proof (oview_reg_triggers_cmds h b w0) as H1. destruct (reg_triggers_cmds h b w0) as [w1 cs]. cbn [fst] in *.
      rewrite oview_handle_drop. exact H1. }
    destruct m; [apply Hh| |]; (unfold sig_new; rewrite Hh; reflexivity).
  - eapply O_oview; [|exact H]. destruct t; cbn [fst]; try apply oview_handle_drop; try reflexivity.
    + apply oview_comp_push.
    + apply oview_comp_push.
    + rewrite oview_comp_push. unfold track_removals. destruct (ahas c (removal_checkers w)); reflexivity.
  - eapply O_oview; [|exact H]. destruct (is_alive e w); [destruct (alookup e (ereactors w)); reflexivity|apply oview_handle_drop].
  - eapply O_oview; [|exact H]. unfold track_removals. destruct (ahas c (removal_checkers w)); reflexivity.
  - eapply O_oview; [|exact H]. destruct (is_alive e w); [|apply oview_handle_drop].
    match goal with |- context [if ?b then _ else _] => destruct b end; reflexivity.
  - destruct tk as [ts s]. eapply O_oview; [|exact H]. apply oview_revoke_all.
  - apply O_run_cleanup. exact H.
  - destruct (alookup x (p_xr P)) as [[s shape]|]; [destruct (is_alive e w)|]; exact H.
  - destruct (alookup x (p_xr P)) as [[s shape]|]; exact H.
  - destruct (is_alive e w); [eapply O_oview; [|exact H]; reflexivity|exact H].
  - destruct (is_alive e w); [|exact H]. destruct (alookup e (ereactors w)); [|exact H].
    match goal with |- context [if ?b then _ else _] => destruct b end; [exact H|eapply O_oview; [|exact H]; reflexivity].
  - eapply O_oview; [|exact H]. apply oview_poll.
Qed.
End OPrim.

(* ================================================================================================================ *)
(* Cinv: a storage component always has its callback record (the boxed callback exists while the entity carries it)  *)
Definition Cinv (w : world) : Prop := forall t, alookup t (storage w) <> None -> alookup t (cbs w) <> None.
Definition c_ok (w w' : world) : Prop := forall t,
  alookup t (storage w') = None
  \/ (alookup t (cbs w') = alookup t (cbs w) /\ (alookup t (storage w') <> None -> alookup t (storage w) <> None))
  \/ alookup t (cbs w') <> None.
Lemma C_ok w w' : c_ok w w' -> Cinv w -> Cinv w'.
Proof. intros Hok HC t Hst. destruct (Hok t) as [E|[[Ec Es]|E]]; [contradiction| |exact E]. rewrite Ec. apply HC, Es, Hst. Qed.
Lemma c_ok_oview w w' : oview w' = oview w -> c_ok w w'.
Proof. unfold oview. intros H. inversion H as [[H1 H2 H3]]. intros t. right. left. split; [congruence|]. rewrite H1. auto. Qed.
Lemma C_oview w w' : oview w' = oview w -> Cinv w -> Cinv w'.
Proof. intros H. apply C_ok, c_ok_oview, H. Qed.

Lemma cbs_drop_callback_other e t w : t <> e -> alookup t (cbs (drop_callback e w)) = alookup t (cbs w).
Proof.
  intros Hne. unfold drop_callback. destruct (alookup e (cbs w)) as [cb|]; [|reflexivity].
  destruct (cb_live cb); cbn; apply alookup_aremove_other; exact Hne.
Qed.
Lemma storage_drop_callback e w : storage (drop_callback e w) = storage w.
Proof. unfold drop_callback. destruct (alookup e (cbs w)) as [cb|]; [destruct (cb_live cb)|]; reflexivity. Qed.

Lemma C_drop_callback_gone e w : alookup e (storage w) = None -> Cinv w -> Cinv (drop_callback e w).
Proof.
  intros Hn. apply C_ok. intros t. destruct (N.eq_dec t e) as [->|Hne].
  - left. rewrite storage_drop_callback. exact Hn.
  - right. left. split; [apply cbs_drop_callback_other; exact Hne|rewrite storage_drop_callback; auto].
Qed.

Lemma C_dsp_storage e w : Cinv w -> Cinv (dsp_storage e w).
Proof.
  unfold dsp_storage. apply C_ok. intros t. cbn.
  assert (Hs : storage (match alookup e (storage w) with Some true => drop_callback e w | _ => w end) = storage w)
    by (destruct (alookup e (storage w)) as [[|]|]; try reflexivity; apply storage_drop_callback).
  destruct (N.eq_dec t e) as [->|Hne].
  - left. rewrite Hs. apply alookup_aremove_same.
  - right. left. rewrite Hs, alookup_aremove_other by exact Hne. split; [|auto].
    destruct (alookup e (storage w)) as [[|]|]; try reflexivity. apply cbs_drop_callback_other. exact Hne.
Qed.
Lemma C_despawn e w : Cinv w -> Cinv (despawn e w).
Proof.
  intros HC. unfold despawn. destruct (negb (is_alive e w)); [exact HC|].
  eapply C_oview; [apply oview_dsp_tail|]. apply C_dsp_storage. eapply C_oview; [apply oview_dsp_head|exact HC].
Qed.

Lemma C_try_cleanup d w : Cinv w -> Cinv (try_cleanup_data_entity d w).
Proof.
  intros H. unfold try_cleanup_data_entity. destruct (negb (is_alive d w)); [exact H|].
  destruct (alookup d (dataents w)) as [[ty p cnt|ty t p cnt|ty p]|]; try exact H.
  - match goal with |- Cinv (if ?b then despawn d ?w1 else ?w1) => assert (H1 : Cinv w1) by (eapply C_oview; [|exact H]; reflexivity); destruct b; [apply C_despawn|]; exact H1 end.
  - match goal with |- Cinv (if ?b then despawn d ?w1 else ?w1) => assert (H1 : Cinv w1) by (eapply C_oview; [|exact H]; reflexivity); destruct b; [apply C_despawn|]; exact H1 end.
Qed.
Lemma C_run_cleanup cl w : Cinv w -> Cinv (run_cleanup cl w).
Proof.
  intros H. destruct cl; cbn [run_cleanup]; [exact H| |eapply C_oview; [|exact H]; reflexivity| | |].
  - apply C_despawn. eapply C_oview; [|exact H]. reflexivity.
  - match goal with |- Cinv (match ?h with Some h0 => handle_drop h0 ?w1 | None => ?w1 end) =>
      destruct h; (eapply C_oview; [|exact H]); [rewrite oview_handle_drop|]; reflexivity end.
  - apply C_try_cleanup. eapply C_oview; [|exact H]. reflexivity.
  - apply C_try_cleanup. eapply C_oview; [|exact H]. reflexivity.
Qed.
Lemma C_storage_upd t b w : Cinv w -> Cinv (w <| storage := aupd t b (storage w) |>).
Proof.
  apply C_ok. intros t0. right. left. split; [reflexivity|]. cbn. intros H Hn. apply H.
  destruct (N.eq_dec t0 t) as [->|Hne]; [rewrite alookup_aupd_same, Hn; reflexivity|rewrite alookup_aupd_other by exact Hne; exact Hn].
Qed.
Lemma C_cbs_upd t cb w : Cinv w -> Cinv (w <| cbs := aupd t cb (cbs w) |>).
Proof.
  intros HC t0 Hst. cbn in *. destruct (N.eq_dec t0 t) as [->|Hne].
  - rewrite alookup_aupd_same. specialize (HC t Hst). destruct (alookup t (cbs w)); [discriminate|contradiction].
  - rewrite alookup_aupd_other by exact Hne. apply HC. exact Hst.
Qed.
Lemma C_state_bump t w : Cinv w -> Cinv (state_bump t w).
Proof. intros HC. unfold state_bump. destruct (alookup t (cbs w)); [apply C_cbs_upd; exact HC|exact HC]. Qed.

Lemma C_once_finish t tk w : Cinv w -> Cinv (once_finish t tk w).
Proof.
  intros H. unfold once_finish. destruct (alookup t (cbs w)) as [cb'|]; [|exact H].
  match goal with |- context [aupd t ?r (cbs w)] => pose proof (C_cbs_upd t r w H) as H' end. intros t0 Ht0. apply (H' t0). exact Ht0.
Qed.

Section CPrim.
Variable P : program.
Lemma C_prim c w : Cinv w -> Cinv (fst (apply_prim P c w)).
Proof.
  intros H. destruct c; cbn [apply_prim]; try exact H; try (eapply C_oview; [|exact H]; reflexivity).
  - destruct (is_alive d w); [eapply C_oview; [|exact H]; reflexivity|exact H].
  - destruct (tbl_get ty (bc_tbl w)); eapply C_oview; try exact H; reflexivity.
  - destruct (entity_targets e (REvent ty) w ++ map handle_sys (tbl_get ty (any_tbl w))); eapply C_oview; try exact H; reflexivity.
  - match goal with |- context [if ?b then _ else _] => destruct b end; [eapply C_oview; [|exact H]; reflexivity|exact H].
  - destruct (is_alive e w); [eapply C_oview; [|exact H]; reflexivity|exact H].
  - destruct (is_alive e w); [|exact H]. destruct (alookup2 c e (comps w)); [eapply C_oview; [|exact H]; reflexivity|exact H].
  - apply C_despawn. exact H.
  - apply C_despawn. exact H.
  - destruct (is_alive s w && negb (memN s (spawned w))); cbn [fst]; [|exact H].
    revert H. apply C_ok. intros t. cbn. destruct (N.eq_dec t s) as [->|Hne].
    + right. right. rewrite alookup_aset_same. discriminate.
    + right. left. rewrite !alookup_aset_other by exact Hne. auto.
  - destruct (negb (is_alive s w)); cbn [fst]; [eapply C_oview; [|exact H]; reflexivity|].
    destruct (negb (memN s (spawned w))); [|exact H].
    revert H. apply C_ok. intros t. cbn. destruct (N.eq_dec t s) as [->|Hne].
    + right. right. rewrite alookup_aset_same. discriminate.
    + right. left. rewrite !alookup_aset_other by exact Hne. auto.
  - eapply C_oview; [|exact H].
    assert (Hh : forall h w0, oview (fst (let (w1, cs) := reg_triggers_cmds h b w0 in (handle_drop h w1, cs))) = oview w0).
    { intros h w0. pose proof (oview_reg_triggers_cmds h b w0) as H1. destruct (reg_triggers_cmds h b w0) as [w1 cs]. cbn [fst] in *.
      rewrite oview_handle_drop. exact H1. }
    destruct m; [apply Hh| |]; (unfold sig_new; rewrite Hh; reflexivity).
  - eapply C_oview; [|exact H]. destruct t; cbn [fst]; try apply oview_handle_drop; try reflexivity.
    + apply oview_comp_push.
    + apply oview_comp_push.
    + rewrite oview_comp_push. unfold track_removals. destruct (ahas c (removal_checkers w)); reflexivity.
  - eapply C_oview; [|exact H]. destruct (is_alive e w); [destruct (alookup e (ereactors w)); reflexivity|apply oview_handle_drop].
  - eapply C_oview; [|exact H]. unfold track_removals. destruct (ahas c (removal_checkers w)); reflexivity.
  - eapply C_oview; [|exact H]. destruct (is_alive e w); [|apply oview_handle_drop].
    match goal with |- context [if ?b then _ else _] => destruct b end; reflexivity.
  - destruct tk as [ts s]. eapply C_oview; [|exact H]. apply oview_revoke_all.
  - apply C_run_cleanup. exact H.
  - destruct (alookup x (p_xr P)) as [[s shape]|]; [destruct (is_alive e w)|]; exact H.
  - destruct (alookup x (p_xr P)) as [[s shape]|]; exact H.
  - destruct (is_alive e w); [eapply C_oview; [|exact H]; reflexivity|exact H].
  - destruct (is_alive e w); [|exact H]. destruct (alookup e (ereactors w)); [|exact H].
    match goal with |- context [if ?b then _ else _] => destruct b end; [exact H|eapply C_oview; [|exact H]; reflexivity].
  - eapply C_oview; [|exact H]. apply oview_poll.
Qed.
End CPrim.
