(* PayloadSpec.v — C05 (partial): the step-level facts about event payloads and their bookkeeping entities.
   What is proved here: an unheard event is dropped at once and creates nothing; the counter is initialised to the
   number of reaction commands queued; every cleanup decrements by exactly one; the decrement that reaches zero despawns
   the data entity, which drops the payload; system-event data is despawned by its cleanup; an aborted command runs
   setup and cleanup.  What is NOT proved: the global counting argument (every queued reaction command reaches its
   cleanup exactly once, so the counter reaches zero exactly after the last reader and never before) — see DESIGN.md. *)
From Cobweb Require Import Machine.
From CobwebProofs Require Import ListLemmas Closed RunnerInv Frames.

Definition aview (w : world) := (alive w, dataents w, log w).
Definition payload_of (d : ddata) : option N :=
  match d with DBroadcast _ p _ | DEntityEvent _ _ p _ => Some p | DSysEvent _ o => o end.

Lemma aview_handle_drop h w : aview (handle_drop h w) = aview w.
Proof. destruct h as [s|g s]; cbn; [reflexivity|]. unfold sig_drop. destruct (alookup g (sigs w)) as [[e n]|]; [|reflexivity]. destruct (N.leb n 1); reflexivity. Qed.
Lemma aview_handles_drop hs : forall w, aview (handles_drop hs w) = aview w.
Proof. induction hs as [|h hs IH]; intros w; cbn; [reflexivity|]. rewrite IH. apply aview_handle_drop. Qed.
Lemma aview_push_removed_all cs e : forall w, aview (push_removed_all cs e w) = aview w.
Proof. induction cs as [|c cs IH]; intros w; cbn; [reflexivity|]. rewrite IH. reflexivity. Qed.

(* the first steps of a despawn leave the data component alone; only events other than drops of data are logged *)
Lemma dataents_alive_before_dsp_data e w :
  let w5 := dsp_tracker e (dsp_ereactors e (dsp_storage e (dsp_comps e (dsp_alive e w)))) in
  alive w5 = removeN e (alive w) /\ dataents w5 = dataents w /\ incl (log w) (log w5).
Proof.
  cbn zeta.
  set (w1 := dsp_comps e (dsp_alive e w)).
  assert (H1 : alive w1 = removeN e (alive w) /\ dataents w1 = dataents w /\ incl (log w) (log w1)).
  { subst w1. unfold dsp_comps. pose proof (aview_push_removed_all (comps_of e (comps (dsp_alive e w))) e (dsp_alive e w)) as HV.
    pose proof (f_equal (fun x => fst (fst x)) HV) as A. pose proof (f_equal (fun x => snd (fst x)) HV) as D. pose proof (f_equal snd HV) as L.
    cbn [aview fst snd] in A, D, L.
    split; [transitivity (alive (dsp_alive e w)); [exact A|reflexivity]|]. split; [transitivity (dataents (dsp_alive e w)); [exact D|reflexivity]|].
    intros x Hx. change (In x (log (push_removed_all (comps_of e (comps (dsp_alive e w))) e (dsp_alive e w)))). rewrite L. cbn. apply in_or_app. left. exact Hx. }
  set (w2 := dsp_storage e w1).
  assert (H2 : alive w2 = removeN e (alive w) /\ dataents w2 = dataents w /\ incl (log w) (log w2)).
  { subst w2. unfold dsp_storage. destruct H1 as (A & D & L).
    destruct (alookup e (storage w1)) as [[|]|]; cbn [alive dataents log set]; try (split; [exact A|split; [exact D|exact L]]).
    unfold drop_callback. destruct (alookup e (cbs w1)) as [cb|]; [|split; [exact A|split; [exact D|exact L]]].
    destruct (cb_live cb); cbn; (split; [exact A|split; [exact D|]]); [|exact L].
    intros x Hx. apply in_or_app. left. apply L. exact Hx. }
  set (w3 := dsp_ereactors e w2).
  assert (H3 : aview w3 = aview w2).
  { subst w3. unfold dsp_ereactors. destruct (alookup e (ereactors w2)) as [l|]; [|reflexivity].
    etransitivity; [|apply (aview_handles_drop (map snd l) w2)]. reflexivity. }
  pose proof (f_equal (fun x => fst (fst x)) H3) as A3. pose proof (f_equal (fun x => snd (fst x)) H3) as D3. pose proof (f_equal snd H3) as L3.
  cbn [aview fst snd] in A3, D3, L3. destruct H2 as (A & D & L).
  assert (H4 : alive w3 = removeN e (alive w) /\ dataents w3 = dataents w /\ incl (log w) (log w3)) by (rewrite A3, D3, L3; auto).
  unfold dsp_tracker. destruct (memN e (dtrackers w3)); exact H4.
Qed.

(* despawning a data entity removes it and drops its payload *)
Theorem despawn_data_entity d dd w : is_alive d w = true -> alookup d (dataents w) = Some dd ->
  is_alive d (despawn d w) = false /\ alookup d (dataents (despawn d w)) = None
  /\ (forall p, payload_of dd = Some p -> In (EvDrop p) (log (despawn d w))).
Proof.
  intros Ha Hd. unfold despawn. rewrite Ha. cbn [negb].
  pose proof (dataents_alive_before_dsp_data d w) as (A & D & L). cbn zeta in A, D, L.
  set (w5 := dsp_tracker d (dsp_ereactors d (dsp_storage d (dsp_comps d (dsp_alive d w))))) in *.
  unfold dsp_xlocals, dsp_data. rewrite D, Hd. cbn [alive dataents log set is_alive].
  assert (HA : alive (drop_ddata dd w5) = alive w5) by (destruct dd as [? ? ?|? ? ? ?|? [?|]]; reflexivity).
  assert (HD : dataents (drop_ddata dd w5) = dataents w5) by (destruct dd as [? ? ?|? ? ? ?|? [?|]]; reflexivity).
  unfold is_alive. cbn [alive dataents set]. rewrite HA, A, HD, D.
  split; [apply memN_removeN_same|]. split; [apply alookup_aremove_same|].
  intros p Hp. destruct dd as [ty p' c|ty t p' c|ty [p'|]]; cbn in Hp; inversion Hp; subst; cbn; apply in_or_app; right; left; reflexivity.
Qed.

Section Payload.
Variable P : program.

(* an event nobody listens to: the payload is dropped at once, no bookkeeping entity, no command *)
Theorem unheard_broadcast w ty p : tbl_get ty (bc_tbl w) = [] ->
  snd (apply_prim P (CBroadcast ty p) w) = [] /\ dataents (fst (apply_prim P (CBroadcast ty p) w)) = dataents w
  /\ alive (fst (apply_prim P (CBroadcast ty p) w)) = alive w /\ In (EvDrop p) (log (fst (apply_prim P (CBroadcast ty p) w))).
Proof.
  intros H. cbn [apply_prim]. rewrite H. cbn. repeat split. apply in_or_app. left. apply in_or_app. right. left. reflexivity.
Qed.
Theorem unheard_entity_event w ty e p : entity_targets e (REvent ty) w ++ map handle_sys (tbl_get ty (any_tbl w)) = [] ->
  snd (apply_prim P (CEntityEvent ty e p) w) = [] /\ dataents (fst (apply_prim P (CEntityEvent ty e p) w)) = dataents w
  /\ alive (fst (apply_prim P (CEntityEvent ty e p) w)) = alive w /\ In (EvDrop p) (log (fst (apply_prim P (CEntityEvent ty e p) w))).
Proof.
  intros H. cbn [apply_prim]. rewrite H. cbn. repeat split. apply in_or_app. left. apply in_or_app. right. left. reflexivity.
Qed.

(* otherwise: one fresh data entity whose counter is the number of reaction commands queued behind it *)
Theorem broadcast_counter w ty p h hs : tbl_get ty (bc_tbl w) = h :: hs ->
  let d := next_ent w in
  snd (apply_prim P (CBroadcast ty p) w)
  = CSpawnData d (DBroadcast ty p (len (h :: hs))) :: map (fun h => CReact (RcBroadcast d (handle_sys h))) (h :: hs)
  /\ length (map (fun h => CReact (RcBroadcast d (handle_sys h))) (h :: hs)) = N.to_nat (len (h :: hs)).
Proof. intros H. cbn [apply_prim]. rewrite H. cbn zeta. split; [reflexivity|]. unfold len. rewrite map_length, Nat2N.id. reflexivity. Qed.
Theorem entity_event_counter w ty e p t ts : entity_targets e (REvent ty) w ++ map handle_sys (tbl_get ty (any_tbl w)) = t :: ts ->
  let d := next_ent w in
  snd (apply_prim P (CEntityEvent ty e p) w)
  = CSpawnData d (DEntityEvent ty e p (len (t :: ts))) :: map (fun t => CReact (RcEntityEvent e d t)) (t :: ts)
  /\ length (map (fun t => CReact (RcEntityEvent e d t)) (t :: ts)) = N.to_nat (len (t :: ts)).
Proof. intros H. cbn [apply_prim]. rewrite H. cbn zeta. split; [reflexivity|]. unfold len. rewrite map_length, Nat2N.id. reflexivity. Qed.
End Payload.

(* every cleanup takes exactly one off the counter; the data entity and its payload survive while readers remain ... *)
Theorem cleanup_decrements_broadcast d ty p cnt w : is_alive d w = true -> alookup d (dataents w) = Some (DBroadcast ty p cnt) -> 1 < cnt ->
  let w' := try_cleanup_data_entity d w in
  is_alive d w' = true /\ alookup d (dataents w') = Some (DBroadcast ty p (cnt - 1)) /\ log w' = log w.
Proof.
  intros Ha Hd Hc. unfold try_cleanup_data_entity. rewrite Ha, Hd. cbn [negb].
  destruct (N.eqb (N.pred cnt) 0) eqn:E; [apply N.eqb_eq in E; lia|]. cbn [alive dataents log set is_alive].
  split; [exact Ha|]. split; [rewrite alookup_aset_same; f_equal; f_equal; lia|reflexivity].
Qed.
Theorem cleanup_decrements_entity_event d ty t p cnt w : is_alive d w = true -> alookup d (dataents w) = Some (DEntityEvent ty t p cnt) -> 1 < cnt ->
  let w' := try_cleanup_data_entity d w in
  is_alive d w' = true /\ alookup d (dataents w') = Some (DEntityEvent ty t p (cnt - 1)) /\ log w' = log w.
Proof.
  intros Ha Hd Hc. unfold try_cleanup_data_entity. rewrite Ha, Hd. cbn [negb].
  destruct (N.eqb (N.pred cnt) 0) eqn:E; [apply N.eqb_eq in E; lia|]. cbn [alive dataents log set is_alive].
  split; [exact Ha|]. split; [rewrite alookup_aset_same; f_equal; f_equal; lia|reflexivity].
Qed.
(* ... and the cleanup of the last reader despawns the entity, dropping the payload *)
Theorem last_cleanup_drops d dd w : is_alive d w = true -> alookup d (dataents w) = Some dd ->
  (match dd with DBroadcast _ _ cnt | DEntityEvent _ _ _ cnt => cnt <= 1 | DSysEvent _ _ => False end) ->
  let w' := try_cleanup_data_entity d w in
  is_alive d w' = false /\ alookup d (dataents w') = None /\ (forall p, payload_of dd = Some p -> In (EvDrop p) (log w')).
Proof.
  intros Ha Hd Hc. unfold try_cleanup_data_entity. rewrite Ha, Hd. cbn [negb].
  destruct dd as [ty p cnt|ty t p cnt|ty o]; [| |contradiction].
  - assert (E : N.eqb (N.pred cnt) 0 = true) by (apply N.eqb_eq; lia). rewrite E.
    eapply (despawn_data_entity d (DBroadcast ty p (N.pred cnt))); [exact Ha|cbn; apply alookup_aset_same].
  - assert (E : N.eqb (N.pred cnt) 0 = true) by (apply N.eqb_eq; lia). rewrite E.
    eapply (despawn_data_entity d (DEntityEvent ty t p (N.pred cnt))); [exact Ha|cbn; apply alookup_aset_same].
Qed.
(* the cleanup of a system-event command despawns its data entity: an untaken payload is dropped there *)
Theorem system_event_cleanup_drops d dd w : cur (tr_se w) = d -> is_alive d w = true -> alookup d (dataents w) = Some dd ->
  let w' := run_cleanup ClSysEvent w in
  is_alive d w' = false /\ alookup d (dataents w') = None /\ (forall p, payload_of dd = Some p -> In (EvDrop p) (log w')).
Proof. intros Hc Ha Hd. cbn [run_cleanup]. rewrite Hc. apply (despawn_data_entity d dd); [exact Ha|exact Hd]. Qed.
(* which cleanup touches which data entity: exactly one try_cleanup (or the despawn) per command *)
Theorem cleanup_kinds w :
  run_cleanup ClBroadcast w = try_cleanup_data_entity (cur (tr_ev w)) (w <| tr_ev ::= trk_end |>) /\
  run_cleanup ClEntityEvent w = try_cleanup_data_entity (cur (tr_ev w)) (w <| tr_er ::= trk_end |> <| tr_ev ::= trk_end |>) /\
  run_cleanup ClSysEvent w = despawn (cur (tr_se w)) (w <| tr_se ::= trk_end |>) /\
  run_cleanup ClDefault w = w.
Proof. repeat split. Qed.
(* a command whose target vanished still runs its setup and its cleanup (cleanup_on_abort) *)
Theorem abort_runs_setup_and_cleanup (P : program) f t su cl w w0 : run_setup su t w = Some w0 ->
  exec P (S f) (IAbort t su cl) w = bind (exec P f IGC (rn_abort_cleanup su cl w0)) (fun w => exec P f IPoll w).
Proof. intros H. cbn [exec]. rewrite H. reflexivity. Qed.

(* a despawned entity is dead (whatever it was) *)
Lemma alive_dsp_data_xlocals0 e v : alive (dsp_xlocals e (dsp_data e v)) = alive v.
Proof. unfold dsp_xlocals, dsp_data. destruct (alookup e (dataents v)) as [[? ? ?|? ? ? ?|? [?|]]|]; reflexivity. Qed.
Lemma dead_after_despawn e w : is_alive e (despawn e w) = false.
Proof.
  unfold despawn. destruct (is_alive e w) eqn:Ha; cbn [negb]; [|exact Ha].
  unfold is_alive. rewrite alive_dsp_data_xlocals0, (proj1 (dataents_alive_before_dsp_data e w)). apply memN_removeN_same.
Qed.
