(* DataSpec.v — C05 / C11, the leak-freedom half of the counter equation, for whole executions.
   For a data entity d (event bookkeeping entity) let
       C d w = the reader count it carries while it is alive (1 for a system-event entity; 0 when dead or absent),
       R d w = the readers the trackers still hold for it (parked entries with payload d, plus the open window on d).
   Theorem (exec_count_bound): at every instruction boundary the count never exceeds the readers still to come:
       C d w <= R d w + (readers queued in the instruction's own commands) + (what the calling context still owes),
   by induction over the interpreter, for every program, with no assumption on the program.  At quiescence the trackers
   are empty, so no data entity is alive: no event bookkeeping entity outlives the tree (whole runs).
   The converse inequality (the count is never BELOW the readers still to come: no early release) is not proved here. *)
From Coq Require Import ZArith Lia.
From Cobweb Require Import Machine.
From CobwebProofs Require Import ListLemmas Closed Frames RunnerInv LifetimeSpec PayloadSpec TicketInv TopLevel.

Local Open Scope Z_scope.

(* ---------- every data entity recorded in dataents is alive (closed invariant) ---------- *)
Definition DataAlive (w : world) : Prop := forall d, alookup d (dataents w) <> None -> is_alive d w = true.

Lemma memN_app_l x l1 l2 : memN x l1 = true -> memN x (l1 ++ l2) = true.
Proof. induction l1 as [|y l IH]; cbn; [discriminate|]. destruct (N.eqb x y); auto. Qed.
Lemma memN_removeN_other x e l : x <> e -> memN x (removeN e l) = memN x l.
Proof.
  intros Hne. induction l as [|y l IH]; cbn; [reflexivity|]. destruct (N.eqb_spec e y) as [->|Hey].
  - rewrite IH. destruct (N.eqb_spec x y); [contradiction|reflexivity].
  - cbn. rewrite IH. reflexivity.
Qed.

(* alive / dataents across a despawn *)
Lemma ad_dsp_data_xlocals e w5 :
  (alive (dsp_xlocals e (dsp_data e w5)), dataents (dsp_xlocals e (dsp_data e w5))) = (alive w5, aremove e (dataents w5)).
Proof.
  unfold dsp_xlocals, dsp_data. destruct (alookup e (dataents w5)) as [[? ? ?|? ? ? ?|? [?|]]|]; reflexivity.
Qed.
Lemma ad_despawn e w :
  (alive (despawn e w), dataents (despawn e w)) = if is_alive e w then (removeN e (alive w), aremove e (dataents w)) else (alive w, dataents w).
Proof.
  unfold despawn. destruct (is_alive e w) eqn:Ha; cbn [negb]; [|reflexivity].
  rewrite ad_dsp_data_xlocals. pose proof (dataents_alive_before_dsp_data e w) as (A & D & _). cbn zeta in A, D.
  rewrite A, D. reflexivity.
Qed.
Lemma alive_other_despawn d e w : d <> e -> is_alive d (despawn e w) = is_alive d w.
Proof.
  intros Hne. pose proof (ad_despawn e w) as H. unfold is_alive. destruct (is_alive e w); injection H as H1 H2; rewrite H1; [apply memN_removeN_other; exact Hne|reflexivity].
Qed.
Lemma data_other_despawn d e w : d <> e -> alookup d (dataents (despawn e w)) = alookup d (dataents w).
Proof.
  intros Hne. pose proof (ad_despawn e w) as H. destruct (is_alive e w); injection H as H1 H2; rewrite H2; [apply alookup_aremove_other; exact Hne|reflexivity].
Qed.
Lemma data_same_despawn e w : is_alive e w = true -> alookup e (dataents (despawn e w)) = None.
Proof. intros Ha. pose proof (ad_despawn e w) as H. rewrite Ha in H. injection H as H1 H2. rewrite H2. apply alookup_aremove_same. Qed.
Lemma alive_same_despawn e w : is_alive e (despawn e w) = false.
Proof.
  pose proof (ad_despawn e w) as H. unfold is_alive in *. destruct (memN e (alive w)) eqn:Ha; injection H as H1 H2; rewrite H1; [apply memN_removeN_same|exact Ha].
Qed.

Lemma DA_despawn e w : DataAlive w -> DataAlive (despawn e w).
Proof.
  intros H d Hd. destruct (N.eq_dec d e) as [->|Hne].
  - destruct (is_alive e w) eqn:Ha; [rewrite (data_same_despawn e w Ha) in Hd; contradiction|].
    unfold despawn in *. rewrite Ha in *. cbn [negb] in *. exfalso. rewrite (H e Hd) in Ha. discriminate.
  - rewrite alive_other_despawn by exact Hne. apply H. rewrite data_other_despawn in Hd by exact Hne. exact Hd.
Qed.
Definition adv (w : world) := (alive w, dataents w).
Lemma DA_adv w w' : adv w' = adv w -> DataAlive w -> DataAlive w'.
Proof. unfold adv, DataAlive, is_alive. intros H. injection H as H1 H2. rewrite H1, H2. auto. Qed.
(* alive may grow, dataents unchanged *)
Lemma DA_grow w w' : (forall d, is_alive d w = true -> is_alive d w' = true) -> dataents w' = dataents w -> DataAlive w -> DataAlive w'.
Proof. intros H1 H2 H d Hd. rewrite H2 in Hd. apply H1, H, Hd. Qed.

(* adv frames for the helper functions (same scripts as the kview frames) *)
Lemma adv_handle_drop h w : adv (handle_drop h w) = adv w.
Proof.
  destruct h as [s|g s]; cbn; [reflexivity|]. unfold sig_drop.
  destruct (alookup g (sigs w)) as [[e n]|]; [|reflexivity]. destruct (N.leb n 1); reflexivity.
Qed.
Lemma adv_handle_clone h w : adv (handle_clone h w) = adv w.
Proof. destruct h as [s|g s]; cbn; [reflexivity|]. unfold sig_clone. destruct (alookup g (sigs w)) as [[e n]|]; reflexivity. Qed.
Lemma adv_handles_drop hs : forall w, adv (handles_drop hs w) = adv w.
Proof. induction hs as [|h hs IH]; intros w; cbn; [reflexivity|]. rewrite IH. apply adv_handle_drop. Qed.
Lemma adv_push_removed_all cs e : forall w, adv (push_removed_all cs e w) = adv w.
Proof. induction cs as [|c cs IH]; intros w; cbn; [reflexivity|]. rewrite IH. reflexivity. Qed.
Lemma adv_drop_callback t w : adv (drop_callback t w) = adv w.
Proof. unfold drop_callback. destruct (alookup t (cbs w)) as [cb|]; [destruct (cb_live cb)|]; reflexivity. Qed.
Lemma adv_revoke_one s t w : adv (revoke_one s t w) = adv w.
Proof.
  assert (Hent : forall e rt, adv (if is_alive e w then
             match alookup e (ereactors w) with
             | Some l => let (d, k) := er_remove rt s l in handles_drop d (w <| ereactors := aset e k (ereactors w) |>)
             | None => w end else w) = adv w).
  { intros e rt. destruct (is_alive e w); [|reflexivity]. destruct (alookup e (ereactors w)) as [l|]; [|reflexivity].
    destruct (er_remove rt s l) as [d k]. rewrite adv_handles_drop. reflexivity. }
  assert (Hcomp : forall kd c, adv (comp_revoke kd c s w) = adv w).
  { intros kd c. unfold comp_revoke. destruct (alookup c (comp_tbl w)) as [[[i m] r]|]; [|reflexivity].
    destruct (remove_first s match kd with KIns => i | KMut => m | KRem => r end) as [o l'].
    destruct (match kd with KIns => (l', m, r) | KMut => (i, l', r) | KRem => (i, m, l') end) as [[i' m'] r'].
    destruct o as [h|]; [rewrite adv_handle_drop|]; (destruct i'; [destruct m'; [destruct r'|]|]); reflexivity. }
  destruct t; cbn [revoke_one]; try apply Hent; try apply Hcomp.
  - destruct (tbl_revoke ty s (bc_tbl w)) as [o t']. destruct o; [rewrite adv_handle_drop|]; reflexivity.
  - destruct (tbl_revoke ty s (any_tbl w)) as [o t']. destruct o; [rewrite adv_handle_drop|]; reflexivity.
  - destruct (tbl_revoke r s (res_tbl w)) as [o t']. destruct o; [rewrite adv_handle_drop|]; reflexivity.
  - destruct (tbl_revoke e s (desp_tbl w)) as [o t']. destruct o; [rewrite adv_handle_drop|]; reflexivity.
Qed.
Lemma adv_revoke_all s ts : forall w, adv (revoke_all s ts w) = adv w.
Proof. induction ts as [|t ts IH]; intros w; cbn; [reflexivity|]. rewrite IH. apply adv_revoke_one. Qed.
Lemma adv_reg_triggers_cmds h ts : forall w, adv (fst (reg_triggers_cmds h ts w)) = adv w.
Proof.
  induction ts as [|t ts IH]; intros w; cbn [reg_triggers_cmds]; [reflexivity|].
  destruct (reg_trigger_cmds h t w) as [w1 c1] eqn:E1. destruct (reg_triggers_cmds h ts w1) as [w2 c2] eqn:E2. cbn [fst].
  assert (H1 : adv w1 = adv w).
  { destruct t; cbn in E1; try (inversion E1; subst; apply adv_handle_clone).
    destruct (is_alive e w); inversion E1; subst; [apply adv_handle_clone|reflexivity]. }
  specialize (IH w1). rewrite E2 in IH. cbn [fst] in IH. congruence.
Qed.
Lemma adv_poll_despawns chan : forall w, adv (fst (poll_despawns chan w)) = adv w.
Proof.
  induction chan as [|e r IH]; intros w; cbn [poll_despawns]; [reflexivity|].
  specialize (IH (w <| desp_tbl := aremove e (desp_tbl w) |>)). destruct (poll_despawns r _) as [w2 cs]. exact IH.
Qed.
Lemma adv_poll w : adv (fst (poll w)) = adv w.
Proof.
  unfold poll. destruct (poll_removals (removal_checkers w) w) as [chk c1].
  pose proof (adv_poll_despawns (despawn_chan (w <| removal_checkers := chk |>)) ((w <| removal_checkers := chk |>) <| despawn_chan := [] |>)) as H.
  destruct (poll_despawns _ _) as [w2 c2]. exact H.
Qed.
Lemma adv_comp_push kd c h w : adv (comp_push kd c h w) = adv w.
Proof. unfold comp_push. destruct (alookup c (comp_tbl w)) as [[[i m] r]|]; destruct kd; reflexivity. Qed.

Section DSteps.
Variable P : program.

Definition special (c : cmd) : bool :=
  match c with CSpawnData _ _ | CDespawn _ | CDespawnRec _ | CBroadcast _ _ | CEntityEvent _ _ _ | CCleanup _ => true | _ => false end.

Lemma adv_prim c w : special c = false -> adv (fst (apply_prim P c w)) = adv w.
Proof.
  intros Hc. destruct c; try discriminate Hc; cbn [apply_prim]; try reflexivity.
  - match goal with |- context [if ?b then _ else _] => destruct b end; reflexivity.
  - destruct (is_alive e w); reflexivity.
  - destruct (is_alive e w); [|reflexivity]. destruct (alookup2 c e (comps w)); reflexivity.
  - destruct (is_alive s w && negb (memN s (spawned w))); reflexivity.
  - destruct (negb (is_alive s w)); [reflexivity|]. destruct (negb (memN s (spawned w))); reflexivity.
  - assert (Hh : forall h w0, adv (fst (let (w1, cs) := reg_triggers_cmds h b w0 in (handle_drop h w1, cs))) = adv w0).
    { intros h w0. pose proof (adv_reg_triggers_cmds h b w0) as H1. destruct (reg_triggers_cmds h b w0) as [w1 cs]. cbn [fst] in *.
      rewrite adv_handle_drop. exact H1. }
    destruct m; [apply Hh| |]; (unfold sig_new; rewrite Hh; reflexivity).
  - destruct t; cbn [fst]; try apply adv_handle_drop; try reflexivity.
    + apply adv_comp_push.
    + apply adv_comp_push.
    + rewrite adv_comp_push. unfold track_removals. destruct (ahas c (removal_checkers w)); reflexivity.
  - destruct (is_alive e w); [destruct (alookup e (ereactors w)); reflexivity|apply adv_handle_drop].
  - unfold track_removals. destruct (ahas c (removal_checkers w)); reflexivity.
  - destruct (is_alive e w); [|apply adv_handle_drop].
    match goal with |- context [if ?b then _ else _] => destruct b end; reflexivity.
  - destruct tk as [ts s]. apply adv_revoke_all.
  - destruct (alookup x (p_xr P)) as [[s shape]|]; [destruct (is_alive e w)|]; reflexivity.
  - destruct (alookup x (p_xr P)) as [[s shape]|]; reflexivity.
  - destruct (is_alive e w); reflexivity.
  - destruct (is_alive e w); [|reflexivity]. destruct (alookup e (ereactors w)); [|reflexivity].
    match goal with |- context [if ?b then _ else _] => destruct b end; reflexivity.
  - apply adv_poll.
Qed.

Lemma DA_try_cleanup d w : DataAlive w -> DataAlive (try_cleanup_data_entity d w).
Proof.
  intros H. unfold try_cleanup_data_entity. destruct (is_alive d w) eqn:Ha; cbn [negb]; [|exact H].
  assert (Hs : forall x, DataAlive (w <| dataents := aset d x (dataents w) |>)).
  { intros x d0 Hd0. unfold is_alive. cbn [alive dataents set] in *. destruct (N.eq_dec d0 d) as [->|Hne]; [exact Ha|].
    rewrite alookup_aset_other in Hd0 by exact Hne. apply H. exact Hd0. }
  destruct (alookup d (dataents w)) as [[ty p cnt|ty t p cnt|ty p]|]; try exact H.
  - match goal with |- DataAlive (if ?b then despawn d ?w1 else ?w1) => destruct b; [apply DA_despawn|]; apply Hs end.
  - match goal with |- DataAlive (if ?b then despawn d ?w1 else ?w1) => destruct b; [apply DA_despawn|]; apply Hs end.
Qed.
Lemma DA_run_cleanup cl w : DataAlive w -> DataAlive (run_cleanup cl w).
Proof.
  intros H. destruct cl; cbn [run_cleanup]; try exact H.
  - apply DA_despawn. eapply DA_adv; [|exact H]. reflexivity.
  - destruct (snd (cur (tr_de w))) as [h|]; [eapply DA_adv; [apply adv_handle_drop|]|]; (eapply DA_adv; [|exact H]; reflexivity).
  - apply DA_try_cleanup. eapply DA_adv; [|exact H]. reflexivity.
  - apply DA_try_cleanup. eapply DA_adv; [|exact H]. reflexivity.
Qed.
Lemma DA_alloc w d0 n : DataAlive w -> DataAlive (w <| next_ent := n |> <| alive ::= fun l => l ++ [d0] |>).
Proof. intros H. apply (DA_grow w); [|reflexivity|exact H]. intros x Hx. unfold is_alive in *. cbn [alive set]. apply memN_app_l. exact Hx. Qed.
Lemma DA_prim c w : DataAlive w -> DataAlive (fst (apply_prim P c w)).
Proof.
  intros H. destruct (special c) eqn:Hs; [|eapply DA_adv; [apply adv_prim; exact Hs|exact H]].
  destruct c; try discriminate Hs; cbn [apply_prim fst].
  - destruct (is_alive d w) eqn:Ha; [|exact H]. intros d0 Hd0. unfold is_alive. cbn [alive dataents set] in *.
    destruct (N.eq_dec d0 d) as [->|Hne]; [exact Ha|]. rewrite alookup_aset_other in Hd0 by exact Hne. apply H. exact Hd0.
  - destruct (tbl_get ty (bc_tbl w)); cbn [fst]; [eapply DA_adv; [|exact H]; reflexivity|].
    eapply DA_adv; [|apply (DA_alloc w (next_ent w) (next_ent w + 1) H)]. reflexivity.
  - destruct (entity_targets e (REvent ty) w ++ map handle_sys (tbl_get ty (any_tbl w))); cbn [fst]; [eapply DA_adv; [|exact H]; reflexivity|].
    eapply DA_adv; [|apply (DA_alloc w (next_ent w) (next_ent w + 1) H)]. reflexivity.
  - apply DA_despawn. exact H.
  - apply DA_despawn. exact H.
  - apply DA_run_cleanup. exact H.
Qed.

Definition gr (w w' : world) : Prop := (forall d, is_alive d w = true -> is_alive d w' = true) /\ dataents w' = dataents w.
Lemma gr_refl w : gr w w. Proof. split; auto. Qed.
Lemma gr_adv w w' : adv w' = adv w -> gr w w'.
Proof. unfold adv, gr, is_alive. intros H. injection H as H1 H2. rewrite H1, H2. auto. Qed.
Lemma gr_reserve id w : gr w (reserve id w).
Proof.
  unfold reserve, bind_id. destruct (memN id (bound w)); [apply gr_refl|]. split; [|reflexivity].
  intros x Hx. unfold is_alive in *. cbn [alive set]. apply memN_app_l. exact Hx.
Qed.
Lemma DA_gr w w' : gr w w' -> DataAlive w -> DataAlive w'.
Proof. intros [H1 H2]. apply DA_grow; assumption. Qed.
Lemma gr_act o a w : gr w (fst (act P o a w)).
Proof.
  destruct a; cbn [act];
  repeat match goal with
         | |- context [if ?b then _ else _] => destruct b
         | |- context [match alookup2 ?a ?b ?c with _ => _ end] => destruct (alookup2 a b c)
         | |- context [match alookup ?a ?c with _ => _ end] => destruct (alookup a c) as [[? ?]|]
         | |- context [match ?m with Persistent => _ | _ => _ end] => destruct m
         end; cbn [fst]; try apply gr_refl; try apply gr_reserve; try (apply gr_adv; reflexivity).
  all: try (destruct (alookup wr (p_wr P)); apply gr_refl).
  all: try (change (gr w (reserve s w)); apply gr_reserve).
  all: try (split; [intros x Hx; unfold is_alive in *; cbn [alive set]; apply memN_app_l; exact Hx|reflexivity]).
Qed.
Lemma DA_closed : closed P DataAlive.
Proof.
  constructor.
  - intros e w H. exact H.
  - intros c w H. apply DA_prim. exact H.
  - intros o a w H. eapply DA_gr; [apply gr_act|exact H].
  - intros c w t su cl w' H E. eapply DA_adv; [|exact H].
    destruct c; try discriminate E; cbn in E; try (inversion E; subst; reflexivity). destruct r; inversion E; subst; reflexivity.
  - intros e r w H _. unfold gc_step. apply DA_despawn. exact H.
  - intros w H. eapply DA_adv; [apply adv_poll|exact H].
  - intros su t w w' H E. eapply DA_adv; [|exact H].
    destruct su; cbn [run_setup] in E; repeat match type of E with match ?x with _ => _ end = _ => destruct x; try discriminate E end; inversion E; subst; reflexivity.
  - intros cl w H. apply DA_run_cleanup. exact H.
  - intros b w H. exact H.
  - intros n w H. exact H.
  - intros t b w H. exact H.
  - intros t k w H _. unfold rn_dropped. eapply DA_adv; [|exact H]. cbn [adv alive dataents emit set]. exact (adv_drop_callback t w).
  - intros t k w H _. unfold rn_despawn_missing. eapply DA_adv; [|apply (DA_despawn t (drop_callback t w)); eapply DA_adv; [apply adv_drop_callback|exact H]]. reflexivity.
  - intros t w H. apply DA_despawn. exact H.
  - intros t cb b w H _ _. exact H.
  - intros t tk w H. unfold once_finish. destruct (alookup t (cbs w)); exact H.
  - intros sd t r c w _ H. unfold body_begin, state_bump.
    assert (Hs : DataAlive (body_sample P sd t r c w)).
    { unfold body_sample. destruct (sample_readers sd (xsys_of P t) w) as [sm w1] eqn:ES.
      assert (H1 : DataAlive w1).
      { unfold sample_readers in ES. destruct (sd_take sd).
        - assert (Ht : forall tys w0, DataAlive w0 -> DataAlive (snd (take_sysevents tys w0))).
          { induction tys as [|ty r0 IH]; intros w0 H0; cbn [take_sysevents]; [exact H0|].
            destruct (peek_sysevent ty w0) as [p|] eqn:EP; [|apply IH; exact H0].
            match goal with |- context [take_sysevents r0 ?w2] => specialize (IH w2); destruct (take_sysevents r0 w2) end. cbn [snd] in *. apply IH.
            unfold peek_sysevent in EP. destruct (reacting (tr_se w0) && is_alive (cur (tr_se w0)) w0) eqn:EA; [|discriminate EP].
            apply andb_true_iff in EA. destruct EA as [_ EA].
            intros d0 Hd0. unfold is_alive in *. cbn [alive dataents emit set] in *.
            destruct (N.eq_dec d0 (cur (tr_se w0))) as [->|Hne]; [exact EA|]. rewrite alookup_aset_other in Hd0 by exact Hne. apply H0. exact Hd0. }
          destruct (take_sysevents TYPES w) as [ss w2] eqn:ET. inversion ES; subst. specialize (Ht TYPES w H). rewrite ET in Ht. exact Ht.
        - inversion ES; subst. exact H. }
      destruct (sm_l sm) as [[src [v|]]|]; try exact H1. destruct (xsys_of P t) as [[x ?]|]; exact H1. }
    destruct (alookup t (cbs (body_sample P sd t r c w))); exact Hs.
  - intros w H. exact H.
Qed.
End DSteps.

(* ---------- the count and the readers of one data entity ---------- *)
Definition cntz {A} (f : A -> bool) (l : list A) : Z := Z.of_nat (length (filter f l)).
Lemma cntz_app {A} (f : A -> bool) l1 l2 : cntz f (l1 ++ l2) = cntz f l1 + cntz f l2.
Proof. unfold cntz. rewrite filter_app, app_length. lia. Qed.
Lemma cntz_cons {A} (f : A -> bool) x l : cntz f (x :: l) = (if f x then 1 else 0) + cntz f l.
Proof. unfold cntz. cbn [filter]. destruct (f x); cbn [length]; lia. Qed.
Lemma cntz_nil {A} (f : A -> bool) : cntz f [] = 0. Proof. reflexivity. Qed.
Lemma cntz_nonneg {A} (f : A -> bool) l : 0 <= cntz f l. Proof. unfold cntz. lia. Qed.
Lemma cntz_rev {A} (f : A -> bool) l : cntz f (rev l) = cntz f l.
Proof. induction l as [|x l IH]; [reflexivity|]. cbn [rev]. rewrite cntz_app, cntz_cons, cntz_cons, cntz_nil, IH. lia. Qed.

Lemma swap_remove_count {A} (f : N * ent * A -> bool) k s : forall (l : list (N * ent * A)) a rest,
  swap_remove_at k s l = Some (a, rest) -> exists k' s', cntz f l = (if f (k', s', a) then 1 else 0) + cntz f rest.
Proof.
  induction l as [|[[k' s'] a'] r IH]; intros a rest E; cbn [swap_remove_at] in E; [discriminate E|].
  destruct (N.eqb k k' && N.eqb s s').
  - inversion E; subst. exists k', s'. rewrite cntz_cons. f_equal.
    rewrite <- (cntz_rev f r). destruct (rev r) as [|lst rr]; [reflexivity|]. rewrite !cntz_cons, cntz_rev. reflexivity.
  - destruct (swap_remove_at k s r) as [[a2 r2]|] eqn:E2; [|discriminate E]. inversion E; subst.
    destruct (IH _ _ eq_refl) as (k2 & s2 & H2). exists k2, s2. rewrite !cntz_cons, H2. lia.
Qed.

Section Count.
Variable P : program.
Variable d : ent.
Variable kd : bool.     (* true: broadcast / entity-event data (reader counter, tracker tr_ev); false: system-event data (tr_se) *)

Definition kc (dd : ddata) : Z :=
  match dd with
  | DBroadcast _ _ n | DEntityEvent _ _ _ n => if kd then Z.max (Z.of_N n) 1 else 0
  | DSysEvent _ _ => if kd then 0 else 1
  end.
Lemma kc_nonneg dd : 0 <= kc dd. Proof. destruct dd; cbn; destruct kd; lia. Qed.
Definition C (w : world) : Z := if is_alive d w then match alookup d (dataents w) with Some dd => kc dd | None => 0 end else 0.
Lemma C_nonneg w : 0 <= C w.
Proof. unfold C. destruct (is_alive d w); [|lia]. destruct (alookup d (dataents w)); [apply kc_nonneg|lia]. Qed.
Lemma C_adv w w' : adv w' = adv w -> C w' = C w.
Proof. unfold adv, C, is_alive. intros H. injection H as H1 H2. rewrite H1, H2. reflexivity. Qed.

Definition pm (x : N * ent * ent) : bool := N.eqb (snd x) d.
Definition Rt (t : trk ent) : Z := cntz pm (prepared t) + (if reacting t && N.eqb (cur t) d then 1 else 0).
Definition R (w : world) : Z := Rt (if kd then tr_ev w else tr_se w).
Lemma Rt_nonneg t : 0 <= Rt t.
Proof. unfold Rt. pose proof (cntz_nonneg pm (prepared t)). destruct (reacting t && N.eqb (cur t) d); lia. Qed.
Lemma R_nonneg w : 0 <= R w. Proof. unfold R. apply Rt_nonneg. Qed.
Lemma R_kview0 w w' : kview0 w' = kview0 w -> R w' = R w.
Proof. unfold kview0, R. intros H. inversion H. destruct kd; congruence. Qed.
Lemma R_kview w w' : kview w' = kview w -> R w' = R w.
Proof. intros H. apply R_kview0, kview_kview0, H. Qed.

Definition Q (Y : Z) (w : world) : Prop := C w <= R w + Y.

(* what a command adds to the readers (a reaction / system-event command parks one entry) or to the count (the
   deferred insertion of the data component sets it) *)
Definition owed (c : cmd) : Z :=
  match c with
  | CSpawnData d' dd => if N.eqb d' d then - kc dd else 0
  | CEventCmd _ d' => if negb kd && N.eqb d' d then 1 else 0
  | CReact (RcBroadcast d' _) => if kd && N.eqb d' d then 1 else 0
  | CReact (RcEntityEvent _ d' _) => if kd && N.eqb d' d then 1 else 0
  | _ => 0
  end.
Fixpoint owedl (cs : list cmd) : Z := match cs with [] => 0 | c :: r => owed c + owedl r end.
Fixpoint NN (cs : list cmd) (Y : Z) : Prop := match cs with [] => 0 <= Y | c :: r => 0 <= owedl (c :: r) + Y /\ NN r Y end.
Lemma owedl_app a b : owedl (a ++ b) = owedl a + owedl b.
Proof. induction a as [|c a IH]; cbn [app owedl]; [lia|]. rewrite IH. lia. Qed.
Lemma NN_Y cs Y : NN cs Y -> 0 <= Y.
Proof. induction cs as [|c r IH]; cbn [NN]; [auto|]. intros [_ H]. auto. Qed.
Lemma NN_app a b Y : NN a (owedl b + Y) -> NN b Y -> NN (a ++ b) Y.
Proof.
  induction a as [|c a IH]; cbn [app NN]; intros Ha Hb; [exact Hb|]. destruct Ha as [H1 H2]. split; [|apply IH; assumption].
  cbn [owedl] in *. rewrite owedl_app. lia.
Qed.
Definition neutral (c : cmd) : bool := Z.eqb (owed c) 0.
Lemma neutral_owedl cs : forallb neutral cs = true -> owedl cs = 0.
Proof. induction cs as [|c r IH]; cbn [forallb owedl]; [reflexivity|]. intros H. apply andb_true_iff in H. destruct H as [H1 H2]. apply Z.eqb_eq in H1. rewrite H1, IH by exact H2. reflexivity. Qed.
Lemma neutral_NN cs Y : forallb neutral cs = true -> 0 <= Y -> NN cs Y.
Proof.
  induction cs as [|c r IH]; cbn [forallb NN]; intros H HY; [exact HY|]. apply andb_true_iff in H. destruct H as [H1 H2].
  split; [|apply IH; assumption]. apply Z.eqb_eq in H1. cbn [owedl]. rewrite H1, (neutral_owedl r H2). lia.
Qed.
End Count.

Section CountSteps.
Variable P : program.
Variable d : ent.
Variable kd : bool.
Notation C := (C d kd).
Notation R := (R d kd).
Notation Rt := (Rt d).
Notation Q := (Q d kd).
Notation owed := (owed d kd).
Notation owedl := (owedl d kd).
Notation NN := (NN d kd).
Notation neutral := (neutral d kd).
Notation kc := (kc kd).

Lemma C_despawn_le e w : C (despawn e w) <= C w.
Proof.
  destruct (N.eq_dec d e) as [<-|Hne].
  - unfold DataSpec.C at 1. rewrite alive_same_despawn. apply C_nonneg.
  - unfold DataSpec.C. rewrite alive_other_despawn, data_other_despawn by exact Hne. lia.
Qed.
Lemma Q_despawn Y e w : Q Y w -> Q Y (despawn e w).
Proof. unfold DataSpec.Q. intros H. rewrite (R_kview d kd _ _ (kview_despawn e w)). pose proof (C_despawn_le e w). lia. Qed.
Lemma C_gr w w' : gr w w' -> DataAlive w -> C w' = C w.
Proof.
  intros [H1 H2] HD. unfold DataSpec.C. rewrite H2. destruct (is_alive d w) eqn:Ha; [rewrite (H1 d Ha); reflexivity|].
  assert (Hn : alookup d (dataents w) = None).
  { destruct (alookup d (dataents w)) eqn:E; [|reflexivity]. exfalso. assert (Hx : is_alive d w = true) by (apply HD; rewrite E; discriminate). congruence. }
  rewrite Hn. destruct (is_alive d w'); reflexivity.
Qed.

(* setup: a successful start moves one parked entry into the window; the window was closed (strict) *)
Lemma Rt_start k s tr tr' : trk_start true k s tr = Some tr' -> Rt tr' = Rt tr.
Proof.
  unfold trk_start. destruct (swap_remove_at k s (prepared tr)) as [[a rest]|] eqn:E; [|discriminate].
  destruct (reacting tr) eqn:Er; cbn [andb]; [discriminate|]. intros H. inversion H; subst. clear H.
  destruct (swap_remove_count (pm d) k s _ _ _ E) as (k' & s' & Hc). unfold DataSpec.Rt. cbn [reacting cur prepared]. rewrite Er, Hc. unfold pm. cbn [snd andb]. lia.
Qed.
Lemma Rt_prepare k s a tr : Rt (trk_prepare k s a tr) = Rt tr + (if N.eqb a d then 1 else 0).
Proof. unfold DataSpec.Rt, trk_prepare. cbn [reacting cur prepared]. rewrite cntz_app, cntz_cons, cntz_nil. unfold pm. cbn [snd]. lia. Qed.
Lemma Rt_end tr : Rt (trk_end tr) = Rt tr - (if reacting tr && N.eqb (cur tr) d then 1 else 0).
Proof. unfold DataSpec.Rt, trk_end. cbn [reacting cur prepared andb]. lia. Qed.

Lemma setup_CR su t w w0 : run_setup su t w = Some w0 -> C w0 = C w /\ R w0 = R w.
Proof.
  intros E. destruct su; cbn [run_setup] in E.
  - inversion E; subst. split; reflexivity.
  - destruct (trk_start true k t (tr_se w)) as [t'|] eqn:ES; inversion E; subst. split; [reflexivity|].
    unfold DataSpec.R. cbn [tr_ev tr_se emit note_claim set]. destruct kd; [reflexivity|apply (Rt_start _ _ _ _ ES)].
  - destruct (trk_start true k t (tr_er w)) as [t'|] eqn:ES; inversion E; subst. split; reflexivity.
  - destruct (trk_start false k t (tr_de w)) as [t'|] eqn:ES; inversion E; subst. split; reflexivity.
  - destruct (trk_start true k t (tr_er w)) as [t'|] eqn:ES; [|discriminate E].
    destruct (trk_start true k t (tr_ev (w <| tr_er := t' |>))) as [t2|] eqn:ES2; inversion E; subst. split; [reflexivity|].
    unfold DataSpec.R. cbn [tr_ev tr_se emit note_claim set]. destruct kd; [apply (Rt_start _ _ _ _ ES2)|reflexivity].
  - destruct (trk_start true k t (tr_ev w)) as [t'|] eqn:ES; inversion E; subst. split; [reflexivity|].
    unfold DataSpec.R. cbn [tr_ev tr_se emit note_claim set]. destruct kd; [apply (Rt_start _ _ _ _ ES)|reflexivity].
Qed.

Lemma prepare_CR c w t su cl w1 : prepare_cmd c w = Some (t, su, cl, w1) -> C w1 = C w /\ R w1 = R w + owed c.
Proof.
  intros E. destruct c; try discriminate E; cbn [prepare_cmd] in E; cbn [DataSpec.owed].
  - inversion E; subst. split; [reflexivity|]. unfold DataSpec.R. cbn [tr_ev tr_se set]. lia.
  - unfold fresh_ticket in E. inversion E; subst. split; [reflexivity|]. unfold DataSpec.R, note_prep. cbn [tr_ev tr_se set].
    destruct kd; cbn [negb andb]; [lia|apply Rt_prepare].
  - destruct r; unfold fresh_ticket in E; inversion E; subst; (split; [reflexivity|]); unfold DataSpec.R, note_prep; cbn [tr_ev tr_se set]; try lia.
    + destruct kd; cbn [andb]; [apply Rt_prepare|lia].
    + destruct kd; cbn [andb]; [apply Rt_prepare|lia].
Qed.

Lemma C_try_cleanup_other dc w : dc <> d -> C (try_cleanup_data_entity dc w) <= C w.
Proof.
  intros Hne. unfold try_cleanup_data_entity. destruct (negb (is_alive dc w)); [lia|].
  assert (Hs : forall x, C (w <| dataents := aset dc x (dataents w) |>) = C w).
  { intros x. unfold DataSpec.C, is_alive. cbn [alive dataents set]. rewrite alookup_aset_other by (intros H; apply Hne; symmetry; exact H). reflexivity. }
  destruct (alookup dc (dataents w)) as [[ty p cnt|ty t p cnt|ty p]|]; try lia.
  - match goal with |- DataSpec.C d kd (if ?b then despawn dc ?w1 else ?w1) <= _ => destruct b; [pose proof (C_despawn_le dc w1)|]; rewrite <- (Hs (DBroadcast ty p (N.pred cnt))); lia end.
  - match goal with |- DataSpec.C d kd (if ?b then despawn dc ?w1 else ?w1) <= _ => destruct b; [pose proof (C_despawn_le dc w1)|]; rewrite <- (Hs (DEntityEvent ty t p (N.pred cnt))); lia end.
Qed.
End CountSteps.

(* one decrement (or nothing) on the entity cleaned up *)
Lemma C_try_cleanup_same d kd w :
  DataSpec.C d kd (try_cleanup_data_entity d w) <= (if kd then Z.max (DataSpec.C d kd w - 1) 0 else DataSpec.C d kd w).
Proof.
  destruct kd.
  - unfold try_cleanup_data_entity. destruct (is_alive d w) eqn:Ha; cbn [negb]; [|unfold DataSpec.C; rewrite Ha; lia].
    destruct (alookup d (dataents w)) as [[ty p cnt|ty t p cnt|ty p]|] eqn:Ed.
    + destruct (N.eqb (N.pred cnt) 0) eqn:Ez.
      * unfold DataSpec.C at 1. rewrite alive_same_despawn. lia.
      * apply N.eqb_neq in Ez. unfold DataSpec.C, is_alive in *. cbn [alive dataents set]. rewrite Ha, Ed, alookup_aset_same. cbn [DataSpec.kc]. lia.
    + destruct (N.eqb (N.pred cnt) 0) eqn:Ez.
      * unfold DataSpec.C at 1. rewrite alive_same_despawn. lia.
      * apply N.eqb_neq in Ez. unfold DataSpec.C, is_alive in *. cbn [alive dataents set]. rewrite Ha, Ed, alookup_aset_same. cbn [DataSpec.kc]. lia.
    + unfold DataSpec.C. rewrite Ha, Ed. cbn [DataSpec.kc]. lia.
    + unfold DataSpec.C. rewrite Ha, Ed. lia.
  - unfold try_cleanup_data_entity. destruct (is_alive d w) eqn:Ha; cbn [negb]; [|lia].
    destruct (alookup d (dataents w)) as [[ty p cnt|ty t p cnt|ty p]|] eqn:Ed; try lia.
    + match goal with |- DataSpec.C d false (if ?b then despawn d ?w1 else ?w1) <= _ =>
        assert (H1 : DataSpec.C d false w1 = 0) by (unfold DataSpec.C, is_alive in *; cbn [alive dataents set]; rewrite Ha, alookup_aset_same; reflexivity);
        destruct b; [pose proof (C_despawn_le d false d w1); pose proof (C_nonneg d false (despawn d w1))|]; pose proof (C_nonneg d false w); lia end.
    + match goal with |- DataSpec.C d false (if ?b then despawn d ?w1 else ?w1) <= _ =>
        assert (H1 : DataSpec.C d false w1 = 0) by (unfold DataSpec.C, is_alive in *; cbn [alive dataents set]; rewrite Ha, alookup_aset_same; reflexivity);
        destruct b; [pose proof (C_despawn_le d false d w1); pose proof (C_nonneg d false (despawn d w1))|]; pose proof (C_nonneg d false w); lia end.
Qed.

Lemma R_trk_end_ev d kd w (w1 : world) : tr_ev w1 = trk_end (tr_ev w) -> tr_se w1 = tr_se w ->
  R d kd w1 = R d kd w - (if kd && reacting (tr_ev w) && N.eqb (cur (tr_ev w)) d then 1 else 0).
Proof. intros H1 H2. unfold R. rewrite H1, H2. destruct kd; cbn [andb]; [apply Rt_end|lia]. Qed.

Lemma Q_cleanup d kd cl Y w : 0 <= Y -> Q d kd Y w -> Q d kd Y (run_cleanup cl w).
Proof.
  unfold Q. intros HY H. destruct cl; cbn [run_cleanup]; try exact H.
  - (* ClSysEvent *)
    rewrite (R_kview d kd _ _ (kview_despawn _ _)).
    destruct (N.eq_dec (cur (tr_se w)) d) as [Hc|Hc].
    + rewrite Hc. unfold C at 1. rewrite alive_same_despawn.
      match goal with |- _ <= R d kd ?w1 + Y => pose proof (R_nonneg d kd w1) end. lia.
    + match goal with |- C d kd (despawn ?dc ?w1) <= _ =>
        pose proof (C_despawn_le d kd dc w1) as H1;
        assert (H2 : C d kd w1 = C d kd w) by reflexivity;
        assert (H3 : R d kd w1 = R d kd w) by (unfold R; cbn [tr_ev tr_se set]; destruct kd; [reflexivity|]; rewrite Rt_end; apply N.eqb_neq in Hc; rewrite Hc, andb_false_r; lia)
      end.
      lia.
  - (* ClDespawn *)
    destruct (snd (cur (tr_de w))) as [h|]; [|exact H].
    rewrite (R_kview d kd _ _ (kview_handle_drop _ _)), (C_adv d kd _ _ (adv_handle_drop _ _)). exact H.
  - (* ClEntityEvent *)
    rewrite (R_kview d kd _ _ (kview_try_cleanup _ _)).
    match goal with |- C d kd (try_cleanup_data_entity ?dc ?w1) <= R d kd ?w1 + Y =>
      assert (HC1 : C d kd w1 = C d kd w) by reflexivity;
      pose proof (R_trk_end_ev d kd w w1 eq_refl eq_refl) as HR1; pose proof (R_nonneg d kd w1) as HRn;
      destruct (N.eq_dec dc d) as [Hc|Hc];
      [rewrite Hc; pose proof (C_try_cleanup_same d kd w1) as HT | pose proof (C_try_cleanup_other d kd dc w1 Hc) as HT; assert (Hc' : cur (tr_ev w) <> d) by exact Hc; apply N.eqb_neq in Hc'; rewrite Hc', andb_false_r in HR1]
    end.
    + destruct kd; cbn [andb] in *; destruct (reacting (tr_ev w) && N.eqb (cur (tr_ev w)) d); lia.
    + lia.
  - (* ClBroadcast *)
    rewrite (R_kview d kd _ _ (kview_try_cleanup _ _)).
    match goal with |- C d kd (try_cleanup_data_entity ?dc ?w1) <= R d kd ?w1 + Y =>
      assert (HC1 : C d kd w1 = C d kd w) by reflexivity;
      pose proof (R_trk_end_ev d kd w w1 eq_refl eq_refl) as HR1; pose proof (R_nonneg d kd w1) as HRn;
      destruct (N.eq_dec dc d) as [Hc|Hc];
      [rewrite Hc; pose proof (C_try_cleanup_same d kd w1) as HT | pose proof (C_try_cleanup_other d kd dc w1 Hc) as HT; assert (Hc' : cur (tr_ev w) <> d) by exact Hc; apply N.eqb_neq in Hc'; rewrite Hc', andb_false_r in HR1]
    end.
    + destruct kd; cbn [andb] in *; destruct (reacting (tr_ev w) && N.eqb (cur (tr_ev w)) d); lia.
    + lia.
Qed.

Section CountCmds.
Variable P : program.

Lemma NN_nonneg_cmds d kd cs Y : (forall c, In c cs -> 0 <= owed d kd c) -> 0 <= Y -> NN d kd cs Y.
Proof.
  induction cs as [|c r IH]; cbn [NN]; intros H HY; [exact HY|].
  assert (Hr : 0 <= owedl d kd r).
  { clear IH. induction r as [|c' r' IH']; cbn [owedl]; [lia|]. assert (0 <= owed d kd c') by (apply H; right; left; reflexivity).
    assert (0 <= owedl d kd r') by (apply IH'; intros c0 [Hc|Hc]; apply H; [left; exact Hc|right; right; exact Hc]). lia. }
  split; [cbn [owedl]; pose proof (H c (or_introl eq_refl)); lia|]. apply IH; [intros c0 Hc; apply H; right; exact Hc|exact HY].
Qed.
Lemma owedl_map_bc d kd d0 (l : list handle) :
  owedl d kd (map (fun h => CReact (RcBroadcast d0 (handle_sys h))) l) = (if kd && N.eqb d0 d then Z.of_nat (length l) else 0).
Proof. induction l as [|h l IH]; cbn [map owedl owed length]; [destruct (kd && N.eqb d0 d); reflexivity|]. rewrite IH. destruct (kd && N.eqb d0 d); lia. Qed.
Lemma owedl_map_ee d kd e d0 (l : list ent) :
  owedl d kd (map (fun t => CReact (RcEntityEvent e d0 t)) l) = (if kd && N.eqb d0 d then Z.of_nat (length l) else 0).
Proof. induction l as [|h l IH]; cbn [map owedl owed length]; [destruct (kd && N.eqb d0 d); reflexivity|]. rewrite IH. destruct (kd && N.eqb d0 d); lia. Qed.
Lemma neutral_map {A} d kd (f : A -> cmd) l : (forall a, neutral d kd (f a) = true) -> forallb (neutral d kd) (map f l) = true.
Proof. intros H. induction l; cbn; [reflexivity|]. rewrite H. exact IHl. Qed.

Lemma C_alloc d kd w n d0 : DataAlive w -> C d kd (w <| next_ent := n |> <| alive ::= fun l => l ++ [d0] |>) = C d kd w.
Proof.
  intros H. apply C_gr; [|exact H]. split; [|reflexivity]. intros x Hx. unfold is_alive in *. cbn [alive set]. apply memN_app_l. exact Hx.
Qed.

Lemma prim_neutral d kd c w : special c = false -> forallb (neutral d kd) (snd (apply_prim P c w)) = true.
Proof.
  intros Hs. destruct c; try discriminate Hs; cbn [apply_prim]; try reflexivity.
  - cbn [snd]. apply neutral_map. reflexivity.
  - match goal with |- context [if ?b then _ else _] => destruct b end; [|reflexivity]. cbn [snd]. apply neutral_map. reflexivity.
  - cbn [snd]. apply neutral_map. reflexivity.
  - clear Hs. assert (Hg : forall h w0, forallb (neutral d kd) (snd (reg_triggers_cmds h b w0)) = true).
    { intros h. induction b as [|t b IH]; intros w0; cbn [reg_triggers_cmds]; [reflexivity|].
      destruct (reg_trigger_cmds h t w0) as [w1 c1] eqn:E1. destruct (reg_triggers_cmds h b w1) as [w2 c2] eqn:E2. cbn [snd].
      specialize (IH w1). rewrite E2 in IH. cbn [snd] in IH. rewrite forallb_app, IH, andb_true_r.
      destruct t; cbn in E1; try (inversion E1; subst; reflexivity). destruct (is_alive e w0); inversion E1; subst; reflexivity. }
    destruct m; [|destruct (sig_new s w) as [g w1]|destruct (sig_new s w) as [g w1]];
      match goal with |- context [reg_triggers_cmds ?h b ?w0] => specialize (Hg h w0); destruct (reg_triggers_cmds h b w0) end; exact Hg.
  - destruct tk. reflexivity.
  - destruct (alookup x (p_xr P)) as [[s shape]|]; [destruct (is_alive e w)|]; reflexivity.
  - destruct (alookup x (p_xr P)) as [[s shape]|]; [|reflexivity]. cbn [snd forallb]. rewrite neutral_map by reflexivity. reflexivity.
  - (* CPoll *)
    unfold poll.
    assert (Hr : forall chk w0, forallb (neutral d kd) (snd (poll_removals chk w0)) = true).
    { induction chk as [|[c cur] chk IH]; intros w0; cbn [poll_removals]; [reflexivity|].
      specialize (IH w0). destruct (poll_removals chk w0) as [chk' cs]. cbn [snd] in *. rewrite forallb_app, IH, andb_true_r.
      induction (unread c cur (removed w0)) as [|e es IHe]; cbn [flat_map]; [reflexivity|]. rewrite forallb_app, IHe, andb_true_r.
      unfold removal_cmds_for. rewrite forallb_app. apply andb_true_iff. split; apply neutral_map; reflexivity. }
    assert (Hd : forall chan w0, forallb (neutral d kd) (snd (poll_despawns chan w0)) = true).
    { induction chan as [|e r IH]; intros w0; cbn [poll_despawns]; [reflexivity|].
      specialize (IH (w0 <| desp_tbl := aremove e (desp_tbl w0) |>)). destruct (poll_despawns r _) as [w2 cs]. cbn [snd] in *.
      rewrite forallb_app, IH, andb_true_r. apply neutral_map. reflexivity. }
    specialize (Hr (removal_checkers w) w). destruct (poll_removals (removal_checkers w) w) as [chk c1]. cbn [snd] in Hr.
    match goal with |- context [poll_despawns ?ch ?w0] => specialize (Hd ch w0); destruct (poll_despawns ch w0) as [w2 c2] end.
    cbn [snd] in *. rewrite forallb_app, Hr, Hd. reflexivity.
Qed.
End CountCmds.

Section CountSteps2.
Variable P : program.

Lemma neutral_both d kd cs Y : forallb (neutral d kd) cs = true -> 0 <= Y -> owedl d kd cs = 0 /\ NN d kd cs Y.
Proof. intros H HY. split; [apply neutral_owedl; exact H|apply neutral_NN; assumption]. Qed.

Lemma len_Z {A} (l : list A) : Z.of_N (len l) = Z.of_nat (length l).
Proof. unfold len. apply nat_N_Z. Qed.

Lemma prim_step d kd c w Y : prepare_cmd c w = None -> DataAlive w -> 0 <= Y -> 0 <= owed d kd c + Y ->
  C d kd w <= R d kd w + owed d kd c + Y ->
  C d kd (fst (apply_prim P c w)) <= R d kd (fst (apply_prim P c w)) + owedl d kd (snd (apply_prim P c w)) + Y
  /\ NN d kd (snd (apply_prim P c w)) Y.
Proof.
  intros EP HD HY HN HQ. destruct (special c) eqn:Hs.
  - destruct c; try discriminate Hs; cbn [apply_prim].
    + (* CSpawnData *)
      cbn [fst snd owedl NN owed] in *. split; [|exact HY].
      pose proof (R_nonneg d kd w) as HR. pose proof (kc_nonneg kd dd) as Hk.
      destruct (N.eqb d0 d) eqn:Ed.
      * apply N.eqb_eq in Ed. subst d0. destruct (is_alive d w) eqn:Ha.
        -- assert (HC : C d kd (w <| dataents := aset d dd (dataents w) |>) = kc kd dd) by (unfold C, is_alive in *; cbn [alive dataents set]; rewrite Ha, alookup_aset_same; reflexivity).
           assert (HR2 : R d kd (w <| dataents := aset d dd (dataents w) |>) = R d kd w) by reflexivity. rewrite HC, HR2. lia.
        -- lia.
      * apply N.eqb_neq in Ed. destruct (is_alive d0 w); [|lia].
        assert (HC : C d kd (w <| dataents := aset d0 dd (dataents w) |>) = C d kd w) by (unfold C, is_alive; cbn [alive dataents set]; rewrite alookup_aset_other by (intros H; apply Ed; symmetry; exact H); reflexivity).
        assert (HR2 : R d kd (w <| dataents := aset d0 dd (dataents w) |>) = R d kd w) by reflexivity. rewrite HC, HR2. lia.
    + (* CBroadcast *)
      cbn [owed] in *. destruct (tbl_get ty (bc_tbl w)) as [|h hs] eqn:Et.
      * cbn [fst snd owedl NN]. split; [|exact HY]. change (C d kd w <= R d kd w + 0 + Y). lia.
      * cbn [fst snd]. split.
        -- match goal with |- C d kd (emit ?ev ?w2) <= R d kd (emit ?ev ?w2) + ?o + Y =>
             assert (HC : C d kd (emit ev w2) = C d kd w) by (etransitivity; [|apply (C_alloc d kd w (next_ent w + 1) (next_ent w) HD)]; reflexivity);
             assert (HR2 : R d kd (emit ev w2) = R d kd w) by reflexivity;
             assert (HO : o = 0) end.
           { cbn [owedl owed]. rewrite owedl_map_bc. cbn [DataSpec.kc]. rewrite len_Z. destruct kd; cbn [andb]; destruct (N.eqb (next_ent w) d); cbn [length]; lia. }
           rewrite HC, HR2, HO. lia.
        -- cbn [NN]. split.
           ++ cbn [owedl owed]. rewrite owedl_map_bc. cbn [DataSpec.kc]. rewrite len_Z. destruct kd; cbn [andb]; destruct (N.eqb (next_ent w) d); cbn [length]; lia.
           ++ apply NN_nonneg_cmds; [|exact HY]. intros c Hc. apply in_map_iff in Hc. destruct Hc as (h0 & <- & _). cbn [owed]. destruct (kd && N.eqb (next_ent w) d); lia.
    + (* CEntityEvent *)
      cbn [owed] in *. destruct (entity_targets e (REvent ty) w ++ map handle_sys (tbl_get ty (any_tbl w))) as [|t ts] eqn:Et.
      * cbn [fst snd owedl NN]. split; [|exact HY]. change (C d kd w <= R d kd w + 0 + Y). lia.
      * cbn [fst snd]. split.
        -- match goal with |- C d kd (emit ?ev ?w2) <= R d kd (emit ?ev ?w2) + ?o + Y =>
             assert (HC : C d kd (emit ev w2) = C d kd w) by (etransitivity; [|apply (C_alloc d kd w (next_ent w + 1) (next_ent w) HD)]; reflexivity);
             assert (HR2 : R d kd (emit ev w2) = R d kd w) by reflexivity;
             assert (HO : o = 0) end.
           { cbn [owedl owed]. rewrite owedl_map_ee. cbn [DataSpec.kc]. rewrite len_Z. destruct kd; cbn [andb]; destruct (N.eqb (next_ent w) d); cbn [length]; lia. }
           rewrite HC, HR2, HO. lia.
        -- cbn [NN]. split.
           ++ cbn [owedl owed]. rewrite owedl_map_ee. cbn [DataSpec.kc]. rewrite len_Z. destruct kd; cbn [andb]; destruct (N.eqb (next_ent w) d); cbn [length]; lia.
           ++ apply NN_nonneg_cmds; [|exact HY]. intros c Hc. apply in_map_iff in Hc. destruct Hc as (h0 & <- & _). cbn [owed]. destruct (kd && N.eqb (next_ent w) d); lia.
    + (* CDespawn *) cbn [fst snd owedl NN owed] in *. split; [|exact HY]. rewrite Z.add_0_r. apply Q_despawn. unfold Q. lia.
    + (* CDespawnRec *) cbn [fst snd owedl NN owed] in *. split; [|exact HY]. rewrite Z.add_0_r. apply Q_despawn. unfold Q. lia.
    + (* CCleanup *) cbn [fst snd owedl NN owed] in *. split; [|exact HY]. rewrite Z.add_0_r. apply Q_cleanup; [exact HY|]. unfold Q. lia.
  - assert (Ho : owed d kd c = 0) by (destruct c; try reflexivity; try discriminate Hs; try discriminate EP; destruct r; discriminate EP).
    assert (Hcl : is_cleanup_cmd c = false) by (destruct c; try reflexivity; discriminate Hs).
    rewrite Ho in HQ. rewrite (C_adv d kd _ _ (adv_prim P c w Hs)), (R_kview d kd _ _ (kview_prim P c w Hcl)).
    destruct (neutral_both d kd _ Y (prim_neutral P d kd c w Hs) HY) as [H1 H2]. rewrite H1. split; [lia|exact H2].
Qed.

Lemma act_cmds d kd o a w Y : 0 <= Y -> owedl d kd (snd (act P o a w)) = 0 /\ NN d kd (snd (act P o a w)) Y.
Proof.
  intros HY. destruct a; cbn [act];
    try (apply neutral_both; [|exact HY]; try reflexivity;
         try (destruct (is_alive _ w); reflexivity);
         try (destruct (is_alive _ (emit _ w)); [destruct (alookup2 _ _ _); [try destruct (N.eqb _ _)|]|]; reflexivity);
         try (destruct (N.eqb _ _); reflexivity);
         try (destruct (memN _ (bound w)); reflexivity);
         try (destruct (alookup _ _) as [?|]; reflexivity);
         try (destruct m; reflexivity); fail).
  (* ASysEvent *)
  cbn [snd owedl owed NN DataSpec.kc]. destruct kd; cbn [negb andb]; destruct (N.eqb (next_ent w) d); lia.
Qed.
Lemma act_step d kd o a w : DataAlive w -> C d kd (fst (act P o a w)) = C d kd w /\ R d kd (fst (act P o a w)) = R d kd w.
Proof. intros HD. split; [apply C_gr; [apply gr_act|exact HD]|apply R_kview, kview_act]. Qed.
Lemma acts_cmds d kd Y : 0 <= Y -> forall l mk idx w, owedl d kd (snd (acts P mk idx l w)) = 0 /\ NN d kd (snd (acts P mk idx l w)) Y.
Proof.
  intros HY. induction l as [|a l IH]; intros mk idx w; cbn [acts]; [split; [reflexivity|exact HY]|].
  pose proof (act_cmds d kd (mk idx) a w Y HY) as [H1 H2]. destruct (act P (mk idx) a w) as [w1 c1].
  specialize (IH mk (idx + 1)%N w1). destruct (acts P mk (idx + 1)%N l w1) as [w2 c2]. cbn [snd] in *. destruct IH as [H3 H4].
  split; [rewrite owedl_app; lia|]. apply NN_app; [rewrite H3, Z.add_0_l; exact H2|exact H4].
Qed.
Lemma acts_step d kd : forall l mk idx w, DataAlive w -> C d kd (fst (acts P mk idx l w)) = C d kd w /\ R d kd (fst (acts P mk idx l w)) = R d kd w.
Proof.
  induction l as [|a l IH]; intros mk idx w HD; cbn [acts]; [split; reflexivity|].
  pose proof (act_step d kd (mk idx) a w HD) as [H1 H2]. pose proof (DA_gr _ _ (gr_act P (mk idx) a w) HD) as HD1.
  destruct (act P (mk idx) a w) as [w1 c1]. cbn [fst] in *.
  specialize (IH mk (idx + 1)%N w1 HD1). destruct (acts P mk (idx + 1)%N l w1) as [w2 c2]. cbn [fst] in *. destruct IH as [H3 H4]. split; congruence.
Qed.

Lemma C_take_sysevents d kd tys : forall w, C d kd (snd (take_sysevents tys w)) = C d kd w.
Proof.
  induction tys as [|ty r IH]; intros w; cbn [take_sysevents]; [reflexivity|].
  destruct (peek_sysevent ty w) as [p|] eqn:EP; [|apply IH].
  match goal with |- context [take_sysevents r ?w2] => specialize (IH w2); destruct (take_sysevents r w2) end. cbn [snd] in *. rewrite IH.
  unfold peek_sysevent in EP. destruct (reacting (tr_se w) && is_alive (cur (tr_se w)) w); [|discriminate EP].
  destruct (alookup (cur (tr_se w)) (dataents w)) as [[? ? ?|? ? ? ?|ty' [p'|]]|] eqn:Ed; try discriminate EP.
  unfold C, is_alive. cbn [alive dataents emit set]. destruct (N.eq_dec d (cur (tr_se w))) as [->|Hne].
  - rewrite alookup_aset_same, Ed. reflexivity.
  - rewrite alookup_aset_other by exact Hne. reflexivity.
Qed.
Lemma C_body_begin d kd sd t r c w : C d kd (body_begin P sd t r c w) = C d kd w.
Proof.
  unfold body_begin, state_bump.
  assert (Hs : C d kd (body_sample P sd t r c w) = C d kd w).
  { unfold body_sample. destruct (sample_readers sd (xsys_of P t) w) as [sm w1] eqn:ES.
    assert (H1 : C d kd w1 = C d kd w).
    { unfold sample_readers in ES. destruct (sd_take sd).
      - pose proof (C_take_sysevents d kd TYPES w) as Ht. destruct (take_sysevents TYPES w) as [ss w2]. inversion ES; subst. exact Ht.
      - inversion ES; subst. reflexivity. }
    destruct (sm_l sm) as [[src [v|]]|]; try exact H1. destruct (xsys_of P t) as [[x ?]|]; exact H1. }
  destruct (alookup t (cbs (body_sample P sd t r c w))); exact Hs.
Qed.
End CountSteps2.

Section CountExec.
Variable P : program.
Variable d : ent.
Variable kd : bool.
Notation C := (C d kd).
Notation R := (R d kd).
Notation Q := (Q d kd).
Notation owed := (owed d kd).
Notation owedl := (owedl d kd).
Notation NN := (NN d kd).

Definition cmds (i : instr) : list cmd :=
  match i with IApply c => [c] | IApplyList cs => cs | IExclSteps _ _ _ pending _ => pending | _ => [] end.
Definition PreC (i : instr) (Y : Z) (w : world) : Prop := NN (cmds i) Y /\ C w <= R w + owedl (cmds i) + Y.

Lemma NN_head cs Y : NN cs Y -> 0 <= owedl cs + Y.
Proof. destruct cs as [|c r]; cbn [DataSpec.NN DataSpec.owedl]; [lia|]. intros [H _]. exact H. Qed.
Lemma Q_same Y w w' : C w' = C w -> R w' = R w -> Q Y w -> Q Y w'.
Proof. unfold DataSpec.Q. intros H1 H2. rewrite H1, H2. auto. Qed.

Ltac bind_inv E w1 E1 :=
  match type of E with
  | bind ?r _ = Ok _ => destruct r as [w1| |] eqn:E1; cbn [bind] in E; [|discriminate E|discriminate E]
  end.

Theorem exec_count_bound : forall fuel i Y w w', DataAlive w -> PreC i Y w -> exec P fuel i w = Ok w' -> Q Y w'.
Proof.
  induction fuel as [|f IH]; intros i Y w w' HD [HN HQ] E; [discriminate E|].
  pose proof (DA_closed P) as HC.
  pose proof (NN_Y d kd _ _ HN) as HY.
  assert (DAe : forall i0 w0 w0', DataAlive w0 -> exec P f i0 w0 = Ok w0' -> DataAlive w0') by (intros i0 w0 w0'; apply (exec_closed P DataAlive HC)).
  assert (IH0 : forall i0 w0 w0', exec P f i0 w0 = Ok w0' -> cmds i0 = [] -> DataAlive w0 -> Q Y w0 -> Q Y w0').
  { intros i0 w0 w0' E0 Hc HD0 HQ0. apply (IH i0 Y w0 w0' HD0); [|exact E0]. unfold PreC. rewrite Hc. cbn [DataSpec.NN DataSpec.owedl]. unfold DataSpec.Q in HQ0. split; [exact HY|lia]. }
  destruct i; cbn [exec] in E; cbn [cmds] in HN, HQ.
  - (* IApply *)
    cbn [DataSpec.NN DataSpec.owedl] in HN, HQ. destruct HN as [HN1 _].
    destruct (prepare_cmd c w) as [[[[t su] cl] w1]|] eqn:EP.
    + destruct (prepare_CR d kd _ _ _ _ _ _ EP) as [H1 H2].
      apply (IH0 _ _ _ E eq_refl); [exact (c_prepare _ _ HC _ _ _ _ _ _ HD EP)|]. unfold DataSpec.Q. lia.
    + assert (Hprim : forall w2 cs, apply_prim P c w = (w2, cs) -> exec P f (IApplyList cs) w2 = Ok w' -> Q Y w').
      { intros w2 cs Ea Ee. assert (HQ' : C w <= R w + owed c + Y) by lia. assert (HN' : 0 <= owed c + Y) by lia.
        pose proof (prim_step P d kd c w Y EP HD HY HN' HQ') as [H1 H2]. rewrite Ea in H1, H2. cbn [fst snd] in H1, H2.
        apply (IH (IApplyList cs) Y w2 w'); [|split; assumption|exact Ee]. pose proof (DA_prim P c w HD) as H3. rewrite Ea in H3. exact H3. }
      destruct c; try (destruct (apply_prim P _ w) as [w2 cs] eqn:Ea; eapply Hprim; [reflexivity|exact E]); try discriminate EP.
      * destruct (is_alive s w); [|discriminate E]. destruct (apply_prim P (CSpawnSys s) w) as [w2 cs] eqn:Ea. eapply Hprim; [reflexivity|exact E].
      * apply (IH0 IGC w w' E eq_refl HD). unfold DataSpec.Q. cbn [DataSpec.owed] in HQ. lia.
  - (* IApplyList *)
    destruct cs as [|c cs]; [inversion E; subst; unfold DataSpec.Q; cbn [DataSpec.owedl] in HQ; lia|]. bind_inv E w1 E1.
    cbn [DataSpec.NN] in HN. destruct HN as [HN1 HN2]. pose proof (NN_head _ _ HN2) as HN3. cbn [DataSpec.owedl] in HN1, HQ.
    assert (Q1 : DataSpec.Q d kd (owedl cs + Y) w1).
    { apply (IH (IApply c) (owedl cs + Y) w w1 HD); [|exact E1]. unfold PreC. cbn [cmds DataSpec.NN DataSpec.owedl]. split; [split; lia|lia]. }
    apply (IH (IApplyList cs) Y w1 w' (DAe _ _ _ HD E1)); [|exact E]. unfold PreC. cbn [cmds]. split; [exact HN2|]. unfold DataSpec.Q in Q1. lia.
  - (* IRunner *)
    assert (HQ0 : Q Y w) by (unfold DataSpec.Q; cbn [DataSpec.owedl] in HQ; lia).
    bind_inv E w1 E1. bind_inv E w2 E2.
    assert (HD1 : DataAlive w1) by (eapply DAe; [|exact E1]; apply (c_emit _ _ HC); exact HD).
    assert (Q1 : Q Y w1) by (apply (IH0 _ _ _ E1 eq_refl); [apply (c_emit _ _ HC); exact HD|exact HQ0]).
    assert (HD2 : DataAlive w2) by (eapply DAe; eauto). assert (Q2 : Q Y w2) by (apply (IH0 _ _ _ E2 eq_refl); assumption).
    assert (Habort : forall n w3, exec P f (IAbort t su cl) (emit (EvAbort t (setup_ticket su) n) w2) = Ok w3 -> Q Y (emit (EvExit t (setup_ticket su)) w3)).
    { intros n w3 E3. apply (IH0 _ _ _ E3 eq_refl); [apply (c_emit _ _ HC); exact HD2|exact Q2]. }
    destruct (lookup_storage t w2) eqn:EL.
    + bind_inv E w3 E3. inversion E; subst. eapply Habort; eauto.
    + bind_inv E w3 E3. inversion E; subst. eapply Habort; eauto.
    + destruct (N.eqb (counter w) 0).
      * bind_inv E w3 E3. inversion E; subst. eapply Habort; eauto.
      * inversion E; subst. exact Q2.
    + exact (IH0 _ _ _ E eq_refl HD2 Q2).
  - (* IRun *)
    assert (HQ0 : Q Y w) by (unfold DataSpec.Q; cbn [DataSpec.owedl] in HQ; lia).
    destruct (run_setup su t (rn_take t su w)) as [w0|] eqn:ES; [|discriminate E].
    bind_inv E w1 E1. bind_inv E w2 E2. bind_inv E w3 E3. bind_inv E w4 E4. bind_inv E w5 E5. bind_inv E w6 E6. inversion E; subst. clear E.
    assert (HD0 : DataAlive w0) by (eapply (c_setup _ _ HC); [|exact ES]; apply (closed_take _ _ HC); exact HD).
    assert (Q0 : Q Y w0) by (destruct (setup_CR d kd _ _ _ _ ES) as [H1 H2]; eapply Q_same; [exact H1|exact H2|exact HQ0]).
    assert (HD1 : DataAlive w1) by (eapply DAe; eauto). assert (Q1 : Q Y w1) by (apply (IH0 _ _ _ E1 eq_refl); assumption).
    assert (HD2 : DataAlive w2) by (eapply DAe; eauto). assert (Q2 : Q Y w2) by (apply (IH0 _ _ _ E2 eq_refl); assumption).
    assert (H3 : DataAlive w3 /\ Q Y w3).
    { destruct (lookup_storage t w2) eqn:EL.
      - assert (HDx : DataAlive (rn_dropped t (setup_ticket su) w2)) by (apply (c_dropped _ _ HC); assumption).
        split; [eapply DAe; eauto|]. apply (IH0 _ _ _ E3 eq_refl HDx). unfold rn_dropped.
        eapply Q_same; [| |exact Q2]; [exact (C_adv d kd _ _ (adv_drop_callback t w2))|exact (R_kview d kd _ _ (kview_drop_callback t w2))].
      - assert (HDx : DataAlive (rn_despawn_missing t (setup_ticket su) w2)) by (apply (c_missing _ _ HC); assumption).
        split; [eapply DAe; eauto|]. apply (IH0 _ _ _ E3 eq_refl HDx). unfold rn_despawn_missing.
        change (Q Y (despawn t (drop_callback t w2))). apply Q_despawn.
        eapply Q_same; [| |exact Q2]; [exact (C_adv d kd _ _ (adv_drop_callback t w2))|exact (R_kview d kd _ _ (kview_drop_callback t w2))].
      - inversion E3; subst. split; [apply (closed_reinsert _ _ HC); exact HD2|exact Q2].
      - inversion E3; subst. split; [apply (closed_reinsert _ _ HC); exact HD2|exact Q2]. }
    destruct H3 as [HD3 Q3].
    assert (HD4 : DataAlive w4) by (eapply DAe; eauto). assert (Q4 : Q Y w4) by (apply (IH0 _ _ _ E4 eq_refl); assumption).
    assert (HD5 : DataAlive w5) by (eapply DAe; [|exact E5]; apply (c_buffer _ _ HC); exact HD4).
    assert (Q5 : Q Y w5) by (apply (IH0 _ _ _ E5 eq_refl); [apply (c_buffer _ _ HC); exact HD4|exact Q4]).
    assert (Q6 : Q Y w6).
    { destruct (N.eqb idx 0).
      - bind_inv E6 w7 E7. inversion E6; subst. exact (IH0 _ _ _ E7 eq_refl HD5 Q5).
      - inversion E6; subst. exact Q5. }
    exact Q6.
  - (* ICallback *)
    assert (HQ0 : Q Y w) by (unfold DataSpec.Q; cbn [DataSpec.owedl] in HQ; lia).
    destruct (alookup t (cbs w)) as [cb|] eqn:Ecb; [|discriminate E].
    destruct (cb_once cb) as [tk|] eqn:Eo.
    + destruct (cb_taken cb) eqn:Et; [inversion E; subst; exact HQ0|].
      bind_inv E w1 E1. bind_inv E w2 E2. inversion E; subst. clear E.
      assert (HDb : DataAlive (cb_bump t cb true w)) by (apply (c_cbbump _ _ HC); [exact HD|exact Ecb|unfold bump_ok; rewrite Eo, Et; reflexivity]).
      assert (Q1 : Q Y w1) by (apply (IH0 _ _ _ E1 eq_refl HDb); exact HQ0). assert (HD1 : DataAlive w1) by (eapply DAe; eauto).
      assert (HDd : DataAlive (despawn t w1)) by (apply DA_despawn; exact HD1).
      assert (Q2 : Q Y w2).
      { apply (IH (IApplyList [CRevoke tk]) Y (despawn t w1) w2 HDd); [|exact E2]. unfold PreC. cbn [cmds DataSpec.NN DataSpec.owedl DataSpec.owed].
        pose proof (Q_despawn d kd Y t w1 Q1) as Hq. unfold DataSpec.Q in Hq. split; [split; lia|lia]. }
      unfold once_finish. destruct (alookup t (cbs w2)); exact Q2.
    + apply (IH0 _ _ _ E eq_refl); [|exact HQ0]. apply (c_cbbump _ _ HC); [exact HD|exact Ecb|unfold bump_ok; rewrite Eo; reflexivity].
  - (* IBody *)
    assert (HQ0 : Q Y w) by (unfold DataSpec.Q; cbn [DataSpec.owedl] in HQ; lia).
    destruct (body_guard t runno captured w) eqn:EG; cbn [negb] in E; [|discriminate E].
    assert (HDb : DataAlive (body_begin P (sys_or_default P t) t runno captured w)) by (apply (c_body _ _ HC); assumption).
    assert (Qb : Q Y (body_begin P (sys_or_default P t) t runno captured w)).
    { eapply Q_same; [apply C_body_begin|apply R_kview0, kview0_body_begin|exact HQ0]. }
    destruct (sd_kind (sys_or_default P t)).
    + pose proof (acts_step P d kd (script_of P t runno) (OSys t runno) 0%N _ HDb) as [Ha1 Ha2].
      pose proof (acts_cmds P d kd Y HY (script_of P t runno) (OSys t runno) 0%N (body_begin P (sys_or_default P t) t runno captured w)) as [Ha3 Ha4].
      pose proof (closed_acts P DataAlive HC (script_of P t runno) (OSys t runno) 0%N _ HDb) as HDa.
      destruct (acts P (OSys t runno) 0 (script_of P t runno) (body_begin P (sys_or_default P t) t runno captured w)) as [w1 cs]. cbn [fst snd] in *.
      apply (IH (IApplyList cs) Y (plain_cleanup cl w1) w'); [apply (closed_plain_cleanup _ _ HC); exact HDa| |exact E].
      unfold PreC. cbn [cmds]. split; [exact Ha4|]. rewrite Ha3.
      assert (Qc : Q Y (plain_cleanup cl w1)) by (unfold plain_cleanup; change (Q Y (run_cleanup cl w1)); apply Q_cleanup; [exact HY|]; eapply Q_same; [exact Ha1|exact Ha2|exact Qb]).
      unfold DataSpec.Q in Qc. lia.
    + apply (IH (IExclSteps t runno 0 [CCleanup cl] (script_of P t runno)) Y _ w' HDb); [|exact E].
      unfold PreC. cbn [cmds DataSpec.NN DataSpec.owedl DataSpec.owed]. unfold DataSpec.Q in Qb. split; [split; lia|lia].
  - (* IExclSteps *)
    destruct l as [|a r].
    + apply (IH (IApplyList pending) Y w w' HD); [|exact E]. split; assumption.
    + pose proof (act_step P d kd (OSys s run idx) a w HD) as [Ha1 Ha2]. pose proof (act_cmds P d kd (OSys s run idx) a w Y HY) as [Ha3 Ha4].
      pose proof (DA_gr _ _ (gr_act P (OSys s run idx) a w) HD) as HDa.
      destruct (act P (OSys s run idx) a w) as [w1 cs]. cbn [fst snd] in *. bind_inv E w2 E2.
      assert (Q2 : Q Y w2).
      { apply (IH (IApplyList (pending ++ cs)) Y w1 w2 HDa); [|exact E2]. unfold PreC. cbn [cmds]. split.
        - apply NN_app; [rewrite Ha3, Z.add_0_l; exact HN|exact Ha4].
        - rewrite owedl_app, Ha3, Ha1, Ha2. lia. }
      exact (IH0 _ _ _ E eq_refl (DAe _ _ _ HDa E2) Q2).
  - (* IDirectSteps *)
    assert (HQ0 : Q Y w) by (unfold DataSpec.Q; cbn [DataSpec.owedl] in HQ; lia).
    destruct l as [|a r]; [inversion E; subst; exact HQ0|].
    pose proof (act_step P d kd (OTop op idx) a w HD) as [Ha1 Ha2]. pose proof (act_cmds P d kd (OTop op idx) a w Y HY) as [Ha3 Ha4].
    pose proof (DA_gr _ _ (gr_act P (OTop op idx) a w) HD) as HDa.
    destruct (act P (OTop op idx) a w) as [w1 cs]. cbn [fst snd] in *. bind_inv E w2 E2.
    assert (Q2 : Q Y w2).
    { apply (IH (IApplyList cs) Y w1 w2 HDa); [|exact E2]. unfold PreC. cbn [cmds]. split; [exact Ha4|]. rewrite Ha3, Ha1, Ha2. unfold DataSpec.Q in HQ0. lia. }
    exact (IH0 _ _ _ E eq_refl (DAe _ _ _ HDa E2) Q2).
  - (* IBatches *)
    assert (HQ0 : Q Y w) by (unfold DataSpec.Q; cbn [DataSpec.owedl] in HQ; lia).
    destruct bs as [|b r]; [inversion E; subst; exact HQ0|].
    pose proof (acts_step P d kd b (OTop op) idx w HD) as [Ha1 Ha2]. pose proof (acts_cmds P d kd Y HY b (OTop op) idx w) as [Ha3 Ha4].
    pose proof (closed_acts P DataAlive HC b (OTop op) idx w HD) as HDa.
    destruct (acts P (OTop op) idx b w) as [w1 cs]. cbn [fst snd] in *. bind_inv E w2 E2.
    assert (Q2 : Q Y w2).
    { apply (IH (IApplyList cs) Y w1 w2 HDa); [|exact E2]. unfold PreC. cbn [cmds]. split; [exact Ha4|]. rewrite Ha3, Ha1, Ha2. unfold DataSpec.Q in HQ0. lia. }
    exact (IH0 _ _ _ E eq_refl (DAe _ _ _ HDa E2) Q2).
  - (* IReplay *)
    assert (HQ0 : Q Y w) by (unfold DataSpec.Q; cbn [DataSpec.owedl] in HQ; lia).
    destruct pending as [|b pending].
    + inversion E; subst. exact HQ0.
    + destruct (N.eqb (b_sys b) t).
      * bind_inv E w1 E1. exact (IH0 _ _ _ E eq_refl (DAe _ _ _ HD E1) (IH0 _ _ _ E1 eq_refl HD HQ0)).
      * exact (IH0 _ _ _ E eq_refl HD HQ0).
  - (* IDiscard *)
    assert (HQ0 : Q Y w) by (unfold DataSpec.Q; cbn [DataSpec.owedl] in HQ; lia).
    destruct (buffer w) as [|b rest] eqn:EB; [inversion E; subst; exact HQ0|].
    bind_inv E w1 E1. assert (HDp : DataAlive (rn_discard_pop b rest w)) by (apply (closed_discard_pop _ _ HC); exact HD).
    exact (IH0 _ _ _ E eq_refl (DAe _ _ _ HDp E1) (IH0 _ _ _ E1 eq_refl HDp HQ0)).
  - (* IAbort *)
    assert (HQ0 : Q Y w) by (unfold DataSpec.Q; cbn [DataSpec.owedl] in HQ; lia).
    destruct (run_setup su t w) as [w0|] eqn:ES; [|discriminate E]. bind_inv E w1 E1.
    assert (HD0 : DataAlive w0) by (eapply (c_setup _ _ HC); eauto).
    assert (Q0 : Q Y w0) by (destruct (setup_CR d kd _ _ _ _ ES) as [H1 H2]; eapply Q_same; [exact H1|exact H2|exact HQ0]).
    assert (HDa : DataAlive (rn_abort_cleanup su cl w0)) by (apply (closed_abort_cleanup _ _ HC); exact HD0).
    assert (Qa : Q Y (rn_abort_cleanup su cl w0)) by (unfold rn_abort_cleanup; change (Q Y (run_cleanup cl w0)); apply Q_cleanup; assumption).
    exact (IH0 _ _ _ E eq_refl (DAe _ _ _ HDa E1) (IH0 _ _ _ E1 eq_refl HDa Qa)).
  - (* IGC *)
    assert (HQ0 : Q Y w) by (unfold DataSpec.Q; cbn [DataSpec.owedl] in HQ; lia).
    destruct (gc_chan w) as [|e r] eqn:EG; [inversion E; subst; exact HQ0|].
    apply (IH0 _ _ _ E eq_refl); [apply (c_gc _ _ HC); assumption|]. unfold gc_step. apply Q_despawn. exact HQ0.
  - (* IPoll *)
    assert (HQ0 : Q Y w) by (unfold DataSpec.Q; cbn [DataSpec.owedl] in HQ; lia).
    pose proof (prim_neutral P d kd CPoll w eq_refl) as Hn. cbn [apply_prim] in Hn.
    pose proof (C_adv d kd _ _ (adv_poll w)) as H1. pose proof (R_kview d kd _ _ (kview_poll w)) as H2. pose proof (c_poll _ _ HC w HD) as HDp.
    destruct (poll w) as [w1 cs]. cbn [fst snd] in *.
    destruct (neutral_both d kd cs Y Hn HY) as [Ho Hnn].
    apply (IH (IApplyList cs) Y w1 w' HDp); [|exact E]. unfold PreC. cbn [cmds]. split; [exact Hnn|]. rewrite Ho, H1, H2. unfold DataSpec.Q in HQ0. lia.
  - (* ITop *)
    assert (HQ0 : Q Y w) by (unfold DataSpec.Q; cbn [DataSpec.owedl] in HQ; lia).
    bind_inv E w1 E1. inversion E; subst. clear E. change (Q Y w1).
    destruct o as [l|l|bs].
    + pose proof (acts_step P d kd l (OTop i) 0%N w HD) as [Ha1 Ha2]. pose proof (acts_cmds P d kd Y HY l (OTop i) 0%N w) as [Ha3 Ha4].
      pose proof (closed_acts P DataAlive HC l (OTop i) 0%N w HD) as HDa.
      destruct (acts P (OTop i) 0 l w) as [w2 cs]. cbn [fst snd] in *.
      apply (IH (IApplyList cs) Y w2 w1 HDa); [|exact E1]. unfold PreC. cbn [cmds]. split; [exact Ha4|]. rewrite Ha3, Ha1, Ha2. unfold DataSpec.Q in HQ0. lia.
    + exact (IH0 _ _ _ E1 eq_refl HD HQ0).
    + bind_inv E1 w2 E2. bind_inv E1 w3 E3. bind_inv E1 w4 E4. inversion E1; subst. change (Q Y w4).
      assert (HD2 : DataAlive w2) by (eapply DAe; eauto). assert (HD3 : DataAlive w3) by (eapply DAe; eauto).
      exact (IH0 _ _ _ E4 eq_refl HD3 (IH0 _ _ _ E3 eq_refl HD2 (IH0 _ _ _ E2 eq_refl HD HQ0))).
Qed.
End CountExec.

Section CountRun.
Variable P : program.

Lemma init_gr : forall l w, gr w (fold_left (fun w s => (reserve s w) <| storage ::= aset s true |> <| cbs ::= aset s (mkCb None 0 0 false true) |> <| spawned ::= cons s |>) l w).
Proof.
  induction l as [|x l IH]; intros w; cbn [fold_left]; [apply gr_refl|].
  destruct (IH ((reserve x w) <| storage ::= aset x true |> <| cbs ::= aset x (mkCb None 0 0 false true) |> <| spawned ::= cons x |>)) as [H1 H2].
  destruct (gr_reserve x w) as [H3 H4]. split.
  - intros d0 Hd. apply H1. exact (H3 d0 Hd).
  - rewrite H2. exact H4.
Qed.
Lemma DA_init : DataAlive (install_static P init_world).
Proof. unfold install_static. eapply DA_gr; [apply init_gr|]. intros d0 Hd. cbn in Hd. contradiction. Qed.
Lemma Q_init d kd : Q d kd 0 (install_static P init_world).
Proof.
  unfold Q, C, install_static. destruct (init_gr (map snd (p_wr P) ++ map (fun x => fst (snd x)) (p_xr P)) init_world) as [_ H2]. rewrite H2. cbn [dataents init_world alookup].
  match goal with |- (if ?b then 0 else 0) <= _ => destruct b end; pose proof (R_nonneg d kd (fold_left (fun w s => (reserve s w) <| storage ::= aset s true |> <| cbs ::= aset s (mkCb None 0 0 false true) |> <| spawned ::= cons s |>) (map snd (p_wr P) ++ map (fun x => fst (snd x)) (p_xr P)) init_world)); lia.
Qed.
Lemma run_tops_count d kd fuel : forall l i w w', DataAlive w -> Q d kd 0 w -> run_tops P fuel i l w = Ok w' -> DataAlive w' /\ Q d kd 0 w'.
Proof.
  induction l as [|o r IH]; intros i w w' HD HQ E; cbn [run_tops] in E; [inversion E; subst; split; assumption|].
  destruct (exec P fuel (ITop i o) w) as [w1| |] eqn:E1; cbn [bind] in E; try discriminate E.
  apply (IH (i + 1)%N w1 w'); [exact (exec_closed P DataAlive (DA_closed P) fuel _ _ _ HD E1)| |exact E].
  apply (exec_count_bound P d kd fuel (ITop i o) 0 w w1 HD); [|exact E1]. unfold PreC. cbn [cmds NN owedl]. unfold Q in HQ. split; lia.
Qed.

(* C05 / C11: when a run ends, no event bookkeeping entity is alive — neither one with a reader counter (broadcast,
   entity event) nor a system-event one: every data entity still recorded is dead, for every program *)
Theorem no_data_entity_outlives_the_run fuel w' : run P fuel = Ok w' ->
  forall d, is_alive d w' = true -> alookup d (dataents w') = None.
Proof.
  intros E d Ha. pose proof (run_quiescent_full P fuel w' E) as (_ & _ & _ & Pev & Pse & _ & _ & Fev & Fse & _).
  unfold run in E.
  destruct (alookup d (dataents w')) as [dd|] eqn:Ed; [exfalso|reflexivity].
  assert (HR : forall kd, R d kd w' = 0).
  { intros kd. unfold R, Rt. destruct kd; [rewrite Pev, Fev|rewrite Pse, Fse]; reflexivity. }
  destruct dd as [ty p n|ty t p n|ty p].
  - destruct (run_tops_count d true fuel _ _ _ _ DA_init (Q_init d true) E) as [_ HQ]. unfold Q, C in HQ. rewrite Ha, Ed, HR in HQ. cbn [kc] in HQ. lia.
  - destruct (run_tops_count d true fuel _ _ _ _ DA_init (Q_init d true) E) as [_ HQ]. unfold Q, C in HQ. rewrite Ha, Ed, HR in HQ. cbn [kc] in HQ. lia.
  - destruct (run_tops_count d false fuel _ _ _ _ DA_init (Q_init d false) E) as [_ HQ]. unfold Q, C in HQ. rewrite Ha, Ed, HR in HQ. cbn [kc] in HQ. lia.
Qed.
(* ... and, data entities being alive as long as they are recorded, none is recorded at all *)
Theorem no_data_entity_left fuel w' : run P fuel = Ok w' -> forall d, alookup d (dataents w') = None.
Proof.
  intros E d. destruct (alookup d (dataents w')) as [dd|] eqn:Ed; [exfalso|reflexivity].
  assert (HD : DataAlive w') by (unfold run in E; eapply run_tops_closed; [apply DA_closed|apply DA_init|exact E]).
  assert (Ha : is_alive d w' = true) by (apply HD; rewrite Ed; discriminate).
  rewrite (no_data_entity_outlives_the_run fuel w' E d Ha) in Ed. discriminate.
Qed.
End CountRun.

