(* SigSpec.v — C07: only entities for which an auto-despawn signal was prepared can ever reach the collector's channel.
   g_auto is the ghost set of those entities (written by sig_new only). *)
From Cobweb Require Import Machine.
From CobwebProofs Require Import ListLemmas Closed.

Definition sgv (w : world) := (sigs w, gc_chan w, g_auto w).
Definition sents (w : world) : list ent := map (fun x => fst (snd x)) (sigs w) ++ gc_chan w.
Definition AutoInv (w : world) : Prop := incl (sents w) (g_auto w).
(* a step may only move signal entities to the channel, drop them, or add entities it also records in g_auto *)
Definition sg_ok (w w' : world) : Prop :=
  incl (g_auto w) (g_auto w') /\ forall e, In e (sents w') -> In e (sents w) \/ In e (g_auto w').
Lemma sg_refl w : sg_ok w w. Proof. split; [apply incl_refl|auto]. Qed.
Lemma sg_trans w1 w2 w3 : sg_ok w1 w2 -> sg_ok w2 w3 -> sg_ok w1 w3.
Proof.
  intros [I1 H1] [I2 H2]. split; [eapply incl_tran; eauto|]. intros e He. destruct (H2 e He) as [H|H]; [|auto].
  destruct (H1 e H) as [H'|H']; [auto|right; apply I2; exact H'].
Qed.
Lemma sg_eq w w' : sgv w' = sgv w -> sg_ok w w'.
Proof. unfold sgv, sg_ok, sents. intros H. inversion H as [[E1 E2 E3]]. rewrite E1, E2, E3. split; [apply incl_refl|auto]. Qed.
Lemma AutoInv_sg w w' : sg_ok w w' -> AutoInv w -> AutoInv w'.
Proof. intros [I H] HA e He. destruct (H e He) as [H'|H']; [apply I, HA, H'|exact H']. Qed.
Ltac sg_eq_tac := apply sg_eq; reflexivity.

(* steps that touch neither the signal table nor the channel *)
Lemma sgv_push_removed_all cs e : forall w, sgv (push_removed_all cs e w) = sgv w.
Proof. induction cs as [|c cs IH]; intros w; cbn; [reflexivity|]. rewrite IH. reflexivity. Qed.
Lemma sgv_drop_callback t w : sgv (drop_callback t w) = sgv w.
Proof. unfold drop_callback. destruct (alookup t (cbs w)) as [cb|]; [destruct (cb_live cb)|]; reflexivity. Qed.
Lemma sgv_drop_ddata d w : sgv (drop_ddata d w) = sgv w.
Proof. destruct d as [? ? ?|? ? ? ?|? [?|]]; reflexivity. Qed.
Lemma sgv_take_sysevents tys : forall w, sgv (snd (take_sysevents tys w)) = sgv w.
Proof.
  induction tys as [|ty r IH]; intros w; cbn [take_sysevents]; [reflexivity|].
  destruct (peek_sysevent ty w) as [p|]; [|apply IH].
  match goal with |- context [take_sysevents r ?w1] => specialize (IH w1); destruct (take_sysevents r w1) end. exact IH.
Qed.
Lemma sgv_sample_readers sd x w : sgv (snd (sample_readers sd x w)) = sgv w.
Proof.
  unfold sample_readers. pose proof (sgv_take_sysevents TYPES w) as H1.
  destruct (sd_take sd); [destruct (take_sysevents TYPES w) as [s w1]; exact H1|reflexivity].
Qed.
Lemma sgv_poll_despawns chan : forall w, sgv (fst (poll_despawns chan w)) = sgv w.
Proof.
  induction chan as [|e r IH]; intros w; cbn [poll_despawns]; [reflexivity|].
  specialize (IH (w <| desp_tbl := aremove e (desp_tbl w) |>)). destruct (poll_despawns r _) as [w2 cs]. exact IH.
Qed.
Lemma sgv_poll w : sgv (fst (poll w)) = sgv w.
Proof.
  unfold poll. destruct (poll_removals (removal_checkers w) w) as [chk c1].
  pose proof (sgv_poll_despawns (despawn_chan (w <| removal_checkers := chk |>)) ((w <| removal_checkers := chk |>) <| despawn_chan := [] |>)) as H.
  destruct (poll_despawns _ _) as [w2 c2]. exact H.
Qed.
Lemma sgv_comp_push kd c h w : sgv (comp_push kd c h w) = sgv w.
Proof. unfold comp_push. destruct (alookup c (comp_tbl w)) as [[[i m] r]|]; destruct kd; reflexivity. Qed.
Lemma sgv_dsp_comps e w : sgv (dsp_comps e w) = sgv w.
Proof. unfold dsp_comps. etransitivity; [|apply (sgv_push_removed_all (comps_of e (comps w)) e w)]. reflexivity. Qed.
Lemma sgv_dsp_storage e w : sgv (dsp_storage e w) = sgv w.
Proof.
  unfold dsp_storage. destruct (alookup e (storage w)) as [[|]|]; try reflexivity.
  etransitivity; [|apply (sgv_drop_callback e w)]. reflexivity.
Qed.
Lemma sgv_dsp_tracker e w : sgv (dsp_tracker e w) = sgv w.
Proof. unfold dsp_tracker. destruct (memN e (dtrackers w)); reflexivity. Qed.
Lemma sgv_dsp_data e w : sgv (dsp_data e w) = sgv w.
Proof.
  unfold dsp_data. destruct (alookup e (dataents w)) as [d|]; [|reflexivity].
  etransitivity; [|apply (sgv_drop_ddata d w)]. reflexivity.
Qed.
Lemma sgv_dsp_alive e w : sgv (dsp_alive e w) = sgv w. Proof. reflexivity. Qed.
Lemma sgv_dsp_xlocals e w : sgv (dsp_xlocals e w) = sgv w. Proof. reflexivity. Qed.
Lemma sgv_reserve id w : sgv (reserve id w) = sgv w.
Proof. unfold reserve, bind_id. destruct (memN id (bound w)); reflexivity. Qed.

(* membership in association lists after aset / aremove, by values *)
Lemma in_aset_val {V} k (v : V) l x : In x (aset k v l) -> In x l \/ x = (k, v).
Proof.
  induction l as [|[k' v'] l IH]; cbn [aset]; [intros [<-|[]]; auto|].
  destruct (N.eqb k k'); cbn [In]; [intros [<-|H]; auto|intros [<-|H]; [auto|destruct (IH H); auto]].
Qed.
Lemma in_aremove_val {V} k (l : list (N * V)) x : In x (aremove k l) -> In x l.
Proof. induction l as [|[k' v'] l IH]; cbn [aremove]; [auto|]. destruct (N.eqb k k'); cbn [In]; [auto|intros [<-|H]; auto]. Qed.

(* handles *)
Lemma sg_handle_clone h w : sg_ok w (handle_clone h w).
Proof.
  destruct h as [s|g s]; cbn; [apply sg_refl|]. unfold sig_clone. destruct (alookup g (sigs w)) as [[e n]|] eqn:E; [|apply sg_refl].
  split; [apply incl_refl|]. unfold sents. cbn [sigs gc_chan set]. intros x Hx. left. apply in_app_or in Hx. apply in_or_app.
  destruct Hx as [Hx|Hx]; [left|right; exact Hx]. apply in_map_iff in Hx. destruct Hx as ([g' [e' n']] & <- & Hin).
  apply in_aset_val in Hin. destruct Hin as [Hin|Heq]; [apply in_map_iff; eexists; split; [|exact Hin]; reflexivity|].
  inversion Heq; subst. apply in_map_iff. exists (g, (e, n)). split; [reflexivity|apply alookup_In; exact E].
Qed.
Lemma sg_handle_drop h w : sg_ok w (handle_drop h w).
Proof.
  destruct h as [s|g s]; cbn; [apply sg_refl|]. unfold sig_drop. destruct (alookup g (sigs w)) as [[e n]|] eqn:E; [|apply sg_refl].
  assert (He : In e (map (fun x => fst (snd x)) (sigs w))) by (apply in_map_iff; exists (g, (e, n)); split; [reflexivity|apply alookup_In; exact E]).
  destruct (N.leb n 1); (split; [apply incl_refl|]); unfold sents; cbn [sigs gc_chan set]; intros x Hx; left; apply in_app_or in Hx; apply in_or_app.
  - destruct Hx as [Hx|Hx].
    + left. apply in_map_iff in Hx. destruct Hx as (y & <- & Hin). apply in_aremove_val in Hin. apply in_map_iff. eexists; split; [reflexivity|exact Hin].
    + apply in_app_or in Hx. destruct Hx as [Hx|[<-|[]]]; [right; exact Hx|left; exact He].
  - destruct Hx as [Hx|Hx]; [left|right; exact Hx]. apply in_map_iff in Hx. destruct Hx as ([g' [e' n']] & <- & Hin).
    apply in_aset_val in Hin. destruct Hin as [Hin|Heq]; [apply in_map_iff; eexists; split; [|exact Hin]; reflexivity|]. inversion Heq; subst. exact He.
Qed.
Lemma sg_handles_drop hs : forall w, sg_ok w (handles_drop hs w).
Proof. induction hs as [|h hs IH]; intros w; cbn; [apply sg_refl|]. eapply sg_trans; [apply sg_handle_drop|apply IH]. Qed.
Lemma sg_sig_new e w : sg_ok w (snd (sig_new e w)).
Proof.
  unfold sig_new. cbn [snd]. split; [cbn [g_auto set]; intros x Hx; right; exact Hx|].
  unfold sents. cbn [sigs gc_chan g_auto set]. intros x Hx. apply in_app_or in Hx. destruct Hx as [Hx|Hx].
  - rewrite map_app in Hx. apply in_app_or in Hx. destruct Hx as [Hx|[<-|[]]]; [left; apply in_or_app; left; exact Hx|right; left; reflexivity].
  - left. apply in_or_app. right. exact Hx.
Qed.

Lemma sg_revoke_one s t w : sg_ok w (revoke_one s t w).
Proof.
  assert (Hent : forall e rt, sg_ok w (if is_alive e w then
             match alookup e (ereactors w) with
             | Some l => let (d, k) := er_remove rt s l in handles_drop d (w <| ereactors := aset e k (ereactors w) |>)
             | None => w end else w)).
  { intros e rt. destruct (is_alive e w); [|apply sg_refl]. destruct (alookup e (ereactors w)) as [l|]; [|apply sg_refl].
    destruct (er_remove rt s l) as [d k]. eapply sg_trans; [|apply sg_handles_drop]. sg_eq_tac. }
  assert (Hcomp : forall kd c, sg_ok w (comp_revoke kd c s w)).
  { intros kd c. unfold comp_revoke. destruct (alookup c (comp_tbl w)) as [[[i m] r]|]; [|apply sg_refl].
    destruct (remove_first s match kd with KIns => i | KMut => m | KRem => r end) as [o l'].
    destruct (match kd with KIns => (l', m, r) | KMut => (i, l', r) | KRem => (i, m, l') end) as [[i' m'] r'].
    destruct o as [h|]; (destruct i'; [destruct m'; [destruct r'|]|]); first [sg_eq_tac | (eapply sg_trans; [|apply sg_handle_drop]; sg_eq_tac)]. }
  destruct t; cbn [revoke_one]; try apply Hent; try apply Hcomp.
  - destruct (tbl_revoke ty s (bc_tbl w)) as [o t']. destruct o; first [sg_eq_tac | (eapply sg_trans; [|apply sg_handle_drop]; sg_eq_tac)].
  - destruct (tbl_revoke ty s (any_tbl w)) as [o t']. destruct o; first [sg_eq_tac | (eapply sg_trans; [|apply sg_handle_drop]; sg_eq_tac)].
  - destruct (tbl_revoke r s (res_tbl w)) as [o t']. destruct o; first [sg_eq_tac | (eapply sg_trans; [|apply sg_handle_drop]; sg_eq_tac)].
  - destruct (tbl_revoke e s (desp_tbl w)) as [o t']. destruct o; first [sg_eq_tac | (eapply sg_trans; [|apply sg_handle_drop]; sg_eq_tac)].
Qed.
Lemma sg_revoke_all s ts : forall w, sg_ok w (revoke_all s ts w).
Proof. induction ts as [|t ts IH]; intros w; cbn; [apply sg_refl|]. eapply sg_trans; [apply sg_revoke_one|apply IH]. Qed.
Lemma sg_reg_triggers_cmds h ts : forall w, sg_ok w (fst (reg_triggers_cmds h ts w)).
Proof.
  induction ts as [|t ts IH]; intros w; cbn [reg_triggers_cmds]; [apply sg_refl|].
  destruct (reg_trigger_cmds h t w) as [w1 c1] eqn:E1. pose proof (IH w1) as H2. destruct (reg_triggers_cmds h ts w1) as [w2 c2]. cbn [fst] in *.
  eapply sg_trans; [|exact H2].
  destruct t; cbn in E1; try (inversion E1; subst; apply sg_handle_clone).
  destruct (is_alive e w); inversion E1; subst; [apply sg_handle_clone|apply sg_refl].
Qed.
Lemma sg_dsp_ereactors e w : sg_ok w (dsp_ereactors e w).
Proof.
  unfold dsp_ereactors. destruct (alookup e (ereactors w)) as [l|]; [|sg_eq_tac].
  eapply sg_trans; [apply (sg_handles_drop (map snd l) w)|]. sg_eq_tac.
Qed.
Lemma sg_despawn e w : sg_ok w (despawn e w).
Proof.
  unfold despawn. destruct (negb (is_alive e w)); [apply sg_refl|].
  eapply sg_trans; [apply sg_eq, sgv_dsp_alive|]. eapply sg_trans; [apply sg_eq, sgv_dsp_comps|]. eapply sg_trans; [apply sg_eq, sgv_dsp_storage|].
  eapply sg_trans; [apply sg_dsp_ereactors|]. eapply sg_trans; [apply sg_eq, sgv_dsp_tracker|]. eapply sg_trans; [apply sg_eq, sgv_dsp_data|].
  apply sg_eq, sgv_dsp_xlocals.
Qed.
Lemma sg_try_cleanup d w : sg_ok w (try_cleanup_data_entity d w).
Proof.
  unfold try_cleanup_data_entity. destruct (negb (is_alive d w)); [apply sg_refl|].
  destruct (alookup d (dataents w)) as [[ty p cnt|ty t p cnt|ty p]|]; try apply sg_refl.
  - match goal with |- sg_ok w (if ?b then despawn d ?w1 else ?w1) => destruct b; [eapply sg_trans; [|apply sg_despawn]|]; sg_eq_tac end.
  - match goal with |- sg_ok w (if ?b then despawn d ?w1 else ?w1) => destruct b; [eapply sg_trans; [|apply sg_despawn]|]; sg_eq_tac end.
Qed.
Lemma sg_run_cleanup cl w : sg_ok w (run_cleanup cl w).
Proof.
  destruct cl; cbn [run_cleanup].
  - apply sg_refl.
  - eapply sg_trans; [|apply sg_despawn]. sg_eq_tac.
  - sg_eq_tac.
  - destruct (snd (cur (tr_de w))) as [h|]; [eapply sg_trans; [|apply sg_handle_drop]|]; sg_eq_tac.
  - eapply sg_trans; [|apply sg_try_cleanup]. sg_eq_tac.
  - eapply sg_trans; [|apply sg_try_cleanup]. sg_eq_tac.
Qed.
Lemma sg_run_setup su t w w' : run_setup su t w = Some w' -> sg_ok w w'.
Proof.
  intros E. destruct su; cbn [run_setup] in E;
    repeat match type of E with match ?x with _ => _ end = _ => destruct x; try discriminate E end; inversion E; subst; sg_eq_tac.
Qed.

Section SgSteps.
Variable P : program.
Lemma sg_act o a w : sg_ok w (fst (act P o a w)).
Proof.
  destruct a; cbn [act];
  repeat match goal with
         | |- context [if ?b then _ else _] => destruct b
         | |- context [match alookup2 ?a ?b ?c with _ => _ end] => destruct (alookup2 a b c)
         | |- context [match alookup ?a ?c with _ => _ end] => destruct (alookup a c) as [[? ?]|]
         | |- context [match ?m with Persistent => _ | _ => _ end] => destruct m
         end; cbn [fst]; try (first [apply sg_refl | sg_eq_tac | (apply sg_eq; apply sgv_reserve)]).
  all: try (destruct (alookup wr (p_wr P)); apply sg_refl).
  all: try (apply sg_eq; change (sgv (reserve s w) = sgv w); apply sgv_reserve).
Qed.
Lemma sg_prim c w : sg_ok w (fst (apply_prim P c w)).
Proof.
  destruct c; cbn [apply_prim]; try apply sg_refl; try sg_eq_tac.
  - destruct (is_alive d w); sg_eq_tac.
  - destruct (tbl_get ty (bc_tbl w)); cbn [fst]; sg_eq_tac.
  - destruct (entity_targets e (REvent ty) w ++ map handle_sys (tbl_get ty (any_tbl w))); cbn [fst]; sg_eq_tac.
  - match goal with |- context [if ?b then _ else _] => destruct b end; cbn [fst]; first [apply sg_refl | sg_eq_tac].
  - destruct (is_alive e w); sg_eq_tac.
  - destruct (is_alive e w); [|sg_eq_tac]. destruct (alookup2 c e (comps w)); sg_eq_tac.
  - apply sg_despawn.
  - apply sg_despawn.
  - destruct (is_alive s w && negb (memN s (spawned w))); sg_eq_tac.
  - destruct (negb (is_alive s w)); [sg_eq_tac|]. destruct (negb (memN s (spawned w))); sg_eq_tac.
  - (* CRegister: prepare the handle (a new signal for the ref-counted modes), clone per trigger, drop it *)
    assert (Hh : forall h w0, sg_ok w0 (fst (let (w1, cs) := reg_triggers_cmds h b w0 in (handle_drop h w1, cs)))).
    { intros h w0. pose proof (sg_reg_triggers_cmds h b w0) as H1. destruct (reg_triggers_cmds h b w0) as [w1 cs]. cbn [fst] in *.
      eapply sg_trans; [exact H1|apply sg_handle_drop]. }
    destruct m; [apply Hh| |].
    + pose proof (sg_sig_new s w) as Hn. destruct (sig_new s w) as [g w1]. cbn [snd] in Hn. eapply sg_trans; [exact Hn|apply Hh].
    + pose proof (sg_sig_new s w) as Hn. destruct (sig_new s w) as [g w1]. cbn [snd] in Hn. eapply sg_trans; [exact Hn|apply Hh].
  - destruct t; cbn [fst]; try apply sg_handle_drop; try sg_eq_tac.
    + apply sg_eq, sgv_comp_push.
    + apply sg_eq, sgv_comp_push.
    + apply sg_eq. rewrite sgv_comp_push. unfold track_removals. destruct (ahas c (removal_checkers w)); reflexivity.
  - destruct (is_alive e w); [destruct (alookup e (ereactors w)); sg_eq_tac|apply sg_handle_drop].
  - apply sg_eq. unfold track_removals. destruct (ahas c (removal_checkers w)); reflexivity.
  - destruct (is_alive e w); [|apply sg_handle_drop].
    match goal with |- context [if ?b then _ else _] => destruct b end; sg_eq_tac.
  - destruct tk as [ts s]. apply sg_revoke_all.
  - apply sg_run_cleanup.
  - destruct (alookup x (p_xr P)) as [[s shape]|]; [destruct (is_alive e w)|]; sg_eq_tac.
  - destruct (alookup x (p_xr P)) as [[s shape]|]; sg_eq_tac.
  - destruct (is_alive e w); sg_eq_tac.
  - destruct (is_alive e w); [|sg_eq_tac]. destruct (alookup e (ereactors w)); [|sg_eq_tac].
    match goal with |- context [if ?b then _ else _] => destruct b end; sg_eq_tac.
  - apply sg_eq, sgv_poll.
Qed.
End SgSteps.

Section SgClosed.
Variable P : program.
Lemma sg_state_bump t w : sg_ok w (state_bump t w).
Proof. apply sg_eq. unfold state_bump. destruct (alookup t (cbs w)); reflexivity. Qed.
Lemma sg_body_begin sd t r c w : sg_ok w (body_begin P sd t r c w).
Proof.
  unfold body_begin. eapply sg_trans; [|apply sg_state_bump].
  unfold body_sample. pose proof (sgv_sample_readers sd (xsys_of P t) w) as H1.
  destruct (sample_readers sd (xsys_of P t) w) as [sm w1]. cbn [snd] in H1. eapply sg_trans; [apply sg_eq; exact H1|].
  destruct (sm_l sm) as [[src [v|]]|]; try sg_eq_tac. destruct (xsys_of P t) as [[x ?]|]; sg_eq_tac.
Qed.
Lemma AutoInv_closed : closed P AutoInv.
Proof.
  constructor.
  - intros e w H. eapply AutoInv_sg; [|exact H]. sg_eq_tac.
  - intros c w H. eapply AutoInv_sg; [apply sg_prim|exact H].
  - intros o a w H. eapply AutoInv_sg; [apply sg_act|exact H].
  - intros c w t su cl w' H E. eapply AutoInv_sg; [|exact H]. apply sg_eq.
    destruct c; try discriminate E; cbn in E; try (inversion E; subst; reflexivity). destruct r; inversion E; subst; reflexivity.
  - (* one collection step: the head leaves the channel, the despawn may send more *)
    intros e r w H EC. unfold gc_step. eapply AutoInv_sg; [apply sg_despawn|].
    intros x Hx. apply H. unfold sents in *. cbn [sigs gc_chan set] in Hx. rewrite EC. apply in_app_or in Hx. apply in_or_app.
    destruct Hx as [Hx|Hx]; [left; exact Hx|right; right; exact Hx].
  - intros w H. eapply AutoInv_sg; [apply sg_eq, sgv_poll|exact H].
  - intros su t w w' H E. eapply AutoInv_sg; [eapply sg_run_setup; eauto|exact H].
  - intros cl w H. eapply AutoInv_sg; [apply sg_run_cleanup|exact H].
  - intros b w H. exact H.
  - intros n w H. exact H.
  - intros t b w H. exact H.
  - intros t k w H _. unfold rn_dropped. eapply AutoInv_sg; [|exact H]. apply sg_eq. cbn [sgv sigs gc_chan g_auto emit set]. exact (sgv_drop_callback t w).
  - intros t k w H _. unfold rn_despawn_missing. eapply AutoInv_sg; [|exact H].
    eapply sg_trans; [apply sg_eq, sgv_drop_callback|]. eapply sg_trans; [apply sg_despawn|]. sg_eq_tac.
  - intros t w H. eapply AutoInv_sg; [apply sg_despawn|exact H].
  - intros t cb b w H _ _. exact H.
  - intros t tk w H. unfold once_finish. destruct (alookup t (cbs w)); [|exact H]. eapply AutoInv_sg; [|exact H]. sg_eq_tac.
  - intros sd t r c w _ H. eapply AutoInv_sg; [apply sg_body_begin|exact H].
  - intros w H. exact H.
Qed.
Lemma AutoInv_init : AutoInv (install_static P init_world).
Proof.
  assert (Hgen : forall l w, sgv w = sgv init_world -> sgv (fold_left (fun w s => (reserve s w) <| storage ::= aset s true |> <| cbs ::= aset s (mkCb None 0 0 false true) |> <| spawned ::= cons s |>) l w) = sgv init_world).
  { induction l as [|s l IH]; intros w H; cbn [fold_left]; [exact H|]. apply IH. etransitivity; [|exact H]. etransitivity; [|apply (sgv_reserve s w)]. reflexivity. }
  eapply AutoInv_sg; [apply sg_eq; apply Hgen; reflexivity|]. intros e [].
Qed.
(* in every state any program can reach, the collector's channel and the signal table hold only entities for which an
   auto-despawn signal was prepared; a reactor registered in persistent mode only never gets one *)
Theorem only_signalled_entities_are_collected fuel w' : run P fuel = Ok w' ->
  forall e, In e (gc_chan w') \/ In e (map (fun x => fst (snd x)) (sigs w')) -> In e (g_auto w').
Proof.
  intros E e He. assert (H : AutoInv w') by (unfold run in E; eapply run_tops_closed; [apply AutoInv_closed|apply AutoInv_init|exact E]).
  apply H. unfold sents. apply in_or_app. destruct He; auto.
Qed.
Theorem AutoInv_exec fuel i w w' : AutoInv w -> exec P fuel i w = Ok w' -> AutoInv w'.
Proof. apply exec_closed. apply AutoInv_closed. Qed.
End SgClosed.

(* ---------- g_auto is written by sig_new only ---------- *)
Definition gav (w : world) := g_auto w.
Lemma gav_sgv w w' : sgv w' = sgv w -> gav w' = gav w.
Proof. unfold sgv, gav. intros H. inversion H. reflexivity. Qed.
Lemma gav_handle_drop h w : gav (handle_drop h w) = gav w.
Proof.
  destruct h as [s|g s]; cbn; [reflexivity|]. unfold sig_drop.
  destruct (alookup g (sigs w)) as [[e n]|]; [|reflexivity]. destruct (N.leb n 1); reflexivity.
Qed.
Lemma gav_handle_clone h w : gav (handle_clone h w) = gav w.
Proof. destruct h as [s|g s]; cbn; [reflexivity|]. unfold sig_clone. destruct (alookup g (sigs w)) as [[e n]|]; reflexivity. Qed.
Lemma gav_handles_drop hs : forall w, gav (handles_drop hs w) = gav w.
Proof. induction hs as [|h hs IH]; intros w; cbn; [reflexivity|]. rewrite IH. apply gav_handle_drop. Qed.
Lemma gav_revoke_one s t w : gav (revoke_one s t w) = gav w.
Proof.
  assert (Hent : forall e rt, gav (if is_alive e w then
             match alookup e (ereactors w) with
             | Some l => let (d, k) := er_remove rt s l in handles_drop d (w <| ereactors := aset e k (ereactors w) |>)
             | None => w end else w) = gav w).
  { intros e rt. destruct (is_alive e w); [|reflexivity]. destruct (alookup e (ereactors w)) as [l|]; [|reflexivity].
    destruct (er_remove rt s l) as [d k]. rewrite gav_handles_drop. reflexivity. }
  assert (Hcomp : forall kd c, gav (comp_revoke kd c s w) = gav w).
  { intros kd c. unfold comp_revoke. destruct (alookup c (comp_tbl w)) as [[[i m] r]|]; [|reflexivity].
    destruct (remove_first s match kd with KIns => i | KMut => m | KRem => r end) as [o l'].
    destruct (match kd with KIns => (l', m, r) | KMut => (i, l', r) | KRem => (i, m, l') end) as [[i' m'] r'].
    destruct o as [h|]; [rewrite gav_handle_drop|]; (destruct i'; [destruct m'; [destruct r'|]|]); reflexivity. }
  destruct t; cbn [revoke_one]; try apply Hent; try apply Hcomp.
  - destruct (tbl_revoke ty s (bc_tbl w)) as [o t']. destruct o; [rewrite gav_handle_drop|]; reflexivity.
  - destruct (tbl_revoke ty s (any_tbl w)) as [o t']. destruct o; [rewrite gav_handle_drop|]; reflexivity.
  - destruct (tbl_revoke r s (res_tbl w)) as [o t']. destruct o; [rewrite gav_handle_drop|]; reflexivity.
  - destruct (tbl_revoke e s (desp_tbl w)) as [o t']. destruct o; [rewrite gav_handle_drop|]; reflexivity.
Qed.
Lemma gav_revoke_all s ts : forall w, gav (revoke_all s ts w) = gav w.
Proof. induction ts as [|t ts IH]; intros w; cbn; [reflexivity|]. rewrite IH. apply gav_revoke_one. Qed.
Lemma gav_reg_triggers_cmds h ts : forall w, gav (fst (reg_triggers_cmds h ts w)) = gav w.
Proof.
  induction ts as [|t ts IH]; intros w; cbn [reg_triggers_cmds]; [reflexivity|].
  destruct (reg_trigger_cmds h t w) as [w1 c1] eqn:E1. destruct (reg_triggers_cmds h ts w1) as [w2 c2] eqn:E2. cbn [fst].
  assert (H1 : gav w1 = gav w).
  { destruct t; cbn in E1; try (inversion E1; subst; apply gav_handle_clone).
    destruct (is_alive e w); inversion E1; subst; [apply gav_handle_clone|reflexivity]. }
  specialize (IH w1). rewrite E2 in IH. cbn [fst] in IH. congruence.
Qed.
Lemma gav_dsp_ereactors e w : gav (dsp_ereactors e w) = gav w.
Proof.
  unfold dsp_ereactors. destruct (alookup e (ereactors w)) as [l|]; [|reflexivity].
  etransitivity; [|apply (gav_handles_drop (map snd l) w)]. reflexivity.
Qed.
Lemma gav_despawn e w : gav (despawn e w) = gav w.
Proof.
  unfold despawn. destruct (negb (is_alive e w)); [reflexivity|].
  rewrite (gav_sgv _ _ (sgv_dsp_xlocals _ _)), (gav_sgv _ _ (sgv_dsp_data _ _)), (gav_sgv _ _ (sgv_dsp_tracker _ _)), gav_dsp_ereactors,
          (gav_sgv _ _ (sgv_dsp_storage _ _)), (gav_sgv _ _ (sgv_dsp_comps _ _)). reflexivity.
Qed.
Lemma gav_try_cleanup d w : gav (try_cleanup_data_entity d w) = gav w.
Proof.
  unfold try_cleanup_data_entity. destruct (negb (is_alive d w)); [reflexivity|].
  destruct (alookup d (dataents w)) as [[ty p cnt|ty t p cnt|ty p]|]; try reflexivity.
  - match goal with |- gav (if ?b then despawn d ?w1 else ?w1) = _ => destruct b; [rewrite gav_despawn|]; reflexivity end.
  - match goal with |- gav (if ?b then despawn d ?w1 else ?w1) = _ => destruct b; [rewrite gav_despawn|]; reflexivity end.
Qed.
Lemma gav_run_cleanup cl w : gav (run_cleanup cl w) = gav w.
Proof.
  destruct cl; cbn [run_cleanup].
  - reflexivity.
  - rewrite gav_despawn. reflexivity.
  - reflexivity.
  - destruct (snd (cur (tr_de w))) as [h|]; [rewrite gav_handle_drop|]; reflexivity.
  - rewrite gav_try_cleanup. reflexivity.
  - rewrite gav_try_cleanup. reflexivity.
Qed.
Section GavSteps.
Variable P : program.
(* the only command that prepares a signal is a registration in a ref-counted mode *)
Theorem signal_prepared_only_by_refcounted_registration c w :
  g_auto (fst (apply_prim P c w)) = g_auto w \/
  exists b s m, c = CRegister b s m /\ m <> Persistent /\ g_auto (fst (apply_prim P c w)) = s :: g_auto w.
Proof.
  change (gav (fst (apply_prim P c w)) = gav w \/ exists b s m, c = CRegister b s m /\ m <> Persistent /\ gav (fst (apply_prim P c w)) = s :: gav w).
  destruct c; cbn [apply_prim]; try (left; reflexivity).
  - left. destruct (is_alive d w); reflexivity.
  - left. destruct (tbl_get ty (bc_tbl w)); reflexivity.
  - left. destruct (entity_targets e (REvent ty) w ++ map handle_sys (tbl_get ty (any_tbl w))); reflexivity.
  - left. match goal with |- context [if ?b then _ else _] => destruct b end; reflexivity.
  - left. destruct (is_alive e w); reflexivity.
  - left. destruct (is_alive e w); [|reflexivity]. destruct (alookup2 c e (comps w)); reflexivity.
  - left. apply gav_despawn.
  - left. apply gav_despawn.
  - left. destruct (is_alive s w && negb (memN s (spawned w))); reflexivity.
  - left. destruct (negb (is_alive s w)); [reflexivity|]. destruct (negb (memN s (spawned w))); reflexivity.
  - assert (Hh : forall h w0, gav (fst (let (w1, cs) := reg_triggers_cmds h b w0 in (handle_drop h w1, cs))) = gav w0).
    { intros h w0. pose proof (gav_reg_triggers_cmds h b w0) as H1. destruct (reg_triggers_cmds h b w0) as [w1 cs]. cbn [fst] in *.
      rewrite gav_handle_drop. exact H1. }
    destruct m; [left; apply Hh| |]; right; exists b, s; eexists; (split; [reflexivity|]); (split; [discriminate|]); unfold sig_new; rewrite Hh; reflexivity.
  - left. destruct t; cbn [fst]; try apply gav_handle_drop; try reflexivity.
    + apply (gav_sgv _ _ (sgv_comp_push _ _ _ _)).
    + apply (gav_sgv _ _ (sgv_comp_push _ _ _ _)).
    + rewrite (gav_sgv _ _ (sgv_comp_push _ _ _ _)). unfold track_removals. destruct (ahas c (removal_checkers w)); reflexivity.
  - left. destruct (is_alive e w); [destruct (alookup e (ereactors w)); reflexivity|apply gav_handle_drop].
  - left. unfold track_removals. destruct (ahas c (removal_checkers w)); reflexivity.
  - left. destruct (is_alive e w); [|apply gav_handle_drop].
    match goal with |- context [if ?b then _ else _] => destruct b end; reflexivity.
  - left. destruct tk as [ts s]. apply gav_revoke_all.
  - left. apply gav_run_cleanup.
  - left. destruct (alookup x (p_xr P)) as [[s shape]|]; [destruct (is_alive e w)|]; reflexivity.
  - left. destruct (alookup x (p_xr P)) as [[s shape]|]; reflexivity.
  - left. destruct (is_alive e w); reflexivity.
  - left. destruct (is_alive e w); [|reflexivity]. destruct (alookup e (ereactors w)); [|reflexivity].
    match goal with |- context [if ?b then _ else _] => destruct b end; reflexivity.
  - left. apply (gav_sgv _ _ (sgv_poll w)).
Qed.
End GavSteps.
