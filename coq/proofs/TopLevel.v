(* TopLevel.v — what the two interpreter invariants say when control is back at the top level (between two
   top-level operations of a program): quiescence (C11), no panic (C18), nothing left unresolved (C02 d). *)
From Cobweb Require Import Machine.
From CobwebProofs Require Import StateInv ListLemmas Closed RunnerInv Frames OnceInv OnceRuns PayloadSpec TicketInv.
Require Import Coq.Sorting.Permutation.

Section Top.
Variable P : program.

Definition TI0 (w : world) : Prop := TX flags_off (buffer w ++ []) w.

Lemma init_TI : TI0 (install_static P init_world) .
Proof.
  pose proof (sa_init P) as Hsa. destruct (init_invcore P) as (HI & HC & HB).
  unfold TI0, TX. rewrite HB. cbn [app].
  unfold install_static in *.
  set (step := fun (w : world) (s : N) => (reserve s w) <| storage ::= aset s true |> <| cbs ::= aset s (mkCb None 0 0 false true) |> <| spawned ::= cons s |>) in *.
  (* the static installation touches neither trackers nor flags, and every callback it creates is fresh *)
  assert (Hgen : forall l w,
            kview w = kview init_world -> (forall t cb, alookup t (cbs w) = Some cb -> cb_taken cb = false) -> Cinv w ->
            let w' := fold_left step l w in
            kview w' = kview init_world /\ (forall t cb, alookup t (cbs w') = Some cb -> cb_taken cb = false) /\ Cinv w').
  { induction l as [|s l IH]; intros w HK Hnt HCi; cbn [fold_left]; [auto|]. apply IH.
    - subst step. cbn. rewrite <- HK. apply kview_reserve.
    - intros t cb Hcb. subst step. assert (Hr : oview (reserve s w) = oview w) by apply oview_reserve.
      pose proof (f_equal snd Hr) as Hr3. cbn [snd oview] in Hr3.
      change (alookup t (aset s (mkCb None 0 0 false true) (cbs (reserve s w))) = Some cb) in Hcb. rewrite Hr3 in Hcb.
      destruct (N.eq_dec t s) as [->|Hne]; [rewrite alookup_aset_same in Hcb; inversion Hcb; reflexivity|].
      rewrite alookup_aset_other in Hcb by exact Hne. eapply Hnt; eauto.
    - intros t Ht. subst step. assert (Hr : oview (reserve s w) = oview w) by apply oview_reserve.
      pose proof (f_equal snd Hr) as Hr3. pose proof (f_equal (fun x => fst (fst x)) Hr) as Hr1. cbn [fst snd oview] in Hr3, Hr1.
      change (alookup t (aset s true (storage (reserve s w))) <> None) in Ht.
      change (alookup t (aset s (mkCb None 0 0 false true) (cbs (reserve s w))) <> None).
      rewrite Hr3. rewrite Hr1 in Ht.
      destruct (N.eq_dec t s) as [->|Hne]; [rewrite alookup_aset_same; discriminate|].
      rewrite alookup_aset_other in Ht by exact Hne. rewrite alookup_aset_other by exact Hne. apply HCi. exact Ht. }
  destruct (Hgen (map snd (p_wr P) ++ map (fun x => fst (snd x)) (p_xr P)) init_world) as (HK & Hnt & HCi);
    [reflexivity|intros t cb Hcb; discriminate Hcb|intros t Ht; exfalso; apply Ht; reflexivity|].
  destruct (kview_proj _ _ HK) as (K1 & K2 & K3 & K4 & K5 & K6).
  split; [|split; [|split; [|split; [exact HCi|split; [split; [exact Hsa|exact (ic_keys _ _ HI)]|intros t cb Hcb Ho; rewrite (Hnt _ _ Hcb); exact (proj1 (proj1 (proj2 (init_counts P)) t cb Hcb))]]]]].
  - split.
    + constructor; cbn [flat_map]; unfold keys; rewrite ?K2, ?K3, ?K4, ?K5; cbn; try constructor. intros k [].
    + eapply GInv_kview; [exact HK|]. constructor; cbn; try (intros; contradiction); constructor.
  - unfold flags_off. rewrite K2, K3, K4, K5. cbn. auto.
  - intros t cb Hcb Honce Htk. apply Hnt in Hcb. congruence.
Qed.

(* both invariants, threaded through the sequence of top-level operations *)
Theorem tops_invariant fuel : forall l i w,
  InvCore [] w -> counter w = 0 -> buffer w = [] -> TI0 w ->
  match run_tops P fuel i l w with
  | Ok w' => InvCore [] w' /\ counter w' = 0 /\ buffer w' = [] /\ TI0 w'
  | OutOfFuel => True
  | Stuck n => n = 4
  end.
Proof.
  induction l as [|o l IHl]; intros i w HI HC HB HT; cbn [run_tops]; [auto|].
  pose proof (exec_ticket P fuel (ITop i o) [] w HT) as Hp.
  destruct (exec P fuel (ITop i o) w) as [w1| |n] eqn:E1; cbn [bind]; [|exact I|exact Hp].
  assert (HPre : PreR (ITop i o) [] [] w).
  { unfold PreR. split; [exact HI|]. split; [apply incl_refl|]. split; [rewrite HB; apply held_ok_nil|intros _; exact HB]. }
  pose proof (exec_runner P fuel _ [] [] w w1 E1 HPre) as (P1 & P2 & (P3 & _) & P4).
  apply IHl; [exact P1|apply P3; exact HC|apply held_ok_empty; exact P2|exact (proj1 Hp)].
Qed.

Lemma keys_nil {A} (t : trk A) : Permutation (keys t) [] -> prepared t = [].
Proof. unfold keys. intros H. apply Permutation_sym, Permutation_nil in H. destruct (prepared t); [reflexivity|discriminate H]. Qed.

(* C11: when the outermost flush that started a reaction tree returns, the framework holds no residue of it *)
Definition quiescent (w : world) : Prop :=
  counter w = 0 /\ buffer w = [] /\ (forall t, alookup t (storage w) <> Some false)
  /\ prepared (tr_ev w) = [] /\ prepared (tr_se w) = [] /\ prepared (tr_er w) = [] /\ prepared (tr_de w) = []
  /\ reacting (tr_ev w) = false /\ reacting (tr_se w) = false /\ reacting (tr_er w) = false /\ reacting (tr_de w) = false
  /\ snd (cur (tr_de w)) = None.

Theorem run_quiescent_full fuel w' : run P fuel = Ok w' -> quiescent w'.
Proof.
  intros E. unfold run in E. destruct (init_invcore P) as (HI & HC & HB).
  pose proof (tops_invariant fuel (p_top P) 0 _ HI HC HB init_TI) as Hp. rewrite E in Hp.
  destruct Hp as (I' & C' & B' & (T & F & _)). unfold quiescent. rewrite B' in T. cbn [app] in T.
  destruct T as [[T1 T2 T3 T4 _ _ _] _]. cbn [flat_map] in *. destruct F as (F1 & F2 & F3 & F4 & F5).
  split; [exact C'|]. split; [exact B'|]. split; [intros t Ht; exact (ic_taken _ _ I' t Ht)|].
  split; [apply keys_nil; exact T4|]. split; [apply keys_nil; exact T1|]. split; [apply keys_nil; exact T2|]. split; [apply keys_nil; exact T3|].
  auto 10.
Qed.

(* C18 (no panic): the only way a program can go wrong is Bevy's own B0003 (a spawn command whose reserved entity was
   despawned before the command was applied), never a missing tracker entry, a double `start`, or a missing callback *)
Theorem run_never_panics fuel n : run P fuel = Stuck n -> n = 4.
Proof.
  intros E. unfold run in E. destruct (init_invcore P) as (HI & HC & HB).
  pose proof (tops_invariant fuel (p_top P) 0 _ HI HC HB init_TI) as Hp. rewrite E in Hp. exact Hp.
Qed.

(* C03/C04: the ghost assertion at the start of every body (Machine.exec, IBody: Stuck 5 unless
   fresh_claim_b t w) never fails: when a body starts, the entries the readers can see are exactly the entries claimed by
   that run's own setup, for the system that is running *)
Theorem readers_expose_own_claim fuel : run P fuel <> Stuck 5.
Proof. intros E. apply run_never_panics in E. discriminate E. Qed.

(* C03: every claim a setup ever made is empty (manual run: nothing parked, nothing claimed) or is literally the entry
   list parked by one command, under that command's ticket and for that command's system; tickets are never reused *)
Theorem run_claims_exact fuel w' : run P fuel = Ok w' ->
  Forall (claim_ok (g_prep w')) (g_claim w') /\ NoDup (ptickets (g_prep w')).
Proof.
  intros E. unfold run in E. destruct (init_invcore P) as (HI & HC & HB).
  pose proof (tops_invariant fuel (p_top P) 0 _ HI HC HB init_TI) as Hp. rewrite E in Hp.
  destruct Hp as (_ & _ & _ & ((_ & G) & _)). split; [exact (g_exact _ _ G)|exact (g_uniq _ _ G)].
Qed.

(* C02 / C05: over a whole run, every command that parked event data was set up exactly once — by the run it caused or
   by the abort path (cleanup_on_abort) when its target had vanished; none is lost and none is set up twice.  Setup is
   followed by cleanup in both paths (IRun, IAbort), which is where the payload's reader count is decremented. *)
Theorem every_parked_command_is_set_up_exactly_once fuel w' : run P fuel = Ok w' ->
  Permutation (ptickets (g_prep w')) (ctickets (g_claim w')) /\ NoDup (ctickets (g_claim w')).
Proof.
  intros E. unfold run in E. destruct (init_invcore P) as (HI & HC & HB).
  pose proof (tops_invariant fuel (p_top P) 0 _ HI HC HB init_TI) as Hp. rewrite E in Hp.
  destruct Hp as (_ & _ & HB' & ((_ & G) & _)). pose proof (g_part _ _ G) as HP. rewrite HB' in HP. cbn [app flat_map] in HP. rewrite app_nil_r in HP.
  split; [exact HP|]. eapply Permutation_NoDup; [exact HP|exact (g_uniq _ _ G)].
Qed.

Ltac bind_inv E w1 E1 :=
  match type of E with
  | bind ?r _ = Ok _ => destruct r as [w1| |] eqn:E1; cbn [bind] in E; [|discriminate E|discriminate E]
  end.
(* C15: once the wrapper of a one-off reactor has run its inner system, the reactor entity is dead *)
Theorem once_entity_gone f t cl w w' cb tk : alookup t (cbs w) = Some cb -> cb_once cb = Some tk -> cb_taken cb = false ->
  exec P f (ICallback t cl) w = Ok w' -> is_alive t w' = false.
Proof.
  intros H1 H2 H3 E. destruct f as [|f]; [discriminate E|]. rewrite (unspent_wrapper_steps P f t cl w cb tk H1 H2 H3) in E.
  bind_inv E w1 E1. bind_inv E w2 E2. inversion E; subst. clear E.
  assert (Ha2 : alive w2 = alive (despawn t w1)).
  { destruct f as [|f1]; [discriminate E2|]. cbn [exec] in E2. bind_inv E2 w3 E3.
    destruct f1 as [|f2]; [discriminate E3|]. cbn [exec prepare_cmd] in E3.
    destruct tk as [ts s]. cbn [apply_prim] in E3.
    destruct f2 as [|f3]; [discriminate E3|]. cbn [exec] in E3. inversion E3; subst. clear E3.
    cbn [exec] in E2. inversion E2; subst. exact (f_equal snd (sview_revoke_all s ts (despawn t w1))). }
  assert (Ha : alive (once_finish t tk w2) = alive w2) by (unfold once_finish; destruct (alookup t (cbs w2)); reflexivity).
  unfold is_alive. rewrite Ha, Ha2. apply dead_after_despawn.
Qed.

(* C15: over whole runs, for every reactor that exists or ever existed: the inner system of a one-off wrapper was started
   at most once (g_oruns gets one entry per start, written by body_sample next to the EvRun line) *)
Lemma init_oruns : g_oruns (install_static P init_world) = [].
Proof.
  unfold install_static.
  assert (Hgen : forall l w, g_oruns w = [] -> g_oruns (fold_left (fun w s => (reserve s w) <| storage ::= aset s true |> <| cbs ::= aset s (mkCb None 0 0 false true) |> <| spawned ::= cons s |>) l w) = []).
  { induction l as [|s l IH]; intros w H; cbn [fold_left]; [exact H|]. apply IH. cbn [g_oruns set]. rewrite (g_oruns_kview _ _ (kview_reserve s w)). exact H. }
  apply Hgen. reflexivity.
Qed.
Theorem once_inner_starts_at_most_once fuel w' : run P fuel = Ok w' -> forall t, (oc t w' <= 1)%nat.
Proof.
  intros E t.
  assert (HO : OH t w').
  { unfold run in E. eapply run_tops_closed; [apply OH_closed| |exact E].
    destruct (init_counts P) as (_ & _ & J3). unfold OH, oc. rewrite init_oruns. split; [intros Hn; split; [reflexivity|apply J3; exact Hn]|left; reflexivity]. }
  destruct HO as [_ [Hz|[Ho _]]]; lia.
Qed.
(* ... and while its record exists its Local is 0 before the inner system is taken and at most 1 afterwards *)
Theorem once_record_bound fuel w' : run P fuel = Ok w' -> forall t, OR t w'.
Proof.
  intros E t. unfold run in E. eapply run_tops_closed; [apply OR_closed| |exact E].
  intros cb0 Hcb0 _. rewrite (proj1 (proj1 (proj2 (init_counts P)) t cb0 Hcb0)). destruct (cb_taken cb0); [lia|reflexivity].
Qed.
End Top.
