(* OnceRuns.v — C15: the inner system of a `once` reactor runs at most once.  Closed invariant per system t:
   a record with a once-wrapper has Local = 0 while the inner system has not been taken, and Local <= 1 afterwards. *)
From Cobweb Require Import Machine.
From CobwebProofs Require Import ListLemmas Closed RunnerInv Frames OnceInv.

Definition OR (t : ent) (w : world) : Prop :=
  forall cb, alookup t (cbs w) = Some cb -> cb_once cb <> None -> if cb_taken cb then cb_runno cb <= 1 else cb_runno cb = 0.

Lemma OR_stable t w w' : cb_stable t w w' -> OR t w -> OR t w'.
Proof. intros [_ [E|E]] H cb Hcb; [apply H; congruence|congruence]. Qed.
Lemma OR_cbs_eq t w w' : cbs w' = cbs w -> OR t w -> OR t w'.
Proof. intros E H cb Hcb. apply H. congruence. Qed.
Lemma OR_aset_fresh t s o w : OR t w -> OR t (w <| cbs := aset s (mkCb o 0 0 false true) (cbs w) |>).
Proof.
  intros H cb Hcb Ho. cbn [cbs set] in Hcb. destruct (N.eq_dec t s) as [->|Hne].
  - rewrite alookup_aset_same in Hcb. inversion Hcb; subst. cbn. reflexivity.
  - rewrite alookup_aset_other in Hcb by exact Hne. apply H; assumption.
Qed.

Section ORSteps.
Variable P : program.

Lemma OR_prim t c w : OR t w -> OR t (fst (apply_prim P c w)).
Proof.
  intros H. destruct c; try (eapply OR_stable; [apply cb_stable_prim_any; discriminate|exact H]).
  - cbn [apply_prim fst]. destruct (is_alive s w && negb (memN s (spawned w))); [|exact H].
    intros cb Hcb. cbn [cbs set] in Hcb. revert cb Hcb. change (OR t (w <| cbs := aset s (mkCb None 0 0 false true) (cbs w) |>)). apply OR_aset_fresh. exact H.
  - cbn [apply_prim fst]. destruct (negb (is_alive s w)); [apply (OR_cbs_eq t w); [reflexivity|exact H]|]. destruct (negb (memN s (spawned w))); [|exact H].
    intros cb Hcb. cbn [cbs set] in Hcb. revert cb Hcb. change (OR t (w <| cbs := aset s (mkCb (Some tk) 0 0 false true) (cbs w) |>)). apply OR_aset_fresh. exact H.
Qed.

Lemma OR_closed t : closed P (OR t).
Proof.
  constructor.
  - intros e w H. apply (OR_cbs_eq t w); [reflexivity|exact H].
  - intros c w H. apply OR_prim. exact H.
  - intros o a w H. eapply OR_stable; [|exact H]. apply cb_stable_oview. apply oview_act.
  - intros c w t0 su cl w' H E. eapply OR_stable; [|exact H]. apply cb_stable_oview.
    destruct c; try discriminate E; cbn in E; try (inversion E; subst; reflexivity). destruct r; inversion E; subst; reflexivity.
  - intros e r w H _. unfold gc_step. eapply OR_stable; [|exact H]. eapply cb_stable_trans; [|apply cb_stable_despawn]. apply cb_stable_oview. reflexivity.
  - intros w H. eapply OR_stable; [|exact H]. apply cb_stable_oview. apply oview_poll.
  - intros su t0 w w' H E. eapply OR_stable; [|exact H]. apply cb_stable_oview. eapply oview_run_setup; eauto.
  - intros cl w H. eapply OR_stable; [|exact H]. apply cb_stable_run_cleanup.
  - intros b w H. exact H.
  - intros n w H. exact H.
  - intros t0 b w H. exact H.
  - intros t0 k w H _. unfold rn_dropped. eapply OR_stable; [|exact H]. eapply cb_stable_trans; [apply cb_stable_drop_callback|]. apply cb_stable_oview. reflexivity.
  - intros t0 k w H _. unfold rn_despawn_missing. eapply OR_stable; [|exact H].
    eapply cb_stable_trans; [apply cb_stable_drop_callback|]. eapply cb_stable_trans; [apply cb_stable_despawn|]. apply cb_stable_oview. reflexivity.
  - intros t0 w H. eapply OR_stable; [|exact H]. apply cb_stable_despawn.
  - (* marking: only an untaken once wrapper is marked taken *)
    intros t0 cb b w H Hcb Hb cb' Hcb' Ho. unfold cb_bump in Hcb'. cbn [cbs set] in Hcb'.
    destruct (N.eq_dec t t0) as [->|Hne].
    + rewrite alookup_aupd_same, Hcb in Hcb'. inversion Hcb'; subst. cbn in Ho |- *.
      unfold bump_ok in Hb. destruct (cb_once cb) eqn:Eo; [|contradiction]. apply andb_true_iff in Hb. destruct Hb as [-> Htk].
      apply negb_true_iff in Htk. specialize (H cb Hcb ltac:(rewrite Eo; discriminate)). rewrite Htk in H. rewrite H. lia.
    + rewrite alookup_aupd_other in Hcb' by exact Hne. apply H; assumption.
  - intros t0 tk w H. unfold once_finish. destruct (alookup t0 (cbs w)) as [cb0|] eqn:Ecb; [|exact H].
    intros cb Hcb Ho. cbn [cbs set emit] in Hcb. destruct (N.eq_dec t t0) as [->|Hne].
    + rewrite alookup_aupd_same, Ecb in Hcb. inversion Hcb; subst. cbn [cb_once cb_taken cb_runno] in Ho |- *. specialize (H cb0 Ecb Ho).
      destruct (cb_once cb0); [|contradiction]. destruct (cb_taken cb0); [exact H|rewrite H; lia].
    + rewrite alookup_aupd_other in Hcb by exact Hne. apply H; assumption.
  - (* the body: guarded by once_ok_b *)
    intros sd t0 r c w HG H. unfold body_guard in HG. apply andb_true_iff in HG. destruct HG as [_ HG].
    unfold body_begin. assert (Hcbs : cbs (body_sample P sd t0 r c w) = cbs w) by exact (f_equal snd (oview_body_sample P sd t0 r c w)).
    unfold state_bump. rewrite Hcbs. destruct (alookup t0 (cbs w)) as [cb0|] eqn:Ecb; [|apply (OR_cbs_eq t w); [exact Hcbs|exact H]].
    intros cb Hcb Ho. cbn [cbs set] in Hcb. rewrite ?Hcbs in Hcb. destruct (N.eq_dec t t0) as [->|Hne].
    + rewrite alookup_aupd_same, Ecb in Hcb. inversion Hcb; subst. cbn in Ho |- *.
      unfold once_ok_b in HG. rewrite Ecb in HG. destruct (cb_once cb0); [|contradiction]. apply andb_true_iff in HG. destruct HG as [-> Hz]. apply N.eqb_eq in Hz. rewrite Hz. lia.
    + rewrite alookup_aupd_other in Hcb by exact Hne. apply H; assumption.
  - intros w H. exact H.
Qed.
End ORSteps.

(* ---------- over the whole history: the inner system of a one-off reactor starts at most once ---------- *)
Definition oc (t : ent) (w : world) : nat := count_occ N.eq_dec (g_oruns w) t.
Definition OH (t : ent) (w : world) : Prop :=
  (~ In t (spawned w) -> oc t w = O /\ alookup t (cbs w) = None) /\
  (oc t w = O \/ (oc t w = 1%nat /\ forall cb, alookup t (cbs w) = Some cb -> cb_once cb <> None -> 1 <= cb_runno cb)).

Lemma g_oruns_kview w w' : kview w' = kview w -> g_oruns w' = g_oruns w.
Proof. intros H. exact (f_equal (fun x => snd (snd x)) H). Qed.

Lemma OH_stable t w w' : g_oruns w' = g_oruns w -> cb_stable t w w' -> OH t w -> OH t w'.
Proof.
  intros HG [HI HC] [H1 H2]. unfold OH, oc in *. rewrite HG. split.
  - intros Hn. assert (Hn0 : ~ In t (spawned w)) by (intros Hin; apply Hn, HI, Hin). destruct (H1 Hn0) as [Hz Hc]. split; [exact Hz|].
    destruct HC as [E|E]; congruence.
  - destruct H2 as [Hz|[Ho Hr]]; [left; exact Hz|right]. split; [exact Ho|]. intros cb Hcb. destruct HC as [E|E]; [apply Hr; congruence|congruence].
Qed.
Lemma OH_cbs_upd t t0 cb0 cb1 w : alookup t0 (cbs w) = Some cb0 -> cb_once cb1 = cb_once cb0 -> cb_runno cb1 = cb_runno cb0 ->
  OH t w -> OH t (w <| cbs := aupd t0 cb1 (cbs w) |>).
Proof.
  intros E0 Ho Hr [H1 H2]. unfold OH, oc in *. cbn [g_oruns cbs spawned set]. split.
  - intros Hn. destruct (H1 Hn) as [Hz Hc]. split; [exact Hz|]. destruct (N.eq_dec t t0) as [->|Hne]; [congruence|]. rewrite alookup_aupd_other by exact Hne. exact Hc.
  - destruct H2 as [Hz|[Hone Hk]]; [left; exact Hz|right]. split; [exact Hone|]. intros cb Hcb Honce. destruct (N.eq_dec t t0) as [->|Hne].
    + rewrite alookup_aupd_same, E0 in Hcb. inversion Hcb; subst. rewrite Hr. apply (Hk cb0 E0). rewrite <- Ho. exact Honce.
    + rewrite alookup_aupd_other in Hcb by exact Hne. apply Hk; assumption.
Qed.

Section OHSteps.
Variable P : program.

Lemma g_oruns_run_cleanup cl w : g_oruns (run_cleanup cl w) = g_oruns w.
Proof.
  destruct cl; cbn [run_cleanup].
  - reflexivity.
  - rewrite (g_oruns_kview _ _ (kview_despawn _ _)). reflexivity.
  - reflexivity.
  - destruct (snd (cur (tr_de w))) as [h|]; [rewrite (g_oruns_kview _ _ (kview_handle_drop _ _))|]; reflexivity.
  - rewrite (g_oruns_kview _ _ (kview_try_cleanup _ _)). reflexivity.
  - rewrite (g_oruns_kview _ _ (kview_try_cleanup _ _)). reflexivity.
Qed.
Lemma g_oruns_prim c w : g_oruns (fst (apply_prim P c w)) = g_oruns w.
Proof.
  destruct (is_cleanup_cmd c) eqn:E; [|exact (g_oruns_kview _ _ (kview_prim P c w E))].
  destruct c; try discriminate E. cbn [apply_prim fst]. apply g_oruns_run_cleanup.
Qed.

Lemma OH_fresh t s o w : ~ In s (spawned w) -> OH t w ->
  OH t (w <| storage := aset s true (storage w) |> <| cbs := aset s (mkCb o 0 0 false true) (cbs w) |> <| spawned ::= cons s |>).
Proof.
  intros Hs [H1 H2]. unfold OH, oc in *. cbn [g_oruns cbs spawned set]. split.
  - intros Hn. assert (Hn0 : ~ In t (spawned w)) by (intros Hin; apply Hn; right; exact Hin). destruct (H1 Hn0) as [Hz Hc]. split; [exact Hz|].
    destruct (N.eq_dec t s) as [->|Hne]; [exfalso; apply Hn; left; reflexivity|]. rewrite alookup_aset_other by exact Hne. exact Hc.
  - destruct (N.eq_dec t s) as [->|Hne].
    + left. exact (proj1 (H1 Hs)).
    + destruct H2 as [Hz|[Hone Hk]]; [left; exact Hz|right]. split; [exact Hone|]. intros cb Hcb. rewrite alookup_aset_other in Hcb by exact Hne. apply Hk. exact Hcb.
Qed.

Lemma OH_prim t c w : OH t w -> OH t (fst (apply_prim P c w)).
Proof.
  intros H. destruct c; try (eapply OH_stable; [apply g_oruns_prim|apply cb_stable_prim_any; discriminate|exact H]).
  - cbn [apply_prim fst]. destruct (is_alive s w && negb (memN s (spawned w))) eqn:E; [|exact H].
    apply andb_true_iff in E. destruct E as [_ E]. apply negb_true_iff, memN_false in E. apply OH_fresh; assumption.
  - cbn [apply_prim fst]. destruct (negb (is_alive s w)); [eapply OH_stable; [| |exact H]; [reflexivity|apply cb_stable_oview; reflexivity]|].
    destruct (negb (memN s (spawned w))) eqn:E; [|exact H]. apply negb_true_iff, memN_false in E. apply OH_fresh; assumption.
Qed.

Lemma OH_closed t : closed P (OH t).
Proof.
  constructor.
  - intros e w H. eapply OH_stable; [| |exact H]; [reflexivity|apply cb_stable_oview; reflexivity].
  - intros c w H. apply OH_prim. exact H.
  - intros o a w H. eapply OH_stable; [| |exact H]; [exact (g_oruns_kview _ _ (kview_act P o a w))|apply cb_stable_oview; apply oview_act].
  - intros c w t0 su cl w' H E. eapply OH_stable; [| |exact H].
    + destruct c; try discriminate E; cbn in E; try (inversion E; subst; reflexivity). destruct r; inversion E; subst; reflexivity.
    + apply cb_stable_oview. destruct c; try discriminate E; cbn in E; try (inversion E; subst; reflexivity). destruct r; inversion E; subst; reflexivity.
  - intros e r w H _. unfold gc_step. eapply OH_stable; [| |exact H].
    + rewrite (g_oruns_kview _ _ (kview_despawn _ _)). reflexivity.
    + eapply cb_stable_trans; [|apply cb_stable_despawn]. apply cb_stable_oview. reflexivity.
  - intros w H. eapply OH_stable; [| |exact H]; [exact (g_oruns_kview _ _ (kview_poll w))|apply cb_stable_oview; apply oview_poll].
  - intros su t0 w w' H E. eapply OH_stable; [| |exact H].
    + destruct su; cbn [run_setup] in E; repeat match type of E with match ?x with _ => _ end = _ => destruct x; try discriminate E end; inversion E; subst; reflexivity.
    + apply cb_stable_oview. eapply oview_run_setup; eauto.
  - intros cl w H. eapply OH_stable; [apply g_oruns_run_cleanup|apply cb_stable_run_cleanup|exact H].
  - intros b w H. exact H.
  - intros n w H. exact H.
  - intros t0 b w H. exact H.
  - intros t0 k w H _. unfold rn_dropped. eapply OH_stable; [| |exact H].
    + cbn [g_oruns emit set]. exact (g_oruns_kview _ _ (kview_drop_callback _ _)).
    + eapply cb_stable_trans; [apply cb_stable_drop_callback|]. apply cb_stable_oview. reflexivity.
  - intros t0 k w H _. unfold rn_despawn_missing. eapply OH_stable; [| |exact H].
    + cbn [g_oruns emit set]. rewrite (g_oruns_kview _ _ (kview_despawn _ _)). exact (g_oruns_kview _ _ (kview_drop_callback _ _)).
    + eapply cb_stable_trans; [apply cb_stable_drop_callback|]. eapply cb_stable_trans; [apply cb_stable_despawn|]. apply cb_stable_oview. reflexivity.
  - intros t0 w H. eapply OH_stable; [exact (g_oruns_kview _ _ (kview_despawn _ _))|apply cb_stable_despawn|exact H].
  - intros t0 cb b w H Hcb _. unfold cb_bump. eapply OH_cbs_upd; [exact Hcb|reflexivity|reflexivity|exact H].
  - intros t0 tk w H. unfold once_finish. destruct (alookup t0 (cbs w)) as [cb'|] eqn:Ecb; [|exact H].
    match goal with |- context [aupd t0 ?r (cbs w)] =>
      eapply (OH_stable t (w <| cbs := aupd t0 r (cbs w) |>)); [reflexivity|apply cb_stable_oview; reflexivity|];
      eapply OH_cbs_upd; [exact Ecb|reflexivity|reflexivity|exact H] end.
  - (* the body *)
    intros sd t0 r c w HG H. unfold body_guard in HG. apply andb_true_iff in HG. destruct HG as [HG Honce]. apply andb_true_iff in HG. destruct HG as [_ Hst].
    unfold state_ok_b in Hst. destruct (alookup t0 (cbs w)) as [cb0|] eqn:Ecb; [|discriminate Hst]. clear Hst.
    unfold once_ok_b in Honce. rewrite Ecb in Honce.
    unfold body_begin.
    assert (Hov : oview (body_sample P sd t0 r c w) = oview w) by apply oview_body_sample.
    assert (Hcbs : cbs (body_sample P sd t0 r c w) = cbs w) by exact (f_equal snd Hov).
    assert (Hsp : spawned (body_sample P sd t0 r c w) = spawned w) by exact (f_equal (fun x => snd (fst x)) Hov).
    assert (Hgo : g_oruns (body_sample P sd t0 r c w) = if (match cb_once cb0 with Some _ => true | None => false end) then g_oruns w ++ [t0] else g_oruns w).
    { unfold body_sample. pose proof (g_oruns_kview _ _ (kview_sample_readers sd (xsys_of P t0) w)) as H1.
      pose proof (f_equal snd (oview_sample_readers sd (xsys_of P t0) w)) as H2. cbn [snd oview] in H2.
      destruct (sample_readers sd (xsys_of P t0) w) as [sm w1]. cbn [snd] in H1, H2.
      assert (Hflag : is_once_rec t0 w1 = match cb_once cb0 with Some _ => true | None => false end) by (unfold is_once_rec; rewrite H2, Ecb; reflexivity).
      destruct (sm_l sm) as [[src [v|]]|]; try (unfold note_run, emit; cbn [g_oruns set]; rewrite Hflag, H1; reflexivity).
      destruct (xsys_of P t0) as [[x ?]|]; unfold note_run, emit; cbn [g_oruns set]; rewrite Hflag, H1; reflexivity. }
    unfold state_bump. rewrite Hcbs, Ecb.
    destruct H as [H1 H2]. unfold OH, oc in *. cbn [g_oruns cbs spawned set]. rewrite Hgo, Hsp, ?Hcbs. unfold ent in *.
    destruct (N.eq_dec t t0) as [->|Hne].
    + split; [intros Hn; destruct (H1 Hn) as [_ Hnone]; congruence|].
      destruct (cb_once cb0) as [tk|] eqn:Eo.
      * apply andb_true_iff in Honce. destruct Honce as [_ Hz]. apply N.eqb_eq in Hz.
        destruct H2 as [Hzero|[_ Hk]]; [|specialize (Hk cb0 Ecb ltac:(rewrite Eo; discriminate)); lia].
        right. split; [rewrite count_occ_app; cbn [count_occ]; destruct (N.eq_dec t0 t0); [|contradiction]; unfold ent in *; lia|].
        intros cb Hcb _. rewrite alookup_aupd_same, Ecb in Hcb. inversion Hcb; subst. cbn. lia.
      * destruct H2 as [Hzero|[Hone Hk]]; [left; exact Hzero|right]. split; [exact Hone|].
        intros cb Hcb Ho. rewrite alookup_aupd_same, Ecb in Hcb. inversion Hcb; subst. cbn in Ho. contradiction.
    + assert (Hcnt : forall l : list N, count_occ N.eq_dec (l ++ [t0]) t = count_occ N.eq_dec l t).
      { intros l. rewrite count_occ_app. cbn [count_occ]. destruct (N.eq_dec t0 t); [congruence|apply Nat.add_0_r]. }
      assert (Hfin : forall l : list N, count_occ N.eq_dec l t = count_occ N.eq_dec (g_oruns w) t ->
        (~ In t (spawned w) -> count_occ N.eq_dec l t = O /\ alookup t (aupd t0 (mkCb (cb_once cb0) (cb_runno cb0 + 1) (cb_captured cb0 + 1) (cb_taken cb0) (cb_live cb0)) (cbs w)) = None) /\
        (count_occ N.eq_dec l t = O \/ (count_occ N.eq_dec l t = 1%nat /\ forall cb, alookup t (aupd t0 (mkCb (cb_once cb0) (cb_runno cb0 + 1) (cb_captured cb0 + 1) (cb_taken cb0) (cb_live cb0)) (cbs w)) = Some cb -> cb_once cb <> None -> 1 <= cb_runno cb))).
      { intros l Hl. rewrite Hl. split.
        * intros Hn. destruct (H1 Hn) as [Hz Hc]. split; [exact Hz|]. rewrite alookup_aupd_other by exact Hne. exact Hc.
        * destruct H2 as [Hzero|[Hone Hk]]; [left; exact Hzero|right]. split; [exact Hone|]. intros cb Hcb. rewrite alookup_aupd_other in Hcb by exact Hne. apply Hk. exact Hcb. }
      destruct (cb_once cb0); apply Hfin; [apply Hcnt|reflexivity].
  - intros w H. exact H.
Qed.
End OHSteps.

(* ---------- the once wrapper (react_commands.rs:319-349), step by step ---------- *)
Section OnceWrapper.
Variable P : program.

(* a spent wrapper does nothing at all: no body, no log line, no state change *)
Lemma spent_wrapper_noop f t cl w cb tk : alookup t (cbs w) = Some cb -> cb_once cb = Some tk -> cb_taken cb = true ->
  exec P (S f) (ICallback t cl) w = Ok w.
Proof. intros H1 H2 H3. cbn [exec]. rewrite H1, H2, H3. reflexivity. Qed.

(* an unspent wrapper marks itself taken, runs the inner system, despawns its own entity, revokes its own token and
   drops the inner system *)
Lemma unspent_wrapper_steps f t cl w cb tk : alookup t (cbs w) = Some cb -> cb_once cb = Some tk -> cb_taken cb = false ->
  exec P (S f) (ICallback t cl) w =
  bind (exec P f (IBody t (cb_runno cb) (cb_captured cb) cl) (cb_bump t cb true w)) (fun w1 =>
  bind (exec P f (IApplyList [CRevoke tk]) (despawn t w1)) (fun w2 => Ok (once_finish t tk w2))).
Proof. intros H1 H2 H3. cbn [exec]. rewrite H1, H2, H3. reflexivity. Qed.
End OnceWrapper.
