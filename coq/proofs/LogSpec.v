(* LogSpec.v — the log is append-only: every step of the interpreter only appends events.  Basis of the ordering
   statements (C09, C12): what a command and everything it causes logged is a block that precedes everything the next
   command logs. *)
From Cobweb Require Import Machine.
From CobwebProofs Require Import ListLemmas Closed.

Definition lext (w w' : world) : Prop := exists l, log w' = log w ++ l.
Lemma lext_refl w : lext w w. Proof. exists []. rewrite app_nil_r. reflexivity. Qed.
Lemma lext_trans w1 w2 w3 : lext w1 w2 -> lext w2 w3 -> lext w1 w3.
Proof. intros [l1 H1] [l2 H2]. exists (l1 ++ l2). rewrite H2, H1, app_assoc. reflexivity. Qed.
Lemma lext_eq w w' : log w' = log w -> lext w w'.
Proof. intros H. exists []. rewrite H, app_nil_r. reflexivity. Qed.
Lemma lext_emit e w : lext w (emit e w).
Proof. exists [e]. reflexivity. Qed.

(* steps that log nothing *)
Lemma log_handle_drop h w : log (handle_drop h w) = log w.
Proof.
  destruct h as [s|g s]; cbn; [reflexivity|]. unfold sig_drop.
  destruct (alookup g (sigs w)) as [[e n]|]; [|reflexivity]. destruct (N.leb n 1); reflexivity.
Qed.
Lemma log_handle_clone h w : log (handle_clone h w) = log w.
Proof. destruct h as [s|g s]; cbn; [reflexivity|]. unfold sig_clone. destruct (alookup g (sigs w)) as [[e n]|]; reflexivity. Qed.
Lemma log_handles_drop hs : forall w, log (handles_drop hs w) = log w.
Proof. induction hs as [|h hs IH]; intros w; cbn; [reflexivity|]. rewrite IH. apply log_handle_drop. Qed.
Lemma log_push_removed_all cs e : forall w, log (push_removed_all cs e w) = log w.
Proof. induction cs as [|c cs IH]; intros w; cbn; [reflexivity|]. rewrite IH. reflexivity. Qed.
Lemma log_revoke_one s t w : log (revoke_one s t w) = log w.
Proof.
  assert (Hent : forall e rt, log (if is_alive e w then
             match alookup e (ereactors w) with
             | Some l => let (d, k) := er_remove rt s l in handles_drop d (w <| ereactors := aset e k (ereactors w) |>)
             | None => w end else w) = log w).
  { intros e rt. destruct (is_alive e w); [|reflexivity]. destruct (alookup e (ereactors w)) as [l|]; [|reflexivity].
    destruct (er_remove rt s l) as [d k]. rewrite log_handles_drop. reflexivity. }
  assert (Hcomp : forall kd c, log (comp_revoke kd c s w) = log w).
  { intros kd c. unfold comp_revoke. destruct (alookup c (comp_tbl w)) as [[[i m] r]|]; [|reflexivity].
    destruct (remove_first s match kd with KIns => i | KMut => m | KRem => r end) as [o l'].
    destruct (match kd with KIns => (l', m, r) | KMut => (i, l', r) | KRem => (i, m, l') end) as [[i' m'] r'].
    destruct o as [h|]; [rewrite log_handle_drop|]; (destruct i'; [destruct m'; [destruct r'|]|]); reflexivity. }
  destruct t; cbn [revoke_one]; try apply Hent; try apply Hcomp.
  - destruct (tbl_revoke ty s (bc_tbl w)) as [o t']. destruct o; [rewrite log_handle_drop|]; reflexivity.
  - destruct (tbl_revoke ty s (any_tbl w)) as [o t']. destruct o; [rewrite log_handle_drop|]; reflexivity.
  - destruct (tbl_revoke r s (res_tbl w)) as [o t']. destruct o; [rewrite log_handle_drop|]; reflexivity.
  - destruct (tbl_revoke e s (desp_tbl w)) as [o t']. destruct o; [rewrite log_handle_drop|]; reflexivity.
Qed.
Lemma log_revoke_all s ts : forall w, log (revoke_all s ts w) = log w.
Proof. induction ts as [|t ts IH]; intros w; cbn; [reflexivity|]. rewrite IH. apply log_revoke_one. Qed.
Lemma log_reg_triggers_cmds h ts : forall w, log (fst (reg_triggers_cmds h ts w)) = log w.
Proof.
  induction ts as [|t ts IH]; intros w; cbn [reg_triggers_cmds]; [reflexivity|].
  destruct (reg_trigger_cmds h t w) as [w1 c1] eqn:E1. destruct (reg_triggers_cmds h ts w1) as [w2 c2] eqn:E2. cbn [fst].
  assert (H1 : log w1 = log w).
  { destruct t; cbn in E1; try (inversion E1; subst; apply log_handle_clone).
    destruct (is_alive e w); inversion E1; subst; [apply log_handle_clone|reflexivity]. }
  specialize (IH w1). rewrite E2 in IH. cbn [fst] in IH. congruence.
Qed.
Lemma log_poll_despawns chan : forall w, log (fst (poll_despawns chan w)) = log w.
Proof.
  induction chan as [|e r IH]; intros w; cbn [poll_despawns]; [reflexivity|].
  specialize (IH (w <| desp_tbl := aremove e (desp_tbl w) |>)). destruct (poll_despawns r _) as [w2 cs]. exact IH.
Qed.
Lemma log_poll w : log (fst (poll w)) = log w.
Proof.
  unfold poll. destruct (poll_removals (removal_checkers w) w) as [chk c1].
  pose proof (log_poll_despawns (despawn_chan (w <| removal_checkers := chk |>)) ((w <| removal_checkers := chk |>) <| despawn_chan := [] |>)) as H.
  destruct (poll_despawns _ _) as [w2 c2]. exact H.
Qed.
Lemma log_comp_push kd c h w : log (comp_push kd c h w) = log w.
Proof. unfold comp_push. destruct (alookup c (comp_tbl w)) as [[[i m] r]|]; destruct kd; reflexivity. Qed.
Lemma log_dsp_comps e w : log (dsp_comps e w) = log w.
Proof. unfold dsp_comps. etransitivity; [|apply (log_push_removed_all (comps_of e (comps w)) e w)]. reflexivity. Qed.
Lemma log_dsp_ereactors e w : log (dsp_ereactors e w) = log w.
Proof.
  unfold dsp_ereactors. destruct (alookup e (ereactors w)) as [l|]; [|reflexivity].
  etransitivity; [|apply (log_handles_drop (map snd l) w)]. reflexivity.
Qed.
Lemma log_dsp_tracker e w : log (dsp_tracker e w) = log w.
Proof. unfold dsp_tracker. destruct (memN e (dtrackers w)); reflexivity. Qed.
Lemma log_dsp_xlocals e w : log (dsp_xlocals e w) = log w. Proof. reflexivity. Qed.
Lemma log_reserve id w : log (reserve id w) = log w.
Proof. unfold reserve, bind_id. destruct (memN id (bound w)); reflexivity. Qed.

(* steps that may log *)
Ltac le_eq := apply lext_eq; reflexivity.
Ltac le_app := unfold lext, emit; cbn [log set]; rewrite <- ?app_assoc; eexists; reflexivity.
Lemma lext_drop_callback t w : lext w (drop_callback t w).
Proof. unfold drop_callback. destruct (alookup t (cbs w)) as [cb|]; [destruct (cb_live cb)|]; first [le_eq | eexists; reflexivity]. Qed.
Lemma lext_drop_ddata d w : lext w (drop_ddata d w).
Proof. destruct d as [? ? ?|? ? ? ?|? [?|]]; first [le_eq | eexists; reflexivity]. Qed.
Lemma lext_take_sysevents tys : forall w, lext w (snd (take_sysevents tys w)).
Proof.
  induction tys as [|ty r IH]; intros w; cbn [take_sysevents]; [apply lext_refl|].
  destruct (peek_sysevent ty w) as [p|]; [|apply IH].
  match goal with |- context [take_sysevents r ?w1] => pose proof (IH w1) as H1; destruct (take_sysevents r w1) end. cbn [snd] in *.
  eapply lext_trans; [|exact H1]. eexists. reflexivity.
Qed.
Lemma lext_sample_readers sd x w : lext w (snd (sample_readers sd x w)).
Proof.
  unfold sample_readers. pose proof (lext_take_sysevents TYPES w) as H1.
  destruct (sd_take sd); [destruct (take_sysevents TYPES w) as [s w1]; exact H1|apply lext_refl].
Qed.
Lemma lext_dsp_alive e w : lext w (dsp_alive e w). Proof. eexists. reflexivity. Qed.
Lemma lext_dsp_storage e w : lext w (dsp_storage e w).
Proof.
  unfold dsp_storage. destruct (alookup e (storage w)) as [[|]|]; try le_eq.
  destruct (lext_drop_callback e w) as [l H]. exists l. exact H.
Qed.
Lemma lext_dsp_data e w : lext w (dsp_data e w).
Proof.
  unfold dsp_data. destruct (alookup e (dataents w)) as [d|]; [|le_eq].
  destruct (lext_drop_ddata d w) as [l H]. exists l. exact H.
Qed.
Lemma lext_despawn e w : lext w (despawn e w).
Proof.
  unfold despawn. destruct (negb (is_alive e w)); [apply lext_refl|].
  eapply lext_trans; [apply lext_dsp_alive|]. eapply lext_trans; [apply lext_eq, log_dsp_comps|]. eapply lext_trans; [apply lext_dsp_storage|].
  eapply lext_trans; [apply lext_eq, log_dsp_ereactors|]. eapply lext_trans; [apply lext_eq, log_dsp_tracker|]. eapply lext_trans; [apply lext_dsp_data|].
  apply lext_eq, log_dsp_xlocals.
Qed.
Lemma lext_try_cleanup d w : lext w (try_cleanup_data_entity d w).
Proof.
  unfold try_cleanup_data_entity. destruct (negb (is_alive d w)); [apply lext_refl|].
  destruct (alookup d (dataents w)) as [[ty p cnt|ty t p cnt|ty p]|]; try apply lext_refl.
  - match goal with |- lext w (if ?b then despawn d ?w1 else ?w1) => destruct b; [eapply lext_trans; [|apply lext_despawn]|]; le_eq end.
  - match goal with |- lext w (if ?b then despawn d ?w1 else ?w1) => destruct b; [eapply lext_trans; [|apply lext_despawn]|]; le_eq end.
Qed.
Lemma lext_run_cleanup cl w : lext w (run_cleanup cl w).
Proof.
  destruct cl; cbn [run_cleanup]; try apply lext_refl.
  - eapply lext_trans; [|apply lext_despawn]. le_eq.
  - le_eq.
  - match goal with |- lext w (match ?h with Some h0 => handle_drop h0 ?w1 | None => ?w1 end) =>
      destruct h; [apply lext_eq; rewrite log_handle_drop; reflexivity|le_eq] end.
  - eapply lext_trans; [|apply lext_try_cleanup]. le_eq.
  - eapply lext_trans; [|apply lext_try_cleanup]. le_eq.
Qed.
Lemma lext_run_setup su t w w' : run_setup su t w = Some w' -> lext w w'.
Proof.
  intros E. destruct su; cbn [run_setup] in E;
    repeat match type of E with match ?x with _ => _ end = _ => destruct x; try discriminate E end; inversion E; subst; first [le_eq | eexists; reflexivity].
Qed.

Section LSteps.
Variable P : program.

Lemma lext_act o a w : lext w (fst (act P o a w)).
Proof.
  destruct a; cbn [act];
  repeat match goal with
         | |- context [if ?b then _ else _] => destruct b
         | |- context [match alookup2 ?a ?b ?c with _ => _ end] => destruct (alookup2 a b c)
         | |- context [match alookup ?a ?c with _ => _ end] => destruct (alookup a c) as [[? ?]|]
         | |- context [match ?m with Persistent => _ | _ => _ end] => destruct m
         end; cbn [fst]; try (first [apply lext_refl | le_eq | le_app | (apply lext_eq; apply log_reserve)]).
  all: try (destruct (alookup wr (p_wr P)); apply lext_refl).
  all: try (apply lext_eq; change (log (reserve s w) = log w); apply log_reserve).
Qed.
Lemma lext_acts l : forall mk idx w, lext w (fst (acts P mk idx l w)).
Proof.
  induction l as [|a l IH]; intros mk idx w; cbn [acts]; [apply lext_refl|].
  pose proof (lext_act (mk idx) a w) as H1. destruct (act P (mk idx) a w) as [w1 c1].
  pose proof (IH mk (idx + 1) w1) as H2. destruct (acts P mk (idx + 1) l w1) as [w2 c2]. cbn [fst] in *. eapply lext_trans; eauto.
Qed.
Lemma lext_prim c w : lext w (fst (apply_prim P c w)).
Proof.
  destruct c; cbn [apply_prim]; try apply lext_refl; try (le_app).
  - destruct (is_alive d w); le_eq.
  - destruct (tbl_get ty (bc_tbl w)); cbn [fst]; le_app.
  - destruct (entity_targets e (REvent ty) w ++ map handle_sys (tbl_get ty (any_tbl w))); cbn [fst]; le_app.
  - match goal with |- context [if ?b then _ else _] => destruct b end; cbn [fst]; first [apply lext_refl | le_app].
  - destruct (is_alive e w); le_eq.
  - destruct (is_alive e w); [|le_eq]. destruct (alookup2 c e (comps w)); le_eq.
  - apply lext_despawn.
  - apply lext_despawn.
  - destruct (is_alive s w && negb (memN s (spawned w))); le_eq.
  - destruct (negb (is_alive s w)); [le_app|]. destruct (negb (memN s (spawned w))); le_eq.
  - apply lext_eq.
    assert (Hh : forall h w0, log (fst (let (w1, cs) := reg_triggers_cmds h b w0 in (handle_drop h w1, cs))) = log w0).
    { intros h w0. pose proof (log_reg_triggers_cmds h b w0) as H1. destruct (reg_triggers_cmds h b w0) as [w1 cs]. cbn [fst] in *.
      rewrite log_handle_drop. exact H1. }
    destruct m; [apply Hh| |]; (unfold sig_new; rewrite Hh; reflexivity).
  - apply lext_eq. destruct t; cbn [fst]; try apply log_handle_drop; try reflexivity.
    + apply log_comp_push.
    + apply log_comp_push.
    + rewrite log_comp_push. unfold track_removals. destruct (ahas c (removal_checkers w)); reflexivity.
  - apply lext_eq. destruct (is_alive e w); [destruct (alookup e (ereactors w)); reflexivity|apply log_handle_drop].
  - apply lext_eq. unfold track_removals. destruct (ahas c (removal_checkers w)); reflexivity.
  - apply lext_eq. destruct (is_alive e w); [|apply log_handle_drop].
    match goal with |- context [if ?b then _ else _] => destruct b end; reflexivity.
  - destruct tk as [ts s]. apply lext_eq, log_revoke_all.
  - apply lext_run_cleanup.
  - destruct (alookup x (p_xr P)) as [[s shape]|]; [destruct (is_alive e w)|]; le_eq.
  - destruct (alookup x (p_xr P)) as [[s shape]|]; le_eq.
  - destruct (is_alive e w); le_eq.
  - destruct (is_alive e w); [|le_eq]. destruct (alookup e (ereactors w)); [|le_eq].
    match goal with |- context [if ?b then _ else _] => destruct b end; le_eq.
  - apply lext_eq, log_poll.
Qed.
Lemma lext_state_bump t w : lext w (state_bump t w).
Proof. apply lext_eq. unfold state_bump. destruct (alookup t (cbs w)); reflexivity. Qed.
Lemma lext_body_begin sd t r c w : lext w (body_begin P sd t r c w).
Proof.
  unfold body_begin. eapply lext_trans; [|apply lext_state_bump].
  unfold body_sample. pose proof (lext_sample_readers sd (xsys_of P t) w) as H1.
  destruct (sample_readers sd (xsys_of P t) w) as [sm w1]. cbn [snd] in H1. eapply lext_trans; [exact H1|].
  destruct (sm_l sm) as [[src [v|]]|]; try (unfold note_run; le_app). destruct (xsys_of P t) as [[x ?]|]; unfold note_run; le_app.
Qed.

(* the closed invariant: the log extends a given prefix *)
Definition Lpre (l0 : list ev) (w : world) : Prop := exists l, log w = l0 ++ l.
Lemma Lpre_lext l0 w w' : lext w w' -> Lpre l0 w -> Lpre l0 w'.
Proof. intros [l H] [l1 H1]. exists (l1 ++ l). rewrite H, H1, app_assoc. reflexivity. Qed.
Lemma Lpre_closed l0 : closed P (Lpre l0).
Proof.
  constructor.
  - intros e w H. eapply Lpre_lext; [apply lext_emit|exact H].
  - intros c w H. eapply Lpre_lext; [apply lext_prim|exact H].
  - intros o a w H. eapply Lpre_lext; [apply lext_act|exact H].
  - intros c w t su cl w' H E. eapply Lpre_lext; [|exact H]. apply lext_eq.
    destruct c; try discriminate E; cbn in E; try (inversion E; subst; reflexivity). destruct r; inversion E; subst; reflexivity.
  - intros e r w H _. unfold gc_step. eapply Lpre_lext; [|exact H]. eapply lext_trans; [|apply lext_despawn]. le_eq.
  - intros w H. eapply Lpre_lext; [apply lext_eq, log_poll|exact H].
  - intros su t w w' H E. eapply Lpre_lext; [eapply lext_run_setup; eauto|exact H].
  - intros cl w H. eapply Lpre_lext; [apply lext_run_cleanup|exact H].
  - intros b w H. exact H.
  - intros n w H. exact H.
  - intros t b w H. exact H.
  - intros t k w H _. unfold rn_dropped. eapply Lpre_lext; [|exact H]. eapply lext_trans; [apply lext_drop_callback|apply lext_emit].
  - intros t k w H _. unfold rn_despawn_missing. eapply Lpre_lext; [|exact H].
    eapply lext_trans; [apply lext_drop_callback|]. eapply lext_trans; [apply lext_despawn|apply lext_emit].
  - intros t w H. eapply Lpre_lext; [apply lext_despawn|exact H].
  - intros t cb b w H _ _. exact H.
  - intros t tk w H. unfold once_finish. destruct (alookup t (cbs w)); [|exact H]. eapply Lpre_lext; [|exact H]. le_app.
  - intros sd t r c w _ H. eapply Lpre_lext; [apply lext_body_begin|exact H].
  - intros w H. exact H.
Qed.

(* the log of any execution extends the log it started from *)
Theorem exec_log_extends fuel i w w' : exec P fuel i w = Ok w' -> lext w w'.
Proof.
  intros E. assert (H : Lpre (log w) w') by (eapply exec_closed; [apply Lpre_closed| |exact E]; exists []; rewrite app_nil_r; reflexivity).
  exact H.
Qed.
End LSteps.
