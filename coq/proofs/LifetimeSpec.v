(* LifetimeSpec.v — C07 (step level): what the handle of each registration mode does to the auto-despawn bookkeeping,
   and what a garbage collection does.  The signal itself (Arc count, channel) is verified against the real
   AutoDespawner in the standalone model of C10. *)
From Cobweb Require Import Machine.
From CobwebProofs Require Import ListLemmas Closed RunnerInv Frames PayloadSpec.

(* ---------- persistent handles carry no signal ---------- *)
Theorem persistent_handle_is_inert s w : handle_drop (HPersist s) w = w /\ handle_clone (HPersist s) w = w.
Proof. split; reflexivity. Qed.

(* ---------- an auto-despawn handle: clone = +1, drop = -1, the last drop sends the entity, once ---------- *)
Theorem clone_adds_one g s e n w : alookup g (sigs w) = Some (e, n) ->
  sigs (handle_clone (HAuto g s) w) = aset g (e, n + 1) (sigs w) /\ gc_chan (handle_clone (HAuto g s) w) = gc_chan w.
Proof. intros H. cbn [handle_clone]. unfold sig_clone. rewrite H. split; reflexivity. Qed.
Theorem drop_takes_one g s e n w : alookup g (sigs w) = Some (e, n) -> 1 < n ->
  sigs (handle_drop (HAuto g s) w) = aset g (e, n - 1) (sigs w) /\ gc_chan (handle_drop (HAuto g s) w) = gc_chan w.
Proof. intros H Hn. cbn [handle_drop]. unfold sig_drop. rewrite H. destruct (N.leb n 1) eqn:E; [apply N.leb_le in E; lia|]. split; reflexivity. Qed.
Theorem last_drop_sends_the_entity g s e n w : alookup g (sigs w) = Some (e, n) -> n <= 1 ->
  sigs (handle_drop (HAuto g s) w) = aremove g (sigs w) /\ gc_chan (handle_drop (HAuto g s) w) = gc_chan w ++ [e].
Proof. intros H Hn. cbn [handle_drop]. unfold sig_drop. rewrite H. destruct (N.leb n 1) eqn:E; [|apply N.leb_gt in E; lia]. split; reflexivity. Qed.
Theorem dropped_signal_is_inert g s w : alookup g (sigs w) = None -> handle_drop (HAuto g s) w = w.
Proof. intros H. cbn [handle_drop]. unfold sig_drop. rewrite H. reflexivity. Qed.
(* handles never touch anything but the signal table and the channel: nothing is despawned by dropping a handle *)
Theorem handle_drop_despawns_nothing h w : storage (handle_drop h w) = storage w /\ alive (handle_drop h w) = alive w.
Proof. pose proof (sview_handle_drop h w) as H. split; [exact (f_equal fst H)|exact (f_equal snd H)]. Qed.

(* ---------- despawn ---------- *)
Lemma alive_dsp_data_xlocals e v : alive (dsp_xlocals e (dsp_data e v)) = alive v.
Proof. unfold dsp_xlocals, dsp_data. destruct (alookup e (dataents v)) as [[? ? ?|? ? ? ?|? [?|]]|]; reflexivity. Qed.
Lemma alive_despawn e w : alive (despawn e w) = if is_alive e w then removeN e (alive w) else alive w.
Proof.
  unfold despawn. destruct (is_alive e w) eqn:Ha; cbn [negb]; [|reflexivity].
  rewrite alive_dsp_data_xlocals. exact (proj1 (dataents_alive_before_dsp_data e w)).
Qed.
Lemma dead_stays_dead_despawn e e' w : is_alive e w = false -> is_alive e (despawn e' w) = false.
Proof.
  intros H. unfold is_alive at 1. rewrite alive_despawn. destruct (is_alive e' w); [|exact H].
  destruct (N.eq_dec e e') as [->|Hne]; [apply memN_removeN_same|rewrite memN_removeN_other by exact Hne; exact H].
Qed.

(* the channel only grows under despawn (dropped handles may send more entities) *)
Lemma gc_chan_handle_drop h w : incl (gc_chan w) (gc_chan (handle_drop h w)).
Proof.
  destruct h as [s|g s]; cbn; [apply incl_refl|]. unfold sig_drop. destruct (alookup g (sigs w)) as [[e n]|]; [|apply incl_refl].
  destruct (N.leb n 1); cbn; [intros x Hx; apply in_or_app; left; exact Hx|apply incl_refl].
Qed.
Lemma gc_chan_handles_drop hs : forall w, incl (gc_chan w) (gc_chan (handles_drop hs w)).
Proof. induction hs as [|h hs IH]; intros w; cbn; [apply incl_refl|]. eapply incl_tran; [apply gc_chan_handle_drop|apply IH]. Qed.
Lemma gc_chan_push_removed_all cs e : forall w, gc_chan (push_removed_all cs e w) = gc_chan w.
Proof. induction cs as [|c cs IH]; intros w; cbn; [reflexivity|]. rewrite IH. reflexivity. Qed.
Lemma gc_chan_despawn_grows e w : incl (gc_chan w) (gc_chan (despawn e w)).
Proof.
  unfold despawn. destruct (negb (is_alive e w)); [apply incl_refl|].
  set (w1 := dsp_comps e (dsp_alive e w)).
  assert (H1 : gc_chan w1 = gc_chan w) by (subst w1; unfold dsp_comps; cbn [gc_chan set]; rewrite gc_chan_push_removed_all; reflexivity).
  set (w2 := dsp_storage e w1).
  assert (H2 : gc_chan w2 = gc_chan w).
  { subst w2. unfold dsp_storage. cbn [gc_chan set]. destruct (alookup e (storage w1)) as [[|]|]; try exact H1.
    unfold drop_callback. destruct (alookup e (cbs w1)) as [cb|]; [destruct (cb_live cb)|]; exact H1. }
  set (w3 := dsp_ereactors e w2).
  assert (H3 : incl (gc_chan w) (gc_chan w3)).
  { subst w3. unfold dsp_ereactors. cbn [gc_chan set]. rewrite <- H2. destruct (alookup e (ereactors w2)) as [l|]; [apply gc_chan_handles_drop|apply incl_refl]. }
  assert (H4 : gc_chan (dsp_tracker e w3) = gc_chan w3) by (unfold dsp_tracker; destruct (memN e (dtrackers w3)); reflexivity).
  unfold dsp_xlocals, dsp_data. cbn [gc_chan set]. 
  assert (H5 : gc_chan (match alookup e (dataents (dsp_tracker e w3)) with Some d => drop_ddata d (dsp_tracker e w3) | None => dsp_tracker e w3 end) = gc_chan (dsp_tracker e w3)).
  { destruct (alookup e (dataents (dsp_tracker e w3))) as [[? ? ?|? ? ? ?|? [?|]]|]; reflexivity. }
  rewrite H5, H4. exact H3.
Qed.

Section GC.
Variable P : program.

(* a collection drains the channel completely — including what the despawns it performs put on it — and everything
   that was on the channel is dead afterwards *)
Lemma gc_dead_mono f : forall v w' x, is_alive x v = false -> exec P f IGC v = Ok w' -> is_alive x w' = false.
Proof.
  induction f as [|f IH]; intros v w' x Hx E; [discriminate E|]. cbn [exec] in E.
  destruct (gc_chan v) as [|e1 r1]; [inversion E; subst; exact Hx|].
  eapply IH; [|exact E]. unfold gc_step. apply dead_stays_dead_despawn. exact Hx.
Qed.
Theorem gc_drains f : forall w w', exec P f IGC w = Ok w' ->
  gc_chan w' = [] /\ forall e, In e (gc_chan w) -> is_alive e w' = false.
Proof.
  induction f as [|f IH]; intros w w' E; [discriminate E|]. cbn [exec] in E.
  destruct (gc_chan w) as [|e r] eqn:EC.
  - inversion E; subst. split; [exact EC|intros e []].
  - destruct (IH _ _ E) as [H1 H2]. split; [exact H1|].
    intros x [<-|Hin].
    + eapply gc_dead_mono; [|exact E]. unfold gc_step. apply dead_after_despawn.
    + destruct (is_alive x (gc_step e r w)) eqn:Hx; [|eapply gc_dead_mono; [exact Hx|exact E]].
      apply H2. unfold gc_step. apply (gc_chan_despawn_grows e (w <| gc_chan := r |>)). exact Hin.
Qed.
End GC.

(* ---------- despawning a reactor's entity drops its system state (the boxed callback and what it captured) ---------- *)
Require Import CobwebProofs.OnceInv.
Lemma cbs_dsp_storage_self e v : alookup e (storage v) = Some true -> alookup e (cbs (dsp_storage e v)) = None.
Proof.
  intros Hs. unfold dsp_storage. rewrite Hs. cbn [cbs set]. unfold drop_callback.
  destruct (alookup e (cbs v)) as [cb|] eqn:Ec; [|exact Ec].
  destruct (cb_live cb); cbn [cbs set emit]; apply alookup_aremove_same.
Qed.
Lemma cbs_dsp_tail e v : cbs (dsp_xlocals e (dsp_data e (dsp_tracker e (dsp_ereactors e v)))) = cbs v.
Proof. exact (f_equal snd (oview_dsp_tail e v)). Qed.
Lemma storage_dsp_head e w : storage (dsp_comps e (dsp_alive e w)) = storage w.
Proof. exact (f_equal (fun x => fst (fst x)) (oview_dsp_head e w)). Qed.
Theorem despawn_drops_callback e w : is_alive e w = true -> alookup e (storage w) = Some true ->
  alookup e (cbs (despawn e w)) = None.
Proof.
  intros Ha Hs. unfold despawn. rewrite Ha. cbn [negb]. rewrite cbs_dsp_tail.
  apply cbs_dsp_storage_self. rewrite storage_dsp_head. exact Hs.
Qed.
