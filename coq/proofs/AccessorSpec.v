(* AccessorSpec.v — C14: what each reactive accessor does at the moment it is called (the `act` function is the model of
   the public API call), and when an insertion command really triggers. *)
From Cobweb Require Import Machine.
From CobwebProofs Require Import ListLemmas.

Section Accessor.
Variable P : program.

(* the trigger commands among the commands an API call queues *)
Definition triggers_of (cs : list cmd) : list cmd :=
  filter (fun c => match c with CBroadcast _ _ | CEntityEvent _ _ _ | CTrigRes _ | CSchedIns _ _ | CSchedMut _ _ => true | _ => false end) cs.

Definition comp_value (c : N) (e : ent) (w : world) : option N := if is_alive e w then alookup2 c e (comps w) else None.
Definition res_value (r : N) (w : world) : N := match alookup r (resvals w) with Some v => v | None => 0 end.

Lemma alookup2_aset2_same {V} a b (v : V) l : alookup2 a b (aset2 a b v l) = Some v.
Proof.
  induction l as [|[[a' b'] v'] l IH]; cbn; [now rewrite !N.eqb_refl|].
  destruct (N.eqb a a' && N.eqb b b') eqn:E; cbn; [now rewrite !N.eqb_refl|]. rewrite E. exact IH.
Qed.
Lemma alookup_aset_same' {V} k (v : V) l : alookup k (aset k v l) = Some v.
Proof. apply alookup_aset_same. Qed.

Lemma is_alive_emit' e x w : is_alive e (emit x w) = is_alive e w. Proof. reflexivity. Qed.

Lemma last_emit2 a b w d : last (log (emit b (emit a w))) d = b.
Proof. change (log (emit b (emit a w))) with ((log w ++ [a]) ++ [b]). apply last_last. Qed.
Lemma last_emit2' a b w d f : last (log (emit b ((emit a w) <| comps := f |>))) d = b.
Proof. change (log (emit b ((emit a w) <| comps := f |>))) with ((log w ++ [a]) ++ [b]). apply last_last. Qed.

(* React::get_mut / ReactiveMut::get_mut: exactly one mutation trigger per successful call, none otherwise *)
Theorem get_mut_triggers_once o c e v w :
  let e' := resolve w e in
  let w' := fst (act P o (AMutate c e v) w) in
  let cs := snd (act P o (AMutate c e v) w) in
  match comp_value c e' w with
  | Some _ => triggers_of cs = [CSchedMut c e'] /\ comp_value c e' w' = Some v
  | None => triggers_of cs = [] /\ comps w' = comps w
  end.
Proof.
  cbn zeta. cbn [act]. unfold comp_value. rewrite is_alive_emit'. destruct (is_alive (resolve w e) w) eqn:EA.
  - change (comps (emit (EvMark o) w)) with (comps w). destruct (alookup2 c (resolve w e) (comps w)) eqn:EL; cbn [fst snd].
    + split; [reflexivity|]. unfold is_alive in *. cbn. rewrite EA. apply alookup2_aset2_same.
    + split; reflexivity.
  - split; reflexivity.
Qed.

(* set_if_neq: stores, returns the old value and triggers iff the new value differs *)
Theorem set_if_neq_spec o c e v w :
  let e' := resolve w e in
  let w' := fst (act P o (ASetIfNeq c e v) w) in
  let cs := snd (act P o (ASetIfNeq c e v) w) in
  match comp_value c e' w with
  | Some old =>
      if N.eqb old v then triggers_of cs = [] /\ comps w' = comps w /\ last (log w') (EvMark o) = EvRet o RNone
      else triggers_of cs = [CSchedMut c e'] /\ comp_value c e' w' = Some v /\ last (log w') (EvMark o) = EvRet o (RVal old)
  | None => triggers_of cs = [] /\ comps w' = comps w
  end.
Proof.
  cbn zeta. cbn [act]. unfold comp_value. rewrite is_alive_emit'. destruct (is_alive (resolve w e) w) eqn:EA.
  - change (comps (emit (EvMark o) w)) with (comps w). destruct (alookup2 c (resolve w e) (comps w)) as [old|] eqn:EL; cbn [fst snd].
    + destruct (N.eqb old v); cbn [fst snd].
      * repeat split. apply last_emit2.
      * split; [reflexivity|]. split; [unfold is_alive in *; cbn; rewrite EA; apply alookup2_aset2_same|].
        apply last_emit2'.
    + split; reflexivity.
  - split; reflexivity.
Qed.

(* get_noreact, get / Deref: never trigger *)
Theorem get_noreact_never_triggers o c e v w : triggers_of (snd (act P o (AGetNoReact c e v) w)) = [].
Proof.
  cbn [act]. destruct (is_alive (resolve w e) (emit (EvMark o) w)); [|reflexivity].
  destruct (alookup2 c (resolve w e) (comps (emit (EvMark o) w))); reflexivity.
Qed.
Theorem read_never_triggers o c e w : triggers_of (snd (act P o (ARead c e) w)) = [] /\ comps (fst (act P o (ARead c e) w)) = comps w.
Proof. cbn [act]. split; reflexivity. Qed.

(* ReactResMut::get_mut: exactly one resource trigger; set_if_neq: one iff different; get_noreact: none *)
Theorem res_get_mut_triggers_once o r w : triggers_of (snd (act P o (ATrigRes r) w)) = [CTrigRes r].
Proof. reflexivity. Qed.
Theorem res_set_if_neq_spec o r v w :
  let w' := fst (act P o (ASetResIfNeq r v) w) in
  let cs := snd (act P o (ASetResIfNeq r v) w) in
  if N.eqb (res_value r w) v then triggers_of cs = [] /\ resvals w' = resvals w
  else triggers_of cs = [CTrigRes r] /\ res_value r w' = v.
Proof.
  cbn zeta. cbn [act]. unfold res_value. change (resvals (emit (EvMark o) w)) with (resvals w).
  destruct (N.eqb match alookup r (resvals w) with Some v0 => v0 | None => 0 end v); cbn [fst snd].
  - split; reflexivity.
  - split; [reflexivity|]. cbn. now rewrite alookup_aset_same.
Qed.
Theorem res_noreact_never_triggers o r v w : triggers_of (snd (act P o (AResNoReact r v) w)) = [].
Proof. reflexivity. Qed.

(* explicit trigger calls: one trigger per call *)
Theorem broadcast_triggers_once o ty p w : triggers_of (snd (act P o (ABroadcast ty p) w)) = [CBroadcast ty p].
Proof. reflexivity. Qed.
Theorem entity_event_triggers_once o ty e p w : triggers_of (snd (act P o (AEntityEvent ty e p) w)) = [CEntityEvent ty (resolve w e) p].
Proof. reflexivity. Qed.

(* ReactCommands::insert: at most one insertion command pair is queued ... *)
Theorem insert_queues o c e v w :
  snd (act P o (AInsert c e v) w) =
  if is_alive (resolve w e) w then [CMark o; CTryInsertReact c (resolve w e) v; CSchedIns c (resolve w e)] else [CMark o].
Proof. cbn [act]. destruct (is_alive (resolve w e) w); reflexivity. Qed.

(* ... and when the two commands are applied (back to back: try_insert queues nothing), the insertion trigger carries a key
   if and only if the entity still exists at that moment, i.e. iff the component was actually inserted *)
Theorem insert_triggers_iff_inserted c e v w :
  let w1 := fst (apply_prim P (CTryInsertReact c e v) w) in
  snd (apply_prim P (CTryInsertReact c e v) w) = [] /\
  match is_alive e w with
  | true => comp_value c e w1 = Some v /\ (forall c0 e0, (c0, e0) <> (c, e) -> alookup2 c0 e0 (comps w1) = alookup2 c0 e0 (comps w))
  | false => w1 = w
  end.
Proof.
  cbn [apply_prim fst snd]. split; [reflexivity|]. destruct (is_alive e w) eqn:EA; [|reflexivity].
  split.
  - unfold comp_value, is_alive in *. cbn. rewrite EA. apply alookup2_aset2_same.
  - intros c0 e0 Hne. cbn. induction (comps w) as [|[[a b] x] l IH]; cbn.
    + destruct (N.eqb_spec c0 c), (N.eqb_spec e0 e); cbn; try reflexivity. subst. congruence.
    + destruct (N.eqb c a && N.eqb e b) eqn:E1; cbn.
      * apply andb_true_iff in E1. destruct E1 as [E1 E2]. apply N.eqb_eq in E1, E2. subst.
        destruct (N.eqb_spec c0 a), (N.eqb_spec e0 b); cbn; try reflexivity. subst. congruence.
      * destruct (N.eqb c0 a && N.eqb e0 b); [reflexivity|exact IH].
Qed.
End Accessor.
