(* DefaultSpec.v — C02 for the commands that draw no ticket (plain system commands, resource-mutation reactions): over a
   whole run, for every target system, the number of such commands applied equals the number of times one of them was
   set up (by the run it caused or by the abort path).  Ghost g_dprep records the target of each such command when it is
   applied; run_setup SuDefault records a claim (0, target, []).  The balance
       F s w = #applied(s) - #set up(s) - #waiting in the buffer(s)
   is shown to change, over the execution of any instruction, by exactly the number of such commands the instruction
   holds in hand (direct induction over the interpreter); at quiescence the buffer is empty. *)
From Coq Require Import ZArith Lia.
From Cobweb Require Import Machine.
From CobwebProofs Require Import ListLemmas Closed Frames RunnerInv TicketInv TopLevel.

Definition dpv (w : world) := g_dprep w.

Lemma dpv_handle_drop h w : dpv (handle_drop h w) = dpv w.
Proof.
  destruct h as [s|g s]; cbn; [reflexivity|]. unfold sig_drop.
  destruct (alookup g (sigs w)) as [[e n]|]; [|reflexivity]. destruct (N.leb n 1); reflexivity.
Qed.
Lemma dpv_handle_clone h w : dpv (handle_clone h w) = dpv w.
Proof. destruct h as [s|g s]; cbn; [reflexivity|]. unfold sig_clone. destruct (alookup g (sigs w)) as [[e n]|]; reflexivity. Qed.
Lemma dpv_handles_drop hs : forall w, dpv (handles_drop hs w) = dpv w.
Proof. induction hs as [|h hs IH]; intros w; cbn; [reflexivity|]. rewrite IH. apply dpv_handle_drop. Qed.
Lemma dpv_push_removed_all cs e : forall w, dpv (push_removed_all cs e w) = dpv w.
Proof. induction cs as [|c cs IH]; intros w; cbn; [reflexivity|]. rewrite IH. reflexivity. Qed.
Lemma dpv_drop_callback t w : dpv (drop_callback t w) = dpv w.
Proof. unfold drop_callback. destruct (alookup t (cbs w)) as [cb|]; [destruct (cb_live cb)|]; reflexivity. Qed.
Lemma dpv_drop_ddata d w : dpv (drop_ddata d w) = dpv w.
Proof. destruct d as [? ? ?|? ? ? ?|? [?|]]; reflexivity. Qed.
Lemma dpv_take_sysevents tys : forall w, dpv (snd (take_sysevents tys w)) = dpv w.
Proof.
  induction tys as [|ty r IH]; intros w; cbn [take_sysevents]; [reflexivity|].
  destruct (peek_sysevent ty w) as [p|]; [|apply IH].
  match goal with |- context [take_sysevents r ?w1] => specialize (IH w1); destruct (take_sysevents r w1) end. exact IH.
Qed.
Lemma dpv_sample_readers sd x w : dpv (snd (sample_readers sd x w)) = dpv w.
Proof.
  unfold sample_readers. pose proof (dpv_take_sysevents TYPES w) as H1.
  destruct (sd_take sd); [destruct (take_sysevents TYPES w) as [s w1]; exact H1|reflexivity].
Qed.
Lemma dpv_revoke_one s t w : dpv (revoke_one s t w) = dpv w.
Proof.
  assert (Hent : forall e rt, dpv (if is_alive e w then
             match alookup e (ereactors w) with
             | Some l => let (d, k) := er_remove rt s l in handles_drop d (w <| ereactors := aset e k (ereactors w) |>)
             | None => w end else w) = dpv w).
  { intros e rt. destruct (is_alive e w); [|reflexivity]. destruct (alookup e (ereactors w)) as [l|]; [|reflexivity].
    destruct (er_remove rt s l) as [d k]. rewrite dpv_handles_drop. reflexivity. }
  assert (Hcomp : forall kd c, dpv (comp_revoke kd c s w) = dpv w).
  { intros kd c. unfold comp_revoke. destruct (alookup c (comp_tbl w)) as [[[i m] r]|]; [|reflexivity].
    destruct (remove_first s match kd with KIns => i | KMut => m | KRem => r end) as [o l'].
    destruct (match kd with KIns => (l', m, r) | KMut => (i, l', r) | KRem => (i, m, l') end) as [[i' m'] r'].
    destruct o as [h|]; [rewrite dpv_handle_drop|]; (destruct i'; [destruct m'; [destruct r'|]|]); reflexivity. }
  destruct t; cbn [revoke_one]; try apply Hent; try apply Hcomp.
  - destruct (tbl_revoke ty s (bc_tbl w)) as [o t']. destruct o; [rewrite dpv_handle_drop|]; reflexivity.
  - destruct (tbl_revoke ty s (any_tbl w)) as [o t']. destruct o; [rewrite dpv_handle_drop|]; reflexivity.
  - destruct (tbl_revoke r s (res_tbl w)) as [o t']. destruct o; [rewrite dpv_handle_drop|]; reflexivity.
  - destruct (tbl_revoke e s (desp_tbl w)) as [o t']. destruct o; [rewrite dpv_handle_drop|]; reflexivity.
Qed.
Lemma dpv_revoke_all s ts : forall w, dpv (revoke_all s ts w) = dpv w.
Proof. induction ts as [|t ts IH]; intros w; cbn; [reflexivity|]. rewrite IH. apply dpv_revoke_one. Qed.
Lemma dpv_reg_triggers_cmds h ts : forall w, dpv (fst (reg_triggers_cmds h ts w)) = dpv w.
Proof.
  induction ts as [|t ts IH]; intros w; cbn [reg_triggers_cmds]; [reflexivity|].
  destruct (reg_trigger_cmds h t w) as [w1 c1] eqn:E1. destruct (reg_triggers_cmds h ts w1) as [w2 c2] eqn:E2. cbn [fst].
  assert (H1 : dpv w1 = dpv w).
  { destruct t; cbn in E1; try (inversion E1; subst; apply dpv_handle_clone).
    destruct (is_alive e w); inversion E1; subst; [apply dpv_handle_clone|reflexivity]. }
  specialize (IH w1). rewrite E2 in IH. cbn [fst] in IH. congruence.
Qed.
Lemma dpv_poll_despawns chan : forall w, dpv (fst (poll_despawns chan w)) = dpv w.
Proof.
  induction chan as [|e r IH]; intros w; cbn [poll_despawns]; [reflexivity|].
  specialize (IH (w <| desp_tbl := aremove e (desp_tbl w) |>)). destruct (poll_despawns r _) as [w2 cs]. exact IH.
Qed.
Lemma dpv_poll w : dpv (fst (poll w)) = dpv w.
Proof.
  unfold poll. destruct (poll_removals (removal_checkers w) w) as [chk c1].
  pose proof (dpv_poll_despawns (despawn_chan (w <| removal_checkers := chk |>)) ((w <| removal_checkers := chk |>) <| despawn_chan := [] |>)) as H.
  destruct (poll_despawns _ _) as [w2 c2]. exact H.
Qed.
Lemma dpv_comp_push kd c h w : dpv (comp_push kd c h w) = dpv w.
Proof. unfold comp_push. destruct (alookup c (comp_tbl w)) as [[[i m] r]|]; destruct kd; reflexivity. Qed.

Lemma dpv_dsp_alive e w : dpv (dsp_alive e w) = dpv w. Proof. reflexivity. Qed.
Lemma dpv_dsp_comps e w : dpv (dsp_comps e w) = dpv w.
Proof. unfold dsp_comps. etransitivity; [|apply (dpv_push_removed_all (comps_of e (comps w)) e w)]. reflexivity. Qed.
Lemma dpv_dsp_storage e w : dpv (dsp_storage e w) = dpv w.
Proof.
  unfold dsp_storage. destruct (alookup e (storage w)) as [[|]|]; try reflexivity.
  etransitivity; [|apply (dpv_drop_callback e w)]. reflexivity.
Qed.
Lemma dpv_dsp_ereactors e w : dpv (dsp_ereactors e w) = dpv w.
Proof.
  unfold dsp_ereactors. destruct (alookup e (ereactors w)) as [l|]; [|reflexivity].
  etransitivity; [|apply (dpv_handles_drop (map snd l) w)]. reflexivity.
Qed.
Lemma dpv_dsp_tracker e w : dpv (dsp_tracker e w) = dpv w.
Proof. unfold dsp_tracker. destruct (memN e (dtrackers w)); reflexivity. Qed.
Lemma dpv_dsp_data e w : dpv (dsp_data e w) = dpv w.
Proof.
  unfold dsp_data. destruct (alookup e (dataents w)) as [d|]; [|reflexivity].
  etransitivity; [|apply (dpv_drop_ddata d w)]. reflexivity.
Qed.
Lemma dpv_dsp_xlocals e w : dpv (dsp_xlocals e w) = dpv w. Proof. reflexivity. Qed.
Lemma dpv_despawn e w : dpv (despawn e w) = dpv w.
Proof.
  unfold despawn. destruct (negb (is_alive e w)); [reflexivity|].
  rewrite dpv_dsp_xlocals, dpv_dsp_data, dpv_dsp_tracker, dpv_dsp_ereactors, dpv_dsp_storage, dpv_dsp_comps. apply dpv_dsp_alive.
Qed.
Lemma dpv_try_cleanup d w : dpv (try_cleanup_data_entity d w) = dpv w.
Proof.
  unfold try_cleanup_data_entity. destruct (negb (is_alive d w)); [reflexivity|].
  destruct (alookup d (dataents w)) as [[ty p cnt|ty t p cnt|ty p]|]; try reflexivity.
  - match goal with |- dpv (if ?b then despawn d ?w1 else ?w1) = _ => destruct b; [rewrite dpv_despawn|]; reflexivity end.
  - match goal with |- dpv (if ?b then despawn d ?w1 else ?w1) = _ => destruct b; [rewrite dpv_despawn|]; reflexivity end.
Qed.

Section DSteps.
Variable P : program.

Lemma dpv_reserve id w : dpv (reserve id w) = dpv w.
Proof. unfold reserve, bind_id. destruct (memN id (bound w)); reflexivity. Qed.
Lemma dpv_act o a w : dpv (fst (act P o a w)) = dpv w.
Proof.
  destruct a; cbn [act];
  repeat match goal with
         | |- context [if ?b then _ else _] => destruct b
         | |- context [match alookup2 ?a ?b ?c with _ => _ end] => destruct (alookup2 a b c)
         | |- context [match alookup ?a ?c with _ => _ end] => destruct (alookup a c) as [[? ?]|]
         | |- context [match ?m with Persistent => _ | _ => _ end] => destruct m
         end; cbn [fst]; try reflexivity; try apply dpv_reserve.
  all: try (destruct (alookup wr (p_wr P)); reflexivity).
  all: try (change (dpv (reserve s w) = dpv w); apply dpv_reserve).
Qed.
Lemma dpv_acts l : forall mk idx w, dpv (fst (acts P mk idx l w)) = dpv w.
Proof.
  induction l as [|a l IH]; intros mk idx w; cbn [acts]; [reflexivity|].
  pose proof (dpv_act (mk idx) a w) as H1. destruct (act P (mk idx) a w) as [w1 c1].
  specialize (IH mk (idx + 1) w1). destruct (acts P mk (idx + 1) l w1) as [w2 c2]. cbn [fst] in *. congruence.
Qed.
Lemma dpv_body_sample sd t r c w : dpv (body_sample P sd t r c w) = dpv w.
Proof.
  unfold body_sample. pose proof (dpv_sample_readers sd (xsys_of P t) w) as H1.
  destruct (sample_readers sd (xsys_of P t) w) as [sm w1]. cbn [snd] in H1.
  destruct (sm_l sm) as [[src [v|]]|]; try exact H1. destruct (xsys_of P t) as [[x ?]|]; exact H1.
Qed.
Lemma dpv_state_bump t w : dpv (state_bump t w) = dpv w.
Proof. unfold state_bump. destruct (alookup t (cbs w)); reflexivity. Qed.
Lemma dpv_body_begin sd t r c w : dpv (body_begin P sd t r c w) = dpv w.
Proof. unfold body_begin. rewrite dpv_state_bump. apply dpv_body_sample. Qed.
Lemma dpv_run_cleanup cl w : dpv (run_cleanup cl w) = dpv w.
Proof.
  destruct cl; cbn [run_cleanup]; try reflexivity.
  - rewrite dpv_despawn. reflexivity.
  - destruct (snd (cur (tr_de w))) as [h|]; [rewrite dpv_handle_drop|]; reflexivity.
  - rewrite dpv_try_cleanup. reflexivity.
  - rewrite dpv_try_cleanup. reflexivity.
Qed.
Lemma dpv_prim c w : is_cleanup_cmd c = false -> dpv (fst (apply_prim P c w)) = dpv w.
Proof.
  intros Hc. destruct c; try discriminate Hc; cbn [apply_prim]; try reflexivity.
  - destruct (is_alive d w); reflexivity.
  - destruct (tbl_get ty (bc_tbl w)); reflexivity.
  - destruct (entity_targets e (REvent ty) w ++ map handle_sys (tbl_get ty (any_tbl w))); reflexivity.
  - match goal with |- context [if ?b then _ else _] => destruct b end; reflexivity.
  - destruct (is_alive e w); reflexivity.
  - destruct (is_alive e w); [|reflexivity]. destruct (alookup2 c e (comps w)); reflexivity.
  - apply dpv_despawn.
  - apply dpv_despawn.
  - destruct (is_alive s w && negb (memN s (spawned w))); reflexivity.
  - destruct (negb (is_alive s w)); [reflexivity|]. destruct (negb (memN s (spawned w))); reflexivity.
  - assert (Hh : forall h w0, dpv (fst (let (w1, cs) := reg_triggers_cmds h b w0 in (handle_drop h w1, cs))) = dpv w0).
    { intros h w0. pose proof (dpv_reg_triggers_cmds h b w0) as H1. destruct (reg_triggers_cmds h b w0) as [w1 cs]. cbn [fst] in *.
      rewrite dpv_handle_drop. exact H1. }
    destruct m; [apply Hh| |]; (unfold sig_new; rewrite Hh; reflexivity).
  - destruct t; cbn [fst]; try apply dpv_handle_drop; try reflexivity.
    + apply dpv_comp_push.
    + apply dpv_comp_push.
    + rewrite dpv_comp_push. unfold track_removals. destruct (ahas c (removal_checkers w)); reflexivity.
  - destruct (is_alive e w); [destruct (alookup e (ereactors w)); reflexivity|apply dpv_handle_drop].
  - unfold track_removals. destruct (ahas c (removal_checkers w)); reflexivity.
  - destruct (is_alive e w); [|apply dpv_handle_drop].
    match goal with |- context [if ?b then _ else _] => destruct b end; reflexivity.
  - destruct tk as [ts s]. apply dpv_revoke_all.
  - destruct (alookup x (p_xr P)) as [[s shape]|]; [destruct (is_alive e w)|]; reflexivity.
  - destruct (alookup x (p_xr P)) as [[s shape]|]; reflexivity.
  - destruct (is_alive e w); reflexivity.
  - destruct (is_alive e w); [|reflexivity]. destruct (alookup e (ereactors w)); [|reflexivity].
    match goal with |- context [if ?b then _ else _] => destruct b end; reflexivity.
  - apply dpv_poll.
Qed.

Lemma dpv_prim_any c w : dpv (fst (apply_prim P c w)) = dpv w.
Proof.
  destruct (is_cleanup_cmd c) eqn:Hc; [|apply dpv_prim, Hc].
  destruct c; try discriminate Hc. cbn [apply_prim fst]. apply dpv_run_cleanup.
Qed.
End DSteps.

(* ---------------------------------------------------------------------------------------------------------------- *)
Definition is_default (b : buffered) : bool := match b_setup b with SuDefault => true | _ => false end.
Definition cnt {A} (f : A -> bool) (l : list A) : Z := Z.of_nat (length (filter f l)).
Lemma cnt_app {A} (f : A -> bool) l1 l2 : cnt f (l1 ++ l2) = (cnt f l1 + cnt f l2)%Z.
Proof. unfold cnt. rewrite filter_app, app_length. lia. Qed.
Lemma cnt_cons {A} (f : A -> bool) x l : cnt f (x :: l) = ((if f x then 1 else 0) + cnt f l)%Z.
Proof. unfold cnt. cbn [filter]. destruct (f x); cbn [length]; lia. Qed.
Lemma cnt_nil {A} (f : A -> bool) : cnt f [] = 0%Z. Proof. reflexivity. Qed.
Lemma cnt_one {A} (f : A -> bool) x : cnt f [x] = (if f x then 1 else 0)%Z.
Proof. unfold cnt. cbn. destruct (f x); reflexivity. Qed.

Section Balance.
Variable P : program.
Variable s : ent.

Definition dmatch (b : buffered) : bool := is_default b && N.eqb (b_sys b) s.
Definition cmatch (c : N * ent * list pitem) : bool := match snd c with [] => N.eqb (snd (fst c)) s | _ => false end.
Definition dcount (l : list buffered) : Z := cnt dmatch l.
(* applied - set up - waiting in the buffer, for the commands without ticket that target s *)
Definition F (w : world) : Z := (cnt (N.eqb s) (g_dprep w) - cnt cmatch (g_claim w) - dcount (buffer w))%Z.
Definition fv (w : world) := (g_dprep w, g_claim w, buffer w).
Lemma F_fv w w' : fv w' = fv w -> F w' = F w.
Proof. unfold fv, F. intros H. injection H as H1 H2 H3. rewrite H1, H2, H3. reflexivity. Qed.
Lemma F_emit e w : F (emit e w) = F w.
Proof. reflexivity. Qed.
Lemma fv_views w w' : kview0 w' = kview0 w -> dpv w' = dpv w -> fv w' = fv w.
Proof. unfold kview0, dpv, fv. intros H1 H2. inversion H1. rewrite H2. congruence. Qed.
Lemma fv_kview w w' : kview w' = kview w -> dpv w' = dpv w -> fv w' = fv w.
Proof. intros H1 H2. apply fv_views; [apply kview_kview0; exact H1|exact H2]. Qed.

Definition held (i : instr) : list buffered :=
  match i with
  | IRunner t su cl | IRun t su cl _ | IAbort t su cl => [mkBuf t su cl]
  | IReplay _ pending kept => pending ++ kept
  | _ => []
  end.

Lemma fv_run_cleanup cl w : fv (run_cleanup cl w) = fv w.
Proof.
  destruct cl; cbn [run_cleanup]; try reflexivity.
  - etransitivity; [apply fv_kview; [apply kview_despawn|apply dpv_despawn]|]. reflexivity.
  - destruct (snd (cur (tr_de w))) as [h|]; [|reflexivity]. etransitivity; [apply fv_kview; [apply kview_handle_drop|apply dpv_handle_drop]|]. reflexivity.
  - etransitivity; [apply fv_kview; [apply kview_try_cleanup|apply dpv_try_cleanup]|]. reflexivity.
  - etransitivity; [apply fv_kview; [apply kview_try_cleanup|apply dpv_try_cleanup]|]. reflexivity.
Qed.
Lemma fv_prim c w : fv (fst (apply_prim P c w)) = fv w.
Proof.
  destruct (is_cleanup_cmd c) eqn:Hc; [|apply fv_kview; [apply kview_prim; exact Hc|apply dpv_prim; exact Hc]].
  destruct c; try discriminate Hc. cbn [apply_prim fst]. apply fv_run_cleanup.
Qed.
Lemma fv_act o a w : fv (fst (act P o a w)) = fv w.
Proof. apply fv_kview; [apply kview_act|apply dpv_act]. Qed.
Lemma fv_acts l mk idx w : fv (fst (acts P mk idx l w)) = fv w.
Proof. apply fv_kview; [apply kview_acts|apply dpv_acts]. Qed.
Lemma fv_poll w : fv (fst (poll w)) = fv w.
Proof. apply fv_kview; [apply kview_poll|apply dpv_poll]. Qed.
Lemma fv_despawn e w : fv (despawn e w) = fv w.
Proof. apply fv_kview; [apply kview_despawn|apply dpv_despawn]. Qed.
Lemma fv_drop_callback t w : fv (drop_callback t w) = fv w.
Proof. apply fv_kview; [apply kview_drop_callback|apply dpv_drop_callback]. Qed.
Lemma fv_body_begin sd t r c w : fv (body_begin P sd t r c w) = fv w.
Proof. apply fv_views; [apply kview0_body_begin|apply dpv_body_begin]. Qed.

Lemma F_prepare c w t su cl w1 : prepare_cmd c w = Some (t, su, cl, w1) -> F w1 = (F w + dcount [mkBuf t su cl])%Z.
Proof.
  intros E. unfold dcount. rewrite cnt_one. unfold dmatch, is_default. cbn [b_setup b_sys].
  destruct c; try discriminate E; cbn [prepare_cmd] in E.
  - inversion E; subst. unfold F. cbn [g_dprep g_claim buffer set]. rewrite cnt_app, cnt_one. cbn [andb]. rewrite (N.eqb_sym s t). destruct (N.eqb t s); lia.
  - unfold fresh_ticket in E. inversion E; subst. cbn [andb]. rewrite Z.add_0_r. apply F_fv. reflexivity.
  - destruct r; unfold fresh_ticket in E; inversion E; subst; cbn [andb]; try (rewrite Z.add_0_r; apply F_fv; reflexivity).
    unfold F. cbn [g_dprep g_claim buffer set]. rewrite cnt_app, cnt_one. rewrite (N.eqb_sym s t). destruct (N.eqb t s); lia.
Qed.
Lemma F_setup su t cl w w0 : run_setup su t w = Some w0 -> F w0 = (F w - dcount [mkBuf t su cl])%Z.
Proof.
  intros E. unfold dcount. rewrite cnt_one. unfold dmatch, is_default. cbn [b_setup b_sys].
  destruct su; cbn [run_setup] in E;
    repeat match type of E with context [match ?x with Some _ => _ | None => _ end] => destruct x; [|discriminate E] end;
    inversion E; subst; clear E; unfold F, note_claim, emit; cbn [g_dprep g_claim buffer set log]; rewrite cnt_app, cnt_one; unfold cmatch; cbn [fst snd andb].
  - destruct (N.eqb t s); lia.
  - lia.
  - lia.
  - lia.
  - lia.
  - lia.
Qed.

Ltac bind_inv E w1 E1 :=
  match type of E with
  | bind ?r _ = Ok _ => destruct r as [w1| |] eqn:E1; cbn [bind] in E; [|discriminate E|discriminate E]
  end.

Theorem exec_balance : forall fuel i w w', exec P fuel i w = Ok w' -> F w' = (F w - dcount (held i))%Z.
Proof.
  induction fuel as [|f IH]; intros i w w' E; [discriminate E|].
  assert (IH0 : forall i0 w0 w0', exec P f i0 w0 = Ok w0' -> held i0 = [] -> F w0' = F w0).
  { intros i0 w0 w0' E0 Hh. rewrite (IH i0 w0 w0' E0), Hh. unfold dcount. rewrite cnt_nil. lia. }
  destruct i; cbn [exec] in E; cbn [held]; unfold dcount in *; rewrite ?cnt_nil, ?Z.sub_0_r.
  - (* IApply *)
    destruct (prepare_cmd c w) as [[[[t su] cl] w1]|] eqn:EP.
    + rewrite (IH _ _ _ E). cbn [held]. rewrite (F_prepare _ _ _ _ _ _ EP). unfold dcount. lia.
    + assert (Hprim : forall c0 w2 cs, apply_prim P c0 w = (w2, cs) -> exec P f (IApplyList cs) w2 = Ok w' -> F w' = F w).
      { intros c0 w2 cs Ea Ee. rewrite (IH0 _ _ _ Ee eq_refl). pose proof (fv_prim c0 w) as H. rewrite Ea in H. apply F_fv. exact H. }
      destruct c; try (destruct (apply_prim P _ w) as [w2 cs] eqn:Ea; eapply Hprim; [exact Ea|exact E]); try discriminate EP.
      * destruct (is_alive s0 w); [|discriminate E]. destruct (apply_prim P (CSpawnSys s0) w) as [w2 cs] eqn:Ea. eapply Hprim; [exact Ea|exact E].
      * exact (IH0 IGC w w' E eq_refl).
  - (* IApplyList *)
    destruct cs as [|c cs]; [inversion E; reflexivity|]. bind_inv E w1 E1.
    rewrite (IH0 _ _ _ E eq_refl). exact (IH0 _ _ _ E1 eq_refl).
  - (* IRunner *)
    bind_inv E w1 E1. bind_inv E w2 E2.
    assert (H2 : F w2 = F w) by (rewrite (IH0 _ _ _ E2 eq_refl), (IH0 _ _ _ E1 eq_refl); apply F_fv; reflexivity).
    assert (Habort : forall n w3, exec P f (IAbort t su cl) (emit (EvAbort t (setup_ticket su) n) w2) = Ok w3 ->
                       F (emit (EvExit t (setup_ticket su)) w3) = (F w - cnt dmatch [mkBuf t su cl])%Z).
    { intros n w3 E3. rewrite F_emit. rewrite (IH _ _ _ E3). cbn [held]. unfold dcount. rewrite <- H2. rewrite F_emit. reflexivity. }
    destruct (lookup_storage t w2) eqn:EL.
    + bind_inv E w3 E3. inversion E; subst. eapply Habort; eauto.
    + bind_inv E w3 E3. inversion E; subst. eapply Habort; eauto.
    + destruct (N.eqb (counter w) 0).
      * bind_inv E w3 E3. inversion E; subst. eapply Habort; eauto.
      * inversion E; subst. rewrite <- H2. unfold rn_postpone, F, emit. cbn [g_dprep g_claim buffer set log]. unfold dcount. rewrite cnt_app. lia.
    + rewrite (IH _ _ _ E). cbn [held]. unfold dcount. rewrite H2. reflexivity.
  - (* IRun *)
    destruct (run_setup su t (rn_take t su w)) as [w0|] eqn:ES; [|discriminate E].
    bind_inv E w1 E1. bind_inv E w2 E2. bind_inv E w3 E3. bind_inv E w4 E4. bind_inv E w5 E5. bind_inv E w6 E6. inversion E; subst. clear E.
    assert (H0 : F w0 = (F w - cnt dmatch [mkBuf t su cl])%Z).
    { rewrite (F_setup su t cl _ _ ES). unfold dcount. reflexivity. }
    assert (H1 : F w1 = F w0) by exact (IH0 _ _ _ E1 eq_refl).
    assert (H2 : F w2 = F w1) by exact (IH0 _ _ _ E2 eq_refl).
    assert (H3 : F w3 = F w2).
    { destruct (lookup_storage t w2) eqn:EL.
      - rewrite (IH0 _ _ _ E3 eq_refl). unfold rn_dropped. rewrite F_emit. apply F_fv, fv_drop_callback.
      - rewrite (IH0 _ _ _ E3 eq_refl). unfold rn_despawn_missing. rewrite F_emit. etransitivity; [apply F_fv, fv_despawn|]. apply F_fv, fv_drop_callback.
      - inversion E3; subst. apply F_fv. reflexivity.
      - inversion E3; subst. apply F_fv. reflexivity. }
    assert (H4 : F w4 = F w3) by exact (IH0 _ _ _ E4 eq_refl).
    assert (H5 : F w5 = F w4).
    { rewrite (IH _ _ _ E5). cbn [held]. rewrite app_nil_r. unfold F, dcount. cbn [g_dprep g_claim buffer set]. rewrite cnt_nil. lia. }
    assert (H6 : F w6 = F w5).
    { destruct (N.eqb idx 0).
      - bind_inv E6 w7 E7. inversion E6; subst. transitivity (F w7); [apply F_fv; reflexivity|]. exact (IH0 _ _ _ E7 eq_refl).
      - inversion E6; subst. reflexivity. }
    rewrite F_emit. rewrite H6, H5, H4, H3, H2, H1, H0. reflexivity.
  - (* ICallback *)
    destruct (alookup t (cbs w)) as [cb|]; [|discriminate E].
    destruct (cb_once cb) as [tk|].
    + destruct (cb_taken cb); [inversion E; reflexivity|].
      bind_inv E w1 E1. bind_inv E w2 E2. inversion E; subst. clear E.
      assert (H1 : F w1 = F w) by (rewrite (IH0 _ _ _ E1 eq_refl); apply F_fv; reflexivity).
      assert (H2 : F w2 = F w1) by (rewrite (IH0 _ _ _ E2 eq_refl); apply F_fv, fv_despawn).
      rewrite <- H1, <- H2. apply F_fv. unfold once_finish. destruct (alookup t (cbs w2)); reflexivity.
    + rewrite (IH0 _ _ _ E eq_refl). apply F_fv. reflexivity.
  - (* IBody *)
    destruct (negb (body_guard t runno captured w)); [discriminate E|].
    destruct (sd_kind (sys_or_default P t)).
    + pose proof (fv_acts (script_of P t runno) (OSys t runno) 0 (body_begin P (sys_or_default P t) t runno captured w)) as Ha.
      destruct (acts P (OSys t runno) 0 (script_of P t runno) (body_begin P (sys_or_default P t) t runno captured w)) as [w1 cs]. cbn [fst] in Ha.
      rewrite (IH0 _ _ _ E eq_refl). unfold plain_cleanup. rewrite F_emit. etransitivity; [apply F_fv, fv_run_cleanup|].
      etransitivity; [apply F_fv; exact Ha|]. apply F_fv, fv_body_begin.
    + rewrite (IH0 _ _ _ E eq_refl). apply F_fv, fv_body_begin.
  - (* IExclSteps *)
    destruct l as [|a r]; [exact (IH0 _ _ _ E eq_refl)|].
    pose proof (fv_act (OSys s0 run idx) a w) as Ha. destruct (act P (OSys s0 run idx) a w) as [w1 cs]. cbn [fst] in Ha.
    bind_inv E w2 E2. rewrite (IH0 _ _ _ E eq_refl), (IH0 _ _ _ E2 eq_refl). apply F_fv. exact Ha.
  - (* IDirectSteps *)
    destruct l as [|a r]; [inversion E; reflexivity|].
    pose proof (fv_act (OTop op idx) a w) as Ha. destruct (act P (OTop op idx) a w) as [w1 cs]. cbn [fst] in Ha.
    bind_inv E w2 E2. rewrite (IH0 _ _ _ E eq_refl), (IH0 _ _ _ E2 eq_refl). apply F_fv. exact Ha.
  - (* IBatches *)
    destruct bs as [|b r]; [inversion E; reflexivity|].
    pose proof (fv_acts b (OTop op) idx w) as Ha. destruct (acts P (OTop op) idx b w) as [w1 cs]. cbn [fst] in Ha.
    bind_inv E w2 E2. rewrite (IH0 _ _ _ E eq_refl), (IH0 _ _ _ E2 eq_refl). apply F_fv. exact Ha.
  - (* IReplay *)
    destruct pending as [|b pending].
    + inversion E; subst. unfold F, dcount. cbn [g_dprep g_claim buffer set app]. rewrite cnt_app. lia.
    + destruct (N.eqb (b_sys b) t).
      * bind_inv E w1 E1. rewrite (IH _ _ _ E), (IH _ _ _ E1). cbn [held app]. unfold dcount. destruct b as [bs bsu bcl]. cbn [b_sys b_setup b_cleanup].
        rewrite ?cnt_cons, ?cnt_app, ?cnt_nil. lia.
      * rewrite (IH _ _ _ E). cbn [held app]. unfold dcount. rewrite ?cnt_cons, ?cnt_app, ?cnt_cons, ?cnt_nil. lia.
  - (* IDiscard *)
    destruct (buffer w) as [|b rest] eqn:EB; [inversion E; reflexivity|].
    bind_inv E w1 E1. rewrite (IH0 _ _ _ E eq_refl), (IH _ _ _ E1). cbn [held]. unfold dcount, rn_discard_pop, F, emit. cbn [g_dprep g_claim buffer set log]. rewrite EB.
    destruct b as [bs bsu bcl]. cbn [b_sys b_setup b_cleanup]. unfold dcount. rewrite ?cnt_cons, ?cnt_nil. lia.
  - (* IAbort *)
    destruct (run_setup su t w) as [w0|] eqn:ES; [|discriminate E]. bind_inv E w1 E1.
    rewrite (IH0 _ _ _ E eq_refl), (IH0 _ _ _ E1 eq_refl). unfold rn_abort_cleanup. rewrite F_emit. etransitivity; [apply F_fv, fv_run_cleanup|].
    rewrite (F_setup su t cl _ _ ES). reflexivity.
  - (* IGC *)
    destruct (gc_chan w) as [|e r] eqn:EG; [inversion E; reflexivity|].
    rewrite (IH0 _ _ _ E eq_refl). unfold gc_step. etransitivity; [apply F_fv, fv_despawn|]. apply F_fv. reflexivity.
  - (* IPoll *)
    pose proof (fv_poll w) as Hp. destruct (poll w) as [w1 cs]. cbn [fst] in Hp. rewrite (IH0 _ _ _ E eq_refl). apply F_fv. exact Hp.
  - (* ITop *)
    bind_inv E w1 E1. inversion E; subst. clear E. unfold top_end. rewrite F_emit.
    destruct o as [l|l|bs].
    + pose proof (fv_acts l (OTop i) 0 w) as Ha. destruct (acts P (OTop i) 0 l w) as [w2 cs]. cbn [fst] in Ha.
      rewrite (IH0 _ _ _ E1 eq_refl). apply F_fv. exact Ha.
    + exact (IH0 _ _ _ E1 eq_refl).
    + bind_inv E1 w2 E2. bind_inv E1 w3 E3. bind_inv E1 w4 E4. inversion E1; subst. transitivity (F w4); [apply F_fv; reflexivity|].
      rewrite (IH0 _ _ _ E4 eq_refl), (IH0 _ _ _ E3 eq_refl). exact (IH0 _ _ _ E2 eq_refl).
Qed.
End Balance.

(* what the two ghosts record: a command that draws no ticket notes its target when it is applied; a claim without items is
   made by the setup of such a command and by no other *)
Lemma unticketed_command_noted c w t su cl w1 : prepare_cmd c w = Some (t, su, cl, w1) ->
  g_dprep w1 = g_dprep w ++ (if is_default (mkBuf t su cl) then [t] else []).
Proof.
  intros E. destruct c; try discriminate E; cbn [prepare_cmd] in E.
  - inversion E; subst. reflexivity.
  - unfold fresh_ticket in E. inversion E; subst. cbn. rewrite app_nil_r. reflexivity.
  - destruct r; unfold fresh_ticket in E; inversion E; subst; cbn; rewrite ?app_nil_r; reflexivity.
Qed.
Lemma setup_claims su t w w0 : run_setup su t w = Some w0 ->
  exists items, g_claim w0 = g_claim w ++ [(setup_ticket su, t, items)] /\ (items = [] <-> su = SuDefault).
Proof.
  intros E. destruct su; cbn [run_setup] in E;
    repeat match type of E with context [match ?x with Some _ => _ | None => _ end] => destruct x; [|discriminate E] end;
    inversion E; subst; clear E; unfold note_claim, emit; cbn [g_claim set setup_ticket]; eexists; (split; [reflexivity|]); split; intros H; try reflexivity; discriminate H.
Qed.

Section WholeRun.
Variable P : program.

Lemma run_tops_balance s fuel : forall l i w w', run_tops P fuel i l w = Ok w' -> F s w' = F s w.
Proof.
  induction l as [|o r IH]; intros i w w' E; cbn [run_tops] in E; [inversion E; reflexivity|].
  destruct (exec P fuel (ITop i o) w) as [w1| |] eqn:E1; cbn [bind] in E; try discriminate E.
  rewrite (IH _ _ _ E). rewrite (exec_balance P s fuel _ _ _ E1). cbn [held]. unfold dcount. rewrite cnt_nil. lia.
Qed.
Lemma fv_init : fv (install_static P init_world) = ([], [], []).
Proof.
  assert (Hgen : forall l w, fv (fold_left (fun w s => (reserve s w) <| storage ::= aset s true |> <| cbs ::= aset s (mkCb None 0 0 false true) |> <| spawned ::= cons s |>) l w) = fv w).
  { induction l as [|x l IH]; intros w; cbn [fold_left]; [reflexivity|]. rewrite IH. unfold fv. cbn [g_dprep g_claim buffer set].
    exact (fv_kview _ _ (kview_reserve x w) (dpv_reserve x w)). }
  unfold install_static. rewrite Hgen. reflexivity.
Qed.

(* C02, counting form for the commands that draw no ticket: over a whole run, for every target system s, the number of
   plain system commands / resource reactions applied for s equals the number of times one was set up for s (by the run
   it caused or by the abort path) — none is lost, none is resolved twice *)
Theorem unticketed_commands_are_resolved_exactly_once fuel w' : run P fuel = Ok w' ->
  forall s, length (filter (N.eqb s) (g_dprep w')) = length (filter (cmatch s) (g_claim w')).
Proof.
  intros E s. pose proof (run_quiescent P fuel w' E) as (_ & HB & _).
  unfold run in E. pose proof (run_tops_balance s fuel _ _ _ _ E) as HF.
  pose proof fv_init as Hi. unfold fv in Hi. injection Hi as H1 H2 H3.
  unfold F, dcount in HF. rewrite HB, H1, H2, H3 in HF. unfold cnt in HF. cbn [filter length] in HF. lia.
Qed.
(* the balance behind it, at every instruction: applied - set up - waiting changes by what the instruction holds *)
Theorem unticketed_balance s fuel i w w' : exec P fuel i w = Ok w' -> F s w' = (F s w - dcount s (held i))%Z.
Proof. apply exec_balance. Qed.
End WholeRun.

