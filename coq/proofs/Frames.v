(* Frames.v — steps that leave the trackers, the ticket counter and the postponed-command buffer alone
   (kview), generated from the same scripts as the rview lemmas of RunnerInv.v. *)
From Cobweb Require Import Machine.
From CobwebProofs Require Import ListLemmas.

Definition kview0 (w : world) := (ticket_ctr w, tr_ev w, tr_se w, tr_er w, tr_de w, buffer w, g_prep w, g_claim w).
Definition kview (w : world) := (kview0 w, (g_runs w, g_oruns w)).
Lemma kview_kview0 w w' : kview w' = kview w -> kview0 w' = kview0 w.
Proof. unfold kview. intros H. exact (f_equal fst H). Qed.

Lemma kview_handle_drop h w : kview (handle_drop h w) = kview w.
Proof.
  destruct h as [s|g s]; cbn; [reflexivity|]. unfold sig_drop.
  destruct (alookup g (sigs w)) as [[e n]|]; [|reflexivity]. destruct (N.leb n 1); reflexivity.
Qed.
Lemma kview_handle_clone h w : kview (handle_clone h w) = kview w.
Proof. destruct h as [s|g s]; cbn; [reflexivity|]. unfold sig_clone. destruct (alookup g (sigs w)) as [[e n]|]; reflexivity. Qed.
Lemma kview_handles_drop hs : forall w, kview (handles_drop hs w) = kview w.
Proof. induction hs as [|h hs IH]; intros w; cbn; [reflexivity|]. rewrite IH. apply kview_handle_drop. Qed.
Lemma kview_push_removed_all cs e : forall w, kview (push_removed_all cs e w) = kview w.
Proof. induction cs as [|c cs IH]; intros w; cbn; [reflexivity|]. rewrite IH. reflexivity. Qed.
Lemma kview_drop_callback t w : kview (drop_callback t w) = kview w.
Proof. unfold drop_callback. destruct (alookup t (cbs w)) as [cb|]; [destruct (cb_live cb)|]; reflexivity. Qed.
Lemma kview_drop_ddata d w : kview (drop_ddata d w) = kview w.
Proof. destruct d as [? ? ?|? ? ? ?|? [?|]]; reflexivity. Qed.
Lemma kview_take_sysevents tys : forall w, kview (snd (take_sysevents tys w)) = kview w.
Proof.
  induction tys as [|ty r IH]; intros w; cbn [take_sysevents]; [reflexivity|].
  destruct (peek_sysevent ty w) as [p|]; [|apply IH].
  match goal with |- context [take_sysevents r ?w1] => specialize (IH w1); destruct (take_sysevents r w1) end. exact IH.
Qed.
Lemma kview_sample_readers sd x w : kview (snd (sample_readers sd x w)) = kview w.
Proof.
  unfold sample_readers. pose proof (kview_take_sysevents TYPES w) as H1.
  destruct (sd_take sd); [destruct (take_sysevents TYPES w) as [s w1]; exact H1|reflexivity].
Qed.
Lemma kview_revoke_one s t w : kview (revoke_one s t w) = kview w.
Proof.
  assert (Hent : forall e rt, kview (if is_alive e w then
             match alookup e (ereactors w) with
             | Some l => let (d, k) := er_remove rt s l in handles_drop d (w <| ereactors := aset e k (ereactors w) |>)
             | None => w end else w) = kview w).
  { intros e rt. destruct (is_alive e w); [|reflexivity]. destruct (alookup e (ereactors w)) as [l|]; [|reflexivity].
    destruct (er_remove rt s l) as [d k]. rewrite kview_handles_drop. reflexivity. }
  assert (Hcomp : forall kd c, kview (comp_revoke kd c s w) = kview w).
  { intros kd c. unfold comp_revoke. destruct (alookup c (comp_tbl w)) as [[[i m] r]|]; [|reflexivity].
    destruct (remove_first s match kd with KIns => i | KMut => m | KRem => r end) as [o l'].
    destruct (match kd with KIns => (l', m, r) | KMut => (i, l', r) | KRem => (i, m, l') end) as [[i' m'] r'].
    destruct o as [h|]; [rewrite kview_handle_drop|]; (destruct i'; [destruct m'; [destruct r'|]|]); reflexivity. }
  destruct t; cbn [revoke_one]; try apply Hent; try apply Hcomp.
  - destruct (tbl_revoke ty s (bc_tbl w)) as [o t']. destruct o; [rewrite kview_handle_drop|]; reflexivity.
  - destruct (tbl_revoke ty s (any_tbl w)) as [o t']. destruct o; [rewrite kview_handle_drop|]; reflexivity.
  - destruct (tbl_revoke r s (res_tbl w)) as [o t']. destruct o; [rewrite kview_handle_drop|]; reflexivity.
  - destruct (tbl_revoke e s (desp_tbl w)) as [o t']. destruct o; [rewrite kview_handle_drop|]; reflexivity.
Qed.
Lemma kview_revoke_all s ts : forall w, kview (revoke_all s ts w) = kview w.
Proof. induction ts as [|t ts IH]; intros w; cbn; [reflexivity|]. rewrite IH. apply kview_revoke_one. Qed.
Lemma kview_reg_triggers_cmds h ts : forall w, kview (fst (reg_triggers_cmds h ts w)) = kview w.
Proof.
  induction ts as [|t ts IH]; intros w; cbn [reg_triggers_cmds]; [reflexivity|].
  destruct (reg_trigger_cmds h t w) as [w1 c1] eqn:E1. destruct (reg_triggers_cmds h ts w1) as [w2 c2] eqn:E2. cbn [fst].
  assert (H1 : kview w1 = kview w).
  { destruct t; cbn in E1; try (inversion E1; subst; apply kview_handle_clone).
    destruct (is_alive e w); inversion E1; subst; [apply kview_handle_clone|reflexivity]. }
  specialize (IH w1). rewrite E2 in IH. cbn [fst] in IH. congruence.
Qed.
Lemma kview_poll_despawns chan : forall w, kview (fst (poll_despawns chan w)) = kview w.
Proof.
  induction chan as [|e r IH]; intros w; cbn [poll_despawns]; [reflexivity|].
  specialize (IH (w <| desp_tbl := aremove e (desp_tbl w) |>)). destruct (poll_despawns r _) as [w2 cs]. exact IH.
Qed.
Lemma kview_poll w : kview (fst (poll w)) = kview w.
Proof.
  unfold poll. destruct (poll_removals (removal_checkers w) w) as [chk c1].
  pose proof (kview_poll_despawns (despawn_chan (w <| removal_checkers := chk |>)) ((w <| removal_checkers := chk |>) <| despawn_chan := [] |>)) as H.
  destruct (poll_despawns _ _) as [w2 c2]. exact H.
Qed.
Lemma kview_comp_push kd c h w : kview (comp_push kd c h w) = kview w.
Proof. unfold comp_push. destruct (alookup c (comp_tbl w)) as [[[i m] r]|]; destruct kd; reflexivity. Qed.

Lemma kview_dsp_alive e w : kview (dsp_alive e w) = kview w. Proof. reflexivity. Qed.
Lemma kview_dsp_comps e w : kview (dsp_comps e w) = kview w.
Proof. unfold dsp_comps. etransitivity; [|apply (kview_push_removed_all (comps_of e (comps w)) e w)]. reflexivity. Qed.
Lemma kview_dsp_storage e w : kview (dsp_storage e w) = kview w.
Proof.
  unfold dsp_storage. destruct (alookup e (storage w)) as [[|]|]; try reflexivity.
  etransitivity; [|apply (kview_drop_callback e w)]. reflexivity.
Qed.
Lemma kview_dsp_ereactors e w : kview (dsp_ereactors e w) = kview w.
Proof.
  unfold dsp_ereactors. destruct (alookup e (ereactors w)) as [l|]; [|reflexivity].
  etransitivity; [|apply (kview_handles_drop (map snd l) w)]. reflexivity.
Qed.
Lemma kview_dsp_tracker e w : kview (dsp_tracker e w) = kview w.
Proof. unfold dsp_tracker. destruct (memN e (dtrackers w)); reflexivity. Qed.
Lemma kview_dsp_data e w : kview (dsp_data e w) = kview w.
Proof.
  unfold dsp_data. destruct (alookup e (dataents w)) as [d|]; [|reflexivity].
  etransitivity; [|apply (kview_drop_ddata d w)]. reflexivity.
Qed.
Lemma kview_dsp_xlocals e w : kview (dsp_xlocals e w) = kview w. Proof. reflexivity. Qed.
Lemma kview_despawn e w : kview (despawn e w) = kview w.
Proof.
  unfold despawn. destruct (negb (is_alive e w)); [reflexivity|].
  rewrite kview_dsp_xlocals, kview_dsp_data, kview_dsp_tracker, kview_dsp_ereactors, kview_dsp_storage, kview_dsp_comps. apply kview_dsp_alive.
Qed.
Lemma kview_try_cleanup d w : kview (try_cleanup_data_entity d w) = kview w.
Proof.
  unfold try_cleanup_data_entity. destruct (negb (is_alive d w)); [reflexivity|].
  destruct (alookup d (dataents w)) as [[ty p cnt|ty t p cnt|ty p]|]; try reflexivity.
  - match goal with |- kview (if ?b then despawn d ?w1 else ?w1) = _ => destruct b; [rewrite kview_despawn|]; reflexivity end.
  - match goal with |- kview (if ?b then despawn d ?w1 else ?w1) = _ => destruct b; [rewrite kview_despawn|]; reflexivity end.
Qed.

Section KSteps.
Variable P : program.

Lemma kview_reserve id w : kview (reserve id w) = kview w.
Proof. unfold reserve, bind_id. destruct (memN id (bound w)); reflexivity. Qed.
Lemma kview_act o a w : kview (fst (act P o a w)) = kview w.
Proof.
  destruct a; cbn [act];
  repeat match goal with
         | |- context [if ?b then _ else _] => destruct b
         | |- context [match alookup2 ?a ?b ?c with _ => _ end] => destruct (alookup2 a b c)
         | |- context [match alookup ?a ?c with _ => _ end] => destruct (alookup a c) as [[? ?]|]
         | |- context [match ?m with Persistent => _ | _ => _ end] => destruct m
         end; cbn [fst]; try reflexivity; try apply kview_reserve.
  all: try (destruct (alookup wr (p_wr P)); reflexivity).
  all: try (change (kview (reserve s w) = kview w); apply kview_reserve).
Qed.
Lemma kview_acts l : forall mk idx w, kview (fst (acts P mk idx l w)) = kview w.
Proof.
  induction l as [|a l IH]; intros mk idx w; cbn [acts]; [reflexivity|].
  pose proof (kview_act (mk idx) a w) as H1. destruct (act P (mk idx) a w) as [w1 c1].
  specialize (IH mk (idx + 1) w1). destruct (acts P mk (idx + 1) l w1) as [w2 c2]. cbn [fst] in *. congruence.
Qed.
Lemma kview0_body_sample sd t r c w : kview0 (body_sample P sd t r c w) = kview0 w.
Proof.
  unfold body_sample. pose proof (kview_sample_readers sd (xsys_of P t) w) as H1. apply kview_kview0 in H1.
  destruct (sample_readers sd (xsys_of P t) w) as [sm w1]. cbn [snd] in H1.
  destruct (sm_l sm) as [[src [v|]]|]; try exact H1. destruct (xsys_of P t) as [[x ?]|]; exact H1.
Qed.
Lemma kview_state_bump t w : kview (state_bump t w) = kview w.
Proof. unfold state_bump. destruct (alookup t (cbs w)); reflexivity. Qed.
Lemma kview0_body_begin sd t r c w : kview0 (body_begin P sd t r c w) = kview0 w.
Proof. unfold body_begin. rewrite (kview_kview0 _ _ (kview_state_bump _ _)). apply kview0_body_sample. Qed.
Definition is_cleanup_cmd (c : cmd) : bool := match c with CCleanup _ => true | _ => false end.

Lemma kview_prim c w : is_cleanup_cmd c = false -> kview (fst (apply_prim P c w)) = kview w.
Proof.
  intros Hc. destruct c; try discriminate Hc; cbn [apply_prim]; try reflexivity.
  - destruct (is_alive d w); reflexivity.
  - destruct (tbl_get ty (bc_tbl w)); reflexivity.
  - destruct (entity_targets e (REvent ty) w ++ map handle_sys (tbl_get ty (any_tbl w))); reflexivity.
  - match goal with |- context [if ?b then _ else _] => destruct b end; reflexivity.
  - destruct (is_alive e w); reflexivity.
  - destruct (is_alive e w); [|reflexivity]. destruct (alookup2 c e (comps w)); reflexivity.
  - apply kview_despawn.
  - apply kview_despawn.
  - destruct (is_alive s w && negb (memN s (spawned w))); reflexivity.
  - destruct (negb (is_alive s w)); [reflexivity|]. destruct (negb (memN s (spawned w))); reflexivity.
  - assert (Hh : forall h w0, kview (fst (let (w1, cs) := reg_triggers_cmds h b w0 in (handle_drop h w1, cs))) = kview w0).
    { intros h w0. pose proof (kview_reg_triggers_cmds h b w0) as H1. destruct (reg_triggers_cmds h b w0) as [w1 cs]. cbn [fst] in *.
      rewrite kview_handle_drop. exact H1. }
    destruct m; [apply Hh| |]; (unfold sig_new; rewrite Hh; reflexivity).
  - destruct t; cbn [fst]; try apply kview_handle_drop; try reflexivity.
    + apply kview_comp_push.
    + apply kview_comp_push.
    + rewrite kview_comp_push. unfold track_removals. destruct (ahas c (removal_checkers w)); reflexivity.
  - destruct (is_alive e w); [destruct (alookup e (ereactors w)); reflexivity|apply kview_handle_drop].
  - unfold track_removals. destruct (ahas c (removal_checkers w)); reflexivity.
  - destruct (is_alive e w); [|apply kview_handle_drop].
    match goal with |- context [if ?b then _ else _] => destruct b end; reflexivity.
  - destruct tk as [ts s]. apply kview_revoke_all.
  - destruct (alookup x (p_xr P)) as [[s shape]|]; [destruct (is_alive e w)|]; reflexivity.
  - destruct (alookup x (p_xr P)) as [[s shape]|]; reflexivity.
  - destruct (is_alive e w); reflexivity.
  - destruct (is_alive e w); [|reflexivity]. destruct (alookup e (ereactors w)); [|reflexivity].
    match goal with |- context [if ?b then _ else _] => destruct b end; reflexivity.
  - apply kview_poll.
Qed.

Lemma poll_no_cleanup w : forallb (fun c => negb (is_cleanup_cmd c)) (snd (poll w)) = true.
Proof.
  unfold poll.
  assert (Hr : forall chk w0, forallb (fun c => negb (is_cleanup_cmd c)) (snd (poll_removals chk w0)) = true).
  { induction chk as [|[c cur] chk IH]; intros w0; cbn [poll_removals]; [reflexivity|].
    specialize (IH w0). destruct (poll_removals chk w0) as [chk' cs]. cbn [snd] in *. rewrite forallb_app, IH, andb_true_r.
    induction (unread c cur (removed w0)) as [|e es IHe]; cbn [flat_map]; [reflexivity|]. rewrite forallb_app, IHe, andb_true_r.
    unfold removal_cmds_for. rewrite forallb_app. apply andb_true_iff. split.
    - induction (entity_targets e (RRem c) w0); cbn; auto.
    - induction (comp_get KRem c w0); cbn; auto. }
  assert (Hd : forall chan w0, forallb (fun c => negb (is_cleanup_cmd c)) (snd (poll_despawns chan w0)) = true).
  { induction chan as [|e r IH]; intros w0; cbn [poll_despawns]; [reflexivity|].
    specialize (IH (w0 <| desp_tbl := aremove e (desp_tbl w0) |>)). destruct (poll_despawns r _) as [w2 cs]. cbn [snd] in *.
    rewrite forallb_app, IH, andb_true_r. induction (tbl_get e (desp_tbl w0)); cbn; auto. }
  specialize (Hr (removal_checkers w) w). destruct (poll_removals (removal_checkers w) w) as [chk c1]. cbn [snd] in Hr.
  match goal with |- context [poll_despawns ?ch ?w0] => specialize (Hd ch w0); destruct (poll_despawns ch w0) as [w2 c2] end.
  cbn [snd] in *. rewrite forallb_app, Hr, Hd. reflexivity.
Qed.

(* no primitive command and no action ever queues a CCleanup: only the exclusive-system path of the runner does *)
Lemma nocl_map_react {A} (f : A -> reaction) l : forallb (fun c => negb (is_cleanup_cmd c)) (map (fun a => CReact (f a)) l) = true.
Proof. induction l; cbn; auto. Qed.

Lemma prim_no_cleanup c w : forallb (fun c => negb (is_cleanup_cmd c)) (snd (apply_prim P c w)) = true.
Proof.
  destruct c; cbn [apply_prim];
    try reflexivity;
    try (apply poll_no_cleanup);
    try (cbn [snd]; apply (nocl_map_react (fun t => RcResource t)));
    try (cbn [snd]; apply (nocl_map_react (fun t => RcEntity e (RMut c) t))).
  - destruct (tbl_get ty (bc_tbl w)) as [|h hs]; [reflexivity|]. cbn [snd forallb is_cleanup_cmd negb andb].
    apply (nocl_map_react (fun h0 => RcBroadcast (next_ent w) (handle_sys h0)) (h :: hs)).
  - destruct (entity_targets e (REvent ty) w ++ map handle_sys (tbl_get ty (any_tbl w))) as [|t ts]; [reflexivity|]. cbn [snd forallb is_cleanup_cmd negb andb].
    apply (nocl_map_react (fun t0 => RcEntityEvent e (next_ent w) t0) (t :: ts)).
  - match goal with |- context [if ?b then _ else _] => destruct b end; [|reflexivity]. cbn [snd]. apply (nocl_map_react (fun t => RcEntity e (RIns c) t)).
  - assert (Hg : forall h w0, forallb (fun c => negb (is_cleanup_cmd c)) (snd (reg_triggers_cmds h b w0)) = true).
    { intros h. induction b as [|t b IH]; intros w0; cbn [reg_triggers_cmds]; [reflexivity|].
      destruct (reg_trigger_cmds h t w0) as [w1 c1] eqn:E1. destruct (reg_triggers_cmds h b w1) as [w2 c2] eqn:E2. cbn [snd].
      specialize (IH w1). rewrite E2 in IH. cbn [snd] in IH. rewrite forallb_app, IH, andb_true_r.
      destruct t; cbn in E1; try (inversion E1; subst; reflexivity). destruct (is_alive e w0); inversion E1; subst; reflexivity. }
    destruct m; [|destruct (sig_new s w) as [g w1]|destruct (sig_new s w) as [g w1]];
      match goal with |- context [reg_triggers_cmds ?h b ?w0] => specialize (Hg h w0); destruct (reg_triggers_cmds h b w0) end; exact Hg.
  - destruct tk. reflexivity.
  - destruct (alookup x (p_xr P)) as [[s shape]|]; [destruct (is_alive e w)|]; reflexivity.
  - destruct (alookup x (p_xr P)) as [[s shape]|]; [|reflexivity]. cbn [snd forallb is_cleanup_cmd negb andb]. induction (unique_entities [] b); cbn; auto.
Qed.

Definition nocl (cs : list cmd) : Prop := forallb (fun c => negb (is_cleanup_cmd c)) cs = true.
Lemma nocl_app a b : nocl a -> nocl b -> nocl (a ++ b).
Proof. unfold nocl. intros Ha Hb. rewrite forallb_app, Ha, Hb. reflexivity. Qed.
Lemma nocl_cons c cs : nocl (c :: cs) -> is_cleanup_cmd c = false /\ nocl cs.
Proof. unfold nocl. cbn. intros H. apply andb_true_iff in H. destruct H as [H1 H2]. split; [apply negb_true_iff; exact H1|exact H2]. Qed.

Lemma act_no_cleanup o a w : nocl (snd (act P o a w)).
Proof.
  unfold nocl. destruct a; cbn [act]; try reflexivity.
  all: try (destruct (is_alive _ w); reflexivity).
  all: try (destruct (is_alive _ (emit _ w)); [destruct (alookup2 _ _ _); [try destruct (N.eqb _ _)|]|]; reflexivity).
  all: try (destruct (N.eqb _ _); reflexivity).
  all: try (destruct (memN _ (bound w)); reflexivity).
  all: try (destruct (alookup _ _) as [?|]; reflexivity).
  all: try (destruct m; reflexivity).
Qed.
Lemma acts_no_cleanup l : forall mk idx w, nocl (snd (acts P mk idx l w)).
Proof.
  induction l as [|a l IH]; intros mk idx w; cbn [acts]; [reflexivity|].
  pose proof (act_no_cleanup (mk idx) a w) as H1. destruct (act P (mk idx) a w) as [w1 c1].
  specialize (IH mk (idx + 1) w1). destruct (acts P mk (idx + 1) l w1) as [w2 c2]. cbn [snd] in *. apply nocl_app; assumption.
Qed.
Lemma prim_nocl c w : nocl (snd (apply_prim P c w)).
Proof. apply prim_no_cleanup. Qed.
Lemma poll_nocl w : nocl (snd (poll w)).
Proof. apply poll_no_cleanup. Qed.

End KSteps.
