(* C13 — Each registered system owns one persistent, private system state.  Statements only; proofs in
   proofs/{StateInv,TicketInv,TopLevel}.v.

   The state of system t is the record cbs t (Local counter, counter captured by the closure), created with (0,0) by
   the command that installs the system (CSpawnSys / CInsertOnce / install_static; guarded by the ghost set `spawned`:
   an id is installed once), removed only when the callback is dropped, and written only by the body of t itself
   (state_bump).  g_runs is the ghost history of the (Local, captured) pairs logged by every body, written together with
   the EvRun log line; Machine.exec asserts (Stuck 5) that the pair a body logs is the stored one. *)
From Cobweb Require Import Machine.
From CobwebProofs Require Import RunnerInv OnceInv StateInv DropSpec TicketInv TopLevel.

(* for every program, every system and every recursion pattern: the runs of t logged (0,0), (1,1), ..., (n-1,n-1) in this
   order — never reset, never re-created, never advanced by another system's run — and while the state exists both
   counters stand at n; a system that was never installed has no runs and no state *)
Theorem state_is_persistent_and_private : forall (P : program) (fuel : nat) (w' : world), run P fuel = Ok w' ->
  forall t, exists n, runs t (g_runs w') = diag n
    /\ (forall cb, alookup t (cbs w') = Some cb -> cb_runno cb = N.of_nat n /\ cb_captured cb = N.of_nat n)
    /\ (~ In t (spawned w') -> n = O /\ alookup t (cbs w') = None).
Proof. exact run_states. Qed.
(* it is an invariant of every instruction of the interpreter, in any calling context (postponed and nested runs included) *)
Theorem state_invariant_everywhere : forall (P : program) (fuel : nat) (i : instr) (w w' : world) (t : ent),
  Sinv t w -> exec P fuel i w = Ok w' -> Sinv t w'.
Proof. exact exec_states. Qed.
(* the pair a body logs is the stored pair: that assertion never fails *)
Theorem body_logs_the_stored_state : forall (P : program) (fuel : nat), run P fuel <> Stuck 5.
Proof. exact readers_expose_own_claim. Qed.
Theorem assertion_guards_every_body : forall (P : program) (f : nat) t r c cl w,
  state_ok_b t r c w = false -> exec P (S f) (IBody t r c cl) w = Stuck 5.
Proof. intros P f t r c cl w H. cbn [exec]. unfold body_guard. rewrite H, andb_false_r. reflexivity. Qed.
(* history and log are written together *)
Theorem history_matches_log : forall (P : program) sd t r c w,
  g_runs (body_sample P sd t r c w) = g_runs w ++ [(t, r, c)] /\
  exists sm, log (body_sample P sd t r c w) = log (snd (sample_readers sd (xsys_of P t) w)) ++ [EvRun t r c sm].
Proof. exact body_sample_records. Qed.
(* the callback is present whenever a command is about to run it (take / reinsert never loses it): C11/C18 *)
(* the state is dropped at most once (g_sdrops: one entry per drop of a live state, written next to the EvDropSys line),
   a record that is still live was never dropped, and only a spent once wrapper is ever left in place without its
   inner system *)
Theorem state_is_dropped_at_most_once : forall (P : program) (fuel : nat) (w' : world), run P fuel = Ok w' ->
  forall t, (dcount t w' <= 1)%nat
    /\ (dcount t w' = 1%nat -> forall cb, alookup t (cbs w') = Some cb -> cb_live cb = false)
    /\ (~ In t (spawned w') -> dcount t w' = O /\ alookup t (cbs w') = None)
    /\ (forall cb, alookup t (cbs w') = Some cb -> cb_live cb = false -> cb_once cb <> None /\ cb_taken cb = true).
Proof. exact state_dropped_at_most_once. Qed.
Theorem callback_never_missing : forall (P : program) (fuel : nat) (n : N), run P fuel = Stuck n -> n = 4.
Proof. exact run_never_panics. Qed.

Check state_is_persistent_and_private : forall (P : program) (fuel : nat) (w' : world), run P fuel = Ok w' ->
  forall t, exists n, runs t (g_runs w') = diag n
    /\ (forall cb, alookup t (cbs w') = Some cb -> cb_runno cb = N.of_nat n /\ cb_captured cb = N.of_nat n)
    /\ (~ In t (spawned w') -> n = O /\ alookup t (cbs w') = None).

(* non-vacuity: 101 re-runs itself twice by recursion (postponed), interleaved with runs of 102 *)
Definition ex_prog : program :=
  mkProgram [mkSys 101 Plain false false None; mkSys 102 Plain false false None]
            [((101, 0), [ARun 101; ARun 102; ARun 101]); ((102, 0), [ARun 101])]
            [] [] []
            [TFlush [ASpawnSys 101; ASpawnSys 102]; TFlush [ARun 101]; TFlush [ARun 102]].
Example ex_runs : exists w', run ex_prog 400 = Ok w'
  /\ runs 101 (g_runs w') = [(0,0); (1,1); (2,2); (3,3)] /\ runs 102 (g_runs w') = [(0,0); (1,1)].
Proof. eexists. split; [vm_compute; reflexivity|]. vm_compute. auto. Qed.

Print Assumptions state_is_persistent_and_private.
Print Assumptions state_invariant_everywhere.
Print Assumptions body_logs_the_stored_state.
Print Assumptions assertion_guards_every_body.
Print Assumptions history_matches_log.
Print Assumptions state_is_dropped_at_most_once.
Print Assumptions callback_never_missing.
