(* C17 — syscall family: keyed persistent state, effects applied on return.  Statements only; proofs in proofs/SyscallSpec.v.
   The model (theories/Syscall.v) runs call trees: every test system increments its Local, logs (key, input, Local),
   queues the nested calls it was given as commands, and returns input*100 + Local. *)
From Cobweb Require Import Syscall.
From CobwebProofs Require Import SyscallSpec.

(* state persists per key (function type / name+type / spawned id) and is independent between keys: in any call tree,
   over all three entry points and any nesting, the n-th body executed under a key sees Local = n — provided no key is
   re-entered while its own system is running (the documented WARNING of syscall/named_syscall) and no spawned id is reused *)
Theorem keyed_state_is_persistent_and_private : forall (fuel : nat) (cs : list call),
  s_reent (run_calls fuel cs sst_init) = false -> log_ok (run_case fuel cs).
Proof. exact keyed_persistent_state. Qed.

(* the invariant behind it, for every intermediate state: what is stored under a key that is not running equals the number
   of bodies run under it; calls leave the set of running keys as they found it *)
Theorem call_invariant : forall (f : nat) (cs : list call) (s : sst),
  J s -> s_reent (run_calls f cs s) = false -> good s (run_calls f cs s).
Proof. exact run_calls_good. Qed.

(* every command queued by a call has been applied when the call returns *)
Theorem commands_applied_before_return : forall (f : nat) (id t v : N) (nested rest : list call) (s : sst),
  exists mid tail, s_log (run_calls (S f) (KSys id t v nested :: rest) s)
    = s_log s ++ [SBody id (SkSys t) t v (sys_local t s + 1)] ++ mid ++ [SRet id (Some (output v (sys_local t s + 1)))] ++ tail
    /\ s_log (run_calls f nested (begin_sys id t v s)) = s_log (begin_sys id t v s) ++ mid.
Proof. exact effects_applied_before_return. Qed.

(* a missing spawned system, or one that is currently running, yields an error and runs nothing *)
Theorem spawned_error_cases : forall (f : nat) (id sid v : N) (nested : list call) (s : sst),
  (alookup sid (s_spawned s) = None \/ exists t, alookup sid (s_spawned s) = Some (t, None)) ->
  run_calls (S (S f)) [KSpawned id sid v nested] s = slog (SRet id None) s.
Proof. exact spawned_missing_or_running_is_err. Qed.

(* named_syscall_direct (the fourth entry point of the family): an error, and nothing runs, unless the named node exists
   and holds its system; otherwise it is exactly named_syscall under that key — the theorems above cover it as a call kind *)
Theorem named_direct_error_cases : forall (f : nat) (id name t v : N) (nested : list call) (s : sst),
  (alookup2 name t (s_named s) = None \/ alookup2 name t (s_named s) = Some None) ->
  run_calls (S (S f)) [KNamedDirect id name t v nested] s = slog (SRet id None) s.
Proof. exact named_direct_missing_or_running_is_err. Qed.
Theorem named_direct_is_named_syscall_when_cached : forall (f : nat) (id name t v : N) (nested rest : list call) (s : sst) (l : N),
  alookup2 name t (s_named s) = Some (Some l) ->
  run_calls (S f) (KNamedDirect id name t v nested :: rest) s = run_calls (S f) (KNamed id name t v nested :: rest) s.
Proof. exact named_direct_is_named_when_present. Qed.

Check keyed_state_is_persistent_and_private.

(* non-vacuity: three keys over the three entry points, nested through commands; and the documented re-entrant case *)
Example ex_nested :
  let cs := [KSpawn 0 11 2; KSys 1 0 5 [KNamed 2 1 0 6 [KSpawned 3 11 7 []]; KSys 4 1 8 []]; KSys 5 0 9 []; KSpawned 6 11 1 [KSpawned 7 11 2 []]] in
  s_reent (run_calls 50 cs sst_init) = false /\
  run_case 50 cs = [SBody 1 (SkSys 0) 0 5 1; SBody 2 (SkNamed 1 0) 0 6 1; SBody 3 (SkSpawned 11) 2 7 1; SRet 3 (Some 701); SRet 2 (Some 601);
                    SBody 4 (SkSys 1) 1 8 1; SRet 4 (Some 801); SRet 1 (Some 501); SBody 5 (SkSys 0) 0 9 2; SRet 5 (Some 902);
                    SBody 6 (SkSpawned 11) 2 1 2; SRet 7 None; SRet 6 (Some 102)].
Proof. vm_compute. auto. Qed.
Example ex_reentrant_loses_inner_state :
  let cs := [KSys 1 0 5 [KSys 2 0 6 []]; KSys 3 0 7 []] in
  s_reent (run_calls 50 cs sst_init) = true /\
  run_case 50 cs = [SBody 1 (SkSys 0) 0 5 1; SBody 2 (SkSys 0) 0 6 1; SRet 2 (Some 601); SRet 1 (Some 501); SBody 3 (SkSys 0) 0 7 2; SRet 3 (Some 702)].
Proof. vm_compute. auto. Qed.

Example ex_direct :
  let cs := [KNamedDirect 1 1 0 5 []; KNamed 2 1 0 6 [KNamedDirect 3 1 0 7 []]; KNamedDirect 4 1 0 8 []; KNamedDirect 5 1 1 9 []] in
  s_reent (run_calls 50 cs sst_init) = false /\
  run_case 50 cs = [SRet 1 None; SBody 2 (SkNamed 1 0) 0 6 1; SRet 3 None; SRet 2 (Some 601); SBody 4 (SkNamed 1 0) 0 8 2; SRet 4 (Some 802); SRet 5 None].
Proof. vm_compute. auto. Qed.

Print Assumptions keyed_state_is_persistent_and_private.
Print Assumptions call_invariant.
Print Assumptions commands_applied_before_return.
Print Assumptions spawned_error_cases.
Print Assumptions named_direct_error_cases.
Print Assumptions named_direct_is_named_syscall_when_cached.
