(* C11 — The framework is quiescent between reaction trees.  Statements only; proofs in proofs/{RunnerInv,TicketInv,TopLevel}.v.
   `run P fuel` executes the top-level operations of P one after the other; every one of them is an outermost flush. *)
From Cobweb Require Import Machine.
From CobwebProofs Require Import RunnerInv TicketInv PollSpec QuietSpec DataSpec TopLevel.

(* after ANY sequence of top-level operations of ANY program (aborted, postponed, discarded, self-despawning commands
   included): the tree counter is 0, nothing is postponed, no system command is missing its callback, none of the four
   trackers holds pending metadata or is marked as being read, and the despawn tracker holds no reactor handle *)
Theorem quiescent_after_every_tree : forall (P : program) (fuel : nat) (w' : world), run P fuel = Ok w' -> quiescent w'.
Proof. exact run_quiescent_full. Qed.

(* the same holds between any two top-level operations, not only at the end: the invariant is threaded through run_tops *)
Theorem quiescent_between_trees : forall (P : program) (fuel : nat) (l : list topop) (i : N) (w : world),
  InvCore [] w -> counter w = 0 -> buffer w = [] -> TI0 w ->
  match run_tops P fuel i l w with
  | Ok w' => InvCore [] w' /\ counter w' = 0 /\ buffer w' = [] /\ TI0 w'
  | OutOfFuel => True
  | Stuck n => n = 4
  end.
Proof. exact tops_invariant. Qed.

(* inside a tree: at every instruction boundary, with the ghost calling context (A = systems whose frame is below us,
   B = what postponed commands may target), the runner's stack/buffer/counter invariant holds *)
Theorem runner_invariant : forall (P : program) (fuel : nat) (i : instr) (A B : list ent) (w w' : world),
  exec P fuel i w = Ok w' -> PreR i A B w -> PostR i A B w w'.
Proof. exact exec_runner. Qed.
(* ... and the trackers hold exactly the metadata of the commands still pending (H = commands held by outer replay loops) *)
Theorem tracker_invariant : forall (P : program) (fuel : nat) (i : instr) (H : list buffered) (w : world),
  TPre i H w -> TPost i H (exec P fuel i w).
Proof. exact exec_ticket. Qed.

Check quiescent_after_every_tree : forall (P : program) (fuel : nat) (w' : world), run P fuel = Ok w' -> quiescent w'.

(* "nothing is waiting to run" includes the polled reactions: when the runner returns, no removal record is unread and
   no despawned watched entity is waiting on the channel (RSeq holds in every reachable state, PollSpec) *)
Theorem no_unpolled_removal_or_despawn_when_a_tree_returns : forall (P : program) f t su cl w w', RSeq w -> exec P f (IRunner t su cl) w = Ok w' -> Quiet w'.
Proof. exact tree_ends_polled. Qed.

(* "no residue": no event bookkeeping entity (broadcast / entity-event / system-event data) is left when a run ends *)
Theorem no_event_data_entity_left : forall (P : program) (fuel : nat) (w' : world), run P fuel = Ok w' ->
  forall d, alookup d (dataents w') = None.
Proof. exact no_data_entity_left. Qed.

(* non-vacuity: a program whose single tree postpones two self-sent system events and aborts one aimed at a dead system *)
Definition ex_prog : program :=
  mkProgram [mkSys 101 Plain false true None; mkSys 102 Plain false false None]
            [((101, 0), [ASysEvent 101 0 7; ASysEvent 101 0 8; ADespawn 102; ASysEvent 102 0 9])]
            [] [] [1]
            [TFlush [ASpawnSys 101; ASpawnSys 102]; TFlush [ARun 101]].
Example ex_runs : exists w', run ex_prog 200 = Ok w' /\ quiescent w'
  /\ existsb (fun e => match e with EvPost 101 _ => true | _ => false end) (log w') = true
  /\ existsb (fun e => match e with EvAbort 102 _ _ => true | _ => false end) (log w') = true.
Proof.
  destruct (run ex_prog 200) as [w'| |] eqn:E; [|vm_compute in E; discriminate E|vm_compute in E; discriminate E].
  exists w'. split; [reflexivity|]. split; [apply (run_quiescent_full ex_prog 200); exact E|].
  vm_compute in E. inversion E. subst w'. split; vm_compute; reflexivity.
Qed.

Print Assumptions quiescent_after_every_tree.
Print Assumptions quiescent_between_trees.
Print Assumptions runner_invariant.
Print Assumptions tracker_invariant.
Print Assumptions no_unpolled_removal_or_despawn_when_a_tree_returns.
Print Assumptions no_event_data_entity_left.
