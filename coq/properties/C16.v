(* C16 — World reactors: shared system, per-entity local data.   PARTIAL (step level).
   Statements only; proofs in proofs/WorldReactorSpec.v (+ TablesSpec for what registration / revocation do to the tables).

   Proved for all states: adding triggers to a world reactor is a registration of its single, statically installed
   system under a persistent handle (no state change besides the tables: nothing is spawned, no signal exists that
   could ever collect it), removing triggers is a revocation (which despawns nothing and touches no callback); for an
   entity world reactor, add attaches the datum and registers the entity-scoped triggers, a run caused by entity e is
   shown exactly the datum stored for e, remove revokes and then cleans each named entity once, and the cleanup removes
   the datum of (reactor, e) exactly when e holds no handle of the reactor's system any more, leaving every other datum.
   Proved for whole runs (closed invariant): in every reachable state local data sits on live entities only — the body's
   own increment writes the datum of a live reacting entity, despawning an entity removes its data.
   NOT proved: the frame over whole runs (no other step changes a datum except the body's own increment and the
   despawn of the entity) — correspondence (xw profile: the set of (reactor, entity) data compared after every op, the
   datum compared at every run) only. *)
From Cobweb Require Import Machine.
From CobwebProofs Require Import TablesSpec RunnerInv WorldReactorSpec XInvSpec.

Theorem world_reactor_add_registers_its_single_system_partial : forall (P : program) o wr b s w, alookup wr (p_wr P) = Some s ->
  act P o (AWrAdd wr b) w = (w, [CMark o; CRegister (map (resolve_trigger w) b) s Persistent]).
Proof. exact wr_add. Qed.
Theorem world_reactor_remove_revokes_partial : forall (P : program) o wr b s w, alookup wr (p_wr P) = Some s ->
  act P o (AWrRemove wr b) w = (w, [CMark o; CRevoke (map (resolve_trigger w) b, s)]).
Proof. exact wr_remove. Qed.
Theorem persistent_registration_spawns_and_collects_nothing_partial : forall (P : program) b s w,
  fst (apply_prim P (CRegister b s Persistent) w) = w.
Proof. exact persistent_registration_changes_no_state. Qed.
Theorem removing_triggers_despawns_nothing_partial : forall s ts w,
  storage (revoke_all s ts w) = storage w /\ alive (revoke_all s ts w) = alive w.
Proof. exact revoke_despawns_nothing. Qed.

Theorem local_data_only_on_live_entities : forall (P : program) (fuel : nat) (w' : world), run P fuel = Ok w' ->
  forall x e v, alookup2 x e (xlocals w') = Some v -> is_alive e w' = true.
Proof. exact XInvSpec.local_data_only_on_live_entities. Qed.
Theorem local_data_invariant_everywhere : forall (P : program) (fuel : nat) (i : instr) (w w' : world),
  XInv w -> exec P fuel i w = Ok w' -> XInv w'.
Proof. exact XInv_exec. Qed.
Theorem entity_reactor_add_partial : forall (P : program) x e v s shape w, alookup x (p_xr P) = Some (s, shape) -> is_alive e w = true ->
  apply_prim P (CXAdd x e v) w = (w, [CXInsertLocal x e v; CRegister (map (fun k => xshape_trigger k e) shape) s Persistent]).
Proof. exact x_add. Qed.
Theorem local_data_attached_partial : forall (P : program) x e v w, is_alive e w = true ->
  alookup2 x e (xlocals (fst (apply_prim P (CXInsertLocal x e v) w))) = Some v.
Proof. exact x_local_attached. Qed.
Theorem run_sees_the_data_of_its_entity_partial : forall sd x xs w, reacting (tr_er w) = true -> fst (fst (cur (tr_er w))) = xs ->
  match sm_l (fst (sample_readers sd (Some (x, xs)) w)) with
  | Some (src, v) => src = snd (fst (cur (tr_er w))) /\ v = (if is_alive src w then alookup2 x src (xlocals w) else None)
  | None => True end.
Proof. exact x_run_exposes_local. Qed.
Theorem entity_reactor_remove_partial : forall (P : program) x b s shape w, alookup x (p_xr P) = Some (s, shape) ->
  apply_prim P (CXRemove x b) w = (w, CRevoke (b, s) :: map (fun e => CXCleanupData x s e) (unique_entities [] b)).
Proof. exact x_remove. Qed.
Theorem every_named_entity_is_cleaned_once_partial : forall ts,
  NoDup (unique_entities [] ts) /\ (forall t e, In t ts -> trigger_entity t = Some e -> In e (unique_entities [] ts)).
Proof. intros ts. split; [apply x_remove_cleans_each_entity_once|intros t e; apply x_remove_cleans_every_named_entity]. Qed.
Theorem data_removed_with_the_last_trigger_kept_otherwise_partial : forall (P : program) x s e w l,
  is_alive e w = true -> alookup e (ereactors w) = Some l ->
  xlocals (fst (apply_prim P (CXCleanupData x s e) w)) =
  if existsb (fun p => N.eqb (handle_sys (snd p)) s) l then xlocals w else aremove2 x e (xlocals w).
Proof. exact x_cleanup_removes_with_last_trigger. Qed.
Theorem cleanup_leaves_other_data_partial : forall (P : program) x s e w x' e', (x', e') <> (x, e) ->
  alookup2 x' e' (xlocals (fst (apply_prim P (CXCleanupData x s e) w))) = alookup2 x' e' (xlocals w).
Proof. exact x_cleanup_keeps_other_entities. Qed.

(* non-vacuity: reactor 0 (system 301, triggers: mutation of C0 and entity event 0) is added to entities 1 and 2; a
   mutation on 1 runs it twice with data 7 then 8; removing only the mutation trigger of 1 keeps the datum, removing
   both triggers of 2 drops it *)
Definition ex_prog : program :=
  mkProgram [mkSys 301 Plain false false (Some 0)]
            []
            [] [(0, (301, [0; 1]))] [1; 2]
            [TFlush [ASpawnEntity 1; ASpawnEntity 2; AInsert 0 1 0; AXrAdd 0 1 7; AXrAdd 0 2 3];
             TFlush [AMutate 0 1 1]; TFlush [AMutate 0 1 2];
             TFlush [AXrRemove 0 [TEMut 0 1; TEMut 0 2; TEntityEvent 0 2]]].
Example ex_runs : exists w', run ex_prog 400 = Ok w' /\ xlocals w' = [(0, 1, 9)] /\ is_alive 301 w' = true
  /\ map (fun e => match e with EvRun 301 _ _ sm => sm_l sm | _ => None end)
         (filter (fun e => match e with EvRun _ _ _ _ => true | _ => false end) (log w')) = [Some (1, Some 7); Some (1, Some 8)].
Proof. eexists. split; [vm_compute; reflexivity|]. vm_compute. auto. Qed.

Print Assumptions world_reactor_add_registers_its_single_system_partial.
Print Assumptions world_reactor_remove_revokes_partial.
Print Assumptions persistent_registration_spawns_and_collects_nothing_partial.
Print Assumptions removing_triggers_despawns_nothing_partial.
Print Assumptions local_data_only_on_live_entities.
Print Assumptions local_data_invariant_everywhere.
Print Assumptions entity_reactor_add_partial.
Print Assumptions local_data_attached_partial.
Print Assumptions run_sees_the_data_of_its_entity_partial.
Print Assumptions entity_reactor_remove_partial.
Print Assumptions every_named_entity_is_cleaned_once_partial.
Print Assumptions data_removed_with_the_last_trigger_kept_otherwise_partial.
Print Assumptions cleanup_leaves_other_data_partial.
