(* C04 — Event data is invisible outside the run it caused.  Statements only; proofs in
   proofs/{TicketInv,ReadersSpec,TopLevel}.v.  See C03.v for the ghost bookkeeping (parked / claimed entries, `visible`,
   the Stuck 5 assertion at the start of every body). *)
From Cobweb Require Import Machine.
From CobwebProofs Require Import RunnerInv OnceInv TicketInv ReadersSpec TopLevel.

(* every run — nested reaction, manual run, re-run of the same reactor, a reactor of another event, any later run —
   starts with the readers exposing exactly what its OWN command parked; in particular a run whose command parked nothing
   (claim = []) sees nothing, whatever its parent or any earlier run was reacting to *)
Theorem every_run_sees_only_its_own_event : forall (P : program) (fuel : nat), run P fuel <> Stuck 5.
Proof. exact readers_expose_own_claim. Qed.
Theorem claims_are_exactly_what_was_parked : forall (P : program) (fuel : nat) (w' : world), run P fuel = Ok w' ->
  Forall (claim_ok (g_prep w')) (g_claim w') /\ NoDup (ptickets (g_prep w')).
Proof. exact run_claims_exact. Qed.

(* with every flag off nothing is visible, and then every reader of every kind and type is empty *)
Theorem flags_off_nothing_visible : forall w, flags_off w -> visible w = [].
Proof. intros w (F1 & F2 & F3 & F4 & _). unfold visible. rewrite F1, F2, F3, F4. reflexivity. Qed.
Theorem nothing_visible_nothing_read : forall sd x w, visible w = [] ->
  fst (sample_readers sd x w) = mkSample [] [] [] [] [] [] None None.
Proof. exact sample_nothing_visible. Qed.

(* the window closes: cleanup switches off every flag the setup switched on, for all six kinds of command ... *)
Theorem cleanup_closes_the_window : forall cl all w, TInv all w -> flags_within cl w ->
  TInv all (run_cleanup cl w) /\ flags_off (run_cleanup cl w) /\ buffer (run_cleanup cl w) = buffer w.
Proof. exact cleanup_ok. Qed.
(* ... and it has done so before any command queued by the body is applied, on both paths of run_initialized_system:
   TPre (IApplyList cs) demands flags_off unless the list still starts with the exclusive system's own queued cleanup
   (CCleanup), in which case only that command's flags may be on; the invariant holds at every instruction *)
Theorem flags_are_off_at_every_command_boundary : forall (P : program) (fuel : nat) (i : instr) (H : list buffered) (w : world),
  TPre i H w -> TPost i H (exec P fuel i w).
Proof. exact exec_ticket. Qed.
Theorem flags_are_off_between_trees : forall (P : program) (fuel : nat) (w' : world), run P fuel = Ok w' -> quiescent w'.
Proof. exact run_quiescent_full. Qed.

(* SystemEvent::take: at most one payload comes out, and after it came out no take of any type returns anything *)
Theorem system_event_taken_at_most_once : forall tys w l w1, take_sysevents tys w = (l, w1) ->
  (length l <= 1)%nat /\ (l <> [] -> forall ty, peek_sysevent ty w1 = None).
Proof. exact sysevent_taken_once. Qed.

Check every_run_sees_only_its_own_event : forall (P : program) (fuel : nat), run P fuel <> Stuck 5.

(* non-vacuity: 101 reacts to a broadcast and, from inside that run, queues a manual run of the probe 102, a re-run of
   itself and a system event to the probe; an exclusive reactor 103 does the same; four runs start with an empty claim *)
Definition ex_prog : program :=
  mkProgram [mkSys 101 Plain false false None; mkSys 102 Plain false true None; mkSys 103 Excl true false None]
            [((101, 0), [ARun 102; ARun 101; ASysEvent 102 0 7]); ((103, 0), [ARun 102; ARun 103])]
            [] [] []
            [TFlush [ASpawnSys 101; ASpawnSys 102; ASpawnSys 103];
             TFlush [ARegister 0 Persistent 101 [TBroadcast 0]; ARegister 1 Persistent 103 [TBroadcast 0]];
             TFlush [ABroadcast 0 5]].
Example ex_runs : exists w', run ex_prog 300 = Ok w' /\ quiescent w'
  /\ map (fun c => length (snd c)) (g_claim w') = [1; 0; 1; 0; 1; 0; 0]%nat.
Proof.
  destruct (run ex_prog 300) as [w'| |] eqn:E; [|vm_compute in E; discriminate E|vm_compute in E; discriminate E].
  exists w'. split; [reflexivity|]. split; [apply (run_quiescent_full ex_prog 300); exact E|].
  vm_compute in E. inversion E. subst w'. vm_compute. reflexivity.
Qed.

Print Assumptions every_run_sees_only_its_own_event.
Print Assumptions claims_are_exactly_what_was_parked.
Print Assumptions flags_off_nothing_visible.
Print Assumptions nothing_visible_nothing_read.
Print Assumptions cleanup_closes_the_window.
Print Assumptions flags_are_off_at_every_command_boundary.
Print Assumptions flags_are_off_between_trees.
Print Assumptions system_event_taken_at_most_once.
