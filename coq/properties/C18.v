(* C18 — Stale references are harmless.  Statements only; proofs in proofs/{RunnerInv,TicketInv,TopLevel,TablesSpec}.v.
   In the model `Stuck n` stands for a panic: 1/2 = a tracker entry is missing or a tracker is already reacting at
   `start` (the crate's debug_assert!), 3 = a callback is missing, 4 = Bevy's own B0003 (a `spawn` command whose
   reserved entity was despawned before the command was applied — user-level misuse of Bevy, see DESIGN wf rule). *)
From Cobweb Require Import Machine.
From CobwebProofs Require Import Closed RunnerInv TicketInv TopLevel TablesSpec.

(* no program, whatever it names (despawned systems, reactors, trigger entities, event targets, at any point), makes the
   framework panic *)
Theorem never_panics : forall (P : program) (fuel : nat) (n : N), run P fuel = Stuck n -> n = 4.
Proof. exact run_never_panics. Qed.

(* a command that cannot run (dead target, missing storage) goes through cleanup_on_abort, which consumes exactly the
   metadata the command had parked and leaves the trackers consistent with the commands still pending; it can never
   fail for lack of a prepared entry *)
Theorem aborted_command_is_cleaned_up : forall (P : program) (fuel : nat) (t : ent) (su : setup) (cl : cleanup) (H : list buffered) (w : world),
  TX flags_off (mkBuf t su cl :: buffer w ++ H) w ->
  match exec P fuel (IAbort t su cl) w with
  | Ok w' => TX flags_off (buffer w' ++ H) w'
  | OutOfFuel => True
  | Stuck n => n = 4
  end.
Proof.
  intros P fuel t su cl H w HT. pose proof (exec_ticket P fuel (IAbort t su cl) H w HT) as Hp.
  destruct (exec P fuel (IAbort t su cl) w); [exact (proj1 Hp)|exact I|exact Hp].
Qed.

(* whatever died, the tables stay well formed, so every remaining registration keeps being dispatched exactly (C01) ... *)
Theorem remaining_registrations_work : forall (P : program) (fuel : nat) (w' : world), run P fuel = Ok w' -> wf_tables w'.
Proof. intros P fuel w'. unfold run. apply wf_reachable. Qed.
(* ... and the tree that contained the stale operations still ends quiescent (C11) *)
Theorem still_quiescent : forall (P : program) (fuel : nat) (w' : world), run P fuel = Ok w' -> quiescent w'.
Proof. exact run_quiescent_full. Qed.

Check never_panics : forall (P : program) (fuel : nat) (n : N), run P fuel = Stuck n -> n = 4.

(* non-vacuity: every operation below names something that is dead or was never spawned by the time it is applied *)
Definition ex_prog : program :=
  mkProgram [mkSys 101 Plain false true None; mkSys 102 Plain false false None]
            [((101, 0), [ADespawn 102; ADespawn 1; ASysEvent 102 0 9; AEntityEvent 0 1 10; AInsert 0 1 3; AMutate 0 1 4; ARun 102; ARegister 5 Revokable 102 [TEMut 0 1; TDespawn 1]; ARevoke 5])]
            [] [] [1]
            [TFlush [ASpawnEntity 1; ASpawnSys 101; AOn 102 [TEntityEvent 0 1; TBroadcast 0]]; TFlush [ARun 101; ABroadcast 0 11; ARun 77; AEntityEvent 0 9 12]].
Example ex_runs : exists w', run ex_prog 200 = Ok w' /\
  existsb (fun e => match e with EvAbort 102 _ _ => true | _ => false end) (log w') = true /\
  existsb (fun e => match e with EvDrop 9 => true | _ => false end) (log w') = true.
Proof.
  destruct (run ex_prog 200) as [w'| |] eqn:E; [|vm_compute in E; discriminate E|vm_compute in E; discriminate E].
  exists w'. split; [reflexivity|]. vm_compute in E. inversion E. subst w'. split; vm_compute; reflexivity.
Qed.

Print Assumptions never_panics.
Print Assumptions aborted_command_is_cleaned_up.
Print Assumptions remaining_registrations_work.
Print Assumptions still_quiescent.
