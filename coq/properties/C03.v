(* C03 — A run sees exactly the data of the event that caused it.  Statements only; proofs in
   proofs/{TicketInv,ReadersSpec,TopLevel}.v.

   Ghost bookkeeping in the model (World.v): every command that enters the runner with event metadata parks an entry list
   under a fresh ticket (g_prep: prepare_cmd / note_prep); every successful setup records what it took out of the
   trackers (g_claim: run_setup / note_claim; a manual run claims the empty list); `visible w` lists the tracker entries
   whose `reacting` flag is on, i.e. everything any reader can answer from.  Machine.exec asserts at the start of every
   body (IBody) that visible = the latest claim and that the claim is for the running system, and is Stuck 5 otherwise. *)
From Cobweb Require Import Machine.
From CobwebProofs Require Import RunnerInv OnceInv TicketInv ReadersSpec TopLevel.

(* (1) the assertion is checked before every body, and means what it says *)
Theorem assertion_guards_every_body : forall (P : program) (f : nat) t r c cl w,
  fresh_claim_b t w = false -> exec P (S f) (IBody t r c cl) w = Stuck 5.
Proof. intros P f t r c cl w H. cbn [exec]. unfold body_guard. rewrite H. reflexivity. Qed.
Theorem assertion_meaning : forall t w, fresh_claim_b t w = true ->
  visible w = snd (last_claim w) /\ snd (fst (last_claim w)) = t.
Proof.
  intros t w H. unfold fresh_claim_b in H. apply andb_true_iff in H. destruct H as [H1 H2].
  apply N.eqb_eq in H1. apply pitems_eqb_eq in H2. auto.
Qed.

(* (2) it never fails: for every program, whatever is pending for whichever system, postponed or not *)
Theorem body_sees_exactly_its_own_claim : forall (P : program) (fuel : nat), run P fuel <> Stuck 5.
Proof. exact readers_expose_own_claim. Qed.

(* (3) and every claim is literally the entry list parked by ONE command (same ticket, same system), or empty for a
   manual run; tickets are unique, so "the command" is well defined *)
Theorem claims_are_exactly_what_was_parked : forall (P : program) (fuel : nat) (w' : world), run P fuel = Ok w' ->
  Forall (claim_ok (g_prep w')) (g_claim w') /\ NoDup (ptickets (g_prep w')).
Proof. exact run_claims_exact. Qed.
(* the step-level form: setup of the pending command b succeeds and leaves the trackers holding exactly the other
   pending commands' entries *)
Theorem setup_claims_own_entries : forall b rest w, TInv (b :: rest) w -> flags_off w ->
  exists w0, run_setup (b_setup b) (b_sys b) w = Some w0 /\ TInv rest w0 /\ flags_within (b_cleanup b) w0
             /\ buffer w0 = buffer w /\ oview w0 = oview w /\ rview w0 = rview w.
Proof. exact setup_ok. Qed.
Theorem setup_exposes_its_claim : forall su t w w0, flags_off w -> run_setup su t w = Some w0 -> fresh_claim t w0.
Proof. exact setup_fresh. Qed.

(* (4) readers answer from the visible entry of their own kind and type, and only from it *)
Theorem despawn_reader : forall w e, read_despawn w = Some e <-> In (PiDe e) (visible w).
Proof. exact read_despawn_spec. Qed.
Theorem entity_reaction_readers : forall k c w src, read_er k c w = Some src <-> In (PiEr src (er_of k c)) (visible w).
Proof. exact read_er_spec. Qed.
Theorem broadcast_reader : forall ty w p, read_broadcast ty w = Some p ->
  exists d n, In (PiEv d) (visible w) /\ is_alive d w = true /\ alookup d (dataents w) = Some (DBroadcast ty p n).
Proof. exact read_broadcast_spec. Qed.
Theorem entity_event_reader : forall ty w tgt p, read_entity_event ty w = Some (tgt, p) ->
  exists d n, In (PiEv d) (visible w) /\ is_alive d w = true /\ alookup d (dataents w) = Some (DEntityEvent ty tgt p n).
Proof. exact read_entity_event_spec. Qed.
Theorem system_event_reader : forall ty w p, peek_sysevent ty w = Some p ->
  exists d, In (PiSe d) (visible w) /\ is_alive d w = true /\ alookup d (dataents w) = Some (DSysEvent ty (Some p)).
Proof. exact peek_sysevent_spec. Qed.
Theorem other_kinds_report_nothing : forall sd x w,
  let sm := fst (sample_readers sd x w) in
  (no_ev (visible w) -> sm_b sm = [] /\ sm_e sm = []) /\
  (no_se (visible w) -> sm_s sm = []) /\
  (no_er (visible w) -> sm_i sm = [] /\ sm_m sm = [] /\ sm_r sm = [] /\ sm_l sm = None) /\
  (no_de (visible w) -> sm_d sm = None).
Proof. exact sample_only_visible. Qed.
Theorem manual_run_sees_nothing : forall sd x w, visible w = [] ->
  fst (sample_readers sd x w) = mkSample [] [] [] [] [] [] None None.
Proof. exact sample_nothing_visible. Qed.

Check body_sees_exactly_its_own_claim : forall (P : program) (fuel : nat), run P fuel <> Stuck 5.
Check claims_are_exactly_what_was_parked : forall (P : program) (fuel : nat) (w' : world), run P fuel = Ok w' ->
  Forall (claim_ok (g_prep w')) (g_claim w') /\ NoDup (ptickets (g_prep w')).

(* non-vacuity: while system 101 runs it sends itself a system event, a broadcast it listens to, and another system
   event (all three postponed by recursion: the pre-fix crate handed the second run the third event's data), then 102
   gets an entity event; all five claims are non-empty or manual, and the run completes *)
Definition ex_prog : program :=
  mkProgram [mkSys 101 Plain false true None; mkSys 102 Plain false false None]
            [((101, 0), [ASysEvent 101 0 7; ABroadcast 0 5; ASysEvent 101 1 8; AEntityEvent 0 1 9])]
            [] [] [1]
            [TFlush [ASpawnSys 101; ASpawnSys 102; ASpawnEntity 1];
             TFlush [ARegister 0 Persistent 101 [TBroadcast 0]; ARegister 1 Persistent 102 [TEntityEvent 0 1]];
             TFlush [ARun 101]].
Example ex_runs : exists w', run ex_prog 300 = Ok w'
  /\ map (fun c => length (snd c)) (g_claim w') = [0; 2; 1; 1; 1]%nat
  /\ length (g_prep w') = 4%nat.
Proof. eexists. split; [vm_compute; reflexivity|]. vm_compute. auto. Qed.

Print Assumptions assertion_guards_every_body.
Print Assumptions assertion_meaning.
Print Assumptions body_sees_exactly_its_own_claim.
Print Assumptions claims_are_exactly_what_was_parked.
Print Assumptions setup_claims_own_entries.
Print Assumptions setup_exposes_its_claim.
Print Assumptions despawn_reader.
Print Assumptions entity_reaction_readers.
Print Assumptions broadcast_reader.
Print Assumptions entity_event_reader.
Print Assumptions system_event_reader.
Print Assumptions other_kinds_report_nothing.
Print Assumptions manual_run_sees_nothing.
