(* C15 — One-off reactors run exactly once and then vanish.   Statements only; proofs in
   proofs/{OnceInv,OnceRuns,TicketInv,TablesSpec,TopLevel}.v.

   A one-off reactor is a system command whose callback is the `once` wrapper (cbs t with cb_once = Some token,
   react_commands.rs:319-349): the first time it is run it takes the inner system out (cb_taken), runs it, despawns its
   own entity, revokes its own token and drops the inner system; a wrapper that is already spent returns at once.
   Not proved (correspondence only): a one-off reactor registered with an empty trigger bundle, or revoked before any
   trigger fired, is collected without ever running — this goes through the auto-despawn handles (C07). *)
From Cobweb Require Import Machine.
From CobwebProofs Require Import Closed TablesSpec RunnerInv OnceInv StateInv OnceRuns TicketInv TopLevel.

(* however many of its triggers fire, in the same tree or later, and even if it triggers itself: over any whole run of
   any program the inner system of a one-off reactor has run at most once *)
Theorem one_off_reactor_runs_at_most_once : forall (P : program) (fuel : nat) (w' : world), run P fuel = Ok w' ->
  forall t, (oc t w' <= 1)%nat.
Proof. exact once_inner_starts_at_most_once. Qed.
Theorem one_off_record_bound : forall (P : program) (fuel : nat) (w' : world), run P fuel = Ok w' -> forall t, OR t w'.
Proof. exact once_record_bound. Qed.
(* the invariant behind it, preserved by every interpreter step in any context: Local = 0 until the inner system is
   taken, <= 1 afterwards; at most one start in the whole history *)
Theorem once_invariant_everywhere : forall (P : program) (t : ent) (fuel : nat) (i : instr) (w w' : world),
  OH t w -> exec P fuel i w = Ok w' -> OH t w'.
Proof. intros P t. apply exec_closed. apply OH_closed. Qed.
(* a spent wrapper is a no-op: later triggers find nothing to run *)
Theorem spent_wrapper_does_nothing : forall (P : program) f t cl w cb tk,
  alookup t (cbs w) = Some cb -> cb_once cb = Some tk -> cb_taken cb = true -> exec P (S f) (ICallback t cl) w = Ok w.
Proof. exact spent_wrapper_noop. Qed.
(* the first run: mark, run the inner system, despawn own entity, revoke own token, drop the inner system *)
Theorem first_run_of_the_wrapper : forall (P : program) f t cl w cb tk,
  alookup t (cbs w) = Some cb -> cb_once cb = Some tk -> cb_taken cb = false ->
  exec P (S f) (ICallback t cl) w =
  bind (exec P f (IBody t (cb_runno cb) (cb_captured cb) cl) (cb_bump t cb true w)) (fun w1 =>
  bind (exec P f (IApplyList [CRevoke tk]) (despawn t w1)) (fun w2 => Ok (once_finish t tk w2))).
Proof. exact unspent_wrapper_steps. Qed.
(* afterwards its entity is gone *)
Theorem entity_gone_after_the_run : forall (P : program) f t cl w w' cb tk,
  alookup t (cbs w) = Some cb -> cb_once cb = Some tk -> cb_taken cb = false ->
  exec P f (ICallback t cl) w = Ok w' -> is_alive t w' = false.
Proof. exact once_entity_gone. Qed.
(* and none of the triggers named by its token remains registered (one registration per key, S1), whatever fired *)
Theorem revoking_its_token_removes_every_trigger : forall (s : ent) (t : trigger) (w : world) (x : trigger * handle),
  wf_tables w -> distinct_regs w -> In x (regs (revoke_one s t w)) -> named s t x = false.
Proof. exact revoke_complete. Qed.
(* a spent wrapper is never left in a state in which the runner would run it: storage never holds it as present *)
Theorem spent_wrapper_is_never_runnable : forall (P : program) (fuel : nat) (i : instr) (H : list buffered) (w : world),
  TPre i H w -> TPost i H (exec P fuel i w).
Proof. exact exec_ticket. Qed.

Check one_off_reactor_runs_at_most_once : forall (P : program) (fuel : nat) (w' : world), run P fuel = Ok w' ->
  forall t, (oc t w' <= 1)%nat.

(* non-vacuity: a one-off reactor on two broadcast types; both fire in one tree, and one fires again later: one run *)
Definition ex_prog : program :=
  mkProgram [mkSys 101 Plain false false None]
            []
            [] [] []
            [TFlush [AOnce 0 101 [TBroadcast 0; TBroadcast 1]];
             TFlush [ABroadcast 0 5; ABroadcast 1 6];
             TFlush [ABroadcast 1 7]].
Example ex_runs : exists w', run ex_prog 400 = Ok w' /\ runs 101 (g_runs w') = [(0,0)] /\ g_oruns w' = [101] /\ is_alive 101 w' = false.
Proof. eexists. split; [vm_compute; reflexivity|]. vm_compute. auto. Qed.

Print Assumptions one_off_reactor_runs_at_most_once.
Print Assumptions one_off_record_bound.
Print Assumptions once_invariant_everywhere.
Print Assumptions spent_wrapper_does_nothing.
Print Assumptions first_run_of_the_wrapper.
Print Assumptions entity_gone_after_the_run.
Print Assumptions revoking_its_token_removes_every_trigger.
Print Assumptions spent_wrapper_is_never_runnable.
