(* C12 — Events sent to one system from one run arrive in the order sent.   PARTIAL.
   Statements only; proofs in proofs/{TicketInv,TopLevel,LogSpec,OrderSpec}.v.

   "each with its own data" is C03 in full: a run sees exactly the entries parked by the command that caused it (the
   unique-ticket matching that replaced first-match-by-system-id), for any number and mix of pending deliveries.
   Order, proved: the commands of one run are applied in the order queued, each in-line delivery completing (with its
   whole subtree) before the next command is applied; tickets are drawn in application order; a delivery to a busy
   target is appended to the back of the buffer; the replay after the target's run goes front to back and keeps the
   relative order of everything it does not run.  Over whole executions (PrepSpec): the deliveries queued by one run are
   parked in the order queued, each before anything it causes, and tickets increase strictly in parking order in every
   reachable state — so the k-th delivery sent holds the k-th smallest ticket of them, and (C03) each run reads exactly
   the entries parked under the ticket of the command that caused it.
   NOT proved as one statement: "the k-th delivery from run r to target t is the k-th of them to start" over whole
   programs, with nested replays interleaving deliveries from other runs.  That is compared by the correspondence (order
   and readers projections on the recursion profile: bursts of 2-4 deliveries of mixed kinds to one busy or idle target)
   and checked on implementation logs by the m_order monitor. *)
From Cobweb Require Import Machine.
From Coq Require Import Sorting.Sorted.
From CobwebProofs Require Import Closed RunnerInv OnceInv TicketInv LogSpec OrderSpec PrepSpec TopLevel.

Theorem each_delivery_carries_its_own_data : forall (P : program) (fuel : nat), run P fuel <> Stuck 5.
Proof. exact readers_expose_own_claim. Qed.
Theorem own_data_means_the_entries_of_one_command : forall (P : program) (fuel : nat) (w' : world), run P fuel = Ok w' ->
  Forall (claim_ok (g_prep w')) (g_claim w') /\ NoDup (ptickets (g_prep w')).
Proof. exact run_claims_exact. Qed.
Theorem deliveries_are_applied_in_the_order_sent_partial : forall (P : program) f c cs w w', exec P (S f) (IApplyList (c :: cs)) w = Ok w' ->
  exists w1 l1 l2, exec P f (IApply c) w = Ok w1 /\ exec P f (IApplyList cs) w1 = Ok w'
                   /\ log w1 = log w ++ l1 /\ log w' = log w ++ l1 ++ l2.
Proof. exact commands_telescope. Qed.
Theorem tickets_are_drawn_in_application_order_partial : forall c w t su cl w1, prepare_cmd c w = Some (t, su, cl, w1) ->
  su = SuDefault /\ ticket_ctr w1 = ticket_ctr w \/ setup_ticket su = ticket_ctr w + 1 /\ ticket_ctr w1 = ticket_ctr w + 1.
Proof. exact tickets_follow_application_order. Qed.
Theorem busy_target_deliveries_queue_in_order_partial : forall t su cl w, buffer (rn_postpone t su cl w) = buffer w ++ [mkBuf t su cl].
Proof. exact postponed_commands_queue_up. Qed.
Theorem replay_is_front_to_back_partial : forall (P : program) f t b pending kept w,
  exec P (S f) (IReplay t (b :: pending) kept) w =
  if N.eqb (b_sys b) t then bind (exec P f (IRunner (b_sys b) (b_setup b) (b_cleanup b)) w) (fun w => exec P f (IReplay t pending kept) w)
  else exec P f (IReplay t pending (kept ++ [b])) w.
Proof. exact replay_step. Qed.
Theorem deliveries_to_other_targets_keep_their_order_partial : forall (P : program) t pending kept w f, (forall b, In b pending -> b_sys b <> t) ->
  (length pending < f)%nat -> exec P f (IReplay t pending kept) w = Ok (w <| buffer ::= fun b => b ++ kept ++ pending |>).
Proof. exact replay_keeps_the_others_in_order. Qed.

Theorem deliveries_are_parked_in_the_order_sent : forall (P : program) cs f w w', psorted w -> exec P f (IApplyList cs) w = Ok w' ->
  exists bs, g_prep w' = g_prep w ++ concat bs /\ Forall2 own_head cs bs /\ ticket_ctr w <= ticket_ctr w' /\ psorted w'.
Proof. exact command_list_parks_in_order. Qed.
Theorem a_delivery_is_parked_under_the_next_ticket_before_anything_it_causes : forall (P : program) f c w w', psorted w -> exec P f (IApply c) w = Ok w' ->
  exists b, g_prep w' = g_prep w ++ b /\ own_block w c b /\ ticket_ctr w <= ticket_ctr w' /\ psorted w'.
Proof. exact applied_command_parks_first. Qed.
Theorem tickets_increase_in_parking_order : forall (P : program) fuel w', run P fuel = Ok w' -> StronglySorted N.lt (ptickets (g_prep w')).
Proof. exact parking_order_is_ticket_order. Qed.

(* non-vacuity: while 101 runs it sends itself four system events (all postponed): they are read in the order sent *)
Definition ex_prog : program :=
  mkProgram [mkSys 101 Plain false true None]
            [((101, 0), [ASysEvent 101 0 1; ASysEvent 101 0 2; ASysEvent 101 0 3; ASysEvent 101 0 4])]
            [] [] []
            [TFlush [ASpawnSys 101]; TFlush [ARun 101]].
Example ex_runs : exists w', run ex_prog 400 = Ok w'
  /\ flat_map (fun e => match e with EvRun 101 _ _ sm => map snd (sm_s sm) | _ => [] end) (log w') = [1; 2; 3; 4].
Proof. eexists. split; [vm_compute; reflexivity|]. vm_compute. reflexivity. Qed.

(* non-vacuity of the parking theorems: the initial state is sorted, and the example run parks under tickets 1, 2, ... *)
Example ex_sorted : psorted (install_static ex_prog init_world).
Proof. exact (psorted_init ex_prog). Qed.
Example ex_parked : exists w', run ex_prog 400 = Ok w' /\ ptickets (g_prep w') = [1; 2; 3; 4] /\ ctickets (g_claim w') = [1; 2; 3; 4].
Proof. eexists. split; [vm_compute; reflexivity|]. vm_compute. split; reflexivity. Qed.

Print Assumptions each_delivery_carries_its_own_data.
Print Assumptions own_data_means_the_entries_of_one_command.
Print Assumptions deliveries_are_applied_in_the_order_sent_partial.
Print Assumptions tickets_are_drawn_in_application_order_partial.
Print Assumptions busy_target_deliveries_queue_in_order_partial.
Print Assumptions replay_is_front_to_back_partial.
Print Assumptions deliveries_to_other_targets_keep_their_order_partial.
Print Assumptions deliveries_are_parked_in_the_order_sent.
Print Assumptions a_delivery_is_parked_under_the_next_ticket_before_anything_it_causes.
Print Assumptions tickets_increase_in_parking_order.
