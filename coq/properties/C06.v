(* C06 — Revocation is complete, immediate and local.  Statements only; proofs in proofs/TablesSpec.v.
   `named s t x`: registration x belongs to reactor s and is the one a token names by reactor type t. *)
From Cobweb Require Import Machine.
From CobwebProofs Require Import Closed TablesSpec.

(* what one token entry does to the live registrations, for every trigger kind and every well-formed state (S1 made
   exact: the per-entity component drops every matching entry, a type-wide table drops the first one) *)
Theorem revoke_exact : forall (s : ent) (t : trigger) (w : world), wf_tables w ->
  regs (revoke_one s t w) =
  if removes_all t then filter (fun x => negb (named s t x)) (regs w) else remove_first_p (named s t) (regs w).
Proof. exact revoke_one_spec. Qed.

(* under the documented usage (a reactor is registered at most once per key) both readings coincide *)
Theorem revoke_exact_distinct : forall (s : ent) (t : trigger) (w : world), wf_tables w -> distinct_regs w ->
  regs (revoke_one s t w) = filter (fun x => negb (named s t x)) (regs w).
Proof. exact revoke_one_distinct. Qed.

(* complete *)
Theorem revoke_is_complete : forall (s : ent) (t : trigger) (w : world) (x : trigger * handle),
  wf_tables w -> distinct_regs w -> In x (regs (revoke_one s t w)) -> named s t x = false.
Proof. exact revoke_complete. Qed.
(* local: registrations of other reactors, and other triggers of the same reactor, are kept (no distinctness needed) *)
Theorem revoke_is_local : forall (s : ent) (t : trigger) (w : world) (x : trigger * handle),
  wf_tables w -> named s t x = false -> In x (regs w) -> In x (regs (revoke_one s t w)).
Proof. exact revoke_local. Qed.
(* immediate: the very next dispatch of any key no longer schedules s through a named registration *)
Theorem revoke_is_immediate : forall (s : ent) (t : trigger) (w : world) (k : tkey), wf_tables w -> distinct_regs w ->
  spec_targets k (revoke_one s t w) = map (fun x => handle_sys (snd x)) (filter (fun x => negb (named s t x)) (sel k (regs w))).
Proof. exact revoke_then_dispatch. Qed.
(* revoking twice changes nothing *)
Theorem revoke_twice : forall (s : ent) (t : trigger) (w : world), wf_tables w -> distinct_regs w ->
  regs (revoke_one s t (revoke_one s t w)) = regs (revoke_one s t w).
Proof. exact revoke_idempotent. Qed.
(* a whole token (every trigger of one registration call): exactly the registrations it names are gone, the rest stay in
   order, and tables stay well formed and duplicate-free *)
Theorem revoking_a_token_is_exact : forall (s : ent) (ts : list trigger) (w : world), wf_tables w -> distinct_regs w ->
  regs (revoke_all s ts w) = filter (fun x => negb (existsb (fun t => named s t x) ts)) (regs w)
  /\ wf_tables (revoke_all s ts w) /\ distinct_regs (revoke_all s ts w).
Proof. exact revoke_all_distinct. Qed.
(* revocation keeps the tables well formed (so all of C01 applies afterwards) *)
Theorem revoke_keeps_wf : forall (s : ent) (ts : list trigger) (w : world), wf_tables w -> wf_tables (revoke_all s ts w).
Proof. intros s ts w. apply wf_revoke_all. Qed.

Check revoke_exact : forall (s : ent) (t : trigger) (w : world), wf_tables w ->
  regs (revoke_one s t w) =
  if removes_all t then filter (fun x => negb (named s t x)) (regs w) else remove_first_p (named s t) (regs w).

(* non-vacuity: revoke reactor 102 from broadcast key 0 among neighbours before and after it *)
Definition ex_world : world :=
  init_world <| alive := [1; 101; 102; 103] |> <| bc_tbl := [(0, [HPersist 101; HPersist 102; HPersist 103]); (1, [HPersist 102])] |>.
Example ex_wf : wf_tables ex_world.
Proof. constructor; cbn; repeat constructor; cbn; try tauto; try (intros [H|[]]; discriminate). Qed.
Example ex_revoke : spec_targets (KBroadcast 0) (revoke_one 102 (TBroadcast 0) ex_world) = [101; 103]
                    /\ spec_targets (KBroadcast 1) (revoke_one 102 (TBroadcast 0) ex_world) = [102].
Proof. vm_compute. auto. Qed.
(* the S1 asymmetry, exhibited: two registrations of 102 under one type-wide key lose only the first *)
Example ex_duplicate_typewide :
  spec_targets (KBroadcast 0) (revoke_one 102 (TBroadcast 0) (init_world <| bc_tbl := [(0, [HPersist 102; HPersist 102])] |>)) = [102].
Proof. vm_compute. reflexivity. Qed.

Print Assumptions revoke_exact.
Print Assumptions revoke_exact_distinct.
Print Assumptions revoke_is_complete.
Print Assumptions revoke_is_local.
Print Assumptions revoke_is_immediate.
Print Assumptions revoke_twice.
Print Assumptions revoking_a_token_is_exact.
Print Assumptions revoke_keeps_wf.
