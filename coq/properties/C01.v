(* C01 — Trigger dispatch is exact: every matching registration, nothing else.
   Statements only; proofs live in proofs/TablesSpec.v.  `regs w` is the abstract list of live registrations of a state,
   `spec_targets k w` = one target per registration matching key k. *)
From Cobweb Require Import Machine.
From CobwebProofs Require Import Closed TablesSpec.
Require Import Coq.Sorting.Permutation.

(* the tables of every state reachable by any program, through any history, are well formed *)
Theorem reachable_wf : forall (P : program) (fuel : nat) (w' : world), run P fuel = Ok w' -> wf_tables w'.
Proof. intros P fuel w'. unfold run. apply wf_reachable. Qed.
(* ... and so are all intermediate states: any instruction, from any well-formed state *)
Theorem step_wf : forall (P : program) (fuel : nat) (i : instr) (w w' : world), wf_tables w -> exec P fuel i w = Ok w' -> wf_tables w'.
Proof. intros P. exact (wf_exec P). Qed.

(* applying a broadcast / entity event / resource mutation / insertion / mutation trigger in any well-formed state queues
   exactly one reaction command per live registration matching the trigger's key, in registration order, and nothing else *)
Theorem dispatch_exact : forall (P : program) (c : cmd) (w : world) (k : tkey),
  wf_tables w -> trigger_key c w = Some k -> reaction_targets (snd (apply_prim P c w)) = spec_targets k w.
Proof. exact dispatch_cmd_exact. Qed.

(* the polled dispatchers (removal, despawn) select by the same rule *)
Theorem dispatch_removal_exact : forall (w : world) (c : N) (e : ent), wf_tables w ->
  entity_targets e (RRem c) w ++ map handle_sys (comp_get KRem c w) = spec_targets (KRemoval c e) w.
Proof. exact dispatch_removal. Qed.
Theorem dispatch_despawn_exact : forall (w : world) (e : ent), wf_tables w ->
  map handle_sys (tbl_get e (desp_tbl w)) = spec_targets (KDespawn e) w.
Proof. exact dispatch_despawn. Qed.

(* no other primitive command schedules any reaction *)
Theorem only_triggers_schedule : forall (P : program) (c : cmd) (w : world),
  is_trigger_cmd c = false -> reaction_targets (snd (apply_prim P c w)) = [].
Proof. exact non_trigger_schedules_nothing. Qed.

(* the live registrations grow by exactly the registered entry ... *)
Theorem register_typewide_adds_one : forall (P : program) (t : trigger) (h : handle) (w : world), wf_tables w -> is_typewide t = true ->
  Permutation (regs (fst (apply_prim P (CRegTypewide t h) w))) ((t, h) :: regs w).
Proof. exact reg_typewide_spec. Qed.
Theorem register_entity_adds_one : forall (P : program) (rt : ertype) (e : ent) (h : handle) (w : world), wf_tables w ->
  if is_alive e w then Permutation (regs (fst (apply_prim P (CRegEntity rt e h) w))) ((er_trigger e rt, h) :: regs w)
  else regs (fst (apply_prim P (CRegEntity rt e h) w)) = regs w.
Proof. exact reg_entity_spec. Qed.
Theorem register_despawn_adds_one : forall (P : program) (e : ent) (h : handle) (w : world), wf_tables w ->
  if is_alive e w then Permutation (regs (fst (apply_prim P (CRegDespawn e h) w))) ((TDespawn e, h) :: regs w)
  else regs (fst (apply_prim P (CRegDespawn e h) w)) = regs w.
Proof. exact reg_despawn_spec. Qed.
(* ... and anything that leaves the tables alone leaves the registrations alone *)
Theorem registrations_frame : forall (w w' : world), tview w' = tview w -> regs w' = regs w.
Proof. exact regs_frame. Qed.

Check reachable_wf : forall (P : program) (fuel : nat) (w' : world), run P fuel = Ok w' -> wf_tables w'.
Check dispatch_exact : forall (P : program) (c : cmd) (w : world) (k : tkey),
  wf_tables w -> trigger_key c w = Some k -> reaction_targets (snd (apply_prim P c w)) = spec_targets k w.

(* non-vacuity: a concrete state with three registrations on two keys; the dispatch picks the two matching ones *)
Definition ex_world : world :=
  init_world <| alive := [1; 101; 102; 103] |> <| bc_tbl := [(0, [HPersist 101; HAuto 0 102]); (1, [HPersist 103])] |>
             <| ereactors := [(1, [(REvent 0, HPersist 103)])] |>.
Example ex_wf : wf_tables ex_world.
Proof. constructor; cbn; repeat constructor; cbn; try tauto; try (intros [H|[]]; discriminate). intros e [<-|[]]. reflexivity. Qed.
Example ex_dispatch : spec_targets (KBroadcast 0) ex_world = [101; 102] /\ spec_targets (KEntityEvent 0 1) ex_world = [103]
                      /\ spec_targets (KBroadcast 7) ex_world = [].
Proof. vm_compute. auto. Qed.

Print Assumptions reachable_wf.
Print Assumptions step_wf.
Print Assumptions dispatch_exact.
Print Assumptions dispatch_removal_exact.
Print Assumptions dispatch_despawn_exact.
Print Assumptions only_triggers_schedule.
Print Assumptions register_typewide_adds_one.
Print Assumptions register_entity_adds_one.
Print Assumptions register_despawn_adds_one.
Print Assumptions registrations_frame.
