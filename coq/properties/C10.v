(* C10 — Auto-despawn is an exact reference count.  Statements only; proofs in proofs/AutoDespawnSpec.v.
   The model (theories/AutoDespawn.v) executes operation sequences; a sequence stands for one interleaving of the threads
   that hold clones with the main thread, the drop of a clone being split into its atomic decrement (ODropBegin) and
   the send performed by the last dropper (ODropEnd), so that a collection may fall between the two. *)
From Cobweb Require Import AutoDespawn.
From CobwebProofs Require Import AutoDespawnSpec.

(* after ANY sequence: a signal is live (count >= 1), or sending, or has sent — never two of these — and every channel
   entry was sent by a signal that no longer has any clone *)
Theorem refcount_invariant : forall (ops : list aop), ad_inv (ad_run ops).
Proof. exact ad_inv_run. Qed.
Theorem channel_entries_have_no_clone : forall (ops : list aop) (x : ent), In x (a_chan (ad_run ops)) ->
  exists g, In (g, x) (a_sent (ad_run ops)) /\ ahas g (a_sigs (ad_run ops)) = false.
Proof. exact channel_only_from_dead_signals. Qed.

(* never despawned by the framework while a clone exists: an entity prepared once whose signal is live survives every
   collection, unless it hangs below another entity that is collected *)
Theorem never_while_a_clone_exists : forall (ops : list aop) (g : N) (e : ent) (n : N) (y : ent),
  let s := ad_run ops in
  alookup g (a_sigs s) = Some (e, n) -> (forall g', In (g', e) (a_sent s) -> g' = g) ->
  ad_alive y s = true -> (forall x, In x (a_chan s) -> x <> e -> reaches (depth s) y x s = false) ->
  ad_alive y (gc s) = true.
Proof. exact live_signal_protects. Qed.

(* the drop of the last clone hands the entity to the collector, and the first collection after it despawns the entity ... *)
Theorem last_drop_is_collected : forall (s : ad) (g : N) (e : ent), alookup g (a_sending s) = Some e ->
  ad_alive e (gc (ad_step s (ODropEnd g))) = false.
Proof. exact last_drop_then_gc. Qed.
Theorem everything_on_the_channel_is_collected : forall (s : ad) (x : ent), In x (a_chan s) -> ad_alive x (gc s) = false.
Proof. exact gc_kills. Qed.
(* ... together with everything that hangs below it when it is collected *)
Theorem descendants_go_with_it : forall (e : ent) (s : ad) (x : ent), reaches (depth s) x e s = true -> ad_alive x (kill_tree e s) = false.
Proof. exact kill_tree_kills. Qed.

(* collection is idempotent, empties the channel, ignores entities that are already gone, and touches nothing else *)
Theorem gc_is_idempotent : forall (s : ad), gc (gc s) = gc s.
Proof. exact gc_idempotent. Qed.
Theorem gc_touches_nothing_else : forall (s : ad) (y : ent), ad_alive y s = true ->
  (forall x, In x (a_chan s) -> reaches (depth s) y x s = false) -> ad_alive y (gc s) = true.
Proof. exact gc_safe. Qed.

Check refcount_invariant : forall (ops : list aop), ad_inv (ad_run ops).

(* non-vacuity: a clone dropped on "another thread" between the decrement and the send of the last drop *)
Example ex_interleaving :
  let ops := [OSpawn 1; OSpawn 2; OSetParent 2 1; OPrepare 1 1; OClone 1; ODropBegin 1; ODropBegin 1; OGc] in
  a_alive (ad_run ops) = [1; 2] /\ a_alive (ad_run (ops ++ [ODropEnd 1; OGc])) = [].
Proof. vm_compute. auto. Qed.

Print Assumptions refcount_invariant.
Print Assumptions channel_entries_have_no_clone.
Print Assumptions never_while_a_clone_exists.
Print Assumptions last_drop_is_collected.
Print Assumptions everything_on_the_channel_is_collected.
Print Assumptions descendants_go_with_it.
Print Assumptions gc_is_idempotent.
Print Assumptions gc_touches_nothing_else.
