(* C02 — Every scheduled run happens exactly once and the tree runs to completion.
   Statements only; proofs in proofs/{RunnerInv,TicketInv,TopLevel}.v.

   What is proved here (for every program, every shape and depth of recursion):
   (c) a command is postponed only for a target whose frame is active below it (PostR/held_ok of `runner_invariant`),
       and every entry of the world buffer targets such a frame;
   (d) when the outermost flush returns nothing is unresolved: the buffer is empty, the counter is reset, and no callback
       is missing — at a root frame the buffer is ALREADY empty when the discard loop is reached
       (`root_frame_leaves_nothing`), so the "discard leftovers" loop and the "callback missing at root" abort never
       act on a live command;
   (b) an abort always finds the command's own metadata (never_panics / tracker invariant).
   (a) in ticket form, for every command that draws a ticket (system events, broadcast / entity-event / entity /
       despawn reactions): over a whole run each is set up exactly once, by the run it causes or by the abort path, none
       lost and none twice (`every_event_carrying_command_is_resolved_exactly_once`).
   What is NOT a theorem (rests on the correspondence check and the m_runs monitor): (a) for the commands that draw no
   ticket (plain system commands, resource-mutation reactions), whose resolutions are not distinguishable in the ghost
   state, and as a count over the event log; termination (e) — see DESIGN §5 C02. *)
From Cobweb Require Import Machine.
Require Import Coq.Sorting.Permutation.
From CobwebProofs Require Import RunnerInv TicketInv TopLevel.

Theorem runner_invariant : forall (P : program) (fuel : nat) (i : instr) (A B : list ent) (w w' : world),
  exec P fuel i w = Ok w' -> PreR i A B w -> PostR i A B w w'.
Proof. exact exec_runner. Qed.

(* (d) at the root of a tree: after the callback ran and its postponed commands were replayed, nothing is left *)
Theorem root_frame_leaves_nothing : forall (P : program) (fuel : nat) (t : ent) (su : setup) (cl : cleanup) (w w' : world),
  InvCore [] w -> buffer w = [] -> counter w = 0 -> alookup t (storage w) = Some true ->
  exec P fuel (IRun t su cl 0) w = Ok w' -> counter w' = 0 /\ buffer w' = [] /\ InvCore [] w'.
Proof.
  intros P fuel t su cl w w' HI HB HC Hst E.
  assert (HPre : PreR (IRun t su cl 0) [] [] w).
  { unfold PreR. split; [exact HI|]. split; [apply incl_refl|]. split; [rewrite HB; apply held_ok_nil|].
    split; [exact Hst|]. split; [intros _; split; assumption|intros Hn; contradiction]. }
  destruct (exec_runner P fuel _ [] [] w w' E HPre) as (P1 & _ & P3 & _). destruct (P3 eq_refl) as [C' B']. auto.
Qed.

(* (d) the whole program: completion of every tree *)
Theorem trees_run_to_completion : forall (P : program) (fuel : nat) (w' : world), run P fuel = Ok w' ->
  counter w' = 0 /\ buffer w' = [] /\ (forall t, alookup t (storage w') <> Some false).
Proof. exact run_quiescent. Qed.

(* (c) whenever the runner postpones, the target's frame is active: in any state satisfying the invariant with context A,
   a taken callback belongs to A *)
Theorem postponed_only_for_active : forall (A : list ent) (w : world) (t : ent),
  InvCore A w -> alookup t (storage w) = Some false -> In t A.
Proof. intros A w t HI. exact (ic_taken A w HI t). Qed.

Check trees_run_to_completion.
(* every command that parked event data (system event, broadcast / entity-event / entity / despawn reaction) was set
   up exactly once over the whole run, by its run or by the abort path; tickets of claims are pairwise distinct and are
   exactly the tickets of the parked commands *)
Theorem every_event_carrying_command_is_resolved_exactly_once : forall (P : program) (fuel : nat) (w' : world), run P fuel = Ok w' ->
  Permutation (ptickets (g_prep w')) (ctickets (g_claim w')) /\ NoDup (ctickets (g_claim w')).
Proof. exact every_parked_command_is_set_up_exactly_once. Qed.

Print Assumptions every_event_carrying_command_is_resolved_exactly_once.
Print Assumptions runner_invariant.
Print Assumptions root_frame_leaves_nothing.
Print Assumptions trees_run_to_completion.
Print Assumptions postponed_only_for_active.
