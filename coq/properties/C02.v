(* C02 — Every scheduled run happens exactly once and the tree runs to completion.
   Statements only; proofs in proofs/{RunnerInv,TicketInv,TopLevel}.v.

   What is proved here (for every program, every shape and depth of recursion):
   (c) a command is postponed only for a target whose frame is active below it (PostR/held_ok of `runner_invariant`),
       and every entry of the world buffer targets such a frame;
   (d) when the outermost flush returns nothing is unresolved: the buffer is empty, the counter is reset, and no callback
       is missing — at a root frame the buffer is ALREADY empty when the discard loop is reached
       (`root_frame_leaves_nothing`), so the "discard leftovers" loop and the "callback missing at root" abort never
       act on a live command;
   (b) an abort always finds the command's own metadata (never_panics / tracker invariant).
   (a) in ticket form, for every command that draws a ticket (system events, broadcast / entity-event / entity /
       despawn reactions): over a whole run each is set up exactly once, by the run it causes or by the abort path, none
       lost and none twice (`every_event_carrying_command_is_resolved_exactly_once`).
   (a) in counting form, for the commands that draw no ticket (plain system commands, resource-mutation reactions): over
       a whole run, for every target system, as many were set up (run or abort path) as were applied
       (`unticketed_commands_are_resolved_exactly_once`, from the balance `unticketed_balance` proved by induction over
       the interpreter: applied - set up - waiting in the buffer changes by exactly what an instruction holds in hand).
   What is NOT a theorem (rests on the correspondence check and the m_runs monitor): (a) as a count of start / abort
   lines of the event log; termination (e) — see DESIGN §5 C02. *)
From Cobweb Require Import Machine.
Require Import Coq.Sorting.Permutation.
From Coq Require Import ZArith.
From CobwebProofs Require Import RunnerInv TicketInv TopLevel DefaultSpec.

Theorem runner_invariant : forall (P : program) (fuel : nat) (i : instr) (A B : list ent) (w w' : world),
  exec P fuel i w = Ok w' -> PreR i A B w -> PostR i A B w w'.
Proof. exact exec_runner. Qed.

(* (d) at the root of a tree: after the callback ran and its postponed commands were replayed, nothing is left *)
Theorem root_frame_leaves_nothing : forall (P : program) (fuel : nat) (t : ent) (su : setup) (cl : cleanup) (w w' : world),
  InvCore [] w -> buffer w = [] -> counter w = 0 -> alookup t (storage w) = Some true ->
  exec P fuel (IRun t su cl 0) w = Ok w' -> counter w' = 0 /\ buffer w' = [] /\ InvCore [] w'.
Proof.
  intros P fuel t su cl w w' HI HB HC Hst E.
  assert (HPre : PreR (IRun t su cl 0) [] [] w).
  { unfold PreR. split; [exact HI|]. split; [apply incl_refl|]. split; [rewrite HB; apply held_ok_nil|].
    split; [exact Hst|]. split; [intros _; split; assumption|intros Hn; contradiction]. }
  destruct (exec_runner P fuel _ [] [] w w' E HPre) as (P1 & _ & P3 & _). destruct (P3 eq_refl) as [C' B']. auto.
Qed.

(* (d) the whole program: completion of every tree *)
Theorem trees_run_to_completion : forall (P : program) (fuel : nat) (w' : world), run P fuel = Ok w' ->
  counter w' = 0 /\ buffer w' = [] /\ (forall t, alookup t (storage w') <> Some false).
Proof. exact run_quiescent. Qed.

(* (c) whenever the runner postpones, the target's frame is active: in any state satisfying the invariant with context A,
   a taken callback belongs to A *)
Theorem postponed_only_for_active : forall (A : list ent) (w : world) (t : ent),
  InvCore A w -> alookup t (storage w) = Some false -> In t A.
Proof. intros A w t HI. exact (ic_taken A w HI t). Qed.

Check trees_run_to_completion.
(* every command that parked event data (system event, broadcast / entity-event / entity / despawn reaction) was set
   up exactly once over the whole run, by its run or by the abort path; tickets of claims are pairwise distinct and are
   exactly the tickets of the parked commands *)
Theorem every_event_carrying_command_is_resolved_exactly_once : forall (P : program) (fuel : nat) (w' : world), run P fuel = Ok w' ->
  Permutation (ptickets (g_prep w')) (ctickets (g_claim w')) /\ NoDup (ctickets (g_claim w')).
Proof. exact every_parked_command_is_set_up_exactly_once. Qed.

(* (a) for commands without ticket: per target system, applied = set up, over the whole run; what the ghosts record *)
Theorem unticketed_commands_resolved_exactly_once : forall (P : program) (fuel : nat) (w' : world), run P fuel = Ok w' ->
  forall s, length (filter (N.eqb s) (g_dprep w')) = length (filter (cmatch s) (g_claim w')).
Proof. exact unticketed_commands_are_resolved_exactly_once. Qed.
Theorem unticketed_balance_everywhere : forall (P : program) (s : ent) (fuel : nat) (i : instr) (w w' : world),
  exec P fuel i w = Ok w' -> F s w' = (F s w - dcount s (held i))%Z.
Proof. exact unticketed_balance. Qed.
Theorem an_unticketed_command_is_noted_when_applied : forall c w t su cl w1, prepare_cmd c w = Some (t, su, cl, w1) ->
  g_dprep w1 = g_dprep w ++ (if is_default (mkBuf t su cl) then [t] else []).
Proof. exact unticketed_command_noted. Qed.
Theorem an_itemless_claim_is_the_setup_of_an_unticketed_command : forall su t w w0, run_setup su t w = Some w0 ->
  exists items, g_claim w0 = g_claim w ++ [(setup_ticket su, t, items)] /\ (items = [] <-> su = SuDefault).
Proof. exact setup_claims. Qed.
(* non-vacuity: 101 runs itself (postponed), 102 and a dead 103: three commands for 101/102 resolved, one aborted *)
Definition ex_prog2 : program :=
  mkProgram [mkSys 101 Plain false false None; mkSys 102 Plain false false None; mkSys 103 Plain false false None]
            [((101, 0), [ARun 101; ARun 102; ADespawn 103; ARun 103])]
            [] [] []
            [TFlush [ASpawnSys 101; ASpawnSys 102; ASpawnSys 103]; TFlush [ARun 101]].
Example ex_unticketed : exists w', run ex_prog2 400 = Ok w' /\ g_dprep w' = [101; 101; 102; 103]
  /\ map (fun c => snd (fst c)) (g_claim w') = [101; 102; 103; 101].
Proof. eexists. split; [vm_compute; reflexivity|]. vm_compute. split; reflexivity. Qed.

Print Assumptions every_event_carrying_command_is_resolved_exactly_once.
Print Assumptions runner_invariant.
Print Assumptions root_frame_leaves_nothing.
Print Assumptions trees_run_to_completion.
Print Assumptions postponed_only_for_active.
Print Assumptions unticketed_commands_resolved_exactly_once.
Print Assumptions unticketed_balance_everywhere.
Print Assumptions an_unticketed_command_is_noted_when_applied.
Print Assumptions an_itemless_claim_is_the_setup_of_an_unticketed_command.
