(* C07 — Reactor lifetime follows its mode: no leak, no premature despawn.   PARTIAL (step level).
   Statements only; proofs in proofs/{LifetimeSpec,WorldReactorSpec,AutoDespawnSpec}.v.

   Proved for all states: a persistent registration carries no signal and changes no state, so no step of the framework
   can ever put a persistent reactor on the collection channel through it; an auto-despawn handle is a reference to one
   signal — clone adds one, drop takes one, the drop of the last reference sends the reactor entity exactly once and
   nothing is despawned by dropping a handle; a collection drains the channel completely (including what its own
   despawns add) and leaves every collected entity dead; despawning a reactor drops its boxed callback (its system
   state and everything it captured).  The signal / channel / collector themselves are verified against the real
   AutoDespawner, for every interleaving, in C10.
   Proved for whole runs (closed invariant over the ghost set g_auto of entities for which a signal was ever prepared):
   in every reachable state the collector's channel and the signal table hold only such entities, and a signal is
   prepared by no command other than a registration in the Cleanup / Revokable modes — so a reactor that is only ever
   registered in persistent mode is never put on the channel, whatever is revoked, despawned or collected around it.
   Proved for whole executions (QuietSpec, induction over the interpreter): collection is timely — whenever the
   system-command runner returns (run, abort or postponement) and at the end of every frame the collector's channel is
   empty, so a reactor whose last reference was dropped during a tree is despawned before the tree ends (together with
   "a collection leaves every collected entity dead" and "the last reference sends the reactor once").
   NOT proved: the global reference count — that the number of live references equals the number of registrations,
   in-flight registration commands and pending despawn reactions of the reactor at every point of every run, hence
   "exists as long as ... and is collected by the first collection after ...".  That rests on the correspondence
   (lifetime profile: every mode, empty bundles, bundles naming dead entities, every order of revoke / fire / despawn /
   collect; live entities, state drops and table sizes compared after every op). *)
From Cobweb Require Import Machine.
From CobwebProofs Require Import RunnerInv LifetimeSpec WorldReactorSpec SigSpec SigInvSpec QuietSpec.

Theorem persistent_handle_is_never_counted_partial : forall s w, handle_drop (HPersist s) w = w /\ handle_clone (HPersist s) w = w.
Proof. exact persistent_handle_is_inert. Qed.
Theorem persistent_registration_changes_no_state_partial : forall (P : program) b s w, fst (apply_prim P (CRegister b s Persistent) w) = w.
Proof. exact persistent_registration_changes_no_state. Qed.
Theorem persistent_reactors_are_never_collected : forall (P : program) (fuel : nat) (w' : world), run P fuel = Ok w' ->
  forall e, In e (gc_chan w') \/ In e (map (fun x => fst (snd x)) (sigs w')) -> In e (g_auto w').
Proof. exact only_signalled_entities_are_collected. Qed.
Theorem collected_only_if_signalled_everywhere : forall (P : program) (fuel : nat) (i : instr) (w w' : world),
  AutoInv w -> exec P fuel i w = Ok w' -> AutoInv w'.
Proof. exact AutoInv_exec. Qed.
Theorem signals_come_only_from_refcounted_registration : forall (P : program) c w,
  g_auto (fst (apply_prim P c w)) = g_auto w \/
  exists b s m, c = CRegister b s m /\ m <> Persistent /\ g_auto (fst (apply_prim P c w)) = s :: g_auto w.
Proof. exact signal_prepared_only_by_refcounted_registration. Qed.
(* the signal table is well formed in every reachable state: a live signal has a positive count (so `drop takes one` and
   `last reference sends once` below always apply to it), ids are pairwise distinct and below the id counter (a newly
   prepared signal never collides with a live one) *)
Theorem signal_table_is_well_formed : forall (P : program) (fuel : nat) (w' : world), run P fuel = Ok w' ->
  (forall g e n, In (g, (e, n)) (sigs w') -> 1 <= n /\ g < next_sig w') /\ NoDup (map fst (sigs w')).
Proof. exact signal_table_well_formed. Qed.
Theorem clone_adds_one_reference_partial : forall g s e n w, alookup g (sigs w) = Some (e, n) ->
  sigs (handle_clone (HAuto g s) w) = aset g (e, n + 1) (sigs w) /\ gc_chan (handle_clone (HAuto g s) w) = gc_chan w.
Proof. exact clone_adds_one. Qed.
Theorem drop_takes_one_reference_partial : forall g s e n w, alookup g (sigs w) = Some (e, n) -> 1 < n ->
  sigs (handle_drop (HAuto g s) w) = aset g (e, n - 1) (sigs w) /\ gc_chan (handle_drop (HAuto g s) w) = gc_chan w.
Proof. exact drop_takes_one. Qed.
Theorem last_reference_sends_the_reactor_once_partial : forall g s e n w, alookup g (sigs w) = Some (e, n) -> n <= 1 ->
  sigs (handle_drop (HAuto g s) w) = aremove g (sigs w) /\ gc_chan (handle_drop (HAuto g s) w) = gc_chan w ++ [e].
Proof. exact last_drop_sends_the_entity. Qed.
Theorem dropping_a_handle_despawns_nothing_partial : forall h w, storage (handle_drop h w) = storage w /\ alive (handle_drop h w) = alive w.
Proof. exact handle_drop_despawns_nothing. Qed.
Theorem collection_drains_the_channel_partial : forall (P : program) f w w', exec P f IGC w = Ok w' ->
  gc_chan w' = [] /\ forall e, In e (gc_chan w) -> is_alive e w' = false.
Proof. exact gc_drains. Qed.
Theorem despawn_drops_the_system_state_partial : forall e w, is_alive e w = true -> alookup e (storage w) = Some true ->
  alookup e (cbs (despawn e w)) = None.
Proof. exact despawn_drops_callback. Qed.

Theorem dropped_reactors_are_collected_by_the_end_of_the_tree : forall (P : program) f t su cl w w', exec P f (IRunner t su cl) w = Ok w' -> gc_chan w' = [].
Proof. exact collector_has_run_when_a_tree_returns. Qed.
Theorem dropped_reactors_are_collected_by_the_end_of_the_frame : forall (P : program) f i bs w w', exec P f (ITop i (TFrame bs)) w = Ok w' -> gc_chan w' = [].
Proof. exact collector_has_run_when_a_frame_ends. Qed.

(* non-vacuity: a revokable reactor on a broadcast is revoked: it is collected by the collection that follows and its
   state is dropped; a persistent reactor registered on the same broadcast survives everything *)
Definition ex_prog : program :=
  mkProgram [mkSys 101 Plain false false None; mkSys 102 Plain false false None]
            [] [] [] []
            [TFlush [AOnRevokable 0 101 [TBroadcast 0]; AOnPersistent 102 [TBroadcast 0]];
             TFlush [ARevoke 0]; TFlush [ABroadcast 0 5]].
Example ex_runs : exists w', run ex_prog 400 = Ok w' /\ is_alive 101 w' = false /\ is_alive 102 w' = true
  /\ existsb (fun e => match e with EvDropSys 101 => true | _ => false end) (log w') = true
  /\ existsb (fun e => match e with EvRun 102 _ _ _ => true | _ => false end) (log w') = true
  /\ existsb (fun e => match e with EvRun 101 _ _ _ => true | _ => false end) (log w') = false
  /\ g_auto w' = [101].
Proof. eexists. split; [vm_compute; reflexivity|]. vm_compute. auto 10. Qed.

Print Assumptions persistent_handle_is_never_counted_partial.
Print Assumptions persistent_registration_changes_no_state_partial.
Print Assumptions persistent_reactors_are_never_collected.
Print Assumptions collected_only_if_signalled_everywhere.
Print Assumptions signals_come_only_from_refcounted_registration.
Print Assumptions signal_table_is_well_formed.
Print Assumptions clone_adds_one_reference_partial.
Print Assumptions drop_takes_one_reference_partial.
Print Assumptions last_reference_sends_the_reactor_once_partial.
Print Assumptions dropping_a_handle_despawns_nothing_partial.
Print Assumptions collection_drains_the_channel_partial.
Print Assumptions despawn_drops_the_system_state_partial.
Print Assumptions dropped_reactors_are_collected_by_the_end_of_the_tree.
Print Assumptions dropped_reactors_are_collected_by_the_end_of_the_frame.
