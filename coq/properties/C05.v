(* C05 — Event payloads are released exactly after their last reader.   PARTIAL.

   Full statement (properties.jsonl): the payload of a broadcast, entity event or system event is dropped once, after
   the last run scheduled to read it has finished or been skipped, never while a scheduled reader has yet to run, and at
   the latest when the tree ends; an unheard event is dropped immediately; no bookkeeping entity outlives the tree.

   Proved here (for all states, not only reachable ones): every step of the protocol does what the counting argument
   needs — unheard events are dropped at once and create nothing; the counter starts at exactly the number of reaction
   commands queued; each cleanup decrements it by exactly one and leaves entity and payload in place while it stays
   positive; the decrement that reaches zero despawns the entity and thereby drops the payload; a system-event command's
   cleanup despawns its data entity; an aborted (skipped) command still runs setup and cleanup; setup never fails and the
   trackers are empty when the tree ends (C11/C18).
   Proved for whole executions (PrepSpec, TopLevel): every reaction command a broadcast / entity event queues — exactly
   as many as the counter starts with — is parked, in order, under a fresh ticket with the data entity as its parked
   item, before the trigger command returns; every parked command is set up exactly once over the run (by its run or by
   the abort path, each followed by its cleanup).
   Proved for whole executions (DataSpec, induction over the interpreter, no assumption on the program): the leak-freedom
   half of the counter equation — at every instruction boundary the count a live data entity carries never exceeds the
   readers still to come (entries parked for it in the tracker + the open window on it + the reaction commands queued in
   the instruction + what the calling context still owes); hence, the trackers being empty at quiescence, when a run ends
   no event data entity is left at all: every payload has been released and no bookkeeping entity outlives the tree.
   NOT proved: the converse inequality (the count is never BELOW the readers still to come, i.e. no payload is released
   while a scheduled reader has yet to run) and "dropped exactly once" as a count over the log.  Those
   rest on the correspondence (every drop is a compared log line, data=0 in every compared snapshot) and the m_payloads
   monitor.  Statements only; proofs in proofs/{PayloadSpec,PrepSpec,DataSpec}.v. *)
From Cobweb Require Import Machine.
Require Import Coq.Sorting.Permutation.
From Coq Require Import ZArith.
From CobwebProofs Require Import RunnerInv OnceInv TicketInv PayloadSpec PrepSpec DataSpec TopLevel.

Theorem unheard_broadcast_dropped_at_once_partial : forall (P : program) w ty p, tbl_get ty (bc_tbl w) = [] ->
  snd (apply_prim P (CBroadcast ty p) w) = [] /\ dataents (fst (apply_prim P (CBroadcast ty p) w)) = dataents w
  /\ alive (fst (apply_prim P (CBroadcast ty p) w)) = alive w /\ In (EvDrop p) (log (fst (apply_prim P (CBroadcast ty p) w))).
Proof. exact unheard_broadcast. Qed.
Theorem unheard_entity_event_dropped_at_once_partial : forall (P : program) w ty e p,
  entity_targets e (REvent ty) w ++ map handle_sys (tbl_get ty (any_tbl w)) = [] ->
  snd (apply_prim P (CEntityEvent ty e p) w) = [] /\ dataents (fst (apply_prim P (CEntityEvent ty e p) w)) = dataents w
  /\ alive (fst (apply_prim P (CEntityEvent ty e p) w)) = alive w /\ In (EvDrop p) (log (fst (apply_prim P (CEntityEvent ty e p) w))).
Proof. exact unheard_entity_event. Qed.
Theorem counter_starts_at_number_of_readers_partial : forall (P : program) w ty p h hs, tbl_get ty (bc_tbl w) = h :: hs ->
  let d := next_ent w in
  snd (apply_prim P (CBroadcast ty p) w)
  = CSpawnData d (DBroadcast ty p (len (h :: hs))) :: map (fun h => CReact (RcBroadcast d (handle_sys h))) (h :: hs)
  /\ length (map (fun h => CReact (RcBroadcast d (handle_sys h))) (h :: hs)) = N.to_nat (len (h :: hs)).
Proof. exact broadcast_counter. Qed.
Theorem entity_event_counter_starts_at_number_of_readers_partial : forall (P : program) w ty e p t ts,
  entity_targets e (REvent ty) w ++ map handle_sys (tbl_get ty (any_tbl w)) = t :: ts ->
  let d := next_ent w in
  snd (apply_prim P (CEntityEvent ty e p) w)
  = CSpawnData d (DEntityEvent ty e p (len (t :: ts))) :: map (fun t => CReact (RcEntityEvent e d t)) (t :: ts)
  /\ length (map (fun t => CReact (RcEntityEvent e d t)) (t :: ts)) = N.to_nat (len (t :: ts)).
Proof. exact entity_event_counter. Qed.
Theorem payload_kept_while_readers_remain_partial : forall d ty p cnt w,
  is_alive d w = true -> alookup d (dataents w) = Some (DBroadcast ty p cnt) -> 1 < cnt ->
  let w' := try_cleanup_data_entity d w in
  is_alive d w' = true /\ alookup d (dataents w') = Some (DBroadcast ty p (cnt - 1)) /\ log w' = log w.
Proof. exact cleanup_decrements_broadcast. Qed.
Theorem entity_event_payload_kept_while_readers_remain_partial : forall d ty t p cnt w,
  is_alive d w = true -> alookup d (dataents w) = Some (DEntityEvent ty t p cnt) -> 1 < cnt ->
  let w' := try_cleanup_data_entity d w in
  is_alive d w' = true /\ alookup d (dataents w') = Some (DEntityEvent ty t p (cnt - 1)) /\ log w' = log w.
Proof. exact cleanup_decrements_entity_event. Qed.
Theorem last_reader_releases_partial : forall d dd w, is_alive d w = true -> alookup d (dataents w) = Some dd ->
  (match dd with DBroadcast _ _ cnt | DEntityEvent _ _ _ cnt => cnt <= 1 | DSysEvent _ _ => False end) ->
  let w' := try_cleanup_data_entity d w in
  is_alive d w' = false /\ alookup d (dataents w') = None /\ (forall p, payload_of dd = Some p -> In (EvDrop p) (log w')).
Proof. exact last_cleanup_drops. Qed.
Theorem system_event_data_released_by_cleanup_partial : forall d dd w, cur (tr_se w) = d -> is_alive d w = true -> alookup d (dataents w) = Some dd ->
  let w' := run_cleanup ClSysEvent w in
  is_alive d w' = false /\ alookup d (dataents w') = None /\ (forall p, payload_of dd = Some p -> In (EvDrop p) (log w')).
Proof. exact system_event_cleanup_drops. Qed.
Theorem one_decrement_per_cleanup_partial : forall w,
  run_cleanup ClBroadcast w = try_cleanup_data_entity (cur (tr_ev w)) (w <| tr_ev ::= trk_end |>) /\
  run_cleanup ClEntityEvent w = try_cleanup_data_entity (cur (tr_ev w)) (w <| tr_er ::= trk_end |> <| tr_ev ::= trk_end |>) /\
  run_cleanup ClSysEvent w = despawn (cur (tr_se w)) (w <| tr_se ::= trk_end |>) /\
  run_cleanup ClDefault w = w.
Proof. exact cleanup_kinds. Qed.
Theorem skipped_reader_still_cleans_up_partial : forall (P : program) f t su cl w w0, run_setup su t w = Some w0 ->
  exec P (S f) (IAbort t su cl) w = bind (exec P f IGC (rn_abort_cleanup su cl w0)) (fun w => exec P f IPoll w).
Proof. exact abort_runs_setup_and_cleanup. Qed.
(* setup never fails on any path (run or abort), so no reader is lost on the way to its cleanup *)
Theorem no_reader_is_lost_partial : forall (P : program) (fuel : nat) (n : N), run P fuel = Stuck n -> n = 4.
Proof. exact run_never_panics. Qed.

(* non-vacuity: a broadcast with two listeners, one of which despawns the other before it runs (skipped reader): the
   payload 5 is dropped exactly once and no data entity is left *)
Definition ex_prog : program :=
  mkProgram [mkSys 101 Plain false false None; mkSys 102 Plain false false None]
            [((101, 0), [ADespawn 102])]
            [] [] []
            [TFlush [ASpawnSys 101; ASpawnSys 102];
             TFlush [ARegister 0 Persistent 101 [TBroadcast 0]; ARegister 1 Persistent 102 [TBroadcast 0]];
             TFlush [ABroadcast 0 5]].
Example ex_runs : exists w', run ex_prog 300 = Ok w' /\ dataents w' = []
  /\ length (filter (fun e => match e with EvDrop 5 => true | _ => false end) (log w')) = 1%nat
  /\ existsb (fun e => match e with EvAbort 102 _ _ => true | _ => false end) (log w') = true.
Proof. eexists. split; [vm_compute; reflexivity|]. vm_compute. auto. Qed.

(* every command that parked event data (system event, broadcast / entity-event / entity / despawn reaction) was set
   up exactly once over the whole run, by its run or by the abort path; tickets of claims are pairwise distinct and are
   exactly the tickets of the parked commands *)
Theorem every_scheduled_reader_is_set_up_exactly_once : forall (P : program) (fuel : nat) (w' : world), run P fuel = Ok w' ->
  Permutation (ptickets (g_prep w')) (ctickets (g_claim w')) /\ NoDup (ctickets (g_claim w')).
Proof. exact every_parked_command_is_set_up_exactly_once. Qed.

(* the counted readers are all parked: one block per reaction command the trigger queued, headed by that command's own
   entry (target system, the data entity as parked item) *)
Theorem every_counted_reader_of_a_broadcast_is_parked : forall (P : program) f ty p w w' h hs, psorted w -> tbl_get ty (bc_tbl w) = h :: hs ->
  exec P f (IApply (CBroadcast ty p)) w = Ok w' ->
  exists bs, g_prep w' = g_prep w ++ concat bs /\
    Forall2 own_head (map (fun h0 => CReact (RcBroadcast (next_ent w) (handle_sys h0))) (h :: hs)) bs /\ psorted w'.
Proof. exact broadcast_readers_all_parked. Qed.
Theorem every_counted_reader_of_an_entity_event_is_parked : forall (P : program) f ty e p w w' t ts, psorted w ->
  entity_targets e (REvent ty) w ++ map handle_sys (tbl_get ty (any_tbl w)) = t :: ts ->
  exec P f (IApply (CEntityEvent ty e p)) w = Ok w' ->
  exists bs, g_prep w' = g_prep w ++ concat bs /\
    Forall2 own_head (map (fun t0 => CReact (RcEntityEvent e (next_ent w) t0)) (t :: ts)) bs /\ psorted w'.
Proof. exact entity_event_readers_all_parked. Qed.
Example ex_sorted : psorted (install_static ex_prog init_world).
Proof. exact (psorted_init ex_prog). Qed.
Example ex_parked : exists w', run ex_prog 300 = Ok w' /\ map snd (g_prep w') = [[PiEv 1000000]; [PiEv 1000000]].
Proof. eexists. split; [vm_compute; reflexivity|]. vm_compute. reflexivity. Qed.

(* the count never exceeds the readers still to come (kd = true: broadcast / entity-event data, tracker tr_ev; kd = false:
   system-event data, tracker tr_se); Y is what the calling context still owes for d *)
Theorem count_never_exceeds_the_readers_to_come : forall (P : program) (d : ent) (kd : bool) (fuel : nat) (i : instr) (Y : Z) (w w' : world),
  DataAlive w -> PreC d kd i Y w -> exec P fuel i w = Ok w' -> Q d kd Y w'.
Proof. exact exec_count_bound. Qed.
Theorem recorded_data_entities_are_alive_everywhere : forall (P : program) (fuel : nat) (i : instr) (w w' : world),
  DataAlive w -> exec P fuel i w = Ok w' -> DataAlive w'.
Proof. intros P. exact (Closed.exec_closed P DataAlive (DA_closed P)). Qed.
(* whole runs: nothing is left — every event data entity has been released when the run ends *)
Theorem no_event_data_entity_outlives_the_run : forall (P : program) (fuel : nat) (w' : world), run P fuel = Ok w' ->
  forall d, alookup d (dataents w') = None.
Proof. exact no_data_entity_left. Qed.

Example ex_count_hyps : DataAlive (install_static ex_prog init_world) /\ Q 1000000 true 0 (install_static ex_prog init_world).
Proof. split; [apply DA_init|apply Q_init]. Qed.

Print Assumptions every_scheduled_reader_is_set_up_exactly_once.
Print Assumptions unheard_broadcast_dropped_at_once_partial.
Print Assumptions unheard_entity_event_dropped_at_once_partial.
Print Assumptions counter_starts_at_number_of_readers_partial.
Print Assumptions entity_event_counter_starts_at_number_of_readers_partial.
Print Assumptions payload_kept_while_readers_remain_partial.
Print Assumptions entity_event_payload_kept_while_readers_remain_partial.
Print Assumptions last_reader_releases_partial.
Print Assumptions system_event_data_released_by_cleanup_partial.
Print Assumptions one_decrement_per_cleanup_partial.
Print Assumptions skipped_reader_still_cleans_up_partial.
Print Assumptions no_reader_is_lost_partial.
Print Assumptions every_counted_reader_of_a_broadcast_is_parked.
Print Assumptions every_counted_reader_of_an_entity_event_is_parked.
Print Assumptions count_never_exceeds_the_readers_to_come.
Print Assumptions recorded_data_entities_are_alive_everywhere.
Print Assumptions no_event_data_entity_outlives_the_run.
