(* C08 — Every removal and despawn is reacted to exactly once.   PARTIAL (step level).
   Statements only; proofs in proofs/{PollSpec,TablesSpec}.v.

   Proved for all states: a removal of a reactive component appends exactly one record stamped with a fresh sequence
   number, and the remove command records iff the component was there on a live entity (nothing is recorded for a
   component that was not removed); sequence numbers stay below the counter under every recording step; one poll
   schedules, for every checker and every record it has not read yet, in order, exactly the reactions of the reactors
   registered for that removal at that moment (dispatch exactness, C01), and moves every cursor to the counter, so a
   record is read once; a watched entity is sent on the despawn channel exactly once, when it dies, and stops being
   watched; a poll schedules one reaction per registered despawn handle of every entity on the channel, consumes the
   entity's table entry (a despawn reactor fires at most once per watched entity) and empties the channel.
   RSeq (sequence numbers below the counter) is a closed invariant of every interpreter step, hence holds in every
   reachable state.
   Proved for whole executions (PrepSpec, TopLevel, QuietSpec): every reaction a poll schedules is parked
   (Command::apply draws a fresh ticket and parks the reaction's data) in the order in which the poll produced it, each
   before anything it causes; tickets increase strictly in parking order in every reachable state; over a whole run
   every parked command is set up exactly once — by the run it causes or by the abort path when its target has vanished
   — none is lost and none is set up twice; and polls come in time: whenever the system-command runner returns (after a
   run, an abort or a postponement), whenever a poll with everything it schedules returns, and at the end of every
   frame, the despawn channel is empty and no removal checker has an unread record (Quiet).
   PARTIAL in this sense only: the links (recorded once -> read once -> exactly the registered reactors scheduled ->
   parked in order -> set up exactly once; polled by the end of the tree / frame) are separate theorems; their
   composition into one log-level statement ("one run line per removal record and registered reactor") is not a single
   theorem and is what the correspondence (poll profile) compares. *)
From Cobweb Require Import Machine.
From Coq Require Import Sorting.Sorted Sorting.Permutation.
From CobwebProofs Require Import TablesSpec PollSpec TicketInv PrepSpec QuietSpec TopLevel.

Theorem removal_is_recorded_once_partial : forall c e w,
  removed (push_removed c e w) = removed w ++ [(c, (e, removed_seq w, generation w))] /\ removed_seq (push_removed c e w) = N.succ (removed_seq w).
Proof. exact removal_is_recorded_once. Qed.
Theorem nothing_recorded_for_a_component_not_removed_partial : forall (P : program) c e w,
  removed (fst (apply_prim P (CRemoveReact c e) w)) =
  if is_alive e w && (match alookup2 c e (comps w) with Some _ => true | None => false end)
  then removed w ++ [(c, (e, removed_seq w, generation w))] else removed w.
Proof. exact remove_command_records_iff_removed. Qed.
Theorem sequence_numbers_stay_below_the_counter_partial : forall w, RSeq w ->
  (forall c e, RSeq (push_removed c e w)) /\ (forall cs e, RSeq (push_removed_all cs e w)) /\ RSeq (clear_trackers w).
Proof. intros w H. split; [intros; apply RSeq_push; exact H|]. split; [intros; apply RSeq_push_all; exact H|apply RSeq_clear; exact H]. Qed.
Theorem sequence_numbers_invariant_everywhere : forall (P : program) (fuel : nat) (i : instr) (w w' : world),
  RSeq w -> exec P fuel i w = Ok w' -> RSeq w'.
Proof. exact RSeq_exec. Qed.
Theorem a_removal_is_read_once_in_every_reachable_state : forall (P : program) (fuel : nat) (w' : world), run P fuel = Ok w' ->
  forall chk, snd (poll_removals (fst (poll_removals chk w')) w') = [].
Proof. intros P fuel w' E chk. apply a_removal_is_read_once. eapply RSeq_reachable; eauto. Qed.
Theorem poll_schedules_every_unread_removal_partial : forall chk w,
  poll_removals chk w = (map (fun x => (fst x, removed_seq w)) chk,
                         flat_map (fun x => flat_map (removal_cmds_for (fst x) w) (unread (fst x) (snd x) (removed w))) chk).
Proof. exact poll_removals_spec. Qed.
Theorem removal_reactions_go_to_exactly_the_registered_reactors_partial : forall w c e, wf_tables w ->
  removal_cmds_for c w e = map (fun t => CReact (RcEntity e (RRem c) t)) (spec_targets (KRemoval c e) w).
Proof. exact removal_reactions_are_exact. Qed.
Theorem a_removal_is_read_once_partial : forall chk w, RSeq w ->
  let chk' := fst (poll_removals chk w) in snd (poll_removals chk' w) = [].
Proof. exact a_removal_is_read_once. Qed.
Theorem watched_entity_sent_once_on_despawn_partial : forall e w, memN e (dtrackers w) = true ->
  despawn_chan (dsp_tracker e w) = despawn_chan w ++ [e] /\ dtrackers (dsp_tracker e w) = removeN e (dtrackers w).
Proof. exact despawn_of_a_watched_entity_is_sent_once. Qed.
Theorem unwatched_entity_sends_nothing_partial : forall e w, memN e (dtrackers w) = false -> dsp_tracker e w = w.
Proof. exact despawn_of_an_unwatched_entity_sends_nothing. Qed.
Theorem poll_schedules_every_despawn_reactor_partial : forall e r w,
  snd (poll_despawns (e :: r) w) =
  map (fun h => CReact (RcDespawn e (handle_sys h) h)) (tbl_get e (desp_tbl w)) ++ snd (poll_despawns r (w <| desp_tbl := aremove e (desp_tbl w) |>)).
Proof. exact despawn_reactions_head. Qed.
Theorem despawn_reactions_go_to_exactly_the_registered_reactors_partial : forall w e, wf_tables w ->
  map handle_sys (tbl_get e (desp_tbl w)) = spec_targets (KDespawn e) w.
Proof. exact despawn_reaction_targets_are_exact. Qed.
Theorem despawn_reactor_fires_at_most_once_per_entity_partial : forall e w,
  tbl_get e (desp_tbl (w <| desp_tbl := aremove e (desp_tbl w) |>)) = [].
Proof. exact despawn_entry_is_consumed. Qed.
Theorem poll_empties_the_despawn_channel_partial : forall w, despawn_chan (fst (poll w)) = [].
Proof. exact poll_empties_the_despawn_channel. Qed.

Theorem reactions_of_one_poll_are_parked_in_order : forall (P : program) f w w', psorted w -> exec P f IPoll w = Ok w' ->
  exists bs, g_prep w' = g_prep w ++ concat bs /\ Forall2 own_head (snd (poll w)) bs /\ psorted w'.
Proof. exact poll_reactions_parked_in_order. Qed.
Theorem tickets_increase_in_parking_order : forall (P : program) fuel w', run P fuel = Ok w' -> StronglySorted N.lt (ptickets (g_prep w')).
Proof. exact parking_order_is_ticket_order. Qed.
Theorem every_parked_reaction_is_set_up_exactly_once : forall (P : program) fuel w', run P fuel = Ok w' ->
  Permutation (ptickets (g_prep w')) (ctickets (g_claim w')) /\ NoDup (ctickets (g_claim w')).
Proof. exact every_parked_command_is_set_up_exactly_once. Qed.

Theorem a_tree_ends_with_nothing_unread : forall (P : program) f t su cl w w', RSeq w -> exec P f (IRunner t su cl) w = Ok w' -> Quiet w'.
Proof. exact tree_ends_polled. Qed.
Theorem a_poll_and_what_it_schedules_leave_nothing_unread : forall (P : program) f w w', RSeq w -> exec P f IPoll w = Ok w' -> Quiet w'.
Proof. exact poll_leaves_nothing_unread. Qed.
Theorem a_frame_ends_with_nothing_unread : forall (P : program) f i bs w w', RSeq w -> exec P f (ITop i (TFrame bs)) w = Ok w' -> Quiet w'.
Proof. exact frame_ends_polled. Qed.

(* non-vacuity: component 0 of entity 1 is removed, re-inserted and removed again between two polls, entity 2 (watched)
   is despawned: the removal reactor runs twice for entity 1, the despawn reactor once for entity 2 *)
Definition ex_prog : program :=
  mkProgram [mkSys 101 Plain false false None; mkSys 102 Plain false false None]
            [] [] [] [1; 2]
            [TFlush [ASpawnEntity 1; ASpawnEntity 2; AInsert 0 1 0; AOnPersistent 101 [TRem 0]; AOnPersistent 102 [TDespawn 2]];
             TFlush [ARemove 0 1; AInsert 0 1 1; ARemove 0 1; ADespawn 2];
             TFlush [APoll]].
Example ex_runs : exists w', run ex_prog 400 = Ok w'
  /\ map (fun e => match e with EvRun s _ _ sm => (s, sm_r sm, sm_d sm) | _ => (0, [], None) end)
         (filter (fun e => match e with EvRun _ _ _ _ => true | _ => false end) (log w'))
     = [(101, [(0, 1)], None); (101, [(0, 1)], None); (102, [], Some 2)].
Proof. eexists. split; [vm_compute; reflexivity|]. vm_compute. reflexivity. Qed.

(* non-vacuity of the parking theorems: the initial state is sorted, and the example run parks under tickets 1, 2, ... *)
Example ex_sorted : psorted (install_static ex_prog init_world).
Proof. exact (psorted_init ex_prog). Qed.
Example ex_parked : exists w', run ex_prog 400 = Ok w' /\ ptickets (g_prep w') = [1; 2; 3] /\ ctickets (g_claim w') = [1; 2; 3].
Proof. eexists. split; [vm_compute; reflexivity|]. vm_compute. split; reflexivity. Qed.
Example ex_quiet : exists w', run ex_prog 400 = Ok w' /\ Quiet w' /\ length (removed w') = 2%nat /\ removal_checkers w' <> [].
Proof.
  eexists. split; [vm_compute; reflexivity|]. split; [|split; [vm_compute; reflexivity|vm_compute; discriminate]].
  split; [vm_compute; reflexivity|]. intros c cur Hin. vm_compute in Hin. destruct Hin as [H|[]]. inversion H; subst. vm_compute. reflexivity.
Qed.

Print Assumptions removal_is_recorded_once_partial.
Print Assumptions nothing_recorded_for_a_component_not_removed_partial.
Print Assumptions sequence_numbers_stay_below_the_counter_partial.
Print Assumptions sequence_numbers_invariant_everywhere.
Print Assumptions a_removal_is_read_once_in_every_reachable_state.
Print Assumptions poll_schedules_every_unread_removal_partial.
Print Assumptions removal_reactions_go_to_exactly_the_registered_reactors_partial.
Print Assumptions a_removal_is_read_once_partial.
Print Assumptions watched_entity_sent_once_on_despawn_partial.
Print Assumptions unwatched_entity_sends_nothing_partial.
Print Assumptions poll_schedules_every_despawn_reactor_partial.
Print Assumptions despawn_reactions_go_to_exactly_the_registered_reactors_partial.
Print Assumptions despawn_reactor_fires_at_most_once_per_entity_partial.
Print Assumptions poll_empties_the_despawn_channel_partial.
Print Assumptions reactions_of_one_poll_are_parked_in_order.
Print Assumptions tickets_increase_in_parking_order.
Print Assumptions every_parked_reaction_is_set_up_exactly_once.
Print Assumptions a_tree_ends_with_nothing_unread.
Print Assumptions a_poll_and_what_it_schedules_leave_nothing_unread.
Print Assumptions a_frame_ends_with_nothing_unread.
