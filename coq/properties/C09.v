(* C09 — Depth-first telescoping order with postponed recursion.   Statements only; proofs in
   proofs/{LogSpec,OrderSpec,RunnerInv,TopLevel}.v.

   The interpreter (Machine.exec) is big-step: executing a command includes everything it transitively causes, and a
   command list is executed left to right.  What is proved on top of that: the log is append-only for every step, so
   the effects of a command and of its whole subtree form a block that precedes every effect of the next queued command;
   commands that enter the runner do so in-line when applied; a command is postponed only if its target is executing
   (RunnerInv); postponed commands queue up in order, are replayed front to back as soon as the target's run — with
   everything it queued — has completed and before control returns to whatever was queued after that run, and what the
   replayed runs postpone themselves goes in front of the commands kept for other targets.
   Removal / despawn reactions are scheduled by polls; that they run at a system-command boundary of the same tree and no
   later than its end is proved (QuietSpec): whenever the runner returns — run, abort or postponement — no removal record
   is unread and the despawn channel is empty, and a poll applies what it schedules in-line.
   Partial: "the order of the EvRun lines equals the depth-first order
   of the command tree" as a single statement over whole programs is not formulated — it is what the correspondence
   compares (order projection: every mark, run and end line) on the recursion profile. *)
From Cobweb Require Import Machine.
From CobwebProofs Require Import Closed RunnerInv LogSpec OrderSpec PollSpec QuietSpec TopLevel.

Theorem log_is_append_only : forall (P : program) (fuel : nat) (i : instr) (w w' : world),
  exec P fuel i w = Ok w' -> exists l, log w' = log w ++ l.
Proof. exact exec_log_extends. Qed.
Theorem queued_commands_telescope : forall (P : program) f c cs w w', exec P (S f) (IApplyList (c :: cs)) w = Ok w' ->
  exists w1 l1 l2, exec P f (IApply c) w = Ok w1 /\ exec P f (IApplyList cs) w1 = Ok w'
                   /\ log w1 = log w ++ l1 /\ log w' = log w ++ l1 ++ l2.
Proof. exact commands_telescope. Qed.
Theorem command_list_logs_blocks_in_order : forall (P : program) cs f w w', exec P f (IApplyList cs) w = Ok w' ->
  exists blocks, length blocks = length cs /\ log w' = log w ++ concat blocks.
Proof. exact OrderSpec.command_list_logs_blocks_in_order. Qed.
Theorem runner_commands_run_inline : forall (P : program) f c w t su cl w0, prepare_cmd c w = Some (t, su, cl, w0) ->
  exec P (S f) (IApply c) w = exec P f (IRunner t su cl) w0.
Proof. exact OrderSpec.runner_commands_run_inline. Qed.
Theorem consequences_run_before_the_next_command : forall (P : program) f c w, prepare_cmd c w = None ->
  (forall s, c <> CSpawnSys s) -> c <> CGC ->
  exec P (S f) (IApply c) w = exec P f (IApplyList (snd (apply_prim P c w))) (fst (apply_prim P c w)).
Proof. exact plain_commands_and_their_consequences_inline. Qed.
(* the exception: postponed only for a target that is executing (runner invariant with ghost calling context) ... *)
Theorem postponed_only_while_the_target_executes : forall (P : program) (fuel : nat) (i : instr) (A B : list ent) (w w' : world),
  exec P fuel i w = Ok w' -> PreR i A B w -> PostR i A B w w'.
Proof. exact exec_runner. Qed.
(* ... queued in order, replayed front to back right after that execution, ahead of what was queued after it *)
Theorem postponed_commands_queue_in_order : forall t su cl w, buffer (rn_postpone t su cl w) = buffer w ++ [mkBuf t su cl].
Proof. exact postponed_commands_queue_up. Qed.
Theorem replay_front_to_back : forall (P : program) f t b pending kept w,
  exec P (S f) (IReplay t (b :: pending) kept) w =
  if N.eqb (b_sys b) t then bind (exec P f (IRunner (b_sys b) (b_setup b) (b_cleanup b)) w) (fun w => exec P f (IReplay t pending kept) w)
  else exec P f (IReplay t pending (kept ++ [b])) w.
Proof. exact replay_step. Qed.
Theorem replayed_runs_own_postponed_commands_come_first : forall (P : program) f t kept w,
  exec P (S f) (IReplay t [] kept) w = Ok (w <| buffer ::= fun b => b ++ kept |>).
Proof. exact replay_end. Qed.
Theorem commands_for_other_targets_keep_their_order : forall (P : program) t pending kept w f, (forall b, In b pending -> b_sys b <> t) ->
  (length pending < f)%nat -> exec P f (IReplay t pending kept) w = Ok (w <| buffer ::= fun b => b ++ kept ++ pending |>).
Proof. exact replay_keeps_the_others_in_order. Qed.
(* nothing is left postponed when the outermost command returns *)
Theorem nothing_left_postponed : forall (P : program) (fuel : nat) (w' : world), run P fuel = Ok w' -> quiescent w'.
Proof. exact run_quiescent_full. Qed.

(* removal and despawn reactions run no later than the end of the tree: when the runner returns nothing is left unread *)
Theorem polled_reactions_run_by_the_end_of_the_tree : forall (P : program) f t su cl w w', RSeq w -> exec P f (IRunner t su cl) w = Ok w' -> Quiet w'.
Proof. exact tree_ends_polled. Qed.

(* non-vacuity: 101 queues [mark-like broadcast to 102; run 101 (itself: postponed); run 103]: 102 reacts in-line, then 103
   runs in-line, and the postponed re-run of 101 happens after 101's own run completed *)
Definition ex_prog : program :=
  mkProgram [mkSys 101 Plain false false None; mkSys 102 Plain false false None; mkSys 103 Plain false false None]
            [((101, 0), [ABroadcast 0 5; ARun 101; ARun 103])]
            [] [] []
            [TFlush [ASpawnSys 101; ASpawnSys 102; ASpawnSys 103]; TFlush [ARegister 0 Persistent 102 [TBroadcast 0]]; TFlush [ARun 101]].
Example ex_runs : exists w', run ex_prog 400 = Ok w'
  /\ map (fun e => match e with EvRun s r _ _ => (s, r) | _ => (0, 0) end)
         (filter (fun e => match e with EvRun _ _ _ _ => true | _ => false end) (log w'))
     = [(101, 0); (102, 0); (103, 0); (101, 1)].
Proof. eexists. split; [vm_compute; reflexivity|]. vm_compute. reflexivity. Qed.

Print Assumptions log_is_append_only.
Print Assumptions queued_commands_telescope.
Print Assumptions command_list_logs_blocks_in_order.
Print Assumptions runner_commands_run_inline.
Print Assumptions consequences_run_before_the_next_command.
Print Assumptions postponed_only_while_the_target_executes.
Print Assumptions postponed_commands_queue_in_order.
Print Assumptions replay_front_to_back.
Print Assumptions replayed_runs_own_postponed_commands_come_first.
Print Assumptions commands_for_other_targets_keep_their_order.
Print Assumptions nothing_left_postponed.
Print Assumptions polled_reactions_run_by_the_end_of_the_tree.
